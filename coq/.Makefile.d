theories/Base/Outcome.vo theories/Base/Outcome.glob theories/Base/Outcome.v.beautified theories/Base/Outcome.required_vo: theories/Base/Outcome.v 
theories/Base/Outcome.vio: theories/Base/Outcome.v 
theories/Base/Outcome.vos theories/Base/Outcome.vok theories/Base/Outcome.required_vos: theories/Base/Outcome.v 
theories/Base/AMap.vo theories/Base/AMap.glob theories/Base/AMap.v.beautified theories/Base/AMap.required_vo: theories/Base/AMap.v 
theories/Base/AMap.vio: theories/Base/AMap.v 
theories/Base/AMap.vos theories/Base/AMap.vok theories/Base/AMap.required_vos: theories/Base/AMap.v 
theories/Model/GState.vo theories/Model/GState.glob theories/Model/GState.v.beautified theories/Model/GState.required_vo: theories/Model/GState.v theories/Base/Outcome.vo theories/Base/AMap.vo
theories/Model/GState.vio: theories/Model/GState.v theories/Base/Outcome.vio theories/Base/AMap.vio
theories/Model/GState.vos theories/Model/GState.vok theories/Model/GState.required_vos: theories/Model/GState.v theories/Base/Outcome.vos theories/Base/AMap.vos
theories/Model/Creation.vo theories/Model/Creation.glob theories/Model/Creation.v.beautified theories/Model/Creation.required_vo: theories/Model/Creation.v theories/Base/Outcome.vo theories/Base/AMap.vo theories/Model/GState.vo
theories/Model/Creation.vio: theories/Model/Creation.v theories/Base/Outcome.vio theories/Base/AMap.vio theories/Model/GState.vio
theories/Model/Creation.vos theories/Model/Creation.vok theories/Model/Creation.required_vos: theories/Model/Creation.v theories/Base/Outcome.vos theories/Base/AMap.vos theories/Model/GState.vos
