(* Association lists standing for Rust's HashMap / IntMap / HashSet.
   [insert] replaces in place when the key is present and appends otherwise,
   so the list order is first-insertion order; iteration order of the real
   hash containers is arbitrary and every observation of it is canonicalised
   (sorted) or quantified over (Permutation) — see DESIGN.md 2.2. *)
From Coq Require Import List Bool.
Import ListNotations.

Section AMap.
  Context {K V : Type}.
  Variable keqb : K -> K -> bool.

  Fixpoint lookup (k : K) (m : list (K * V)) : option V :=
    match m with
    | [] => None
    | (k', v) :: t => if keqb k k' then Some v else lookup k t
    end.

  Fixpoint insert (k : K) (v : V) (m : list (K * V)) : list (K * V) :=
    match m with
    | [] => [(k, v)]
    | (k', v') :: t => if keqb k k' then (k', v) :: t else (k', v') :: insert k v t
    end.

  Definition contains_key (k : K) (m : list (K * V)) : bool :=
    match lookup k m with Some _ => true | None => false end.

  Definition keys (m : list (K * V)) : list K := map fst m.
  Definition values (m : list (K * V)) : list V := map snd m.
End AMap.

Section ASet.
  Context {X : Type}.
  Variable xeqb : X -> X -> bool.

  Definition mem (x : X) (l : list X) : bool := existsb (xeqb x) l.

  (* HashSet::insert *)
  Definition set_add (x : X) (l : list X) : list X :=
    if mem x l then l else l ++ [x].
End ASet.

(* Vec write at an index: None when out of range (the caller turns that into
   a Panic at the Rust site). *)
Fixpoint set_nth {X} (i : nat) (x : X) (l : list X) : option (list X) :=
  match l, i with
  | [], _ => None
  | _ :: t, O => Some (x :: t)
  | h :: t, S j => match set_nth j x t with Some t' => Some (h :: t') | None => None end
  end.
