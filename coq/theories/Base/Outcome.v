(* Outcomes of a modelled Rust call: a value, an Error kind, a panic at a
   named source site, or exhaustion of the model's explicit fuel. *)
From Coq Require Import String List NArith ZArith.
Import ListNotations.

Inductive errkind :=
| ContradictoryPaths | DuplicateEdge | InvalidArgument | NodeNotFound
| NoPartitions | NotAPartition | EdgeNotFound | EdgeWeightNotSpecified
| PowerIterationFailedConvergence | ReadError | SelfLoopsFound | WrongMethod.

Definition errkind_code (k : errkind) : Z :=
  match k with
  | ContradictoryPaths => 1 | DuplicateEdge => 2 | InvalidArgument => 3
  | NodeNotFound => 4 | NoPartitions => 5 | NotAPartition => 6
  | EdgeNotFound => 7 | EdgeWeightNotSpecified => 8
  | PowerIterationFailedConvergence => 9 | ReadError => 10
  | SelfLoopsFound => 11 | WrongMethod => 12
  end%Z.

Definition errkind_eqb (a b : errkind) : bool := Z.eqb (errkind_code a) (errkind_code b).

Inductive outcome (A : Type) : Type :=
| Ok (a : A)
| Err (k : errkind)
| Panic (site : string)
| OutOfFuel.
Arguments Ok {A} a.
Arguments Err {A} k.
Arguments Panic {A} site.
Arguments OutOfFuel {A}.

Definition bind {A B} (o : outcome A) (f : A -> outcome B) : outcome B :=
  match o with
  | Ok a => f a
  | Err k => Err k
  | Panic s => Panic s
  | OutOfFuel => OutOfFuel
  end.

Definition omap {A B} (f : A -> B) (o : outcome A) : outcome B :=
  bind o (fun a => Ok (f a)).

Notation "'do' x <- o ; k" := (bind o (fun x => k))
  (at level 200, x pattern, o at level 100, k at level 200, right associativity).

Definition is_ok {A} (o : outcome A) : bool :=
  match o with Ok _ => true | _ => false end.
Definition is_panic {A} (o : outcome A) : bool :=
  match o with Panic _ => true | _ => false end.
Definition is_fuel {A} (o : outcome A) : bool :=
  match o with OutOfFuel => true | _ => false end.

(* canonical integer code of an outcome's class, shared with the harness:
   0 = Ok, k = Err kind k, 100 = panic, 101 = out of fuel / hang *)
Definition outcome_code {A} (o : outcome A) : Z :=
  match o with
  | Ok _ => 0 | Err k => errkind_code k | Panic _ => 100 | OutOfFuel => 101
  end%Z.

(* unwrap of an Option at a named site *)
Definition unwrap_at {A} (site : string) (o : option A) : outcome A :=
  match o with Some a => Ok a | None => Panic site end.

(* monadic fold over a list, stopping at the first non-Ok *)
Fixpoint ofold {S X} (f : S -> X -> outcome S) (l : list X) (s : S) : outcome S :=
  match l with
  | [] => Ok s
  | x :: t => do s' <- f s x; ofold f t s'
  end.

Fixpoint omapM {X Y} (f : X -> outcome Y) (l : list X) : outcome (list Y) :=
  match l with
  | [] => Ok []
  | x :: t => do y <- f x; do ys <- omapM f t; Ok (y :: ys)
  end.
