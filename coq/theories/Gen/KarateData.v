(* GENERATED on every ./check run by tools/gen_karate.py from
   src/generators/social.rs of the graphrs tree the harness is built from.  Do not edit. *)
From Coq Require Import List ZArith.
Import ListNotations.

(* the adjacency literal: one row per line, true iff the token is "1" *)
Definition karate_rows : list (list bool) :=
 [[false;true;true;true;true;true;true;true;true;false;true;true;true;true;false;false;false;true;false;true;false;true;false;false;false;false;false;false;false;false;false;true;false;false];
  [true;false;true;true;false;false;false;true;false;false;false;false;false;true;false;false;false;true;false;true;false;true;false;false;false;false;false;false;false;false;true;false;false;false];
  [true;true;false;true;false;false;false;true;true;true;false;false;false;true;false;false;false;false;false;false;false;false;false;false;false;false;false;true;true;false;false;false;true;false];
  [true;true;true;false;false;false;false;true;false;false;false;false;true;true;false;false;false;false;false;false;false;false;false;false;false;false;false;false;false;false;false;false;false;false];
  [true;false;false;false;false;false;true;false;false;false;true;false;false;false;false;false;false;false;false;false;false;false;false;false;false;false;false;false;false;false;false;false;false;false];
  [true;false;false;false;false;false;true;false;false;false;true;false;false;false;false;false;true;false;false;false;false;false;false;false;false;false;false;false;false;false;false;false;false;false];
  [true;false;false;false;true;true;false;false;false;false;false;false;false;false;false;false;true;false;false;false;false;false;false;false;false;false;false;false;false;false;false;false;false;false];
  [true;true;true;true;false;false;false;false;false;false;false;false;false;false;false;false;false;false;false;false;false;false;false;false;false;false;false;false;false;false;false;false;false;false];
  [true;false;true;false;false;false;false;false;false;false;false;false;false;false;false;false;false;false;false;false;false;false;false;false;false;false;false;false;false;false;true;false;true;true];
  [false;false;true;false;false;false;false;false;false;false;false;false;false;false;false;false;false;false;false;false;false;false;false;false;false;false;false;false;false;false;false;false;false;true];
  [true;false;false;false;true;true;false;false;false;false;false;false;false;false;false;false;false;false;false;false;false;false;false;false;false;false;false;false;false;false;false;false;false;false];
  [true;false;false;false;false;false;false;false;false;false;false;false;false;false;false;false;false;false;false;false;false;false;false;false;false;false;false;false;false;false;false;false;false;false];
  [true;false;false;true;false;false;false;false;false;false;false;false;false;false;false;false;false;false;false;false;false;false;false;false;false;false;false;false;false;false;false;false;false;false];
  [true;true;true;true;false;false;false;false;false;false;false;false;false;false;false;false;false;false;false;false;false;false;false;false;false;false;false;false;false;false;false;false;false;true];
  [false;false;false;false;false;false;false;false;false;false;false;false;false;false;false;false;false;false;false;false;false;false;false;false;false;false;false;false;false;false;false;false;true;true];
  [false;false;false;false;false;false;false;false;false;false;false;false;false;false;false;false;false;false;false;false;false;false;false;false;false;false;false;false;false;false;false;false;true;true];
  [false;false;false;false;false;true;true;false;false;false;false;false;false;false;false;false;false;false;false;false;false;false;false;false;false;false;false;false;false;false;false;false;false;false];
  [true;true;false;false;false;false;false;false;false;false;false;false;false;false;false;false;false;false;false;false;false;false;false;false;false;false;false;false;false;false;false;false;false;false];
  [false;false;false;false;false;false;false;false;false;false;false;false;false;false;false;false;false;false;false;false;false;false;false;false;false;false;false;false;false;false;false;false;true;true];
  [true;true;false;false;false;false;false;false;false;false;false;false;false;false;false;false;false;false;false;false;false;false;false;false;false;false;false;false;false;false;false;false;false;true];
  [false;false;false;false;false;false;false;false;false;false;false;false;false;false;false;false;false;false;false;false;false;false;false;false;false;false;false;false;false;false;false;false;true;true];
  [true;true;false;false;false;false;false;false;false;false;false;false;false;false;false;false;false;false;false;false;false;false;false;false;false;false;false;false;false;false;false;false;false;false];
  [false;false;false;false;false;false;false;false;false;false;false;false;false;false;false;false;false;false;false;false;false;false;false;false;false;false;false;false;false;false;false;false;true;true];
  [false;false;false;false;false;false;false;false;false;false;false;false;false;false;false;false;false;false;false;false;false;false;false;false;false;true;false;true;false;true;false;false;true;true];
  [false;false;false;false;false;false;false;false;false;false;false;false;false;false;false;false;false;false;false;false;false;false;false;false;false;true;false;true;false;false;false;true;false;false];
  [false;false;false;false;false;false;false;false;false;false;false;false;false;false;false;false;false;false;false;false;false;false;false;true;true;false;false;false;false;false;false;true;false;false];
  [false;false;false;false;false;false;false;false;false;false;false;false;false;false;false;false;false;false;false;false;false;false;false;false;false;false;false;false;false;true;false;false;false;true];
  [false;false;true;false;false;false;false;false;false;false;false;false;false;false;false;false;false;false;false;false;false;false;false;true;true;false;false;false;false;false;false;false;false;true];
  [false;false;true;false;false;false;false;false;false;false;false;false;false;false;false;false;false;false;false;false;false;false;false;false;false;false;false;false;false;false;false;true;false;true];
  [false;false;false;false;false;false;false;false;false;false;false;false;false;false;false;false;false;false;false;false;false;false;false;true;false;false;true;false;false;false;false;false;true;true];
  [false;true;false;false;false;false;false;false;true;false;false;false;false;false;false;false;false;false;false;false;false;false;false;false;false;false;false;false;false;false;false;false;true;true];
  [true;false;false;false;false;false;false;false;false;false;false;false;false;false;false;false;false;false;false;false;false;false;false;false;true;true;false;false;true;false;false;false;true;true];
  [false;false;true;false;false;false;false;false;true;false;false;false;false;false;true;true;false;false;true;false;true;false;true;true;false;false;false;false;false;true;true;true;false;true];
  [false;false;false;false;false;false;false;false;true;true;false;false;false;true;true;true;false;false;true;true;true;false;true;true;false;false;true;true;true;true;true;true;true;false]].

(* every token of the literal is "0" or "1" *)
Definition karate_tokens_clean : bool := true.
(* N of the node range `(0..N)` *)
Definition karate_node_bound : Z := (34)%Z.
(* GraphSpecs { edge_dedupe_strategy: KeepLast, ..GraphSpecs::undirected() } *)
Definition karate_spec_keep_last : bool := true.
Definition karate_spec_undirected : bool := true.
