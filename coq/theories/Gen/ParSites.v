(* GENERATED on every ./check run by tools/gen_parsites.py from the src/ tree of the graphrs
   crate the harness is built from.  Do not edit. *)
From Coq Require Import String List ZArith.
From GV Require Import Spec.ParSiteDef.
Import ListNotations.
Open Scope string_scope.

(* number of crate files scanned (module walk from lib.rs) *)
Definition par_files_scanned : nat := 50.
Definition par_extractor_error : string := "".

(* every rayon call site *)
Definition par_sites : list par_site :=
 [  {| ps_file := "algorithms/centrality/betweenness.rs"; ps_fn := "betweenness_centrality"; ps_via := ""; ps_entry := "into_par_iter";
     ps_src := SrcRange; ps_adaptors := ["map"]; ps_sink := SinkCollectVec;
     ps_post := [PostSeqFor]; ps_shared := [] |};
  {| ps_file := "algorithms/centrality/closeness.rs"; ps_fn := "closeness_centrality"; ps_via := ""; ps_entry := "into_par_iter";
     ps_src := SrcRange; ps_adaptors := ["map"]; ps_sink := SinkCollectVec;
     ps_post := [PostSeqFor]; ps_shared := [] |};
  {| ps_file := "algorithms/shortest_path/dijkstra.rs"; ps_fn := "all_pairs"; ps_via := "all_pairs_par_iter"; ps_entry := "into_par_iter";
     ps_src := SrcVec; ps_adaptors := ["map"]; ps_sink := SinkCollectResultVec;
     ps_post := [PostSeqIter]; ps_shared := [] |};
  {| ps_file := "algorithms/shortest_path/dijkstra.rs"; ps_fn := "multi_source"; ps_via := ""; ps_entry := "into_par_iter";
     ps_src := SrcVec; ps_adaptors := ["map"]; ps_sink := SinkCollectResultVec;
     ps_post := [PostSeqIter]; ps_shared := [] |}].

(* node-count thresholds `number_of_nodes() > K` of the functions with a parallel path *)
Definition par_thresholds : list (string * Z) := [("all_pairs", 20%Z); ("betweenness_centrality", 20%Z); ("closeness_centrality", 20%Z); ("multi_source", 20%Z)].

(* (caller, callee): crate functions calling a function that has a parallel site *)
Definition par_callers : list (string * string) := [("get_all_shortest_paths_involving", "all_pairs")].

(* crate-wide scans *)
Definition unsafe_hits : list string := [].
Definition interior_mutability_hits : list string := [].
