(* Transcription of src/algorithms/centrality/betweenness.rs (bfs, dijkstra,
   accumulate_betweenness, rescale, get_scale, betweenness_centrality) and of
   the heap order of src/algorithms/centrality/fringe_node.rs.  Exact rational
   arithmetic; `f64::MAX` sentinels are [None].  No proofs here. *)
From Coq Require Import String List Bool ZArith NArith Arith QArith.
From GV Require Import Base.Outcome Base.AMap Model.GState Model.Creation Model.Query Model.Cent.
Import ListNotations.
Open Scope string_scope.
Open Scope list_scope.

(* ---------------------------------------------------------------- bfs (betweenness.rs:89-136) *)
Record qs := mkqs {
  qD : list (option nat);      (* D, f64::MAX = None; hop counts *)
  qsig : list Q;               (* sigma *)
  qP : list (list nat);        (* P *)
  qS : list nat;               (* S *)
  qq : list nat                (* fringe: VecDeque, front = head *)
}.

(* the body of `for adj in successors(v)` *)
Definition qrelax (v dv : nat) (sv : Q) (s : qs) (a : nat * Q) : qs :=
  let w := fst a in
  let s1 := match get None (qD s) w with
            | None => mkqs (upd w (Some (S dv)) (qD s)) (qsig s) (qP s) (qS s) (qq s ++ [w])
            | Some _ => s
            end in
  match get None (qD s1) w with
  | Some dw =>
    if Nat.eqb dw (S dv)
    then mkqs (qD s1) (upd w (Qred (get 0 (qsig s1) w + sv)) (qsig s1))
              (upd w (get [] (qP s1) w ++ [v]) (qP s1)) (qS s1) (qq s1)
    else s1
  | None => s1
  end.

Fixpoint qloop (fuel : nat) (g : qadj) (s : qs) : option qs :=
  match fuel with
  | O => None
  | S f =>
    match qq s with
    | [] => Some s
    | v :: t =>
      let s1 := mkqs (qD s) (qsig s) (qP s) (qS s ++ [v]) t in
      match get None (qD s1) v with
      | None => None   (* a queued node always has D set; unreachable *)
      | Some dv => qloop f g (fold_left (qrelax v dv (get 0 (qsig s1) v)) (get [] g v) s1)
      end
    end
  end.

Definition bbfs (g : qadj) (src : nat) : option qs :=
  let n := length g in
  qloop (S n) g (mkqs (upd src (Some O) (repeat None n)) (upd src 1 (repeat 0 n)) (repeat [] n) [] [src]).

(* ---------------------------------------------------------------- dijkstra (betweenness.rs:138-192) *)
Definition fitem := (Q * nat * nat)%type.   (* distance, pred, v  (distance stored positive) *)
Record bs := mkbs {
  bD : list (option Q);
  bseen : list (option Q);
  bsig : list Q;
  bP : list (list nat);
  bS : list nat;
  bfr : list fitem            (* BinaryHeap<FringeNode> as a bag *)
}.

(* BinaryHeap::pop with FringeNode's Ord (distance only): some entry of minimal
   distance.  Which one among equals is not determined by the order; the oracle
   [lastwins] picks the first or the last minimal entry. *)
Fixpoint extract_min (lastwins : bool) (best : fitem) (rest acc : list fitem) : fitem * list fitem :=
  match rest with
  | [] => (best, rev acc)
  | x :: t =>
    if (if lastwins then negb (qlt (fst (fst best)) (fst (fst x)))
        else qlt (fst (fst x)) (fst (fst best)))
    then extract_min lastwins x t (best :: acc)
    else extract_min lastwins best t (x :: acc)
  end.

Definition brelax (v : nat) (d : Q) (s : bs) (a : nat * Q) : bs :=
  let '(w, cost) := a in
  let vw := Qred (d + cost) in
  let Dw := get None (bD s) w in
  let sw := get None (bseen s) w in
  if (match Dw with None => true | Some _ => false end)
     && (match sw with None => true | Some x => qlt vw x end)
  then mkbs (bD s) (upd w (Some vw) (bseen s)) (upd w 0 (bsig s)) (upd w [v] (bP s)) (bS s)
            (bfr s ++ [(vw, v, w)])
  else if oqeqb vw sw
  then mkbs (bD s) (bseen s) (upd w (Qred (get 0 (bsig s) w + get 0 (bsig s) v)) (bsig s))
            (upd w (get [] (bP s) w ++ [v]) (bP s)) (bS s) (bfr s)
  else s.

Fixpoint bloop (fuel : nat) (lw : bool) (g : qadj) (s : bs) : option bs :=
  match fuel with
  | O => None
  | S f =>
    match bfr s with
    | [] => Some s
    | x :: t =>
      let '(b, rest) := extract_min lw x t [] in
      let '(d, pred, v) := b in
      let s1 := mkbs (bD s) (bseen s) (bsig s) (bP s) (bS s) rest in
      match get None (bD s1) v with
      | Some _ => bloop f lw g s1
      | None =>
        let s2 := mkbs (upd v (Some d) (bD s1)) (bseen s1)
                       (upd v (Qred (get 0 (bsig s1) v + get 0 (bsig s1) pred)) (bsig s1))
                       (bP s1) (bS s1 ++ [v]) rest in
        bloop f lw g (fold_left (brelax v d) (get [] g v) s2)
      end
    end
  end.

Definition bdijkstra (lw : bool) (g : qadj) (src : nat) : option bs :=
  let n := length g in
  bloop (2 + nedges g + n) lw g
        (mkbs (repeat None n) (upd src (Some 0) (repeat None n)) (upd src 1 (repeat 0 n))
              (repeat [] n) [] [(0, src, src)]).

(* ---------------------------------------------------------------- accumulate_betweenness (194-206) *)
Definition acc_pred (sig : list Q) (coeff : Q) (dl : list Q) (v : nat) : list Q :=
  upd v (Qred (get 0 dl v + get 0 sig v * coeff)) dl.

Definition acc_step (src : nat) (P : list (list nat)) (sig : list Q)
           (db : list Q * list Q) (w : nat) : list Q * list Q :=
  let '(delta, bet) := db in
  let coeff := Qred ((1 + get 0 delta w) / get 0 sig w) in
  let delta' := fold_left (acc_pred sig coeff) (get [] P w) delta in
  (delta', if Nat.eqb w src then bet else upd w (Qred (get 0 bet w + get 0 delta' w)) bet).

Definition accumulate (src : nat) (S : list nat) (P : list (list nat)) (sig : list Q) (bet : list Q) : list Q :=
  snd (fold_left (acc_step src P sig) (rev S) (repeat 0 (length bet), bet)).

(* ---------------------------------------------------------------- get_scale / rescale (208-230) *)
Definition get_scale (n : nat) (normalized directed : bool) : option Q :=
  if normalized then
    (if Nat.leb n 2 then None else Some (1 / ((qn n - 1) * (qn n - 2))))
  else if directed then None else Some (1 # 2).

Definition rescale (bet : list Q) (n : nat) (normalized directed : bool) : list Q :=
  match get_scale n normalized directed with
  | Some c => map (fun x => Qred (x * c)) bet
  | None => bet
  end.

(* ---------------------------------------------------------------- per-source results *)
Record ssr := mkssr { rS : list nat; rP : list (list nat); rsig : list Q; rsrc : nat }.

Definition single_source (lw weighted : bool) (g : qadj) (src : nat) : option ssr :=
  if weighted then
    match bdijkstra lw g src with Some s => Some (mkssr (bS s) (bP s) (bsig s) src) | None => None end
  else
    match bbfs g src with Some s => Some (mkssr (qS s) (qP s) (qsig s) src) | None => None end.

Definition accumulate_r (bet : list Q) (r : ssr) : list Q := accumulate (rsrc r) (rS r) (rP r) (rsig r) bet.

(* serial path: stage and accumulation interleaved, sources in index order *)
Definition bc_serial (lw weighted : bool) (g : qadj) : option (list Q) :=
  fold_left (fun ob src =>
               match ob with
               | None => None
               | Some bet =>
                 match single_source lw weighted g src with
                 | Some r => Some (accumulate_r bet r)
                 | None => None
                 end
               end) (seq 0 (length g)) (Some (repeat 0 (length g))).

(* rayon path: `(0..n).into_par_iter().map(stage).collect::<Vec<_>>()` yields the
   per-source results in index order whatever the schedule (the stage reads the
   graph only); they are then accumulated sequentially. *)
Fixpoint collect_opt {X} (l : list (option X)) : option (list X) :=
  match l with
  | [] => Some []
  | None :: _ => None
  | Some x :: t => match collect_opt t with Some t' => Some (x :: t') | None => None end
  end.

Definition bc_parallel (lw weighted : bool) (g : qadj) : option (list Q) :=
  match collect_opt (map (single_source lw weighted g) (seq 0 (length g))) with
  | None => None
  | Some rs => Some (fold_left accumulate_r rs (repeat 0 (length g)))
  end.

Definition PAR_THRESHOLD : nat := 20.   (* the literal in betweenness.rs:51 / closeness.rs:60 *)

Definition bc_core (lw weighted : bool) (g : qadj) : option (list Q) :=
  if Nat.ltb PAR_THRESHOLD (length g) then bc_parallel lw weighted g else bc_serial lw weighted g.

Section Betweenness.
  Context {T A : Type}.
  Notation gstate := (gstate T A).

  Definition name_values (site : string) (g : gstate) (vals : list Q) : outcome (list (T * Q)) :=
    omapM (fun iv => match get_node_by_index g (fst iv) with
                     | Some nd => Ok (nname nd, snd iv)
                     | None => Panic site
                     end) (combine (seq 0 (length vals)) vals).

  (* betweenness.rs:41 betweenness_centrality *)
  Definition betweenness_centrality (lw : bool) (g : gstate) (weighted normalized : bool)
    : outcome (list (T * Q)) :=
    let n := number_of_nodes g in
    match conv_adj weighted (successors_vec g) with
    | None => Panic site_nan
    | Some a =>
      if negb (adj_ok n a) then Panic "betweenness.rs: successors_vec index out of range" else
      match bc_core lw weighted a with
      | None => OutOfFuel
      | Some bet =>
        name_values "betweenness.rs:80" g
          (rescale bet (length (get_all_nodes g)) normalized (directed (sp g)))
      end
    end.
End Betweenness.
