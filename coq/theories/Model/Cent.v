(* Shared pieces of the centrality models (betweenness.rs, closeness.rs):
   index-vector helpers, exact rational comparisons, and the view of the
   private index [successors_vec] (the only thing `get_successor_nodes_by_index`
   reads) as an adjacency with rational costs.  No proofs here. *)
From Coq Require Import String List Bool ZArith NArith Arith QArith.
From GV Require Import Base.Outcome Base.AMap Model.GState.
Import ListNotations.
Open Scope list_scope.

(* Vec read / write.  The algorithms below run on an adjacency that has been
   validated by [adj_ok] (one row per node, every stored index < n), exactly the
   condition under which none of the Rust index expressions `D[w]`, `sigma[w]`,
   `P[w]`, `successors_vec[v]` can be out of range; a state violating it is
   mapped to [Panic] by the entry points before the core runs.  Inside the core
   the default of [get] and the no-op of [upd] are therefore never reached. *)
Definition get {X} (d : X) (l : list X) (i : nat) : X := nth i l d.

Fixpoint upd {X} (i : nat) (x : X) (l : list X) : list X :=
  match l, i with
  | [], _ => []
  | _ :: t, O => x :: t
  | h :: t, S j => h :: upd j x t
  end.

Definition qlt (a b : Q) : bool := match Qcompare a b with Lt => true | _ => false end.
Definition qle (a b : Q) : bool := match Qcompare a b with Gt => false | _ => true end.
Definition qeqb (a b : Q) : bool := Qeq_bool a b.
Definition oqeqb (a : Q) (b : option Q) : bool :=
  match b with Some y => qeqb a y | None => false end.
Definition qz (z : Z) : Q := inject_Z z.
Definition qn (n : nat) : Q := inject_Z (Z.of_nat n).

(* adjacency with rational costs: row v lists (w, cost of v->w) *)
Definition qadj := list (list (nat * Q)).

Definition nedges (g : qadj) : nat := fold_right (fun r k => (length r + k)%nat) O g.

(* `adj.weight` as the algorithms use it: ignored (1 per hop) in hop-count mode;
   the stored real weight in weighted mode.  A NaN weight in weighted mode is
   outside the modelled domain (IEEE NaN arithmetic is not modelled) -> None. *)
Definition conv_entry (weighted : bool) (a : adj) : option (nat * Q) :=
  if weighted then match snd a with Some z => Some (fst a, qz z) | None => None end
  else Some (fst a, 1%Q).

Fixpoint conv_row (weighted : bool) (r : list adj) : option (list (nat * Q)) :=
  match r with
  | [] => Some []
  | a :: t =>
    match conv_entry weighted a, conv_row weighted t with
    | Some e, Some t' => Some (e :: t')
    | _, _ => None
    end
  end.

Fixpoint conv_adj (weighted : bool) (sv : list (list adj)) : option qadj :=
  match sv with
  | [] => Some []
  | r :: t =>
    match conv_row weighted r, conv_adj weighted t with
    | Some r', Some t' => Some (r' :: t')
    | _, _ => None
    end
  end.

Definition adj_ok (n : nat) (g : qadj) : bool :=
  Nat.eqb (length g) n && forallb (forallb (fun e => Nat.ltb (fst e) n)) g.

Definition site_nan : string := "model-domain: NaN edge weight in weighted mode (IEEE NaN arithmetic is not modelled)".
