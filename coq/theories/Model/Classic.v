(* Transcription of src/generators/classic.rs (complete_graph) and
   src/generators/social.rs (karate_club_graph), over the twelve-field graph
   state of Model/Creation.v.  itertools' [combinations(2)] / [permutations(2)]
   of a list are written out as the lexicographic enumerations they produce.
   No proofs here. *)
From Coq Require Import String List Bool ZArith Arith.
From GV Require Import Base.Outcome Base.AMap Model.GState Model.Creation.
Import ListNotations.
Open Scope string_scope.
Open Scope list_scope.

Notation gnode := (node Z unit).
Notation gedge := (edge Z unit).
Notation ggraph := (gstate Z unit).

(* `0..num_nodes` for an i32: empty when num_nodes <= 0 *)
Definition zrange (n : Z) : list Z := map Z.of_nat (seq 0 (Z.to_nat n)).

(* itertools: (l).combinations(2) — pairs of positions i < j, lexicographic *)
Fixpoint combinations2 {X} (l : list X) : list (X * X) :=
  match l with
  | [] => []
  | x :: t => map (pair x) t ++ combinations2 t
  end.

(* itertools: (l).permutations(2) — pairs of distinct positions, lexicographic *)
Fixpoint permutations2_from {X} (pre l : list X) : list (X * X) :=
  match l with
  | [] => []
  | x :: t => map (pair x) (pre ++ t) ++ permutations2_from (pre ++ [x]) t
  end.
Definition permutations2 {X} (l : list X) : list (X * X) := permutations2_from [] l.

(* Node::from_name, Edge::new *)
Definition node_from_name (i : Z) : gnode := mknode i None.
Definition edge_new (p : Z * Z) : gedge := mkedge (fst p) (snd p) None None.

(* src/graph_specs.rs: GraphSpecs::undirected() / directed() *)
Definition specs_undirected : specs := mkspecs false DErr MErr false false SErr.
Definition specs_directed : specs := mkspecs true DErr MErr false false SErr.
Definition with_create (s : specs) : specs :=
  mkspecs (directed s) (dd s) MCreate (multi s) (selfloops s) (slf s).
Definition with_keep_last (s : specs) : specs :=
  mkspecs (directed s) DKeepLast (ms s) (multi s) (selfloops s) (slf s).

(* classic.rs:20 complete_graph (after the fix of F9: the nodes 0..n-1 are passed in) *)
Definition complete_pairs (n : Z) (dir : bool) : list (Z * Z) :=
  if dir then permutations2 (zrange n) else combinations2 (zrange n).

Definition complete_graph (n : Z) (dir : bool) : outcome ggraph :=
  let nodes := map node_from_name (zrange n) in
  let edges := map edge_new (complete_pairs n dir) in
  let sp := with_create (if dir then specs_directed else specs_undirected) in
  match new_from_nodes_and_edges Z.eqb Z.ltb nodes edges sp with
  | Ok g => Ok g
  | Err _ => Panic "classic.rs:40 unwrap"
  | Panic s => Panic s
  | OutOfFuel => OutOfFuel
  end.

(* social.rs:12 karate_club_graph.  [dat] is the adjacency literal, one row per
   '\n'-separated line, one entry per ' '-separated token, true iff the token
   is "1" (regenerated from the source into Gen/KarateData.v on every run);
   [nn] is the literal bound of the node range `0..34`. *)
Fixpoint enumerate_from {X} (i : Z) (l : list X) : list (Z * X) :=
  match l with [] => [] | x :: t => (i, x) :: enumerate_from (i + 1)%Z t end.

Definition karate_pairs (dat : list (list bool)) : list (Z * Z) :=
  flat_map (fun rl =>
              flat_map (fun cv => if (snd cv : bool) then [(fst rl, fst cv)] else [])
                       (enumerate_from 0%Z (snd rl)))
           (enumerate_from 0%Z dat).

Definition karate_club_graph (dat : list (list bool)) (nn : Z) : outcome ggraph :=
  let nodes := map node_from_name (zrange nn) in
  let edges := map edge_new (karate_pairs dat) in
  match new_from_nodes_and_edges Z.eqb Z.ltb nodes edges (with_keep_last specs_undirected) with
  | Ok g => Ok g
  | Err _ => Panic "social.rs:68 unwrap"
  | Panic s => Panic s
  | OutOfFuel => OutOfFuel
  end.
