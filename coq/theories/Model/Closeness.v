(* Transcription of src/algorithms/centrality/closeness.rs:
   closeness_centrality, single_source_shortest_path_length_unweighted
   (level-synchronous BFS over an IntSet / IntMap), ..._weighted (the same heap
   loop as betweenness.rs's dijkstra without P and S) and get_node_centrality.
   Directed graphs are first rebuilt by `reverse()` (Model/Derived.v).
   No proofs here. *)
From Coq Require Import String List Bool ZArith NArith Arith QArith.
From GV Require Import Base.Outcome Base.AMap Model.GState Model.Creation Model.Query Model.Derived.
From GV Require Import Model.Cent Model.Brandes.
Import ListNotations.
Open Scope string_scope.
Open Scope list_scope.

(* ---------------------------------------------------------------- unweighted (closeness.rs:94-131) *)
Definition nat_mem (x : nat) (l : list nat) : bool := existsb (Nat.eqb x) l.

(* `for v in next_level.clone() { if !seen.contains_key(&v) { seen.insert(v, level); found.push(v); results.push((v, level)) } }`
   [seen] is the IntMap's key set; IntSet iteration order is arbitrary — the list order
   stands for it and nothing observable depends on it (only the sum and the length of
   [results] are used). *)
Fixpoint visit_level (level : Q) (next : list nat) (seen found : list nat) (results : list (nat * Q))
  : list nat * list nat * list (nat * Q) :=
  match next with
  | [] => (seen, found, results)
  | v :: t =>
    if nat_mem v seen then visit_level level t seen found results
    else visit_level level t (seen ++ [v]) (found ++ [v]) (results ++ [(v, level)])
  end.

(* `next_level.clear(); for v in found { for w in successors(v) { next_level.insert(w) } }` *)
Definition expand (g : qadj) (found : list nat) : list nat :=
  fold_left (fun nl v => fold_left (fun nl2 a => set_add Nat.eqb (fst a) nl2) (get [] g v) nl) found [].

Fixpoint ulevels (fuel : nat) (g : qadj) (n : nat) (level : Q) (next seen : list nat)
         (results : list (nat * Q)) : option (list (nat * Q)) :=
  match next with
  | [] => Some results                       (* while next_level.len() > 0 *)
  | _ =>
    match fuel with
    | O => None
    | S f =>
      let '(seen', found, results') := visit_level level next seen [] results in
      if Nat.eqb (length seen') n then Some results'
      else ulevels f g n (Qred (level + 1)) (expand g found) seen' results'
    end
  end.

Definition sssp_unweighted (g : qadj) (src : nat) : option (list (nat * Q)) :=
  ulevels (2 + length g) g (length g) 0 [src] [] [].

(* ---------------------------------------------------------------- weighted (closeness.rs:133-181)
   Line for line the loop of betweenness.rs's dijkstra (same FringeNode heap, same
   seen/D/sigma updates; sigma is computed and never read); P and S are not kept.
   `D.into_iter().enumerate().filter(|(_, d)| *d != f64::MAX)` *)
Fixpoint enum_some (i : nat) (d : list (option Q)) : list (nat * Q) :=
  match d with
  | [] => []
  | Some x :: t => (i, x) :: enum_some (S i) t
  | None :: t => enum_some (S i) t
  end.

Definition sssp_weighted (lw : bool) (g : qadj) (src : nat) : option (list (nat * Q)) :=
  match bdijkstra lw g src with
  | Some s => Some (enum_some 0 (bD s))
  | None => None
  end.

(* ---------------------------------------------------------------- get_node_centrality (183-200) *)
Definition qsum (l : list Q) : Q := fold_left Qplus l 0.

Definition get_node_centrality (sp : list (nat * Q)) (num_nodes : nat) (wf_improved : bool) : outcome Q :=
  let totsp := Qred (qsum (map snd sp)) in
  if qlt 0 totsp && Nat.ltb 1 num_nodes then
    match length sp with
    | O => Panic "closeness.rs:192 usize underflow"     (* shortest_paths.len() - 1 *)
    | S k =>
      let s := qn k in
      let cc := Qred (s / totsp) in
      if wf_improved then Ok (Qred (cc * (s / (qn num_nodes - 1)))) else Ok cc
    end
  else Ok 0.

Definition sssp (lw weighted : bool) (g : qadj) (src : nat) : option (list (nat * Q)) :=
  if weighted then sssp_weighted lw g src else sssp_unweighted g src.

Section Closeness.
  Context {T A : Type}.
  Variable teqb : T -> T -> bool.
  Variable tltb : T -> T -> bool.
  Notation gstate := (gstate T A).

  (* the per-source body shared by the serial loop and the rayon map; the rayon
     path collects (name, cc) pairs in index order and inserts them sequentially
     into the HashMap, so both paths produce the same map *)
  Definition closeness_one (lw weighted wf : bool) (tg : gstate) (a : qadj) (n src : nat) : outcome (T * Q) :=
    match sssp lw weighted a src with
    | None => OutOfFuel
    | Some sp =>
      do cc <- get_node_centrality sp n wf;
      match get_node_by_index tg src with
      | Some nd => Ok (nname nd, cc)
      | None => Panic "closeness.rs:73/86"
      end
    end.

  (* closeness.rs:43 closeness_centrality *)
  Definition closeness_centrality (lw : bool) (g : gstate) (weighted wf_improved : bool)
    : outcome (list (T * Q)) :=
    do tg <- (if directed (sp g)
              then match reverse teqb tltb g with
                   | Ok r => Ok r
                   | Err _ => Panic "closeness.rs:55"
                   | Panic s => Panic s
                   | OutOfFuel => OutOfFuel
                   end
              else Ok g);
    let n := number_of_nodes tg in
    match conv_adj weighted (successors_vec tg) with
    | None => Panic site_nan
    | Some a =>
      if negb (adj_ok n a) then Panic "closeness.rs: successors_vec index out of range" else
      omapM (closeness_one lw weighted wf_improved tg a n) (seq 0 n)
    end.
End Closeness.
