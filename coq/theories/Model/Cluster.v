(* Transcription of src/algorithms/cluster/{mod,undirected,directed,utility}.rs and
   src/ext/{hashset,iterator}.rs as they are AFTER the repairs
     - neighbour lookups go through the map of ALL nodes (proper subsets no longer panic),
     - a requested name that is not in the graph is NodeNotFound,
     - transitivity uses degree * degree.saturating_sub(1),
     - triangles / transitivity / generalized_degree refuse multi-edge graphs.
   Unweighted forms only (the weighted forms need IEEE cbrt; see the manifest note).
   f64 results are exact rationals; a float division by zero (inf / NaN in Rust)
   is reported as a Panic site so that it can never be mistaken for a value.
   HashMaps are association lists with unique keys in first-insertion order;
   HashSets duplicate-free lists.  No proofs here. *)
From Coq Require Import String List Bool ZArith NArith Arith QArith.
From GV Require Import Base.Outcome Base.AMap Model.GState Model.Creation Model.Query Model.Components.
Import ListNotations.
Close Scope Q_scope.
Open Scope string_scope.
Open Scope list_scope.

Section Cluster.
  Context {T A : Type}.
  Variable teqb : T -> T -> bool.

  Notation gstate := (gstate T A).

  (* ext/hashset.rs without *)
  Definition without (x : T) (l : list T) : list T := filter (fun v => negb (teqb v x)) l.
  (* HashSet::intersection(..).count() / collect().len() *)
  Definition inter (a b : list T) : list T := filter (fun x => mem_name teqb x b) a.

  (* iter.collect::<HashMap<K,V>>() : later pairs overwrite earlier ones *)
  Definition collect_map {K V} (keqb : K -> K -> bool) (l : list (K * V)) : list (K * V) :=
    fold_left (fun m kv => insert keqb (fst kv) (snd kv) m) l [].

  (* ext/iterator.rs chunk_by_count on a sorted stream: run-length encoding *)
  Fixpoint chunk_by_count (l : list nat) : list (nat * nat) :=
    match l with
    | [] => []
    | x :: t =>
      match chunk_by_count t with
      | (y, c) :: r => if Nat.eqb x y then (y, S c) :: r else (x, 1) :: (y, c) :: r
      | [] => [(x, 1)]
      end
    end.

  (* graph.get_neighbor_nodes(n).unwrap() names, collected into a HashSet *)
  Definition neighbor_name_set (g : gstate) (n : T) : outcome (list T) :=
    match get_neighbor_nodes teqb g n with
    | Ok l => Ok (to_hashset teqb (map nname l))
    | Err _ => Panic "utility.rs:66 get_neighbor_nodes unwrap"
    | Panic s => Panic s
    | OutOfFuel => OutOfFuel
    end.

  (* utility.rs:49 get_neighbors_of_nodes *)
  Definition requested_names (g : gstate) (node_names : option (list T)) : list T :=
    match node_names with
    | None => get_all_node_names g
    | Some [] => get_all_node_names g
    | Some l => l
    end.

  Definition get_neighbors_of_nodes (node_names : option (list T)) (g : gstate)
    : outcome (list (T * list T)) :=
    do kvs <- omapM (fun n => do hs <- neighbor_name_set g n; Ok (n, hs)) (requested_names g node_names);
    Ok (collect_map teqb kvs).

  Record tad := mktad {
    t_name : T;
    t_degree : nat;
    t_ntri : nat;                       (* double counted *)
    t_gdeg : list (nat * nat)
  }.

  (* undirected.rs:44 get_triangles_and_degrees_for_node *)
  Definition tad_for_node (n : T) (n_nbrs : list T) (nmap : list (T * list T)) : outcome tad :=
    let nbrs := without n n_nbrs in
    do counts <- omapM (fun w =>
                          match lookup teqb w nmap with
                          | None => Panic "undirected.rs:56 neighbors_map.get(w).unwrap"
                          | Some wn => Ok (length (inter (without w wn) nbrs))
                          end) nbrs;
    let gd := collect_map Nat.eqb (chunk_by_count (sort_nat counts)) in
    Ok (mktad n (length nbrs) (fold_left (fun a kv => a + fst kv * snd kv) gd 0) gd).

  (* undirected.rs:27 get_triangles_and_degrees (repaired: lookup map over all nodes) *)
  Definition get_triangles_and_degrees (g : gstate) (node_names : option (list T)) : outcome (list tad) :=
    do full <- get_neighbors_of_nodes None g;
    do req <- get_neighbors_of_nodes node_names g;
    omapM (fun kv => tad_for_node (fst kv) (snd kv) full) req.

  (* mod.rs ensure_nodes_exist (repair) *)
  Definition ensure_nodes_exist (g : gstate) (node_names : option (list T)) : outcome unit :=
    match node_names with
    | None => Ok tt
    | Some l => do b <- has_nodes teqb g l; if b then Ok tt else Err NodeNotFound
    end.

  (* mod.rs triangles *)
  Definition triangles (g : gstate) (node_names : option (list T)) : outcome (list (T * nat)) :=
    do _ <- ensure_undirected g;
    do _ <- ensure_not_multi_edges g;
    do _ <- ensure_nodes_exist g node_names;
    do tads <- get_triangles_and_degrees g node_names;
    Ok (collect_map teqb (map (fun t => (t_name t, t_ntri t / 2)) tads)).

  (* mod.rs generalized_degree *)
  Definition generalized_degree (g : gstate) (node_names : option (list T))
    : outcome (list (T * list (nat * nat))) :=
    do _ <- ensure_undirected g;
    do _ <- ensure_not_multi_edges g;
    do _ <- ensure_nodes_exist g node_names;
    do tads <- get_triangles_and_degrees g node_names;
    Ok (collect_map teqb (map (fun t => (t_name t, t_gdeg t)) tads)).

  Definition qn (n : nat) : Q := inject_Z (Z.of_nat n).
  (* usize::saturating_sub *)
  Definition sat_sub (a b : nat) : nat := Nat.sub a b.

  (* f64 division: a zero divisor with a non-zero dividend is inf, 0/0 is NaN *)
  Definition fdiv (site : string) (a b : Q) : outcome Q :=
    if Qeq_bool b 0 then Panic site else Ok (Qred (a / b)%Q).

  (* mod.rs transitivity *)
  Definition transitivity (g : gstate) : outcome Q :=
    do _ <- ensure_undirected g;
    do _ <- ensure_not_multi_edges g;
    if Nat.eqb (length (get_all_nodes g)) 0 then Ok 0%Q else
    do tads <- get_triangles_and_degrees g None;
    let tri := fold_left (fun a t => a + t_ntri t) tads 0 in
    let contri := fold_left (fun a t => a + t_degree t * sat_sub (t_degree t) 1) tads 0 in
    if Nat.eqb tri 0 then Ok 0%Q else fdiv "mod.rs:transitivity inf" (qn tri) (qn contri).

  (* mod.rs get_clustering_undirected *)
  Definition clustering_undirected (g : gstate) (node_names : option (list T)) : outcome (list (T * Q)) :=
    do tads <- get_triangles_and_degrees g node_names;
    do kvs <- omapM (fun t =>
                       if Nat.eqb (t_ntri t) 0 then Ok (t_name t, 0%Q) else
                       do c <- fdiv "mod.rs:clustering inf" (qn (t_ntri t))
                                    (qn (t_degree t) * (qn (t_degree t) - 1))%Q;
                       Ok (t_name t, c)) tads;
    Ok (collect_map teqb kvs).

  (* utility.rs:16 get_adjacent_nodes_without *)
  Definition adjacent_without (g : gstate) (x : T) (preds : bool) : outcome (list T) :=
    match (if preds then get_predecessor_node_names teqb g x else get_successor_node_names teqb g x) with
    | Ok l => Ok (without x (to_hashset teqb l))
    | Err _ => Panic "utility.rs:29 unwrap"
    | Panic s => Panic s
    | OutOfFuel => OutOfFuel
    end.

  Record dtad := mkdtad { d_name : T; d_total : nat; d_recip : nat; d_tri : nat }.

  (* directed.rs:22 get_directed_triangles_and_degrees *)
  Definition dtad_for_node (g : gstate) (i : T) : outcome dtad :=
    do ipreds <- adjacent_without g i true;
    do isuccs <- adjacent_without g i false;
    do cs <- omapM (fun j =>
                      do jpreds <- adjacent_without g j true;
                      do jsuccs <- adjacent_without g j false;
                      Ok (length (inter ipreds jpreds) + length (inter ipreds jsuccs)
                          + length (inter isuccs jpreds) + length (inter isuccs jsuccs)))
                   (ipreds ++ isuccs);
    Ok (mkdtad i (length ipreds + length isuccs) (length (inter ipreds isuccs))
               (fold_left Nat.add cs 0)).

  Definition get_directed_triangles_and_degrees (g : gstate) (node_names : option (list T))
    : outcome (list dtad) :=
    omapM (dtad_for_node g)
          (match node_names with None => get_all_node_names g | Some l => l end).

  (* mod.rs get_clustering_directed *)
  Definition clustering_directed (g : gstate) (node_names : option (list T)) : outcome (list (T * Q)) :=
    do ds <- get_directed_triangles_and_degrees g node_names;
    do kvs <- omapM (fun d =>
                       if Nat.eqb (d_tri d) 0 then Ok (d_name d, 0%Q) else
                       do c <- fdiv "mod.rs:directed clustering inf" (qn (d_tri d))
                                    ((qn (d_total d) * (qn (d_total d) - 1) - 2 * qn (d_recip d)) * 2)%Q;
                       Ok (d_name d, c)) ds;
    Ok (collect_map teqb kvs).

  (* mod.rs clustering, weighted = false *)
  Definition clustering (g : gstate) (node_names : option (list T)) : outcome (list (T * Q)) :=
    do _ <- ensure_not_multi_edges g;
    do _ <- ensure_nodes_exist g node_names;
    if directed (sp g) then clustering_directed g node_names
    else clustering_undirected g node_names.

  (* mod.rs average_clustering: None = NaN (no value counted) *)
  Definition average_clustering (g : gstate) (node_names : option (list T)) (count_zeros : bool)
    : outcome (option Q) :=
    do c <- clustering g node_names;
    let vs := filter (fun v => count_zeros || negb (Qeq_bool v 0)) (map snd c) in
    match vs with
    | [] => Ok None
    | _ => Ok (Some (Qred (fold_left Qplus vs 0 / qn (length vs))%Q))
    end.
End Cluster.
