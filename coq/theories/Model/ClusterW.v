(* Transcription of the WEIGHTED forms of src/algorithms/cluster:
   undirected_weighted.rs, directed_weighted.rs, utility.rs get_normalized_edge_weight,
   and the weighted = true paths of mod.rs clustering / average_clustering.
   f64::cbrt is modelled EXACTLY and only where it is exact: [qcbrt] returns the rational
   cube root when numerator and denominator are perfect cubes and the model reports
   Panic "cbrt: not a perfect cube" otherwise (so the correspondence is run on weights that
   are perfect cubes: every product of three normalised weights then has a rational cube
   root; IEEE rounding of the implementation is covered by the 1e-9 tolerance).
   No proofs here. *)
From Coq Require Import String List Bool ZArith NArith Arith QArith.
From GV Require Import Base.Outcome Base.AMap Model.GState Model.Creation Model.Query
     Model.Components Model.Cluster.
Import ListNotations.
Close Scope Q_scope.
Open Scope string_scope.
Open Scope list_scope.

(* integer cube root by upward search *)
Fixpoint icbrt_search (fuel : nat) (r x : Z) : option Z :=
  match fuel with
  | O => None
  | S f =>
    let c := (r * r * r)%Z in
    if Z.eqb c x then Some r else if Z.ltb x c then None else icbrt_search f (r + 1)%Z x
  end.

Definition qcbrt (q : Q) : option Q :=
  let r := Qred q in
  let n := Qnum r in
  let d := Zpos (Qden r) in
  match icbrt_search 4096 0 (Z.abs n), icbrt_search 4096 0 d with
  | Some a, Some (Zpos b) => Some (Qmake (if Z.ltb n 0 then Z.opp a else a) b)
  | _, _ => None
  end.

Section ClusterW.
  Context {T A : Type}.
  Variable teqb : T -> T -> bool.
  Variable tltb : T -> T -> bool.

  Notation gstate := (gstate T A).

  Definition wq (w : weight) : outcome Q :=
    match w with Some z => Ok (inject_Z z) | None => Panic "NaN weight in weighted clustering" end.

  (* edges.iter().map(|e| e.weight).reduce(f64::max), 1.0 when there is no edge *)
  Definition max_weight (g : gstate) : outcome Q :=
    match get_all_edges g with
    | [] => Ok 1%Q
    | e :: t =>
      do w0 <- wq (ew e);
      ofold (fun m e' => do w <- wq (ew e'); Ok (if Qle_bool m w then w else m)) t w0
    end.

  Definition cbrt_at (q : Q) : outcome Q :=
    match qcbrt q with Some r => Ok r | None => Panic "cbrt: not a perfect cube" end.

  (* utility.rs get_normalized_edge_weight *)
  Definition norm_weight (g : gstate) (mw : Q) (u v : T) : outcome Q :=
    match get_edge teqb g u v with
    | Ok e => do w <- wq (ew e); fdiv "utility.rs: weight / max_weight" w mw
    | Err _ => fdiv "utility.rs: 1 / max_weight" 1%Q mw
    | Panic s => Panic s
    | OutOfFuel => OutOfFuel
    end.

  Definition qsum (l : list Q) : Q := fold_left Qplus l 0%Q.

  Record wtad := mkwtad { w_name : T; w_degree : nat; w_tri : Q }.

  (* undirected_weighted.rs get_weighted_triangles_and_degrees_for_node *)
  Definition wtad_for_node (g : gstate) (mw : Q) (n : T) (n_nbrs : list T) : outcome wtad :=
    let nbrs := without teqb n n_nbrs in
    do r <- ofold (fun (st : list T * Q) (u : T) =>
                     let seen := set_add teqb u (fst st) in
                     do un <- neighbor_name_set teqb g u;
                     let unbrs := filter (fun x => negb (mem_name teqb x seen)) un in
                     do wnu <- norm_weight g mw n u;
                     do terms <- omapM (fun k =>
                                          do wuk <- norm_weight g mw u k;
                                          do wkn <- norm_weight g mw k n;
                                          cbrt_at (wnu * wuk * wkn)%Q) (inter teqb nbrs unbrs);
                     Ok (seen, (snd st + qsum terms)%Q)) nbrs ([], 0%Q);
    Ok (mkwtad n (length nbrs) (Qred (snd r * 2)%Q)).

  Definition get_weighted_triangles_and_degrees (g : gstate) (node_names : option (list T))
    : outcome (list wtad) :=
    do mw <- max_weight g;
    do req <- get_neighbors_of_nodes teqb node_names g;
    omapM (fun kv => wtad_for_node g mw (fst kv) (snd kv)) req.

  (* mod.rs get_clustering_undirected_weighted *)
  Definition clustering_undirected_weighted (g : gstate) (node_names : option (list T))
    : outcome (list (T * Q)) :=
    do ws <- get_weighted_triangles_and_degrees g node_names;
    do kvs <- omapM (fun t =>
                       if Qeq_bool (w_tri t) 0 then Ok (w_name t, 0%Q) else
                       do c <- fdiv "mod.rs:weighted clustering inf" (w_tri t)
                                    (qn (w_degree t) * (qn (w_degree t) - 1))%Q;
                       Ok (w_name t, c)) ws;
    Ok (collect_map teqb kvs).

  Record dwtad := mkdwtad { dw_name : T; dw_total : nat; dw_recip : nat; dw_tri : Q }.

  (* directed_weighted.rs get_all_directed_triangles *)
  Definition all_directed_triangles (g : gstate) (mw : Q) (i : T) (ipreds isuccs : list T) (iter_preds : bool)
    : outcome Q :=
    do parts <- omapM (fun j =>
        let '(i_, j_) := if iter_preds then (j, i) else (i, j) in
        do jpreds <- adjacent_without teqb g j true;
        do jsuccs <- adjacent_without teqb g j false;
        do wij <- norm_weight g mw i_ j_;
        do a <- omapM (fun k => do x <- norm_weight g mw k i; do y <- norm_weight g mw k j;
                                cbrt_at (wij * x * y)%Q) (inter teqb ipreds jpreds);
        do b <- omapM (fun k => do x <- norm_weight g mw k i; do y <- norm_weight g mw j k;
                                cbrt_at (wij * x * y)%Q) (inter teqb ipreds jsuccs);
        do c <- omapM (fun k => do x <- norm_weight g mw i k; do y <- norm_weight g mw k j;
                                cbrt_at (wij * x * y)%Q) (inter teqb isuccs jpreds);
        do d <- omapM (fun k => do x <- norm_weight g mw i k; do y <- norm_weight g mw j k;
                                cbrt_at (wij * x * y)%Q) (inter teqb isuccs jsuccs);
        Ok (qsum a + qsum b + qsum c + qsum d)%Q)
      (if iter_preds then ipreds else isuccs);
    Ok (qsum parts).

  Definition dwtad_for_node (g : gstate) (mw : Q) (i : T) : outcome dwtad :=
    do ipreds <- adjacent_without teqb g i true;
    do isuccs <- adjacent_without teqb g i false;
    do tp <- all_directed_triangles g mw i ipreds isuccs true;
    do ts <- all_directed_triangles g mw i ipreds isuccs false;
    Ok (mkdwtad i (length ipreds + length isuccs) (length (inter teqb ipreds isuccs)) (Qred (tp + ts)%Q)).

  Definition get_directed_weighted_triangles_and_degrees (g : gstate) (node_names : option (list T))
    : outcome (list dwtad) :=
    do mw <- max_weight g;
    omapM (dwtad_for_node g mw)
          (match node_names with None => get_all_node_names g | Some l => l end).

  Definition clustering_directed_weighted (g : gstate) (node_names : option (list T))
    : outcome (list (T * Q)) :=
    do ds <- get_directed_weighted_triangles_and_degrees g node_names;
    do kvs <- omapM (fun d =>
                       if Qeq_bool (dw_tri d) 0 then Ok (dw_name d, 0%Q) else
                       do c <- fdiv "mod.rs:directed weighted clustering inf" (dw_tri d)
                                    ((qn (dw_total d) * (qn (dw_total d) - 1) - 2 * qn (dw_recip d)) * 2)%Q;
                       Ok (dw_name d, c)) ds;
    Ok (collect_map teqb kvs).

  (* ensure.rs ensure_weighted *)
  Definition ensure_weighted (g : gstate) : outcome unit :=
    if edges_have_weight g then Ok tt else Err EdgeWeightNotSpecified.

  (* mod.rs clustering, weighted = true *)
  Definition clustering_weighted (g : gstate) (node_names : option (list T)) : outcome (list (T * Q)) :=
    do _ <- ensure_not_multi_edges g;
    do _ <- ensure_nodes_exist teqb g node_names;
    do _ <- ensure_weighted g;
    if directed (sp g) then clustering_directed_weighted g node_names
    else clustering_undirected_weighted g node_names.

  Definition average_clustering_weighted (g : gstate) (node_names : option (list T)) (count_zeros : bool)
    : outcome (option Q) :=
    do c <- clustering_weighted g node_names;
    let vs := filter (fun v => count_zeros || negb (Qeq_bool v 0)) (map snd c) in
    match vs with
    | [] => Ok None
    | _ => Ok (Some (Qred (fold_left Qplus vs 0 / qn (length vs))%Q))
    end.
End ClusterW.
