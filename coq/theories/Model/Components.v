(* Transcription of src/algorithms/components/connectivity.rs and
   weak_connectivity.rs (connected_components, number_of_connected_components,
   node_connected_component [after the NodeNotFound repair], weakly_connected_components,
   plain_bfs, bfs_equal_size_partitions) over the twelve-field state.
   Hash sets are duplicate-free lists in first-insertion order; every
   observation of their order is canonicalised by the Run module / driver.
   No proofs here. *)
From Coq Require Import String List Bool ZArith NArith Arith.
From GV Require Import Base.Outcome Base.AMap Model.GState Model.Creation Model.Query.
Import ListNotations.
Open Scope string_scope.
Open Scope list_scope.

Section Components.
  Context {T A : Type}.
  Variable teqb : T -> T -> bool.

  Notation gstate := (gstate T A).

  (* ext/vec.rs to_hashset: iter().cloned().collect::<HashSet>() *)
  Definition to_hashset (l : list T) : list T :=
    fold_left (fun acc x => set_add teqb x acc) l [].

  (* ensure.rs *)
  Definition ensure_undirected (g : gstate) : outcome unit :=
    if directed (sp g) then Err WrongMethod else Ok tt.
  Definition ensure_directed (g : gstate) : outcome unit :=
    if directed (sp g) then Ok tt else Err WrongMethod.
  Definition ensure_not_multi_edges (g : gstate) : outcome unit :=
    if multi (sp g) then Err WrongMethod else Ok tt.

  (* connectivity.rs:33 connected_components *)
  Fixpoint cc_loop (g : gstate) (names seen : list T) (acc : list (list T)) : outcome (list (list T)) :=
    match names with
    | [] => Ok acc
    | v :: t =>
      if mem_name teqb v seen then cc_loop g t seen acc else
      do b <- breadth_first_search teqb g v;
      let hs := to_hashset b in
      cc_loop g t (union_names teqb seen hs) (acc ++ [hs])
    end.

  Definition connected_components (g : gstate) : outcome (list (list T)) :=
    do _ <- ensure_undirected g;
    cc_loop g (get_all_node_names g) [] [].

  Definition number_of_connected_components (g : gstate) : outcome nat :=
    do r <- connected_components g; Ok (length r).

  (* connectivity.rs node_connected_component, with the repair: an absent
     name is NodeNotFound instead of the BFS unwrap panic *)
  Definition node_connected_component (g : gstate) (x : T) : outcome (list T) :=
    do _ <- ensure_undirected g;
    do b <- has_node teqb g x;
    if negb b then Err NodeNotFound else
    do l <- breadth_first_search teqb g x;
    Ok (to_hashset l).

  (* weak_connectivity.rs:42 plain_bfs: successors / predecessors name maps,
     `unwrap_or(&empty)`; every visited node is pushed twice *)
  Definition name_row (m : list (T * list T)) (v : T) : list T :=
    match lookup teqb v m with Some l => l | None => [] end.

  Fixpoint plain_level (g : gstate) (lvl seen ret next : list T) : list T * list T * list T :=
    match lvl with
    | [] => (seen, ret, next)
    | v :: t =>
      if mem_name teqb v seen then plain_level g t seen ret next else
      let next1 := union_names teqb next (name_row (successors g) v) in
      let next2 := union_names teqb next1 (name_row (predecessors g) v) in
      plain_level g t (seen ++ [v]) (ret ++ [v; v]) next2
    end.

  Fixpoint plain_loop (fuel : nat) (g : gstate) (seen ret next : list T) : outcome (list T) :=
    match next with
    | [] => Ok ret
    | _ =>
      match fuel with
      | O => OutOfFuel
      | S f =>
        let '(seen', ret', next') := plain_level g next seen ret [] in
        plain_loop f g seen' ret' next'
      end
    end.

  Definition plain_bfs (g : gstate) (x : T) : outcome (list T) :=
    plain_loop (S (S (length (nodes_vec g)))) g [] [] [x].

  (* weak_connectivity.rs:21 weakly_connected_components *)
  Fixpoint wcc_loop (g : gstate) (names seen : list T) (acc : list (list T)) : outcome (list (list T)) :=
    match names with
    | [] => Ok acc
    | v :: t =>
      if mem_name teqb v seen then wcc_loop g t seen acc else
      do b <- plain_bfs g v;
      let hs := to_hashset b in
      wcc_loop g t (union_names teqb seen hs) (acc ++ [hs])
    end.

  Definition weakly_connected_components (g : gstate) : outcome (list (list T)) :=
    do _ <- ensure_directed g;
    wcc_loop g (get_all_node_names g) [] [].

  (* ---- weak_connectivity.rs:73 bfs_equal_size_partitions ---------------- *)
  Record pstate := mkp {
    p_visited : list bool;
    p_parts : list (list nat);
    p_part : nat;
    p_count : nat;
    p_queue : list nat
  }.

  Fixpoint find_unvisited (vis : list bool) (i : nat) : option nat :=
    match vis with
    | [] => None
    | b :: t => if b then find_unvisited t (S i) else Some i
    end.

  (* partitions[partition].len() == partition_max_size ; index panic when out of range *)
  Definition part_full (st : pstate) (maxsz : nat) : outcome bool :=
    match nth_error (p_parts st) (p_part st) with
    | None => Panic "weak_connectivity.rs:partitions[partition]"
    | Some p => Ok (Nat.eqb (length p) maxsz)
    end.

  (* the inner `while !queue.is_empty()`; returns the state at loop exit
     (normal exit: queue empty; break: part full) *)
  Fixpoint part_inner (fuel : nat) (g : gstate) (maxsz : nat) (st : pstate) : outcome pstate :=
    match fuel with
    | O => OutOfFuel
    | S f =>
      match p_queue st with
      | [] => Ok st
      | cur :: q =>
        match nth_error (p_visited st) cur with
        | None => Panic "weak_connectivity.rs:visited[current]"
        | Some true => part_inner f g maxsz (mkp (p_visited st) (p_parts st) (p_part st) (p_count st) q)
        | Some false =>
          match set_nth cur true (p_visited st), nth_error (p_parts st) (p_part st) with
          | Some vis', Some p =>
            match set_nth (p_part st) (p ++ [cur]) (p_parts st) with
            | None => Panic "weak_connectivity.rs:partitions[partition].push"
            | Some parts' =>
              let st1 := mkp vis' parts' (p_part st) (S (p_count st)) q in
              if Nat.eqb (length (p ++ [cur])) maxsz then Ok st1 else
              match nth_error (successors_vec g) cur with
              | None => Panic "query.rs:successors_vec[node_index]"
              | Some row =>
                part_inner f g maxsz (mkp vis' parts' (p_part st) (S (p_count st)) (q ++ map fst row))
              end
            end
          | _, _ => Panic "weak_connectivity.rs:partitions[partition].push"
          end
        end
      end
    end.

  Definition sum_rows (g : gstate) : nat :=
    fold_left (fun a (r : list adj) => a + length r) (successors_vec g) 0.

  (* the outer `while visited_count < number_of_nodes` *)
  Fixpoint part_outer (fuel : nat) (g : gstate) (n maxsz : nat) (st : pstate) : outcome pstate :=
    if Nat.ltb (p_count st) n then
      match fuel with
      | O => OutOfFuel
      | S f =>
        match find_unvisited (p_visited st) 0 with
        | None => Panic "weak_connectivity.rs:find unwrap"
        | Some node =>
          let st0 := mkp (p_visited st) (p_parts st) (p_part st) (p_count st) (p_queue st ++ [node]) in
          do st1 <- part_inner (S (S (n + n + sum_rows g))) g maxsz st0;
          do full <- part_full st1 maxsz;
          if full then
            part_outer f g n maxsz (mkp (p_visited st1) (p_parts st1) (S (p_part st1)) (p_count st1) [])
          else part_outer f g n maxsz st1
        end
      end
    else Ok st.

  Fixpoint names_of_indexes (g : gstate) (is : list nat) : outcome (list T) :=
    match is with
    | [] => Ok []
    | i :: t =>
      match get_node_by_index g i with
      | None => Panic "weak_connectivity.rs:get_node_by_index unwrap"
      | Some nd => do r <- names_of_indexes g t; Ok (nname nd :: r)
      end
    end.

  Definition bfs_equal_size_partitions (g : gstate) (k : nat) : outcome (list (list T)) :=
    let n := number_of_nodes g in
    if Nat.eqb k 0 then Panic "weak_connectivity.rs:division by zero" else
    let maxsz := S (n / k) in
    do st <- part_outer (S n) g n maxsz (mkp (repeat false n) (repeat [] k) 0 0 []);
    omapM (names_of_indexes g) (p_parts st).
End Components.
