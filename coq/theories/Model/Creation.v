(* Transcription of src/graph/creation.rs (add_node, add_nodes, add_edge,
   add_edge_tuple, add_edges, add_edge_tuples, new, new_from_nodes_and_edges,
   add_to_adjacency_vec), src/edge.rs (ordered, reversed) and the part of
   src/graph/query.rs they call (get_node_index, get_edge_by_indexes).
   No proofs here. *)
From Coq Require Import String List Bool ZArith NArith Arith.
From GV Require Import Base.Outcome Base.AMap Model.GState.
Import ListNotations.
Open Scope string_scope.
Open Scope list_scope.

Section Creation.
  Context {T A : Type}.
  Variable teqb : T -> T -> bool.   (* T: Eq  *)
  Variable tltb : T -> T -> bool.   (* T: Ord, strict *)

  Notation node := (node T A).
  Notation edge := (edge T A).
  Notation gstate := (gstate T A).

  Definition peqb (p q : T * T) : bool := teqb (fst p) (fst q) && teqb (snd p) (snd q).

  (* edge.rs: reversed, ordered *)
  Definition reversed (e : edge) : edge := mkedge (ev e) (eu e) (ew e) (eattr e).
  Definition ordered (e : edge) : edge := if tltb (ev e) (eu e) then reversed e else e.

  (* creation.rs:394 Graph::new *)
  Definition new (s : specs) : gstate := mkg [] [] [] [] [] s [] [] [] [] [] [].

  Definition has_name (g : gstate) (x : T) : bool := contains_key teqb x (nodes_map g).

  (* query.rs get_node_index *)
  Definition get_node_index (g : gstate) (x : T) : outcome nat :=
    match lookup teqb x (nodes_map g) with Some i => Ok i | None => Err NodeNotFound end.

  (* creation.rs:312 add_node; the Vec index write panics when out of range *)
  Definition add_node (g : gstate) (n : node) : outcome gstate :=
    if has_name g (nname n) then
      match get_node_index g (nname n) with
      | Ok i =>
        match set_nth i n (nodes_vec g) with
        | None => Panic "creation.rs:320"
        | Some nv =>
          Ok (mkg (nodes_map g) (insert Nat.eqb i n (nodes_map_rev g)) nv (edges g) (edges_map g)
                  (sp g) (successors g) (successors_map g) (successors_vec g)
                  (predecessors g) (predecessors_map g) (predecessors_vec g))
        end
      | _ => Panic "creation.rs:319"
      end
    else
      let i := length (nodes_vec g) in
      let nm := if contains_key teqb (nname n) (nodes_map g) then nodes_map g
                else insert teqb (nname n) i (nodes_map g) in
      let nr := if contains_key Nat.eqb i (nodes_map_rev g) then nodes_map_rev g
                else insert Nat.eqb i n (nodes_map_rev g) in
      Ok (mkg nm nr (nodes_vec g ++ [n]) (edges g) (edges_map g) (sp g)
              (successors g) (insert Nat.eqb i [] (successors_map g)) (successors_vec g ++ [[]])
              (predecessors g) (insert Nat.eqb i [] (predecessors_map g)) (predecessors_vec g ++ [[]])).

  (* creation.rs:356 add_nodes.  add_node returns (); a panic aborts. *)
  Definition add_nodes (g : gstate) (ns : list node) : outcome gstate := ofold add_node ns g.

  (* query.rs:206 get_edge_by_indexes *)
  Definition get_edge_by_indexes (g : gstate) (u v : nat) : outcome edge :=
    let '(ou, ov) := if negb (directed (sp g)) && Nat.ltb v u then (v, u) else (u, v) in
    match lookup Nat.eqb ou (edges_map g) with
    | None => Err EdgeNotFound
    | Some m =>
      match lookup Nat.eqb ov m with
      | None => Err EdgeNotFound
      | Some [] => Panic "query.rs:226"
      | Some (e :: _) => Ok e
      end
    end.

  (* creation.rs:463 add_to_adjacency_vec *)
  Fixpoint position (v : nat) (row : list adj) (i : nat) : option nat :=
    match row with
    | [] => None
    | (j, _) :: t => if Nat.eqb j v then Some i else position v t (S i)
    end.

  Definition add_to_adjacency_vec (s : specs) (av : list (list adj)) (u v : nat) (w : weight) (exists_ : bool)
    : outcome (list (list adj)) :=
    match nth_error av u with
    | None => Panic "creation.rs:479"
    | Some row =>
      if exists_ then
        match position v row 0 with
        | None => Panic "creation.rs:482"
        | Some idx =>
          match nth_error row idx with
          | None => Panic "creation.rs:485"
          | Some (_, w0) =>
            let replace := if multi s then wlt w w0
                           else match dd s with DKeepLast => true | _ => false end in
            if replace then
              match set_nth idx (v, w) row with
              | None => Panic "creation.rs:490"
              | Some row' =>
                match set_nth u row' av with Some av' => Ok av' | None => Panic "creation.rs:490" end
              end
            else Ok av
          end
        end
      else
        match set_nth u (row ++ [(v, w)]) av with Some av' => Ok av' | None => Panic "creation.rs:493" end
    end.

  (* HashMap<K, HashSet<X>>: entry(k).or_default().insert(x) *)
  Definition upd_set {K X} (keqb : K -> K -> bool) (xeqb : X -> X -> bool) (k : K) (x : X)
             (m : list (K * list X)) : list (K * list X) :=
    insert keqb k (set_add xeqb x (match lookup keqb k m with Some l => l | None => [] end)) m.

  Definition or_default {K X} (keqb : K -> K -> bool) (k : K) (m : list (K * list X)) : list X :=
    match lookup keqb k m with Some l => l | None => [] end.

  (* creation.rs:98-170: the six adjacency updates of add_edge (successors by
     name / by index / traversal list, then predecessors for a directed graph or
     the mirrored successor entries for an undirected one) *)
  Definition link_adjacency (g2 : gstate) (e : edge) (ui vi ou ov : nat) (ex : bool)
    : outcome (list (T * list T) * list (nat * list nat) * list (list adj) *
               list (T * list T) * list (nat * list nat) * list (list adj)) :=
    let s := sp g2 in
    let su1 := upd_set teqb teqb (eu e) (ev e) (successors g2) in
    let sm1 := upd_set Nat.eqb Nat.eqb ui vi (successors_map g2) in
    do sv1 <- add_to_adjacency_vec s (successors_vec g2) ou ov (ew e) ex;
    if directed s then
      do pv <- add_to_adjacency_vec s (predecessors_vec g2) ov ou (ew e) ex;
      Ok (su1, sm1, sv1,
          upd_set teqb teqb (ev e) (eu e) (predecessors g2),
          upd_set Nat.eqb Nat.eqb vi ui (predecessors_map g2), pv)
    else
      do sv2 <- (if Nat.eqb ui vi then Ok sv1
                 else add_to_adjacency_vec s sv1 ov ou (ew e) ex);
      Ok (upd_set teqb teqb (ev e) (eu e) su1,
          upd_set Nat.eqb Nat.eqb vi ui sm1, sv2,
          predecessors g2, predecessors_map g2, predecessors_vec g2).

  (* creation.rs:172-211: storing the edge in the name-keyed and the index-keyed store *)
  Definition store_edge (g2 : gstate) (od : edge) (ou ov : nat)
    : list ((T * T) * list edge) * list (nat * list (nat * list edge)) :=
    let s := sp g2 in
    let k := (eu od, ev od) in
    let inner := or_default Nat.eqb ou (edges_map g2) in
    if multi s then
      (insert peqb k (or_default peqb k (edges g2) ++ [od]) (edges g2),
       insert Nat.eqb ou (insert Nat.eqb ov (or_default Nat.eqb ov inner ++ [od]) inner)
              (edges_map g2))
    else if is_ok (get_edge_by_indexes g2 ou ov) then
      match dd s with
      | DKeepLast =>
        (insert peqb k [od] (edges g2),
         insert Nat.eqb ou (insert Nat.eqb ov [od] inner) (edges_map g2))
      | _ => (edges g2, edges_map g2)
      end
    else
      (insert peqb k [od] (edges g2),
       insert Nat.eqb ou (insert Nat.eqb ov [od] inner) (edges_map g2)).

  (* the part of add_edge after the missing-node step: duplicate check and index updates *)
  Definition add_edge_known (g2 : gstate) (e : edge) (ui vi : nat) : gstate * outcome unit :=
    let s := sp g2 in
    let ex := is_ok (get_edge_by_indexes g2 ui vi) in
    if (match dd s with DErr => true | _ => false end) && negb (multi s) && ex then
      (g2, Err DuplicateEdge)
    else
      let od := if directed s then e else ordered e in
      let '(ou, ov) := if negb (directed s) && Nat.ltb vi ui then (vi, ui) else (ui, vi) in
      match link_adjacency g2 e ui vi ou ov ex with
      | Ok (su, sm, sv, pr, pm, pv) =>
        let '(es, em) := store_edge g2 od ou ov in
        (mkg (nodes_map g2) (nodes_map_rev g2) (nodes_vec g2) es em s su sm sv pr pm pv, Ok tt)
      | Err k => (g2, Err k) | Panic x => (g2, Panic x) | OutOfFuel => (g2, OutOfFuel)
      end.

  (* creation.rs:31 add_edge.  Returns the state the Rust object is left in
     together with the call's outcome (on an early return the object is left
     as it is at that point, not as it was on entry). *)
  Definition add_edge (g : gstate) (e : edge) : gstate * outcome unit :=
    let s := sp g in
    if negb (selfloops s) && teqb (eu e) (ev e) then
      match slf s with
      | SErr => (g, Err SelfLoopsFound)
      | SDrop => (g, Ok tt)
      end
    else if (match ms s with MErr => true | MCreate => false end)
            && (negb (has_name g (eu e)) || negb (has_name g (ev e))) then
      (g, Err NodeNotFound)
    else
      let r1 := if has_name g (eu e) then Ok g else add_node g (mknode (eu e) None) in
      match r1 with
      | Ok g1 =>
        let r2 := if has_name g1 (ev e) then Ok g1 else add_node g1 (mknode (ev e) None) in
        match r2 with
        | Ok g2 =>
          match lookup teqb (eu e) (nodes_map g2), lookup teqb (ev e) (nodes_map g2) with
          | Some ui, Some vi => add_edge_known g2 e ui vi
          | _, _ => (g2, Panic "creation.rs:77")
          end
        | Err k => (g1, Err k) | Panic x => (g1, Panic x) | OutOfFuel => (g1, OutOfFuel)
        end
      | Err k => (g, Err k) | Panic x => (g, Panic x) | OutOfFuel => (g, OutOfFuel)
      end.

  (* creation.rs:215 add_edge_tuple *)
  Definition add_edge_tuple (g : gstate) (u v : T) : gstate * outcome unit :=
    add_edge g (mkedge u v None None).

  (* creation.rs:246 add_edges: `for edge in edges { self.add_edge(edge)?; }` *)
  Fixpoint add_edges (g : gstate) (es : list edge) : gstate * outcome unit :=
    match es with
    | [] => (g, Ok tt)
    | e :: t =>
      match add_edge g e with
      | (g', Ok _) => add_edges g' t
      | (g', r) => (g', r)
      end
    end.

  (* creation.rs:279 add_edge_tuples *)
  Definition add_edge_tuples (g : gstate) (ps : list (T * T)) : gstate * outcome unit :=
    add_edges g (map (fun p => mkedge (fst p) (snd p) None None) ps).

  (* creation.rs:441 new_from_nodes_and_edges *)
  Definition new_from_nodes_and_edges (ns : list node) (es : list edge) (s : specs) : outcome gstate :=
    do g1 <- add_nodes (new s) ns;
    match add_edges g1 es with
    | (g2, Ok _) => Ok g2
    | (_, Err k) => Err k
    | (_, Panic x) => Panic x
    | (_, OutOfFuel) => OutOfFuel
    end.
End Creation.
