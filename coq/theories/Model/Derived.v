(* Transcription of src/graph/subgraph.rs, src/graph/convert.rs,
   src/graph/density.rs, src/graph/matrix.rs (after the repairs F2/F4) and
   src/algorithms/centrality/degree.rs.  No proofs here. *)
From Coq Require Import String List Bool ZArith NArith Arith QArith.
From GV Require Import Base.Outcome Base.AMap Model.GState Model.Creation Model.Query.
Import ListNotations.
Open Scope string_scope.
Open Scope list_scope.

Section Derived.
  Context {T A : Type}.
  Variable teqb : T -> T -> bool.
  Variable tltb : T -> T -> bool.

  Notation node := (node T A).
  Notation edge := (edge T A).
  Notation gstate := (gstate T A).

  Definition unwrap_graph (site : string) (r : outcome gstate) : outcome gstate :=
    match r with
    | Ok g => Ok g
    | Err _ => Panic site
    | Panic s => Panic s
    | OutOfFuel => OutOfFuel
    end.

  (* subgraph.rs:31 *)
  Definition get_subgraph (g : gstate) (xs : list T) : outcome gstate :=
    let ns := filter (fun n => mem_name teqb (nname n) xs) (get_all_nodes g) in
    let es := filter (fun e => mem_name teqb (eu e) xs && mem_name teqb (ev e) xs) (get_all_edges g) in
    unwrap_graph "subgraph.rs:44" (new_from_nodes_and_edges teqb tltb ns es (sp g)).

  (* convert.rs:28 *)
  Definition reverse (g : gstate) : outcome gstate :=
    if negb (directed (sp g)) then Err WrongMethod else
    new_from_nodes_and_edges teqb tltb (get_all_nodes g) (map reversed (get_all_edges g)) (sp g).

  (* convert.rs:64 *)
  Definition set_all_edge_weights (g : gstate) (w : weight) : outcome gstate :=
    unwrap_graph "convert.rs:76"
      (new_from_nodes_and_edges teqb tltb (get_all_nodes g)
         (map (fun e => mkedge (eu e) (ev e) w (eattr e)) (get_all_edges g)) (sp g)).

  (* convert.rs:108 *)
  Definition collapse_edges (kv : (T * T) * list edge) : edge :=
    mkedge (fst (fst kv)) (snd (fst kv)) (wsum (map ew (snd kv))) None.

  Definition to_single_edges (g : gstate) : outcome gstate :=
    if negb (multi (sp g)) then Err WrongMethod else
    let s := sp g in
    new_from_nodes_and_edges teqb tltb (nodes_vec g) (map collapse_edges (edges g))
      (mkspecs (directed s) (dd s) (ms s) false (selfloops s) (slf s)).

  (* density.rs:21 ; None stands for a division by zero (n*(n-1) = 0),
     which in binary64 yields inf/NaN and never a panic *)
  Definition get_density (g : gstate) : option Q :=
    let m := Z.of_nat (length (edges g)) in
    let n := Z.of_nat (length (nodes_vec g)) in
    if Z.eqb m 0 then Some 0%Q else
    if Z.eqb (n * (n - 1)) 0 then None else
    Some (Qred ((if directed (sp g) then inject_Z m else inject_Z (2 * m)) / inject_Z (n * (n - 1)))).

  (* centrality/degree.rs *)
  Definition degree_centrality (g : gstate) : outcome (list (T * Q)) :=
    let n := length (nodes_vec g) in
    if Nat.leb n 1 then Ok (map (fun nd => (nname nd, 1%Q)) (nodes_vec g)) else
    omapM (fun nd =>
             do d <- get_node_degree teqb tltb g (nname nd);
             match d with
             | Some k => Ok (nname nd, Qred (inject_Z (Z.of_nat k) / inject_Z (Z.of_nat n - 1)))
             | None => Panic "degree.rs:50"
             end) (nodes_vec g).

  (* matrix.rs (repaired): one triplet per stored pair, weight 1 for an
     unweighted edge, mirrored for an undirected non-loop pair.  The sparse
     matrix is observed as its list of (row, col, value) triplets. *)
  Definition matrix_cell (s : specs) (u : nat) (acc2 : list (nat * nat * weight)) (ve : nat * list edge)
    : outcome (list (nat * nat * weight)) :=
    let '(v, es) := ve in
    match es with
    | [] => Panic "matrix.rs:edges[0]"
    | e :: _ =>
      let w := match ew e with None => Some 1%Z | Some z => Some z end in
      let acc3 := acc2 ++ [(u, v, w)] in
      Ok (if negb (directed s) && negb (Nat.eqb u v) then acc3 ++ [(v, u, w)] else acc3)
    end.

  Definition matrix_row (s : specs) (acc : list (nat * nat * weight)) (uv : nat * list (nat * list edge))
    : outcome (list (nat * nat * weight)) :=
    let '(u, hm) := uv in ofold (matrix_cell s u) hm acc.

  Definition matrix_triplets (g : gstate) : outcome (list (nat * nat * weight)) :=
    if multi (sp g) then Err WrongMethod else ofold (matrix_row (sp g)) (edges_map g) [].
End Derived.
