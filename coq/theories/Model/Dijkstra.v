(* Transcription of src/algorithms/shortest_path/dijkstra.rs and
   shortest_path_info.rs (after the repair of F13: all_pairs looks the target up
   with `?` before iterating; and of F22: all_pairs and multi_source collect the
   per-source `Result`s into `Result<Vec<_>, Error>` and propagate the error with `?`
   instead of `.unwrap()`ing it inside the closure).  The algorithm reads the adjacency from
   [successors_vec] of the graph state, the node count from [nodes_vec], names
   through [nodes_map] / [nodes_map_rev] — the fields the Rust code reads.

   Numbers: a weight is [option Z] ([None] = f64::NAN), distances are exact
   integers; [None] in [dist]/[seen] is the sentinel f64::MAX.  A NaN cost makes
   `vu_dist` NaN, every comparison of the loop body is then false, so such an
   adjacency entry has no effect (see [relax]).  The cutoff is a rational (the
   API takes an f64).  Every Vec index is [get_at]/[set_at] (Panic when out of
   range); `count` is an i32 whose overflow panics in debug builds.
   BinaryHeap::pop is "remove a maximal element" w.r.t. the transcribed [Ord];
   counts are pairwise different, so the maximum is unique.  The pop loop takes
   explicit fuel 2 + (number of adjacency entries) + |V|.
   No proofs here. *)
From Coq Require Import String List Bool ZArith QArith Arith.
From GV Require Import Base.Outcome Base.AMap Model.GState Model.Creation Model.Query.
Import ListNotations.
Open Scope string_scope.
Open Scope list_scope.

(* dijkstra.rs:10 *)
Definition SERIAL_TO_PARALLEL_THRESHOLD : nat := 20.

(* dijkstra.rs:17 FringeNode; [fr_distance] holds the NEGATED distance, as in Rust *)
Record fringe_node := mkfr { fr_index : nat; fr_count : Z; fr_distance : Z }.

(* dijkstra.rs:23 impl Ord for FringeNode *)
Definition fr_cmp (a b : fringe_node) : comparison :=
  if Z.ltb (fr_distance a) (fr_distance b) then Lt
  else if Z.ltb (fr_distance b) (fr_distance a) then Gt
  else match Z.compare (fr_count a) (fr_count b) with
       | Eq => Nat.compare (fr_index a) (fr_index b)
       | c => c
       end.

(* BinaryHeap::pop on a heap kept as a list: the maximal element and the rest *)
Fixpoint heap_pop (h : list fringe_node) : option (fringe_node * list fringe_node) :=
  match h with
  | [] => None
  | x :: t =>
    match heap_pop t with
    | None => Some (x, [])
    | Some (m, r) =>
      match fr_cmp x m with
      | Gt => Some (x, t)
      | _ => Some (m, x :: r)
      end
    end
  end.

(* shortest_path_info.rs:4 *)
Record spinfo (X : Type) := mkspi { sp_distance : Z; sp_paths : list (list X) }.
Arguments mkspi {X} _ _.
Arguments sp_distance {X} _.
Arguments sp_paths {X} _.

Definition get_at {X} (site : string) (l : list X) (i : nat) : outcome X :=
  unwrap_at site (nth_error l i).
Definition set_at {X} (site : string) (l : list X) (i : nat) (x : X) : outcome (list X) :=
  unwrap_at site (set_nth i x l).

Record dstate := mkd {
  d_dist : list (option Z);
  d_seen : list (option Z);
  d_paths : list (list (list nat));
  d_fringe : list fringe_node;
  d_count : Z
}.

Definition I32_MAX : Z := 2147483647.

(* dijkstra.rs:543 push_fringe_node *)
Definition push_fringe_node (s : dstate) (u : nat) (vu : Z) : outcome dstate :=
  let c := (d_count s + 1)%Z in
  if Z.ltb I32_MAX c then Panic "dijkstra.rs:544 i32 overflow" else
  Ok (mkd (d_dist s) (d_seen s) (d_paths s) (mkfr u c (- vu) :: d_fringe s) c).

(* `vu_dist > c` *)
Definition cutoff_exceeded (cutoff : option Q) (vu : Z) : bool :=
  match cutoff with
  | Some c => negb (Qle_bool (inject_Z vu) c)
  | None => false
  end.

(* x < y and x == y where y may be the sentinel f64::MAX *)
Definition lt_sentinel (x : Z) (y : option Z) : bool :=
  match y with None => true | Some z => Z.ltb x z end.
Definition eq_sentinel (x : Z) (y : option Z) : bool :=
  match y with None => false | Some z => Z.eqb x z end.

Definition with_paths_of (s : dstate) (p : list (list (list nat))) : dstate :=
  mkd (d_dist s) (d_seen s) p (d_fringe s) (d_count s).
Definition with_seen_of (s : dstate) (sn : list (option Z)) : dstate :=
  mkd (d_dist s) sn (d_paths s) (d_fringe s) (d_count s).

Definition cost_of (weighted : bool) (w : weight) : weight :=
  if weighted then w else Some 1%Z.

(* dijkstra.rs:442-470, one adjacency entry of the just finalised node v with dist[v] = d *)
Definition relax (weighted first_only with_paths : bool) (cutoff : option Q) (v : nat) (d : Z)
           (s : dstate) (a : adj) : outcome dstate :=
  let '(u, wt) := a in
  match cost_of weighted wt with
  | None => Ok s
  | Some cost =>
    let vu := (d + cost)%Z in
    if cutoff_exceeded cutoff vu then Ok s else
    do du <- get_at "dijkstra.rs:452" (d_dist s) u;
    match du with
    | Some ud => if Z.ltb vu ud then Err ContradictoryPaths else Ok s
    | None =>
      do su <- get_at "dijkstra.rs:457" (d_seen s) u;
      if lt_sentinel vu su then
        do sn <- set_at "dijkstra.rs:458" (d_seen s) u (Some vu);
        do s1 <- push_fringe_node (with_seen_of s sn) u vu;
        if with_paths then
          do pv <- get_at "dijkstra.rs:461" (d_paths s1) v;
          do ps <- set_at "dijkstra.rs:463" (d_paths s1) u (map (fun p => p ++ [u]) pv);
          Ok (with_paths_of s1 ps)
        else Ok s1
      else if negb first_only && eq_sentinel vu su then
        do s1 <- push_fringe_node s u vu;
        if with_paths then
          do pv <- get_at "dijkstra.rs:563" (d_paths s1) v;
          do pu <- get_at "dijkstra.rs:572" (d_paths s1) u;
          do ps <- set_at "dijkstra.rs:572" (d_paths s1) u (pu ++ map (fun p => p ++ [u]) pv);
          Ok (with_paths_of s1 ps)
        else Ok s1
      else Ok s
    end
  end.

(* dijkstra.rs:510-523, the distance-only body *)
Definition relax_basic (weighted : bool) (d : Z) (s : dstate) (a : adj) : outcome dstate :=
  let '(u, wt) := a in
  match cost_of weighted wt with
  | None => Ok s
  | Some cost =>
    let vu := (d + cost)%Z in
    do su <- get_at "dijkstra.rs:517" (d_seen s) u;
    if lt_sentinel vu su then
      do sn <- set_at "dijkstra.rs:518" (d_seen s) u (Some vu);
      push_fringe_node (with_seen_of s sn) u vu
    else if eq_sentinel vu su then push_fringe_node s u vu
    else Ok s
  end.

Section Dijkstra.
  Context {T A : Type}.
  Variable teqb : T -> T -> bool.

  Notation node := (node T A).
  Notation gstate := (gstate T A).

  (* query.rs:907 get_successor_nodes_by_index: &self.successors_vec[i] *)
  Definition get_successor_nodes_by_index (g : gstate) (i : nat) : outcome (list adj) :=
    get_at "query.rs:912" (successors_vec g) i.

  (* dijkstra.rs:432-472 *)
  Fixpoint dijkstra_loop (fuel : nat) (g : gstate) (weighted : bool) (target : option nat)
           (cutoff : option Q) (first_only with_paths : bool) (s : dstate) : outcome dstate :=
    match fuel with
    | O => OutOfFuel
    | S f =>
      match heap_pop (d_fringe s) with
      | None => Ok s
      | Some (item, rest) =>
        let d := (- fr_distance item)%Z in
        let v := fr_index item in
        let s1 := mkd (d_dist s) (d_seen s) (d_paths s) rest (d_count s) in
        do dv <- get_at "dijkstra.rs:435" (d_dist s1) v;
        match dv with
        | Some _ => dijkstra_loop f g weighted target cutoff first_only with_paths s1
        | None =>
          do dist' <- set_at "dijkstra.rs:438" (d_dist s1) v (Some d);
          let s2 := mkd dist' (d_seen s1) (d_paths s1) rest (d_count s1) in
          if match target with Some t => Nat.eqb t v | None => false end then Ok s2 else
          do row <- get_successor_nodes_by_index g v;
          do s3 <- ofold (relax weighted first_only with_paths cutoff v d) row s2;
          dijkstra_loop f g weighted target cutoff first_only with_paths s3
        end
      end
    end.

  (* dijkstra.rs:503-524 *)
  Fixpoint basic_loop (fuel : nat) (g : gstate) (weighted : bool) (s : dstate) : outcome dstate :=
    match fuel with
    | O => OutOfFuel
    | S f =>
      match heap_pop (d_fringe s) with
      | None => Ok s
      | Some (item, rest) =>
        let d := (- fr_distance item)%Z in
        let v := fr_index item in
        let s1 := mkd (d_dist s) (d_seen s) (d_paths s) rest (d_count s) in
        do dv <- get_at "dijkstra.rs:506" (d_dist s1) v;
        match dv with
        | Some _ => basic_loop f g weighted s1
        | None =>
          do dist' <- set_at "dijkstra.rs:509" (d_dist s1) v (Some d);
          let s2 := mkd dist' (d_seen s1) (d_paths s1) rest (d_count s1) in
          do row <- get_successor_nodes_by_index g v;
          do s3 <- ofold (relax_basic weighted d) row s2;
          basic_loop f g weighted s3
        end
      end
    end.

  Definition number_of_entries (g : gstate) : nat :=
    fold_left (fun a row => (a + length row)%nat) (successors_vec g) 0%nat.
  Definition dijkstra_fuel (g : gstate) : nat :=
    (2 + number_of_entries g + number_of_nodes g)%nat.

  (* dijkstra.rs:629 get_shortest_path_infos *)
  Fixpoint infos_from (k : nat) (dist : list (option Z)) (paths : list (list (list nat)))
           (with_paths : bool) : outcome (list (nat * spinfo nat)) :=
    match dist with
    | [] => Ok []
    | None :: t => infos_from (S k) t paths with_paths
    | Some v :: t =>
      do ps <- (if with_paths then get_at "dijkstra.rs:644" paths k else Ok []);
      do r <- infos_from (S k) t paths with_paths;
      Ok ((k, mkspi v ps) :: r)
    end.
  Definition get_shortest_path_infos (dist : list (option Z)) (paths : list (list (list nat)))
             (with_paths : bool) := infos_from 0 dist paths with_paths.

  (* dijkstra.rs:415-430: the initial state *)
  Definition dijkstra_init (g : gstate) (source : nat) (with_paths : bool) : outcome dstate :=
    let n := number_of_nodes g in
    do paths <- (if with_paths
                 then set_at "dijkstra.rs:418" (repeat [] n) source [[source]]
                 else Ok []);
    do seen <- set_at "dijkstra.rs:425" (repeat None n) source (Some 0%Z);
    Ok (mkd (repeat None n) seen paths [mkfr source 0 0] 0).

  (* dijkstra.rs:402 *)
  Definition dijkstra (g : gstate) (weighted : bool) (source : nat) (target : option nat)
             (cutoff : option Q) (first_only with_paths : bool) : outcome (list (nat * spinfo nat)) :=
    do s0 <- dijkstra_init g source with_paths;
    do s <- dijkstra_loop (dijkstra_fuel g) g weighted target cutoff first_only with_paths s0;
    get_shortest_path_infos (d_dist s) (d_paths s) with_paths.

  (* dijkstra.rs:479 *)
  Definition dijkstra_basic (g : gstate) (weighted : bool) (source : nat)
    : outcome (list (nat * spinfo nat)) :=
    do s0 <- dijkstra_init g source true;
    do s <- basic_loop (dijkstra_fuel g) g weighted s0;
    get_shortest_path_infos (d_dist s) (d_paths s) false.

  (* dijkstra.rs:705 *)
  Definition can_use_basic {X} (target : option X) (cutoff : option Q) (first_only with_paths : bool) : bool :=
    match target, cutoff with
    | None, None => negb first_only && negb with_paths
    | _, _ => false
    end.

  (* the `match can_use_basic(..) { true => dijkstra_basic(..), false => dijkstra(..) }`
     expression that appears at dijkstra.rs:160, 201 and 276 *)
  Definition run_from_index (g : gstate) (weighted : bool) (source : nat) (target : option T)
             (target_index : option nat) (cutoff : option Q) (first_only with_paths : bool)
    : outcome (list (nat * spinfo nat)) :=
    if can_use_basic target cutoff first_only with_paths
    then dijkstra_basic g weighted source
    else dijkstra g weighted source target_index cutoff first_only with_paths.

  (* graph.get_node_by_index(i).unwrap().name.clone() *)
  Definition name_of_index (site : string) (g : gstate) (i : nat) : outcome T :=
    do n <- unwrap_at site (get_node_by_index g i); Ok (nname n).

  (* dijkstra.rs:656 *)
  Definition convert_shortest_path_info_index_to_t (g : gstate) (spi : spinfo nat) : outcome (spinfo T) :=
    do ps <- omapM (omapM (name_of_index "dijkstra.rs:671" g)) (sp_paths spi);
    Ok (mkspi (sp_distance spi) ps).

  (* dijkstra.rs:682; collect() into a HashMap: a later equal key replaces *)
  Definition convert_shortest_path_info_vec_to_t_map (g : gstate) (l : list (nat * spinfo nat))
    : outcome (list (T * spinfo T)) :=
    ofold (fun m kv =>
             do k <- name_of_index "dijkstra.rs:694" g (fst kv);
             do v <- convert_shortest_path_info_index_to_t g (snd kv);
             Ok (insert teqb k v m)) l [].

  (* dijkstra.rs:258 *)
  Definition single_source (g : gstate) (weighted : bool) (source : T) (target : option T)
             (cutoff : option Q) (first_only with_paths : bool) : outcome (list (T * spinfo T)) :=
    do si <- get_node_index teqb g source;
    do ti <- match target with
             | Some t => do i <- get_node_index teqb g t; Ok (Some i)
             | None => Ok None
             end;
    do r <- run_from_index g weighted si target ti cutoff first_only with_paths;
    convert_shortest_path_info_vec_to_t_map g r.

  Definition unwrap_result {X} (site : string) (r : outcome X) : outcome X :=
    match r with
    | Ok x => Ok x
    | Err _ => Panic site
    | Panic s => Panic s
    | OutOfFuel => OutOfFuel
    end.

  Definition collect_map {V} (l : list (T * V)) : list (T * V) :=
    fold_left (fun m kv => insert teqb (fst kv) (snd kv) m) l [].

  Definition parallel (g : gstate) (threads : nat) : bool :=
    Nat.ltb SERIAL_TO_PARALLEL_THRESHOLD (number_of_nodes g) && Nat.ltb 1 threads.

  (* dijkstra.rs:331.  The closure returns `single_source(..).map(|paths| (source, paths))`,
     a `Result`; both arms `.collect::<Result<Vec<_>, Error>>()` and the function propagates
     the error with `?` (repair of F22; before it the closure `.unwrap()`ed, site
     "dijkstra.rs:376").  The serial collect stops at the first `Err` in index order: [omapM]
     with `Err k` as a value of the error channel.  The rayon branch is written with the same
     term here; Model/ParFns.v transcribes it with the schedule as an argument. *)
  Definition multi_source (threads : nat) (g : gstate) (weighted : bool) (sources : list T)
             (target : option T) (cutoff : option Q) (first_only with_paths : bool)
    : outcome (list (T * list (T * spinfo T))) :=
    do b <- has_nodes teqb g sources;
    if negb b then Err NodeNotFound else
    do tb <- match target with Some t => has_node teqb g t | None => Ok true end;
    if negb tb then Err NodeNotFound else
    let one := fun source =>
      do m <- single_source g weighted source target cutoff first_only with_paths;
      Ok (source, m) in
    do l <- (if parallel g threads then omapM one sources else omapM one sources);
    Ok (collect_map l).

  (* ensure.rs:57 *)
  Definition ensure_weighted (g : gstate) : outcome unit :=
    if edges_have_weight g then Ok tt else Err EdgeWeightNotSpecified.

  (* dijkstra.rs:140 all_pairs_iter and :178 all_pairs_par_iter, collected by all_pairs into
     `Result<Vec<_>, Error>` (dijkstra.rs:125/129) and propagated with `?` (:131).  The closure is
     `let ss_index = match can_use_basic {..}?; Ok((node_index, ss_index))` (repair of F22; before
     it `.unwrap()`, site "dijkstra.rs:172").  The unwrap of the target lookup (:153) is still there
     (unreachable from all_pairs, which looks the target up with `?` first). *)
  Definition all_pairs_iter (g : gstate) (weighted : bool) (target : option T) (cutoff : option Q)
             (first_only with_paths : bool) : outcome (list (nat * list (nat * spinfo nat))) :=
    do ti <- match target with
             | Some t => do i <- unwrap_result "dijkstra.rs:153" (get_node_index teqb g t); Ok (Some i)
             | None => Ok None
             end;
    omapM (fun node_index =>
             do r <- run_from_index g weighted node_index target ti cutoff first_only with_paths;
             Ok (node_index, r))
          (seq 0 (number_of_nodes g)).

  (* dijkstra.rs:100 (with the repair: an absent target is NodeNotFound) *)
  Definition all_pairs (threads : nat) (g : gstate) (weighted : bool) (target : option T)
             (cutoff : option Q) (first_only with_paths : bool)
    : outcome (list (T * list (T * spinfo T))) :=
    do _ <- (if weighted then ensure_weighted g else Ok tt);
    do _ <- match target with
            | Some t => do _ <- get_node_index teqb g t; Ok tt
            | None => Ok tt
            end;
    do vecs <- (if parallel g threads
                then all_pairs_iter g weighted target cutoff first_only with_paths
                else all_pairs_iter g weighted target cutoff first_only with_paths);
    do l <- omapM (fun sv =>
                     do source_name <- name_of_index "dijkstra.rs:132" g (fst sv);
                     do m <- convert_shortest_path_info_vec_to_t_map g (snd sv);
                     Ok (source_name, m)) vecs;
    Ok (collect_map l).

  (* shortest_path_info.rs:14 *)
  Definition contains_path_through_node (spi : spinfo T) (x : T) : bool :=
    existsb (fun path =>
               if Nat.leb (length path) 2 then false
               else mem teqb x (removelast (tl path)))
            (sp_paths spi).

  (* dijkstra.rs:606 *)
  Definition get_all_shortest_paths_involving (threads : nat) (g : gstate) (node_name : T) (weighted : bool)
    : outcome (list (spinfo T)) :=
    match all_pairs threads g weighted None None false true with
    | Err _ => Ok []
    | Ok pairs =>
      Ok (filter (fun x => contains_path_through_node x node_name)
                 (flat_map (fun kv => map snd (snd kv)) pairs))
    | Panic s => Panic s
    | OutOfFuel => OutOfFuel
    end.
End Dijkstra.
