(* Transcription of src/algorithms/centrality/eigenvector.rs (after the repair
   F14: multi-edge graphs are refused with WrongMethod before the iteration).
   The code computes in f64 and takes a square root, so the model is written
   once over a number interface [Num]; it is *executed* at the instance of
   Coq's primitive binary64 floats (Run/RunEigen.v) and *reasoned about* for
   any instance satisfying the ordered-field-with-sqrt laws of
   Proofs/EigenOk.v (instantiated there with Coq's reals).  No proofs here. *)
From Coq Require Import String List Bool ZArith NArith Arith QArith.
From GV Require Import Base.Outcome Base.AMap Model.GState Model.Creation Model.Query.
Import ListNotations.
Open Scope string_scope.
Open Scope list_scope.

Record Num := mkNum {
  num : Type;
  n0 : num; n1 : num;
  nadd : num -> num -> num; nsub : num -> num -> num;
  nmul : num -> num -> num; ndiv : num -> num -> num;
  nabs : num -> num; nsqrt : num -> num;
  nltb : num -> num -> bool; neqb : num -> num -> bool;
  nofZ : Z -> num
}.

Section Eigen.
  Context {T A : Type}.
  Variable teqb : T -> T -> bool.
  Variable tltb : T -> T -> bool.
  Variable F : Num.
  Notation gstate := (gstate T A).
  Notation edge := (edge T A).
  Notation R := (num F).

  Definition xmap := list (T * R).   (* HashMap<T, f64>; iteration order = list order *)

  Definition nofQ (q : Q) : R := ndiv F (nofZ F (Qnum q)) (nofZ F (Zpos (Qden q))).

  (* `match !weighted || edge.weight.is_nan() { true => 1.0, false => edge.weight }` *)
  Definition edge_w (weighted : bool) (e : edge) : R :=
    if negb weighted then n1 F else match ew e with None => n1 F | Some z => nofZ F z end.

  (* `*x.get_mut(&k).unwrap() += v` *)
  Definition add_to (x : xmap) (k : T) (v : R) : outcome xmap :=
    match lookup teqb k x with
    | None => Panic "eigenvector.rs:61 x.get_mut unwrap"
    | Some old => Ok (insert teqb k (nadd F old v) x)
    end.

  (* the body of `for n in xlast.keys()` *)
  Definition push_node (g : gstate) (weighted : bool) (xlast x : xmap) (n : T) : outcome xmap :=
    do nbrs <- get_successors_or_neighbors teqb g n;
    ofold (fun x nbr =>
             match get_edge teqb g n (nname nbr) with
             | Ok e =>
               match lookup teqb n xlast with
               | None => Panic "eigenvector.rs:61 xlast.get unwrap"
               | Some xn => add_to x (nname nbr) (nmul F xn (edge_w weighted e))
               end
             | Err _ => Panic "eigenvector.rs:56 get_edge unwrap"
             | Panic s => Panic s
             | OutOfFuel => OutOfFuel
             end) nbrs x.

  Definition sumsq (l : list R) : R := fold_left (fun a v => nadd F a (nmul F v v)) l (n0 F).

  (* the norm the code divides by: sqrt of the sum of squares, 1 when that is 0 *)
  Definition norm_of (x : xmap) : R :=
    let s := nsqrt F (sumsq (values x)) in if neqb F s (n0 F) then n1 F else s.

  Definition normalise (x : xmap) : xmap :=
    let nm := norm_of x in map (fun kv => (fst kv, ndiv F (snd kv) nm)) x.

  (* x + A^T x, through get_successors_or_neighbors and get_edge *)
  Definition spread (g : gstate) (weighted : bool) (xlast : xmap) : outcome xmap :=
    ofold (push_node g weighted xlast) (keys xlast) xlast.

  (* `x.iter().map(|(k, v)| (v - xlast.get(k).unwrap()).abs()).sum()` *)
  Definition l1_change (x xlast : xmap) : outcome R :=
    ofold (fun a kv =>
             match lookup teqb (fst kv) xlast with
             | None => Panic "eigenvector.rs:73 xlast.get unwrap"
             | Some l => Ok (nadd F a (nabs F (nsub F (snd kv) l)))
             end) x (n0 F).

  (* one pass of the `for _i in 0.._max_iter` body: the new x and the L1 change *)
  Definition step (g : gstate) (weighted : bool) (xlast : xmap) : outcome (xmap * R) :=
    do x1 <- spread g weighted xlast;
    let x2 := normalise x1 in
    do y <- l1_change x2 xlast;
    Ok (x2, y).

  (* the loop: [fuel] is the Rust loop bound `_max_iter` itself *)
  Fixpoint iterate (fuel : nat) (g : gstate) (weighted : bool) (thr : R) (x : xmap) : outcome xmap :=
    match fuel with
    | O => Err PowerIterationFailedConvergence
    | S f =>
      do r <- step g weighted x;
      if nltb F (snd r) thr then Ok (fst r) else iterate f g weighted thr (fst r)
    end.

  Definition init_x (g : gstate) : xmap :=
    let nn := nofZ F (Z.of_nat (length (get_all_nodes g))) in
    fold_left (fun m n => insert teqb (nname n) (ndiv F (n1 F) nn) m) (get_all_nodes g) [].

  Definition threshold (g : gstate) (tol : R) : R :=
    nmul F (nofZ F (Z.of_nat (length (get_all_nodes g)))) tol.

  (* eigenvector.rs:38 eigenvector_centrality; `None` arguments take the documented defaults *)
  Definition eigenvector_centrality (g : gstate) (weighted : bool) (max_iter : option nat) (tol : option Q)
    : outcome xmap :=
    if multi (sp g) then Err WrongMethod else      (* repair F14: ensure_not_multi_edges()? *)
    let mi := match max_iter with Some k => k | None => 100%nat end in
    let tl := match tol with Some q => nofQ q | None => nofQ (1 # 1000000) end in
    iterate mi g weighted (threshold g tl) (init_x g).

  (* for the correspondence only: the L1 changes seen by the loop until it stops *)
  Fixpoint trace (fuel : nat) (g : gstate) (weighted : bool) (thr : R) (x : xmap) : list R :=
    match fuel with
    | O => []
    | S f =>
      match step g weighted x with
      | Ok r => snd r :: if nltb F (snd r) thr then [] else trace f g weighted thr (fst r)
      | _ => []
      end
    end.
End Eigen.
