(* The concrete state of graphrs' [Graph<T, A>] (src/graph/mod.rs): all twelve
   fields, each an independent list / association list that the transcribed
   code updates on its own — never derived from another field. *)
From Coq Require Import String List Bool ZArith NArith.
From GV Require Import Base.Outcome Base.AMap.
Import ListNotations.

(* src/graph_specs.rs *)
Inductive dedupe := DErr | DKeepFirst | DKeepLast.
Inductive missing := MCreate | MErr.
Inductive slfalse := SErr | SDrop.

Record specs := mkspecs {
  directed : bool;
  dd : dedupe;
  ms : missing;
  multi : bool;
  selfloops : bool;
  slf : slfalse
}.

(* An edge weight: [None] is f64::NAN ("unweighted"), [Some z] the real weight
   z (the correspondence harness uses integer-valued f64, exact in binary64).
   Comparisons follow IEEE on NaN: [wlt] is false as soon as one side is NaN. *)
Definition weight := option Z.
Definition wlt (a b : weight) : bool :=
  match a, b with Some x, Some y => Z.ltb x y | _, _ => false end.
Definition wadd (a b : weight) : weight :=
  match a, b with Some x, Some y => Some (x + y)%Z | _, _ => None end.
Definition weqb (a b : weight) : bool :=
  match a, b with
  | Some x, Some y => Z.eqb x y
  | None, None => true
  | _, _ => false
  end.

(* src/graph/adjacent_node.rs: (node_index, weight) *)
Notation adj := (nat * weight)%type.

Section Types.
  Context {T A : Type}.

  (* src/node.rs, src/edge.rs *)
  Record node := mknode { nname : T; nattr : option A }.
  Record edge := mkedge { eu : T; ev : T; ew : weight; eattr : option A }.


  Record gstate := mkg {
    nodes_map : list (T * nat);
    nodes_map_rev : list (nat * node);
    nodes_vec : list node;
    edges : list ((T * T) * list edge);
    edges_map : list (nat * list (nat * list edge));
    sp : specs;
    successors : list (T * list T);
    successors_map : list (nat * list nat);
    successors_vec : list (list adj);
    predecessors : list (T * list T);
    predecessors_map : list (nat * list nat);
    predecessors_vec : list (list adj)
  }.
End Types.
Arguments node : clear implicits.
Arguments edge : clear implicits.
Arguments gstate : clear implicits.
