(* Transcription of src/generators/random.rs (fast_gnp_random_graph and its
   two skipping loops), as repaired by the fix commits for F10/F11/F20:

     let n = num_nodes as i64;  let mut w: i64 = -1;  let mut v: i64 = 0 | 1;
     while v < n {
         let lr = (1.0 - rng.gen::<f64>()).ln();
         w = w.saturating_add(1).saturating_add((lr / lp) as i64);
         ... }

   The random draws enter the model as the GAP STREAM  k_i = (lr_i / lp) as i64
   (the correspondence harness recomputes the real stream of a seed with the
   crate's rand / rand_chacha versions and the same expression).  The outer
   loop is structural in the gap stream (OutOfFuel when the supplied stream is
   exhausted while the loop is still running), the inner loops take explicit
   fuel.  Every i64 `+` / `-` that Rust checks in a debug build is a [Panic]
   site when it leaves the i64 range; `saturating_add` saturates; `as i32`
   wraps.  No proofs here. *)
From Coq Require Import String List Bool ZArith QArith Arith.
From GV Require Import Base.Outcome Base.AMap Model.GState Model.Creation Model.Classic.
Import ListNotations.
Open Scope string_scope.
Open Scope list_scope.
Open Scope Z_scope.

Definition i64_min : Z := -9223372036854775808.
Definition i64_max : Z := 9223372036854775807.
Definition in_i64 (z : Z) : bool := (i64_min <=? z) && (z <=? i64_max).

(* i64::saturating_add *)
Definition sat_add (a b : Z) : Z := Z.max i64_min (Z.min i64_max (a + b)).
(* `+` / `-` on i64 with overflow checks *)
Definition cadd (site : string) (a b : Z) : outcome Z :=
  if in_i64 (a + b) then Ok (a + b) else Panic site.
Definition csub (site : string) (a b : Z) : outcome Z :=
  if in_i64 (a - b) then Ok (a - b) else Panic site.
(* `x as i32` on an i64: two's-complement truncation *)
Definition as_i32 (z : Z) : Z := (z + 2147483648) mod 4294967296 - 2147483648.

(* an f64 argument, as far as the argument check looks at it *)
Inductive f64v := FNaN | FInf (neg : bool) | FFin (q : Q).
(* IEEE comparisons with the constants 0.0 and 1.0 *)
Definition f_gt0 (p : f64v) : bool :=
  match p with FNaN => false | FInf neg => negb neg | FFin q => if Qlt_le_dec 0 q then true else false end.
Definition f_lt1 (p : f64v) : bool :=
  match p with FNaN => false | FInf neg => neg | FFin q => if Qlt_le_dec q 1 then true else false end.

(* ---- directed: random.rs fast_gnp_random_graph_directed ------------------ *)

(* while v < n && n <= w { w -= n; v += 1; if v == w { w += 1; } } *)
Fixpoint dir_inner (fuel : nat) (n v w : Z) : outcome (Z * Z) :=
  if (v <? n) && (n <=? w) then
    match fuel with
    | O => OutOfFuel
    | S f =>
      do w1 <- csub "random.rs:67 w -= n" w n;
      do v1 <- cadd "random.rs:68 v += 1" v 1;
      do w2 <- (if v1 =? w1 then cadd "random.rs:70 w += 1" w1 1 else Ok w1);
      dir_inner f n v1 w2
    end
  else Ok (v, w).

Fixpoint dir_loop (gaps : list Z) (n v w : Z) : outcome (list (Z * Z)) :=
  if v <? n then
    match gaps with
    | [] => OutOfFuel
    | k :: gs =>
      let w1 := sat_add (sat_add w 1) k in
      do w2 <- (if v =? w1 then cadd "random.rs:64 w += 1" w1 1 else Ok w1);
      do vw <- dir_inner (Z.to_nat n + 1) n v w2;
      let '(v3, w3) := vw in
      if v3 <? n then
        do rest <- dir_loop gs n v3 w3;
        Ok ((as_i32 v3, as_i32 w3) :: rest)
      else dir_loop gs n v3 w3
    end
  else Ok [].

(* ---- undirected: random.rs fast_gnp_random_graph_undirected -------------- *)

(* while w >= v && v < n { w -= v; v += 1; } *)
Fixpoint und_inner (fuel : nat) (n v w : Z) : outcome (Z * Z) :=
  if (v <=? w) && (v <? n) then
    match fuel with
    | O => OutOfFuel
    | S f =>
      do w1 <- csub "random.rs:101 w -= v" w v;
      do v1 <- cadd "random.rs:102 v += 1" v 1;
      und_inner f n v1 w1
    end
  else Ok (v, w).

Fixpoint und_loop (gaps : list Z) (n v w : Z) : outcome (list (Z * Z)) :=
  if v <? n then
    match gaps with
    | [] => OutOfFuel
    | k :: gs =>
      let w1 := sat_add (sat_add w 1) k in
      do vw <- und_inner (Z.to_nat n + 1) n v w1;
      let '(v3, w3) := vw in
      if v3 <? n then
        do rest <- und_loop gs n v3 w3;
        Ok ((as_i32 v3, as_i32 w3) :: rest)
      else und_loop gs n v3 w3
    end
  else Ok [].

(* the `edges` vector handed to add_edge_tuples *)
Definition gnp_pairs (n : Z) (dir : bool) (gaps : list Z) : outcome (list (Z * Z)) :=
  if dir then dir_loop gaps n 0 (-1) else und_loop gaps n 1 (-1).

(* Graph::new(specs); for i in 0..n { graph.add_node(Node::from_name(i)) } *)
Definition gnp_empty (n : Z) (dir : bool) : outcome ggraph :=
  add_nodes Z.eqb (new (with_create (if dir then specs_directed else specs_undirected)))
            (map node_from_name (zrange n)).

Definition gnp_graph (n : Z) (dir : bool) (gaps : list Z) : outcome ggraph :=
  do g0 <- gnp_empty n dir;
  do ps <- gnp_pairs n dir gaps;
  match add_edge_tuples Z.eqb Z.ltb g0 ps with
  | (g, Ok _) => Ok g
  | (_, Err k) => Err k
  | (_, Panic s) => Panic s
  | (_, OutOfFuel) => OutOfFuel
  end.

(* random.rs:22 fast_gnp_random_graph with seed = Some(s); the seed's draws are [gaps] *)
Definition fast_gnp_random_graph (n : Z) (p : f64v) (dir : bool) (gaps : list Z) : outcome ggraph :=
  if negb (f_gt0 p && f_lt1 p) then Err InvalidArgument
  else gnp_graph n dir gaps.
