(* Transcription of src/readwrite/graphml.rs (after the F12 `fix:` commit):
     read_graphml_string  (graphml.rs:55)   — the event loop, over the event
        alphabet quick-xml 0.37.5 hands to it (DESIGN.md 6/C19)
     add_node, add_edge, get_attributes_as_hashmap, get_edge_weight_key_id
     write_graphml_string (graphml.rs:214), write_edge_weight — as the list of
        events given to quick-xml's Writer, attribute values and text already
        escaped (Attribute::from((&str,&str)) and BytesText::new call `escape`).
   NOT modelled: quick-xml's tokenizer (string -> events) and serializer
   (events -> string), Rust's f64 Display / FromStr.  The model runs on the
   events quick-xml produced for the same document; a weight is an opaque
   token, [fmt]/[parse] are oracles.
   Node names are byte strings ([bytes] = list N, bytewise lexicographic order
   = String's Ord); the graph type is Graph<String, ()>.
   Every unwrap / index of the Rust code that remains after the fix is a
   [Panic] site here.  No proofs in this file. *)
From Coq Require Import String List NArith ZArith Bool.
From GV Require Import Base.Outcome Base.AMap Model.GState Model.Creation Model.Query Model.XmlEscape.
Import ListNotations.
Open Scope N_scope.

(* one item of quick-xml's attribute iterator (with_checks = true): a
   key/raw-value pair, or an error (unquoted value, duplicated key, ...);
   the iterator continues after an error *)
Inductive attr := AttrOk (key raw : bytes) | AttrErr.

(* one result of Reader::read_event_into *)
Inductive event :=
| EvStart (name : bytes) (attrs : list attr)
| EvEmpty (name : bytes) (attrs : list attr)
| EvEnd (name : bytes)
| EvText (raw : bytes)      (* handed over raw: not unescaped, not trimmed *)
| EvComment
| EvOther                   (* CData | PI | Decl | DocType *)
| EvEof
| EvErr.                    (* Err(e): syntax / ill-formed document *)

Notation gnode := (node bytes unit).
Notation gedge := (edge bytes unit).
Notation ggraph := (gstate bytes unit).

(* element and attribute names as byte strings *)
Definition s_node : bytes := [110; 111; 100; 101].
Definition s_edge : bytes := [101; 100; 103; 101].
Definition s_key : bytes := [107; 101; 121].
Definition s_graph : bytes := [103; 114; 97; 112; 104].
Definition s_data : bytes := [100; 97; 116; 97].
Definition s_graphml : bytes := [103; 114; 97; 112; 104; 109; 108].
Definition s_id : bytes := [105; 100].
Definition s_for : bytes := [102; 111; 114].
Definition s_source : bytes := [115; 111; 117; 114; 99; 101].
Definition s_target : bytes := [116; 97; 114; 103; 101; 116].
Definition s_weight : bytes := [119; 101; 105; 103; 104; 116].
Definition s_attr_name : bytes := [97; 116; 116; 114; 46; 110; 97; 109; 101].
Definition s_attr_type : bytes := [97; 116; 116; 114; 46; 116; 121; 112; 101].
Definition s_double : bytes := [100; 111; 117; 98; 108; 101].
Definition s_edgedefault : bytes := [101; 100; 103; 101; 100; 101; 102; 97; 117; 108; 116].
Definition s_directed : bytes := [100; 105; 114; 101; 99; 116; 101; 100].
Definition s_undirected : bytes := [117; 110; 100; 105; 114; 101; 99; 116; 101; 100].
Definition s_xmlns : bytes := [120; 109; 108; 110; 115].
Definition s_xmlns_xsi : bytes := [120; 109; 108; 110; 115; 58; 120; 115; 105].
Definition s_xsi_schema : bytes :=
  [120; 115; 105; 58; 115; 99; 104; 101; 109; 97; 76; 111; 99; 97; 116; 105; 111; 110].
(* "http://graphml.graphdrawing.org/xmlns" *)
Definition s_ns : bytes :=
  [104; 116; 116; 112; 58; 47; 47; 103; 114; 97; 112; 104; 109; 108; 46; 103; 114; 97; 112; 104;
   100; 114; 97; 119; 105; 110; 103; 46; 111; 114; 103; 47; 120; 109; 108; 110; 115].
(* "http://www.w3.org/2001/XMLSchema-instance" *)
Definition s_xsi : bytes :=
  [104; 116; 116; 112; 58; 47; 47; 119; 119; 119; 46; 119; 51; 46; 111; 114; 103; 47; 50; 48; 48;
   49; 47; 88; 77; 76; 83; 99; 104; 101; 109; 97; 45; 105; 110; 115; 116; 97; 110; 99; 101].
(* "http://graphml.graphdrawing.org/xmlns http://graphml.graphdrawing.org/xmlns/1.0/graphml.xsd" *)
Definition s_schema : bytes :=
  s_ns ++ [32] ++ s_ns ++ [47; 49; 46; 48; 47; 103; 114; 97; 112; 104; 109; 108; 46; 120; 115; 100].

(* ------------------------------------------------------------------------ *)
(* reader                                                                    *)
(* ------------------------------------------------------------------------ *)

(* QName::local_name: the part after the first colon *)
Fixpoint after_colon (k : bytes) : option bytes :=
  match k with
  | [] => None
  | b :: t => if b =? 58 then Some t else after_colon t
  end.
Definition local_name (k : bytes) : bytes :=
  match after_colon k with Some t => t | None => k end.

Definition amap := list (bytes * bytes).
Definition aget (k : bytes) (m : amap) : option bytes := lookup bytes_eqb k m.

(* graphml.rs get_attributes_as_hashmap: the first failing item (iterator
   error or unescape error) aborts with ReadError; a later key with the same
   local name overwrites an earlier one (HashMap collect) *)
Fixpoint attrs_map (l : list attr) (m : amap) : outcome amap :=
  match l with
  | [] => Ok m
  | AttrErr :: _ => Err ReadError
  | AttrOk k raw :: t =>
    match unescape raw with
    | None => Err ReadError
    | Some v => attrs_map t (insert bytes_eqb (local_name k) v m)
    end
  end.
Definition get_attributes (l : list attr) : outcome amap := attrs_map l [].

Inductive lastel := LNone | LNode | LEdge.    (* last_element_name: empty, node, edge *)

(* the loop's local variables; [r_nodes]/[r_edges] are kept in reverse (Vec::push = cons) *)
Record rstate := mkr {
  r_directed : bool;
  r_nodes : list gnode;
  r_edges : list gedge;
  r_last : lastel;
  r_wkey : bytes
}.

Definition r_init : rstate := mkr true [] [] LNone s_weight.

(* graphml.rs add_node *)
Definition rd_add_node (attrs : list attr) (st : rstate) : outcome rstate :=
  do m <- get_attributes attrs;
  match aget s_id m with
  | None => Err ReadError
  | Some v => Ok (mkr (r_directed st) (mknode v None :: r_nodes st) (r_edges st) (r_last st) (r_wkey st))
  end.

(* graphml.rs add_edge; the two `get(..).unwrap()` follow `contains_key` checks *)
Definition rd_add_edge (attrs : list attr) (st : rstate) : outcome rstate :=
  do m <- get_attributes attrs;
  if negb (contains_key bytes_eqb s_source m) then Err ReadError
  else if negb (contains_key bytes_eqb s_target m) then Err ReadError
  else
    do s <- unwrap_at "graphml.rs:add_edge source" (aget s_source m);
    do t <- unwrap_at "graphml.rs:add_edge target" (aget s_target m);
    Ok (mkr (r_directed st) (r_nodes st) (mkedge s t None None :: r_edges st) (r_last st) (r_wkey st)).

Definition opt_is (o : option bytes) (v : bytes) : bool :=
  match o with Some x => bytes_eqb x v | None => false end.

(* graphml.rs get_edge_weight_key_id + the assignment in the loop *)
Definition rd_key (attrs : list attr) (st : rstate) : outcome rstate :=
  do m <- get_attributes attrs;
  if opt_is (aget s_attr_name m) s_weight && opt_is (aget s_for m) s_edge then
    match aget s_id m with
    | Some id => Ok (mkr (r_directed st) (r_nodes st) (r_edges st) (r_last st) id)
    | None => Err ReadError
    end
  else Ok st.

Definition rd_graph (attrs : list attr) (st : rstate) : outcome rstate :=
  do m <- get_attributes attrs;
  match aget s_edgedefault m with
  | None => Err ReadError
  | Some v =>
    if bytes_eqb v s_directed then Ok (mkr true (r_nodes st) (r_edges st) (r_last st) (r_wkey st))
    else if bytes_eqb v s_undirected then Ok (mkr false (r_nodes st) (r_edges st) (r_last st) (r_wkey st))
    else Err ReadError
  end.

Definition set_last (l : lastel) (st : rstate) : rstate :=
  mkr (r_directed st) (r_nodes st) (r_edges st) l (r_wkey st).

(* Ok(Event::Empty(e)): node / edge / key, anything else ignored; `last_element_name` untouched *)
Definition on_empty (name : bytes) (attrs : list attr) (st : rstate) : outcome rstate :=
  if bytes_eqb name s_node then rd_add_node attrs st
  else if bytes_eqb name s_edge then rd_add_edge attrs st
  else if bytes_eqb name s_key then rd_key attrs st
  else Ok st.

(* `<data>` start tag: Ok true = the key attribute names the edge weight, the
   element's text is then expected *)
Definition data_wants_text (attrs : list attr) (st : rstate) : outcome bool :=
  do m <- get_attributes attrs;
  if contains_key bytes_eqb s_key m then
    do key <- unwrap_at "graphml.rs:data key" (aget s_key m);
    Ok (bytes_eqb key (r_wkey st))
  else Ok false.

(* a Text event while the weight text is expected: edges.last_mut().unwrap(), then parse *)
Definition set_weight (parse : bytes -> option weight) (raw : bytes) (st : rstate) : outcome rstate :=
  match r_last st with
  | LEdge =>
    match r_edges st with
    | [] => Panic "graphml.rs:edges.last_mut"
    | e :: rest =>
      match parse raw with
      | None => Err ReadError
      | Some w => Ok (mkr (r_directed st) (r_nodes st) (mkedge (eu e) (ev e) w (eattr e) :: rest)
                          (r_last st) (r_wkey st))
      end
    end
  | _ => Ok st
  end.

Section Reader.
  Variable parse : bytes -> option weight.   (* str::parse::<f64>: None = Err, Some None = NaN *)

  (* the event loop.  Structural in the event list, one event per step; [] and
     EvEof end it (the real reader returns Eof forever once the input is
     exhausted).  [exp] is `expect_weight_text`: set by the start tag of a weight
     `<data>`, kept across comments, cleared by every other event; a Text event
     that arrives while it is set is the weight of the last edge. *)
  Fixpoint rloop (evs : list event) (st : rstate) (exp : bool) : outcome rstate :=
    match evs with
    | [] => Ok st
    | ev :: rest =>
      match ev with
      | EvEof => Ok st
      | EvErr => Err ReadError
      | EvComment => rloop rest st exp
      | EvText raw =>
        if exp then do st' <- set_weight parse raw st; rloop rest st' false
        else rloop rest st false
      | EvEmpty name attrs => do st' <- on_empty name attrs st; rloop rest st' false
      | EvStart name attrs =>
        if bytes_eqb name s_graph then do st' <- rd_graph attrs st; rloop rest st' false
        else if bytes_eqb name s_node then do st' <- rd_add_node attrs (set_last LNode st); rloop rest st' false
        else if bytes_eqb name s_edge then do st' <- rd_add_edge attrs (set_last LEdge st); rloop rest st' false
        else if bytes_eqb name s_key then do st' <- rd_key attrs st; rloop rest st' false
        else if bytes_eqb name s_data then do want <- data_wants_text attrs st; rloop rest st want
        else rloop rest st false
      | _ => rloop rest st false
      end
    end.

  (* what the loop hands to Graph::new_from_nodes_and_edges *)
  Definition read_elements (evs : list event) : outcome (bool * list gnode * list gedge) :=
    do st <- rloop evs r_init false;
    Ok (r_directed st, rev (r_nodes st), rev (r_edges st)).

  Definition with_directed (d : bool) (s : specs) : specs :=
    mkspecs d (dd s) (ms s) (multi s) (selfloops s) (slf s).

  (* read_graphml_string on the events of its argument *)
  Definition read_events (evs : list event) (s : specs) : outcome ggraph :=
    do x <- read_elements evs;
    let '(d, ns, es) := x in
    new_from_nodes_and_edges bytes_eqb bytes_ltb ns es (with_directed d s).
End Reader.

(* ------------------------------------------------------------------------ *)
(* writer                                                                    *)
(* ------------------------------------------------------------------------ *)

Section Writer.
  Variable fmt : Z -> bytes.       (* format!("{}", weight) for a non-NaN weight token *)

  (* push_attribute((k, v)): the value is escaped *)
  Definition wattr (k v : bytes) : attr := AttrOk k (escape v).

  Definition header_events (d : bool) : list event :=
    [ EvStart s_graphml [wattr s_xmlns s_ns; wattr s_xmlns_xsi s_xsi; wattr s_xsi_schema s_schema];
      EvEmpty s_key [wattr s_id s_weight; wattr s_for s_edge; wattr s_attr_name s_weight;
                     wattr s_attr_type s_double];
      EvStart s_graph [wattr s_edgedefault (if d then s_directed else s_undirected)] ].

  Definition node_events (n : gnode) : list event := [EvEmpty s_node [wattr s_id (nname n)]].

  (* write_edge_weight: nothing for NaN; BytesText::new escapes the text *)
  Definition weight_events (w : weight) : list event :=
    match w with
    | None => []
    | Some z => [EvStart s_data [wattr s_key s_weight]; EvText (escape (fmt z)); EvEnd s_data]
    end.

  Definition edge_events (e : gedge) : list event :=
    [EvStart s_edge [wattr s_source (eu e); wattr s_target (ev e)]] ++ weight_events (ew e) ++ [EvEnd s_edge].

  Definition footer_events : list event := [EvEnd s_graph; EvEnd s_graphml].

  (* the writer on a node list and an edge list *)
  Definition write_elements (d : bool) (ns : list gnode) (es : list gedge) : list event :=
    header_events d ++ flat_map node_events ns ++ flat_map edge_events es ++ footer_events.

  (* write_graphml_string: get_all_nodes() is position order, get_all_edges() is
     edges.values().flatten() — here in the association list's order; the
     HashMap order of the real store is canonicalised by the comparison *)
  Definition write_events (g : ggraph) : list event :=
    write_elements (directed (sp g)) (get_all_nodes g) (get_all_edges g).
End Writer.
