(* Transcription of src/algorithms/community/louvain.rs as it is after the
   repairs of F16 (directed gain counts in- and out-edges), F17 (candidate
   communities scanned own-first then by ascending id; sums in a fixed order)
   and F23 (a weighted call on a graph with a negative weight is answered with
   InvalidArgument before anything else is done).
   The working graphs are [gstate nat (list nat)] (Graph<usize, HashSet<usize>>).
   Numbers are exact rationals.  The seeded shuffle is an explicit input: a
   table [perms] whose k-th row (k >= 1) is the order in which
   `StdRng::seed_from_u64(seed)` shuffles a vector of k positions (the harness
   obtains it from the same rand version); louvain.rs re-seeds the generator
   at every level, so the order is a function of the level's node count.
   Loops that are not structural (`while nb_moves > 0`, `while improvement`)
   take explicit fuel.  Besides its result every function returns a flag
   [tie]: "a decision compared two mathematically equal numbers obtained from
   different operands", the one situation in which binary64 rounding may decide
   differently from exact arithmetic; the correspondence compares the levels
   only on runs where the flag stays false.  No proofs here. *)
From Coq Require Import String List Bool ZArith NArith Arith QArith Qabs.
From GV Require Import Base.Outcome Base.AMap Model.GState Model.Creation Model.Query Model.Derived
     Model.Partition.
Import ListNotations.
Open Scope string_scope.
Open Scope list_scope.

Notation lgraph := (gstate nat (list nat)).
Notation lnode := (node nat (list nat)).
Notation ledge := (edge nat (list nat)).

(* ---- small list utilities (sorted(), enumerate()) ---- *)
Section Sort.
  Context {X : Type}.
  Variable ltb : X -> X -> bool.
  Fixpoint ins_sorted (x : X) (l : list X) : list X :=
    match l with
    | [] => [x]
    | y :: t => if ltb y x then y :: ins_sorted x t else x :: l
    end.
  Definition sort_by (l : list X) : list X := fold_right ins_sorted [] l.
End Sort.

Fixpoint enumerate_from {X} (i : nat) (l : list X) : list (X * nat) :=
  match l with [] => [] | x :: t => (x, i) :: enumerate_from (S i) t end.

(* the model's number for an edge weight: NaN has none *)
Definition q_of_w (site : string) (w : weight) : outcome Q :=
  match w with
  | Some z => Ok (inject_Z z)
  | None => Panic site
  end.
Definition nan_site := "model: NaN edge weight with weighted = true, outside the modelled domain".

Fixpoint qsum_l (l : list Q) : Q := match l with [] => 0%Q | x :: t => (x + qsum_l t)%Q end.

(* ---------------- the integer-named working graph ---------------- *)

(* louvain.rs map_node_names_to_hashsets *)
Definition map_node_names_to_hashsets (g : lgraph) : list (list nat) :=
  map (fun n => [n]) (sort_by Nat.ltb (map nname (get_all_nodes g))).

(* DegreeInfo *)
Record deginfo := mkdi {
  in_degrees : list (nat * Q);
  out_degrees : list (nat * Q);
  stot_in : list Q;
  stot_out : list Q;
  degrees : list (nat * Q);
  stot : list Q;
  degree : Q;
  in_degree : Q;
  out_degree : Q
}.

Definition wmap_q (m : list (nat * weight)) : outcome (list (nat * Q)) :=
  omapM (fun kv => do q <- q_of_w nan_site (snd kv); Ok (fst kv, q)) m.

(* louvain.rs get_degree_information *)
Definition get_degree_information (g : lgraph) (partition : list (list nat)) : outcome deginfo :=
  let idx := seq 0 (length partition) in
  if directed (sp g) then
    do i0 <- unwrap_res "louvain.rs:get_degree_information in unwrap"
               (get_weighted_in_degree_for_all_nodes Nat.eqb g);
    do o0 <- unwrap_res "louvain.rs:get_degree_information out unwrap"
               (get_weighted_out_degree_for_all_nodes Nat.eqb g);
    do ind <- wmap_q i0;
    do outd <- wmap_q o0;
    do si <- omapM (fun i => unwrap_at "louvain.rs:stot_in unwrap" (lookup Nat.eqb i ind)) idx;
    do so <- omapM (fun i => unwrap_at "louvain.rs:stot_out unwrap" (lookup Nat.eqb i outd)) idx;
    Ok (mkdi ind outd si so [] [] 0 0 0)
  else
    do d0 <- get_weighted_degree_for_all_nodes Nat.eqb Nat.ltb g;
    do dg <- wmap_q d0;
    do st <- omapM (fun i => unwrap_at "louvain.rs:stot unwrap" (lookup Nat.eqb i dg)) idx;
    Ok (mkdi [] [] [] [] dg st 0 0 0).

(* Vec<f64> index read / read-modify-write; out of range panics *)
Definition vec_get (site : string) (v : list Q) (i : nat) : outcome Q := unwrap_at site (nth_error v i).
Definition vec_add (site : string) (v : list Q) (i : nat) (d : Q) : outcome (list Q) :=
  do x <- vec_get site v i;
  unwrap_at site (set_nth i (Qred (x + d)) v).

(* louvain.rs subtract_degree_from_best_com *)
Definition subtract_degree_from_best_com (best_com u : nat) (di : deginfo) (dir : bool) : outcome deginfo :=
  if dir then
    do ind <- unwrap_at "louvain.rs:in_degrees unwrap" (lookup Nat.eqb u (in_degrees di));
    do outd <- unwrap_at "louvain.rs:out_degrees unwrap" (lookup Nat.eqb u (out_degrees di));
    do si <- vec_add "louvain.rs:stot_in index" (stot_in di) best_com (- ind);
    do so <- vec_add "louvain.rs:stot_out index" (stot_out di) best_com (- outd);
    Ok (mkdi (in_degrees di) (out_degrees di) si so (degrees di) (stot di) (degree di) ind outd)
  else
    do d <- unwrap_at "louvain.rs:degrees unwrap" (lookup Nat.eqb u (degrees di));
    do st <- vec_add "louvain.rs:stot index" (stot di) best_com (- d);
    Ok (mkdi (in_degrees di) (out_degrees di) (stot_in di) (stot_out di) (degrees di) st d
             (in_degree di) (out_degree di)).

(* louvain.rs add_degree_to_best_com *)
Definition add_degree_to_best_com (best_com : nat) (di : deginfo) (dir : bool) : outcome deginfo :=
  if dir then
    do si <- vec_add "louvain.rs:stot_in index" (stot_in di) best_com (in_degree di);
    do so <- vec_add "louvain.rs:stot_out index" (stot_out di) best_com (out_degree di);
    Ok (mkdi (in_degrees di) (out_degrees di) si so (degrees di) (stot di) (degree di)
             (in_degree di) (out_degree di))
  else
    do st <- vec_add "louvain.rs:stot index" (stot di) best_com (degree di);
    Ok (mkdi (in_degrees di) (out_degrees di) (stot_in di) (stot_out di) (degrees di) st (degree di)
             (in_degree di) (out_degree di)).

(* HashMap<usize, f64>: *entry(c).or_insert(0.0) += w *)
Definition acc_weight (c : nat) (w : Q) (m : list (nat * Q)) : list (nat * Q) :=
  insert Nat.eqb c (Qred ((match lookup Nat.eqb c m with Some x => x | None => 0%Q end) + w)) m.

(* louvain.rs get_neighbor_weights (successors) and add_predecessor_weights
   (repair of F16), both over the sorted neighbour set; [towards] selects the
   orientation of the edge that is read *)
Definition neighbor_weights_into (g : lgraph) (u : nat) (nbrs : list (nat * list nat))
           (node2com : list (nat * nat)) (towards : bool) (acc0 : list (nat * Q))
  : outcome (list (nat * Q)) :=
  let hs := match lookup Nat.eqb u nbrs with Some l => l | None => [] end in
  ofold (fun acc v =>
           if Nat.eqb u v then Ok acc else
           do e <- unwrap_res "louvain.rs:get_edge unwrap"
                     (if towards then get_edge Nat.eqb g u v else get_edge Nat.eqb g v u);
           do c <- unwrap_at "louvain.rs:node2com unwrap" (lookup Nat.eqb v node2com);
           do w <- q_of_w nan_site (ew e);
           Ok (acc_weight c w acc))
        (sort_by Nat.ltb hs) acc0.

Definition get_neighbor_weights (g : lgraph) (u : nat) (nbrs : list (nat * list nat))
           (node2com : list (nat * nat)) : outcome (list (nat * Q)) :=
  neighbor_weights_into g u nbrs node2com true [].

Definition add_predecessor_weights (g : lgraph) (u : nat) (preds : list (nat * list nat))
           (node2com : list (nat * nat)) (w2c : list (nat * Q)) : outcome (list (nat * Q)) :=
  neighbor_weights_into g u preds node2com false w2c.

(* the repaired scan order of update_best_com: own community first, then ascending id *)
Definition cand_ltb (own : nat) (a b : nat * Q) : bool :=
  let ka := negb (Nat.eqb (fst a) own) in
  let kb := negb (Nat.eqb (fst b) own) in
  if Bool.eqb ka kb then Nat.ltb (fst a) (fst b) else negb ka.

Definition sort_candidates (own : nat) (l : list (nat * Q)) : list (nat * Q) :=
  sort_by (cand_ltb own) l.

(* the gain of one candidate; [None] is NaN (m = 0: every term is 0 and 0/0) *)
Definition gain_of (di : deginfo) (m resolution : Q) (dir : bool) (c : nat) (wt : Q) : outcome (option Q) :=
  if dir then
    do si <- vec_get "louvain.rs:stot_in index" (stot_in di) c;
    do so <- vec_get "louvain.rs:stot_out index" (stot_out di) c;
    Ok (if Qeq_bool m 0 then None
        else Some (Qred (wt - resolution * (out_degree di * si + in_degree di * so) / m)))
  else
    do st <- vec_get "louvain.rs:stot index" (stot di) c;
    Ok (if Qeq_bool m 0 then None
        else Some (Qred (2 * wt - resolution * (st * degree di) / m))).

(* the operands the binary64 evaluation of a gain depends on besides the
   node-wide constants: equal operands give bit-identical gains *)
Definition operands_of (di : deginfo) (dir : bool) (c : nat) (wt : Q) : list Q :=
  if dir then [wt; nth c (stot_in di) 0%Q; nth c (stot_out di) 0%Q] else [wt; nth c (stot di) 0%Q].

Fixpoint qlist_eqb (a b : list Q) : bool :=
  match a, b with
  | [], [] => true
  | x :: a', y :: b' => Qeq_bool x y && qlist_eqb a' b'
  | _, _ => false
  end.

(* louvain.rs update_best_com.  Returns (best_com, best_mod, gains seen) *)
Fixpoint scan_candidates (di : deginfo) (m resolution : Q) (dir : bool)
         (cands : list (nat * Q)) (best_com : nat) (best_mod : Q) (seen : list (Q * list Q))
  : outcome (nat * Q * list (Q * list Q)) :=
  match cands with
  | [] => Ok (best_com, best_mod, seen)
  | (c, wt) :: t =>
    do g <- gain_of di m resolution dir c wt;
    match g with
    | None => scan_candidates di m resolution dir t best_com best_mod seen
    | Some gq =>
      let seen' := (gq, operands_of di dir c wt) :: seen in
      if Qlt_le_dec best_mod gq
      then scan_candidates di m resolution dir t c gq seen'
      else scan_candidates di m resolution dir t best_com best_mod seen'
    end
  end.

(* two candidates reach the winning positive gain with different operands *)
Definition risky_tie (best_mod : Q) (seen : list (Q * list Q)) : bool :=
  if Qlt_le_dec 0 best_mod then
    let top := filter (fun p => Qeq_bool (fst p) best_mod) seen in
    match top with
    | [] => false
    | p :: t => negb (forallb (fun q => qlist_eqb (snd p) (snd q)) t)
    end
  else false.

Definition update_best_com (own : nat) (w2c : list (nat * Q)) (di : deginfo) (m resolution : Q)
           (dir : bool) : outcome (nat * bool) :=
  do r <- scan_candidates di m resolution dir (sort_candidates own w2c) own 0%Q [];
  let '(bc, bm, seen) := r in
  Ok (bc, risky_tie bm seen).

(* HashSet difference / union / remove / insert on duplicate-free lists *)
Definition set_diff (a b : list nat) : list nat := filter (fun x => negb (mem Nat.eqb x b)) a.
Definition set_union (a b : list nat) : list nat := fold_left (fun acc x => set_add Nat.eqb x acc) b a.
Definition set_remove (x : nat) (a : list nat) : list nat := filter (fun y => negb (Nat.eqb y x)) a.

Definition upd_nth {X} (site : string) (i : nat) (f : X -> X) (l : list X) : outcome (list X) :=
  do x <- unwrap_at site (nth_error l i);
  unwrap_at site (set_nth i (f x) l).

Record lstate := mkls {
  ls_partition : list (list nat);
  ls_inner : list (list nat);
  ls_node2com : list (nat * nat);
  ls_deg : deginfo;
  ls_moves : nat;
  ls_improved : bool;
  ls_tie : bool
}.

(* the body of `for u in &shuffled_nodes` *)
Definition visit (g : lgraph) (m resolution : Q) (nbrs preds : list (nat * list nat))
           (s : lstate) (u : nat) : outcome lstate :=
  let dir := directed (sp g) in
  do own <- unwrap_at "louvain.rs:node2com unwrap" (lookup Nat.eqb u (ls_node2com s));
  do w0 <- get_neighbor_weights g u nbrs (ls_node2com s);
  do w2c <- (if dir then add_predecessor_weights g u preds (ls_node2com s) w0 else Ok w0);
  do di1 <- subtract_degree_from_best_com own u (ls_deg s) dir;
  do bt <- update_best_com own w2c di1 m resolution dir;
  let '(best_com, tie) := bt in
  do di2 <- add_degree_to_best_com best_com di1 dir;
  if Nat.eqb best_com own then
    Ok (mkls (ls_partition s) (ls_inner s) (ls_node2com s) di2 (ls_moves s) (ls_improved s)
             (ls_tie s || tie))
  else
    do nd <- unwrap_res "louvain.rs:get_node unwrap" (get_node Nat.eqb g u);
    do nd' <- unwrap_at "louvain.rs:get_node unwrap" nd;
    let com := match nattr nd' with Some a => a | None => [u] end in
    do p1 <- upd_nth "louvain.rs:_partition index" own (fun c => set_diff c com) (ls_partition s);
    do i1 <- upd_nth "louvain.rs:inner_partition index" own (set_remove u) (ls_inner s);
    do p2 <- upd_nth "louvain.rs:_partition index" best_com (fun c => set_union c com) p1;
    do i2 <- upd_nth "louvain.rs:inner_partition index" best_com (set_add Nat.eqb u) i1;
    Ok (mkls p2 i2 (insert Nat.eqb u best_com (ls_node2com s)) di2 (S (ls_moves s)) true
             (ls_tie s || tie)).

(* `while nb_moves > 0 { nb_moves = 0; for u in shuffled { .. } }` *)
Fixpoint sweeps (fuel : nat) (g : lgraph) (m resolution : Q) (nbrs preds : list (nat * list nat))
         (order : list nat) (s : lstate) : outcome lstate :=
  match fuel with
  | O => OutOfFuel
  | S f =>
    do s1 <- ofold (visit g m resolution nbrs preds)
                   order (mkls (ls_partition s) (ls_inner s) (ls_node2com s) (ls_deg s) 0
                               (ls_improved s) (ls_tie s));
    if Nat.eqb (ls_moves s1) 0 then Ok s1 else sweeps f g m resolution nbrs preds order s1
  end.

(* get_shuffled_node_names: the node list permuted by the table row of its length *)
Definition get_shuffled_node_names (g : lgraph) (perms : list (list nat)) : outcome (list nat) :=
  let names := map nname (get_all_nodes g) in
  match names with
  | [] => Ok []
  | _ =>
    do row <- unwrap_at "model: shuffle table has no row for this node count"
                (nth_error perms (length names - 1));
    if negb (Nat.eqb (length row) (length names)) then Panic "model: shuffle table row of wrong length" else
    omapM (fun i => unwrap_at "model: shuffle table entry out of range" (nth_error names i)) row
  end.

Definition nonempty (l : list nat) : bool := match l with [] => false | _ => true end.

(* louvain.rs compute_one_level: the local-moving phase, up to the final bookkeeping state ... *)
Definition compute_one_level_state (fuel : nat) (g : lgraph) (m : Q) (partition : list (list nat))
           (resolution : Q) (perms : list (list nat)) : outcome lstate :=
  let names := sort_by Nat.ltb (map nname (get_all_nodes g)) in
  let node2com := map (fun n => (n, n)) names in
  let inner := map_node_names_to_hashsets g in
  do di <- get_degree_information g partition;
  do order <- get_shuffled_node_names g perms;
  sweeps fuel g m resolution (successors g) (predecessors g) order
         (mkls partition inner node2com di 1 false false).

(* ... and the filtered result *)
Definition compute_one_level (fuel : nat) (g : lgraph) (m : Q) (partition : list (list nat))
           (resolution : Q) (perms : list (list nat))
  : outcome (list (list nat) * list (list nat) * bool * bool) :=
  do s <- compute_one_level_state fuel g m partition resolution perms;
  Ok (filter nonempty (ls_partition s), filter nonempty (ls_inner s), ls_improved s, ls_tie s).

(* edges sorted by (u, v): the repaired accumulation order of generate_graph *)
Definition edge_ltb (a b : ledge) : bool :=
  Nat.ltb (eu a) (eu b) || (Nat.eqb (eu a) (eu b) && Nat.ltb (ev a) (ev b)).

(* louvain.rs generate_graph *)
Definition generate_graph (g : lgraph) (partition : list (list nat)) : outcome lgraph :=
  let s := sp g in
  let s' := mkspecs (directed s) DKeepLast (ms s) (multi s) true (slf s) in
  do r <- ofold (fun acc ip =>
             let '(ng, n2c) := acc in
             let '(part, i) := ip in
             do r2 <- ofold (fun acc2 nd =>
                        let '(n2c2, nodes) := acc2 in
                        do no <- unwrap_res "louvain.rs:generate_graph get_node unwrap" (get_node Nat.eqb g nd);
                        do nobj <- unwrap_at "louvain.rs:generate_graph get_node unwrap" no;
                        let ext := match nattr nobj with Some a => a | None => [nd] end in
                        Ok (insert Nat.eqb nd i n2c2, set_union nodes ext)) part (n2c, []);
             let '(n2c', nodes) := r2 in
             do ng' <- add_node Nat.eqb ng (mknode i (Some nodes));
             Ok (ng', n2c'))
          (enumerate_from 0 partition) (new s', []);
  let '(ng0, node2com) := r in
  ofold (fun ng e =>
           do c1 <- unwrap_at "louvain.rs:generate_graph node2com unwrap" (lookup Nat.eqb (eu e) node2com);
           do c2 <- unwrap_at "louvain.rs:generate_graph node2com unwrap" (lookup Nat.eqb (ev e) node2com);
           do old <- (match get_edge Nat.eqb ng c1 c2 with
                      | Ok x => Ok (ew x)
                      | Err _ => Ok (Some 0%Z)
                      | Panic st => Panic st
                      | OutOfFuel => OutOfFuel
                      end);
           match add_edge Nat.eqb Nat.ltb ng (mkedge c1 c2 (wadd (ew e) old) None) with
           | (ng', Ok _) => Ok ng'
           | (_, Err _) => Panic "louvain.rs:generate_graph unexpected failure to add edge"
           | (_, Panic st) => Panic st
           | (_, OutOfFuel) => OutOfFuel
           end)
        (sort_by edge_ltb (get_all_edges g)) ng0.

Definition size_q (g : lgraph) (weighted : bool) : outcome Q :=
  if weighted then q_of_w nan_site (size_weighted g)
  else Ok (inject_Z (Z.of_nat (size_unweighted g))).

(* `new_mod - modularity <= threshold` on possibly-NaN values, and whether the
   exact comparison is too close to call for binary64 *)
Definition gain_small (new_mod old_mod : oq) (thr : Q) : bool * bool :=
  match new_mod, old_mod with
  | Some a, Some b =>
    let d := (a - b - thr)%Q in
    (if Qlt_le_dec 0 d then false else true,
     if Qlt_le_dec (Qabs d) (1 # 1000000000) then true else false)
  | _, _ => (false, false)
  end.

(* the `while improvement` loop of louvain_partitions *)
Fixpoint level_loop (fuel sweep_fuel : nat) (weighted : bool) (resolution thr : Q) (perms : list (list nat))
         (m : Q) (graphu : lgraph) (partition inner : list (list nat)) (modularity_ : oq)
         (acc : list (list (list nat))) (tie : bool)
  : outcome (list (list (list nat)) * bool) :=
  match fuel with
  | O => OutOfFuel
  | S f =>
    let acc' := acc ++ [partition] in
    do new_mod <- unwrap_res "louvain.rs:105 modularity unwrap"
                    (modularity Nat.eqb Nat.ltb graphu inner weighted resolution);
    let '(small, close) := gain_small new_mod modularity_ thr in
    if small then Ok (acc', tie || close) else
    do g2 <- generate_graph graphu inner;
    do z <- compute_one_level sweep_fuel g2 m partition resolution perms;
    let '(p2, i2, improvement, tie2) := z in
    if improvement
    then level_loop f sweep_fuel weighted resolution thr perms m g2 p2 i2 new_mod acc' (tie || close || tie2)
    else Ok (acc', tie || close || tie2)
  end.

Section Entry.
  Context {T A : Type}.
  Variable teqb : T -> T -> bool.
  Variable tltb : T -> T -> bool.

  (* louvain.rs:86-93 *)
  Definition node_map_of (g : gstate T A) : list (T * nat) :=
    enumerate_from 0 (sort_by tltb (map nname (get_all_nodes g))).

  (* louvain.rs convert_graph *)
  Definition convert_graph (g : gstate T A) (weighted : bool) (node_map : list (T * nat)) : outcome lgraph :=
    do g1 <- (if multi (sp g)
              then unwrap_res "louvain.rs:convert_graph to_single_edges unwrap" (to_single_edges teqb tltb g)
              else Ok g);
    do g2 <- (if weighted then Ok g1 else set_all_edge_weights teqb tltb g1 (Some 1%Z));
    do ns <- omapM (fun n : node T A =>
                      do u <- unwrap_at "louvain.rs:convert_graph node_map unwrap"
                                (lookup teqb (nname n) node_map);
                      Ok (mknode u (Some [u]))) (get_all_nodes g2);
    do es <- omapM (fun e : edge T A =>
                      do u <- unwrap_at "louvain.rs:convert_graph node_map unwrap" (lookup teqb (eu e) node_map);
                      do v <- unwrap_at "louvain.rs:convert_graph node_map unwrap" (lookup teqb (ev e) node_map);
                      Ok (mkedge u v (ew e) (None : option (list nat)))) (get_all_edges g2);
    unwrap_res "louvain.rs:convert_graph new_from_nodes_and_edges unwrap"
               (new_from_nodes_and_edges Nat.eqb Nat.ltb ns es (sp g2)).

  (* louvain.rs convert_usize_partitons_to_t *)
  Definition convert_back (node_map : list (T * nat)) (levels : list (list (list nat)))
    : outcome (list (list (list T))) :=
    let rev := map (fun kv => (snd kv, fst kv)) node_map in
    omapM (fun lvl =>
             omapM (fun hs =>
                      omapM (fun u => unwrap_at "louvain.rs:reverse_node_map unwrap" (lookup Nat.eqb u rev)) hs)
                   lvl) levels.

  (* louvain.rs louvain_partitions, first statement (repair of F23):
     `weighted && graph.get_all_edges().iter().any(|e| e.weight < 0.0)`; the comparison is
     false for NaN, so an edge without weight does not count.  `any` over the edge HashMap
     is a boolean: its value does not depend on the iteration order. *)
  Definition weight_negb (w : weight) : bool :=
    match w with Some z => Z.ltb z 0 | None => false end.
  Definition has_negative_weight (g : gstate T A) : bool :=
    existsb (fun e : edge T A => weight_negb (ew e)) (get_all_edges g).
  Definition negative_weight_guard (g : gstate T A) (weighted : bool) : bool :=
    weighted && has_negative_weight g.

  (* louvain.rs louvain_partitions.  [thr] and [resolution] are the effective
     values (after unwrap_or).  Result: the levels and the tie flag. *)
  Definition louvain_partitions_t (level_fuel sweep_fuel : nat) (g : gstate T A) (weighted : bool)
             (resolution thr : Q) (perms : list (list nat))
    : outcome (list (list (list T)) * bool) :=
    if negative_weight_guard g weighted then Err InvalidArgument else
    let node_map := node_map_of g in
    do graphu <- convert_graph g weighted node_map;
    let partition := map_node_names_to_hashsets graphu in
    do modularity0 <- unwrap_res "louvain.rs:96 modularity unwrap"
                        (modularity Nat.eqb Nat.ltb graphu partition weighted resolution);
    do m <- size_q graphu weighted;
    do z <- compute_one_level sweep_fuel graphu m partition resolution perms;
    let '(p1, i1, _, tie1) := z in
    do r <- level_loop level_fuel sweep_fuel weighted resolution thr perms m graphu p1 i1 modularity0 [] tie1;
    let '(levels, tie) := r in
    do ls <- convert_back node_map levels;
    Ok (ls, tie).

  Definition louvain_partitions (level_fuel sweep_fuel : nat) (g : gstate T A) (weighted : bool)
             (resolution thr : Q) (perms : list (list nat)) : outcome (list (list (list T))) :=
    do r <- louvain_partitions_t level_fuel sweep_fuel g weighted resolution thr perms; Ok (fst r).

  (* Vec::pop *)
  Fixpoint pop {X} (l : list X) : option X :=
    match l with
    | [] => None
    | x :: t => match t with [] => Some x | _ => pop t end
    end.

  (* louvain.rs louvain_communities *)
  Definition louvain_communities (level_fuel sweep_fuel : nat) (g : gstate T A) (weighted : bool)
             (resolution thr : Q) (perms : list (list nat)) : outcome (list (list T)) :=
    do ps <- louvain_partitions level_fuel sweep_fuel g weighted resolution thr perms;
    match pop ps with
    | Some l => Ok l
    | None => Err NoPartitions
    end.
End Entry.
