(* C17, deepening: the Louvain pipeline of Model/Louvain.v with the ITERATION ORDER OF THE HASH
   CONTAINERS AS AN EXPLICIT INPUT.

   Model/Louvain.v is deterministic: wherever louvain.rs iterates a HashMap / HashSet and hands the
   elements to order-sensitive code (a first-wins scan, a running f64 sum, a Vec), the model iterates
   the association list that stands for the container in its stored order and then applies the
   canonicalisation the repaired code applies (sort_candidates, sort_by Nat.ltb, sort_by edge_ltb).
   Here the stored order is NOT used: at each such site the list is first handed to an ORDER ORACLE,

       ho_cand : OS -> list (nat * Q) -> list (nat * Q) * OS     weights2com.into_iter()         (update_best_com)
       ho_nbr  : OS -> list nat       -> list nat * OS           hs.iter() on a successor or
                                                                predecessor HashSet             (get_neighbor_weights,
                                                                                                 add_predecessor_weights)
       ho_edge : OS -> list ledge     -> list ledge * OS         graph.get_all_edges()           (generate_graph)

   which returns the sequence the iterator yields and a new oracle state.  [OS] ("oracle state") is an arbitrary type
   (the source of the per-table hash keys); the state is threaded through the whole run, so two
   iterations of equal containers may yield different orders, as they do with std's RandomState.
   The oracle may inspect the elements (a real hash order is a function of the keys).  Nothing is
   assumed here; Proofs/LouvainOrdOk.v assumes only that each returned list is a Permutation of the
   argument and proves that the oracle is unobservable: every function below, with the final oracle
   state dropped, equals its counterpart of Model/Louvain.v.

   Everything that is not an iteration site is copied verbatim from Model/Louvain.v (same sites,
   same strings), so that the two pipelines differ in the oracle calls and in nothing else.
   Hash containers that are only probed (get / entry / contains / insert / len) or whose iteration
   feeds another hash container (HashSet difference / union / extend / collect) are content-only by
   the std API and keep their list representation; DESIGN.md 0.10.8 lists every site.  No proofs
   here. *)
From Coq Require Import String List Bool ZArith NArith Arith QArith Qabs.
From GV Require Import Base.Outcome Base.AMap Model.GState Model.Creation Model.Query Model.Derived
     Model.Partition Model.Louvain.
Import ListNotations.
Open Scope string_scope.
Open Scope list_scope.

Record hash_oracle (OS : Type) : Type := mkHO {
  ho_cand : OS -> list (nat * Q) -> list (nat * Q) * OS;
  ho_nbr : OS -> list nat -> list nat * OS;
  ho_edge : OS -> list ledge -> list ledge * OS
}.
Arguments ho_cand {OS} h o l.
Arguments ho_nbr {OS} h o l.
Arguments ho_edge {OS} h o l.

Section Ord.
  Context {OS : Type}.
  Variable h : hash_oracle OS.

  (* louvain.rs get_neighbor_weights / add_predecessor_weights: `hs.iter()` yields the oracle's
     order, `.sorted()` follows *)
  Definition neighbor_weights_into_ord (o : OS) (g : lgraph) (u : nat) (nbrs : list (nat * list nat))
             (node2com : list (nat * nat)) (towards : bool) (acc0 : list (nat * Q))
    : outcome (list (nat * Q) * OS) :=
    let hs := match lookup Nat.eqb u nbrs with Some l => l | None => [] end in
    let '(it, o1) := ho_nbr h o hs in
    do r <- ofold (fun acc v =>
             if Nat.eqb u v then Ok acc else
             do e <- unwrap_res "louvain.rs:get_edge unwrap"
                       (if towards then get_edge Nat.eqb g u v else get_edge Nat.eqb g v u);
             do c <- unwrap_at "louvain.rs:node2com unwrap" (lookup Nat.eqb v node2com);
             do w <- q_of_w nan_site (ew e);
             Ok (acc_weight c w acc))
          (sort_by Nat.ltb it) acc0;
    Ok (r, o1).

  Definition get_neighbor_weights_ord (o : OS) (g : lgraph) (u : nat) (nbrs : list (nat * list nat))
             (node2com : list (nat * nat)) : outcome (list (nat * Q) * OS) :=
    neighbor_weights_into_ord o g u nbrs node2com true [].

  Definition add_predecessor_weights_ord (o : OS) (g : lgraph) (u : nat) (preds : list (nat * list nat))
             (node2com : list (nat * nat)) (w2c : list (nat * Q)) : outcome (list (nat * Q) * OS) :=
    neighbor_weights_into_ord o g u preds node2com false w2c.

  (* louvain.rs update_best_com: `weights2com.into_iter().collect()` yields the oracle's order,
     `sort_by_key` follows *)
  Definition update_best_com_ord (o : OS) (own : nat) (w2c : list (nat * Q)) (di : deginfo) (m resolution : Q)
             (dir : bool) : outcome (nat * bool * OS) :=
    let '(it, o1) := ho_cand h o w2c in
    do r <- scan_candidates di m resolution dir (sort_candidates own it) own 0%Q [];
    let '(bc, bm, seen) := r in
    Ok (bc, risky_tie bm seen, o1).

  (* the body of `for u in &shuffled_nodes` *)
  Definition visit_ord (g : lgraph) (m resolution : Q) (nbrs preds : list (nat * list nat))
             (so : lstate * OS) (u : nat) : outcome (lstate * OS) :=
    let '(s, o) := so in
    let dir := directed (sp g) in
    do own <- unwrap_at "louvain.rs:node2com unwrap" (lookup Nat.eqb u (ls_node2com s));
    do w0o <- get_neighbor_weights_ord o g u nbrs (ls_node2com s);
    let '(w0, o1) := w0o in
    do w2co <- (if dir then add_predecessor_weights_ord o1 g u preds (ls_node2com s) w0 else Ok (w0, o1));
    let '(w2c, o2) := w2co in
    do di1 <- subtract_degree_from_best_com own u (ls_deg s) dir;
    do bto <- update_best_com_ord o2 own w2c di1 m resolution dir;
    let '(best_com, tie, o3) := bto in
    do di2 <- add_degree_to_best_com best_com di1 dir;
    if Nat.eqb best_com own then
      Ok (mkls (ls_partition s) (ls_inner s) (ls_node2com s) di2 (ls_moves s) (ls_improved s)
               (ls_tie s || tie), o3)
    else
      do nd <- unwrap_res "louvain.rs:get_node unwrap" (get_node Nat.eqb g u);
      do nd' <- unwrap_at "louvain.rs:get_node unwrap" nd;
      let com := match nattr nd' with Some a => a | None => [u] end in
      do p1 <- upd_nth "louvain.rs:_partition index" own (fun c => set_diff c com) (ls_partition s);
      do i1 <- upd_nth "louvain.rs:inner_partition index" own (set_remove u) (ls_inner s);
      do p2 <- upd_nth "louvain.rs:_partition index" best_com (fun c => set_union c com) p1;
      do i2 <- upd_nth "louvain.rs:inner_partition index" best_com (set_add Nat.eqb u) i1;
      Ok (mkls p2 i2 (insert Nat.eqb u best_com (ls_node2com s)) di2 (S (ls_moves s)) true
               (ls_tie s || tie), o3).

  (* `while nb_moves > 0 { nb_moves = 0; for u in shuffled { .. } }` *)
  Fixpoint sweeps_ord (fuel : nat) (g : lgraph) (m resolution : Q) (nbrs preds : list (nat * list nat))
           (order : list nat) (so : lstate * OS) : outcome (lstate * OS) :=
    match fuel with
    | O => OutOfFuel
    | S f =>
      let '(s, o) := so in
      do so1 <- ofold (visit_ord g m resolution nbrs preds)
                     order (mkls (ls_partition s) (ls_inner s) (ls_node2com s) (ls_deg s) 0
                                 (ls_improved s) (ls_tie s), o);
      if Nat.eqb (ls_moves (fst so1)) 0 then Ok so1 else sweeps_ord f g m resolution nbrs preds order so1
    end.

  (* louvain.rs compute_one_level *)
  Definition compute_one_level_state_ord (o : OS) (fuel : nat) (g : lgraph) (m : Q) (partition : list (list nat))
             (resolution : Q) (perms : list (list nat)) : outcome (lstate * OS) :=
    let names := sort_by Nat.ltb (map nname (get_all_nodes g)) in
    let node2com := map (fun n => (n, n)) names in
    let inner := map_node_names_to_hashsets g in
    do di <- get_degree_information g partition;
    do order <- get_shuffled_node_names g perms;
    sweeps_ord fuel g m resolution (successors g) (predecessors g) order
               (mkls partition inner node2com di 1 false false, o).

  Definition compute_one_level_ord (o : OS) (fuel : nat) (g : lgraph) (m : Q) (partition : list (list nat))
             (resolution : Q) (perms : list (list nat))
    : outcome (list (list nat) * list (list nat) * bool * bool * OS) :=
    do so <- compute_one_level_state_ord o fuel g m partition resolution perms;
    let '(s, o1) := so in
    Ok (filter nonempty (ls_partition s), filter nonempty (ls_inner s), ls_improved s, ls_tie s, o1).

  (* louvain.rs generate_graph: `graph.get_all_edges().into_iter()` yields the oracle's order,
     `.sorted_by((u, v))` follows *)
  Definition generate_graph_ord (o : OS) (g : lgraph) (partition : list (list nat)) : outcome (lgraph * OS) :=
    let s := sp g in
    let s' := mkspecs (directed s) DKeepLast (ms s) (multi s) true (slf s) in
    do r <- ofold (fun acc ip =>
               let '(ng, n2c) := acc in
               let '(part, i) := ip in
               do r2 <- ofold (fun acc2 nd =>
                          let '(n2c2, nodes) := acc2 in
                          do no <- unwrap_res "louvain.rs:generate_graph get_node unwrap" (get_node Nat.eqb g nd);
                          do nobj <- unwrap_at "louvain.rs:generate_graph get_node unwrap" no;
                          let ext := match nattr nobj with Some a => a | None => [nd] end in
                          Ok (insert Nat.eqb nd i n2c2, set_union nodes ext)) part (n2c, []);
               let '(n2c', nodes) := r2 in
               do ng' <- add_node Nat.eqb ng (mknode i (Some nodes));
               Ok (ng', n2c'))
            (enumerate_from 0 partition) (new s', []);
    let '(ng0, node2com) := r in
    let '(it, o1) := ho_edge h o (get_all_edges g) in
    do g2 <- ofold (fun ng e =>
             do c1 <- unwrap_at "louvain.rs:generate_graph node2com unwrap" (lookup Nat.eqb (eu e) node2com);
             do c2 <- unwrap_at "louvain.rs:generate_graph node2com unwrap" (lookup Nat.eqb (ev e) node2com);
             do old <- (match get_edge Nat.eqb ng c1 c2 with
                        | Ok x => Ok (ew x)
                        | Err _ => Ok (Some 0%Z)
                        | Panic st => Panic st
                        | OutOfFuel => OutOfFuel
                        end);
             match add_edge Nat.eqb Nat.ltb ng (mkedge c1 c2 (wadd (ew e) old) None) with
             | (ng', Ok _) => Ok ng'
             | (_, Err _) => Panic "louvain.rs:generate_graph unexpected failure to add edge"
             | (_, Panic st) => Panic st
             | (_, OutOfFuel) => OutOfFuel
             end)
          (sort_by edge_ltb it) ng0;
    Ok (g2, o1).

  (* the `while improvement` loop of louvain_partitions *)
  Fixpoint level_loop_ord (o : OS) (fuel sweep_fuel : nat) (weighted : bool) (resolution thr : Q)
           (perms : list (list nat)) (m : Q) (graphu : lgraph) (partition inner : list (list nat))
           (modularity_ : oq) (acc : list (list (list nat))) (tie : bool)
    : outcome (list (list (list nat)) * bool * OS) :=
    match fuel with
    | O => OutOfFuel
    | S f =>
      let acc' := acc ++ [partition] in
      do new_mod <- unwrap_res "louvain.rs:105 modularity unwrap"
                      (modularity Nat.eqb Nat.ltb graphu inner weighted resolution);
      let '(small, close) := gain_small new_mod modularity_ thr in
      if small then Ok (acc', tie || close, o) else
      do g2o <- generate_graph_ord o graphu inner;
      let '(g2, o1) := g2o in
      do z <- compute_one_level_ord o1 sweep_fuel g2 m partition resolution perms;
      let '(p2, i2, improvement, tie2, o2) := z in
      if improvement
      then level_loop_ord o2 f sweep_fuel weighted resolution thr perms m g2 p2 i2 new_mod acc'
                          (tie || close || tie2)
      else Ok (acc', tie || close || tie2, o2)
    end.

  Section EntryOrd.
    Context {T A : Type}.
    Variable teqb : T -> T -> bool.
    Variable tltb : T -> T -> bool.

    (* louvain.rs louvain_partitions *)
    Definition louvain_partitions_t_ord (o : OS) (level_fuel sweep_fuel : nat) (g : gstate T A) (weighted : bool)
               (resolution thr : Q) (perms : list (list nat))
      : outcome (list (list (list T)) * bool * OS) :=
      (* the guard of F23: `.any(..)` over the edge HashMap yields a boolean, no order reaches it *)
      if negative_weight_guard g weighted then Err InvalidArgument else
      let node_map := node_map_of tltb g in
      do graphu <- convert_graph teqb tltb g weighted node_map;
      let partition := map_node_names_to_hashsets graphu in
      do modularity0 <- unwrap_res "louvain.rs:96 modularity unwrap"
                          (modularity Nat.eqb Nat.ltb graphu partition weighted resolution);
      do m <- size_q graphu weighted;
      do z <- compute_one_level_ord o sweep_fuel graphu m partition resolution perms;
      let '(p1, i1, _, tie1, o1) := z in
      do r <- level_loop_ord o1 level_fuel sweep_fuel weighted resolution thr perms m graphu p1 i1
                             modularity0 [] tie1;
      let '(levels, tie, o2) := r in
      do ls <- convert_back node_map levels;
      Ok (ls, tie, o2).

    (* the final oracle state is dropped: the result type is that of Model/Louvain.v *)
    Definition louvain_partitions_ord (o : OS) (level_fuel sweep_fuel : nat) (g : gstate T A) (weighted : bool)
               (resolution thr : Q) (perms : list (list nat)) : outcome (list (list (list T))) :=
      do r <- louvain_partitions_t_ord o level_fuel sweep_fuel g weighted resolution thr perms;
      Ok (fst (fst r)).

    (* louvain.rs louvain_communities *)
    Definition louvain_communities_ord (o : OS) (level_fuel sweep_fuel : nat) (g : gstate T A) (weighted : bool)
               (resolution thr : Q) (perms : list (list nat)) : outcome (list (list T)) :=
      do ps <- louvain_partitions_ord o level_fuel sweep_fuel g weighted resolution thr perms;
      match pop ps with
      | Some l => Ok l
      | None => Err NoPartitions
      end.
  End EntryOrd.
End Ord.
