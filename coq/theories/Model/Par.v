(* C07: model of the rayon fragment graphrs uses —

       <indexed source>.into_par_iter().map(f).collect::<Vec<_>>()

   The source is an indexed sequence [xs] (a Vec or a Range).  rayon splits it
   into pieces, hands the pieces to worker threads (work stealing) and every
   work item i evaluates [f xs[i]] and writes the result into slot i of the
   output vector.  Because the items share no state (f is a pure function of
   the item and of read-only data), an execution is characterised by the ORDER
   in which the items are executed: a schedule is a list [pi] of indices — any
   splitting tree and any stealing order is one such list.  [run_par pi f xs]
   executes the items in the order [pi], writing into slots, and then reads
   the slots in index order; a slot that was never written is the panic rayon
   raises ("expected N total writes").  No proofs here. *)
From Coq Require Import String List Arith.
From GV Require Import Base.Outcome.
Import ListNotations.
Open Scope string_scope.

Section Par.
  Context {X Y : Type}.

  (* write into slot i (an out-of-range write does nothing) *)
  Fixpoint write (i : nat) (y : Y) (s : list (option Y)) : list (option Y) :=
    match s, i with
    | [], _ => []
    | _ :: t, O => Some y :: t
    | h :: t, S j => h :: write j y t
    end.

  (* execute work item i *)
  Definition exec_item (f : X -> Y) (xs : list X) (s : list (option Y)) (i : nat) : list (option Y) :=
    match nth_error xs i with
    | Some x => write i (f x) s
    | None => s
    end.

  Definition run_slots (pi : list nat) (f : X -> Y) (xs : list X) : list (option Y) :=
    fold_left (exec_item f xs) pi (repeat None (length xs)).

  (* collect::<Vec<_>>(): the slots in index order *)
  Fixpoint collect_slots (s : list (option Y)) : outcome (list Y) :=
    match s with
    | [] => Ok []
    | Some y :: t => do r <- collect_slots t; Ok (y :: r)
    | None :: _ => Panic "rayon collect: a slot was not written"
    end.

  Definition run_par (pi : list nat) (f : X -> Y) (xs : list X) : outcome (list Y) :=
    collect_slots (run_slots pi f xs).

  (* the sequential counterpart: <source>.into_iter().map(f).collect::<Vec<_>>() *)
  Definition run_seq (f : X -> Y) (xs : list X) : outcome (list Y) := Ok (map f xs).

  (* the two shapes in which graphrs consumes the gathered vector *)
  Section Consume.
    Context {A R : Type}.
    (* (a) all_pairs / multi_source: the vector is post-processed sequentially as a whole *)
    Definition par_then_post (post : list Y -> R) (pi : list nat) (f : X -> Y) (xs : list X) : outcome R :=
      do v <- run_par pi f xs; Ok (post v).
    Definition seq_then_post (post : list Y -> R) (f : X -> Y) (xs : list X) : outcome R :=
      do v <- run_seq f xs; Ok (post v).
    (* (b) betweenness / closeness: `for r in results { combine(&mut acc, r) }` after the gather,
       against the serial path `for x in xs { let r = f(x); combine(&mut acc, r) }`;
       [combine] is arbitrary — in particular a non-associative floating-point accumulation *)
    Definition par_then_fold (combine : A -> Y -> A) (init : A) (pi : list nat) (f : X -> Y) (xs : list X)
      : outcome A :=
      do v <- run_par pi f xs; Ok (fold_left combine v init).
    Definition serial_loop (combine : A -> Y -> A) (init : A) (f : X -> Y) (xs : list X) : outcome A :=
      Ok (fold_left (fun acc x => combine acc (f x)) xs init).
  End Consume.
End Par.

(* rayon's own description of an execution: a fork-join PLAN over an index
   interval — run the interval sequentially, or split it at [mid] and run the
   halves, where either half may be executed first (the right half is the one
   that gets stolen).  [plan_order] is the order in which such a plan executes
   the items when the two halves do not overlap in time; overlapping halves
   interleave the two orders, which is again just another list of the same
   indices.  Used only to show that the schedules of the model include these. *)
Inductive plan := PSeq | PFork (mid : nat) (right_first : bool) (l r : plan).

Fixpoint plan_order (p : plan) (lo hi : nat) : list nat :=
  match p with
  | PSeq => seq lo (hi - lo)
  | PFork mid rf l r =>
    let m := Nat.min hi (Nat.max lo mid) in
    if rf then plan_order r m hi ++ plan_order l lo m
    else plan_order l lo m ++ plan_order r m hi
  end.
