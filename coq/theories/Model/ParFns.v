(* C07: BOTH arms of `match parallel { true => ..., false => ... }` of the five
   functions with a rayon path, transcribed from
     src/algorithms/shortest_path/dijkstra.rs  (multi_source :344-399, all_pairs :100-137 with
                                                 all_pairs_iter :140 / all_pairs_par_iter :178,
                                                 get_all_shortest_paths_involving :606)
     src/algorithms/centrality/betweenness.rs  (:50-74)
     src/algorithms/centrality/closeness.rs    (:60-90)
   on top of the per-source functions of the algorithm models (Model/Dijkstra.v,
   Model/Brandes.v, Model/Closeness.v) and of the rayon fragment of Model/Par.v.

   The arm is an explicit argument ([arm]): [Serial], or [Rayon pi] where [pi] is
   the schedule (the order in which the work items are executed).  The `_sched`
   functions choose the arm exactly like the Rust code
   (`number_of_nodes() > 20 && rayon::current_num_threads() > 1`).

   Work items that can fail.  The closures handed to rayon index vectors and
   `.unwrap()` lookups (centrality; the name conversions of dijkstra.rs): an item
   may PANIC.  Since the repair of F22 the closures of all_pairs* / multi_source
   RETURN the per-source `Result` (`?` / `.map(..)`) instead of `.unwrap()`ing it, and
   the region is collected into `Result<Vec<_>, Error>`: an item may also return
   `Err(e)`, which is a value of the error channel, not a panic ([gather_result_par]
   below).  An item is therefore a function into [outcome]; rayon runs it, and
     - a sequential leaf folds its items in index order and stops at its first panic;
     - `rayon::join(a, b)` (every split of the indexed source is one, a = the lower
       indices): "If both closures panic, join() will panic with the panic value
       from the first closure" (rayon-core join/mod.rs, doc comment and
       join_recover_from_panic: the panic of `a` is re-raised after `b` finished).
   [run_plan] is that semantics on a fork-join plan; [gather_par] is the same
   thing on a schedule: the gathered slots are read in index order and the first
   failed slot is the failure of the region (Proofs/ParFnsOk.v proves that the
   two coincide for every plan).  [gather_abort] is a pessimistic alternative that
   does not rely on join's precedence rule (the failure of the failing item that
   was EXECUTED first surfaces).  No proofs here. *)
From Coq Require Import String List Bool ZArith QArith Arith.
From GV Require Import Base.Outcome Base.AMap Model.GState Model.Creation Model.Query Model.Derived.
From GV Require Import Model.Par Model.Dijkstra Model.Cent Model.Brandes Model.Closeness.
Import ListNotations.
Open Scope string_scope.
Open Scope list_scope.

(* ------------------------------------------------------------------ the parallel region *)
Section Gather.
  Context {X Y : Type}.

  (* the slots in index order; the first failed one is the failure of the region *)
  Fixpoint first_failure (l : list (outcome Y)) : outcome (list Y) :=
    match l with
    | [] => Ok []
    | o :: t => do y <- o; do r <- first_failure t; Ok (y :: r)
    end.

  Definition flatten {R} (o : outcome (outcome R)) : outcome R :=
    match o with
    | Ok r => r
    | Err k => Err k
    | Panic s => Panic s
    | OutOfFuel => OutOfFuel
    end.

  (* <indexed source>.into_par_iter().map(|x| f(x) /* may panic */).collect::<Vec<_>>()
     under the schedule pi: Model/Par.v's [par_then_post] with the items' outcomes as values *)
  Definition gather_par (pi : list nat) (f : X -> outcome Y) (xs : list X) : outcome (list Y) :=
    flatten (par_then_post first_failure pi f xs).

  (* the serial counterpart: <source>.into_iter().map(|x| f(x)).collect::<Vec<_>>() *)
  Definition gather_seq (f : X -> outcome Y) (xs : list X) : outcome (list Y) := omapM f xs.

  (* --- the same region on a fork-join plan, with rayon::join's panic rule --- *)
  Definition slice (lo hi : nat) (xs : list X) : list X := firstn (hi - lo) (skipn lo xs).

  (* join(a, b): both halves always run; a's panic wins; the halves' vectors are concatenated *)
  Definition join_results (a b : outcome (list Y)) : outcome (list Y) :=
    match a with
    | Ok va => match b with
               | Ok vb => Ok (va ++ vb)
               | Err k => Err k
               | Panic s => Panic s
               | OutOfFuel => OutOfFuel
               end
    | Err k => Err k
    | Panic s => Panic s
    | OutOfFuel => OutOfFuel
    end.

  Fixpoint run_plan (p : plan) (f : X -> outcome Y) (xs : list X) (lo hi : nat) : outcome (list Y) :=
    match p with
    | PSeq => omapM f (slice lo hi xs)
    | PFork mid right_first l r =>
      let m := Nat.min hi (Nat.max lo mid) in
      (* [right_first] (which half ran first / was stolen) does not enter the result *)
      join_results (run_plan l f xs lo m) (run_plan r f xs m hi)
    end.

  (* --- pessimistic alternative: the failing item that is executed first aborts the region --- *)
  Definition as_failure {Z1 Z2} (o : outcome Z1) : outcome Z2 :=
    match o with
    | Ok _ => OutOfFuel      (* not used on Ok *)
    | Err k => Err k
    | Panic s => Panic s
    | OutOfFuel => OutOfFuel
    end.

  Fixpoint first_failing_executed (pi : list nat) (f : X -> outcome Y) (xs : list X)
    : option (outcome (list Y)) :=
    match pi with
    | [] => None
    | i :: t =>
      match nth_error xs i with
      | Some x => if is_ok (f x) then first_failing_executed t f xs else Some (as_failure (f x))
      | None => first_failing_executed t f xs
      end
    end.

  Definition gather_abort (pi : list nat) (f : X -> outcome Y) (xs : list X) : outcome (list Y) :=
    match first_failing_executed pi f xs with
    | Some e => e
    | None => gather_par pi f xs
    end.

  (* --- <indexed source>.into_par_iter().map(|x| f(x) /* : Result<Y, Error> */).collect::<Result<Vec<_>, Error>>()
     (all_pairs dijkstra.rs:125, multi_source dijkstra.rs:377, after the repair of F22).
     rayon 1.12 src/result.rs, `impl FromParallelIterator<Result<T, E>> for Result<C, E>`:
         let saved_error = Mutex::new(None);
         let collection = par_iter.map(ok(&saved_error)).while_some().collect();
         match saved_error.into_inner().unwrap() { Some(error) => Err(error), None => Ok(collection) }
     where `ok` maps `Ok(v)` to `Some(v)` and, on `Err(e)`, stores `e` IF NO ERROR IS STORED YET and yields
     `None`; `while_some` raises its `full` flag at the first `None`, after which no further item is started.
     Documented: "If there are multiple errors, the one returned is not deterministic."
     The serial counterpart (std's `collect::<Result<Vec<_>, E>>()`) stops at the first `Err` in index order:
     [gather_seq] = [omapM] with `Err k` as the error value.
     On a schedule pi (the order in which the items are executed):
       - the items run in that order up to and including the first one that returns `Err` ([started]);
         its error is the one that is stored ([recorded_error]) — the first error in EXECUTION order,
         not in index order;
       - an item that ran may have panicked instead of returning: the panic unwinds through the region and
         takes precedence over a returned value; among several, rayon::join's rule ([first_panic_from]: the
         lowest index among the items that ran);
       - otherwise every item returned `Ok` and the Vec holds the values in index order ([gather_par]).
     [gather_abort] (the failing item executed first wins, whatever its kind of failure) remains the
     pessimistic envelope of this region too: every outcome of [gather_result_par], and every outcome a
     truly concurrent execution can produce, is the failure of SOME failing item. --- *)
  Definition returns_err (o : outcome Y) : bool := match o with Err _ => true | _ => false end.
  Definition panics (o : outcome Y) : bool := match o with Panic _ | OutOfFuel => true | _ => false end.

  Fixpoint started (pi : list nat) (f : X -> outcome Y) (xs : list X) : list nat :=
    match pi with
    | [] => []
    | i :: t =>
      match nth_error xs i with
      | Some x => if returns_err (f x) then [i] else i :: started t f xs
      | None => i :: started t f xs
      end
    end.

  Fixpoint recorded_error (pi : list nat) (f : X -> outcome Y) (xs : list X) : option errkind :=
    match pi with
    | [] => None
    | i :: t =>
      match nth_error xs i with
      | Some x => match f x with Err k => Some k | _ => recorded_error t f xs end
      | None => recorded_error t f xs
      end
    end.

  (* the slots k, k+1, ... in index order: the first one whose item ran and panicked *)
  Fixpoint first_panic_from (k : nat) (ran : list nat) (f : X -> outcome Y) (xs : list X)
    : option (outcome (list Y)) :=
    match xs with
    | [] => None
    | x :: t =>
      if existsb (Nat.eqb k) ran && panics (f x) then Some (as_failure (f x))
      else first_panic_from (S k) ran f t
    end.

  Definition gather_result_par (pi : list nat) (f : X -> outcome Y) (xs : list X) : outcome (list Y) :=
    match first_panic_from 0 (started pi f xs) f xs with
    | Some e => e
    | None =>
      match recorded_error pi f xs with
      | Some k => Err k
      | None => gather_par pi f xs
      end
    end.
End Gather.

(* which arm of `match parallel` runs: the serial one, or the rayon one under the schedule pi
   — with rayon::join's panic rule ([Rayon]) or under the pessimistic rule ([RayonAbort]) *)
Inductive arm := Serial | Rayon (pi : list nat) | RayonAbort (pi : list nat).

(* the region of all_pairs / multi_source: items returning `Result`, collected into `Result<Vec<_>, Error>` *)
Definition gather_result {X Y} (a : arm) (f : X -> outcome Y) (xs : list X) : outcome (list Y) :=
  match a with
  | Serial => gather_seq f xs
  | Rayon pi => gather_result_par pi f xs
  | RayonAbort pi => gather_abort pi f xs
  end.

(* the two shapes in which the five functions use the region *)
Section Shapes.
  Context {X Y B R : Type}.
  (* (a) all_pairs / multi_source: gather into `Result<Vec<_>, Error>`, `?`, then post-process the vector
     sequentially *)
  Definition post_arm (a : arm) (f : X -> outcome Y) (post : list Y -> outcome R) (xs : list X) : outcome R :=
    do ys <- gather_result a f xs; post ys.
  (* (b) betweenness / closeness:
       Serial:  for x in xs { let y = f(x); combine(&mut acc, y) }
       Rayon:   let ys = xs.into_par_iter().map(f).collect(); for y in ys { combine(&mut acc, y) }
     for an ARBITRARY combine (no algebraic law is assumed of it) *)
  Definition loop_arm (a : arm) (f : X -> outcome Y) (combine : B -> Y -> B) (xs : list X) (init : B) : outcome B :=
    match a with
    | Serial => ofold (fun acc x => do y <- f x; Ok (combine acc y)) xs init
    | Rayon pi => do ys <- gather_par pi f xs; Ok (fold_left combine ys init)
    | RayonAbort pi => do ys <- gather_abort pi f xs; Ok (fold_left combine ys init)
    end.
End Shapes.

Definition opt_out {Z1} (o : option Z1) : outcome Z1 :=
  match o with Some z => Ok z | None => OutOfFuel end.

(* ------------------------------------------------------------------ dijkstra.rs *)
Section DijkstraArms.
  Context {T A : Type}.
  Variable teqb : T -> T -> bool.
  Notation gstate := (gstate T A).

  Definition arm_of (g : gstate) (threads : nat) (pi : list nat) : arm :=
    if parallel g threads then Rayon pi else Serial.

  (* the closure of dijkstra.rs:365-376 (parallel) = :380-391 (serial):
     `single_source(graph, weighted, source.clone(), ..).map(|paths| (source.clone(), paths))` — a `Result`;
     an `Err` of the per-source call is the item's `Err` (before the repair of F22: `.unwrap()`, a panic) *)
  Definition multi_source_item (g : gstate) (weighted : bool) (target : option T) (cutoff : option Q)
             (first_only with_paths : bool) (source : T) : outcome (T * list (T * spinfo T)) :=
    do m <- Dijkstra.single_source teqb g weighted source target cutoff first_only with_paths;
    Ok (source, m).

  (* dijkstra.rs:331 multi_source *)
  Definition multi_source_arm (a : arm) (g : gstate) (weighted : bool) (sources : list T)
             (target : option T) (cutoff : option Q) (first_only with_paths : bool)
    : outcome (list (T * list (T * spinfo T))) :=
    do b <- has_nodes teqb g sources;
    if negb b then Err NodeNotFound else
    do tb <- match target with Some t => has_node teqb g t | None => Ok true end;
    if negb tb then Err NodeNotFound else
    post_arm a (multi_source_item g weighted target cutoff first_only with_paths)
             (fun l => Ok (collect_map teqb l)) sources.

  Definition multi_source_sched (threads : nat) (pi : list nat) (g : gstate) (weighted : bool)
             (sources : list T) (target : option T) (cutoff : option Q) (first_only with_paths : bool) :=
    multi_source_arm (arm_of g threads pi) g weighted sources target cutoff first_only with_paths.

  (* the closure of dijkstra.rs:161-176 (all_pairs_iter) = :201-216 (all_pairs_par_iter):
     `let ss_index = match can_use_basic {..}?; Ok((node_index, ss_index))` — a `Result`
     (before the repair of F22: `.unwrap()`, a panic) *)
  Definition all_pairs_item (g : gstate) (weighted : bool) (target : option T) (ti : option nat)
             (cutoff : option Q) (first_only with_paths : bool) (node_index : nat)
    : outcome (nat * list (nat * spinfo nat)) :=
    do r <- run_from_index g weighted node_index target ti cutoff first_only with_paths;
    Ok (node_index, r).

  (* dijkstra.rs:140 all_pairs_iter (Serial) / :178 all_pairs_par_iter (Rayon), collected by all_pairs
     into `Result<Vec<_>, Error>` (:125 / :129) *)
  Definition all_pairs_iter_arm (a : arm) (g : gstate) (weighted : bool) (target : option T)
             (cutoff : option Q) (first_only with_paths : bool)
    : outcome (list (nat * list (nat * spinfo nat))) :=
    do ti <- match target with
             | Some t => do i <- unwrap_result "dijkstra.rs:153" (get_node_index teqb g t); Ok (Some i)
             | None => Ok None
             end;
    gather_result a (all_pairs_item g weighted target ti cutoff first_only with_paths)
                  (seq 0 (number_of_nodes g)).

  (* dijkstra.rs:100 all_pairs *)
  Definition all_pairs_arm (a : arm) (g : gstate) (weighted : bool) (target : option T)
             (cutoff : option Q) (first_only with_paths : bool)
    : outcome (list (T * list (T * spinfo T))) :=
    do _ <- (if weighted then ensure_weighted g else Ok tt);
    do _ <- match target with
            | Some t => do _ <- get_node_index teqb g t; Ok tt
            | None => Ok tt
            end;
    do vecs <- all_pairs_iter_arm a g weighted target cutoff first_only with_paths;
    do l <- omapM (fun sv =>
                     do source_name <- name_of_index "dijkstra.rs:132" g (fst sv);
                     do m <- convert_shortest_path_info_vec_to_t_map teqb g (snd sv);
                     Ok (source_name, m)) vecs;
    Ok (collect_map teqb l).

  Definition all_pairs_sched (threads : nat) (pi : list nat) (g : gstate) (weighted : bool)
             (target : option T) (cutoff : option Q) (first_only with_paths : bool) :=
    all_pairs_arm (arm_of g threads pi) g weighted target cutoff first_only with_paths.

  (* dijkstra.rs:606 get_all_shortest_paths_involving (its rayon path is all_pairs') *)
  Definition get_all_shortest_paths_involving_arm (a : arm) (g : gstate) (node_name : T) (weighted : bool)
    : outcome (list (spinfo T)) :=
    match all_pairs_arm a g weighted None None false true with
    | Err _ => Ok []
    | Ok pairs =>
      Ok (filter (fun x => contains_path_through_node teqb x node_name)
                 (flat_map (fun kv => map snd (snd kv)) pairs))
    | Panic s => Panic s
    | OutOfFuel => OutOfFuel
    end.

  Definition get_all_shortest_paths_involving_sched (threads : nat) (pi : list nat) (g : gstate)
             (node_name : T) (weighted : bool) :=
    get_all_shortest_paths_involving_arm (arm_of g threads pi) g node_name weighted.
End DijkstraArms.

(* ------------------------------------------------------------------ betweenness.rs *)
(* the stage `match weighted { true => dijkstra(graph, source), false => bfs(graph, source) }`;
   [None] of the model's explicit fuel becomes OutOfFuel *)
Definition bc_stage (lw weighted : bool) (g : qadj) (src : nat) : outcome ssr :=
  opt_out (Brandes.single_source lw weighted g src).

(* betweenness.rs:50-74 on the validated adjacency: `vec![0.0; n]`, then one of the arms.
   [accumulate_r] is accumulate_betweenness (Model/Brandes.v). *)
Definition bc_arm (a : arm) (lw weighted : bool) (g : qadj) : outcome (list Q) :=
  loop_arm a (bc_stage lw weighted g) accumulate_r (seq 0 (length g)) (repeat 0%Q (length g)).

(* the centrality files write the literal 20 *)
Definition cent_parallel {T A} (g : gstate T A) (threads : nat) : bool :=
  Nat.ltb PAR_THRESHOLD (number_of_nodes g) && Nat.ltb 1 threads.
Definition cent_arm_of {T A} (g : gstate T A) (threads : nat) (pi : list nat) : arm :=
  if cent_parallel g threads then Rayon pi else Serial.

Section BetweennessArms.
  Context {T A : Type}.
  Notation gstate := (gstate T A).

  (* betweenness.rs:41 betweenness_centrality *)
  Definition betweenness_centrality_arm (a : arm) (lw : bool) (g : gstate) (weighted normalized : bool)
    : outcome (list (T * Q)) :=
    let n := number_of_nodes g in
    match conv_adj weighted (successors_vec g) with
    | None => Panic site_nan
    | Some ad =>
      if negb (adj_ok n ad) then Panic "betweenness.rs: successors_vec index out of range" else
      do bet <- bc_arm a lw weighted ad;
      name_values "betweenness.rs:80" g
        (rescale bet (length (get_all_nodes g)) normalized (directed (sp g)))
    end.

  Definition betweenness_centrality_sched (threads : nat) (pi : list nat) (lw : bool) (g : gstate)
             (weighted normalized : bool) :=
    betweenness_centrality_arm (cent_arm_of g threads pi) lw g weighted normalized.
End BetweennessArms.

(* ------------------------------------------------------------------ closeness.rs *)
Section ClosenessArms.
  Context {T A : Type}.
  Variable teqb : T -> T -> bool.
  Variable tltb : T -> T -> bool.
  Notation gstate := (gstate T A).

  (* `centralities.insert(node, cc)` *)
  Definition cc_insert (m : list (T * Q)) (r : T * Q) : list (T * Q) := insert teqb (fst r) (snd r) m.

  (* closeness.rs:52-57: `the_graph` — the graph the loop runs on *)
  Definition closeness_graph (g : gstate) : outcome gstate :=
    if directed (sp g)
    then match reverse teqb tltb g with
         | Ok r => Ok r
         | Err _ => Panic "closeness.rs:55"
         | Panic s => Panic s
         | OutOfFuel => OutOfFuel
         end
    else Ok g.

  (* closeness.rs:43 closeness_centrality; the per-source body is [closeness_one]
     (Model/Closeness.v), the HashMap starts empty and is filled sequentially in both arms *)
  Definition closeness_centrality_arm (a : arm) (lw : bool) (g : gstate) (weighted wf_improved : bool)
    : outcome (list (T * Q)) :=
    do tg <- closeness_graph g;
    let n := number_of_nodes tg in
    match conv_adj weighted (successors_vec tg) with
    | None => Panic site_nan
    | Some ad =>
      if negb (adj_ok n ad) then Panic "closeness.rs: successors_vec index out of range" else
      loop_arm a (closeness_one lw weighted wf_improved tg ad n) cc_insert (seq 0 n) []
    end.

  (* `let parallel = graph.number_of_nodes() > 20 && ...` reads the ORIGINAL graph *)
  Definition closeness_centrality_sched (threads : nat) (pi : list nat) (lw : bool) (g : gstate)
             (weighted wf_improved : bool) :=
    closeness_centrality_arm (cent_arm_of g threads pi) lw g weighted wf_improved.
End ClosenessArms.
