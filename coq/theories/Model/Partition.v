(* Transcription of src/algorithms/community/partitions.rs (is_partition after
   the repair of F8, modularity, convert_values_to_f64) over the twelve-field
   state.  A community (HashSet<T>) is a duplicate-free list.  Numbers: exact
   rationals; [None] stands for an IEEE NaN (an unweighted edge's weight, or
   0/0 on a graph whose total weight is 0).  No proofs here. *)
From Coq Require Import String List Bool ZArith NArith Arith QArith.
From GV Require Import Base.Outcome Base.AMap Model.GState Model.Creation Model.Query Model.Derived.
Import ListNotations.
Open Scope string_scope.
Open Scope list_scope.

(* option Q arithmetic with NaN propagation *)
Definition oq := option Q.
Definition oq_of_w (w : weight) : oq := match w with Some z => Some (inject_Z z) | None => None end.
Definition oq2 (f : Q -> Q -> Q) (a b : oq) : oq :=
  match a, b with Some x, Some y => Some (f x y) | _, _ => None end.
Fixpoint oq_sum (l : list oq) : oq :=
  match l with [] => Some 0%Q | x :: t => oq2 Qplus x (oq_sum t) end.
Definition oq_red (a : oq) : oq := match a with Some x => Some (Qred x) | None => None end.

Section Partition.
  Context {T A : Type}.
  Variable teqb : T -> T -> bool.
  Variable tltb : T -> T -> bool.

  Notation node := (node T A).
  Notation edge := (edge T A).
  Notation gstate := (gstate T A).

  (* partitions.rs:32 is_partition (repaired): every listed name is a node and
     is listed once; then every node has been listed *)
  Fixpoint is_partition_scan (g : gstate) (names seen : list T) : outcome (option (list T)) :=
    match names with
    | [] => Ok (Some seen)
    | x :: t =>
      do r <- get_node teqb g x;
      match r with
      | None => Ok None
      | Some _ => if mem teqb x seen then Ok None else is_partition_scan g t (set_add teqb x seen)
      end
    end.

  Definition is_partition (g : gstate) (comms : list (list T)) : outcome bool :=
    do r <- is_partition_scan g (concat comms) [];
    Ok (match r with
        | None => false
        | Some seen => Nat.eqb (length seen) (length (get_all_nodes g))
        end).

  Definition unwrap_res {X} (site : string) (r : outcome X) : outcome X :=
    match r with
    | Ok x => Ok x
    | Err _ => Panic site
    | Panic s => Panic s
    | OutOfFuel => OutOfFuel
    end.

  (* convert_values_to_f64 *)
  Definition nat_values (m : list (T * nat)) : list (T * oq) :=
    map (fun kv => (fst kv, Some (inject_Z (Z.of_nat (snd kv))))) m.
  Definition w_values (m : list (T * weight)) : list (T * oq) :=
    map (fun kv => (fst kv, oq_of_w (snd kv))) m.

  (* sum over a community of a per-node value: `.get(n).unwrap()` *)
  Fixpoint sum_over (site : string) (m : list (T * oq)) (c : list T) : outcome oq :=
    match c with
    | [] => Ok (Some 0%Q)
    | x :: t =>
      match lookup teqb x m with
      | None => Panic site
      | Some d => do r <- sum_over site m t; Ok (oq2 Qplus d r)
      end
    end.

  (* partitions.rs:77 modularity.  Result: Ok (Some q) a real value, Ok None a NaN. *)
  Definition modularity (g : gstate) (comms : list (list T)) (weighted : bool) (resolution : Q)
    : outcome oq :=
    do b <- is_partition g comms;
    if negb b then Err NotAPartition else
    do dm <-
       (if directed (sp g) then
          do od <- (if weighted
                    then do r <- unwrap_res "partitions.rs:97" (get_weighted_out_degree_for_all_nodes teqb g);
                         Ok (w_values r)
                    else do r <- unwrap_res "partitions.rs:101" (get_out_degree_for_all_nodes teqb g);
                         Ok (nat_values r));
          do id <- (if weighted
                    then do r <- unwrap_res "partitions.rs:98" (get_weighted_in_degree_for_all_nodes teqb g);
                         Ok (w_values r)
                    else do r <- unwrap_res "partitions.rs:102" (get_in_degree_for_all_nodes teqb g);
                         Ok (nat_values r));
          let m := oq_sum (map snd od) in
          Ok (od, id, m, m)
        else
          do dg <- (if weighted
                    then do r <- get_weighted_degree_for_all_nodes teqb tltb g; Ok (w_values r)
                    else do r <- get_degree_for_all_nodes teqb tltb g; Ok (nat_values r));
          let deg_sum := oq_sum (map snd dg) in
          Ok (dg, dg, oq2 Qdiv deg_sum (Some 2%Q), deg_sum));
    let '(out_degree, in_degree, m, norm_base) := dm in
    (* per community: induced subgraph, its size, the degree sums *)
    do parts <-
       omapM (fun c =>
                do sub <- get_subgraph teqb tltb g c;
                let w := if weighted then oq_of_w (size_weighted sub)
                         else Some (inject_Z (Z.of_nat (size_unweighted sub))) in
                do ods <- sum_over "partitions.rs:125" out_degree c;
                do ids <- (if directed (sp g) then sum_over "partitions.rs:127" in_degree c else Ok ods);
                Ok (w, ods, ids)) comms;
    match m, norm_base with
    | Some mq, Some nb =>
      if Qeq_bool mq 0 then
        (* total weight 0: x/0 and (1/0)^2.  With every term 0 (the only case that
           non-negative weights allow) each contribution is 0/0 - r*0*0*inf = NaN. *)
        match comms with
        | [] => Ok (Some 0%Q)
        | _ =>
          if forallb (fun p => match p with
                               | (Some w, Some a, Some b) => Qeq_bool w 0 && Qeq_bool a 0 && Qeq_bool b 0
                               | _ => true
                               end) parts
          then Ok None
          else Panic "model: infinite intermediate value (negative weights), outside the modelled domain"
        end
      else
        let norm := ((1 / nb) * (1 / nb))%Q in
        Ok (oq_red (oq_sum (map (fun p =>
               let '(w, ods, ids) := p in
               oq2 Qminus (oq2 Qdiv w (Some mq))
                   (oq2 Qmult (oq2 Qmult (oq2 Qmult (Some resolution) ods) ids) (Some norm))) parts)))
    | _, _ =>
      (* NaN total weight: every contribution is NaN *)
      match comms with [] => Ok (Some 0%Q) | _ => Ok None end
    end.
End Partition.
