(* Transcription of src/graph/query.rs, src/graph/degree.rs, src/graph/density.rs
   and src/graph/ensure.rs over the twelve-field state.  Every function reads
   the same field the Rust code reads.  Hash containers are iterated in the
   association list's order; every observation of such an order is
   canonicalised (sorted) by the correspondence driver.  No proofs here. *)
From Coq Require Import String List Bool ZArith NArith Arith.
From GV Require Import Base.Outcome Base.AMap Model.GState Model.Creation.
Import ListNotations.
Open Scope string_scope.
Open Scope list_scope.

Section Query.
  Context {T A : Type}.
  Variable teqb : T -> T -> bool.
  Variable tltb : T -> T -> bool.

  Notation node := (node T A).
  Notation edge := (edge T A).
  Notation gstate := (gstate T A).

  Definition q_peqb := peqb (T:=T) teqb.

  (* query.rs get_node_by_index: nodes_map_rev.get *)
  Definition get_node_by_index (g : gstate) (i : nat) : option node :=
    lookup Nat.eqb i (nodes_map_rev g).

  (* query.rs get_node *)
  Definition get_node (g : gstate) (x : T) : outcome (option node) :=
    if contains_key teqb x (nodes_map g) then
      match get_node_index teqb g x with
      | Ok i => Ok (get_node_by_index g i)
      | _ => Panic "query.rs:get_node unwrap"
      end
    else Ok None.

  Definition has_node (g : gstate) (x : T) : outcome bool :=
    do r <- get_node g x; Ok (match r with Some _ => true | None => false end).

  Fixpoint has_nodes (g : gstate) (xs : list T) : outcome bool :=
    match xs with
    | [] => Ok true
    | x :: t => do b <- has_node g x; if b then has_nodes g t else Ok false
    end.

  (* get_all_edges: edges.values().flatten() *)
  Definition get_all_edges (g : gstate) : list edge := flat_map snd (edges g).
  Definition get_all_nodes (g : gstate) : list node := nodes_vec g.
  Definition get_all_node_names (g : gstate) : list T := map nname (nodes_vec g).

  Definition edges_have_weight (g : gstate) : bool :=
    forallb (fun e => match ew e with Some _ => true | None => false end) (get_all_edges g).

  Definition get_edge (g : gstate) (u v : T) : outcome edge :=
    if multi (sp g) then Err WrongMethod else
    if negb (contains_key teqb u (nodes_map g)) || negb (contains_key teqb v (nodes_map g))
    then Err NodeNotFound else
    match get_node_index teqb g u, get_node_index teqb g v with
    | Ok ui, Ok vi => get_edge_by_indexes g ui vi
    | _, _ => Panic "query.rs:get_edge unwrap"
    end.

  Definition get_edges_by_indexes (g : gstate) (u v : nat) : outcome (list edge) :=
    let '(ou, ov) := if negb (directed (sp g)) && Nat.ltb v u then (v, u) else (u, v) in
    match lookup Nat.eqb ou (edges_map g) with
    | None => Err EdgeNotFound
    | Some m => match lookup Nat.eqb ov m with None => Err EdgeNotFound | Some l => Ok l end
    end.

  Definition get_edges (g : gstate) (u v : T) : outcome (list edge) :=
    if negb (multi (sp g)) then Err WrongMethod else
    if negb (contains_key teqb u (nodes_map g)) || negb (contains_key teqb v (nodes_map g))
    then Err NodeNotFound else
    match get_node_index teqb g u, get_node_index teqb g v with
    | Ok ui, Ok vi => get_edges_by_indexes g ui vi
    | _, _ => Panic "query.rs:get_edges unwrap"
    end.

  (* flat_map over a set of names, each lookup unwrapped *)
  Fixpoint collect_groups (g : gstate) (keyof : T -> T * T) (names : list T) : outcome (list edge) :=
    match names with
    | [] => Ok []
    | n :: t =>
      match lookup q_peqb (keyof n) (edges g) with
      | None => Panic "query.rs:edges.get unwrap"
      | Some l => do r <- collect_groups g keyof t; Ok (l ++ r)
      end
    end.

  Definition name_set (g : gstate) (m : list (T * list T)) (x : T) : list T :=
    match lookup teqb x m with Some l => l | None => [] end.

  Definition node_is_none (g : gstate) (x : T) : outcome bool :=
    do r <- get_node g x; Ok (match r with Some _ => false | None => true end).

  (* query.rs get_edges_for_node (with the repair of the directed self-loop
     double listing: predecessor [name] itself is skipped) *)
  Definition get_edges_for_node (g : gstate) (x : T) : outcome (list edge) :=
    do none <- node_is_none g x;
    if none then Err NodeNotFound else
    let preds := filter (fun p => negb (teqb p x)) (name_set g (predecessors g) x) in
    let succs := name_set g (successors g) x in
    do pe <- collect_groups g (fun p => (p, x)) preds;
    do se <- collect_groups g
         (fun s => if negb (directed (sp g)) && tltb s x then (s, x) else (x, s)) succs;
    Ok (pe ++ se).

  Definition mem_name (x : T) (l : list T) : bool := existsb (teqb x) l.

  Definition get_edges_for_nodes (g : gstate) (xs : list T) : outcome (list edge) :=
    do b <- has_nodes g xs;
    if negb b then Err NodeNotFound else
    Ok (filter (fun e => mem_name (eu e) xs || mem_name (ev e) xs) (get_all_edges g)).

  Definition get_in_edges_for_node (g : gstate) (x : T) : outcome (list edge) :=
    if negb (directed (sp g)) then Err WrongMethod else
    do none <- node_is_none g x;
    if none then Err NodeNotFound else
    collect_groups g (fun p => (p, x)) (name_set g (predecessors g) x).

  Definition get_in_edges_for_nodes (g : gstate) (xs : list T) : outcome (list edge) :=
    if negb (directed (sp g)) then Err WrongMethod else
    do b <- has_nodes g xs;
    if negb b then Err NodeNotFound else
    Ok (filter (fun e => mem_name (ev e) xs) (get_all_edges g)).

  Definition get_out_edges_for_node (g : gstate) (x : T) : outcome (list edge) :=
    if negb (directed (sp g)) then Err WrongMethod else
    do none <- node_is_none g x;
    if none then Err NodeNotFound else
    collect_groups g (fun s => (x, s)) (name_set g (successors g) x).

  Definition get_out_edges_for_nodes (g : gstate) (xs : list T) : outcome (list edge) :=
    if negb (directed (sp g)) then Err WrongMethod else
    do b <- has_nodes g xs;
    if negb b then Err NodeNotFound else
    Ok (filter (fun e => mem_name (eu e) xs) (get_all_edges g)).

  (* sorted_by node_index, dedup_by node_index *)
  Fixpoint ins_nat (x : nat) (l : list nat) : list nat :=
    match l with
    | [] => [x]
    | y :: t => if Nat.leb x y then x :: l else y :: ins_nat x t
    end.
  Definition sort_nat (l : list nat) : list nat := fold_right ins_nat [] l.
  Fixpoint dedup_nat (l : list nat) : list nat :=
    match l with
    | [] => []
    | x :: t => match t with
                | [] => [x]
                | y :: _ => if Nat.eqb x y then dedup_nat t else x :: dedup_nat t
                end
    end.

  Fixpoint nodes_by_index (g : gstate) (site : string) (is : list nat) : outcome (list node) :=
    match is with
    | [] => Ok []
    | i :: t =>
      match get_node_by_index g i with
      | None => Panic site
      | Some n => do r <- nodes_by_index g site t; Ok (n :: r)
      end
    end.

  Definition get_neighbor_nodes (g : gstate) (x : T) : outcome (list node) :=
    if negb (contains_key teqb x (nodes_map g)) then Err NodeNotFound else
    match get_node_index teqb g x with
    | Ok i =>
      match nth_error (predecessors_vec g) i, nth_error (successors_vec g) i with
      | Some pr, Some su =>
        nodes_by_index g "query.rs:get_neighbor_nodes unwrap"
          (dedup_nat (sort_nat (map fst pr ++ map fst su)))
      | _, _ => Panic "query.rs:adjacency index"
      end
    | _ => Panic "query.rs:get_neighbor_nodes unwrap"
    end.

  Definition idx_set_nodes (g : gstate) (m : list (nat * list nat)) (x : T) : outcome (list node) :=
    if negb (contains_key teqb x (nodes_map g)) then Err NodeNotFound else
    match get_node_index teqb g x with
    | Ok i =>
      match lookup Nat.eqb i m with
      | None => Ok []
      | Some l => nodes_by_index g "query.rs:get_node_by_index unwrap" l
      end
    | _ => Panic "query.rs:get_node_index unwrap"
    end.

  Definition get_predecessor_nodes (g : gstate) (x : T) : outcome (list node) :=
    if negb (directed (sp g)) then Err WrongMethod else idx_set_nodes g (predecessors_map g) x.
  Definition get_successor_nodes (g : gstate) (x : T) : outcome (list node) :=
    if negb (directed (sp g)) then Err WrongMethod else idx_set_nodes g (successors_map g) x.
  Definition get_predecessor_node_names (g : gstate) (x : T) : outcome (list T) :=
    do l <- get_predecessor_nodes g x; Ok (map nname l).
  Definition get_successor_node_names (g : gstate) (x : T) : outcome (list T) :=
    do l <- get_successor_nodes g x; Ok (map nname l).

  (* unwraps the Result: an Err becomes a panic *)
  Definition get_successors_or_neighbors (g : gstate) (x : T) : outcome (list node) :=
    match (if directed (sp g) then get_successor_nodes g x else get_neighbor_nodes g x) with
    | Ok l => Ok l
    | Err _ => Panic "query.rs:get_successors_or_neighbors unwrap"
    | Panic s => Panic s
    | OutOfFuel => OutOfFuel
    end.

  Definition number_of_nodes (g : gstate) : nat := length (nodes_vec g).
  (* after the repair: parallel edges counted individually *)
  Definition number_of_edges (g : gstate) : nat := length (get_all_edges g).

  Fixpoint wsum (l : list weight) : weight :=
    match l with [] => Some 0%Z | w :: t => wadd w (wsum t) end.
  Definition size_unweighted (g : gstate) : nat := length (get_all_edges g).
  Definition size_weighted (g : gstate) : weight := wsum (map ew (get_all_edges g)).

  (* breadth_first_search: level sets as duplicate-free lists, fuel = |V|+1 rounds *)
  Fixpoint union_names (a b : list T) : list T :=
    match b with
    | [] => a
    | x :: t => union_names (if mem_name x a then a else a ++ [x]) t
    end.

  Fixpoint bfs_level (g : gstate) (lvl : list T) (seen ret next : list T)
    : outcome (list T * list T * list T) :=
    match lvl with
    | [] => Ok (seen, ret, next)
    | v :: t =>
      if mem_name v seen then bfs_level g t seen ret next else
      do ns <- get_successors_or_neighbors g v;
      bfs_level g t (seen ++ [v]) (ret ++ [v]) (union_names next (map nname ns))
    end.

  Fixpoint bfs_loop (fuel : nat) (g : gstate) (seen ret next : list T) : outcome (list T) :=
    match next with
    | [] => Ok ret
    | _ =>
      match fuel with
      | O => OutOfFuel
      | S f =>
        do r <- bfs_level g next seen ret [];
        let '(seen', ret', next') := r in bfs_loop f g seen' ret' next'
      end
    end.

  Definition breadth_first_search (g : gstate) (x : T) : outcome (list T) :=
    bfs_loop (S (S (length (nodes_vec g)))) g [] [] [x].

  (* ---- degree.rs ---- *)
  Definition is_loop_at (x : T) (e : edge) : bool := teqb (eu e) x && teqb (ev e) x.

  Definition get_node_degree (g : gstate) (x : T) : outcome (option nat) :=
    match get_edges_for_node g x with
    | Ok es => Ok (Some (length es + length (filter (is_loop_at x) es)))
    | Err _ => Ok None
    | Panic s => Panic s
    | OutOfFuel => OutOfFuel
    end.
  Definition opt_len (r : outcome (list edge)) : outcome (option nat) :=
    match r with
    | Ok es => Ok (Some (length es))
    | Err _ => Ok None
    | Panic s => Panic s
    | OutOfFuel => OutOfFuel
    end.
  Definition get_node_in_degree (g : gstate) (x : T) := opt_len (get_in_edges_for_node g x).
  Definition get_node_out_degree (g : gstate) (x : T) := opt_len (get_out_edges_for_node g x).

  Definition get_node_weighted_degree (g : gstate) (x : T) : outcome (option weight) :=
    match get_edges_for_node g x with
    | Ok es => Ok (Some (wadd (wsum (map ew es)) (wsum (map ew (filter (is_loop_at x) es)))))
    | Err _ => Ok None
    | Panic s => Panic s
    | OutOfFuel => OutOfFuel
    end.
  Definition opt_wsum (r : outcome (list edge)) : outcome (option weight) :=
    match r with
    | Ok es => Ok (Some (wsum (map ew es)))
    | Err _ => Ok None
    | Panic s => Panic s
    | OutOfFuel => OutOfFuel
    end.
  Definition get_node_weighted_in_degree (g : gstate) (x : T) := opt_wsum (get_in_edges_for_node g x).
  Definition get_node_weighted_out_degree (g : gstate) (x : T) := opt_wsum (get_out_edges_for_node g x).

  (* the *_for_all_nodes maps: one unwrapped call per node *)
  Definition for_all_nodes {X} (g : gstate) (f : gstate -> T -> outcome (option X))
    : outcome (list (T * X)) :=
    omapM (fun n => do r <- f g (nname n);
                    match r with
                    | Some d => Ok (nname n, d)
                    | None => Panic "degree.rs:unwrap"
                    end) (nodes_vec g).

  Definition get_degree_for_all_nodes (g : gstate) := for_all_nodes g get_node_degree.
  Definition get_in_degree_for_all_nodes (g : gstate) :=
    if negb (directed (sp g)) then Err WrongMethod else for_all_nodes g get_node_in_degree.
  Definition get_out_degree_for_all_nodes (g : gstate) :=
    if negb (directed (sp g)) then Err WrongMethod else for_all_nodes g get_node_out_degree.
  Definition get_weighted_degree_for_all_nodes (g : gstate) := for_all_nodes g get_node_weighted_degree.
  Definition get_weighted_in_degree_for_all_nodes (g : gstate) :=
    if negb (directed (sp g)) then Err WrongMethod else for_all_nodes g get_node_weighted_in_degree.
  Definition get_weighted_out_degree_for_all_nodes (g : gstate) :=
    if negb (directed (sp g)) then Err WrongMethod else for_all_nodes g get_node_weighted_out_degree.
End Query.
