(* Transcription of src/algorithms/components/strong_connectivity.rs:21-100:
   the iterative preorder / low-link loop.  `preorder` and `lowlink` are
   HashMaps (association lists), `scc_found` a HashSet, `scc_queue` and `queue`
   Vecs used as stacks (top = head of the list here).  The neighbour sets are
   the `successors` name map; iteration over a HashSet goes through the order
   oracle [ord] (DESIGN.md 2.2), so the model can be run under several orders.
   No proofs here. *)
From Coq Require Import String List Bool ZArith NArith Arith.
From GV Require Import Base.Outcome Base.AMap Model.GState Model.Creation Model.Query Model.Components.
Import ListNotations.
Open Scope string_scope.
Open Scope list_scope.

Section Scc.
  Context {T A : Type}.
  Variable teqb : T -> T -> bool.
  Variable ord : list T -> list T.

  Notation gstate := (gstate T A).

  Record sst := mks {
    s_pre : list (T * nat);
    s_low : list (T * nat);
    s_found : list T;
    s_sccq : list T;          (* top first *)
    s_ctr : nat;
    s_comps : list (list T)
  }.

  (* neighbors.get(v).unwrap_or(&empty_hs), iterated in hash order *)
  Definition scc_nbrs (g : gstate) (v : T) : list T := ord (name_row teqb (successors g) v).

  (* Option<&usize> comparison `a > b` of Rust: None < Some _ *)
  Definition opt_gt (a b : option nat) : bool :=
    match a, b with
    | Some x, Some y => Nat.ltb y x
    | Some _, None => true
    | None, _ => false
    end.

  (* while !scc_queue.is_empty() && preorder.get(last) > preorder.get(v) { pop; insert } *)
  Fixpoint popq (pre : list (T * nat)) (v : T) (q : list T) (scc : list T) : list T * list T :=
    match q with
    | [] => (scc, [])
    | k :: t =>
      if opt_gt (lookup teqb k pre) (lookup teqb v pre) then popq pre v t (set_add teqb k scc)
      else (scc, q)
    end.

  (* the low-link pass over the neighbours of v; None = an unwrap failed *)
  Definition lowlink_pass (pre low : list (T * nat)) (found : list T) (v : T) (pv : nat) (nb : list T)
    : outcome (list (T * nat)) :=
    ofold (fun (lw : list (T * nat)) (w : T) =>
             if mem_name teqb w found then Ok lw else
             match lookup teqb w pre, lookup teqb v lw with
             | Some pw, Some lv =>
               if Nat.ltb pv pw then
                 match lookup teqb w lw with
                 | Some lww => Ok (insert teqb v (Nat.min lv lww) lw)
                 | None => Panic "strong_connectivity.rs:70 lowlink.get(w).unwrap"
                 end
               else Ok (insert teqb v (Nat.min lv pw) lw)
             | _, _ => Panic "strong_connectivity.rs:69 preorder.get(w).unwrap"
             end) nb low.

  Fixpoint scc_inner (fuel : nat) (g : gstate) (queue : list T) (s : sst) : outcome sst :=
    match fuel with
    | O => OutOfFuel
    | S f =>
      match queue with
      | [] => Ok s
      | v :: qt =>
        let s1 := if contains_key teqb v (s_pre s) then s
                  else mks (insert teqb v (S (s_ctr s)) (s_pre s)) (s_low s) (s_found s) (s_sccq s)
                           (S (s_ctr s)) (s_comps s) in
        match find (fun w => negb (contains_key teqb w (s_pre s1))) (scc_nbrs g v) with
        | Some w => scc_inner f g (w :: queue) s1
        | None =>
          match lookup teqb v (s_pre s1) with
          | None => Panic "strong_connectivity.rs:65 preorder.get(v).unwrap"
          | Some pv =>
            do lw <- lowlink_pass (s_pre s1) (insert teqb v pv (s_low s1)) (s_found s1) v pv (scc_nbrs g v);
            match lookup teqb v lw with
            | None => Panic "strong_connectivity.rs:85 lowlink.get(v).unwrap"
            | Some l =>
              if Nat.eqb l pv then
                let '(scc, q') := popq (s_pre s1) v (s_sccq s1) [v] in
                scc_inner f g qt (mks (s_pre s1) lw (union_names teqb (s_found s1) scc) q'
                                      (s_ctr s1) (s_comps s1 ++ [scc]))
              else
                scc_inner f g qt (mks (s_pre s1) lw (s_found s1) (v :: s_sccq s1) (s_ctr s1) (s_comps s1))
            end
          end
        end
      end
    end.

  Definition nedges (g : gstate) : nat :=
    fold_left (fun a (kv : T * list T) => a + length (snd kv)) (successors g) 0.

  Definition strongly_connected_components (g : gstate) : outcome (list (list T)) :=
    do _ <- ensure_directed g;
    let n := length (nodes_vec g) in
    do s <- ofold (fun s src =>
                     if mem_name teqb src (s_found s) then Ok s
                     else scc_inner (2 * n + nedges g + 2) g [src] s)
                  (get_all_node_names g) (mks [] [] [] [] 0 []);
    Ok (s_comps s).
End Scc.
