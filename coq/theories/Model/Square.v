(* Transcription of src/algorithms/cluster/square.rs AFTER the repair: a node is
   never its own neighbour (self-loops ignored) and the `potential` sum is signed
   (isize), so that directed graphs no longer underflow.  The result is a plain
   map: there is no error channel.  No proofs here. *)
From Coq Require Import String List Bool ZArith NArith Arith QArith.
From GV Require Import Base.Outcome Base.AMap Model.GState Model.Creation Model.Query
     Model.Components Model.Cluster.
Import ListNotations.
Close Scope Q_scope.
Open Scope string_scope.
Open Scope list_scope.

Section Square.
  Context {T A : Type}.
  Variable teqb : T -> T -> bool.

  Notation gstate := (gstate T A).

  (* square.rs gnos: successor or neighbour names without the node itself, as a HashSet *)
  Definition gnos (g : gstate) (x : T) : outcome (list T) :=
    do l <- get_successors_or_neighbors teqb g x;
    Ok (without teqb x (to_hashset teqb (map nname l))).

  (* itertools combinations(2) *)
  Fixpoint pairs {X} (l : list X) : list (X * X) :=
    match l with
    | [] => []
    | x :: t => map (fun y => (x, y)) t ++ pairs t
    end.

  (* square.rs get_coefficient_for_combination *)
  Definition coefficient_for_combination (g : gstate) (v u w : T) : outcome (nat * Z) :=
    do u_nbrs <- gnos g u;
    do w_nbrs <- gnos g w;
    let squares := length (without teqb v (inter teqb u_nbrs w_nbrs)) in
    let degm := if mem_name teqb w u_nbrs then squares + 2 else squares + 1 in
    Ok (squares,
        (Z.of_nat (length u_nbrs) - Z.of_nat degm) + (Z.of_nat (length w_nbrs) - Z.of_nat degm)
        + Z.of_nat squares)%Z.

  (* square.rs get_coefficient_for_node *)
  Definition coefficient_for_node (g : gstate) (v : T) : outcome (T * Q) :=
    do l <- get_successors_or_neighbors teqb g v;
    let nbrs := filter (fun n => negb (teqb n v)) (map nname l) in
    do cs <- omapM (fun p => coefficient_for_combination g v (fst p) (snd p)) (pairs nbrs);
    let cv := fold_left (fun a c => a + fst c) cs 0 in
    let pot := fold_left (fun a c => (a + snd c)%Z) cs 0%Z in
    if Z.ltb 0 pot then Ok (v, Qred (qn cv / inject_Z pot)%Q) else Ok (v, qn cv).

  Definition square_clustering (g : gstate) (node_names : option (list T)) : outcome (list (T * Q)) :=
    do kvs <- omapM (coefficient_for_node g)
                    (match node_names with None => get_all_node_names g | Some l => l end);
    Ok (collect_map teqb kvs).
End Square.
