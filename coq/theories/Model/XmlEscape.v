(* Byte-level transcription of quick-xml 0.37.5 src/escape.rs:
     escape        (escape.rs:104, _escape:152)  — the five characters lt gt amp apos quot
     unescape      (escape.rs:210, unescape_with:253, resolve_xml_entity:332,
                    parse_number:1823, from_str_radix:1839)
   A string is a list of bytes, a byte is an [N] (the theorems hold for every
   list of naturals, so in particular for every byte string and every UTF-8
   encoded Unicode string).  Both loops are written as ONE structural pass:
   [escape] maps every byte to its replacement, [unescape] is a scanner with the
   explicit state "outside an entity" / "after an ampersand, name so far"; that the two
   folds are the memchr-driven loops of the Rust code is established by the
   correspondence check against quick_xml::escape::{escape,unescape}.
   No proofs here. *)
From Coq Require Import List NArith Bool.
Import ListNotations.
Open Scope N_scope.

Definition bytes := list N.

Fixpoint bytes_eqb (a b : bytes) : bool :=
  match a, b with
  | [], [] => true
  | x :: a', y :: b' => N.eqb x y && bytes_eqb a' b'
  | _, _ => false
  end.

(* bytewise lexicographic strict order = Rust's [str]/[String] Ord *)
Fixpoint bytes_ltb (a b : bytes) : bool :=
  match a, b with
  | _, [] => false
  | [], _ :: _ => true
  | x :: a', y :: b' => if N.ltb x y then true else if N.ltb y x then false else bytes_ltb a' b'
  end.

(* ---- escape ---------------------------------------------------------- *)
(* lt 60  gt 62  amp 38  apos 39  quot 34  semicolon 59  hash 35  x 120 *)
Definition ent_lt : bytes := [38; 108; 116; 59].               (* &lt;   *)
Definition ent_gt : bytes := [38; 103; 116; 59].               (* &gt;   *)
Definition ent_amp : bytes := [38; 97; 109; 112; 59].          (* &amp;  *)
Definition ent_apos : bytes := [38; 97; 112; 111; 115; 59].    (* &apos; *)
Definition ent_quot : bytes := [38; 113; 117; 111; 116; 59].   (* &quot; *)

Definition esc_byte (b : N) : bytes :=
  if b =? 60 then ent_lt
  else if b =? 62 then ent_gt
  else if b =? 38 then ent_amp
  else if b =? 39 then ent_apos
  else if b =? 34 then ent_quot
  else [b].

Definition escape (s : bytes) : bytes := flat_map esc_byte s.

(* ---- unescape -------------------------------------------------------- *)
(* resolve_xml_entity *)
Definition resolve_named (name : bytes) : option bytes :=
  if bytes_eqb name [108; 116] then Some [60]
  else if bytes_eqb name [103; 116] then Some [62]
  else if bytes_eqb name [97; 109; 112] then Some [38]
  else if bytes_eqb name [97; 112; 111; 115] then Some [39]
  else if bytes_eqb name [113; 117; 111; 116] then Some [34]
  else None.

(* char::to_digit(radix) on one byte *)
Definition digit_val (radix b : N) : option N :=
  let d := if (48 <=? b) && (b <=? 57) then Some (b - 48)
           else if (97 <=? b) && (b <=? 122) then Some (b - 97 + 10)
           else if (65 <=? b) && (b <=? 90) then Some (b - 65 + 10)
           else None in
  match d with
  | Some v => if v <? radix then Some v else None
  | None => None
  end.

Fixpoint digits (radix : N) (s : bytes) (acc : N) : option N :=
  match s with
  | [] => Some acc
  | b :: t => match digit_val radix b with
              | Some d => digits radix t (acc * radix + d)
              | None => None
              end
  end.

(* escape.rs from_str_radix: a sign is refused, the empty string, a non-digit
   and a value above u32::MAX are errors of u32::from_str_radix *)
Definition from_str_radix (s : bytes) (radix : N) : option N :=
  match s with
  | [] => None
  | b :: _ =>
    if (b =? 43) || (b =? 45) then None
    else match digits radix s 0 with
         | Some v => if v <=? 4294967295 then Some v else None
         | None => None
         end
  end.

(* char::encode_utf8 *)
Definition utf8 (c : N) : bytes :=
  if c <? 128 then [c]
  else if c <? 2048 then [192 + c / 64; 128 + c mod 64]
  else if c <? 65536 then [224 + c / 4096; 128 + (c / 64) mod 64; 128 + c mod 64]
  else [240 + c / 262144; 128 + (c / 4096) mod 64; 128 + (c / 64) mod 64; 128 + c mod 64].

(* parse_number: [num] is the text after the hash sign.  0, surrogates and values above
   0x10FFFF are refused (code == 0, char::from_u32) *)
Definition parse_number (num : bytes) : option bytes :=
  let code := match num with
              | 120 :: hex => from_str_radix hex 16
              | _ => from_str_radix num 10
              end in
  match code with
  | Some c =>
    if c =? 0 then None
    else if (55296 <=? c) && (c <=? 57343) then None
    else if 1114111 <? c then None
    else Some (utf8 c)
  | None => None
  end.

Definition resolve (pat : bytes) : option bytes :=
  match pat with
  | 35 :: num => parse_number num
  | _ => resolve_named pat
  end.

(* the scanner: [st = None] outside an entity, [st = Some acc] after an ampersand with
   the reversed name bytes read so far.  an ampersand inside an entity and end of input
   inside an entity are UnterminatedEntity, an unresolvable name is
   UnrecognizedEntity / InvalidCharRef; a semicolon outside an entity is ordinary. *)
Fixpoint unescape_go (st : option bytes) (s : bytes) : option bytes :=
  match s with
  | [] => match st with None => Some [] | Some _ => None end
  | b :: t =>
    match st with
    | None =>
      if b =? 38 then unescape_go (Some []) t
      else match unescape_go None t with Some r => Some (b :: r) | None => None end
    | Some acc =>
      if b =? 59 then
        match resolve (rev acc) with
        | Some v => match unescape_go None t with Some r => Some (v ++ r) | None => None end
        | None => None
        end
      else if b =? 38 then None
      else unescape_go (Some (b :: acc)) t
    end
  end.

Definition unescape (s : bytes) : option bytes := unescape_go None s.
