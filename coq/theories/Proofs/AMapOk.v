(* Lemmas about the association-list maps/sets of Base/AMap.v (the model of
   Rust's HashMap/IntMap/HashSet) and Vec writes. *)
From Coq Require Import List Bool Arith Lia Permutation.
From GV Require Import Base.AMap.
Import ListNotations.

Lemma NoDup_snoc {X} (l : list X) x : NoDup l -> ~ In x l -> NoDup (l ++ [x]).
Proof.
  induction l as [|h t IH]; simpl; intros Hnd Hni.
  - constructor; [intros []|constructor].
  - inversion Hnd as [|? ? Hh Ht]; subst. constructor.
    + rewrite in_app_iff. simpl. intros [H|[H|[]]]; [contradiction|]. subst. apply Hni. left. reflexivity.
    + apply IH; [exact Ht|]. intros H. apply Hni. right. exact H.
Qed.

Lemma NoDup_app_intro {X} (l1 l2 : list X) :
  NoDup l1 -> NoDup l2 -> (forall x, In x l1 -> In x l2 -> False) -> NoDup (l1 ++ l2).
Proof.
  induction l1 as [|h t IH]; simpl; intros H1 H2 Hd; [exact H2|].
  inversion H1 as [|? ? Hh Ht]; subst. constructor.
  - rewrite in_app_iff. intros [H|H]; [contradiction|]. apply (Hd h); [left; reflexivity|exact H].
  - apply IH; [exact Ht|exact H2|]. intros x Hx1 Hx2. apply (Hd x); [right; exact Hx1|exact Hx2].
Qed.

Section AMapOk.
  Context {K V : Type}.
  Variable keqb : K -> K -> bool.
  Hypothesis keqb_spec : forall x y, keqb x y = true <-> x = y.

  Lemma keqb_refl (x : K) : keqb x x = true.
  Proof. apply keqb_spec. reflexivity. Qed.

  Lemma keqb_neq (x y : K) : x <> y -> keqb x y = false.
  Proof.
    intros H. destruct (keqb x y) eqn:E; [|reflexivity].
    apply keqb_spec in E. contradiction.
  Qed.

  Lemma keqb_false (x y : K) : keqb x y = false -> x <> y.
  Proof. intros H E. subst. rewrite keqb_refl in H. discriminate. Qed.

  Lemma keqb_dec (x y : K) : {x = y} + {x <> y}.
  Proof.
    destruct (keqb x y) eqn:E.
    - left. apply keqb_spec. exact E.
    - right. apply keqb_false. exact E.
  Qed.

  Lemma lookup_insert_eq k (v : V) m : lookup keqb k (insert keqb k v m) = Some v.
  Proof.
    induction m as [|[k' v'] t IH]; simpl.
    - rewrite keqb_refl. reflexivity.
    - destruct (keqb k k') eqn:E; simpl; rewrite E; [reflexivity | exact IH].
  Qed.

  Lemma lookup_insert_neq k k' (v : V) m :
    k' <> k -> lookup keqb k' (insert keqb k v m) = lookup keqb k' m.
  Proof.
    intros Hne. induction m as [|[k2 v2] t IH]; simpl.
    - rewrite (keqb_neq _ _ Hne). reflexivity.
    - destruct (keqb k k2) eqn:E; simpl.
      + apply keqb_spec in E. subst k2. rewrite (keqb_neq _ _ Hne). reflexivity.
      + destruct (keqb k' k2); [reflexivity | exact IH].
  Qed.

  Lemma lookup_insert k k' (v : V) m :
    lookup keqb k' (insert keqb k v m) = if keqb k' k then Some v else lookup keqb k' m.
  Proof.
    destruct (keqb k' k) eqn:E.
    - apply keqb_spec in E. subst. apply lookup_insert_eq.
    - apply lookup_insert_neq. apply keqb_false. exact E.
  Qed.

  Lemma lookup_In k (v : V) m : lookup keqb k m = Some v -> In (k, v) m.
  Proof.
    induction m as [|[k' v'] t IH]; simpl; [discriminate|].
    destruct (keqb k k') eqn:E.
    - intros H. inversion H. apply keqb_spec in E. subst. left. reflexivity.
    - intros H. right. apply IH. exact H.
  Qed.

  Lemma lookup_None_keys k (m : list (K * V)) : lookup keqb k m = None <-> ~ In k (keys m).
  Proof.
    induction m as [|[k' v'] t IH]; simpl.
    - split; [intros _ []|reflexivity].
    - destruct (keqb k k') eqn:E.
      + apply keqb_spec in E. subst. split; [discriminate|]. intros H. exfalso. apply H. left. reflexivity.
      + rewrite IH. apply keqb_false in E. split.
        * intros H [H1|H1]; [congruence | contradiction].
        * intros H H1. apply H. right. exact H1.
  Qed.

  Lemma lookup_Some_keys k (v : V) m : lookup keqb k m = Some v -> In k (keys m).
  Proof. intros H. apply lookup_In in H. unfold keys. apply (in_map fst) in H. exact H. Qed.

  Lemma In_lookup k (v : V) m : NoDup (keys m) -> In (k, v) m -> lookup keqb k m = Some v.
  Proof.
    induction m as [|[k' v'] t IH]; simpl; [intros _ []|].
    intros Hnd [H|H].
    - inversion H; subst. rewrite keqb_refl. reflexivity.
    - inversion Hnd as [|? ? Hni Hnd']; subst.
      destruct (keqb k k') eqn:E.
      + apply keqb_spec in E. subst. exfalso. apply Hni. apply (in_map fst) in H. exact H.
      + apply IH; assumption.
  Qed.

  Lemma keys_insert k (v : V) m :
    keys (insert keqb k v m) = if contains_key keqb k m then keys m else keys m ++ [k].
  Proof.
    unfold contains_key. induction m as [|[k' v'] t IH]; simpl; [reflexivity|].
    destruct (keqb k k') eqn:E; simpl.
    - apply keqb_spec in E. subst. reflexivity.
    - rewrite IH. destruct (lookup keqb k t); reflexivity.
  Qed.

  Lemma NoDup_keys_insert k (v : V) m : NoDup (keys m) -> NoDup (keys (insert keqb k v m)).
  Proof.
    intros H. rewrite keys_insert. unfold contains_key.
    destruct (lookup keqb k m) eqn:E; [exact H|].
    apply lookup_None_keys in E.
    apply NoDup_snoc; assumption.
  Qed.

  Lemma In_keys_insert k k' (v : V) m :
    In k' (keys (insert keqb k v m)) <-> k' = k \/ In k' (keys m).
  Proof.
    rewrite keys_insert. unfold contains_key. destruct (lookup keqb k m) eqn:E.
    - split; [intros H; right; exact H|]. intros [H|H]; [|exact H]. subst.
      eapply lookup_Some_keys. exact E.
    - rewrite in_app_iff. simpl. split.
      + intros [H|[H|[]]]; [right; exact H | left; symmetry; exact H].
      + intros [H|H]; [right; left; symmetry; exact H | left; exact H].
  Qed.

  (* decomposition of the list around the binding of k *)
  Lemma lookup_split k (v : V) m :
    lookup keqb k m = Some v ->
    exists pre post, m = pre ++ (k, v) :: post /\ ~ In k (keys pre).
  Proof.
    induction m as [|[k' v'] t IH]; simpl; [discriminate|].
    destruct (keqb k k') eqn:E.
    - intros H. inversion H. apply keqb_spec in E. subst. exists [], t. split; [reflexivity|intros []].
    - intros H. destruct (IH H) as (pre & post & Ht & Hn). exists ((k', v') :: pre), post. split.
      + simpl. rewrite Ht. reflexivity.
      + simpl. intros [H1|H1]; [|contradiction]. subst. rewrite keqb_refl in E. discriminate.
  Qed.

  Lemma insert_split k (v v' : V) pre post :
    ~ In k (keys pre) ->
    insert keqb k v' (pre ++ (k, v) :: post) = pre ++ (k, v') :: post.
  Proof.
    induction pre as [|[k2 v2] t IH]; simpl; intros Hn.
    - rewrite keqb_refl. reflexivity.
    - destruct (keqb k k2) eqn:E.
      + apply keqb_spec in E. subst. exfalso. apply Hn. left. reflexivity.
      + rewrite IH; [reflexivity|]. intros H. apply Hn. right. exact H.
  Qed.

  Lemma insert_fresh k (v : V) m : lookup keqb k m = None -> insert keqb k v m = m ++ [(k, v)].
  Proof.
    induction m as [|[k' v'] t IH]; simpl; [reflexivity|].
    destruct (keqb k k') eqn:E; [discriminate|]. intros H. rewrite IH; [reflexivity | exact H].
  Qed.
End AMapOk.

(* sets as duplicate-free lists *)
Section ASetOk.
  Context {X : Type}.
  Variable xeqb : X -> X -> bool.
  Hypothesis xeqb_spec : forall x y, xeqb x y = true <-> x = y.

  Lemma mem_In x (l : list X) : mem xeqb x l = true <-> In x l.
  Proof.
    unfold mem. rewrite existsb_exists. split.
    - intros (y & Hy & E). apply xeqb_spec in E. subst. exact Hy.
    - intros H. exists x. split; [exact H | apply xeqb_spec; reflexivity].
  Qed.

  Lemma In_set_add x y (l : list X) : In y (set_add xeqb x l) <-> y = x \/ In y l.
  Proof.
    unfold set_add. destruct (mem xeqb x l) eqn:E.
    - apply mem_In in E. split; [intros H; right; exact H|]. intros [H|H]; [subst; exact E | exact H].
    - rewrite in_app_iff. simpl. split.
      + intros [H|[H|[]]]; [right; exact H | left; symmetry; exact H].
      + intros [H|H]; [right; left; symmetry; exact H | left; exact H].
  Qed.

  Lemma NoDup_set_add x (l : list X) : NoDup l -> NoDup (set_add xeqb x l).
  Proof.
    intros H. unfold set_add. destruct (mem xeqb x l) eqn:E; [exact H|].
    apply NoDup_snoc; [exact H|]. intros Hy.
    assert (mem xeqb x l = true) as Hm by (apply mem_In; exact Hy). congruence.
  Qed.
End ASetOk.

(* Vec writes *)
Lemma set_nth_Some {X} i (x : X) l : i < length l -> exists l', set_nth i x l = Some l'.
Proof.
  revert i. induction l as [|h t IH]; intros [|i] Hi; simpl in *; try lia.
  - eexists; reflexivity.
  - destruct (IH i) as (l' & E); [lia|]. exists (h :: l'). rewrite E. reflexivity.
Qed.

Lemma set_nth_None {X} i (x : X) l : set_nth i x l = None -> length l <= i.
Proof.
  revert i. induction l as [|h t IH]; intros [|i] H; simpl in *; try lia; try discriminate.
  destruct (set_nth i x t) eqn:E; [discriminate|]. apply IH in E. lia.
Qed.

Lemma set_nth_length {X} i (x : X) l l' : set_nth i x l = Some l' -> length l' = length l.
Proof.
  revert i l'. induction l as [|h t IH]; intros [|i] l' H; simpl in *; try discriminate.
  - inversion H. reflexivity.
  - destruct (set_nth i x t) eqn:E; [|discriminate]. inversion H. simpl. f_equal. eapply IH. exact E.
Qed.

Lemma set_nth_nth {X} i j (x : X) l l' :
  set_nth i x l = Some l' -> nth_error l' j = if Nat.eqb j i then Some x else nth_error l j.
Proof.
  revert i j l'. induction l as [|h t IH]; intros [|i] j l' H; simpl in *; try discriminate.
  - inversion H. destruct j; reflexivity.
  - destruct (set_nth i x t) as [t'|] eqn:E; [|discriminate]. inversion H.
    destruct j; [reflexivity|]. simpl. apply (IH i j t' E).
Qed.

Lemma set_nth_lt {X} i (x : X) l l' : set_nth i x l = Some l' -> i < length l.
Proof.
  revert i l'. induction l as [|h t IH]; intros [|i] l' H; simpl in *; try discriminate; try lia.
  destruct (set_nth i x t) eqn:E; [|discriminate]. apply IH in E. lia.
Qed.

Lemma set_nth_same_map {X Y} (f : X -> Y) i (x y : X) l l' :
  nth_error l i = Some y -> f x = f y -> set_nth i x l = Some l' -> map f l' = map f l.
Proof.
  revert i l'. induction l as [|h t IH]; intros [|i] l' Hn Hf H; simpl in *; try discriminate.
  - inversion H. inversion Hn. subst. simpl. rewrite Hf. reflexivity.
  - destruct (set_nth i x t) eqn:E; [|discriminate]. inversion H. simpl. f_equal.
    eapply IH; eauto.
Qed.

Lemma nth_error_app_last {X} (l : list X) x : nth_error (l ++ [x]) (length l) = Some x.
Proof. rewrite nth_error_app2 by lia. rewrite Nat.sub_diag. reflexivity. Qed.
