(* C03: the traversal lists (successors_vec / predecessors_vec) agree with the edge
   store, and carry the minimum weight of the stored edges of each pair. *)
From Coq Require Import String List Bool Arith ZArith Lia Permutation.
From GV Require Import Base.Outcome Base.AMap Model.GState Model.Creation Spec.AGraph Spec.History.
From GV Require Import Proofs.AMapOk Proofs.WFDefs Proofs.WFNode Proofs.WFAdj Proofs.WFEdge Proofs.Refine
     Proofs.HistoryOk.
Import ListNotations.

Section AdjOk.
  Context {T A : Type}.
  Variable teqb : T -> T -> bool.
  Variable tltb : T -> T -> bool.
  Hypothesis teqb_spec : forall x y, teqb x y = true <-> x = y.
  Hypothesis tltb_asym : forall x y, tltb x y = true -> tltb y x = false.
  Hypothesis tltb_total : forall x y, tltb x y = false -> tltb y x = false -> x = y.

  Notation edge := (edge T A).
  Notation gstate := (gstate T A).
  Notation WF := (@WF T A teqb tltb).
  Notation group := (@group T A teqb).
  Notation name_at := (@name_at T A).
  Notation cn := (cn tltb).
  Notation pspec := (peqb_spec teqb teqb_spec).
  Notation all_edges := (fun g : gstate => flat_map snd (edges g)).

  (* the stored edges between two names, read off get_all_edges alone *)
  Definition keyb (k : T * T) (e : edge) : bool := peqb teqb (eu e, ev e) k.
  Definition stored_between (g : gstate) (x y : T) : list edge :=
    filter (keyb (cn (sp g) x y)) (all_edges g).

  Lemma group_is_filter (g : gstate) k :
    WF g -> filter (keyb k) (all_edges g) = match group g k with Some l => l | None => [] end.
  Proof.
    intros W.
    assert (Hgrp : forall k' l' x, In (k', l') (edges g) -> In x l' -> (eu x, ev x) = k').
    { intros k' l' x Hin Hx.
      pose proof (In_lookup (peqb teqb) pspec _ _ _ (wf_ekeys _ _ _ W) Hin) as Hl.
      destruct (wf_egroup _ _ _ W _ _ Hl) as (_ & Hall & _). apply Hall. exact Hx. }
    destruct (group g k) as [l|] eqn:Eg.
    - destruct (lookup_split (peqb teqb) pspec _ _ _ Eg) as (pre & post & Hm & Hpre).
      assert (Hkeys : NoDup (keys (pre ++ (k, l) :: post))) by (rewrite <- Hm; apply (wf_ekeys _ _ _ W)).
      assert (Hother : forall k' l' x, In (k', l') (pre ++ post) -> In x l' -> keyb k x = false).
      { intros k' l' x Hin Hx.
        assert (Hin2 : In (k', l') (edges g)).
        { rewrite Hm. apply in_app_iff in Hin. apply in_or_app. destruct Hin; [left|right; right]; assumption. }
        unfold keyb. rewrite (Hgrp k' l' x Hin2 Hx).
        destruct (peqb teqb k' k) eqn:E; [|reflexivity]. exfalso. apply pspec in E. subst k'.
        unfold keys in Hkeys. rewrite map_app in Hkeys. simpl in Hkeys.
        apply NoDup_remove_2 in Hkeys. apply Hkeys. rewrite <- map_app.
        apply (in_map fst) in Hin. exact Hin. }
      rewrite Hm, !flat_map_app. simpl. rewrite !filter_app.
      rewrite (filter_none _ (flat_map snd pre)), (filter_all _ l), (filter_none _ (flat_map snd post)).
      + rewrite app_nil_r. reflexivity.
      + intros x Hx. apply in_flat_map in Hx. destruct Hx as ((k' & l') & Hin & Hx). simpl in Hx.
        apply (Hother k' l' x); [apply in_or_app; right; exact Hin | exact Hx].
      + intros x Hx. unfold keyb. apply pspec.
        apply (Hgrp k l x); [|exact Hx]. rewrite Hm. apply in_or_app. right. left. reflexivity.
      + intros x Hx. apply in_flat_map in Hx. destruct Hx as ((k' & l') & Hin & Hx). simpl in Hx.
        apply (Hother k' l' x); [apply in_or_app; left; exact Hin | exact Hx].
    - apply filter_none. intros x Hx. apply in_flat_map in Hx. destruct Hx as ((k' & l') & Hin & Hx).
      simpl in Hx. unfold keyb. rewrite (Hgrp k' l' x Hin Hx).
      destruct (peqb teqb k' k) eqn:E; [|reflexivity]. exfalso. apply pspec in E. subst k'.
      pose proof (In_lookup (peqb teqb) pspec _ _ _ (wf_ekeys _ _ _ W) Hin) as Hl.
      unfold WFDefs.group in Eg. congruence.
  Qed.

  Lemma stored_between_group (g : gstate) x y :
    WF g -> stored_between g x y = match group g (cn (sp g) x y) with Some l => l | None => [] end.
  Proof. intros W. apply group_is_filter. exact W. Qed.

  (* the traversal neighbours and weights, stated against get_all_edges alone *)
  Theorem successors_vec_matches_store (g : gstate) i row x :
    WF g -> nth_error (successors_vec g) i = Some row -> name_at g i = Some x ->
    NoDup (map fst row) /\
    forall j w, In (j, w) row <->
                exists y, name_at g j = Some y /\ stored_between g x y <> [] /\
                          w = adjw (sp g) (stored_between g x y).
  Proof.
    intros W Hrow Hx. destruct (wf_sv _ _ _ W) as (_ & Hr). destruct (Hr i row Hrow) as (Hnd & Hmem).
    split; [exact Hnd|]. intros j w. rewrite Hmem. unfold WFDefs.grp_of. rewrite Hx. split.
    - intros (l & Hl & Hw). destruct (name_at g j) as [y|] eqn:Ey; [|discriminate].
      exists y. split; [reflexivity|]. rewrite (stored_between_group g x y W), Hl.
      destruct (wf_egroup _ _ _ W _ _ Hl) as (Hne & _). split; assumption.
    - intros (y & Hy & Hne & Hw). rewrite Hy. rewrite (stored_between_group g x y W) in Hne, Hw.
      destruct (group g (cn (sp g) x y)) as [l|]; [|congruence]. exists l. split; [reflexivity|exact Hw].
  Qed.

  Theorem predecessors_vec_matches_store (g : gstate) j row y :
    WF g -> nth_error (predecessors_vec g) j = Some row -> name_at g j = Some y ->
    NoDup (map fst row) /\
    forall i w, In (i, w) row <->
                directed (sp g) = true /\
                exists x, name_at g i = Some x /\ stored_between g x y <> [] /\
                          w = adjw (sp g) (stored_between g x y).
  Proof.
    intros W Hrow Hy. destruct (wf_pv _ _ _ W) as (_ & Hr). destruct (Hr j row Hrow) as (Hnd & Hmem).
    split; [exact Hnd|]. intros i w. rewrite Hmem. unfold WFDefs.pred_rel, WFDefs.grp_of. rewrite Hy.
    destruct (directed (sp g)) eqn:Hd.
    - split.
      + intros (l & Hl & Hw). split; [reflexivity|]. destruct (name_at g i) as [x|] eqn:Ex; [|discriminate].
        exists x. split; [reflexivity|]. rewrite (stored_between_group g x y W), Hl.
        destruct (wf_egroup _ _ _ W _ _ Hl) as (Hne & _). split; assumption.
      + intros (_ & x & Hx & Hne & Hw). rewrite Hx. rewrite (stored_between_group g x y W) in Hne, Hw.
        destruct (group g (cn (sp g) x y)) as [l|]; [|congruence]. exists l. split; [reflexivity|exact Hw].
    - split; [intros (l & Hl & _); discriminate | intros (Hf & _); discriminate].
  Qed.

  (* [adjw] is the minimum weight of the group when all weights are real, and NaN when none is *)
  Lemma run_min_real (l : list edge) :
    l <> [] -> (forall e, In e l -> exists z, ew e = Some z) ->
    exists z, run_min l = Some z /\ (exists e, In e l /\ ew e = Some z) /\
              forall e z', In e l -> ew e = Some z' -> (z <= z')%Z.
  Proof.
    destruct l as [|h t]; [congruence|]. intros _ Hall.
    assert (Hgen : forall (t : list edge) (acc : Z),
              (forall e, In e t -> exists z, ew e = Some z) ->
              exists z, fold_left (fun (a : weight) (x : edge) => if wlt (ew x) a then ew x else a) t (Some acc) = Some z /\
                        (z = acc \/ exists e, In e t /\ ew e = Some z) /\ (z <= acc)%Z /\
                        forall e z', In e t -> ew e = Some z' -> (z <= z')%Z).
    { induction t0 as [|e0 t0 IH]; intros acc Ht; simpl.
      - exists acc. split; [reflexivity|]. split; [left; reflexivity|]. split; [lia|]. intros e z' [].
      - destruct (Ht e0 (or_introl eq_refl)) as (z0 & Hz0). rewrite Hz0. simpl.
        destruct (Z.ltb z0 acc) eqn:Elt.
        + apply Z.ltb_lt in Elt.
          destruct (IH z0 (fun e He => Ht e (or_intror He))) as (z & Hf & Hw & Hle & Hmin).
          exists z. split; [exact Hf|]. split.
          * right. destruct Hw as [->|(e & He & Hez)]; [exists e0; split; [left; reflexivity|exact Hz0] | exists e; split; [right; exact He|exact Hez]].
          * split; [lia|]. intros e z' [->|He] Hz'; [rewrite Hz0 in Hz'; inversion Hz'; subst; exact Hle | eapply Hmin; eauto].
        + apply Z.ltb_ge in Elt.
          destruct (IH acc (fun e He => Ht e (or_intror He))) as (z & Hf & Hw & Hle & Hmin).
          exists z. split; [exact Hf|]. split.
          * destruct Hw as [->|(e & He & Hez)]; [left; reflexivity | right; exists e; split; [right; exact He|exact Hez]].
          * split; [exact Hle|]. intros e z' [->|He] Hz'; [rewrite Hz0 in Hz'; inversion Hz'; subst; lia | eapply Hmin; eauto]. }
    destruct (Hall h (or_introl eq_refl)) as (zh & Hzh). simpl. rewrite Hzh.
    destruct (Hgen t zh (fun e He => Hall e (or_intror He))) as (z & Hf & Hw & Hle & Hmin).
    exists z. split; [exact Hf|]. split.
    - destruct Hw as [->|(e & He & Hez)]; [exists h; split; [left; reflexivity|exact Hzh] | exists e; split; [right; exact He|exact Hez]].
    - intros e z' [->|He] Hz'; [rewrite Hzh in Hz'; inversion Hz'; subst; exact Hle | eapply Hmin; eauto].
  Qed.

  Lemma run_min_nan (l : list edge) : (forall e, In e l -> ew e = None) -> run_min l = None.
  Proof.
    destruct l as [|h t]; [reflexivity|]. intros Hall. simpl. rewrite (Hall h (or_introl eq_refl)).
    assert (H : forall t : list edge, (forall e, In e t -> ew e = None) ->
              fold_left (fun (a : weight) (x : edge) => if wlt (ew x) a then ew x else a) t None = None).
    { induction t0 as [|e0 t0 IH]; intros Ht; simpl; [reflexivity|].
      rewrite (Ht e0 (or_introl eq_refl)). simpl. apply IH. intros e He. apply Ht. right. exact He. }
    apply H. intros e He. apply Hall. right. exact He.
  Qed.

  (* single-edge graphs store one edge per pair, whose weight the traversal uses *)
  Lemma adjw_single s (l : list edge) e : multi s = false -> l = [e] -> adjw s l = ew e.
  Proof. intros Hm ->. unfold adjw. rewrite Hm. reflexivity. Qed.

  Theorem adjw_is_minimum (g : gstate) x y :
    WF g -> stored_between g x y <> [] ->
    (forall e, In e (stored_between g x y) -> exists z, ew e = Some z) ->
    exists z, adjw (sp g) (stored_between g x y) = Some z /\
              (exists e, In e (stored_between g x y) /\ ew e = Some z) /\
              forall e z', In e (stored_between g x y) -> ew e = Some z' -> (z <= z')%Z.
  Proof.
    intros W Hne Hall. unfold adjw. destruct (multi (sp g)) eqn:Hm.
    - apply run_min_real; assumption.
    - rewrite (stored_between_group g x y W) in *.
      destruct (group g (cn (sp g) x y)) as [l|] eqn:Eg; [|congruence].
      destruct (wf_egroup _ _ _ W _ _ Eg) as (_ & _ & _ & _ & _ & Hlen & _). specialize (Hlen Hm).
      destruct l as [|e [|e2 t]]; simpl in Hlen; try lia.
      destruct (Hall e (or_introl eq_refl)) as (z & Hz). exists z. split; [exact Hz|]. split.
      + exists e. split; [left; reflexivity|exact Hz].
      + intros e' z' [<-|[]] Hz'. rewrite Hz in Hz'. inversion Hz'. lia.
  Qed.
End AdjOk.
