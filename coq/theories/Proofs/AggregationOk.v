(* C13, deepening: aggregation preserves modularity.  The community graph that
   louvain.rs generate_graph builds — one node per community, every edge
   relabelled by the communities of its end points, parallel edges merged into
   one edge with the summed weight (a self-loop when both ends lie in the same
   community), stored with the smaller name first when undirected — has, for
   every family P' of sets of community ids, the same Newman modularity as the
   input graph has for the induced family of node sets.  Also the abstract
   termination argument (a strictly increasing chain inside a finite universe
   is no longer than the universe). *)
From Coq Require Import List Bool ZArith NArith Arith QArith Lia Lqa Permutation Setoid Morphisms.
From GV Require Import Spec.PartitionDef Proofs.PartitionOk.
Import ListNotations.

Lemma nat_eqb_spec : forall x y : nat, Nat.eqb x y = true <-> x = y.
Proof. intros. apply Nat.eqb_eq. Qed.

Section Aggregation.
  Context {T : Type}.
  Variable teqb : T -> T -> bool.
  Hypothesis teqb_spec : forall x y, teqb x y = true <-> x = y.
  Variable com : T -> nat.          (* node2com *)

  Notation wedgeT := (@wedge T).
  Notation wedgeN := (@wedge nat).
  Notation membT := (PartitionDef.memb teqb).
  Notation membN := (PartitionDef.memb Nat.eqb).

  Definition relabel (e : wedgeT) : wedgeN := (com (wu e), com (wv e), ww e).

  (* the node set that a set of community ids stands for *)
  Definition induced (nodes : list T) (c' : list nat) : list T :=
    filter (fun x => membN (com x) c') nodes.

  Lemma memb_induced : forall nodes c' x, In x nodes ->
    membT x (induced nodes c') = membN (com x) c'.
  Proof.
    intros nodes c' x Hx. unfold induced.
    destruct (membN (com x) c') eqn:E.
    - apply (memb_In teqb teqb_spec). apply filter_In. split; assumption.
    - apply (memb_false teqb teqb_spec). intro H. apply filter_In in H. destruct H as [_ H]. congruence.
  Qed.

  Lemma wsel_map_relabel : forall (p : wedgeN -> bool) (es : list wedgeT),
    wsel p (map relabel es) == wsel (fun e => p (relabel e)) es.
  Proof.
    intros p es. induction es as [|e t IH]; [reflexivity|].
    cbn [map]. rewrite !wsel_cons. destruct (p (relabel e)); [rewrite IH; reflexivity | exact IH].
  Qed.

  Lemma total_w_relabel : forall es : list wedgeT, total_w (map relabel es) == total_w es.
  Proof.
    intro es. unfold total_w. induction es as [|e t IH]; [reflexivity|]. cbn [map qsum].
    rewrite IH. reflexivity.
  Qed.

  Section WithNodes.
    Variable nodes : list T.
    Variable es : list wedgeT.
    Hypothesis ends_in : forall e, In e es -> In (wu e) nodes /\ In (wv e) nodes.

    Lemma L_of_relabel : forall c', L_of Nat.eqb (map relabel es) c' == L_of teqb es (induced nodes c').
    Proof.
      intro c'. unfold L_of. rewrite wsel_map_relabel. apply wsel_ext. intros e He.
      destruct (ends_in e He) as [Hu Hv].
      rewrite (memb_induced nodes c' _ Hu), (memb_induced nodes c' _ Hv). reflexivity.
    Qed.

    Lemma Kout_of_relabel : forall c', Kout_of Nat.eqb (map relabel es) c' == Kout_of teqb es (induced nodes c').
    Proof.
      intro c'. unfold Kout_of. rewrite wsel_map_relabel. apply wsel_ext. intros e He.
      destruct (ends_in e He) as [Hu _]. rewrite (memb_induced nodes c' _ Hu). reflexivity.
    Qed.

    Lemma Kin_of_relabel : forall c', Kin_of Nat.eqb (map relabel es) c' == Kin_of teqb es (induced nodes c').
    Proof.
      intro c'. unfold Kin_of. rewrite wsel_map_relabel. apply wsel_ext. intros e He.
      destruct (ends_in e He) as [_ Hv]. rewrite (memb_induced nodes c' _ Hv). reflexivity.
    Qed.

    Lemma newman_relabel : forall dir gamma P',
      newman Nat.eqb dir (map relabel es) gamma P' == newman teqb dir es gamma (map (induced nodes) P').
    Proof.
      intros dir gamma P'. unfold newman. rewrite map_map.
      destruct dir; apply qsum_ext; intros c' _; unfold K_of;
        rewrite (L_of_relabel c'), (Kout_of_relabel c'), (Kin_of_relabel c'), total_w_relabel;
        reflexivity.
    Qed.
  End WithNodes.
End Aggregation.

(* ---- merging parallel edges, canonical orientation ---- *)
Section Merge.
  Notation wedgeN := (@wedge nat).
  Notation membN := (PartitionDef.memb Nat.eqb).

  Definition same_ends (a b : nat) (e : wedgeN) : bool := Nat.eqb (wu e) a && Nat.eqb (wv e) b.

  (* KeepLast accumulation of generate_graph: `weight + existing weight` replaces the edge *)
  Fixpoint agg_add (a b : nat) (w : Q) (acc : list wedgeN) : list wedgeN :=
    match acc with
    | [] => [(a, b, w)]
    | e :: t => if same_ends a b e then (a, b, ww e + w) :: t else e :: agg_add a b w t
    end.

  Definition canon_e (undirected : bool) (e : wedgeN) : wedgeN :=
    if undirected && Nat.ltb (wv e) (wu e) then (wv e, wu e, ww e) else e.

  Definition aggregate (dir : bool) (es : list wedgeN) : list wedgeN :=
    fold_left (fun acc e => let c := canon_e (negb dir) e in agg_add (wu c) (wv c) (ww c) acc) es [].

  (* a selection that looks at the end points only *)
  Definition ends_only (p : wedgeN -> bool) : Prop :=
    forall e e', wu e = wu e' -> wv e = wv e' -> p e = p e'.

  Lemma wsel_nil : forall p : wedgeN -> bool, wsel p [] == 0.
  Proof. intro p. reflexivity. Qed.

  Lemma agg_add_wsel : forall p a b w acc, ends_only p ->
    wsel p (agg_add a b w acc) == (if p (a, b, w) then w else 0) + wsel p acc.
  Proof.
    intros p a b w acc Hp. induction acc as [|e t IH]; cbn [agg_add].
    - rewrite (@wsel_cons nat). cbn [ww snd]. destruct (p (a, b, w)); rewrite !wsel_nil; ring.
    - unfold same_ends. destruct (Nat.eqb (wu e) a && Nat.eqb (wv e) b) eqn:E.
      + apply andb_true_iff in E. destruct E as [E1 E2]. apply Nat.eqb_eq in E1. apply Nat.eqb_eq in E2.
        rewrite !(@wsel_cons nat).
        assert (H1 : p (a, b, ww e + w) = p (a, b, w)) by (apply Hp; reflexivity).
        assert (H2 : p e = p (a, b, w)) by (apply Hp; cbn; assumption).
        rewrite H1, H2. destruct (p (a, b, w)); cbn [ww snd]; ring.
      + rewrite !(@wsel_cons nat). destruct (p e); rewrite IH; ring.
  Qed.

  Lemma fold_agg_wsel : forall p (f : wedgeN -> wedgeN) es acc, ends_only p ->
    wsel p (fold_left (fun acc e => agg_add (wu (f e)) (wv (f e)) (ww (f e)) acc) es acc)
    == wsel p (map f es) + wsel p acc.
  Proof.
    intros p f es. induction es as [|e t IH]; intros acc Hp; cbn [fold_left map].
    - rewrite wsel_nil. ring.
    - rewrite (IH _ Hp). rewrite (agg_add_wsel p _ _ _ acc Hp). rewrite (@wsel_cons nat).
      assert (H : p (wu (f e), wv (f e), ww (f e)) = p (f e)) by (apply Hp; reflexivity).
      rewrite H. destruct (p (f e)); ring.
  Qed.

  Lemma aggregate_wsel : forall p dir es, ends_only p ->
    wsel p (aggregate dir es) == wsel p (map (canon_e (negb dir)) es).
  Proof.
    intros p dir es Hp. unfold aggregate.
    rewrite (fold_agg_wsel p (canon_e (negb dir)) es [] Hp). rewrite wsel_nil. ring.
  Qed.

  (* the selections of Newman's formula look at end points only *)
  Lemma ends_only_L : forall c, ends_only (fun e => membN (wu e) c && membN (wv e) c).
  Proof. intros c e e' Hu Hv. rewrite Hu, Hv. reflexivity. Qed.
  Lemma ends_only_out : forall c, ends_only (fun e => membN (wu e) c).
  Proof. intros c e e' Hu Hv. rewrite Hu. reflexivity. Qed.
  Lemma ends_only_in : forall c, ends_only (fun e => membN (wv e) c).
  Proof. intros c e e' Hu Hv. rewrite Hv. reflexivity. Qed.
  Lemma ends_only_true : ends_only (fun _ => true).
  Proof. intros e e' _ _. reflexivity. Qed.

  (* orientation does not matter for L_c, for K_c = Kout_c + Kin_c and for m *)
  Lemma canon_cases : forall und e, canon_e und e = e \/ canon_e und e = (wv e, wu e, ww e).
  Proof. intros und e. unfold canon_e. destruct (und && Nat.ltb (wv e) (wu e)); [right | left]; reflexivity. Qed.

  Lemma L_of_canon : forall und es c, L_of Nat.eqb (map (canon_e und) es) c == L_of Nat.eqb es c.
  Proof.
    intros und es c. unfold L_of. induction es as [|e t IH]; [reflexivity|].
    cbn [map]. rewrite !(@wsel_cons nat).
    destruct (canon_cases und e) as [E|E]; rewrite E; cbn [wu wv ww fst snd].
    - destruct (membN (wu e) c && membN (wv e) c); rewrite IH; reflexivity.
    - rewrite (andb_comm (membN (wv e) c)). destruct (membN (wu e) c && membN (wv e) c); rewrite IH; reflexivity.
  Qed.

  Lemma K_of_canon : forall und es c, K_of Nat.eqb (map (canon_e und) es) c == K_of Nat.eqb es c.
  Proof.
    intros und es c. unfold K_of, Kout_of, Kin_of. induction es as [|e t IH]; [reflexivity|].
    cbn [map]. rewrite !(@wsel_cons nat).
    destruct (canon_cases und e) as [E|E]; rewrite E; cbn [wu wv ww fst snd];
      destruct (membN (wu e) c), (membN (wv e) c); lra.
  Qed.

  Lemma total_w_canon : forall und es, total_w (map (canon_e und) es) == total_w es.
  Proof.
    intros und es. unfold total_w. induction es as [|e t IH]; [reflexivity|].
    cbn [map qsum]. destruct (canon_cases und e) as [E|E]; rewrite E; cbn [ww snd]; rewrite IH; reflexivity.
  Qed.

  Lemma total_w_wsel : forall es : list wedgeN, total_w es == wsel (fun _ => true) es.
  Proof. intro es. symmetry. apply wsel_all. reflexivity. Qed.

  Lemma newman_aggregate_undirected : forall es gamma P',
    newman Nat.eqb false (aggregate false es) gamma P' == newman Nat.eqb false es gamma P'.
  Proof.
    intros es gamma P'. unfold newman.
    assert (Hm : total_w (aggregate false es) == total_w es).
    { rewrite (total_w_wsel (aggregate false es)), (aggregate_wsel _ false es ends_only_true).
      rewrite <- total_w_wsel. apply total_w_canon. }
    apply qsum_ext. intros c _.
    assert (HL : L_of Nat.eqb (aggregate false es) c == L_of Nat.eqb es c).
    { unfold L_of at 1. rewrite (aggregate_wsel _ false es (ends_only_L c)). apply L_of_canon. }
    assert (HK : K_of Nat.eqb (aggregate false es) c == K_of Nat.eqb es c).
    { unfold K_of at 1, Kout_of, Kin_of.
      rewrite (aggregate_wsel _ false es (ends_only_out c)), (aggregate_wsel _ false es (ends_only_in c)).
      apply K_of_canon. }
    rewrite HL, HK, Hm. reflexivity.
  Qed.

  Lemma map_canon_directed : forall es, map (canon_e (negb true)) es = es.
  Proof. intro es. induction es as [|e t IH]; [reflexivity|]. cbn [map]. rewrite IH. reflexivity. Qed.

  Lemma newman_aggregate_directed : forall es gamma P',
    newman Nat.eqb true (aggregate true es) gamma P' == newman Nat.eqb true es gamma P'.
  Proof.
    intros es gamma P'. unfold newman.
    assert (Hm : total_w (aggregate true es) == total_w es).
    { rewrite (total_w_wsel (aggregate true es)), (aggregate_wsel _ true es ends_only_true).
      rewrite map_canon_directed. symmetry. apply total_w_wsel. }
    apply qsum_ext. intros c _.
    assert (HL : L_of Nat.eqb (aggregate true es) c == L_of Nat.eqb es c).
    { unfold L_of. rewrite (aggregate_wsel _ true es (ends_only_L c)), map_canon_directed. reflexivity. }
    assert (HO : Kout_of Nat.eqb (aggregate true es) c == Kout_of Nat.eqb es c).
    { unfold Kout_of. rewrite (aggregate_wsel _ true es (ends_only_out c)), map_canon_directed. reflexivity. }
    assert (HI : Kin_of Nat.eqb (aggregate true es) c == Kin_of Nat.eqb es c).
    { unfold Kin_of. rewrite (aggregate_wsel _ true es (ends_only_in c)), map_canon_directed. reflexivity. }
    rewrite HL, HO, HI, Hm. reflexivity.
  Qed.
End Merge.

(* aggregation preserves modularity *)
Theorem aggregation_preserves_Q :
  forall (T : Type) (teqb : T -> T -> bool), (forall x y, teqb x y = true <-> x = y) ->
  forall (com : T -> nat) (nodes : list T) (es : list (T * T * Q)) (dir : bool) (gamma : Q) (P' : list (list nat)),
    (forall e, In e es -> In (wu e) nodes /\ In (wv e) nodes) ->
    newman Nat.eqb dir (aggregate dir (map (relabel com) es)) gamma P'
    == newman teqb dir es gamma (map (induced com nodes) P').
Proof.
  intros T teqb Hspec com nodes es dir gamma P' Hends.
  rewrite <- (newman_relabel teqb Hspec com nodes es Hends dir gamma P').
  destruct dir; [apply newman_aggregate_directed | apply newman_aggregate_undirected].
Qed.

(* the induced family of a partition of the community ids is a partition of the nodes *)
(* abstract termination argument: along the local-moving phase every accepted move strictly
   increases modularity (move_only_if_strictly_better + accepted_move_increases_Q), so the
   visited partitions are pairwise different; inside a finite universe of candidates such a
   chain is no longer than the universe *)
Fixpoint strictly_increasing (l : list Q) : Prop :=
  match l with
  | [] => True
  | a :: t => match t with [] => True | b :: _ => a < b /\ strictly_increasing t end
  end.

Lemma strictly_increasing_lt_all : forall a l, strictly_increasing (a :: l) -> Forall (fun b => a < b) l.
Proof.
  intros a l. revert a. induction l as [|b t IH]; intros a H; [constructor|].
  cbn in H. destruct H as [Hab Ht]. constructor; [exact Hab|].
  specialize (IH b Ht). eapply Forall_impl; [|exact IH]. intros c Hc. cbn in Hc. lra.
Qed.

Theorem strict_chain_bounded : forall {X} (f : X -> Q) (universe chain : list X),
  incl chain universe -> strictly_increasing (map f chain) -> (length chain <= length universe)%nat.
Proof.
  intros X f universe chain Hincl Hinc. apply NoDup_incl_length; [|exact Hincl].
  clear Hincl. induction chain as [|x t IH]; [constructor|].
  constructor.
  - intro Hin. cbn [map] in Hinc. apply strictly_increasing_lt_all in Hinc.
    rewrite Forall_forall in Hinc. specialize (Hinc (f x) (in_map f t x Hin)). lra.
  - apply IH. cbn [map] in Hinc. destruct (map f t) eqn:E; [destruct t; [exact I | discriminate]|].
    cbn in Hinc. destruct t as [|y t']; [discriminate|]. cbn [map] in E. inversion E. subst.
    destruct Hinc as [_ H]. cbn [map]. exact H.
Qed.

Example aggregation_nonvacuous :
  let es : list (Z * Z * Q) := [((1, 2)%Z, 1); ((2, 3)%Z, 1); ((3, 4)%Z, 1)] in
  let com := fun x : Z => if (x <=? 2)%Z then 0%nat else 1%nat in
  aggregate false (map (relabel com) es) = [(0%nat, 0%nat, 1); (0%nat, 1%nat, 1); (1%nat, 1%nat, 1)] /\
  induced com [1; 2; 3; 4]%Z [1%nat] = [3; 4]%Z /\
  newman Nat.eqb false (aggregate false (map (relabel com) es)) 1 [[0%nat]; [1%nat]] ==
  newman Z.eqb false es 1 [[1; 2]; [3; 4]]%Z.
Proof. cbn zeta. repeat split; vm_compute; reflexivity. Qed.

Example strict_chain_nonvacuous :
  incl [1; 3]%Z [1; 2; 3]%Z /\ strictly_increasing (map inject_Z [1; 3]%Z).
Proof. split; [intros x [H|[H|[]]]; subst; cbn; auto | cbn; split; [reflexivity | exact I]]. Qed.
