(* C05: what accumulate_betweenness (betweenness.rs:194-206) computes.  For any
   stack S without repetitions in which the predecessors P[w] of every node
   precede it (what the single-source stage produces), the loop computes the
   vector Delta that satisfies Brandes' recurrence
       Delta[v] = sum over w in S with v in P[w] of sigma[v]/sigma[w] * (1 + Delta[w])
   and adds Delta[w] to betweenness[w] for every w in S other than the source. *)
From Coq Require Import List Bool ZArith Arith QArith Lia Lqa.
From GV Require Import Model.Cent Model.Brandes Spec.BetweennessDef Proofs.CentBase Proofs.BrandesOk.
Import ListNotations.
Open Scope list_scope.

Lemma nmem_In : forall v l, nmem v l = true <-> In v l.
Proof.
  intros v l. unfold nmem. rewrite existsb_exists. split.
  - intros [x [Hin H]]. apply Nat.eqb_eq in H. subst. exact Hin.
  - intros H. exists v. split; [exact H | apply Nat.eqb_refl].
Qed.

Lemma nmem_false : forall v l, nmem v l = false <-> ~ In v l.
Proof.
  intros v l. rewrite <- nmem_In. destruct (nmem v l); split; intro H; try congruence.
Qed.

Lemma Qsum_cons : forall x t, Qsum (x :: t) = x + Qsum t.
Proof. reflexivity. Qed.
Lemma Qsum_nil : Qsum [] = 0.
Proof. reflexivity. Qed.

Lemma Qsum_app : forall a b, Qsum (a ++ b) == Qsum a + Qsum b.
Proof.
  induction a as [|x t IH]; intros b; cbn [app].
  - rewrite Qsum_nil. ring.
  - repeat rewrite Qsum_cons. rewrite IH. ring.
Qed.

Lemma Qsum_rev : forall l, Qsum (rev l) == Qsum l.
Proof.
  induction l as [|x t IH]; cbn [rev]; [reflexivity|].
  rewrite Qsum_app. repeat rewrite Qsum_cons. rewrite Qsum_nil. rewrite IH. ring.
Qed.

Lemma Qsum_map_ext : forall (X : Type) (f h : X -> Q) l, (forall x, In x l -> f x == h x) -> Qsum (map f l) == Qsum (map h l).
Proof.
  induction l as [|x t IH]; intros H; cbn [map]; [reflexivity|]. repeat rewrite Qsum_cons.
  rewrite (H x) by (left; reflexivity). rewrite IH; [reflexivity|]. intros y Hy. apply H. right. exact Hy.
Qed.

Section Acc.
  Variable src : nat.
  Variable P : list (list nat).
  Variable sig : list Q.

  (* the inner loop `for v in P[w] { delta[v] += sigma[v] * coeff }` *)
  Lemma inner_length : forall coeff pl dl, length (fold_left (acc_pred sig coeff) pl dl) = length dl.
  Proof.
    intros coeff. induction pl as [|u t IH]; intros dl; cbn; [reflexivity|]. rewrite IH. unfold acc_pred. apply upd_length.
  Qed.

  Lemma inner_fold : forall coeff pl dl v,
    NoDup pl -> (forall u, In u pl -> (u < length dl)%nat) ->
    get 0 (fold_left (acc_pred sig coeff) pl dl) v ==
    get 0 dl v + (if nmem v pl then get 0 sig v * coeff else 0).
  Proof.
    intros coeff. induction pl as [|u t IH]; intros dl v Hnd Hr; cbn [fold_left].
    - cbn. ring.
    - inversion Hnd as [|? ? Hnot Hnd']; subst.
      rewrite IH; [|exact Hnd'|].
      2:{ intros x Hx. unfold acc_pred. rewrite upd_length. apply Hr. right. exact Hx. }
      unfold acc_pred, get. destruct (Nat.eq_dec u v) as [E|E].
      + subst v. rewrite nth_upd_eq by (apply Hr; left; reflexivity).
        replace (nmem u t) with false by (symmetry; apply nmem_false; exact Hnot).
        replace (nmem u (u :: t)) with true by (symmetry; apply nmem_In; left; reflexivity).
        rewrite Qred_correct. ring.
      + rewrite nth_upd_neq by exact E.
        replace (nmem v (u :: t)) with (nmem v t); [reflexivity|].
        cbn. destruct (Nat.eqb v u) eqn:E2; [apply Nat.eqb_eq in E2; congruence | reflexivity].
  Qed.

  (* contribution of w to the dependency of v *)
  Definition contrib (D : list Q) (v w : nat) : Q :=
    if nmem v (get [] P w) then get 0 sig v * ((1 + get 0 D w) / get 0 sig w) else 0.

  Definition later (l : list nat) : Prop :=
    forall l1 w l2, l = l1 ++ w :: l2 -> forall v, In v (get [] P w) -> In v l2.

  Lemma later_tail : forall w0 t, later (w0 :: t) -> later t.
  Proof. intros w0 t H l1 w l2 E. apply (H (w0 :: l1) w l2). rewrite E. reflexivity. Qed.

  Lemma later_not_pred : forall w0 t w, NoDup (w0 :: t) -> later (w0 :: t) -> In w (w0 :: t) ->
    ~ In w0 (get [] P w).
  Proof.
    intros w0 t w Hnd Hl Hw Hin. inversion Hnd as [|? ? Hnot _]; subst.
    destruct Hw as [Hw|Hw].
    - subst w. apply Hnot. apply (Hl [] w0 t eq_refl). exact Hin.
    - apply in_split in Hw. destruct Hw as [l1 [l2 E]].
      apply Hnot. rewrite E. apply in_or_app. right. right.
      apply (Hl (w0 :: l1) w l2); [rewrite E; reflexivity | exact Hin].
  Qed.

  Lemma acc_main : forall l delta bet D' bet',
    NoDup l -> later l ->
    (forall w, In w l -> NoDup (get [] P w) /\ (forall u, In u (get [] P w) -> (u < length delta)%nat) /\
                         (w < length bet)%nat) ->
    fold_left (acc_step src P sig) l (delta, bet) = (D', bet') ->
    (forall v, get 0 D' v == get 0 delta v + Qsum (map (contrib D' v) l)) /\
    (forall w, get 0 bet' w == get 0 bet w + (if nmem w l && negb (Nat.eqb w src) then get 0 D' w else 0)) /\
    length D' = length delta.
  Proof.
    induction l as [|w0 t IH]; intros delta bet D' bet' Hnd Hl Hc H.
    - cbn in H. inversion H. subst. split; [intro v; cbn [map]; rewrite Qsum_nil; ring|].
      split; [intro w; cbn [nmem existsb andb]; ring | reflexivity].
    - cbn [fold_left] in H.
      set (coeff0 := Qred ((1 + get 0 delta w0) / get 0 sig w0)) in *.
      set (delta1 := fold_left (acc_pred sig coeff0) (get [] P w0) delta) in *.
      set (bet1 := if Nat.eqb w0 src then bet else upd w0 (Qred (get 0 bet w0 + get 0 delta1 w0)) bet) in *.
      assert (Hstep : acc_step src P sig (delta, bet) w0 = (delta1, bet1)) by reflexivity.
      rewrite Hstep in H.
      destruct (Hc w0 (or_introl eq_refl)) as [HndP [HrP Hwb]].
      assert (Hlen1 : length delta1 = length delta) by (apply inner_length).
      assert (Hlenb : length bet1 = length bet).
      { unfold bet1. destruct (Nat.eqb w0 src); [reflexivity | apply upd_length]. }
      inversion Hnd as [|? ? Hnot Hnd']; subst.
      destruct (IH delta1 bet1 D' bet' Hnd' (later_tail _ _ Hl)) as [I1 [I2 I3]]; [|exact H|].
      { intros w Hw. destruct (Hc w (or_intror Hw)) as [A [B C]]. split; [exact A|]. split.
        - intros u Hu. rewrite Hlen1. apply B. exact Hu.
        - rewrite Hlenb. exact C. }
      (* delta[w0] is final when w0 is processed *)
      assert (Hself : ~ In w0 (get [] P w0)) by (apply (later_not_pred w0 t w0 Hnd Hl); left; reflexivity).
      assert (K : get 0 D' w0 == get 0 delta w0).
      { rewrite I1. rewrite Qsum_zero.
        - unfold delta1. rewrite inner_fold by assumption.
          replace (nmem w0 (get [] P w0)) with false by (symmetry; apply nmem_false; exact Hself). ring.
        - intros w Hw. unfold contrib.
          replace (nmem w0 (get [] P w)) with false; [reflexivity|]. symmetry. apply nmem_false.
          apply (later_not_pred w0 t w Hnd Hl). right. exact Hw. }
      split; [|split].
      + intros v. rewrite I1. cbn [map]. rewrite Qsum_cons. unfold delta1. rewrite inner_fold by assumption.
        assert (Hc0 : coeff0 == (1 + get 0 D' w0) / get 0 sig w0).
        { unfold coeff0. rewrite Qred_correct. rewrite K. reflexivity. }
        unfold contrib at 2. destruct (nmem v (get [] P w0)); [rewrite Hc0|]; ring.
      + intros w. rewrite I2. unfold bet1. cbn [nmem existsb].
        destruct (Nat.eq_dec w w0) as [E|E].
        * subst w. rewrite Nat.eqb_refl. cbn [orb].
          replace (nmem w0 t) with false by (symmetry; apply nmem_false; exact Hnot). cbn [andb].
          destruct (Nat.eqb w0 src) eqn:Es; cbn [negb andb].
          -- ring.
          -- unfold get. rewrite nth_upd_eq by exact Hwb. rewrite Qred_correct.
             fold (get 0 bet w0). fold (get 0 delta1 w0). fold (get 0 D' w0).
             unfold delta1. rewrite inner_fold by assumption.
             replace (nmem w0 (get [] P w0)) with false by (symmetry; apply nmem_false; exact Hself).
             rewrite K. ring.
        * replace (Nat.eqb w w0) with false by (symmetry; apply Nat.eqb_neq; exact E). cbn [orb].
          fold (nmem w t).
          destruct (Nat.eqb w0 src); [reflexivity|].
          unfold get. rewrite nth_upd_neq by congruence. reflexivity.
      + rewrite I3. exact Hlen1.
  Qed.
End Acc.

(* the stack S as the stage produces it: no repetitions, predecessors first *)
Definition preds_first (P : list (list nat)) (S : list nat) : Prop :=
  forall S1 w S2, S = S1 ++ w :: S2 -> forall v, In v (get [] P w) -> In v S1.

Theorem accumulate_recurrence : forall src S P sig bet,
  NoDup S -> preds_first P S ->
  (forall w, In w S -> NoDup (get [] P w) /\ (forall u, In u (get [] P w) -> (u < length bet)%nat) /\
                       (w < length bet)%nat) ->
  exists D : list Q,
    length D = length bet /\
    (forall v, get 0 D v == Qsum (map (contrib P sig D v) S)) /\
    (forall w, get 0 (accumulate src S P sig bet) w ==
               get 0 bet w + (if nmem w S && negb (Nat.eqb w src) then get 0 D w else 0)).
Proof.
  intros src S P sig bet Hnd Hpf Hc. unfold accumulate.
  destruct (fold_left (acc_step src P sig) (rev S) (repeat 0 (length bet), bet)) as [D' bet'] eqn:Ef.
  destruct (acc_main src P sig (rev S) (repeat 0 (length bet)) bet D' bet') as [I1 [I2 I3]]; auto.
  - apply NoDup_rev. exact Hnd.
  - intros l1 w l2 E v Hv.
    assert (E2 : S = rev l2 ++ w :: rev l1).
    { rewrite <- (rev_involutive S). rewrite E. rewrite rev_app_distr. cbn. rewrite <- app_assoc. reflexivity. }
    apply in_rev. apply (Hpf (rev l2) w (rev l1) E2 v Hv).
  - intros w Hw. apply in_rev in Hw. rewrite repeat_length. apply Hc. exact Hw.
  - exists D'. split; [rewrite I3; apply repeat_length|]. split.
    + intros v. rewrite I1. rewrite map_rev. rewrite Qsum_rev.
      assert (Hz : get 0 (repeat 0 (length bet)) v = 0).
      { unfold get. destruct (nth_in_or_default v (repeat 0 (length bet)) 0) as [Hi|Hi]; [apply repeat_spec in Hi; exact Hi | exact Hi]. }
      rewrite Hz. ring.
    + intros w. cbn [snd]. rewrite I2.
      replace (nmem w (rev S)) with (nmem w S); [reflexivity|].
      destruct (nmem w S) eqn:E1.
      * symmetry. apply nmem_In. apply -> in_rev. apply nmem_In. exact E1.
      * symmetry. apply nmem_false. intro X. apply in_rev in X. apply nmem_false in E1. contradiction.
Qed.
