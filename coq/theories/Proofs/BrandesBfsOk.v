(* C05, hop-count mode: the single-source stage `bfs` of betweenness.rs:89-136
   by loop invariant, for every graph and every source:  D = hop distances,
   S = the reachable nodes, each once, in non-decreasing distance, P[w] = the
   predecessors of w on shortest paths (each once), sigma[src] = 1 and
   sigma[w] = sum of sigma over P[w].  Consequently the stack satisfies the
   premises of BrandesAccOk.accumulate_recurrence. *)
From Coq Require Import List Bool ZArith Arith QArith Lia Lqa.
From GV Require Import Model.Cent Model.Brandes Spec.BetweennessDef Spec.ClosenessDef.
From GV Require Import Proofs.CentBase Proofs.BrandesOk Proofs.BrandesAccOk Proofs.ClosenessOk Proofs.ClosenessBfsOk.
Import ListNotations.
Open Scope list_scope.

(* ------------------------------------------------------------------ small facts *)
Lemma get_upd_eq : forall X (l : list X) i x d, (i < length l)%nat -> get d (upd i x l) i = x.
Proof. intros. unfold get. apply nth_upd_eq. assumption. Qed.
Lemma get_upd_neq : forall X (l : list X) i j x d, i <> j -> get d (upd i x l) j = get d l j.
Proof. intros. unfold get. apply nth_upd_neq. assumption. Qed.

Fixpoint sorted_by (f : nat -> nat) (l : list nat) : Prop :=
  match l with
  | [] => True
  | x :: t => (forall y, In y t -> (f x <= f y)%nat) /\ sorted_by f t
  end.

Lemma sorted_app_one : forall f l y, sorted_by f l -> (forall x, In x l -> (f x <= f y)%nat) -> sorted_by f (l ++ [y]).
Proof.
  induction l as [|x t IH]; intros y Hs Hle; cbn; [split; [intros ? []|exact I]|].
  destruct Hs as [H1 H2]. split.
  - intros z Hz. apply in_app_or in Hz. destruct Hz as [Hz|[Hz|[]]]; [apply H1; exact Hz | subst; apply Hle; left; reflexivity].
  - apply IH; [exact H2|]. intros z Hz. apply Hle. right. exact Hz.
Qed.

Lemma sorted_le : forall f l1 l2 x y, sorted_by f (l1 ++ l2) -> In x l1 -> In y l2 -> (f x <= f y)%nat.
Proof.
  induction l1 as [|a t IH]; intros l2 x y Hs Hx Hy; [destruct Hx|].
  cbn in Hs. destruct Hs as [H1 H2]. destruct Hx as [Hx|Hx].
  - subst. apply H1. apply in_or_app. right. exact Hy.
  - eapply IH; eauto.
Qed.

Lemma sorted_le_last : forall f l c x, sorted_by f (l ++ [c]) -> In x (l ++ [c]) -> (f x <= f c)%nat.
Proof.
  intros f l c x Hs Hx. apply in_app_or in Hx. destruct Hx as [Hx|[Hx|[]]].
  - eapply sorted_le; eauto. left. reflexivity.
  - subst. lia.
Qed.

Lemma sorted_ext : forall f f' l, (forall x, In x l -> f x = f' x) -> sorted_by f l -> sorted_by f' l.
Proof.
  induction l as [|x t IH]; intros He Hs; cbn; [exact I|]. destruct Hs as [H1 H2]. split.
  - intros y Hy. rewrite <- (He x) by (left; reflexivity). rewrite <- (He y) by (right; exact Hy). apply H1. exact Hy.
  - apply IH; [|exact H2]. intros z Hz. apply He. right. exact Hz.
Qed.

Lemma map_get_upd_notin : forall (sig : list Q) w x l, ~ In w l -> map (get 0 (upd w x sig)) l = map (get 0 sig) l.
Proof.
  intros sig w x l Hn. apply map_ext_in. intros u Hu. apply get_upd_neq. intro E. subst. contradiction.
Qed.

(* ------------------------------------------------------------------ the invariant *)
Section Stage.
  Variable g : qadj.
  Variable src : nat.
  Notation n := (length g).
  Hypothesis Hok : adj_ok n g = true.
  Hypothesis Hsrc : (src < n)%nat.
  (* one adjacency entry per neighbour (the private index successors_vec has this shape) *)
  Hypothesis Hrows : forall v, NoDup (map fst (get [] g v)).

  Definition Dn (s : qs) (w : nat) : option nat := get None (qD s) w.
  Definition dval (s : qs) (w : nat) : nat := match Dn s w with Some k => k | None => O end.

  Record J (s : qs) (R pending : list (nat * nat)) : Prop := mkJ {
    j_len : length (qD s) = n /\ length (qsig s) = n /\ length (qP s) = n;
    j_nodup : NoDup (qS s ++ qq s);
    j_range : forall x, In x (qS s ++ qq s) -> (x < n)%nat;
    j_dom : forall w, Dn s w <> None <-> In w (qS s ++ qq s);
    j_sorted : sorted_by (dval s) (qS s ++ qq s);
    j_spread : forall S' c, qS s = S' ++ [c] -> forall y, In y (qq s) -> (dval s y <= S (dval s c))%nat;
    j_first : qS s = [] -> qq s = [src];
    j_src : Dn s src = Some O;
    j_tight : forall w, In w (qS s ++ qq s) -> w <> src ->
              exists v k, In v (qS s) /\ E g v w /\ Dn s v = Some k /\ Dn s w = Some (S k);
    j_R : forall u w, In (u, w) R ->
          In u (qS s) /\ E g u w /\ exists ku kw, Dn s u = Some ku /\ Dn s w = Some kw /\ (kw <= S ku)%nat;
    j_P : forall w, NoDup (get [] (qP s) w) /\
          forall u, In u (get [] (qP s) w) <-> In (u, w) R /\ exists k, Dn s u = Some k /\ Dn s w = Some (S k);
    j_sig_src : get 0 (qsig s) src = 1;
    j_sig : forall w, w <> src -> get 0 (qsig s) w == Qsum (map (get 0 (qsig s)) (get [] (qP s) w));
    j_cover : forall u w, In u (qS s) -> E g u w -> In (u, w) R \/ In (u, w) pending;
    j_pend : NoDup pending /\
             forall u w, In (u, w) pending -> (exists S', qS s = S' ++ [u]) /\ E g u w /\ ~ In (u, w) R
  }.

  Lemma P_in_S : forall s R pend w u, J s R pend -> In u (get [] (qP s) w) -> In u (qS s).
  Proof.
    intros s R pend w u HJ Hu. destruct (j_P _ _ _ HJ w) as [_ Hiff]. apply Hiff in Hu. destruct Hu as [Hu _].
    destruct (j_R _ _ _ HJ u w Hu) as [H _]. exact H.
  Qed.

  (* ---------------------------------------------------------------- initial state *)
  Definition init_s : qs :=
    mkqs (upd src (Some O) (repeat None n)) (upd src 1 (repeat 0 n)) (repeat [] n) [] [src].

  Lemma get_repeat : forall X (x : X) k i d, get d (repeat x k) i = x \/ get d (repeat x k) i = d.
  Proof.
    intros X x k i d. unfold get. destruct (nth_in_or_default i (repeat x k) d) as [H|H]; [left; apply repeat_spec in H; exact H | right; exact H].
  Qed.

  Lemma J_init : J init_s [] [].
  Proof.
    assert (HD : forall w, Dn init_s w = if Nat.eqb w src then Some O else None).
    { intros w. unfold Dn, init_s. cbn [qD]. destruct (Nat.eqb w src) eqn:E.
      - apply Nat.eqb_eq in E. subst. apply get_upd_eq. rewrite repeat_length. exact Hsrc.
      - apply Nat.eqb_neq in E. rewrite get_upd_neq by congruence.
        destruct (get_repeat _ (@None nat) n w None) as [H|H]; exact H. }
    assert (HP : forall w, get [] (qP init_s) w = []).
    { intros w. unfold init_s. cbn [qP]. destruct (get_repeat _ (@nil nat) n w []) as [H|H]; exact H. }
    constructor; unfold init_s; cbn [qD qsig qP qS qq app].
    - repeat rewrite upd_length. repeat rewrite repeat_length. auto.
    - constructor; [intros []|constructor].
    - intros x [H|[]]. subst. exact Hsrc.
    - intros w. fold init_s. rewrite HD. destruct (Nat.eqb w src) eqn:E.
      + apply Nat.eqb_eq in E. subst. split; [intro; left; reflexivity | intro; discriminate].
      + apply Nat.eqb_neq in E. split; [intro X; congruence | intros [X|[]]; congruence].
    - cbn. split; [intros y []|exact I].
    - intros S' c X. destruct S'; discriminate.
    - reflexivity.
    - fold init_s. rewrite HD. rewrite Nat.eqb_refl. reflexivity.
    - intros w [H|[]] Hne. congruence.
    - intros u w [].
    - intros w. fold init_s. rewrite HP. split; [constructor|]. intros u. split; [intros [] | intros [[] _]].
    - apply get_upd_eq. rewrite repeat_length. exact Hsrc.
    - intros w Hne. fold init_s. rewrite HP. cbn. rewrite get_upd_neq by congruence.
      destruct (get_repeat _ 0 n w 0) as [H|H]; rewrite H; reflexivity.
    - intros u w [].
    - split; [constructor | intros u w []].
  Qed.

  (* ---------------------------------------------------------------- pop_front *)
  Lemma J_pop : forall s R v t,
    J s R [] -> qq s = v :: t ->
    J (mkqs (qD s) (qsig s) (qP s) (qS s ++ [v]) t) R (map (fun a => (v, fst a)) (get [] g v)).
  Proof.
    intros s R v t HJ Hq.
    assert (Heq : (qS s ++ [v]) ++ t = qS s ++ qq s) by (rewrite Hq, <- app_assoc; reflexivity).
    constructor; cbn [qD qsig qP qS qq].
    - exact (j_len _ _ _ HJ).
    - rewrite Heq. exact (j_nodup _ _ _ HJ).
    - rewrite Heq. exact (j_range _ _ _ HJ).
    - rewrite Heq. exact (j_dom _ _ _ HJ).
    - rewrite Heq. exact (j_sorted _ _ _ HJ).
    - intros S' c E0 y Hy. apply app_inj_tail in E0. destruct E0 as [E1 E2]. subst c S'.
      destruct (qS s) as [|a S0] eqn:ES.
      + pose proof (j_first _ _ _ HJ ES) as X. rewrite Hq in X. inversion X. subst. destruct Hy.
      + destruct (@exists_last _ (a :: S0) ltac:(discriminate)) as [S'' [c0 Ec]].
        assert (H1 : (dval s y <= S (dval s c0))%nat).
        { apply (j_spread _ _ _ HJ S'' c0); [rewrite ES; exact Ec | rewrite Hq; right; exact Hy]. }
        assert (H2 : (dval s c0 <= dval s v)%nat).
        { apply (sorted_le (dval s) (qS s) (qq s)); [exact (j_sorted _ _ _ HJ) | rewrite ES, Ec; apply in_or_app; right; left; reflexivity | rewrite Hq; left; reflexivity]. }
        change ((dval s y <= S (dval s v))%nat). lia.
    - intros X. destruct (qS s); discriminate.
    - exact (j_src _ _ _ HJ).
    - intros w Hw Hne. rewrite Heq in Hw. destruct (j_tight _ _ _ HJ w Hw Hne) as [u [k [H1 [H2 [H3 H4]]]]].
      exists u, k. split; [apply in_or_app; left; exact H1|]. auto.
    - intros u w Hin. destruct (j_R _ _ _ HJ u w Hin) as [H1 H2]. split; [apply in_or_app; left; exact H1 | exact H2].
    - exact (j_P _ _ _ HJ).
    - exact (j_sig_src _ _ _ HJ).
    - exact (j_sig _ _ _ HJ).
    - intros u w Hu He. apply in_app_or in Hu. destruct Hu as [Hu|[Hu|[]]].
      + destruct (j_cover _ _ _ HJ u w Hu He) as [X|[]]. left. exact X.
      + subst u. right. unfold E in He. apply in_map_iff in He. destruct He as [a [Ea Ha]].
        apply in_map_iff. exists a. subst. auto.
    - split.
      + pose proof (Hrows v) as Hr. revert Hr. generalize (get [] g v). intros row. induction row as [|a r IH]; intros Hr; cbn; [constructor|].
        cbn in Hr. inversion Hr as [|? ? Hn Hr']; subst. constructor; [|apply IH; exact Hr'].
        intro X. apply in_map_iff in X. destruct X as [b [Eb Hb]]. inversion Eb as [E1]. apply Hn. rewrite <- E1.
        apply in_map. exact Hb.
      + intros u w Hin. apply in_map_iff in Hin. destruct Hin as [a [Ea Ha]]. inversion Ea; subst.
        split; [exists (qS s); reflexivity|]. split; [unfold E; apply in_map; exact Ha|].
        intro X. destruct (j_R _ _ _ HJ _ _ X) as [Hs _].
        pose proof (j_nodup _ _ _ HJ) as Hnd. rewrite Hq in Hnd. apply NoDup_remove_2 in Hnd. apply Hnd.
        apply in_or_app. left. exact Hs.
  Qed.

  (* ---------------------------------------------------------------- facts about the node being expanded *)
  Lemma NoDup_app_one : forall (X : Type) (l : list X) x, NoDup l -> ~ In x l -> NoDup (l ++ [x]).
  Proof.
    intros X l x Hl Hx. apply NoDup_app_intro; [exact Hl | constructor; [intros []|constructor] |].
    intros y Hy [Hy'|[]]. subst. contradiction.
  Qed.

  Lemma cur_bounds : forall s R pend S' v dv,
    J s R pend -> qS s = S' ++ [v] -> Dn s v = Some dv ->
    (forall x, In x (qS s) -> (dval s x <= dv)%nat) /\ (forall y, In y (qq s) -> (dval s y <= S dv)%nat).
  Proof.
    intros s R pend S' v dv HJ HS Hv.
    assert (Hdv : dval s v = dv) by (unfold dval; rewrite Hv; reflexivity).
    split.
    - intros x Hx. rewrite <- Hdv. pose proof (j_sorted _ _ _ HJ) as Hs. rewrite HS in Hs, Hx.
      rewrite <- app_assoc in Hs. apply in_app_or in Hx. destruct Hx as [Hx|[Hx|[]]].
      + eapply sorted_le; [exact Hs | exact Hx | left; reflexivity].
      + subst. lia.
    - intros y Hy. rewrite <- Hdv. eapply (j_spread _ _ _ HJ); eauto.
  Qed.

  (* ---------------------------------------------------------------- first `if`: discovery *)
  Lemma J_discover : forall s R pend S' v w dv,
    J s R pend -> qS s = S' ++ [v] -> Dn s v = Some dv -> Dn s w = None -> E g v w ->
    J (mkqs (upd w (Some (S dv)) (qD s)) (qsig s) (qP s) (qS s) (qq s ++ [w])) R pend.
  Proof.
    intros s R pend S' v w dv HJ HS Hv Hw He.
    set (s1 := mkqs (upd w (Some (S dv)) (qD s)) (qsig s) (qP s) (qS s) (qq s ++ [w])).
    assert (Hwn : (w < n)%nat) by (eapply E_range; eauto).
    destruct (j_len _ _ _ HJ) as [HlD [Hls HlP]].
    assert (Hwnot : ~ In w (qS s ++ qq s)). { intro X. apply (j_dom _ _ _ HJ) in X. congruence. }
    assert (HD1w : Dn s1 w = Some (S dv)). { unfold Dn, s1. cbn [qD]. apply get_upd_eq. lia. }
    assert (HD1 : forall x, x <> w -> Dn s1 x = Dn s x). { intros x Hx. unfold Dn, s1. cbn [qD]. apply get_upd_neq. congruence. }
    assert (Hd1 : forall x, x <> w -> dval s1 x = dval s x). { intros x Hx. unfold dval. rewrite HD1 by exact Hx. reflexivity. }
    assert (Hold : forall x, In x (qS s ++ qq s) -> x <> w). { intros x Hx E0. subst. contradiction. }
    assert (HvS : In v (qS s)) by (rewrite HS; apply in_or_app; right; left; reflexivity).
    assert (Hvw : v <> w). { apply Hold. apply in_or_app. left. exact HvS. }
    destruct (cur_bounds s R pend S' v dv HJ HS Hv) as [HbS Hbq].
    assert (Happ : qS s ++ qq s ++ [w] = (qS s ++ qq s) ++ [w]) by (rewrite app_assoc; reflexivity).
    constructor; unfold s1; cbn [qD qsig qP qS qq]; fold s1.
    - rewrite upd_length. auto.
    - rewrite Happ. apply NoDup_app_one; [exact (j_nodup _ _ _ HJ) | exact Hwnot].
    - rewrite Happ. intros x Hx. apply in_app_or in Hx. destruct Hx as [Hx|[Hx|[]]]; [apply (j_range _ _ _ HJ); exact Hx | subst; exact Hwn].
    - intros x. rewrite Happ. destruct (Nat.eq_dec x w) as [Ex|Ex].
      + subst x. rewrite HD1w. split; [intro; apply in_or_app; right; left; reflexivity | intro; discriminate].
      + rewrite HD1 by exact Ex. rewrite (j_dom _ _ _ HJ x). split; intro X.
        * apply in_or_app. left. exact X.
        * apply in_app_or in X. destruct X as [X|[X|[]]]; [exact X | congruence].
    - rewrite Happ. apply sorted_app_one.
      + apply (sorted_ext (dval s)); [|exact (j_sorted _ _ _ HJ)]. intros x Hx. symmetry. apply Hd1. apply Hold. exact Hx.
      + intros x Hx. rewrite (Hd1 x (Hold x Hx)). unfold dval at 2. rewrite HD1w.
        apply in_app_or in Hx. destruct Hx as [Hx|Hx]; [pose proof (HbS x Hx); lia | apply Hbq; exact Hx].
    - intros S'' c E0 y Hy. rewrite HS in E0. apply app_inj_tail in E0. destruct E0 as [_ E0]. subst c.
      rewrite (Hd1 v Hvw). assert (Hdv : dval s v = dv) by (unfold dval; rewrite Hv; reflexivity). rewrite Hdv.
      apply in_app_or in Hy. destruct Hy as [Hy|[Hy|[]]].
      + rewrite Hd1; [apply Hbq; exact Hy|]. apply Hold. apply in_or_app. right. exact Hy.
      + subst y. unfold dval. rewrite HD1w. lia.
    - intros X. rewrite HS in X. destruct S'; discriminate.
    - rewrite HD1; [exact (j_src _ _ _ HJ)|]. intro X. subst. rewrite (j_src _ _ _ HJ) in Hw. discriminate.
    - intros x Hx Hne. rewrite Happ in Hx. apply in_app_or in Hx. destruct Hx as [Hx|[Hx|[]]].
      + destruct (j_tight _ _ _ HJ x Hx Hne) as [u [k [H1 [H2 [H3 H4]]]]]. exists u, k.
        split; [exact H1|]. split; [exact H2|]. split.
        * rewrite HD1; [exact H3|]. apply Hold. apply in_or_app. left. exact H1.
        * rewrite HD1; [exact H4|]. apply Hold. exact Hx.
      + subst x. exists v, dv. split; [exact HvS|]. split; [exact He|]. split; [rewrite HD1; auto | exact HD1w].
    - intros u x Hin. destruct (j_R _ _ _ HJ u x Hin) as [H1 [H2 [ku [kw [H3 [H4 H5]]]]]].
      split; [exact H1|]. split; [exact H2|]. exists ku, kw.
      split; [rewrite HD1; [exact H3|]; apply Hold; apply in_or_app; left; exact H1|].
      split; [rewrite HD1; [exact H4|]; intro X; subst; congruence | exact H5].
    - intros x. destruct (j_P _ _ _ HJ x) as [Hnd Hiff]. split; [exact Hnd|]. intros u. rewrite Hiff.
      split; intros [Hin Hk]; (split; [exact Hin|]);
        destruct (j_R _ _ _ HJ u x Hin) as [H1 [_ [ku [kw [H3 [H4 _]]]]]];
        assert (Hu : u <> w) by (apply Hold; apply in_or_app; left; exact H1);
        assert (Hx : x <> w) by (intro X; subst; congruence).
      + destruct Hk as [k [A B]]. exists k. rewrite HD1 by exact Hu. rewrite HD1 by exact Hx. auto.
      + destruct Hk as [k [A B]]. exists k. rewrite HD1 in A by exact Hu. rewrite HD1 in B by exact Hx. auto.
    - exact (j_sig_src _ _ _ HJ).
    - exact (j_sig _ _ _ HJ).
    - exact (j_cover _ _ _ HJ).
    - exact (j_pend _ _ _ HJ).
  Qed.

  (* ---------------------------------------------------------------- second `if`: counting; the edge (v,w) is done *)
  Lemma J_move : forall s s' R pend v w dv dw,
    J s R ((v, w) :: pend) ->
    qD s' = qD s -> qS s' = qS s -> qq s' = qq s -> length (qsig s') = n -> length (qP s') = n ->
    Dn s v = Some dv -> Dn s w = Some dw ->
    (forall x, NoDup (get [] (qP s') x) /\
       forall u, In u (get [] (qP s') x) <-> In (u, x) ((v, w) :: R) /\ exists k, Dn s u = Some k /\ Dn s x = Some (S k)) ->
    get 0 (qsig s') src = 1 ->
    (forall x, x <> src -> get 0 (qsig s') x == Qsum (map (get 0 (qsig s')) (get [] (qP s') x))) ->
    J s' ((v, w) :: R) pend /\ (dw <= S dv)%nat.
  Proof.
    intros s s' R pend v w dv dw HJ ED ES Eq Hls HlP Hv Hw HP Hss Hsg.
    destruct (j_pend _ _ _ HJ) as [Hndp Hp].
    destruct (Hp v w (or_introl eq_refl)) as [[S' HS] [He HnR]].
    destruct (cur_bounds s R _ S' v dv HJ HS Hv) as [HbS Hbq].
    assert (Hle : (dw <= S dv)%nat).
    { assert (Hin : In w (qS s ++ qq s)) by (apply (j_dom _ _ _ HJ); congruence).
      assert (Hdw : dval s w = dw) by (unfold dval; rewrite Hw; reflexivity).
      apply in_app_or in Hin. destruct Hin as [Hin|Hin]; [pose proof (HbS w Hin) | pose proof (Hbq w Hin)]; lia. }
    split; [|exact Hle].
    assert (EDn : forall x, Dn s' x = Dn s x) by (intro x; unfold Dn; rewrite ED; reflexivity).
    assert (Edv : forall x, dval s' x = dval s x) by (intro x; unfold dval; rewrite EDn; reflexivity).
    destruct (j_len _ _ _ HJ) as [HlD _].
    constructor; try rewrite ED; try rewrite ES; try rewrite Eq.
    - auto.
    - exact (j_nodup _ _ _ HJ).
    - exact (j_range _ _ _ HJ).
    - intro x. rewrite EDn. exact (j_dom _ _ _ HJ x).
    - apply (sorted_ext (dval s)); [intros; symmetry; apply Edv | exact (j_sorted _ _ _ HJ)].
    - intros S'' c E0 y Hy. repeat rewrite Edv. eapply (j_spread _ _ _ HJ); eauto.
    - exact (j_first _ _ _ HJ).
    - rewrite EDn. exact (j_src _ _ _ HJ).
    - intros x Hx Hne. destruct (j_tight _ _ _ HJ x Hx Hne) as [u [k H]]. exists u, k. repeat rewrite EDn. exact H.
    - intros u x [Hin|Hin].
      + inversion Hin; subst u x. split; [rewrite HS; apply in_or_app; right; left; reflexivity|]. split; [exact He|].
        exists dv, dw. repeat rewrite EDn. auto.
      + destruct (j_R _ _ _ HJ u x Hin) as [H1 [H2 H3]]. split; [exact H1|]. split; [exact H2|].
        destruct H3 as [ku [kw H3]]. exists ku, kw. repeat rewrite EDn. exact H3.
    - intros x. destruct (HP x) as [A B]. split; [exact A|]. intros u. rewrite B. repeat rewrite EDn. reflexivity.
    - exact Hss.
    - exact Hsg.
    - intros u x Hu Hex. destruct (j_cover _ _ _ HJ u x Hu Hex) as [X|[X|X]].
      + left. right. exact X.
      + left. left. exact X.
      + right. exact X.
    - inversion Hndp as [|? ? Hnot Hndp']; subst. split; [exact Hndp'|].
      intros u x Hin. destruct (Hp u x (or_intror Hin)) as [A [B C]]. split; [exact A|]. split; [exact B|].
      intros [X|X]; [inversion X; subst; contradiction | contradiction].
  Qed.

  Lemma J_count : forall s R pend v w dv dw,
    J s R ((v, w) :: pend) -> Dn s v = Some dv -> Dn s w = Some dw ->
    let sv := get 0 (qsig s) v in
    let s' := if Nat.eqb dw (S dv)
              then mkqs (qD s) (upd w (Qred (get 0 (qsig s) w + sv)) (qsig s))
                        (upd w (get [] (qP s) w ++ [v]) (qP s)) (qS s) (qq s)
              else s in
    J s' ((v, w) :: R) pend /\ Dn s' v = Some dv /\ get 0 (qsig s') v = sv.
  Proof.
    intros s R pend v w dv dw HJ Hv Hw sv s'.
    destruct (j_pend _ _ _ HJ) as [Hndp Hp].
    destruct (Hp v w (or_introl eq_refl)) as [[S' HS] [He HnR]].
    destruct (cur_bounds s R _ S' v dv HJ HS Hv) as [HbS Hbq].
    destruct (j_len _ _ _ HJ) as [HlD [Hls HlP]].
    assert (HvS : In v (qS s)) by (rewrite HS; apply in_or_app; right; left; reflexivity).
    destruct (Nat.eqb dw (S dv)) eqn:Eq; subst s'.
    - apply Nat.eqb_eq in Eq. subst dw.
      assert (HwS : ~ In w (qS s)).
      { intro X. pose proof (HbS w X) as B. unfold dval in B. rewrite Hw in B. lia. }
      assert (Hvw : v <> w) by (intro X; subst; contradiction).
      assert (Hwsrc : w <> src). { intro X. subst. rewrite (j_src _ _ _ HJ) in Hw. discriminate. }
      assert (Hwn : (w < n)%nat). { apply (j_range _ _ _ HJ). apply (j_dom _ _ _ HJ). congruence. }
      assert (HnotP : forall x, ~ In w (get [] (qP s) x)). { intros x X. apply HwS. eapply P_in_S; eauto. }
      set (s' := mkqs (qD s) (upd w (Qred (get 0 (qsig s) w + sv)) (qsig s)) (upd w (get [] (qP s) w ++ [v]) (qP s)) (qS s) (qq s)).
      assert (HM : J s' ((v, w) :: R) pend /\ (S dv <= S dv)%nat).
      { apply (J_move s s' R pend v w dv (S dv)); auto; unfold s'; cbn [qD qsig qP qS qq].
        - rewrite upd_length. exact Hls.
        - rewrite upd_length. exact HlP.
        - intros x. destruct (j_P _ _ _ HJ x) as [Hnd Hiff]. destruct (Nat.eq_dec x w) as [Ex|Ex].
          + subst x. rewrite get_upd_eq by lia. split.
            * apply NoDup_app_one; [exact Hnd|]. intro X. apply Hiff in X. destruct X as [X _]. contradiction.
            * intros u. rewrite in_app_iff. rewrite Hiff. cbn [In]. split.
              -- intros [[A B]|[A|[]]]; [split; [right; exact A | exact B]|]. subst u.
                 split; [left; reflexivity|]. exists dv. auto.
              -- intros [[A|A] B]; [inversion A; subst; right; left; reflexivity | left; split; assumption].
          + rewrite get_upd_neq by congruence. split; [exact Hnd|]. intros u. rewrite Hiff. cbn [In]. split.
            * intros [A B]. split; [right; exact A | exact B].
            * intros [[A|A] B]; [inversion A; congruence | split; assumption].
        - rewrite get_upd_neq by exact Hwsrc. exact (j_sig_src _ _ _ HJ).
        - intros x Hx. destruct (Nat.eq_dec x w) as [Ex|Ex].
          + subst x. repeat rewrite get_upd_eq by lia. rewrite map_app. rewrite Qsum_app. cbn [map].
            rewrite map_get_upd_notin by apply HnotP. rewrite get_upd_neq by congruence.
            rewrite Qred_correct. rewrite (j_sig _ _ _ HJ w Hwsrc). rewrite Qsum_cons, Qsum_nil. fold sv. ring.
          + repeat rewrite (get_upd_neq _ _ w x) by congruence.
            rewrite map_get_upd_notin by apply HnotP. exact (j_sig _ _ _ HJ x Hx). }
      destruct HM as [HM _]. split; [exact HM|]. split.
      + unfold Dn, s'. cbn [qD]. exact Hv.
      + unfold s'. cbn [qsig]. apply get_upd_neq. congruence.
    - apply Nat.eqb_neq in Eq.
      assert (HM : J s ((v, w) :: R) pend /\ (dw <= S dv)%nat).
      { apply (J_move s s R pend v w dv dw); auto.
        - intros x. destruct (j_P _ _ _ HJ x) as [Hnd Hiff]. split; [exact Hnd|]. intros u. rewrite Hiff. cbn [In]. split.
          + intros [A B]. split; [right; exact A | exact B].
          + intros [[A|A] B]; [|split; assumption]. inversion A; subst u x.
            destruct B as [k [B1 B2]]. rewrite Hv in B1. rewrite Hw in B2. inversion B1; inversion B2; subst. congruence.
        - exact (j_sig_src _ _ _ HJ).
        - exact (j_sig _ _ _ HJ). }
      destruct HM as [HM _]. split; [exact HM|]. split; [exact Hv | reflexivity].
  Qed.

  (* the body of `for adj in successors(v)` for one entry *)
  Lemma J_relax : forall s R pend v w c dv,
    J s R ((v, w) :: pend) -> Dn s v = Some dv ->
    let s' := qrelax v dv (get 0 (qsig s) v) s (w, c) in
    J s' ((v, w) :: R) pend /\ Dn s' v = Some dv /\ get 0 (qsig s') v = get 0 (qsig s) v.
  Proof.
    intros s R pend v w c dv HJ Hv s'.
    destruct (j_pend _ _ _ HJ) as [_ Hp].
    destruct (Hp v w (or_introl eq_refl)) as [[S' HS] [He _]].
    destruct (j_len _ _ _ HJ) as [HlD _].
    assert (Hwn : (w < n)%nat) by (eapply E_range; eauto).
    destruct (Dn s w) as [dw|] eqn:Hw.
    - assert (Es : s' = if Nat.eqb dw (S dv)
                        then mkqs (qD s) (upd w (Qred (get 0 (qsig s) w + get 0 (qsig s) v)) (qsig s))
                                  (upd w (get [] (qP s) w ++ [v]) (qP s)) (qS s) (qq s)
                        else s).
      { unfold s', qrelax. cbn [fst]. unfold Dn in Hw. rewrite Hw. rewrite Hw. destruct s; reflexivity. }
      rewrite Es. apply (J_count s R pend v w dv dw HJ Hv Hw).
    - set (s1 := mkqs (upd w (Some (S dv)) (qD s)) (qsig s) (qP s) (qS s) (qq s ++ [w])).
      assert (HJ1 : J s1 R ((v, w) :: pend)) by (eapply J_discover; eauto).
      assert (Hvw : v <> w). { intro X. subst. congruence. }
      assert (Hv1 : Dn s1 v = Some dv). { unfold Dn, s1. cbn [qD]. rewrite get_upd_neq by congruence. exact Hv. }
      assert (Hw1 : Dn s1 w = Some (S dv)). { unfold Dn, s1. cbn [qD]. apply get_upd_eq. lia. }
      assert (Es : s' = mkqs (qD s1) (upd w (Qred (get 0 (qsig s1) w + get 0 (qsig s1) v)) (qsig s1))
                             (upd w (get [] (qP s1) w ++ [v]) (qP s1)) (qS s1) (qq s1)).
      { unfold s', qrelax. cbn [fst]. unfold Dn in Hw. rewrite Hw. cbn [qD].
        rewrite get_upd_eq by lia. rewrite Nat.eqb_refl. reflexivity. }
      pose proof (J_count s1 R pend v w dv (S dv) HJ1 Hv1 Hw1) as HC. cbv zeta in HC.
      rewrite Nat.eqb_refl in HC. rewrite Es. exact HC.
  Qed.

  Lemma J_row : forall todo s R v dv,
    J s R (map (fun a => (v, fst a)) todo) -> Dn s v = Some dv ->
    exists R', J (fold_left (qrelax v dv (get 0 (qsig s) v)) todo s) R' [].
  Proof.
    induction todo as [|[w c] t IH]; intros s R v dv HJ Hv; cbn [fold_left map fst] in *.
    - exists R. exact HJ.
    - destruct (J_relax s R _ v w c dv HJ Hv) as [HJ' [Hv' Hs']].
      destruct (IH _ _ v dv HJ' Hv') as [R' HR']. rewrite Hs' in HR'. exists R'. exact HR'.
  Qed.

  Lemma J_loop : forall fuel s R s',
    J s R [] -> qloop fuel g s = Some s' -> exists R', J s' R' [] /\ qq s' = [].
  Proof.
    induction fuel as [|f IH]; intros s R s' HJ H; cbn [qloop] in H; [discriminate|].
    destruct (qq s) as [|v t] eqn:Hq.
    - inversion H. subst. exists R. auto.
    - pose proof (J_pop s R v t HJ Hq) as HJ1.
      cbn [qD qsig] in H. change (get None (qD s) v) with (Dn s v) in H.
      destruct (Dn s v) as [dv|] eqn:Hv; [|discriminate].
      set (s1 := mkqs (qD s) (qsig s) (qP s) (qS s ++ [v]) t) in *.
      assert (Hv1 : Dn s1 v = Some dv) by exact Hv.
      change (get 0 (qsig s) v) with (get 0 (qsig s1) v) in H.
      destruct (J_row (get [] g v) s1 R v dv HJ1 Hv1) as [R' HJ'].
      eapply IH; eauto.
  Qed.

  Theorem bbfs_J : forall s, bbfs g src = Some s -> exists R, J s R [] /\ qq s = [].
  Proof. intros s H. unfold bbfs in H. eapply J_loop; [apply J_init | exact H]. Qed.
End Stage.

(* ------------------------------------------------------------------ what the stage returns *)
Section StageFacts.
  Variable g : qadj.
  Variable src : nat.
  Hypothesis Hok : adj_ok (length g) g = true.
  Hypothesis Hsrc : (src < length g)%nat.
  Hypothesis Hrows : forall v, NoDup (map fst (get [] g v)).
  Variable s : qs.
  Hypothesis Hs : bbfs g src = Some s.

  Definition dvec (s0 : qs) : list (option Z) := map (option_map Z.of_nat) (qD s0).

  Lemma oget_dvec : forall w, oget (dvec s) w = option_map Z.of_nat (Dn s w).
  Proof.
    intros w. unfold oget, dvec, Dn, get.
    change (@None Z) with (option_map Z.of_nat (@None nat)). apply map_nth.
  Qed.

  (* S = the reachable nodes, each once, in non-decreasing distance *)
  Theorem stage_S : NoDup (qS s) /\ (forall w, In w (qS s) <-> Dn s w <> None) /\
                    sorted_by (dval s) (qS s) /\ (forall w, In w (qS s) -> (w < length g)%nat).
  Proof.
    destruct (bbfs_J g src Hok Hsrc Hrows s Hs) as [R [HJ Hq]].
    pose proof (j_nodup _ _ _ _ _ HJ) as A. pose proof (j_sorted _ _ _ _ _ HJ) as B.
    pose proof (j_range _ _ _ _ _ HJ) as C.
    rewrite Hq, app_nil_r in A, B, C. split; [exact A|]. split; [|split; [exact B | exact C]].
    intros w. rewrite (j_dom _ _ _ _ _ HJ w). rewrite Hq, app_nil_r. reflexivity.
  Qed.

  (* P[w] = the neighbours one level closer to the source, each once *)
  Theorem stage_P : forall w, NoDup (get [] (qP s) w) /\
    forall u, In u (get [] (qP s) w) <-> E g u w /\ exists k, Dn s u = Some k /\ Dn s w = Some (S k).
  Proof.
    destruct (bbfs_J g src Hok Hsrc Hrows s Hs) as [R [HJ Hq]]. intros w.
    destruct (j_P _ _ _ _ _ HJ w) as [Hnd Hiff]. split; [exact Hnd|]. intros u. rewrite Hiff. split.
    - intros [A B]. destruct (j_R _ _ _ _ _ HJ u w A) as [_ [He _]]. auto.
    - intros [He [k [A B]]]. split; [|exists k; auto].
      assert (Hu : In u (qS s)).
      { assert (X : In u (qS s ++ qq s)) by (apply (j_dom _ _ _ _ _ HJ); congruence). rewrite Hq, app_nil_r in X. exact X. }
      destruct (j_cover _ _ _ _ _ HJ u w Hu He) as [X|[]]. exact X.
  Qed.

  (* sigma: 1 at the source, elsewhere the sum over the predecessors *)
  Theorem stage_sigma : get 0 (qsig s) src = 1 /\
    forall w, w <> src -> get 0 (qsig s) w == Qsum (map (get 0 (qsig s)) (get [] (qP s) w)).
  Proof.
    destruct (bbfs_J g src Hok Hsrc Hrows s Hs) as [R [HJ Hq]].
    split; [exact (j_sig_src _ _ _ _ _ HJ) | exact (j_sig _ _ _ _ _ HJ)].
  Qed.

  Theorem stage_src : Dn s src = Some O.
  Proof. destruct (bbfs_J g src Hok Hsrc Hrows s Hs) as [R [HJ Hq]]. exact (j_src _ _ _ _ _ HJ). Qed.

  Theorem stage_tight : forall w k, Dn s w = Some (S k) -> exists v, E g v w /\ Dn s v = Some k.
  Proof.
    destruct (bbfs_J g src Hok Hsrc Hrows s Hs) as [R [HJ Hq]]. intros w k Hw.
    assert (Hne : w <> src). { intro X. subst. rewrite (j_src _ _ _ _ _ HJ) in Hw. discriminate. }
    assert (Hin : In w (qS s ++ qq s)) by (apply (j_dom _ _ _ _ _ HJ); congruence).
    destruct (j_tight _ _ _ _ _ HJ w Hin Hne) as [v [kv [A [B [C D]]]]].
    exists v. split; [exact B|]. rewrite Hw in D. inversion D. subst. exact C.
  Qed.

  (* D = hop distances (None = unreachable) *)
  Theorem stage_D : forall w, dist_spec (unit_z g) src w (oget (dvec s) w).
  Proof.
    destruct (bbfs_J g src Hok Hsrc Hrows s Hs) as [R [HJ Hq]].
    apply df_sound.
    - rewrite oget_dvec. rewrite (j_src _ _ _ _ _ HJ). reflexivity.
    - intros v w c dv Hin Hv. apply in_zrow_unit in Hin. destruct Hin as [Ec He]. subst c. split; [lia|].
      rewrite oget_dvec in Hv. destruct (Dn s v) as [k|] eqn:Ek; [|discriminate]. cbn in Hv. inversion Hv. subst dv.
      assert (Hu : In v (qS s)).
      { assert (X : In v (qS s ++ qq s)) by (apply (j_dom _ _ _ _ _ HJ); congruence). rewrite Hq, app_nil_r in X. exact X. }
      destruct (j_cover _ _ _ _ _ HJ v w Hu He) as [X|[]].
      destruct (j_R _ _ _ _ _ HJ v w X) as [_ [_ [ku [kw [A [B C]]]]]].
      rewrite Ek in A. inversion A. subst ku.
      exists (Z.of_nat kw). rewrite oget_dvec, B. split; [reflexivity | lia].
    - intros w dw Hw. rewrite oget_dvec in Hw. destruct (Dn s w) as [k|] eqn:Ek; [|discriminate]. cbn in Hw. inversion Hw. subst dw.
      split; [lia|]. destruct (Nat.eq_dec w src) as [Ew|Ew]; [left; exact Ew|]. right.
      assert (Hin : In w (qS s ++ qq s)) by (apply (j_dom _ _ _ _ _ HJ); congruence).
      destruct (j_tight _ _ _ _ _ HJ w Hin Ew) as [v [kv [A [B [C D]]]]].
      exists v, (Z.of_nat kv), 1%Z. rewrite oget_dvec, C. split; [reflexivity|]. split; [apply in_zrow_unit; auto|].
      rewrite Ek in D. inversion D. lia.
  Qed.

  (* the stack is a valid order for the accumulation: predecessors first *)
  Theorem stage_preds_first : preds_first (qP s) (qS s).
  Proof.
    destruct stage_S as [Hnd [_ [Hsorted _]]].
    intros S1 w S2 ES v Hv. destruct (stage_P w) as [_ Hiff]. apply Hiff in Hv. destruct Hv as [He [k [A B]]].
    assert (Hin : In v (qS s)) by (apply (proj1 (proj2 stage_S)); congruence).
    rewrite ES in Hin. apply in_app_or in Hin. destruct Hin as [Hin|[Hin|Hin]]; [exact Hin | |].
    - subst v. rewrite A in B. inversion B. lia.
    - exfalso. rewrite ES in Hsorted.
      assert (X : (dval s w <= dval s v)%nat).
      { apply (sorted_le (dval s) (S1 ++ [w]) S2); [rewrite <- app_assoc; exact Hsorted | apply in_or_app; right; left; reflexivity | exact Hin]. }
      unfold dval in X. rewrite A, B in X. lia.
  Qed.

  (* hence the accumulation adds, for every node w on the stack other than the source,
     the solution Delta of Brandes' recurrence over the stage's own P and sigma *)
  Theorem stage_accumulate : forall bet, length bet = length g ->
    exists D : list Q,
      length D = length bet /\
      (forall v, get 0 D v == Qsum (map (contrib (qP s) (qsig s) D v) (qS s))) /\
      (forall w, get 0 (accumulate src (qS s) (qP s) (qsig s) bet) w ==
                 get 0 bet w + (if nmem w (qS s) && negb (Nat.eqb w src) then get 0 D w else 0)).
  Proof.
    intros bet Hlen. destruct stage_S as [Hnd [Hdom [_ Hrange]]].
    apply accumulate_recurrence; [exact Hnd | exact stage_preds_first |].
    intros w Hw. destruct (stage_P w) as [HndP Hiff]. split; [exact HndP|]. split.
    - intros u Hu. apply Hiff in Hu. destruct Hu as [_ [k [A _]]]. rewrite Hlen. apply Hrange. apply Hdom. congruence.
    - rewrite Hlen. apply Hrange. exact Hw.
  Qed.
End StageFacts.

(* ------------------------------------------------------------------ the fuel the model passes is never exhausted *)
Section StageFuel.
  Variable g : qadj.
  Variable src : nat.
  Hypothesis Hok : adj_ok (length g) g = true.
  Hypothesis Hsrc : (src < length g)%nat.
  Hypothesis Hrows : forall v, NoDup (map fst (get [] g v)).

  Lemma J_size : forall s R pend, J g src s R pend -> (length (qS s) + length (qq s) <= length g)%nat.
  Proof.
    intros s R pend HJ. rewrite <- app_length. rewrite <- (seq_length (length g) 0).
    apply NoDup_incl_length; [exact (j_nodup _ _ _ _ _ HJ)|].
    intros x Hx. apply in_seq. pose proof (j_range _ _ _ _ _ HJ x Hx). lia.
  Qed.

  Lemma qloop_fuel : forall fuel s R,
    J g src s R [] -> (length g + 1 - length (qS s) <= fuel)%nat -> exists s', qloop fuel g s = Some s'.
  Proof.
    induction fuel as [|f IH]; intros s R HJ Hf.
    - pose proof (J_size _ _ _ HJ). lia.
    - cbn [qloop]. destruct (qq s) as [|v t] eqn:Hq; [eexists; reflexivity|].
      assert (HJ1 : J g src (mkqs (qD s) (qsig s) (qP s) (qS s ++ [v]) t) R (map (fun a => (v, fst a)) (get [] g v)))
        by (eapply J_pop; eauto).
      cbn [qD qsig]. change (get None (qD s) v) with (Dn s v).
      destruct (Dn s v) as [dv|] eqn:Hv.
      + set (s1 := mkqs (qD s) (qsig s) (qP s) (qS s ++ [v]) t) in *.
        assert (Hv1 : Dn s1 v = Some dv) by exact Hv.
        change (get 0 (qsig s) v) with (get 0 (qsig s1) v).
        assert (HR : exists R', J g src (fold_left (qrelax v dv (get 0 (qsig s1) v)) (get [] g v) s1) R' [])
          by (eapply J_row; eauto).
        destruct HR as [R' HJ'].
        apply (IH _ R' HJ').
        (* the stack of the state after the row is that of s1 *)
        assert (HS : forall todo s0, qS (fold_left (qrelax v dv (get 0 (qsig s1) v)) todo s0) = qS s0).
        { induction todo as [|a r IHr]; intros s0; cbn [fold_left]; [reflexivity|]. rewrite IHr.
          unfold qrelax. destruct (get None (qD s0) (fst a)); cbn [qD qS];
            repeat match goal with |- context [match ?x with _ => _ end] => destruct x end; reflexivity. }
        rewrite HS. unfold s1. cbn [qS]. rewrite app_length. cbn [length].
        pose proof (J_size _ _ _ HJ) as Hsz. rewrite Hq in Hsz. cbn [length] in Hsz. lia.
      + exfalso. assert (X : Dn s v <> None).
        { apply (j_dom _ _ _ _ _ HJ). rewrite Hq. apply in_or_app. right. left. reflexivity. }
        congruence.
  Qed.

  Theorem bbfs_total : exists s, bbfs g src = Some s.
  Proof.
    unfold bbfs. apply (qloop_fuel _ _ []); [apply J_init; assumption | cbn [qS length]; lia].
  Qed.
End StageFuel.

(* ------------------------------------------------------------------ the row-shape checker and non-vacuity *)
Lemma nodupb_sound : forall l, nodupb l = true -> NoDup l.
Proof.
  induction l as [|x t IH]; intros H; cbn in H; [constructor|].
  apply andb_true_iff in H. destruct H as [H1 H2]. constructor; [|apply IH; exact H2].
  apply negb_true_iff in H1. apply nmem_false. exact H1.
Qed.

Theorem rows_nodup_sound : forall g, rows_nodup g = true -> forall v, NoDup (map fst (get [] g v)).
Proof.
  intros g H v. unfold rows_nodup in H. rewrite forallb_forall in H. unfold get.
  destruct (Nat.lt_ge_cases v (length g)) as [L|G].
  - apply nodupb_sound. apply H. apply nth_In. exact L.
  - rewrite nth_overflow by exact G. constructor.
Qed.

(* a diamond 0 -> {1,2} -> 3 with a tail 3 -> 4 and an isolated node 5: two shortest 0-3 paths *)
Example ex_g : qadj := [[(1%nat, 1); (2%nat, 1)]; [(3%nat, 1)]; [(3%nat, 1)]; [(4%nat, 1)]; []; []].
Example ex_stage_hyps :
  adj_ok (length ex_g) ex_g = true /\ rows_nodup ex_g = true /\
  exists s, bbfs ex_g 0 = Some s /\ qS s = [0; 1; 2; 3; 4]%nat /\ get 0 (qsig s) 3 == 2.
Proof. split; [reflexivity|]. split; [reflexivity|]. eexists. split; [vm_compute; reflexivity|]. split; reflexivity. Qed.
