(* C05: Brandes' lemma, generically in the shortest-path DAG.  The single-source
   stage is abstracted to what it returns — predecessor lists P, path counts
   sigma (up to a uniform non-zero factor c0: sigma[src] = c0 and sigma[w] =
   sum of sigma over P[w]), a stack S — together with a rank that strictly
   increases along P (the level for hop counts, the integer distance for
   positive integer costs).  From these alone:
     - the sets SPt t of source-t paths generated backwards from P;
     - N t = |SPt t| obeys the stage's recursion, sigma = c0 * N;
     - the number M v t of those paths through v obeys the last-step recursion;
     - the dependency  dlt v = sum over t <> v of M v t / N t  satisfies Brandes'
       recurrence, which has exactly one solution;
     - the recurrence is invariant under the uniform factor c0;
   hence what accumulate_betweenness adds for this source is, for every node v,
   the sum over t of the fraction of the paths of SPt t through v. *)
From Coq Require Import List Bool ZArith Arith QArith Lia Lqa Permutation.
From GV Require Import Model.Cent Model.Brandes Spec.BetweennessDef.
From GV Require Import Proofs.CentBase Proofs.BrandesOk Proofs.BrandesAccOk Proofs.BrandesLemma2.
Import ListNotations.
Open Scope list_scope.

Section Dag.
  Variable n : nat.
  Variable src : nat.
  Variable Pl : list (list nat).
  Variable rk : nat -> option nat.
  Variable Bd : nat.
  Notation P := (fun w => get [] Pl w).
  Notation V := (seq 0 n).

  Hypothesis Hsrc : (src < n)%nat.
  Hypothesis rk_src : rk src <> None.
  Hypothesis P_src : P src = [].
  Hypothesis P_rk : forall w u, In u (P w) -> exists i j, rk u = Some i /\ rk w = Some j /\ (i < j)%nat.
  Hypothesis P_nodup : forall w, NoDup (P w).
  Hypothesis rk_range : forall w k, rk w = Some k -> (w < n)%nat /\ (k < Bd)%nat.
  Hypothesis rk_tight : forall w k, rk w = Some k -> w <> src -> P w <> [].

  Lemma P_none_nil : forall w, rk w = None -> P w = [].
  Proof.
    intros w H. destruct (P w) as [|u r] eqn:E0; [reflexivity|]. exfalso.
    destruct (P_rk w u) as [i [j [_ [X _]]]]; [rewrite E0; left; reflexivity | congruence].
  Qed.

  (* ---------------------------------------------------------------- the path sets generated from P *)
  Fixpoint spd (k : nat) (t : nat) : list (list nat) :=
    match k with
    | O => if Nat.eqb t src then [[src]] else []
    | S k' => if Nat.eqb t src then [[src]] else flat_map (fun u => map (fun p => p ++ [t]) (spd k' u)) (P t)
    end.

  Definition SPt (t : nat) : list (list nat) := match rk t with Some k => spd k t | None => [] end.

  Lemma spd_src : forall k, spd k src = [[src]].
  Proof. intros [|k]; cbn [spd]; rewrite Nat.eqb_refl; reflexivity. Qed.

  Lemma spd_mono : forall k t j k0, (k0 <= k)%nat -> rk t = Some j -> (j <= k0)%nat -> spd k0 t = spd j t.
  Proof.
    induction k as [|k IH]; intros t j k0 Hk Hr Hj.
    - assert (k0 = O) by lia. assert (j = O) by lia. subst. reflexivity.
    - destruct (Nat.eqb t src) eqn:E0; [apply Nat.eqb_eq in E0; subst t; rewrite !spd_src; reflexivity|].
      destruct k0 as [|k0]; [assert (j = O) by lia; subst; reflexivity|].
      destruct j as [|j]; cbn [spd]; rewrite E0.
      + destruct (P t) as [|u r] eqn:EP; [reflexivity|]. exfalso.
        destruct (P_rk t u) as [i [j' [_ [X Y]]]]; [rewrite EP; left; reflexivity|]. rewrite Hr in X. inversion X. lia.
      + apply flat_map_ext_in. intros u Hu. destruct (P_rk t u Hu) as [i [j' [Ru [X Y]]]]. rewrite Hr in X. inversion X. subst j'.
        rewrite (IH u i k0) by (try lia; exact Ru). rewrite (IH u i j) by (try lia; exact Ru). reflexivity.
  Qed.

  Lemma SPt_src : SPt src = [[src]].
  Proof. unfold SPt. destruct (rk src) as [k|] eqn:E0; [apply spd_src | congruence]. Qed.

  Lemma SPt_rec : forall t, t <> src -> SPt t = flat_map (fun u => map (fun p => p ++ [t]) (SPt u)) (P t).
  Proof.
    intros t Hne. unfold SPt at 1. destruct (rk t) as [j|] eqn:Hr.
    - assert (E0 : Nat.eqb t src = false) by (apply Nat.eqb_neq; exact Hne).
      destruct j as [|j]; cbn [spd]; rewrite E0.
      + destruct (P t) as [|u r] eqn:EP; [reflexivity|]. exfalso.
        destruct (P_rk t u) as [i [j' [_ [X Y]]]]; [rewrite EP; left; reflexivity|]. rewrite Hr in X. inversion X. lia.
      + apply flat_map_ext_in. intros u Hu. destruct (P_rk t u Hu) as [i [j' [Ru [X Y]]]]. rewrite Hr in X. inversion X. subst j'.
        unfold SPt. rewrite Ru. rewrite (spd_mono j u i j) by (try lia; exact Ru). reflexivity.
    - rewrite (P_none_nil t Hr). reflexivity.
  Qed.

  Lemma SPt_none : forall t, rk t = None -> SPt t = [].
  Proof. intros t H. unfold SPt. rewrite H. reflexivity. Qed.

  (* shape of the generated paths *)
  Lemma SPt_cases : forall t p, In p (SPt t) ->
    (t = src /\ p = [src]) \/ (t <> src /\ exists u p', In u (P t) /\ In p' (SPt u) /\ p = p' ++ [t]).
  Proof.
    intros t p H. destruct (Nat.eq_dec t src) as [E0|E0].
    - left. subst t. rewrite SPt_src in H. destruct H as [H|[]]. auto.
    - right. split; [exact E0|]. rewrite (SPt_rec t E0) in H. apply in_flat_map in H. destruct H as [u [Hu H]].
      apply in_map_iff in H. destruct H as [p' [Ep Hp']]. exists u, p'. auto.
  Qed.

  Lemma SPt_last_in : forall t p, In p (SPt t) -> In t p.
  Proof.
    intros t p H. destruct (SPt_cases t p H) as [[E0 Ep]|[_ [u [p' [_ [_ Ep]]]]]]; subst.
    - left. reflexivity.
    - apply in_or_app. right. left. reflexivity.
  Qed.

  Lemma SPt_levels : forall k t j p, rk t = Some j -> (j < k)%nat -> In p (SPt t) ->
    forall x, In x p -> exists i, rk x = Some i /\ (i <= j)%nat /\ (i = j -> x = t).
  Proof.
    induction k as [|k IH]; intros t j p Hr Hj Hp x Hx; [lia|].
    destruct (SPt_cases t p Hp) as [[E0 Ep]|[Hne [u [p' [Hu [Hp' Ep]]]]]]; subst p.
    - destruct Hx as [Hx|[]]. subst x t. exists j. auto.
    - destruct (P_rk t u Hu) as [i0 [j' [Ru [X Y]]]]. rewrite Hr in X. inversion X. subst j'.
      apply in_app_or in Hx. destruct Hx as [Hx|[Hx|[]]].
      + destruct (IH u i0 p' Ru ltac:(lia) Hp' x Hx) as [i [A [B C]]]. exists i. split; [exact A|]. split; lia.
      + subst x. exists j. auto.
  Qed.

  Lemma SPt_nonempty : forall k t j, rk t = Some j -> (j < k)%nat -> SPt t <> [].
  Proof.
    induction k as [|k IH]; intros t j Hr Hj; [lia|].
    destruct (Nat.eq_dec t src) as [E0|E0]; [subst; rewrite SPt_src; discriminate|].
    pose proof (rk_tight t j Hr E0) as HP. destruct (P t) as [|u r] eqn:EP; [congruence|].
    assert (Hu : In u (P t)) by (rewrite EP; left; reflexivity).
    destruct (P_rk t u Hu) as [i0 [j' [Ru [X Y]]]]. rewrite Hr in X. inversion X. subst j'.
    pose proof (IH u i0 Ru ltac:(lia)) as Hne. rewrite (SPt_rec t E0). rewrite EP. cbn [flat_map].
    destruct (SPt u) as [|p0 r0]; [congruence|]. discriminate.
  Qed.

  (* ---------------------------------------------------------------- path counts *)
  Definition Nn (t : nat) : Q := qn (length (SPt t)).
  Definition Mm (v t : nat) : Q := qn (cnt_through v (SPt t)).

  Lemma N_src : Nn src == 1.
  Proof. unfold Nn. rewrite SPt_src. reflexivity. Qed.

  Lemma N_rec : forall t, t <> src -> Nn t == Qsum (map Nn (P t)).
  Proof.
    intros t Hne. unfold Nn at 1. rewrite (SPt_rec t Hne). rewrite qn_length_flat_map.
    apply Qsum_map_ext. intros u _. rewrite map_length. reflexivity.
  Qed.

  Lemma N_none : forall t, rk t = None -> Nn t = 0.
  Proof. intros t H. unfold Nn. rewrite (SPt_none t H). reflexivity. Qed.

  Lemma N_pos : forall t k, rk t = Some k -> ~ Nn t == 0.
  Proof.
    intros t k Hr X. pose proof (SPt_nonempty (S k) t k Hr ltac:(lia)) as Hne. unfold Nn in X.
    destruct (SPt t) as [|p r]; [congruence|]. cbn [length] in X. unfold qn in X.
    change 0 with (inject_Z 0) in X. rewrite inject_Z_injective in X. lia.
  Qed.

  Lemma M_src : forall v, Mm v src = if Nat.eqb v src then 1 else 0.
  Proof.
    intros v. unfold Mm. rewrite SPt_src. unfold cnt_through. cbn [filter nmem existsb]. destruct (Nat.eqb v src); reflexivity.
  Qed.

  Lemma M_none : forall v t, rk t = None -> Mm v t = 0.
  Proof. intros v t H. unfold Mm. rewrite (SPt_none t H). reflexivity. Qed.

  Lemma M_rec : forall v t, t <> src -> Mm v t == if Nat.eqb v t then Nn t else Qsum (map (Mm v) (P t)).
  Proof.
    intros v t Hne. unfold Mm at 1. rewrite (SPt_rec t Hne). rewrite cnt_through_flat_map.
    destruct (Nat.eqb v t) eqn:E0.
    - unfold Nn. rewrite (SPt_rec t Hne). rewrite qn_length_flat_map. apply Qsum_map_ext. intros u _.
      rewrite cnt_through_snoc, E0, map_length. reflexivity.
    - apply Qsum_map_ext. intros u _. rewrite cnt_through_snoc, E0. reflexivity.
  Qed.

  (* a node of the same or a higher rank than t, other than t itself, lies on no path to t *)
  Lemma M_zero : forall w u, w <> u ->
    (forall i j, rk w = Some i -> rk u = Some j -> (j <= i)%nat) -> Mm w u = 0.
  Proof.
    intros w u Hne Hlev. unfold Mm. destruct (rk u) as [j|] eqn:Ru; [|rewrite (SPt_none u Ru); reflexivity].
    unfold cnt_through.
    replace (filter (fun p => nmem w p) (SPt u)) with (@nil (list nat)); [reflexivity|].
    symmetry. apply filter_none.
    intros p Hp. apply nmem_false. intro Hw.
    destruct (SPt_levels (S j) u j p Ru ltac:(lia) Hp w Hw) as [i [Rw [Hle Heq]]].
    pose proof (Hlev i j Rw eq_refl). apply Hne. apply Heq. lia.
  Qed.

  Lemma M_self : forall v, Mm v v == Nn v.
  Proof.
    intros v. unfold Mm, Nn. unfold cnt_through.
    replace (filter (fun p => nmem v p) (SPt v)) with (SPt v); [reflexivity|].
    symmetry. apply filter_all. intros p Hp. apply nmem_In. apply SPt_last_in. exact Hp.
  Qed.

  Lemma M_pred_zero : forall v w, In v (P w) -> Mm w v = 0.
  Proof.
    intros v w H. destruct (P_rk w v H) as [i [j [Rv [Rw Hlt]]]].
    apply M_zero; [intro X; subst w; rewrite Rv in Rw; inversion Rw; lia|].
    intros i' j' Hi Hj. rewrite Rw in Hi. rewrite Rv in Hj. inversion Hi; inversion Hj. lia.
  Qed.

  (* one uniform step equation *)
  Lemma M_step : forall w t,
    Mm w t == (if Nat.eqb w t then Nn t else 0) + Qsum (map (Mm w) (P t)).
  Proof.
    intros w t. destruct (Nat.eq_dec t src) as [Et|Et].
    - subst t. rewrite M_src, P_src. cbn [map]. rewrite Qsum_nil. destruct (Nat.eqb w src); [rewrite N_src|]; ring.
    - rewrite (M_rec w t Et). destruct (Nat.eqb w t) eqn:E0.
      + apply Nat.eqb_eq in E0. subst w. rewrite Qsum_zero; [ring|].
        intros u Hu. rewrite (M_pred_zero u t Hu). reflexivity.
      + ring.
  Qed.

  (* ---------------------------------------------------------------- decomposition by the successor of v *)
  Definition cf (v w : nat) : Q := if nmem v (P w) then Nn v / Nn w else 0.

  Lemma cf_M_self_zero : forall v, Qsum (map (fun w => cf v w * Mm w v) V) == 0.
  Proof.
    intros v. apply Qsum_zero. intros w _. unfold cf. destruct (nmem v (P w)) eqn:E0; [|ring].
    apply nmem_In in E0. rewrite (M_pred_zero v w E0). ring.
  Qed.

  Lemma cf_N : forall v t k, rk t = Some k -> cf v t * Nn t == if nmem v (P t) then Nn v else 0.
  Proof.
    intros v t k Hr. unfold cf. destruct (nmem v (P t)); [|ring]. field. eapply N_pos; eauto.
  Qed.

  Theorem diamond : forall k t v j, rk t = Some j -> (j < k)%nat -> t <> v ->
    Mm v t == Qsum (map (fun w => cf v w * Mm w t) V).
  Proof.
    induction k as [|k IH]; intros t v j Hr Hj Hne; [lia|].
    destruct (Nat.eq_dec t src) as [Et|Et].
    - subst t. rewrite M_src.
      replace (Nat.eqb v src) with false by (symmetry; apply Nat.eqb_neq; congruence).
      symmetry. apply Qsum_zero. intros w _. rewrite M_src. unfold cf. destruct (Nat.eqb w src) eqn:E0; [|ring].
      apply Nat.eqb_eq in E0. subst w. rewrite P_src. cbn. ring.
    - assert (Htn : (t < n)%nat) by (apply (rk_range t j Hr)).
      (* left-hand side *)
      rewrite (M_step v t). replace (Nat.eqb v t) with false by (symmetry; apply Nat.eqb_neq; congruence).
      rewrite (Qsum_map_ext _ (Mm v) (fun u => (if Nat.eqb u v then Nn v else 0) + Qsum (map (fun w => cf v w * Mm w u) V)) (P t)).
      2:{ intros u Hu. destruct (Nat.eqb u v) eqn:E0.
          - apply Nat.eqb_eq in E0. subst u. rewrite cf_M_self_zero. rewrite M_self. ring.
          - apply Nat.eqb_neq in E0. destruct (P_rk t u Hu) as [i0 [j' [Ru [X Y]]]]. rewrite Hr in X. inversion X. subst j'.
            rewrite <- (IH u v i0 Ru ltac:(lia) E0). ring. }
      rewrite Qsum_plus. rewrite Qsum_indicator by apply P_nodup.
      (* right-hand side *)
      rewrite (Qsum_map_ext _ (fun w => cf v w * Mm w t)
                 (fun w => (if Nat.eqb w t then cf v t * Nn t else 0) + Qsum (map (fun u => cf v w * Mm w u) (P t))) V).
      2:{ intros w _. rewrite (M_step w t). rewrite Qsum_scal. destruct (Nat.eqb w t) eqn:E0.
          - apply Nat.eqb_eq in E0. subst w. ring.
          - ring. }
      rewrite Qsum_plus. rewrite (Qsum_indicator_seq _ t n Htn). rewrite (cf_N v t j Hr).
      rewrite (Qsum_exchange _ _ (fun w u => cf v w * Mm w u) V (P t)). ring.
  Qed.

  Lemma diamond_all : forall t v, t <> v -> Mm v t == Qsum (map (fun w => cf v w * Mm w t) V).
  Proof.
    intros t v Hne. destruct (rk t) as [k|] eqn:Hr; [apply (diamond (S k) t v k Hr); [lia | exact Hne]|].
    rewrite (M_none v t Hr). symmetry. apply Qsum_zero. intros w _. rewrite (M_none w t Hr). ring.
  Qed.

  (* ---------------------------------------------------------------- the dependency and its recurrence *)
  Definition rho (v t : nat) : Q := Mm v t / Nn t.
  Definition dlt (v : nat) : Q := Qsum (map (fun t => if Nat.eqb t v then 0 else rho v t) V).
  Definition rec_rhsN (X : nat -> Q) (v : nat) : Q :=
    Qsum (map (fun w => if nmem v (P w) then Nn v * ((1 + X w) / Nn w) else 0) V).

  Lemma shift_sum : forall v w, In v (P w) ->
    Qsum (map (fun t => if Nat.eqb t v then 0 else rho w t) V) == 1 + dlt w.
  Proof.
    intros v w Hin. destruct (P_rk w v Hin) as [i [j [Rv [Rw Hlt]]]].
    assert (Hvw : v <> w) by (intro X; subst; rewrite Rv in Rw; inversion Rw; lia).
    assert (Hwn : (w < n)%nat) by (apply (rk_range w j Rw)).
    unfold dlt. rewrite <- (Qsum_indicator_seq 1 w n Hwn). rewrite <- Qsum_plus.
    apply Qsum_map_ext. intros t _. destruct (Nat.eqb t v) eqn:E1.
    - apply Nat.eqb_eq in E1. subst t. replace (Nat.eqb v w) with false by (symmetry; apply Nat.eqb_neq; exact Hvw).
      unfold rho. rewrite (M_pred_zero v w Hin). unfold Qdiv. ring.
    - destruct (Nat.eqb t w) eqn:E2.
      + apply Nat.eqb_eq in E2. subst t. unfold rho. rewrite M_self. field. eapply N_pos; eauto.
      + ring.
  Qed.

  Theorem dlt_rec : forall v, dlt v == rec_rhsN dlt v.
  Proof.
    intros v. unfold dlt at 1.
    rewrite (Qsum_map_ext _ _ (fun t => Qsum (map (fun w => cf v w * (if Nat.eqb t v then 0 else rho w t)) V)) V).
    2:{ intros t _. destruct (Nat.eqb t v) eqn:E0.
        - symmetry. apply Qsum_zero. intros w _. ring.
        - apply Nat.eqb_neq in E0. unfold rho at 1. rewrite (diamond_all t v E0).
          unfold Qdiv. rewrite Qmult_comm. rewrite <- Qsum_scal. apply Qsum_map_ext. intros w _. unfold rho, Qdiv. ring. }
    rewrite (Qsum_exchange _ _ (fun t w => cf v w * (if Nat.eqb t v then 0 else rho w t)) V V).
    unfold rec_rhsN. apply Qsum_map_ext. intros w _. rewrite Qsum_scal. unfold cf.
    destruct (nmem v (P w)) eqn:E0; [|ring]. apply nmem_In in E0. rewrite (shift_sum v w E0). unfold Qdiv. ring.
  Qed.

  (* ---------------------------------------------------------------- the recurrence has one solution *)
  Lemma rec_rhsN_ext : forall X Y v, (forall w, In v (P w) -> X w == Y w) -> rec_rhsN X v == rec_rhsN Y v.
  Proof.
    intros X Y v H. unfold rec_rhsN. apply Qsum_map_ext. intros w _.
    destruct (nmem v (P w)) eqn:E0; [|reflexivity]. apply nmem_In in E0. rewrite (H w E0). reflexivity.
  Qed.

  Theorem rec_unique : forall X Y : nat -> Q,
    (forall v, X v == rec_rhsN X v) -> (forall v, Y v == rec_rhsN Y v) -> forall v, X v == Y v.
  Proof.
    intros X Y HX HY.
    assert (G : forall j v k, rk v = Some k -> (Bd - k <= j)%nat -> X v == Y v).
    { induction j as [|j IH]; intros v k Rv Hj.
      - pose proof (rk_range v k Rv). lia.
      - rewrite (HX v), (HY v). apply rec_rhsN_ext. intros w Hw. destruct (P_rk w v Hw) as [i [j' [Rv' [Rw Hlt]]]].
        rewrite Rv in Rv'. inversion Rv'. subst i. apply (IH w j' Rw). lia. }
    intros v. destruct (rk v) as [k|] eqn:Rv; [apply (G (Bd - k)%nat v k Rv); lia|].
    rewrite (HX v), (HY v). apply rec_rhsN_ext. intros w Hw. destruct (P_rk w v Hw) as [i [j' [Rv' _]]]. congruence.
  Qed.

  (* ---------------------------------------------------------------- sigma = c0 * N; the recurrence does not see c0 *)
  Variable sigl : list Q.
  Variable c0 : Q.
  Notation sg := (fun w => get 0 sigl w).
  Hypothesis c0_nz : ~ c0 == 0.
  Hypothesis sg_src : sg src == c0.
  Hypothesis sg_rec : forall w, w <> src -> sg w == Qsum (map sg (P w)).

  Lemma sigma_N_reach : forall k t j, rk t = Some j -> (j < k)%nat -> sg t == c0 * Nn t.
  Proof.
    induction k as [|k IH]; intros t j Hr Hj; [lia|].
    destruct (Nat.eq_dec t src) as [Et|Et]; [subst; rewrite sg_src, N_src; ring|].
    rewrite (sg_rec t Et), (N_rec t Et). rewrite <- Qsum_scal. apply Qsum_map_ext. intros u Hu.
    destruct (P_rk t u Hu) as [i0 [j' [Ru [X Y]]]]. rewrite Hr in X. inversion X. subst j'.
    apply (IH u i0 Ru). lia.
  Qed.

  Theorem sigma_N : forall t, sg t == c0 * Nn t.
  Proof.
    intros t. destruct (rk t) as [j|] eqn:Hr; [apply (sigma_N_reach (S j) t j Hr); lia|].
    assert (Et : t <> src) by (intro X; subst; congruence).
    rewrite (sg_rec t Et), (P_none_nil t Hr), (N_none t Hr). cbn [map]. rewrite Qsum_nil. ring.
  Qed.

  Definition rec_rhs (X : nat -> Q) (v : nat) : Q :=
    Qsum (map (fun w => if nmem v (P w) then sg v * ((1 + X w) / sg w) else 0) V).

  (* invariance of Brandes' recurrence under the uniform factor *)
  Theorem rec_rhs_factor : forall X v, rec_rhs X v == rec_rhsN X v.
  Proof.
    intros X v. unfold rec_rhs, rec_rhsN. apply Qsum_map_ext. intros w _.
    destruct (nmem v (P w)) eqn:E0; [|reflexivity]. apply nmem_In in E0.
    destruct (P_rk w v E0) as [i [j [_ [Rw _]]]].
    rewrite (sigma_N v), (sigma_N w). field. split; [eapply N_pos; eauto | exact c0_nz].
  Qed.

  (* ---------------------------------------------------------------- what one source adds *)
  Variable St : list nat.
  Hypothesis St_nodup : NoDup St.
  Hypothesis St_dom : forall w, In w St <-> rk w <> None.
  Hypothesis St_pf : preds_first Pl St.

  Lemma pair_dep_rho : forall t v, pair_dep (SPt t) v == rho v t.
  Proof.
    intros t v. unfold pair_dep, rho, Mm, Nn. destruct (SPt t) as [|p r] eqn:Es.
    - change (qn (cnt_through v [])) with 0. unfold Qdiv. ring.
    - rewrite Qred_correct. reflexivity.
  Qed.

  Lemma M_unreach : forall v t, rk v = None -> Mm v t = 0.
  Proof.
    intros v t Rv. destruct (Nat.eq_dec v t) as [E0|E0]; [subst; apply M_none; exact Rv|].
    apply M_zero; [exact E0|]. intros i j Hi. congruence.
  Qed.

  Definition dag_term (v t : nat) : Q := if excluded src t v then 0 else pair_dep (SPt t) v.

  Lemma dag_sum_dlt : forall v, v <> src -> Qsum (map (dag_term v) V) == dlt v.
  Proof.
    intros v Hne. unfold dlt. apply Qsum_map_ext. intros t _. unfold dag_term, excluded.
    replace (Nat.eqb src v) with false by (symmetry; apply Nat.eqb_neq; congruence). cbn [orb].
    destruct (Nat.eqb t v) eqn:E1; cbn [orb]; [reflexivity|].
    destruct (Nat.eqb src t) eqn:E2.
    - apply Nat.eqb_eq in E2. subst t. unfold rho. rewrite M_src.
      replace (Nat.eqb v src) with false by (symmetry; apply Nat.eqb_neq; exact Hne). unfold Qdiv. ring.
    - apply pair_dep_rho.
  Qed.

  Lemma dag_sum_src : Qsum (map (dag_term src) V) == 0.
  Proof. apply Qsum_zero. intros t _. unfold dag_term, excluded. rewrite Nat.eqb_refl. reflexivity. Qed.

  Theorem dag_source_contribution : forall bet, length bet = n -> forall v,
    get 0 (accumulate src St Pl sigl bet) v == get 0 bet v + Qsum (map (dag_term v) V).
  Proof.
    intros bet Hlen v.
    assert (HrS : forall w, In w St -> (w < n)%nat).
    { intros w Hw. apply St_dom in Hw. destruct (rk w) as [k|] eqn:Rw; [|congruence]. apply (rk_range w k Rw). }
    destruct (accumulate_recurrence src St Pl sigl bet St_nodup St_pf) as [Dl [HlD [Hrec Hacc]]].
    { intros w Hw. split; [apply P_nodup|]. split; [|rewrite Hlen; apply HrS; exact Hw].
      intros u Hu. rewrite Hlen. destruct (P_rk w u Hu) as [i [j [Ru _]]]. apply (rk_range u i Ru). }
    assert (HDl : forall x, get 0 Dl x == rec_rhsN (get 0 Dl) x).
    { intros x. rewrite <- rec_rhs_factor. rewrite (Hrec x). rewrite (Qsum_sublist _ St n St_nodup HrS). unfold rec_rhs.
      apply Qsum_map_ext. intros w _. unfold contrib. destruct (nmem w St) eqn:E0; [reflexivity|].
      apply nmem_false in E0. assert (Rw : rk w = None).
      { destruct (rk w) eqn:X; [|reflexivity]. exfalso. apply E0. apply St_dom. congruence. }
      rewrite (P_none_nil w Rw). reflexivity. }
    pose proof (rec_unique (get 0 Dl) dlt HDl dlt_rec) as Heq.
    rewrite (Hacc v). apply Qplus_comp; [reflexivity|].
    destruct (Nat.eqb v src) eqn:E1.
    - apply Nat.eqb_eq in E1. subst v. rewrite andb_false_r. rewrite dag_sum_src. reflexivity.
    - apply Nat.eqb_neq in E1. rewrite (dag_sum_dlt v E1). cbn [negb]. rewrite andb_true_r.
      destruct (nmem v St) eqn:E2; [apply Heq|].
      apply nmem_false in E2. assert (Rv : rk v = None).
      { destruct (rk v) eqn:X; [|reflexivity]. exfalso. apply E2. apply St_dom. congruence. }
      unfold dlt. symmetry. apply Qsum_zero. intros t _. destruct (Nat.eqb t v); [reflexivity|].
      unfold rho. rewrite (M_unreach v t Rv). unfold Qdiv. ring.
  Qed.
End Dag.
