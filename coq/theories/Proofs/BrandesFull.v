(* C05, hop-count mode, for every graph: the vector computed by the model's
   betweenness (BFS stage + accumulation over all sources + rescaling) equals
   the definition [bc_def] (ordered-pair sums over the brute-force shortest-path
   enumeration, scaled by the rules of the property). *)
From Coq Require Import List Bool ZArith Arith QArith Lia Lqa.
From GV Require Import Base.Outcome Model.GState Model.Query Model.Cent Model.Brandes Spec.BetweennessDef.
From GV Require Import Proofs.CentBase Proofs.BrandesOk Proofs.BrandesAccOk Proofs.ClosenessBfsOk.
From GV Require Import Proofs.BrandesBfsOk Proofs.PathsOk Proofs.BrandesLemma Proofs.BrandesLemma2.
Import ListNotations.
Open Scope list_scope.

Lemma bc_scale_comp : forall n nz dir x y, x == y -> bc_scale n nz dir x == bc_scale n nz dir y.
Proof.
  intros n nz dir x y H. unfold bc_scale. destruct nz; [destruct (Nat.leb n 2)|destruct dir]; rewrite H; reflexivity.
Qed.

Lemma Forall2_Qeq_trans : forall a b c, Forall2 Qeq a b -> Forall2 Qeq b c -> Forall2 Qeq a c.
Proof.
  intros a b c H. revert c. induction H as [|x y a b Hxy Hab IH]; intros c Hbc; inversion Hbc; subst; constructor.
  - rewrite Hxy. assumption.
  - apply IH. assumption.
Qed.

Lemma Forall2_map_seq : forall (h f : Q -> Q) (F : nat -> Q) (l : list Q) k,
  (forall x y, x == y -> h x == h y) ->
  (forall i, (i < length l)%nat -> nth i l 0 == F (k + i)%nat) ->
  Forall2 Qeq (map h l) (map (fun v => h (F v)) (seq k (length l))).
Proof.
  intros h f F. induction l as [|x t IH]; intros k Hh H; cbn [map length seq]; constructor.
  - apply Hh. rewrite <- (Nat.add_0_r k). apply (H O). cbn. lia.
  - apply IH; [exact Hh|]. intros i Hi. replace (S k + i)%nat with (k + S i)%nat by lia. apply (H (S i)). cbn. lia.
Qed.

Section Total.
  Variable g : qadj.
  Notation n := (length g).
  Hypothesis Hok : adj_ok n g = true.
  Hypothesis Hrows : forall v, NoDup (map fst (get [] g v)).
  Hypothesis Hunit : forall v a, In a (get [] g v) -> snd a = 1.
  Variable lw : bool.
  Notation V := (seq 0 n).

  Lemma fold_sources : forall l bet0 bet,
    (forall x, In x l -> (x < n)%nat) -> length bet0 = n ->
    fold_left (fun ob src =>
                 match ob with
                 | None => None
                 | Some b => match single_source lw false g src with
                             | Some r => Some (accumulate_r b r)
                             | None => None
                             end
                 end) l (Some bet0) = Some bet ->
    length bet = n /\
    forall v, get 0 bet v == get 0 bet0 v + Qsum (map (fun s => Qsum (map (fun t => pair_term g v s t) V)) l).
  Proof.
    induction l as [|src t IH]; intros bet0 bet Hr Hlen H; cbn [fold_left] in H.
    - inversion H. subst. split; [exact Hlen|]. intro v. cbn [map]. rewrite Qsum_nil. ring.
    - cbv beta in H. destruct (single_source lw false g src) as [r|] eqn:Er.
      + unfold single_source in Er. destruct (bbfs g src) as [s|] eqn:Es; [|discriminate].
        inversion Er. subst r. clear Er. unfold accumulate_r in H at 1. cbn [rsrc rS rP rsig] in H.
        assert (Hs : (src < n)%nat) by (apply Hr; left; reflexivity).
        destruct (IH _ _ (fun x Hx => Hr x (or_intror Hx)) ltac:(rewrite accumulate_length; exact Hlen) H) as [HL HV].
        split; [exact HL|]. intro v. rewrite (HV v).
        rewrite (source_contribution g src Hok Hs Hrows Hunit s Es bet0 Hlen v).
        cbn [map]. rewrite Qsum_cons. ring.
      + rewrite serial_none in H. discriminate.
  Qed.

  Theorem bc_serial_raw : forall bet, bc_serial lw false g = Some bet ->
    length bet = n /\ forall v, get 0 bet v == bc_raw g v.
  Proof.
    intros bet H. unfold bc_serial in H.
    destruct (fold_sources V (repeat 0 n) bet) as [HL HV]; [intros x Hx; apply in_seq in Hx; lia | apply repeat_length | exact H|].
    split; [exact HL|]. intro v. rewrite (HV v).
    assert (Hz : get 0 (repeat 0 n) v = 0).
    { unfold get. destruct (nth_in_or_default v (repeat 0 n) 0) as [Hi|Hi]; [apply repeat_spec in Hi; exact Hi | exact Hi]. }
    rewrite Hz. unfold bc_raw. ring.
  Qed.

  Theorem brandes_hop_count : forall bet normalized directed,
    bc_core lw false g = Some bet ->
    Forall2 Qeq (rescale bet n normalized directed) (bc_def g normalized directed).
  Proof.
    intros bet normalized directed H.
    assert (Hser : bc_serial lw false g = Some bet).
    { unfold bc_core in H. destruct (Nat.ltb PAR_THRESHOLD n); [rewrite parallel_eq_serial in H|]; exact H. }
    destruct (bc_serial_raw bet Hser) as [HL HV].
    eapply Forall2_Qeq_trans; [apply rescale_is_bc_scale|].
    unfold bc_def. rewrite <- HL at 2.
    apply (Forall2_map_seq (bc_scale n normalized directed) (fun x => x) (bc_raw g) bet 0).
    - intros x y Hxy. apply bc_scale_comp. exact Hxy.
    - intros i _. cbn [plus]. apply (HV i).
  Qed.
End Total.

(* ------------------------------------------------------------------ at the level of the graph state *)
Lemma conv_row_false_unit : forall r r', conv_row false r = Some r' -> forall e, In e r' -> snd e = 1.
Proof.
  induction r as [|a t IH]; intros r' H e He; cbn in H.
  - inversion H. subst. destruct He.
  - destruct (conv_row false t) as [t'|]; [|discriminate]. inversion H. subst. destruct He as [He|He].
    + subst e. reflexivity.
    + eapply IH; eauto.
Qed.

Lemma conv_adj_false_unit : forall sv a, conv_adj false sv = Some a -> forall v e, In e (get [] a v) -> snd e = 1.
Proof.
  induction sv as [|r t IH]; intros a H v e He; cbn in H.
  - inversion H. subst. unfold get in He. destruct v; destruct He.
  - destruct (conv_row false r) as [r'|] eqn:Er; [|discriminate].
    destruct (conv_adj false t) as [t'|] eqn:Et; [|discriminate]. inversion H. subst.
    unfold get in He. destruct v as [|v]; cbn [nth] in He.
    + eapply conv_row_false_unit; eauto.
    + eapply (IH t' eq_refl v). exact He.
Qed.

Section Model.
  Context {T A : Type}.

  Lemma omapM_snd : forall (g : gstate T A) site (l : list (nat * Q)) m,
    omapM (fun iv => match get_node_by_index g (fst iv) with
                     | Some nd => Ok (nname nd, snd iv)
                     | None => Panic site
                     end) l = Ok m -> map snd m = map snd l.
  Proof.
    intros g site. induction l as [|iv t IH]; intros m H; cbn in H.
    - inversion H. reflexivity.
    - destruct (get_node_by_index g (fst iv)); cbn in H; [|discriminate].
      destruct (omapM _ t) as [r| | |] eqn:Er; cbn in H; try discriminate. inversion H. subst. cbn. f_equal. apply IH. reflexivity.
  Qed.

  Lemma name_values_snd : forall site (g : gstate T A) vals m, name_values site g vals = Ok m -> map snd m = vals.
  Proof.
    intros site g vals m H. unfold name_values in H. apply omapM_snd in H. rewrite H.
    clear H. generalize 0%nat. induction vals as [|x t IH]; intros k; cbn; [reflexivity|]. f_equal. apply IH.
  Qed.

  (* hop-count betweenness of the model = the definition on the adjacency it reads *)
  Theorem model_hop_count : forall lw (gs : gstate T A) normalized m,
    betweenness_centrality lw gs false normalized = Ok m ->
    exists a, conv_adj false (successors_vec gs) = Some a /\
      (rows_nodup a = true ->
       Forall2 Qeq (map snd m) (bc_def a normalized (directed (sp gs)))).
  Proof.
    intros lw gs normalized m H. unfold betweenness_centrality in H.
    destruct (conv_adj false (successors_vec gs)) as [a|] eqn:Ea; [|discriminate].
    exists a. split; [reflexivity|]. intro Hrn.
    destruct (adj_ok (number_of_nodes gs) a) eqn:Hok; cbn [negb] in H; [|discriminate].
    destruct (bc_core lw false a) as [bet|] eqn:Hb; [|discriminate].
    apply name_values_snd in H. rewrite H.
    assert (Hn : number_of_nodes gs = length a).
    { unfold adj_ok in Hok. apply andb_true_iff in Hok. destruct Hok as [Hl _]. apply Nat.eqb_eq in Hl. lia. }
    unfold get_all_nodes. change (length (nodes_vec gs)) with (number_of_nodes gs). rewrite Hn.
    apply brandes_hop_count with (lw := lw); auto.
    - rewrite <- Hn. exact Hok.
    - apply rows_nodup_sound. exact Hrn.
    - eapply conv_adj_false_unit. exact Ea.
  Qed.
End Model.

(* ------------------------------------------------------------------ non-vacuity of the hypotheses *)
Example ex_full_hyps :
  adj_ok (length ex_g) ex_g = true /\ rows_nodup ex_g = true /\
  (forall v a, In a (get [] ex_g v) -> snd a = 1) /\
  exists bet, bc_core false false ex_g = Some bet /\ get 0 bet 1%nat == 1.
Proof.
  split; [reflexivity|]. split; [reflexivity|]. split.
  - intros v a H. unfold ex_g, get in H.
    do 6 (destruct v as [|v]; [cbn in H; repeat (destruct H as [H|H]; [subst a; reflexivity|]); destruct H|]).
    cbn in H. destruct v; destruct H.
  - eexists. split; [vm_compute; reflexivity | reflexivity].
Qed.
