(* C05, weighted mode: the sigma / P / S part of the single-source stage
   `dijkstra` of betweenness.rs:138-192, by loop invariant on top of the
   distance invariant K of Proofs/DijkstraOk.v — for every adjacency with
   positive integer costs that lists a neighbour at most once per row, every
   source and EVERY tie choice of the BinaryHeap:
     S      = the reachable nodes, each once, in non-decreasing distance;
     P[w]   = the nodes u with an edge u->w and d(u) + cost(u,w) = d(w), each once;
     sigma  : sigma[src] = 2 (set to 1, then `sigma[v] += sigma[pred]` at the
              pop of the source's own entry, whose pred is the source), and
              sigma[w] = sum of sigma over P[w] elsewhere
              (tentative entries: reset to 0 and P[w] := [v] on a strict
              improvement, the discoverer's share being added only at the pop
              through the `pred` field of the heap entry; `+= sigma[v]` and
              P[w].push(v) on a tie). *)
From Coq Require Import List Bool ZArith Arith QArith Lia Lqa.
From GV Require Import Base.Outcome Model.GState Model.Cent Model.Brandes Spec.BetweennessDef Spec.ClosenessDef.
From GV Require Import Proofs.CentBase Proofs.BrandesOk Proofs.BrandesAccOk Proofs.ClosenessOk Proofs.ClosenessBfsOk.
From GV Require Import Proofs.BrandesBfsOk Proofs.DijkstraOk.
Import ListNotations.
Open Scope list_scope.

(* ------------------------------------------------------------------ sortedness for an integer key *)
Fixpoint sorted_z (f : nat -> Z) (l : list nat) : Prop :=
  match l with
  | [] => True
  | x :: t => (forall y, In y t -> (f x <= f y)%Z) /\ sorted_z f t
  end.

Lemma sorted_z_app_one : forall f l y, sorted_z f l -> (forall x, In x l -> (f x <= f y)%Z) -> sorted_z f (l ++ [y]).
Proof.
  induction l as [|x t IH]; intros y Hs Hle; cbn; [split; [intros ? []|exact I]|].
  destruct Hs as [H1 H2]. split.
  - intros z Hz. apply in_app_or in Hz. destruct Hz as [Hz|[Hz|[]]]; [apply H1; exact Hz | subst; apply Hle; left; reflexivity].
  - apply IH; [exact H2|]. intros z Hz. apply Hle. right. exact Hz.
Qed.

Lemma sorted_z_ext : forall f f' l, (forall x, In x l -> f x = f' x) -> sorted_z f l -> sorted_z f' l.
Proof.
  induction l as [|x t IH]; intros He Hs; cbn; [exact I|]. destruct Hs as [H1 H2]. split.
  - intros y Hy. rewrite <- (He x) by (left; reflexivity). rewrite <- (He y) by (right; exact Hy). apply H1. exact Hy.
  - apply IH; [|exact H2]. intros z Hz. apply He. right. exact Hz.
Qed.

Lemma sorted_z_le : forall f l1 l2 x y, sorted_z f (l1 ++ l2) -> In x l1 -> In y l2 -> (f x <= f y)%Z.
Proof.
  induction l1 as [|a t IH]; intros l2 x y Hs Hx Hy; [destruct Hx|].
  cbn in Hs. destruct Hs as [H1 H2]. destruct Hx as [Hx|Hx].
  - subst. apply H1. apply in_or_app. right. exact Hy.
  - eapply IH; eauto.
Qed.

Lemma snoc_split : forall (X : Type) (S S1 S2 : list X) (v w : X),
  S ++ [v] = S1 ++ w :: S2 ->
  (S2 = [] /\ S1 = S /\ w = v) \/ (exists S2', S2 = S2' ++ [v] /\ S = S1 ++ w :: S2').
Proof.
  intros X S S1 S2 v w H. destruct S2 as [|a S2t].
  - left. apply app_inj_tail in H. destruct H. subst. auto.
  - right. destruct (@exists_last _ (a :: S2t) ltac:(discriminate)) as [S2' [y E0]]. rewrite E0 in *.
    exists S2'. rewrite app_comm_cons, app_assoc in H. apply app_inj_tail in H. destruct H. subst. auto.
Qed.

Section HeapStage.
  Variable g : qadj.
  Variable src : nat.
  Notation n := (length g).
  Hypothesis Hok : adj_ok n g = true.
  Hypothesis Hsrc : (src < n)%nat.
  Hypothesis Hcost : forall v e, In e (get [] g v) -> exists c, snd e = inject_Z c /\ (0 < c)%Z.
  Hypothesis Hrows : forall v, NoDup (map fst (get [] g v)).

  Notation KK := (K g src).

  Definition SG (s : bs) (w : nat) : Q := get 0 (bsig s) w.
  Definition PP (s : bs) (w : nat) : list nat := get [] (bP s) w.
  Definition sgsum (s : bs) (l : list nat) : Q := Qsum (map (get 0 (bsig s)) l).
  Definition dzv (s : bs) (w : nat) : Z := match DD s w with Some q => Qnum q | None => 0%Z end.
  Definition tgt (t : nat * nat * Z) : nat := snd (fst t).

  Record L (s : bs) (R pending : list (nat * nat * Z)) : Prop := mkL {
    l_len : length (bsig s) = n /\ length (bP s) = n;
    l_S_nodup : NoDup (bS s);
    l_S_dom : forall w, In w (bS s) <-> DD s w <> None;
    l_S_sorted : sorted_z (dzv s) (bS s);
    l_R_src : forall v w c, In (v, w, c) R -> In v (bS s);
    l_R_edge : forall v w c, In (v, w, c) R -> In (w, inject_Z c) (get [] g v);
    l_pend : NoDup (map tgt pending) /\
             forall v w c, In (v, w, c) pending -> (exists S', bS s = S' ++ [v]) /\ forall c', ~ In (v, w, c') R;
    l_P : forall w, NoDup (PP s w) /\
          forall u, In u (PP s w) <->
            exists c du x, In (u, w, c) R /\ DD s u = Some (inject_Z du) /\ SE s w = Some (inject_Z x) /\ (du + c = x)%Z;
    l_pf : preds_first (bP s) (bS s);
    l_fr_src : forall d p, In (d, p, src) (bfr s) -> p = src;
    l_hd : forall d p w, In (d, p, w) (bfr s) -> w <> src -> DD s w = None -> SE s w = Some d ->
           exists rest, PP s w = p :: rest;
    l_sig_src : SG s src == (match DD s src with None => 1 | Some _ => 2 end);
    l_sig_fin : forall w, DD s w <> None -> w <> src -> SG s w == sgsum s (PP s w);
    l_sig_open : forall w, DD s w = None -> w <> src -> SG s w == sgsum s (tl (PP s w))
  }.

  (* every recorded predecessor is finalised *)
  Lemma P_fin : forall s R pend w u, L s R pend -> In u (PP s w) -> DD s u <> None.
  Proof.
    intros s R pend w u HL Hu. destruct (l_P _ _ _ HL w) as [_ Hiff]. apply Hiff in Hu.
    destruct Hu as [c [du [x [_ [A _]]]]]. congruence.
  Qed.

  (* ---------------------------------------------------------------- initial state *)
  Lemma L_init : L (init_b g src) [] [].
  Proof.
    assert (HDD : forall w, DD (init_b g src) w = None).
    { intros w. unfold DD, init_b. cbn [bD]. destruct (get_repeat _ (@None Q) n w None) as [H|H]; exact H. }
    assert (HP : forall w, PP (init_b g src) w = []).
    { intros w. unfold PP, init_b. cbn [bP]. destruct (get_repeat _ (@nil nat) n w []) as [H|H]; exact H. }
    constructor.
    - unfold init_b. cbn [bsig bP]. rewrite upd_length. repeat rewrite repeat_length. auto.
    - unfold init_b. cbn [bS]. constructor.
    - intros w. unfold init_b at 1. cbn [bS]. rewrite HDD. split; [intros [] | congruence].
    - unfold init_b at 2. cbn [bS]. exact I.
    - intros v w c [].
    - intros v w c [].
    - split; [constructor | intros v w c []].
    - intros w. rewrite HP. split; [constructor|]. intros u. split; [intros [] | intros [c [du [x [[] _]]]]].
    - unfold init_b. cbn [bS bP]. intros S1 w S2 E0. destruct S1; discriminate.
    - intros d p H. unfold init_b in H. cbn [bfr] in H. destruct H as [H|[]]. inversion H. reflexivity.
    - intros d p w H Hne. unfold init_b in H. cbn [bfr] in H. destruct H as [H|[]]. inversion H. congruence.
    - rewrite HDD. unfold SG, init_b. cbn [bsig]. rewrite get_upd_eq by (rewrite repeat_length; exact Hsrc). reflexivity.
    - intros w H. rewrite HDD in H. congruence.
    - intros w _ Hne. rewrite HP. cbn [tl]. unfold sgsum. cbn [map]. rewrite Qsum_nil.
      unfold SG, init_b. cbn [bsig]. rewrite get_upd_neq by congruence.
      destruct (get_repeat _ 0 n w 0) as [H|H]; rewrite H; reflexivity.
  Qed.

  (* ---------------------------------------------------------------- moving one edge from pending to relaxed *)
  Lemma pend_step : forall s R pend v w c, L s R ((v, w, c) :: pend) -> In (w, inject_Z c) (get [] g v) ->
    (forall a b e, In (a, b, e) ((v, w, c) :: R) -> In a (bS s)) /\
    (forall a b e, In (a, b, e) ((v, w, c) :: R) -> In (b, inject_Z e) (get [] g a)) /\
    (NoDup (map tgt pend) /\
     forall a b e, In (a, b, e) pend -> (exists S', bS s = S' ++ [a]) /\ forall c', ~ In (a, b, c') ((v, w, c) :: R)) /\
    In v (bS s) /\ (forall c', ~ In (v, w, c') R).
  Proof.
    intros s R pend v w c HL Hedge. destruct (l_pend _ _ _ HL) as [Hnd Hp].
    destruct (Hp v w c (or_introl eq_refl)) as [[S0 HS0] HnR].
    assert (HvS : In v (bS s)) by (rewrite HS0; apply in_or_app; right; left; reflexivity).
    cbn [map] in Hnd. apply NoDup_cons_iff in Hnd. destruct Hnd as [Hnot Hnd].
    split; [|split; [|split; [split; [exact Hnd|]|split; [exact HvS | exact HnR]]]].
    - intros a b e [H|H]; [inversion H; subst; exact HvS | eapply l_R_src; eauto].
    - intros a b e [H|H]; [inversion H; subst; exact Hedge | eapply l_R_edge; eauto].
    - intros a b e Hin. destruct (Hp a b e (or_intror Hin)) as [[S1 HS1] HnR1]. split; [exists S1; exact HS1|].
      intros c' [X|X]; [|apply (HnR1 c' X)]. inversion X. subst a b c'.
      apply Hnot. exact (in_map tgt pend (v, w, e) Hin).
  Qed.

  (* the relaxed edge leaves everything as it is: w finalised, or its tentative distance is smaller *)
  Lemma L_noop : forall s R pend m v w c xz,
    KK s R ((v, w, c) :: pend) m -> L s R ((v, w, c) :: pend) ->
    SE s w = Some (inject_Z xz) -> xz <> (m + c)%Z ->
    L s ((v, w, c) :: R) pend.
  Proof.
    intros s R pend m v w c xz HK HL HSw Hne.
    destruct (pend_facts g src Hok Hsrc Hcost _ _ _ _ _ _ _ HK) as [Hv [Hin [Hc [Hwn Hm]]]].
    destruct (pend_step _ _ _ _ _ _ HL Hin) as [HRs [HRe [Hpd [HvS HnR]]]].
    constructor.
    - exact (l_len _ _ _ HL).
    - exact (l_S_nodup _ _ _ HL).
    - exact (l_S_dom _ _ _ HL).
    - exact (l_S_sorted _ _ _ HL).
    - exact HRs.
    - exact HRe.
    - exact Hpd.
    - intros w0. destruct (l_P _ _ _ HL w0) as [Hnd Hiff]. split; [exact Hnd|]. intros u. rewrite Hiff. split.
      + intros [c0 [du [x [A B]]]]. exists c0, du, x. split; [right; exact A | exact B].
      + intros [c0 [du [x [[A|A] [B [C D]]]]]]; [|exists c0, du, x; auto].
        exfalso. inversion A. subst u w0 c0. rewrite Hv in B. inversion B as [E1]. rewrite HSw in C. inversion C as [E2]. lia.
    - exact (l_pf _ _ _ HL).
    - exact (l_fr_src _ _ _ HL).
    - exact (l_hd _ _ _ HL).
    - exact (l_sig_src _ _ _ HL).
    - exact (l_sig_fin _ _ _ HL).
    - exact (l_sig_open _ _ _ HL).
  Qed.

  Lemma sgsum_upd : forall sig w x l, ~ In w l -> Qsum (map (get 0 (upd w x sig)) l) = Qsum (map (get 0 sig) l).
  Proof. intros sig w x l Hn. rewrite map_get_upd_notin by exact Hn. reflexivity. Qed.

  (* tie: `sigma[w] += sigma[v]; P[w].push(v)` on a tentative entry *)
  Lemma L_tie : forall s R pend m v w c,
    KK s R ((v, w, c) :: pend) m -> L s R ((v, w, c) :: pend) ->
    DD s w = None -> SE s w = Some (inject_Z (m + c)) ->
    L (mkbs (bD s) (bseen s) (upd w (Qred (get 0 (bsig s) w + get 0 (bsig s) v)) (bsig s))
            (upd w (get [] (bP s) w ++ [v]) (bP s)) (bS s) (bfr s))
      ((v, w, c) :: R) pend.
  Proof.
    intros s R pend m v w c HK HL HDw HSw.
    destruct (pend_facts g src Hok Hsrc Hcost _ _ _ _ _ _ _ HK) as [Hv [Hin [Hc [Hwn Hm]]]].
    destruct (pend_step _ _ _ _ _ _ HL Hin) as [HRs [HRe [Hpd [HvS HnR]]]].
    destruct (l_len _ _ _ HL) as [Hls HlP].
    set (s' := mkbs (bD s) (bseen s) (upd w (Qred (get 0 (bsig s) w + get 0 (bsig s) v)) (bsig s))
                    (upd w (get [] (bP s) w ++ [v]) (bP s)) (bS s) (bfr s)).
    assert (EDD : forall u, DD s' u = DD s u) by reflexivity.
    assert (ESE : forall u, SE s' u = SE s u) by reflexivity.
    assert (Hwsrc : w <> src).
    { intro X. subst w. rewrite (k_src _ _ _ _ _ _ HK) in HSw. change 0 with (inject_Z 0) in HSw. inversion HSw. lia. }
    assert (Hvw : v <> w) by (intro X; subst; congruence).
    assert (HPw : PP s' w = PP s w ++ [v]) by (unfold PP, s'; cbn [bP]; apply get_upd_eq; lia).
    assert (HPo : forall u, u <> w -> PP s' u = PP s u) by (intros u Hu; unfold PP, s'; cbn [bP]; apply get_upd_neq; congruence).
    assert (HSGo : forall u, u <> w -> SG s' u = SG s u) by (intros u Hu; unfold SG, s'; cbn [bsig]; apply get_upd_neq; congruence).
    assert (Hnotin : forall u, ~ In w (PP s u)) by (intros u X; apply (P_fin _ _ _ _ _ HL X); exact HDw).
    assert (Hsum : forall l, ~ In w l -> sgsum s' l = sgsum s l).
    { intros l Hl. unfold sgsum, s'. cbn [bsig]. apply sgsum_upd. exact Hl. }
    destruct (k_fresh _ _ _ _ _ _ HK w _ HDw HSw) as [p0 Hp0].
    destruct (l_hd _ _ _ HL _ _ _ Hp0 Hwsrc HDw HSw) as [rest0 Hrest0].
    constructor.
    - unfold s'. cbn [bsig bP]. repeat rewrite upd_length. auto.
    - exact (l_S_nodup _ _ _ HL).
    - exact (l_S_dom _ _ _ HL).
    - exact (l_S_sorted _ _ _ HL).
    - exact HRs.
    - exact HRe.
    - exact Hpd.
    - intros w0. destruct (l_P _ _ _ HL w0) as [Hnd Hiff]. destruct (Nat.eq_dec w0 w) as [E0|E0].
      + subst w0. rewrite HPw. split.
        * apply NoDup_app_one; [exact Hnd|]. intro X. apply Hiff in X. destruct X as [c0 [du [x [A _]]]]. apply (HnR c0 A).
        * intros u. rewrite in_app_iff. rewrite Hiff. cbn [In]. split.
          -- intros [[c0 [du [x [A B]]]]|[A|[]]].
             ++ exists c0, du, x. split; [right; exact A | exact B].
             ++ subst u. exists c, m, (m + c)%Z. split; [left; reflexivity|]. auto.
          -- intros [c0 [du [x [[A|A] B]]]].
             ++ inversion A. subst. right. left. reflexivity.
             ++ left. exists c0, du, x. auto.
      + rewrite (HPo w0 E0). split; [exact Hnd|]. intros u. rewrite Hiff. split.
        * intros [c0 [du [x [A B]]]]. exists c0, du, x. split; [right; exact A | exact B].
        * intros [c0 [du [x [[A|A] B]]]]; [inversion A; congruence | exists c0, du, x; auto].
    - intros S1 w0 S2 ES u Hu.
      assert (Hw0 : w0 <> w).
      { intro X. subst w0. assert (Y : In w (bS s)) by (change (bS s') with (bS s) in ES; rewrite ES; apply in_or_app; right; left; reflexivity).
        apply (l_S_dom _ _ _ HL) in Y. congruence. }
      change (In u (PP s' w0)) in Hu. rewrite (HPo w0 Hw0) in Hu. exact (l_pf _ _ _ HL S1 w0 S2 ES u Hu).
    - exact (l_fr_src _ _ _ HL).
    - intros d p w0 Hfr Hne HD HS. destruct (l_hd _ _ _ HL d p w0 Hfr Hne HD HS) as [rest Hrest].
      destruct (Nat.eq_dec w0 w) as [E0|E0].
      + subst w0. rewrite HPw, Hrest. exists (rest ++ [v]). reflexivity.
      + rewrite (HPo w0 E0). exists rest. exact Hrest.
    - rewrite (HSGo src) by congruence. exact (l_sig_src _ _ _ HL).
    - intros w0 HD Hne. assert (Hw0 : w0 <> w) by (intro X; subst; rewrite EDD in HD; congruence).
      rewrite (HSGo w0 Hw0), (HPo w0 Hw0), (Hsum _ (Hnotin w0)). exact (l_sig_fin _ _ _ HL w0 HD Hne).
    - intros w0 HD Hne. destruct (Nat.eq_dec w0 w) as [E0|E0].
      + subst w0. rewrite HPw, Hrest0. cbn [app tl].
        assert (Hn1 : ~ In w (rest0 ++ [v])).
        { intro X. apply in_app_or in X. destruct X as [X|[X|[]]]; [|congruence].
          apply (Hnotin w). rewrite Hrest0. right. exact X. }
        rewrite (Hsum _ Hn1). unfold sgsum. rewrite map_app, Qsum_app. cbn [map]. rewrite Qsum_cons, Qsum_nil.
        unfold SG, s'. cbn [bsig]. rewrite get_upd_eq by lia. rewrite Qred_correct.
        pose proof (l_sig_open _ _ _ HL w HDw Hwsrc) as Y. unfold SG, sgsum in Y. rewrite Hrest0 in Y. cbn [tl] in Y.
        rewrite Y. ring.
      + rewrite (HSGo w0 E0), (HPo w0 E0).
        assert (Hn1 : ~ In w (tl (PP s w0))).
        { intro X. apply (Hnotin w0). destruct (PP s w0); [destruct X | right; exact X]. }
        rewrite (Hsum _ Hn1). exact (l_sig_open _ _ _ HL w0 HD Hne).
  Qed.

  (* strict improvement (or first discovery): `seen[w] = vw_dist; push; sigma[w] = 0.0; P[w] = vec![v]` *)
  Lemma L_improve : forall s R pend m v w c,
    KK s R ((v, w, c) :: pend) m -> L s R ((v, w, c) :: pend) ->
    DD s w = None ->
    (SE s w = None \/ exists xz, SE s w = Some (inject_Z xz) /\ (m + c < xz)%Z) ->
    L (mkbs (bD s) (upd w (Some (inject_Z (m + c))) (bseen s)) (upd w 0 (bsig s)) (upd w [v] (bP s)) (bS s)
            (bfr s ++ [(inject_Z (m + c), v, w)]))
      ((v, w, c) :: R) pend.
  Proof.
    intros s R pend m v w c HK HL HDw Hcond.
    destruct (pend_facts g src Hok Hsrc Hcost _ _ _ _ _ _ _ HK) as [Hv [Hin [Hc [Hwn Hm]]]].
    destruct (pend_step _ _ _ _ _ _ HL Hin) as [HRs [HRe [Hpd [HvS HnR]]]].
    destruct (l_len _ _ _ HL) as [Hls HlP]. destruct (k_len _ _ _ _ _ _ HK) as [HlD HlS].
    set (s' := mkbs (bD s) (upd w (Some (inject_Z (m + c))) (bseen s)) (upd w 0 (bsig s)) (upd w [v] (bP s)) (bS s)
                    (bfr s ++ [(inject_Z (m + c), v, w)])).
    assert (EDD : forall u, DD s' u = DD s u) by reflexivity.
    assert (ESw : SE s' w = Some (inject_Z (m + c))) by (unfold SE, s'; cbn [bseen]; apply get_upd_eq; lia).
    assert (ESE : forall u, u <> w -> SE s' u = SE s u) by (intros u Hu; unfold SE, s'; cbn [bseen]; apply get_upd_neq; congruence).
    assert (Hwsrc : w <> src).
    { intro X. subst w. rewrite (k_src _ _ _ _ _ _ HK) in Hcond. destruct Hcond as [X|[xz [X Y]]]; [discriminate|].
      change 0 with (inject_Z 0) in X. inversion X. lia. }
    assert (Hvw : v <> w) by (intro X; subst; congruence).
    assert (HPw : PP s' w = [v]) by (unfold PP, s'; cbn [bP]; apply get_upd_eq; lia).
    assert (HPo : forall u, u <> w -> PP s' u = PP s u) by (intros u Hu; unfold PP, s'; cbn [bP]; apply get_upd_neq; congruence).
    assert (HSGo : forall u, u <> w -> SG s' u = SG s u) by (intros u Hu; unfold SG, s'; cbn [bsig]; apply get_upd_neq; congruence).
    assert (Hnotin : forall u, ~ In w (PP s u)) by (intros u X; apply (P_fin _ _ _ _ _ HL X); exact HDw).
    assert (Hsum : forall l, ~ In w l -> sgsum s' l = sgsum s l).
    { intros l Hl. unfold sgsum, s'. cbn [bsig]. apply sgsum_upd. exact Hl. }
    constructor.
    - unfold s'. cbn [bsig bP]. repeat rewrite upd_length. auto.
    - exact (l_S_nodup _ _ _ HL).
    - exact (l_S_dom _ _ _ HL).
    - exact (l_S_sorted _ _ _ HL).
    - exact HRs.
    - exact HRe.
    - exact Hpd.
    - intros w0. destruct (l_P _ _ _ HL w0) as [Hnd Hiff]. destruct (Nat.eq_dec w0 w) as [E0|E0].
      + subst w0. rewrite HPw. split; [constructor; [intros []|constructor]|].
        intros u. cbn [In]. split.
        * intros [A|[]]. subst u. exists c, m, (m + c)%Z. split; [left; reflexivity|]. rewrite EDD. auto.
        * intros [c0 [du [x [[A|A] [B [C D]]]]]]; [inversion A; left; reflexivity|]. exfalso.
          rewrite ESw in C. inversion C as [E1]. rewrite EDD in B.
          destruct (k_R _ _ _ _ _ _ HK u w c0 A) as [dv' [x' [A1 [A2 A3]]]].
          rewrite B in A1. inversion A1 as [E2].
          destruct Hcond as [X|[xz [X Y]]]; [congruence|]. rewrite X in A2. inversion A2 as [E3]. lia.
      + rewrite (HPo w0 E0). split; [exact Hnd|]. intros u. rewrite Hiff. rewrite (ESE w0 E0). split.
        * intros [c0 [du [x [A B]]]]. exists c0, du, x. split; [right; exact A | exact B].
        * intros [c0 [du [x [[A|A] B]]]]; [inversion A; congruence | exists c0, du, x; auto].
    - intros S1 w0 S2 ES u Hu.
      assert (Hw0 : w0 <> w).
      { intro X. subst w0. assert (Y : In w (bS s)) by (change (bS s') with (bS s) in ES; rewrite ES; apply in_or_app; right; left; reflexivity).
        apply (l_S_dom _ _ _ HL) in Y. congruence. }
      change (In u (PP s' w0)) in Hu. rewrite (HPo w0 Hw0) in Hu. exact (l_pf _ _ _ HL S1 w0 S2 ES u Hu).
    - intros d p Hfr. unfold s' in Hfr. cbn [bfr] in Hfr. apply in_app_or in Hfr. destruct Hfr as [Hfr|[Hfr|[]]].
      + exact (l_fr_src _ _ _ HL d p Hfr).
      + inversion Hfr. congruence.
    - intros d p w0 Hfr Hne HD HS. unfold s' in Hfr. cbn [bfr] in Hfr. apply in_app_or in Hfr. destruct Hfr as [Hfr|[Hfr|[]]].
      + destruct (Nat.eq_dec w0 w) as [E0|E0].
        * subst w0. exfalso. rewrite ESw in HS. inversion HS as [E1].
          destruct (k_fr _ _ _ _ _ _ HK d p w Hfr) as [_ [z [z' [B [C E2]]]]].
          rewrite B in E1. apply inject_Z_inj in E1.
          destruct Hcond as [X|[xz [X Y]]]; [congruence|]. rewrite X in C. inversion C as [E3]. lia.
        * rewrite (HPo w0 E0). rewrite (ESE w0 E0) in HS. exact (l_hd _ _ _ HL d p w0 Hfr Hne HD HS).
      + inversion Hfr. subst d p w0. rewrite HPw. exists []. reflexivity.
    - rewrite (HSGo src) by congruence. exact (l_sig_src _ _ _ HL).
    - intros w0 HD Hne. assert (Hw0 : w0 <> w) by (intro X; subst; rewrite EDD in HD; congruence).
      rewrite (HSGo w0 Hw0), (HPo w0 Hw0), (Hsum _ (Hnotin w0)). exact (l_sig_fin _ _ _ HL w0 HD Hne).
    - intros w0 HD Hne. destruct (Nat.eq_dec w0 w) as [E0|E0].
      + subst w0. rewrite HPw. cbn [tl]. unfold sgsum. cbn [map]. rewrite Qsum_nil.
        unfold SG, s'. cbn [bsig]. rewrite get_upd_eq by lia. reflexivity.
      + rewrite (HSGo w0 E0), (HPo w0 E0).
        assert (Hn1 : ~ In w (tl (PP s w0))).
        { intro X. apply (Hnotin w0). destruct (PP s w0); [destruct X | right; exact X]. }
        rewrite (Hsum _ Hn1). exact (l_sig_open _ _ _ HL w0 HD Hne).
  Qed.

  (* ---------------------------------------------------------------- one relaxed edge *)
  Lemma L_relax : forall s R pend m v w c,
    KK s R ((v, w, c) :: pend) m -> L s R ((v, w, c) :: pend) ->
    L (brelax v (inject_Z m) s (w, inject_Z c)) ((v, w, c) :: R) pend.
  Proof.
    intros s R pend m v w c HK HL.
    destruct (pend_facts g src Hok Hsrc Hcost _ _ _ _ _ _ _ HK) as [Hv [Hin [Hc [Hwn Hm]]]].
    unfold brelax. rewrite Qred_inject_add.
    destruct (get None (bD s) w) as [dq|] eqn:HDw.
    - pose proof (k_Dseen _ _ _ _ _ _ HK w dq HDw) as HSw. unfold SE in HSw. rewrite HSw. cbn [andb].
      destruct (k_int _ _ _ _ _ _ HK w dq HSw) as [xz [Ex Hx]]. subst dq.
      assert (Hle : (xz <= m)%Z) by (exact (k_fin_le _ _ _ _ _ _ HK w xz HDw)).
      destruct (oqeqb (inject_Z (m + c)) (Some (inject_Z xz))) eqn:Eq.
      + exfalso. cbn [oqeqb] in Eq. apply qeqb_inject in Eq. lia.
      + apply (L_noop s R pend m v w c xz HK HL HSw). lia.
    - destruct (get None (bseen s) w) as [x|] eqn:HSw.
      + destruct (k_int _ _ _ _ _ _ HK w x HSw) as [xz [Ex Hx]]. subst x. cbn [andb]. rewrite qlt_inject.
        destruct (Z.ltb (m + c) xz) eqn:Elt.
        * apply Z.ltb_lt in Elt. apply (L_improve s R pend m v w c HK HL HDw). right. exists xz. auto.
        * apply Z.ltb_ge in Elt. destruct (oqeqb (inject_Z (m + c)) (Some (inject_Z xz))) eqn:Eq.
          -- cbn [oqeqb] in Eq. apply qeqb_inject in Eq. subst xz. apply (L_tie s R pend m v w c HK HL HDw HSw).
          -- apply (L_noop s R pend m v w c xz HK HL HSw). intro X. subst xz.
             cbn [oqeqb] in Eq. assert (Y : qeqb (inject_Z (m + c)) (inject_Z (m + c)) = true) by (apply qeqb_inject; reflexivity). congruence.
      + cbn [andb]. apply (L_improve s R pend m v w c HK HL HDw). left. exact HSw.
  Qed.

  (* ---------------------------------------------------------------- a whole row *)
  Lemma KL_row : forall todo s R m v,
    (forall e, In e todo -> In e (get [] g v)) ->
    KK s R (pend_of v todo) m -> L s R (pend_of v todo) ->
    exists R', KK (fold_left (brelax v (inject_Z m)) todo s) R' [] m /\ L (fold_left (brelax v (inject_Z m)) todo s) R' [].
  Proof.
    induction todo as [|e t IH]; intros s R m v Hsub HK HL; cbn [fold_left pend_of map] in *.
    - exists R. auto.
    - destruct e as [w cost]. destruct (Hcost v _ (Hsub _ (or_introl eq_refl))) as [c [Ec _]]. cbn [snd] in Ec. subst cost.
      cbn [fst snd Qnum inject_Z] in HK, HL.
      apply (IH _ ((v, w, c) :: R) m v).
      + intros e' He'. apply Hsub. right. exact He'.
      + apply (K_relax g src Hok Hsrc Hcost). exact HK.
      + apply (L_relax _ _ _ m). exact HK. exact HL.
  Qed.

  (* ---------------------------------------------------------------- pop: a stale entry is dropped *)
  Lemma L_skip : forall s R lw x t d pred v rest,
    L s R [] -> bfr s = x :: t -> extract_min lw x t [] = ((d, pred, v), rest) ->
    L (mkbs (bD s) (bseen s) (bsig s) (bP s) (bS s) rest) R [].
  Proof.
    intros s R lw x t d pred v rest HL Hfr Hex.
    destruct (extract_min_spec lw t x [] _ _ Hex ltac:(intros e [])) as [Hmem [_ _]].
    assert (Hsub : forall e, In e rest -> In e (bfr s)).
    { intros e He. rewrite Hfr. assert (X : In e (x :: t ++ [])) by (apply Hmem; right; exact He). rewrite app_nil_r in X. exact X. }
    constructor.
    - exact (l_len _ _ _ HL).
    - exact (l_S_nodup _ _ _ HL).
    - exact (l_S_dom _ _ _ HL).
    - exact (l_S_sorted _ _ _ HL).
    - exact (l_R_src _ _ _ HL).
    - exact (l_R_edge _ _ _ HL).
    - exact (l_pend _ _ _ HL).
    - exact (l_P _ _ _ HL).
    - exact (l_pf _ _ _ HL).
    - intros d0 p0 H. apply (l_fr_src _ _ _ HL d0 p0). apply Hsub. exact H.
    - intros d0 p0 w H. apply (l_hd _ _ _ HL d0 p0 w). apply Hsub. exact H.
    - exact (l_sig_src _ _ _ HL).
    - exact (l_sig_fin _ _ _ HL).
    - exact (l_sig_open _ _ _ HL).
  Qed.

  (* ---------------------------------------------------------------- pop: v is finalised
     `sigma[v] += sigma[pred]; S.push(v); D[v] = dist` *)
  Lemma L_final : forall s R m lw x t d pred v rest,
    KK s R [] m -> L s R [] -> bfr s = x :: t -> extract_min lw x t [] = ((d, pred, v), rest) -> DD s v = None ->
    L (mkbs (upd v (Some d) (bD s)) (bseen s) (upd v (Qred (get 0 (bsig s) v + get 0 (bsig s) pred)) (bsig s))
            (bP s) (bS s ++ [v]) rest)
      R (pend_of v (get [] g v)).
  Proof.
    intros s R m lw x t d pred v rest HK HL Hfr Hex Hv.
    set (s' := mkbs (upd v (Some d) (bD s)) (bseen s) (upd v (Qred (get 0 (bsig s) v + get 0 (bsig s) pred)) (bsig s))
                    (bP s) (bS s ++ [v]) rest).
    destruct (K_final g src Hsrc Hcost s R m lw x t d pred v rest (bsig s') (bP s') (bS s') HK Hfr Hex Hv) as [z [Ed HK1]].
    fold s' in HK1.
    destruct (extract_min_spec lw t x [] _ _ Hex ltac:(intros e [])) as [Hmem [Hmin _]].
    assert (Hb : In (d, pred, v) (bfr s)).
    { rewrite Hfr. assert (X : In (d, pred, v) (x :: t ++ [])) by (apply Hmem; left; reflexivity). rewrite app_nil_r in X. exact X. }
    assert (Hsub : forall e, In e rest -> In e (bfr s)).
    { intros e He. rewrite Hfr. assert (X : In e (x :: t ++ [])) by (apply Hmem; right; exact He). rewrite app_nil_r in X. exact X. }
    destruct (k_fr _ _ _ _ _ _ HK d pred v Hb) as [Hvn _].
    destruct (k_len _ _ _ _ _ _ HK) as [HlD HlS]. destruct (l_len _ _ _ HL) as [Hls HlP].
    assert (Hmz : (m <= z)%Z) by (apply (k_fr_ge _ _ _ _ _ _ HK d pred v z Hb Ed)).
    assert (EDv : DD s' v = Some d) by (unfold DD, s'; cbn [bD]; apply get_upd_eq; lia).
    assert (EDD : forall u, u <> v -> DD s' u = DD s u) by (intros u Hu; unfold DD, s'; cbn [bD]; apply get_upd_neq; congruence).
    assert (ESE : forall u, SE s' u = SE s u) by reflexivity.
    assert (HSv : SE s v = Some d) by (rewrite <- ESE; apply (k_Dseen _ _ _ _ _ _ HK1); exact EDv).
    assert (Hsome : forall u, DD s u <> None -> u <> v) by (intros u H X; subst; congruence).
    assert (HvS : ~ In v (bS s)) by (intro X; apply (l_S_dom _ _ _ HL) in X; congruence).
    assert (HSGo : forall u, u <> v -> SG s' u = SG s u) by (intros u Hu; unfold SG, s'; cbn [bsig]; apply get_upd_neq; congruence).
    assert (Hnotin : forall u, ~ In v (PP s u)) by (intros u X; apply (P_fin _ _ _ _ _ HL X); exact Hv).
    assert (Hsum : forall l, ~ In v l -> sgsum s' l = sgsum s l).
    { intros l Hl. unfold sgsum, s'. cbn [bsig]. apply sgsum_upd. exact Hl. }
    constructor.
    - unfold s'. cbn [bsig bP]. rewrite upd_length. auto.
    - unfold s'. cbn [bS]. apply NoDup_app_one; [exact (l_S_nodup _ _ _ HL) | exact HvS].
    - intros w. unfold s' at 1. cbn [bS]. rewrite in_app_iff. cbn [In]. destruct (Nat.eq_dec w v) as [E0|E0].
      + subst w. rewrite EDv. split; [intro; discriminate | intro; right; left; reflexivity].
      + rewrite (EDD w E0). rewrite (l_S_dom _ _ _ HL w). split; [intros [X|[X|[]]]; [exact X | congruence] | intro X; left; exact X].
    - unfold s' at 2. cbn [bS]. apply sorted_z_app_one.
      + apply (sorted_z_ext (dzv s)); [|exact (l_S_sorted _ _ _ HL)].
        intros u Hu. unfold dzv. rewrite EDD; [reflexivity|]. intro X. subst. contradiction.
      + intros u Hu. assert (Huv : u <> v) by (intro X; subst; contradiction).
        unfold dzv. rewrite EDv, (EDD u Huv), Ed. cbn [Qnum inject_Z].
        apply (l_S_dom _ _ _ HL) in Hu. destruct (DD s u) as [q|] eqn:HDu; [|congruence].
        destruct (k_int _ _ _ _ _ _ HK u q (k_Dseen _ _ _ _ _ _ HK u q HDu)) as [zu [Eq _]]. subst q. cbn [Qnum inject_Z].
        pose proof (k_fin_le _ _ _ _ _ _ HK u zu HDu). lia.
    - intros a b e H. unfold s'. cbn [bS]. apply in_or_app. left. exact (l_R_src _ _ _ HL a b e H).
    - exact (l_R_edge _ _ _ HL).
    - split.
      + unfold pend_of. rewrite map_map. unfold tgt. cbn [fst snd]. exact (Hrows v).
      + intros a b e H. unfold pend_of in H. apply in_map_iff in H. destruct H as [e0 [E0 He0]]. inversion E0. subst a b e.
        split; [exists (bS s); reflexivity|]. intros c' X. apply HvS. exact (l_R_src _ _ _ HL _ _ _ X).
    - intros w. destruct (l_P _ _ _ HL w) as [Hnd Hiff]. split; [exact Hnd|]. intros u. change (PP s' w) with (PP s w). rewrite Hiff. split.
      + intros [c0 [du [y [A [B C]]]]]. exists c0, du, y. split; [exact A|]. split; [|exact C].
        rewrite EDD; [exact B|]. apply Hsome. congruence.
      + intros [c0 [du [y [A [B C]]]]]. exists c0, du, y. split; [exact A|]. split; [|exact C].
        rewrite EDD in B; [exact B|]. intro X. subst u. apply HvS. exact (l_R_src _ _ _ HL _ _ _ A).
    - intros S1 w S2 ES u Hu. unfold s' in ES, Hu. cbn [bS bP] in ES, Hu.
      destruct (snoc_split _ _ _ _ _ _ ES) as [[E1 [E2 E3]]|[S2' [E1 E2]]].
      + subst S2 S1 w. apply (l_S_dom _ _ _ HL). apply (P_fin _ _ _ _ _ HL Hu).
      + exact (l_pf _ _ _ HL S1 w S2' E2 u Hu).
    - intros d0 p0 H. apply (l_fr_src _ _ _ HL d0 p0). apply Hsub. exact H.
    - intros d0 p0 w H Hne HD HS. assert (Hwv : w <> v) by (intro X; subst; congruence).
      rewrite (EDD w Hwv) in HD. apply (l_hd _ _ _ HL d0 p0 w (Hsub _ H) Hne HD HS).
    - destruct (Nat.eq_dec v src) as [E0|E0].
      + subst v. rewrite EDv. pose proof (l_fr_src _ _ _ HL d pred Hb) as Ep. subst pred.
        unfold SG, s'. cbn [bsig]. rewrite get_upd_eq by lia. rewrite Qred_correct.
        pose proof (l_sig_src _ _ _ HL) as Y. rewrite Hv in Y. unfold SG in Y. rewrite Y. reflexivity.
      + rewrite (HSGo src) by congruence. rewrite (EDD src) by congruence. exact (l_sig_src _ _ _ HL).
    - intros w HD Hne. change (PP s' w) with (PP s w). rewrite (Hsum _ (Hnotin w)). destruct (Nat.eq_dec w v) as [E0|E0].
      + subst w. destruct (l_hd _ _ _ HL d pred v Hb Hne Hv HSv) as [rest0 Hrest0].
        unfold SG, s'. cbn [bsig]. rewrite get_upd_eq by lia. rewrite Qred_correct.
        pose proof (l_sig_open _ _ _ HL v Hv Hne) as Y. unfold SG, sgsum in Y. rewrite Hrest0 in Y. cbn [tl] in Y.
        rewrite Y. unfold sgsum. rewrite Hrest0. cbn [map]. rewrite Qsum_cons. ring.
      + rewrite (HSGo w E0). rewrite (EDD w E0) in HD. exact (l_sig_fin _ _ _ HL w HD Hne).
    - intros w HD Hne. assert (Hwv : w <> v) by (intro X; subst; congruence).
      change (PP s' w) with (PP s w). rewrite (HSGo w Hwv). rewrite (EDD w Hwv) in HD.
      assert (Hn1 : ~ In v (tl (PP s w))).
      { intro X. apply (Hnotin w). destruct (PP s w); [destruct X | right; exact X]. }
      rewrite (Hsum _ Hn1). exact (l_sig_open _ _ _ HL w HD Hne).
  Qed.

  (* ---------------------------------------------------------------- the loop *)
  Lemma KL_loop : forall fuel lw s R m s',
    KK s R [] m -> L s R [] -> bloop fuel lw g s = Some s' ->
    exists R' m', KK s' R' [] m' /\ L s' R' [] /\ bfr s' = [].
  Proof.
    induction fuel as [|f IH]; intros lw s R m s' HK HL H; cbn [bloop] in H; [discriminate|].
    destruct (bfr s) as [|x t] eqn:Hfr.
    - inversion H. subst. exists R, m. auto.
    - destruct (extract_min lw x t []) as [[[d pred] v] rest] eqn:Hex.
      cbn [bD bseen bsig bP bS bfr] in H. change (get None (bD s) v) with (DD s v) in H.
      destruct (DD s v) as [q|] eqn:Hv.
      + eapply IH; [| |exact H].
        * eapply (K_skip g src); eauto. congruence.
        * eapply L_skip; eauto.
      + pose proof (L_final s R m lw x t d pred v rest HK HL Hfr Hex Hv) as HL1.
        destruct (K_final g src Hsrc Hcost s R m lw x t d pred v rest
                   (upd v (Qred (get 0 (bsig s) v + get 0 (bsig s) pred)) (bsig s)) (bP s) (bS s ++ [v])
                   HK Hfr Hex Hv) as [z [Ed HK1]].
        rewrite Ed in H.
        destruct (KL_row (get [] g v) _ R z v ltac:(auto) HK1 HL1) as [R' [HK2 HL2]].
        eapply IH; [exact HK2 | exact HL2 |]. rewrite <- Ed. rewrite <- Ed in H. exact H.
  Qed.

  Theorem bdijkstra_KL : forall lw s, bdijkstra lw g src = Some s ->
    exists R m, KK s R [] m /\ L s R [] /\ bfr s = [].
  Proof.
    intros lw s H. unfold bdijkstra in H.
    eapply KL_loop; [apply (K_init g src Hsrc) | apply L_init | exact H].
  Qed.
End HeapStage.

(* ------------------------------------------------------------------ what the weighted stage returns *)
Section HeapStageFacts.
  Variable g : qadj.
  Variable src : nat.
  Hypothesis Hok : adj_ok (length g) g = true.
  Hypothesis Hsrc : (src < length g)%nat.
  Hypothesis Hcost : forall v e, In e (get [] g v) -> exists c, snd e = inject_Z c /\ (0 < c)%Z.
  Hypothesis Hrows : forall v, NoDup (map fst (get [] g v)).
  Variable lw : bool.
  Variable s : bs.
  Hypothesis Hs : bdijkstra lw g src = Some s.

  Lemma wstage_seen_fin : forall w q, SE s w = Some q -> DD s w = Some q.
  Proof.
    destruct (bdijkstra_KL g src Hok Hsrc Hcost Hrows lw s Hs) as [R [m [HK [HL Hfr]]]].
    intros w q HS. destruct (DD s w) as [q'|] eqn:HD.
    - rewrite (k_Dseen _ _ _ _ _ _ HK w q' HD) in HS. exact HS.
    - destruct (k_fresh _ _ _ _ _ _ HK w q HD HS) as [p Hp]. rewrite Hfr in Hp. destruct Hp.
  Qed.

  Theorem wstage_src : DD s src = Some 0.
  Proof.
    destruct (bdijkstra_KL g src Hok Hsrc Hcost Hrows lw s Hs) as [R [m [HK [HL Hfr]]]].
    apply wstage_seen_fin. exact (k_src _ _ _ _ _ _ HK).
  Qed.

  Theorem wstage_int : forall w q, DD s w = Some q -> exists z, q = inject_Z z /\ (0 <= z)%Z /\ (w < length g)%nat.
  Proof.
    destruct (bdijkstra_KL g src Hok Hsrc Hcost Hrows lw s Hs) as [R [m [HK [HL Hfr]]]].
    intros w q HD. destruct (k_int _ _ _ _ _ _ HK w q (k_Dseen _ _ _ _ _ _ HK w q HD)) as [z [A B]].
    exists z. split; [exact A|]. split; [exact B|].
    destruct (k_len _ _ _ _ _ _ HK) as [HlD _]. rewrite <- HlD. eapply get_some_range. exact HD.
  Qed.

  (* S = the reachable nodes, each once, in non-decreasing distance *)
  Theorem wstage_S : NoDup (bS s) /\ (forall w, In w (bS s) <-> DD s w <> None) /\
                     sorted_z (dzv s) (bS s) /\ (forall w, In w (bS s) -> (w < length g)%nat).
  Proof.
    destruct (bdijkstra_KL g src Hok Hsrc Hcost Hrows lw s Hs) as [R [m [HK [HL Hfr]]]].
    split; [exact (l_S_nodup _ _ _ _ _ HL)|]. split; [exact (l_S_dom _ _ _ _ _ HL)|]. split; [exact (l_S_sorted _ _ _ _ _ HL)|].
    intros w Hw. apply (l_S_dom _ _ _ _ _ HL) in Hw. destruct (DD s w) as [q|] eqn:HD; [|congruence].
    destruct (wstage_int w q HD) as [_ [_ [_ X]]]. exact X.
  Qed.

  (* P[w] = the tight incoming edges, each predecessor once *)
  Theorem wstage_P : forall w, NoDup (PP s w) /\
    forall u, In u (PP s w) <->
      exists c du, In (w, inject_Z c) (get [] g u) /\ DD s u = Some (inject_Z du) /\ DD s w = Some (inject_Z (du + c)).
  Proof.
    destruct (bdijkstra_KL g src Hok Hsrc Hcost Hrows lw s Hs) as [R [m [HK [HL Hfr]]]].
    intros w. destruct (l_P _ _ _ _ _ HL w) as [Hnd Hiff]. split; [exact Hnd|]. intros u. rewrite Hiff. split.
    - intros [c [du [x [A [B [C D]]]]]]. exists c, du. split; [exact (l_R_edge _ _ _ _ _ HL _ _ _ A)|]. split; [exact B|].
      subst x. apply wstage_seen_fin. exact C.
    - intros [c [du [A [B C]]]]. exists c, du, (du + c)%Z.
      destruct (k_cover _ _ _ _ _ _ HK u w c ltac:(congruence) A) as [X|[]].
      split; [exact X|]. split; [exact B|]. split; [|reflexivity]. exact (k_Dseen _ _ _ _ _ _ HK w _ C).
  Qed.

  (* sigma: 2 at the source (the doubling quirk), elsewhere the sum over the predecessors *)
  Theorem wstage_sigma : SG s src == 2 /\ forall w, w <> src -> SG s w == sgsum s (PP s w).
  Proof.
    destruct (bdijkstra_KL g src Hok Hsrc Hcost Hrows lw s Hs) as [R [m [HK [HL Hfr]]]].
    split.
    - pose proof (l_sig_src _ _ _ _ _ HL) as Y. rewrite wstage_src in Y. exact Y.
    - intros w Hne. destruct (DD s w) as [q|] eqn:HD.
      + apply (l_sig_fin _ _ _ _ _ HL w); [congruence | exact Hne].
      + assert (HP : PP s w = []).
        { destruct (PP s w) as [|u r] eqn:E0; [reflexivity|]. exfalso.
          assert (Hu : In u (PP s w)) by (rewrite E0; left; reflexivity).
          apply (proj2 (wstage_P w)) in Hu. destruct Hu as [c [du [_ [_ X]]]]. congruence. }
        pose proof (l_sig_open _ _ _ _ _ HL w HD Hne) as Y. rewrite HP in *. exact Y.
  Qed.

  (* the stack is a valid order for the accumulation: predecessors first *)
  Theorem wstage_preds_first : preds_first (bP s) (bS s).
  Proof.
    destruct (bdijkstra_KL g src Hok Hsrc Hcost Hrows lw s Hs) as [R [m [HK [HL Hfr]]]]. exact (l_pf _ _ _ _ _ HL).
  Qed.

  Theorem wstage_tight : forall w x, DD s w = Some (inject_Z x) -> w <> src -> PP s w <> [].
  Proof.
    destruct (bdijkstra_KL g src Hok Hsrc Hcost Hrows lw s Hs) as [R [m [HK [HL Hfr]]]].
    intros w x HD Hne.
    destruct (k_tight _ _ _ _ _ _ HK w x (k_Dseen _ _ _ _ _ _ HK w _ HD) Hne) as [v [c [dv [A [B C]]]]].
    assert (Hu : In v (PP s w)).
    { apply (proj2 (wstage_P w)). exists c, dv. split; [exact B|]. split; [exact A|]. rewrite C. exact HD. }
    intro X. rewrite X in Hu. destruct Hu.
  Qed.

  (* hence the accumulation adds, for every node on the stack other than the source, the
     solution of Brandes' recurrence over the stage's own P and sigma *)
  Theorem wstage_accumulate : forall bet, length bet = length g ->
    exists D : list Q,
      length D = length bet /\
      (forall v, get 0 D v == Qsum (map (contrib (bP s) (bsig s) D v) (bS s))) /\
      (forall w, get 0 (accumulate src (bS s) (bP s) (bsig s) bet) w ==
                 get 0 bet w + (if nmem w (bS s) && negb (Nat.eqb w src) then get 0 D w else 0)).
  Proof.
    intros bet Hlen. destruct wstage_S as [Hnd [Hdom [_ Hrange]]].
    apply accumulate_recurrence; [exact Hnd | exact wstage_preds_first |].
    intros w Hw. destruct (wstage_P w) as [HndP Hiff]. split; [exact HndP|]. split.
    - intros u Hu. apply Hiff in Hu. destruct Hu as [c [du [_ [A _]]]]. rewrite Hlen. apply Hrange. apply Hdom. congruence.
    - rewrite Hlen. apply Hrange. exact Hw.
  Qed.
End HeapStageFacts.

(* ------------------------------------------------------------------ the fuel the model passes is never exhausted *)
Lemma list_sum_change : forall (f f' : nat -> nat) (l : list nat) v c,
  NoDup l -> In v l -> (forall x, x <> v -> f' x = f x) -> f v = c -> f' v = O ->
  (list_sum (map f' l) + c = list_sum (map f l))%nat.
Proof.
  induction l as [|a t IH]; intros v c Hnd Hin Hoth Hv Hv'; [destruct Hin|].
  apply NoDup_cons_iff in Hnd. destruct Hnd as [Hnot Hnd]. cbn [map].
  change (list_sum (f' a :: map f' t)) with (f' a + list_sum (map f' t))%nat.
  change (list_sum (f a :: map f t)) with (f a + list_sum (map f t))%nat.
  destruct Hin as [Hin|Hin].
  - subst a. rewrite Hv, Hv'. replace (map f' t) with (map f t); [lia|].
    apply map_ext_in. intros x Hx. symmetry. apply Hoth. intro X. subst. contradiction.
  - rewrite (Hoth a) by (intro X; subst; contradiction). pose proof (IH v c Hnd Hin Hoth Hv Hv'). lia.
Qed.

Lemma nedges_rows : forall g : qadj, list_sum (map (fun v => length (get [] g v)) (seq 0 (length g))) = nedges g.
Proof.
  induction g as [|r t IH]; [reflexivity|].
  cbn [length seq map]. rewrite <- seq_shift, map_map.
  change (list_sum (length (get [] (r :: t) 0) :: map (fun v => length (get [] (r :: t) (S v))) (seq 0 (length t))))
    with (length r + list_sum (map (fun v => length (get [] t v)) (seq 0 (length t))))%nat.
  rewrite IH. reflexivity.
Qed.

Section HeapFuel.
  Variable g : qadj.
  Variable src : nat.
  Notation n := (length g).
  Hypothesis Hok : adj_ok n g = true.
  Hypothesis Hsrc : (src < n)%nat.
  Hypothesis Hcost : forall v e, In e (get [] g v) -> exists c, snd e = inject_Z c /\ (0 < c)%Z.

  Definition unfin_row (s : bs) (v : nat) : nat := match DD s v with None => length (get [] g v) | Some _ => O end.
  Definition unfin (s : bs) : nat := list_sum (map (unfin_row s) (seq 0 n)).
  Definition pot (s : bs) : nat := (length (bfr s) + unfin s)%nat.

  Lemma brelax_D : forall v d s a, bD (brelax v d s a) = bD s.
  Proof.
    intros v d s [w cost]. unfold brelax.
    destruct (_ && _); [reflexivity|]. destruct (oqeqb _ _); reflexivity.
  Qed.

  Lemma brelax_fr : forall v d s a, (length (bfr (brelax v d s a)) <= S (length (bfr s)))%nat.
  Proof.
    intros v d s [w cost]. unfold brelax.
    destruct (_ && _); [cbn [bfr]; rewrite app_length; cbn [length]; lia|]. destruct (oqeqb _ _); cbn [bfr]; lia.
  Qed.

  Lemma row_D : forall v d todo s, bD (fold_left (brelax v d) todo s) = bD s.
  Proof. intros v d. induction todo as [|a t IH]; intros s; cbn [fold_left]; [reflexivity|]. rewrite IH. apply brelax_D. Qed.

  Lemma row_fr : forall v d todo s, (length (bfr (fold_left (brelax v d) todo s)) <= length todo + length (bfr s))%nat.
  Proof.
    intros v d. induction todo as [|a t IH]; intros s; cbn [fold_left length]; [lia|].
    pose proof (IH (brelax v d s a)). pose proof (brelax_fr v d s a). lia.
  Qed.

  Lemma unfin_ext : forall s s', bD s' = bD s -> unfin s' = unfin s.
  Proof. intros s s' H. unfold unfin, unfin_row, DD. rewrite H. reflexivity. Qed.

  Lemma unfin_final : forall s s' v d, (v < n)%nat -> DD s v = None -> length (bD s) = n ->
    bD s' = upd v (Some d) (bD s) -> (unfin s' + length (get [] g v) = unfin s)%nat.
  Proof.
    intros s s' v d Hv HD Hl E0. unfold unfin.
    apply (list_sum_change (unfin_row s) (unfin_row s') (seq 0 n) v (length (get [] g v))).
    - apply seq_NoDup.
    - apply in_seq. lia.
    - intros x Hx. unfold unfin_row, DD. rewrite E0. rewrite get_upd_neq by congruence. reflexivity.
    - unfold unfin_row. rewrite HD. reflexivity.
    - unfold unfin_row, DD. rewrite E0. rewrite get_upd_eq by lia. reflexivity.
  Qed.

  Lemma bloop_fuel : forall fuel lw s R m,
    K g src s R [] m -> (pot s < fuel)%nat -> exists s', bloop fuel lw g s = Some s'.
  Proof.
    induction fuel as [|f IH]; intros lw s R m HK Hf; [lia|].
    cbn [bloop]. destruct (bfr s) as [|x t] eqn:Hfr; [eexists; reflexivity|].
    destruct (extract_min lw x t []) as [[[d pred] v] rest] eqn:Hex.
    destruct (extract_min_spec lw t x [] _ _ Hex ltac:(intros e [])) as [Hmem [_ Hlen]].
    cbn [bD bseen bsig bP bS bfr]. change (get None (bD s) v) with (DD s v).
    assert (Hpot : pot s = (S (length rest) + unfin s)%nat).
    { unfold pot. rewrite Hfr, Hlen. cbn [length]. lia. }
    destruct (DD s v) as [q|] eqn:Hv.
    - apply (IH lw _ R m).
      + eapply (K_skip g src); eauto. congruence.
      + unfold pot, unfin, unfin_row, DD in *. cbn [bfr bD] in *. lia.
    - destruct (K_final g src Hsrc Hcost s R m lw x t d pred v rest
                 (upd v (Qred (get 0 (bsig s) v + get 0 (bsig s) pred)) (bsig s)) (bP s) (bS s ++ [v])
                 HK Hfr Hex Hv) as [z [Ed HK1]].
      assert (Hb : In (d, pred, v) (bfr s)).
      { rewrite Hfr. assert (X : In (d, pred, v) (x :: t ++ [])) by (apply Hmem; left; reflexivity). rewrite app_nil_r in X. exact X. }
      destruct (k_fr _ _ _ _ _ _ HK d pred v Hb) as [Hvn _]. destruct (k_len _ _ _ _ _ _ HK) as [HlD _].
      set (s2 := mkbs (upd v (Some d) (bD s)) (bseen s) (upd v (Qred (get 0 (bsig s) v + get 0 (bsig s) pred)) (bsig s))
                      (bP s) (bS s ++ [v]) rest) in *.
      destruct (K_row g src Hok Hsrc Hcost (get [] g v) s2 R z v ltac:(auto) HK1) as [R' HK2].
      rewrite Ed. apply (IH lw _ R' z HK2).
      rewrite <- Ed. unfold pot.
      pose proof (row_fr v d (get [] g v) s2) as F1.
      rewrite (unfin_ext s2 _ (row_D v d (get [] g v) s2)).
      pose proof (unfin_final s s2 v d Hvn Hv HlD eq_refl) as F2.
      change (length (bfr s2)) with (length rest) in F1. lia.
  Qed.

  Theorem bdijkstra_total : forall lw, exists s, bdijkstra lw g src = Some s.
  Proof.
    intros lw. unfold bdijkstra. apply (bloop_fuel _ lw _ [] 0%Z (K_init g src Hsrc)).
    assert (E0 : unfin (init_b g src) = nedges g).
    { rewrite <- nedges_rows. unfold unfin. apply f_equal. apply map_ext. intros v. unfold unfin_row, DD, init_b. cbn [bD].
      destruct (get_repeat _ (@None Q) n v None) as [H|H]; rewrite H; reflexivity. }
    unfold pot. rewrite E0. unfold init_b. cbn [bfr length]. lia.
  Qed.
End HeapFuel.
