(* C05, hop-count mode: Brandes' lemma.  Part 1: the shortest-path sets of the
   definition ([spec_sp], brute-force enumeration) are, up to order, the path
   sets generated backwards from the predecessor lists P of the model's stage. *)
From Coq Require Import List Bool ZArith Arith QArith Lia Lqa Permutation.
From GV Require Import Model.Cent Model.Brandes Spec.BetweennessDef Spec.ClosenessDef.
From GV Require Import Proofs.CentBase Proofs.BrandesOk Proofs.BrandesAccOk Proofs.ClosenessOk Proofs.ClosenessBfsOk.
From GV Require Import Proofs.BrandesBfsOk Proofs.PathsOk.
Import ListNotations.
Open Scope list_scope.

Lemma is_path_snoc : forall g p u t, is_path g p -> last p u = u -> E g u t -> is_path g (p ++ [t]).
Proof.
  intros g. induction p as [|a rest IH]; intros u t Hp Hl He; [destruct Hp|].
  destruct rest as [|b rest'].
  - cbn in Hl. subst a. cbn [app]. apply (is_path_cons g). split; [exact He | exact I].
  - change ((a :: b :: rest') ++ [t]) with (a :: (b :: rest') ++ [t]).
    apply (is_path_cons g) in Hp. destruct Hp as [Hab Hp].
    change ((b :: rest') ++ [t]) with (b :: rest' ++ [t]).
    apply (is_path_cons g). split; [exact Hab|].
    change (b :: rest' ++ [t]) with ((b :: rest') ++ [t]). apply (IH u); auto.
Qed.

Lemma is_path_snoc_inv : forall g p t, p <> [] -> is_path g (p ++ [t]) -> is_path g p /\ E g (last p t) t.
Proof.
  intros g. induction p as [|a rest IH]; intros t Hne Hp; [congruence|].
  destruct rest as [|b rest'].
  - cbn [app] in Hp. apply (is_path_cons g) in Hp. destruct Hp as [He _]. split; [exact I | exact He].
  - change ((a :: b :: rest') ++ [t]) with (a :: b :: rest' ++ [t]) in Hp.
    apply (is_path_cons g) in Hp. destruct Hp as [Hab Hp].
    destruct (IH t ltac:(discriminate) Hp) as [H1 H2]. split.
    + apply (is_path_cons g). split; assumption.
    + exact H2.
Qed.

Lemma filter_length_perm : forall (X : Type) (f : X -> bool) l l',
  Permutation l l' -> length (filter f l) = length (filter f l').
Proof.
  intros X f l l' H. induction H; cbn.
  - reflexivity.
  - destruct (f x); cbn; congruence.
  - destruct (f x); destruct (f y); reflexivity.
  - congruence.
Qed.

Section Lemma1.
  Variable g : qadj.
  Variable src : nat.
  Notation n := (length g).
  Hypothesis Hok : adj_ok n g = true.
  Hypothesis Hsrc : (src < n)%nat.
  Hypothesis Hrows : forall v, NoDup (map fst (get [] g v)).
  Hypothesis Hunit : forall v a, In a (get [] g v) -> snd a = 1.
  Variable s : qs.
  Hypothesis Hs : bbfs g src = Some s.

  Notation D := (Dn s).
  Notation P := (fun w => get [] (qP s) w).

  (* ---------------------------------------------------------------- paths are walks *)
  Lemma path_walk : forall p u t, path_from_to g p u t ->
    walk (unit_z g) u t (Z.of_nat (length p - 1)).
  Proof.
    induction p as [|a rest IH]; intros u t [Hp [Hh Hl]]; [destruct Hp|].
    cbn in Hh. inversion Hh. subst a. destruct rest as [|y rest'].
    - cbn in Hl. subst t. cbn. apply walk_nil.
    - apply (is_path_cons g) in Hp. destruct Hp as [He Hp].
      assert (Hw : walk (unit_z g) y t (Z.of_nat (length (y :: rest') - 1))).
      { apply IH. split; [exact Hp|]. split; [reflexivity|].
        change (last (u :: y :: rest') u) with (last (y :: rest') u) in Hl.
        rewrite (last_cons_indep rest' y y u). exact Hl. }
      replace (Z.of_nat (length (u :: y :: rest') - 1)) with (1 + Z.of_nat (length (y :: rest') - 1))%Z
        by (cbn [length]; lia).
      apply walk_cons with (w := y); [apply in_zrow_unit; auto | exact Hw].
  Qed.

  Lemma D_is_dist : forall t k, D t = Some k -> is_dist (unit_z g) src t (Z.of_nat k).
  Proof.
    intros t k H. pose proof (stage_D g src Hok Hsrc Hrows s Hs t) as X.
    rewrite (oget_dvec s) in X. rewrite H in X. exact X.
  Qed.

  Lemma D_none_unreach : forall t, D t = None -> ~ reach (unit_z g) src t.
  Proof.
    intros t H. pose proof (stage_D g src Hok Hsrc Hrows s Hs t) as X.
    rewrite (oget_dvec s) in X. rewrite H in X. exact X.
  Qed.

  Lemma path_lower : forall p t k, path_from_to g p src t -> D t = Some k -> (S k <= length p)%nat.
  Proof.
    intros p t k Hp Hk. destruct (D_is_dist t k Hk) as [_ Hmin].
    pose proof (Hmin _ (path_walk p src t Hp)) as X.
    destruct p as [|a rest]; [destruct Hp as [[] _]|]. cbn [length] in *. lia.
  Qed.

  Lemma path_reach_D : forall p t, path_from_to g p src t -> exists k, D t = Some k.
  Proof.
    intros p t Hp. destruct (D t) as [k|] eqn:E0; [exists k; reflexivity|].
    exfalso. apply (D_none_unreach t E0). eexists. apply (path_walk p src t Hp).
  Qed.

  (* ---------------------------------------------------------------- the path sets generated from P *)
  Fixpoint spd (k : nat) (t : nat) : list (list nat) :=
    match k with
    | O => if Nat.eqb t src then [[src]] else []
    | S k' => flat_map (fun u => map (fun p => p ++ [t]) (spd k' u)) (P t)
    end.

  Lemma P_spec : forall w u, In u (P w) <-> E g u w /\ exists k, D u = Some k /\ D w = Some (S k).
  Proof. intros w u. destruct (stage_P g src Hok Hsrc Hrows s Hs w) as [_ H]. apply H. Qed.
  Lemma P_nodup : forall w, NoDup (P w).
  Proof. intros w. destruct (stage_P g src Hok Hsrc Hrows s Hs w) as [H _]. exact H. Qed.
  Lemma D_src : D src = Some O.
  Proof. exact (stage_src g src Hok Hsrc Hrows s Hs). Qed.

  Lemma spd_sound : forall k t p, In p (spd k t) ->
    D t = Some k /\ path_from_to g p src t /\ length p = S k.
  Proof.
    induction k as [|k IH]; intros t p H; cbn [spd] in H.
    - destruct (Nat.eqb t src) eqn:E0; [|destruct H]. apply Nat.eqb_eq in E0. subst t.
      destruct H as [H|[]]. subst p. split; [exact D_src|]. split; [repeat split | reflexivity].
    - apply in_flat_map in H. destruct H as [u [Hu H]]. apply in_map_iff in H. destruct H as [p' [Ep Hp']]. subst p.
      apply P_spec in Hu. destruct Hu as [He [k' [Du Dt]]].
      destruct (IH _ _ Hp') as [Du' [[Hpath [Hhd Hlast]] Hlen]].
      rewrite Du in Du'. inversion Du'. subst k'.
      destruct p' as [|a rest]; [destruct Hpath|].
      split; [exact Dt|]. split; [|rewrite app_length; cbn [length] in *; lia].
      split; [|split].
      + apply (is_path_snoc g (a :: rest) u t); auto. rewrite (last_cons_indep rest a u src). exact Hlast.
      + exact Hhd.
      + rewrite last_last. reflexivity.
  Qed.

  Lemma spd_complete : forall k t p,
    D t = Some k -> path_from_to g p src t -> length p = S k -> In p (spd k t).
  Proof.
    induction k as [|k IH]; intros t p Dt [Hpath [Hhd Hlast]] Hlen; cbn [spd].
    - destruct p as [|a [|b rest]]; cbn in Hlen; try lia. cbn in Hhd, Hlast. inversion Hhd. subst a t.
      rewrite Nat.eqb_refl. left. reflexivity.
    - destruct (@exists_last _ p) as [p' [t' Ep]]; [intro X; subst; cbn in Hlen; lia|]. subst p.
      rewrite last_last in Hlast. subst t'.
      rewrite app_length in Hlen. cbn [length] in Hlen.
      assert (Hne : p' <> []) by (intro X; subst; cbn in Hlen; lia).
      destruct (is_path_snoc_inv g p' t Hne Hpath) as [Hp' He].
      set (u := last p' t) in *.
      assert (Hpu : path_from_to g p' src u).
      { split; [exact Hp'|]. split.
        - destruct p' as [|a rest]; [congruence|]. exact Hhd.
        - destruct p' as [|a rest]; [congruence|]. unfold u. apply last_cons_indep. }
      destruct (path_reach_D p' u Hpu) as [j Dj].
      pose proof (path_lower p' u j Hpu Dj) as L1.
      (* triangle: dist t <= dist u + 1 *)
      destruct (D_is_dist u j Dj) as [Wu _]. destruct (D_is_dist t (S k) Dt) as [_ Mt].
      assert (Wt : walk (unit_z g) src t (Z.of_nat j + 1)) by (apply walk_snoc with (v := u); [exact Wu | apply in_zrow_unit; auto]).
      pose proof (Mt _ Wt) as L2.
      assert (j = k) by lia. subst j.
      apply in_flat_map. exists u. split; [apply P_spec; split; [exact He | exists k; auto]|].
      apply in_map_iff. exists p'. split; [reflexivity|]. apply IH; auto. lia.
  Qed.

  Lemma spd_levels : forall k t p, In p (spd k t) -> forall x, In x p -> exists j, D x = Some j /\ (j <= k)%nat /\ (j = k -> x = t).
  Proof.
    induction k as [|k IH]; intros t p H x Hx; cbn [spd] in H.
    - destruct (Nat.eqb t src) eqn:E0; [|destruct H]. apply Nat.eqb_eq in E0. subst t.
      destruct H as [H|[]]. subst p. destruct Hx as [Hx|[]]. subst x. exists O. split; [exact D_src|]. split; [lia | reflexivity].
    - apply in_flat_map in H. destruct H as [u [Hu H]]. apply in_map_iff in H. destruct H as [p' [Ep Hp']]. subst p.
      apply in_app_or in Hx. destruct Hx as [Hx|[Hx|[]]].
      + destruct (IH _ _ Hp' x Hx) as [j [Dj [Hle _]]]. exists j. split; [exact Dj|]. split; [lia|]. intro X. lia.
      + subst x. apply P_spec in Hu. destruct Hu as [_ [k' [Du Dt]]].
        destruct (spd_sound _ _ _ Hp') as [Du' _]. rewrite Du in Du'. inversion Du'. subst k'.
        exists (S k). split; [exact Dt|]. split; [lia | reflexivity].
  Qed.

  Lemma spd_simple : forall k t p, In p (spd k t) -> NoDup p.
  Proof.
    induction k as [|k IH]; intros t p H; cbn [spd] in H.
    - destruct (Nat.eqb t src); [|destruct H]. destruct H as [H|[]]. subst p. constructor; [intros []|constructor].
    - pose proof H as H0. apply in_flat_map in H. destruct H as [u [Hu H]]. apply in_map_iff in H. destruct H as [p' [Ep Hp']]. subst p.
      apply NoDup_app_one; [eapply IH; eauto|].
      intro X. destruct (spd_levels _ _ _ Hp' t X) as [j [Dj [Hle _]]].
      destruct (spd_sound (S k) t _ H0) as [Dt _]. rewrite Dt in Dj. inversion Dj. lia.
  Qed.

  Lemma spd_nodup : forall k t, NoDup (spd k t).
  Proof.
    induction k as [|k IH]; intros t; cbn [spd].
    - destruct (Nat.eqb t src); constructor; [intros []|constructor].
    - apply NoDup_flat_map.
      + apply P_nodup.
      + intros u _. apply NoDup_map_inj; [|apply IH]. intros a b _ _ Eq. apply app_inj_tail in Eq. destruct Eq. assumption.
      + intros u1 u2 y _ _ H1 H2. apply in_map_iff in H1. destruct H1 as [p1 [E1 H1]]. apply in_map_iff in H2. destruct H2 as [p2 [E2 H2]].
        subst y. apply app_inj_tail in E2. destruct E2 as [E2 _]. subst p2.
        destruct (spd_sound _ _ _ H1) as [_ [[_ [_ L1]] _]]. destruct (spd_sound _ _ _ H2) as [_ [[_ [_ L2]] _]].
        congruence.
  Qed.

  Lemma spd_nonempty : forall k t, D t = Some k -> spd k t <> [].
  Proof.
    induction k as [|k IH]; intros t Dt.
    - cbn [spd]. assert (t = src).
      { destruct (D_is_dist t O Dt) as [W _]. destruct (Nat.eq_dec t src) as [E0|E0]; [exact E0|].
        exfalso. pose proof (stage_D g src Hok Hsrc Hrows s Hs t) as X. rewrite (oget_dvec s), Dt in X.
        (* a walk of weight 0 from src ends at src *)
        assert (G : forall w x, walk (unit_z g) src w x -> (x = 0)%Z -> w = src /\ True).
        { intros w x Hw. induction Hw as [|v w c x Hw IHw Hin]; intro Ex; [auto|].
          apply in_zrow_unit in Hin. destruct Hin as [Ec _]. subst c.
          assert (Hx : (0 <= x)%Z).
          { clear IHw Ex. induction Hw as [|v' w' c' x' Hw' IHw' Hin']; [lia|]. apply in_zrow_unit in Hin'. destruct Hin' as [Ec' _]. lia. }
          lia. }
        destruct (G t 0%Z W eq_refl) as [G1 _]. contradiction. }
      subst t. rewrite Nat.eqb_refl. discriminate.
    - cbn [spd]. destruct (stage_tight g src Hok Hsrc Hrows s Hs t k Dt) as [u [He Du]].
      assert (Hu : In u (P t)) by (apply P_spec; split; [exact He | exists k; auto]).
      pose proof (IH u Du) as Hne. intro X. change (spd (S k) t = []) in X.
      destruct (spd k u) as [|p0 rest] eqn:Es; [congruence|].
      assert (Hin : In (p0 ++ [t]) (spd (S k) t)).
      { cbn [spd]. apply in_flat_map. exists u. split; [exact Hu|]. rewrite Es. left. reflexivity. }
      rewrite X in Hin. destruct Hin.
  Qed.

  (* the shortest-path set of the stage for target t *)
  Definition SPt (t : nat) : list (list nat) := match D t with Some k => spd k t | None => [] end.

  (* ---------------------------------------------------------------- SP s t of the definition = SPt t up to order *)
  Theorem spec_sp_perm : forall t, Permutation (spec_sp g src t) (SPt t).
  Proof.
    intros t. unfold SPt. destruct (D t) as [k|] eqn:Dt.
    - assert (Hne := spd_nonempty k t Dt).
      destruct (spd k t) as [|p0 rest] eqn:Es; [congruence|].
      assert (Hp0 : In p0 (spd k t)) by (rewrite Es; left; reflexivity).
      destruct (spd_sound _ _ _ Hp0) as [_ [Hpath0 Hlen0]].
      destruct (spec_sp_char g Hok Hrows Hunit src t k Hsrc) as [Hnd Hiff].
      + exists p0. split; [exact Hpath0|]. split; [eapply spd_simple; eauto | exact Hlen0].
      + intros p Hp. eapply path_lower; eauto.
      + rewrite <- Es. apply NoDup_Permutation; [exact Hnd | apply spd_nodup|].
        intros p. rewrite Hiff. split.
        * intros [Hp [_ Hl]]. apply spd_complete; auto.
        * intros Hp. destruct (spd_sound _ _ _ Hp) as [_ [Hpath Hlen]]. split; [exact Hpath|]. split; [eapply spd_simple; eauto | exact Hlen].
    - destruct (spec_sp g src t) as [|p rest] eqn:Es; [constructor|].
      exfalso. assert (Hp : In p (spec_sp g src t)) by (rewrite Es; left; reflexivity).
      apply spec_sp_sound in Hp. destruct (path_reach_D p t Hp) as [k Hk]. congruence.
  Qed.

  Theorem pair_dep_SPt : forall t v, pair_dep (spec_sp g src t) v = pair_dep (SPt t) v.
  Proof.
    intros t v. pose proof (spec_sp_perm t) as Hp. unfold pair_dep.
    assert (Hl : length (spec_sp g src t) = length (SPt t)) by (apply Permutation_length; exact Hp).
    assert (Hc : cnt_through v (spec_sp g src t) = cnt_through v (SPt t)) by (apply filter_length_perm; exact Hp).
    destruct (spec_sp g src t) as [|a r]; destruct (SPt t) as [|b r']; try (cbn in Hl; discriminate); [reflexivity|].
    rewrite Hc, Hl. reflexivity.
  Qed.
End Lemma1.
