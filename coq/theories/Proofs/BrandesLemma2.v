(* C05, hop-count mode: Brandes' lemma.  Part 2: path counts on the stage's
   path sets — sigma counts the shortest paths, the number of shortest paths
   through v obeys the last-step recursion — and the resulting dependency
   recurrence, which has a unique solution. *)
From Coq Require Import List Bool ZArith Arith QArith Lia Lqa Permutation.
From GV Require Import Model.Cent Model.Brandes Spec.BetweennessDef Spec.ClosenessDef.
From GV Require Import Proofs.CentBase Proofs.BrandesOk Proofs.BrandesAccOk Proofs.ClosenessOk Proofs.ClosenessBfsOk.
From GV Require Import Proofs.BrandesBfsOk Proofs.PathsOk Proofs.BrandesLemma.
Import ListNotations.
Open Scope list_scope.

(* ------------------------------------------------------------------ finite sums *)
Lemma Qsum_scal : forall (X : Type) (c : Q) (f : X -> Q) l, Qsum (map (fun x => c * f x) l) == c * Qsum (map f l).
Proof. induction l as [|x t IH]; cbn [map]; [rewrite Qsum_nil; ring|]. repeat rewrite Qsum_cons. rewrite IH. ring. Qed.

Lemma Qsum_plus : forall (X : Type) (f h : X -> Q) l,
  Qsum (map (fun x => f x + h x) l) == Qsum (map f l) + Qsum (map h l).
Proof. induction l as [|x t IH]; cbn [map]; [repeat rewrite Qsum_nil; ring|]. repeat rewrite Qsum_cons. rewrite IH. ring. Qed.

Lemma Qsum_exchange : forall (X Y : Type) (f : X -> Y -> Q) l1 l2,
  Qsum (map (fun x => Qsum (map (fun y => f x y) l2)) l1) == Qsum (map (fun y => Qsum (map (fun x => f x y) l1)) l2).
Proof.
  induction l1 as [|x t IH]; intros l2; cbn [map].
  - rewrite Qsum_nil. symmetry. apply Qsum_zero. intros y _. reflexivity.
  - rewrite Qsum_cons. rewrite IH. rewrite <- Qsum_plus. apply Qsum_map_ext. intros y _. rewrite Qsum_cons. reflexivity.
Qed.

Lemma Qsum_indicator : forall (c : Q) v l, NoDup l ->
  Qsum (map (fun x => if Nat.eqb x v then c else 0) l) == if nmem v l then c else 0.
Proof.
  induction l as [|x t IH]; intros Hnd; cbn [map nmem existsb]; [rewrite Qsum_nil; reflexivity|].
  apply NoDup_cons_iff in Hnd. destruct Hnd as [Hnot Hnd]. rewrite Qsum_cons. rewrite IH by exact Hnd. fold (nmem v t).
  rewrite (Nat.eqb_sym v x). destruct (Nat.eqb x v) eqn:E0.
  - apply Nat.eqb_eq in E0. subst x. replace (nmem v t) with false by (symmetry; apply nmem_false; exact Hnot). cbn. ring.
  - cbn [orb]. ring.
Qed.

Lemma Qsum_indicator_seq : forall (c : Q) v k, (v < k)%nat ->
  Qsum (map (fun x => if Nat.eqb x v then c else 0) (seq 0 k)) == c.
Proof.
  intros c v k H. rewrite Qsum_indicator by apply seq_NoDup.
  replace (nmem v (seq 0 k)) with true; [reflexivity|]. symmetry. apply nmem_In. apply in_seq. lia.
Qed.

(* a sum over a duplicate-free sub-list of 0..k-1 as a sum over the whole range *)
Lemma Qsum_sublist : forall (f : nat -> Q) l k, NoDup l -> (forall x, In x l -> (x < k)%nat) ->
  Qsum (map f l) == Qsum (map (fun w => if nmem w l then f w else 0) (seq 0 k)).
Proof.
  induction l as [|x t IH]; intros k Hnd Hr; cbn [map].
  - rewrite Qsum_nil. symmetry. apply Qsum_zero. intros w _. reflexivity.
  - apply NoDup_cons_iff in Hnd. destruct Hnd as [Hnot Hnd]. rewrite Qsum_cons.
    rewrite (IH k Hnd) by (intros y Hy; apply Hr; right; exact Hy).
    rewrite <- (Qsum_indicator_seq (f x) x k) at 1 by (apply Hr; left; reflexivity).
    rewrite <- Qsum_plus. apply Qsum_map_ext. intros w _. cbn [nmem existsb]. fold (nmem w t).
    destruct (Nat.eqb w x) eqn:E0.
    + apply Nat.eqb_eq in E0. subst w. replace (nmem x t) with false by (symmetry; apply nmem_false; exact Hnot). cbn. ring.
    + cbn [orb]. destruct (nmem w t); ring.
Qed.

Lemma qn_plus : forall a b, qn (a + b) == qn a + qn b.
Proof. intros. unfold qn. rewrite Nat2Z.inj_add, inject_Z_plus. reflexivity. Qed.

Lemma qn_length_flat_map : forall (X Y : Type) (f : X -> list Y) l,
  qn (length (flat_map f l)) == Qsum (map (fun x => qn (length (f x))) l).
Proof.
  induction l as [|x t IH]; cbn [flat_map map]; [reflexivity|].
  rewrite app_length, qn_plus, Qsum_cons, IH. reflexivity.
Qed.

Lemma flat_map_ext_in : forall (X Y : Type) (f h : X -> list Y) l, (forall x, In x l -> f x = h x) -> flat_map f l = flat_map h l.
Proof.
  induction l as [|x t IH]; intros H; cbn; [reflexivity|]. rewrite (H x) by (left; reflexivity).
  rewrite IH; [reflexivity|]. intros y Hy. apply H. right. exact Hy.
Qed.

Lemma cnt_through_flat_map : forall (X : Type) v (f : X -> list (list nat)) l,
  qn (cnt_through v (flat_map f l)) == Qsum (map (fun x => qn (cnt_through v (f x))) l).
Proof.
  induction l as [|x t IH]; cbn [flat_map map]; [reflexivity|].
  unfold cnt_through in *. rewrite filter_app, app_length, qn_plus, Qsum_cons, IH. reflexivity.
Qed.

Lemma nmem_snoc : forall v p t, nmem v (p ++ [t]) = nmem v p || Nat.eqb v t.
Proof. intros. unfold nmem. rewrite existsb_app. cbn. rewrite orb_false_r. reflexivity. Qed.

Lemma cnt_through_snoc : forall v t (l : list (list nat)),
  cnt_through v (map (fun p => p ++ [t]) l) = if Nat.eqb v t then length l else cnt_through v l.
Proof.
  intros v t. induction l as [|p r IH]; cbn [map]; [destruct (Nat.eqb v t); reflexivity|].
  unfold cnt_through in *. cbn [filter]. rewrite nmem_snoc. destruct (Nat.eqb v t) eqn:E0.
  - rewrite orb_true_r. cbn [length]. rewrite IH. reflexivity.
  - rewrite orb_false_r. destruct (nmem v p); cbn [length]; rewrite IH; reflexivity.
Qed.

Lemma filter_none : forall (X : Type) (f : X -> bool) l, (forall x, In x l -> f x = false) -> filter f l = [].
Proof.
  induction l as [|x t IH]; intros H; cbn; [reflexivity|]. rewrite (H x) by (left; reflexivity).
  apply IH. intros y Hy. apply H. right. exact Hy.
Qed.
Lemma filter_all : forall (X : Type) (f : X -> bool) l, (forall x, In x l -> f x = true) -> filter f l = l.
Proof.
  induction l as [|x t IH]; intros H; cbn; [reflexivity|]. rewrite (H x) by (left; reflexivity).
  f_equal. apply IH. intros y Hy. apply H. right. exact Hy.
Qed.

Section Lemma2.
  Variable g : qadj.
  Variable src : nat.
  Notation n := (length g).
  Hypothesis Hok : adj_ok n g = true.
  Hypothesis Hsrc : (src < n)%nat.
  Hypothesis Hrows : forall v, NoDup (map fst (get [] g v)).
  Hypothesis Hunit : forall v a, In a (get [] g v) -> snd a = 1.
  Variable s : qs.
  Hypothesis Hs : bbfs g src = Some s.

  Notation D := (Dn s).
  Notation P := (fun w => get [] (qP s) w).
  Notation sg := (fun w => get 0 (qsig s) w).
  Notation SPt := (SPt src s).
  Notation spd := (spd src s).
  Notation V := (seq 0 n).

  Let P_spec := P_spec g src Hok Hsrc Hrows s Hs.
  Let P_nodup := P_nodup g src Hok Hsrc Hrows s Hs.
  Let D_src := D_src g src Hok Hsrc Hrows s Hs.

  Definition Nn (t : nat) : Q := qn (length (SPt t)).
  Definition Mm (v t : nat) : Q := qn (cnt_through v (SPt t)).

  Lemma SPt_some : forall t k, D t = Some k -> SPt t = spd k t.
  Proof. intros t k H. unfold BrandesLemma.SPt. rewrite H. reflexivity. Qed.
  Lemma SPt_none : forall t, D t = None -> SPt t = [].
  Proof. intros t H. unfold BrandesLemma.SPt. rewrite H. reflexivity. Qed.

  Lemma SPt_rec : forall t k, D t = Some (S k) ->
    SPt t = flat_map (fun u => map (fun p => p ++ [t]) (SPt u)) (P t).
  Proof.
    intros t k H. rewrite (SPt_some t (S k) H). cbn [BrandesLemma.spd]. apply flat_map_ext_in.
    intros u Hu. apply P_spec in Hu. destruct Hu as [_ [k' [Du Dt]]]. rewrite H in Dt. inversion Dt. subst k'.
    rewrite (SPt_some u k Du). reflexivity.
  Qed.

  Lemma D_zero_src : forall t, D t = Some O -> t = src.
  Proof.
    intros t Dt. pose proof (spd_nonempty g src Hok Hsrc Hrows s Hs O t Dt) as H. cbn [BrandesLemma.spd] in H.
    destruct (Nat.eqb t src) eqn:E0; [apply Nat.eqb_eq; exact E0 | congruence].
  Qed.

  Lemma P_range : forall w u, In u (P w) -> (u < n)%nat.
  Proof.
    intros w u Hu. apply P_spec in Hu. destruct Hu as [_ [k [Du _]]].
    destruct (stage_S g src Hok Hsrc Hrows s Hs) as [_ [Hdom [_ Hr]]]. apply Hr. apply Hdom. congruence.
  Qed.

  Lemma D_range : forall w k, D w = Some k -> (w < n)%nat.
  Proof.
    intros w k H. destruct (stage_S g src Hok Hsrc Hrows s Hs) as [_ [Hdom [_ Hr]]]. apply Hr. apply Hdom. congruence.
  Qed.

  Lemma P_src_nil : P src = [].
  Proof.
    destruct (P src) as [|u r] eqn:E0; [reflexivity|]. exfalso.
    assert (Hu : In u (P src)) by (rewrite E0; left; reflexivity).
    apply P_spec in Hu. destruct Hu as [_ [k [_ X]]]. rewrite D_src in X. discriminate.
  Qed.

  Lemma P_none_nil : forall w, D w = None -> P w = [].
  Proof.
    intros w H. destruct (P w) as [|u r] eqn:E0; [reflexivity|]. exfalso.
    assert (Hu : In u (P w)) by (rewrite E0; left; reflexivity).
    apply P_spec in Hu. destruct Hu as [_ [k [_ X]]]. congruence.
  Qed.

  (* ---------------------------------------------------------------- sigma counts the shortest paths *)
  Lemma N_sigma : forall k t, D t = Some k -> Nn t == sg t.
  Proof.
    induction k as [|k IH]; intros t Dt.
    - pose proof (D_zero_src t Dt). subst t. unfold Nn. rewrite (SPt_some src O Dt). cbn [BrandesLemma.spd].
      rewrite Nat.eqb_refl. cbn [length]. destruct (stage_sigma g src Hok Hsrc Hrows s Hs) as [H1 _]. rewrite H1. reflexivity.
    - unfold Nn. rewrite (SPt_rec t k Dt). rewrite qn_length_flat_map.
      assert (Hne : t <> src) by (intro X; subst; rewrite D_src in Dt; discriminate).
      destruct (stage_sigma g src Hok Hsrc Hrows s Hs) as [_ H2]. rewrite (H2 t Hne).
      apply Qsum_map_ext. intros u Hu. rewrite map_length. fold (Nn u). apply IH.
      apply P_spec in Hu. destruct Hu as [_ [k' [Du Dt']]]. rewrite Dt in Dt'. inversion Dt'. subst. exact Du.
  Qed.

  Lemma N_none : forall t, D t = None -> Nn t = 0.
  Proof. intros t H. unfold Nn. rewrite (SPt_none t H). reflexivity. Qed.

  Lemma sigma_none : forall t, D t = None -> sg t == 0.
  Proof.
    intros t H. assert (Hne : t <> src) by (intro X; subst; rewrite D_src in H; discriminate).
    destruct (stage_sigma g src Hok Hsrc Hrows s Hs) as [_ H2]. rewrite (H2 t Hne). rewrite (P_none_nil t H). reflexivity.
  Qed.

  Lemma N_eq_sigma : forall t, Nn t == sg t.
  Proof.
    intros t. destruct (D t) as [k|] eqn:Dt; [eapply N_sigma; eauto|]. rewrite (N_none t Dt), (sigma_none t Dt). reflexivity.
  Qed.

  Lemma sigma_pos : forall t k, D t = Some k -> ~ sg t == 0.
  Proof.
    intros t k Dt X. rewrite <- (N_sigma k t Dt) in X. unfold Nn in X. rewrite (SPt_some t k Dt) in X.
    pose proof (spd_nonempty g src Hok Hsrc Hrows s Hs k t Dt) as Hne.
    destruct (spd k t) as [|p r]; [congruence|]. cbn [length] in X. unfold qn in X.
    change 0 with (inject_Z 0) in X. rewrite inject_Z_injective in X. lia.
  Qed.

  (* ---------------------------------------------------------------- paths through v: last-step recursion *)
  Lemma M_rec : forall v t k, D t = Some (S k) ->
    Mm v t == if Nat.eqb v t then Nn t else Qsum (map (Mm v) (P t)).
  Proof.
    intros v t k Dt. unfold Mm at 1. rewrite (SPt_rec t k Dt). rewrite cnt_through_flat_map.
    destruct (Nat.eqb v t) eqn:E0.
    - unfold Nn. rewrite (SPt_rec t k Dt). rewrite qn_length_flat_map. apply Qsum_map_ext. intros u _.
      rewrite cnt_through_snoc, E0, map_length. reflexivity.
    - apply Qsum_map_ext. intros u _. rewrite cnt_through_snoc, E0. reflexivity.
  Qed.

  Lemma M_src : forall v, Mm v src = if Nat.eqb v src then 1 else 0.
  Proof.
    intros v. unfold Mm. rewrite (SPt_some src O D_src). cbn [BrandesLemma.spd]. rewrite Nat.eqb_refl.
    unfold cnt_through. cbn [filter nmem existsb]. destruct (Nat.eqb v src); reflexivity.
  Qed.

  Lemma M_none : forall v t, D t = None -> Mm v t = 0.
  Proof. intros v t H. unfold Mm. rewrite (SPt_none t H). reflexivity. Qed.

  (* a node at the same or a higher level than t, other than t itself, lies on no shortest path to t *)
  Lemma M_zero : forall w u, w <> u ->
    (forall i j, D w = Some i -> D u = Some j -> (j <= i)%nat) -> Mm w u = 0.
  Proof.
    intros w u Hne Hlev. unfold Mm. destruct (D u) as [j|] eqn:Du; [|rewrite (SPt_none u Du); reflexivity].
    rewrite (SPt_some u j Du). unfold cnt_through.
    replace (filter (fun p => nmem w p) (spd j u)) with (@nil (list nat)); [reflexivity|].
    symmetry. apply filter_none.
    intros p Hp. apply nmem_false. intro Hw.
    destruct (spd_levels g src Hok Hsrc Hrows s Hs j u p Hp w Hw) as [i [Dw [Hle Heq]]].
    pose proof (Hlev i j Dw eq_refl). assert (i = j) by lia. apply Hne. apply Heq. assumption.
  Qed.

  Lemma M_self : forall v, Mm v v == sg v.
  Proof.
    intros v. rewrite <- N_eq_sigma. unfold Mm, Nn. destruct (D v) as [k|] eqn:Dv; [|rewrite (SPt_none v Dv); reflexivity].
    rewrite (SPt_some v k Dv). unfold cnt_through.
    replace (filter (fun p => nmem v p) (spd k v)) with (spd k v); [reflexivity|].
    symmetry. apply filter_all. intros p Hp. apply nmem_In.
    destruct (spd_sound g src Hok Hsrc Hrows s Hs k v p Hp) as [_ [[Hpath [_ Hl]] _]].
    destruct p as [|a r]; [destruct Hpath|]. rewrite <- Hl. apply last_In.
  Qed.

  (* ---------------------------------------------------------------- one uniform step equation *)
  Lemma M_step : forall w t,
    Mm w t == (if Nat.eqb w t then sg t else 0) + Qsum (map (Mm w) (P t)).
  Proof.
    intros w t. destruct (D t) as [[|k]|] eqn:Dt.
    - pose proof (D_zero_src t Dt). subst t. rewrite M_src, P_src_nil. cbn [map]. rewrite Qsum_nil.
      destruct (stage_sigma g src Hok Hsrc Hrows s Hs) as [H1 _]. rewrite H1. destruct (Nat.eqb w src); ring.
    - rewrite (M_rec w t k Dt). destruct (Nat.eqb w t) eqn:E0.
      + apply Nat.eqb_eq in E0. subst w. rewrite N_eq_sigma. rewrite Qsum_zero; [ring|].
        intros u Hu. apply P_spec in Hu. destruct Hu as [_ [k' [Du Dt']]]. rewrite Dt in Dt'. inversion Dt'. subst k'.
        rewrite M_zero; [reflexivity | intro X; subst u; rewrite Dt in Du; inversion Du; lia |].
        intros i j Hi Hj. rewrite Dt in Hi. rewrite Du in Hj. inversion Hi; inversion Hj. lia.
      + ring.
    - rewrite (M_none w t Dt), (P_none_nil t Dt). cbn [map]. rewrite Qsum_nil.
      destruct (Nat.eqb w t); [rewrite (sigma_none t Dt)|]; ring.
  Qed.

  Lemma M_pred_zero : forall v w, In v (P w) -> Mm w v = 0.
  Proof.
    intros v w H. apply P_spec in H. destruct H as [_ [k [Dv Dw]]].
    apply M_zero; [intro X; subst w; rewrite Dv in Dw; inversion Dw; lia|].
    intros i j Hi Hj. rewrite Dw in Hi. rewrite Dv in Hj. inversion Hi; inversion Hj. lia.
  Qed.

  (* ---------------------------------------------------------------- decomposition by the successor of v *)
  Definition cf (v w : nat) : Q := if nmem v (P w) then sg v / sg w else 0.

  Lemma cf_M_self_zero : forall v, Qsum (map (fun w => cf v w * Mm w v) V) == 0.
  Proof.
    intros v. apply Qsum_zero. intros w _. unfold cf. destruct (nmem v (P w)) eqn:E0; [|ring].
    apply nmem_In in E0. rewrite (M_pred_zero v w E0). ring.
  Qed.

  Lemma cf_sigma : forall v t k, D t = Some k -> cf v t * sg t == if nmem v (P t) then sg v else 0.
  Proof.
    intros v t k Dt. unfold cf. destruct (nmem v (P t)); [|ring]. field. eapply sigma_pos; eauto.
  Qed.

  Theorem diamond : forall k t v, D t = Some k -> t <> v ->
    Mm v t == Qsum (map (fun w => cf v w * Mm w t) V).
  Proof.
    induction k as [|k IH]; intros t v Dt Hne.
    - pose proof (D_zero_src t Dt). subst t. rewrite M_src.
      replace (Nat.eqb v src) with false by (symmetry; apply Nat.eqb_neq; congruence).
      symmetry. apply Qsum_zero. intros w _. rewrite M_src. unfold cf. destruct (Nat.eqb w src) eqn:E0; [|ring].
      apply Nat.eqb_eq in E0. subst w. rewrite P_src_nil. cbn. ring.
    - assert (Htn : (t < n)%nat) by (eapply D_range; eauto).
      (* left-hand side *)
      rewrite (M_step v t). replace (Nat.eqb v t) with false by (symmetry; apply Nat.eqb_neq; congruence).
      rewrite (Qsum_map_ext _ (Mm v) (fun u => (if Nat.eqb u v then sg v else 0) + Qsum (map (fun w => cf v w * Mm w u) V)) (P t)).
      2:{ intros u Hu. destruct (Nat.eqb u v) eqn:E0.
          - apply Nat.eqb_eq in E0. subst u. rewrite cf_M_self_zero. rewrite M_self. ring.
          - apply Nat.eqb_neq in E0. rewrite <- (IH u v); [ring| |exact E0].
            apply P_spec in Hu. destruct Hu as [_ [k' [Du Dt']]]. rewrite Dt in Dt'. inversion Dt'. subst. exact Du. }
      rewrite Qsum_plus. rewrite Qsum_indicator by apply P_nodup.
      (* right-hand side *)
      rewrite (Qsum_map_ext _ (fun w => cf v w * Mm w t)
                 (fun w => (if Nat.eqb w t then cf v t * sg t else 0) + Qsum (map (fun u => cf v w * Mm w u) (P t))) V).
      2:{ intros w _. rewrite (M_step w t). rewrite Qsum_scal. destruct (Nat.eqb w t) eqn:E0.
          - apply Nat.eqb_eq in E0. subst w. ring.
          - ring. }
      rewrite Qsum_plus. rewrite (Qsum_indicator_seq _ t n Htn). rewrite (cf_sigma v t (S k) Dt).
      rewrite (Qsum_exchange _ _ (fun w u => cf v w * Mm w u) V (P t)). ring.
  Qed.

  Lemma diamond_all : forall t v, t <> v -> Mm v t == Qsum (map (fun w => cf v w * Mm w t) V).
  Proof.
    intros t v Hne. destruct (D t) as [k|] eqn:Dt; [eapply diamond; eauto|].
    rewrite (M_none v t Dt). symmetry. apply Qsum_zero. intros w _. rewrite (M_none w t Dt). ring.
  Qed.

  (* ---------------------------------------------------------------- the dependency and its recurrence *)
  Definition rho (v t : nat) : Q := Mm v t / sg t.
  Definition dlt (v : nat) : Q := Qsum (map (fun t => if Nat.eqb t v then 0 else rho v t) V).
  Definition rec_rhs (X : nat -> Q) (v : nat) : Q :=
    Qsum (map (fun w => if nmem v (P w) then sg v * ((1 + X w) / sg w) else 0) V).

  Lemma shift_sum : forall v w, In v (P w) ->
    Qsum (map (fun t => if Nat.eqb t v then 0 else rho w t) V) == 1 + dlt w.
  Proof.
    intros v w Hin. pose proof Hin as Hin0. apply P_spec in Hin. destruct Hin as [_ [k [Dv Dw]]].
    assert (Hvw : v <> w) by (intro X; subst; rewrite Dv in Dw; inversion Dw; lia).
    assert (Hwn : (w < n)%nat) by (eapply D_range; eauto).
    unfold dlt. rewrite <- (Qsum_indicator_seq 1 w n Hwn). rewrite <- Qsum_plus.
    apply Qsum_map_ext. intros t _. destruct (Nat.eqb t v) eqn:E1.
    - apply Nat.eqb_eq in E1. subst t. replace (Nat.eqb v w) with false by (symmetry; apply Nat.eqb_neq; exact Hvw).
      unfold rho. rewrite (M_pred_zero v w Hin0). unfold Qdiv. ring.
    - destruct (Nat.eqb t w) eqn:E2.
      + apply Nat.eqb_eq in E2. subst t. unfold rho. rewrite M_self. field. eapply sigma_pos; eauto.
      + ring.
  Qed.

  Theorem dlt_rec : forall v, dlt v == rec_rhs dlt v.
  Proof.
    intros v. unfold dlt at 1.
    rewrite (Qsum_map_ext _ _ (fun t => Qsum (map (fun w => cf v w * (if Nat.eqb t v then 0 else rho w t)) V)) V).
    2:{ intros t _. destruct (Nat.eqb t v) eqn:E0.
        - symmetry. apply Qsum_zero. intros w _. ring.
        - apply Nat.eqb_neq in E0. unfold rho at 1. rewrite (diamond_all t v E0).
          unfold Qdiv. rewrite Qmult_comm. rewrite <- Qsum_scal. apply Qsum_map_ext. intros w _. unfold rho, Qdiv. ring. }
    rewrite (Qsum_exchange _ _ (fun t w => cf v w * (if Nat.eqb t v then 0 else rho w t)) V V).
    unfold rec_rhs. apply Qsum_map_ext. intros w _. rewrite Qsum_scal. unfold cf.
    destruct (nmem v (P w)) eqn:E0; [|ring]. apply nmem_In in E0. rewrite (shift_sum v w E0). unfold Qdiv. ring.
  Qed.

  (* ---------------------------------------------------------------- the recurrence has one solution *)
  Lemma D_bound : forall w k, D w = Some k -> (k < n)%nat.
  Proof.
    intros w k Dw. pose proof (spd_nonempty g src Hok Hsrc Hrows s Hs k w Dw) as Hne.
    destruct (spd k w) as [|p r] eqn:Es; [congruence|].
    assert (Hp : In p (spd k w)) by (rewrite Es; left; reflexivity).
    destruct (spd_sound g src Hok Hsrc Hrows s Hs k w p Hp) as [_ [[Hpath [Hhd _]] Hlen]].
    pose proof (spd_simple g src Hok Hsrc Hrows s Hs k w p Hp) as Hnd.
    pose proof (nodup_range_length g p Hnd (path_nodes_range g Hok p src Hpath Hhd Hsrc)). lia.
  Qed.

  Lemma rec_rhs_ext : forall X Y v, (forall w, In v (P w) -> X w == Y w) -> rec_rhs X v == rec_rhs Y v.
  Proof.
    intros X Y v H. unfold rec_rhs. apply Qsum_map_ext. intros w _.
    destruct (nmem v (P w)) eqn:E0; [|reflexivity]. apply nmem_In in E0. rewrite (H w E0). reflexivity.
  Qed.

  Theorem rec_unique : forall X Y : nat -> Q,
    (forall v, X v == rec_rhs X v) -> (forall v, Y v == rec_rhs Y v) -> forall v, X v == Y v.
  Proof.
    intros X Y HX HY.
    assert (G : forall j v k, D v = Some k -> (n - k <= j)%nat -> X v == Y v).
    { induction j as [|j IH]; intros v k Dv Hj.
      - pose proof (D_bound v k Dv). lia.
      - rewrite (HX v), (HY v). apply rec_rhs_ext. intros w Hw. apply P_spec in Hw. destruct Hw as [_ [k' [Dv' Dw]]].
        rewrite Dv in Dv'. inversion Dv'. subst k'. apply (IH w (S k) Dw). lia. }
    intros v. destruct (D v) as [k|] eqn:Dv; [apply (G (n - k)%nat v k Dv); lia|].
    rewrite (HX v), (HY v). apply rec_rhs_ext. intros w Hw. apply P_spec in Hw. destruct Hw as [_ [k' [Dv' _]]]. congruence.
  Qed.

  (* ---------------------------------------------------------------- what one source adds *)
  Lemma pair_dep_rho : forall t v, pair_dep (SPt t) v == rho v t.
  Proof.
    intros t v. unfold pair_dep, rho, Mm. destruct (SPt t) as [|p r] eqn:Es.
    - change (qn (cnt_through v [])) with 0. unfold Qdiv. ring.
    - rewrite Qred_correct. rewrite <- N_eq_sigma. unfold Nn. rewrite Es. reflexivity.
  Qed.

  Lemma M_unreach : forall v t, D v = None -> Mm v t = 0.
  Proof.
    intros v t Dv. destruct (Nat.eq_dec v t) as [E0|E0]; [subst; apply M_none; exact Dv|].
    apply M_zero; [exact E0|]. intros i j Hi. congruence.
  Qed.

  Lemma pair_sum_dlt : forall v, v <> src ->
    Qsum (map (fun t => pair_term g v src t) V) == dlt v.
  Proof.
    intros v Hne. unfold dlt. apply Qsum_map_ext. intros t _. unfold pair_term, excluded.
    replace (Nat.eqb src v) with false by (symmetry; apply Nat.eqb_neq; congruence). cbn [orb].
    destruct (Nat.eqb t v) eqn:E1; cbn [orb]; [reflexivity|].
    destruct (Nat.eqb src t) eqn:E2.
    - apply Nat.eqb_eq in E2. subst t. unfold rho. rewrite M_src.
      replace (Nat.eqb v src) with false by (symmetry; apply Nat.eqb_neq; exact Hne). unfold Qdiv. ring.
    - rewrite (pair_dep_SPt g src Hok Hsrc Hrows Hunit s Hs t v). apply pair_dep_rho.
  Qed.

  Lemma pair_sum_src : Qsum (map (fun t => pair_term g src src t) V) == 0.
  Proof. apply Qsum_zero. intros t _. unfold pair_term, excluded. rewrite Nat.eqb_refl. reflexivity. Qed.

  Theorem source_contribution : forall bet, length bet = n -> forall v,
    get 0 (accumulate src (qS s) (qP s) (qsig s) bet) v ==
    get 0 bet v + Qsum (map (fun t => pair_term g v src t) V).
  Proof.
    intros bet Hlen v.
    destruct (stage_accumulate g src Hok Hsrc Hrows s Hs bet Hlen) as [Dl [HlD [Hrec Hacc]]].
    destruct (stage_S g src Hok Hsrc Hrows s Hs) as [HndS [Hdom [_ HrS]]].
    assert (HDl : forall x, get 0 Dl x == rec_rhs (get 0 Dl) x).
    { intros x. rewrite (Hrec x). rewrite (Qsum_sublist _ (qS s) n HndS HrS). unfold rec_rhs.
      apply Qsum_map_ext. intros w _. unfold contrib. destruct (nmem w (qS s)) eqn:E0; [reflexivity|].
      apply nmem_false in E0. assert (Dw : D w = None).
      { destruct (D w) eqn:X; [|reflexivity]. exfalso. apply E0. apply Hdom. congruence. }
      rewrite (P_none_nil w Dw). reflexivity. }
    pose proof (rec_unique (get 0 Dl) dlt HDl dlt_rec) as Heq.
    rewrite (Hacc v). apply Qplus_comp; [reflexivity|].
    destruct (Nat.eqb v src) eqn:E1.
    - apply Nat.eqb_eq in E1. subst v. rewrite andb_false_r. rewrite pair_sum_src. reflexivity.
    - apply Nat.eqb_neq in E1. rewrite (pair_sum_dlt v E1). cbn [negb]. rewrite andb_true_r.
      destruct (nmem v (qS s)) eqn:E2; [apply Heq|].
      apply nmem_false in E2. assert (Dv : D v = None).
      { destruct (D v) eqn:X; [|reflexivity]. exfalso. apply E2. apply Hdom. congruence. }
      unfold dlt. symmetry. apply Qsum_zero. intros t _. destruct (Nat.eqb t v); [reflexivity|].
      unfold rho. rewrite (M_unreach v t Dv). unfold Qdiv. ring.
  Qed.
End Lemma2.
