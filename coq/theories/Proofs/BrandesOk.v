(* C05: facts about the definition [bc_def] (endpoints never count, pairs
   without a path contribute nothing, n <= 2 gives all zeros, one value per
   node), the rescaling algebra of get_scale / rescale, the accumulation
   step (the source's own entry is never touched), one entry per node for the
   model, and rayon path = serial path. *)
From Coq Require Import String List Bool ZArith Arith QArith Lia Lqa.
From GV Require Import Base.Outcome Base.AMap Model.GState Model.Creation Model.Query Model.Cent Model.Brandes.
From GV Require Import Spec.BetweennessDef Proofs.CentBase.
Import ListNotations.
Open Scope list_scope.

(* ------------------------------------------------------------------ sums *)
Lemma Qsum_zero : forall (X : Type) (f : X -> Q) l, (forall x, In x l -> f x == 0) -> Qsum (map f l) == 0.
Proof.
  induction l as [|x t IH]; intros H; cbn.
  - reflexivity.
  - rewrite (H x) by (left; reflexivity). rewrite IH; [ring|]. intros y Hy. apply H. right. exact Hy.
Qed.

Lemma nth_map_seq : forall (X : Type) (f : nat -> X) n i d, (i < n)%nat -> nth i (map f (seq 0 n)) d = f i.
Proof.
  intros X f n i d H.
  rewrite (nth_indep _ d (f O)) by (rewrite map_length, seq_length; exact H).
  rewrite map_nth. rewrite seq_nth by exact H. reflexivity.
Qed.

(* ------------------------------------------------------------------ the definition *)
Theorem bc_def_tab_eq : forall g normalized directed,
  bc_def_tab g normalized directed = bc_def g normalized directed.
Proof.
  intros. unfold bc_def_tab, bc_def. apply map_ext_in. intros v _. f_equal.
  unfold bc_raw_tab, bc_raw. f_equal. apply map_ext_in. intros s Hs. f_equal.
  apply map_ext_in. intros t Ht. unfold pair_term.
  apply in_seq in Hs. apply in_seq in Ht.
  unfold sp_table. rewrite (nth_map_seq _ _ _ s) by lia. rewrite (nth_map_seq _ _ _ t) by lia. reflexivity.
Qed.

Theorem bc_def_length : forall g normalized directed, length (bc_def g normalized directed) = length g.
Proof. intros. unfold bc_def. rewrite map_length, seq_length. reflexivity. Qed.

(* endpoints never count (and s = t is not a pair) *)
Theorem pair_term_endpoint : forall g v s t, s = v \/ t = v \/ s = t -> pair_term g v s t = 0.
Proof.
  intros g v s t H. unfold pair_term, excluded.
  destruct H as [H | [H | H]]; subst; repeat rewrite Nat.eqb_refl; repeat rewrite orb_true_r; reflexivity.
Qed.

(* a path: consecutive nodes are joined by an entry of the adjacency *)
Fixpoint is_path (g : qadj) (p : list nat) : Prop :=
  match p with
  | [] => False
  | [u] => True
  | u :: ((w :: _) as rest) => (exists c, In (w, c) (get [] g u)) /\ is_path g rest
  end.

Definition path_from_to (g : qadj) (p : list nat) (s t : nat) : Prop :=
  is_path g p /\ hd_error p = Some s /\ last p s = t.

Lemma last_cons_indep : forall (l : list nat) x d d', last (x :: l) d = last (x :: l) d'.
Proof.
  induction l as [|y t IH]; intros x d d'; [reflexivity|].
  change (last (y :: t) d = last (y :: t) d'). apply IH.
Qed.

Lemma simple_paths_sound : forall fuel g vis u t p c,
  In (p, c) (simple_paths fuel g vis u t) -> path_from_to g p u t.
Proof.
  induction fuel as [|f IH]; intros g vis u t p c H; cbn [simple_paths] in H; [destruct H|].
  revert H. destruct (Nat.eqb u t) eqn:E; intro H.
  - apply Nat.eqb_eq in E. subst t. destruct H as [H|[]]. inversion H. subst.
    repeat split.
  - apply in_flat_map in H. destruct H as [[w cw] [Hin H]]. cbn [fst snd] in H.
    revert H. destruct (nmem w (u :: vis)); intro H; [destruct H|].
    apply in_map_iff in H. destruct H as [[p' c'] [Heq Hp']]. cbn [fst snd] in Heq. inversion Heq. subst p c.
    apply IH in Hp'. destruct Hp' as [Hpath [Hhd Hlast]].
    destruct p' as [|x rest]; [destruct Hpath|]. cbn in Hhd. inversion Hhd. subst x.
    split; [|split].
    + cbn. split; [exists cw; exact Hin | exact Hpath].
    + reflexivity.
    + change (last (u :: w :: rest) u) with (last (w :: rest) u).
      rewrite (last_cons_indep rest w u w). exact Hlast.
Qed.

Theorem spec_sp_sound : forall g s t p, In p (spec_sp g s t) -> path_from_to g p s t.
Proof.
  intros g s t p H. unfold spec_sp in H.
  destruct (min_cost (simple_paths (length g) g [] s t)); [|destruct H].
  apply in_map_iff in H. destruct H as [[p' c] [Heq H]]. cbn in Heq. subst p'.
  apply filter_In in H. destruct H as [H _]. eapply simple_paths_sound. exact H.
Qed.

(* unreachable pairs contribute nothing *)
Theorem pair_term_unreachable : forall g v s t,
  (forall p, ~ path_from_to g p s t) -> pair_term g v s t = 0.
Proof.
  intros g v s t H. unfold pair_term. destruct (excluded s t v); [reflexivity|].
  destruct (spec_sp g s t) as [|p ps] eqn:E; [reflexivity|].
  exfalso. apply (H p). apply spec_sp_sound. rewrite E. left. reflexivity.
Qed.

(* with at most two nodes every value of the definition is 0 (so the n <= 2
   exception of the normalisation rule is moot) *)
Lemma excluded_small : forall s t v, (s < 2)%nat -> (t < 2)%nat -> (v < 2)%nat -> excluded s t v = true.
Proof.
  intros s t v Hs Ht Hv. unfold excluded.
  destruct s as [|[|s]]; destruct t as [|[|t]]; destruct v as [|[|v]]; try lia; reflexivity.
Qed.

Theorem bc_def_small : forall g normalized directed, (length g <= 2)%nat ->
  Forall (fun x => x == 0) (bc_def g normalized directed).
Proof.
  intros g normalized directed Hn. unfold bc_def. apply Forall_forall. intros x Hx.
  apply in_map_iff in Hx. destruct Hx as [v [Hx Hv]]. apply in_seq in Hv. subst x.
  assert (Hraw : bc_raw g v == 0).
  { unfold bc_raw. apply Qsum_zero. intros s Hs. apply Qsum_zero. intros t Ht.
    apply in_seq in Hs. apply in_seq in Ht. unfold pair_term.
    rewrite excluded_small by lia. reflexivity. }
  unfold bc_scale. replace (Nat.leb (length g) 2) with true by (symmetry; apply Nat.leb_le; exact Hn).
  destruct normalized; [exact Hraw|]. destruct directed; [exact Hraw|]. rewrite Hraw. reflexivity.
Qed.

(* ------------------------------------------------------------------ rescaling *)
(* the four cases of get_scale are the scaling rules of the property text *)
Theorem rescale_is_bc_scale : forall bet n normalized directed,
  Forall2 Qeq (rescale bet n normalized directed) (map (bc_scale n normalized directed) bet).
Proof.
  intros bet n normalized directed. unfold rescale, get_scale, bc_scale.
  destruct normalized.
  - destruct (Nat.leb n 2).
    + induction bet; cbn [map]; constructor; auto. reflexivity.
    + induction bet as [|x t IH]; cbn [map]; constructor; auto. rewrite Qred_correct. unfold Qdiv. ring.
  - destruct directed.
    + induction bet; cbn [map]; constructor; auto. reflexivity.
    + induction bet as [|x t IH]; cbn [map]; constructor; auto. rewrite Qred_correct. unfold Qdiv.
      change (/ 2) with (1 # 2). reflexivity.
Qed.

Theorem get_scale_cases : forall n normalized directed,
  get_scale n normalized directed =
  match normalized, directed with
  | true, _ => if Nat.leb n 2 then None else Some (1 / ((qn n - 1) * (qn n - 2)))
  | false, true => None
  | false, false => Some (1 # 2)
  end.
Proof. intros n [|] [|]; reflexivity. Qed.

Lemma rescale_length : forall bet n normalized directed, length (rescale bet n normalized directed) = length bet.
Proof. intros. unfold rescale. destruct (get_scale n normalized directed); [apply map_length | reflexivity]. Qed.

(* ------------------------------------------------------------------ accumulation *)
Lemma acc_step_length : forall src P sig db w,
  length (snd (acc_step src P sig db w)) = length (snd db).
Proof.
  intros src P sig [delta bet] w. unfold acc_step. cbn [snd].
  destruct (Nat.eqb w src); [reflexivity | apply upd_length].
Qed.

Lemma acc_fold_length : forall src P sig l db,
  length (snd (fold_left (acc_step src P sig) l db)) = length (snd db).
Proof.
  induction l as [|w t IH]; intros db; cbn; [reflexivity|]. rewrite IH. apply acc_step_length.
Qed.

Theorem accumulate_length : forall src S P sig bet, length (accumulate src S P sig bet) = length bet.
Proof. intros. unfold accumulate. rewrite acc_fold_length. reflexivity. Qed.

(* the dependency of the source on itself is never added: `if *w != result.source` *)
Lemma acc_step_source : forall src P sig db w,
  nth src (snd (acc_step src P sig db w)) 0 = nth src (snd db) 0.
Proof.
  intros src P sig [delta bet] w. unfold acc_step. cbn [snd].
  destruct (Nat.eqb w src) eqn:E; [reflexivity|]. apply Nat.eqb_neq in E.
  apply nth_upd_neq. exact E.
Qed.

Theorem accumulate_source_untouched : forall src S P sig bet,
  get 0 (accumulate src S P sig bet) src = get 0 bet src.
Proof.
  intros. unfold accumulate, get.
  assert (G : forall l db, nth src (snd (fold_left (acc_step src P sig) l db)) 0 = nth src (snd db) 0).
  { induction l as [|w t IH]; intros db0; cbn; [reflexivity|]. rewrite IH. apply acc_step_source. }
  rewrite G. reflexivity.
Qed.

(* a node that is not on the stack S receives nothing either *)
Lemma acc_step_other : forall src P sig db w u, u <> w ->
  nth u (snd (acc_step src P sig db w)) 0 = nth u (snd db) 0.
Proof.
  intros src P sig [delta bet] w u Hne. unfold acc_step. cbn [snd].
  destruct (Nat.eqb w src); [reflexivity|]. apply nth_upd_neq. congruence.
Qed.

Theorem accumulate_off_stack : forall src S P sig bet u, ~ In u S ->
  get 0 (accumulate src S P sig bet) u = get 0 bet u.
Proof.
  intros src S P sig bet u Hn. unfold accumulate, get.
  assert (G : forall l db, ~ In u l ->
             nth u (snd (fold_left (acc_step src P sig) l db)) 0 = nth u (snd db) 0).
  { induction l as [|w t IH]; intros db0 Hl; cbn; [reflexivity|].
    rewrite IH by (intro X; apply Hl; right; exact X).
    apply acc_step_other. intro X. apply Hl. left. symmetry. exact X. }
  rewrite G; [reflexivity|]. rewrite <- in_rev. exact Hn.
Qed.

(* ------------------------------------------------------------------ rayon path = serial path *)
Lemma serial_none : forall lw weighted g l,
  fold_left (fun ob src =>
               match ob with
               | None => None
               | Some bet => match single_source lw weighted g src with
                             | Some r => Some (accumulate_r bet r)
                             | None => None
                             end
               end) l None = None.
Proof. induction l; cbn; auto. Qed.

Lemma serial_as_collect : forall lw weighted g l bet,
  fold_left (fun ob src =>
               match ob with
               | None => None
               | Some bet => match single_source lw weighted g src with
                             | Some r => Some (accumulate_r bet r)
                             | None => None
                             end
               end) l (Some bet) =
  match collect_opt (map (single_source lw weighted g) l) with
  | None => None
  | Some rs => Some (fold_left accumulate_r rs bet)
  end.
Proof.
  induction l as [|src t IH]; intros bet; cbn; [reflexivity|].
  destruct (single_source lw weighted g src) as [r|].
  - rewrite IH. destruct (collect_opt (map (single_source lw weighted g) t)); reflexivity.
  - apply serial_none.
Qed.

Theorem parallel_eq_serial : forall lw weighted g, bc_parallel lw weighted g = bc_serial lw weighted g.
Proof. intros. unfold bc_parallel, bc_serial. rewrite serial_as_collect. reflexivity. Qed.

(* ------------------------------------------------------------------ one entry per node *)
Lemma accumulate_r_length : forall bet r, length (accumulate_r bet r) = length bet.
Proof. intros. unfold accumulate_r. apply accumulate_length. Qed.

Lemma bc_serial_length : forall lw weighted g bet, bc_serial lw weighted g = Some bet -> length bet = length g.
Proof.
  intros lw weighted g bet H. unfold bc_serial in H. rewrite serial_as_collect in H.
  destruct (collect_opt (map (single_source lw weighted g) (seq 0 (length g)))) as [rs|]; try discriminate.
  inversion H. clear H.
  assert (G : forall rs b, length (fold_left accumulate_r rs b) = length b).
  { induction rs0 as [|r t IH]; intros b; cbn; [reflexivity|]. rewrite IH. apply accumulate_r_length. }
  rewrite G. apply repeat_length.
Qed.

Lemma bc_core_length : forall lw weighted g bet, bc_core lw weighted g = Some bet -> length bet = length g.
Proof.
  intros lw weighted g bet H. unfold bc_core in H.
  destruct (Nat.ltb PAR_THRESHOLD (length g)); [rewrite parallel_eq_serial in H|]; eapply bc_serial_length; eauto.
Qed.

Section Entries.
  Context {T A : Type}.

  Lemma name_values_length : forall site (g : gstate T A) vals m,
    name_values site g vals = Ok m -> length m = length vals.
  Proof.
    intros site g vals m H. unfold name_values in H. apply omapM_length in H.
    rewrite combine_length, seq_length, Nat.min_id in H. exact H.
  Qed.

  Theorem betweenness_entries : forall lw (g : gstate T A) weighted normalized m,
    betweenness_centrality lw g weighted normalized = Ok m -> length m = number_of_nodes g.
  Proof.
    intros lw g weighted normalized m H. unfold betweenness_centrality in H.
    destruct (conv_adj weighted (successors_vec g)) as [a|]; try discriminate.
    destruct (adj_ok (number_of_nodes g) a) eqn:Hok; cbn [negb] in H; try discriminate.
    destruct (bc_core lw weighted a) as [bet|] eqn:Hb; try discriminate.
    apply name_values_length in H. rewrite rescale_length in H.
    apply bc_core_length in Hb. unfold adj_ok in Hok. apply andb_true_iff in Hok. destruct Hok as [Hl _].
    apply Nat.eqb_eq in Hl. lia.
  Qed.
End Entries.
