(* Link between the graph-structure core and the betweenness package (C05):

   1. [bc_def] (Spec/BetweennessDef.v) does not depend on the order of the entries
      inside the rows of the adjacency it is given ([bc_def_rows_perm]): it is a
      function of the arc relation alone ([bc_def_arcs_only]).
   2. For every coherent state ([WF], hence every state reachable by any history of
      mutations) the adjacency the model's betweenness reads,
      [conv_adj weighted (successors_vec g)], exists (weighted mode: when every stored
      weight is a real number), passes the model's own range check, lists a neighbour
      once per row ([rows_nodup]), has strictly positive costs when the stored weights
      are positive ([rows_pos]) and IS the edge-store graph ([edge_store_adj] of
      Spec/EdgeStoreAdj.v: arc i -> j of cost c iff [edge_arc g weighted i j c]).
   3. End to end ([betweenness_WF]): `betweenness_centrality` returns Ok — no error, no
      panic, fuel never exhausted — one entry per node in node order, values equal to
      the definition [bc_def] on the edge-store graph, for every tie choice of the heap.
   4. Two coherent states with the same node list and the same edge-store arcs get the
      same betweenness ([betweenness_arcs_only]); the edge-store arcs are a function of
      the node list, the directed flag and the multiset of stored edges
      ([edge_arc_edge_multiset]). *)
From Coq Require Import String List Bool ZArith Arith QArith Lia Permutation.
From GV Require Import Base.Outcome Base.AMap Model.GState Model.Creation Model.Query Model.Dijkstra Model.Cent Model.Brandes.
From GV Require Import Spec.AGraph Spec.History Spec.BetweennessDef Spec.ShortestPathRel Spec.EdgeStoreGraph Spec.EdgeStoreAdj.
From GV Require Import Proofs.AMapOk Proofs.WFDefs Proofs.HistoryOk Proofs.AdjOk Proofs.CentBase Proofs.BrandesOk
     Proofs.BrandesAccOk Proofs.BrandesBfsOk Proofs.PathsOk Proofs.BrandesFull Proofs.BrandesWeighted
     Proofs.ClosenessStateOk Proofs.DijkstraWF.
Import ListNotations.
Open Scope Q_scope.
Open Scope list_scope.

(* ================================================================== 1. bc_def sees the arc relation only *)
Lemma flat_map_perm_l {X Y} (f : X -> list Y) l l' :
  Permutation l l' -> Permutation (flat_map f l) (flat_map f l').
Proof.
  intros HP. induction HP as [|x l l' HP IH|x y l|l l' l'' H1 IH1 H2 IH2]; cbn [flat_map].
  - constructor.
  - apply Permutation_app_head. exact IH.
  - rewrite !app_assoc. apply Permutation_app_tail. apply Permutation_app_comm.
  - eapply Permutation_trans; eauto.
Qed.

Lemma flat_map_perm_f {X Y} (f f' : X -> list Y) l :
  (forall x, Permutation (f x) (f' x)) -> Permutation (flat_map f l) (flat_map f' l).
Proof.
  intros H. induction l as [|x l IH]; cbn [flat_map]; [constructor|]. apply Permutation_app; [apply H | exact IH].
Qed.

Lemma filter_perm {X} (f : X -> bool) l l' : Permutation l l' -> Permutation (filter f l) (filter f l').
Proof.
  intros HP. induction HP as [|x l l' HP IH|x y l|l l' l'' H1 IH1 H2 IH2]; cbn [filter].
  - constructor.
  - destruct (f x); [constructor|]; exact IH.
  - destruct (f x), (f y); try apply Permutation_refl. constructor.
  - eapply Permutation_trans; eauto.
Qed.

Lemma simple_paths_perm (a a' : qadj) :
  (forall v, Permutation (get [] a v) (get [] a' v)) ->
  forall fuel vis u t, Permutation (simple_paths fuel a vis u t) (simple_paths fuel a' vis u t).
Proof.
  intros H. induction fuel as [|f IH]; intros vis u t; cbn [simple_paths]; [constructor|].
  destruct (Nat.eqb u t); [apply Permutation_refl|].
  eapply Permutation_trans; [apply flat_map_perm_l; apply H|].
  apply flat_map_perm_f. intros x. destruct (nmem (fst x) (u :: vis)); [constructor|].
  apply Permutation_map. apply IH.
Qed.

Lemma min_cost_perm (ps ps' : list (list nat * Q)) : Permutation ps ps' ->
  match min_cost ps, min_cost ps' with
  | None, None => True
  | Some m, Some m' => m == m'
  | _, _ => False
  end.
Proof.
  intros HP. pose proof (min_cost_spec ps) as H1. pose proof (min_cost_spec ps') as H2.
  destruct (min_cost ps) as [m|], (min_cost ps') as [m'|].
  - destruct H1 as [[p Hp] Hmin]. destruct H2 as [[p' Hp'] Hmin']. apply Qle_antisym.
    + apply (Hmin p'). apply (Permutation_in _ (Permutation_sym HP)). exact Hp'.
    + apply (Hmin' p). apply (Permutation_in _ HP). exact Hp.
  - subst ps'. destruct H1 as [[p Hp] _]. apply (Permutation_in _ HP) in Hp. destruct Hp.
  - subst ps. destruct H2 as [[p Hp] _]. apply (Permutation_in _ (Permutation_sym HP)) in Hp. destruct Hp.
  - exact I.
Qed.

Lemma qeqb_Qeq_r x m m' : m == m' -> qeqb x m = qeqb x m'.
Proof.
  intros H. unfold qeqb. apply eq_true_iff_eq. rewrite !Qeq_bool_iff. rewrite H. reflexivity.
Qed.

Lemma spec_sp_perm (a a' : qadj) s t :
  length a = length a' -> (forall v, Permutation (get [] a v) (get [] a' v)) ->
  Permutation (spec_sp a s t) (spec_sp a' s t).
Proof.
  intros Hlen H. unfold spec_sp. rewrite <- Hlen.
  pose proof (simple_paths_perm a a' H (length a) [] s t) as HP.
  pose proof (min_cost_perm _ _ HP) as HM.
  destruct (min_cost (simple_paths (length a) a [] s t)) as [m|],
           (min_cost (simple_paths (length a) a' [] s t)) as [m'|]; try contradiction; [|constructor].
  apply Permutation_map.
  rewrite (filter_ext (fun p => qeqb (snd p) m) (fun p => qeqb (snd p) m') (fun p => qeqb_Qeq_r (snd p) m m' HM)).
  apply filter_perm. exact HP.
Qed.

Lemma pair_dep_perm sp sp' v : Permutation sp sp' -> pair_dep sp v = pair_dep sp' v.
Proof.
  intros HP. unfold pair_dep.
  assert (Hc : cnt_through v sp = cnt_through v sp').
  { unfold cnt_through. apply Permutation_length. apply filter_perm. exact HP. }
  pose proof (Permutation_length HP) as Hl.
  destruct sp as [|x sp], sp' as [|x' sp']; try reflexivity; try (cbn in Hl; discriminate).
  rewrite Hc, Hl. reflexivity.
Qed.

(* the definition is invariant under reordering the entries of each row *)
Theorem bc_def_rows_perm (a a' : qadj) normalized directed :
  length a = length a' -> (forall v, Permutation (get [] a v) (get [] a' v)) ->
  bc_def a normalized directed = bc_def a' normalized directed.
Proof.
  intros Hlen H. unfold bc_def. rewrite <- Hlen. apply map_ext. intros v. f_equal.
  unfold bc_raw. rewrite <- Hlen. f_equal. apply map_ext. intros s. f_equal. apply map_ext. intros t.
  unfold pair_term. destruct (excluded s t v); [reflexivity|]. apply pair_dep_perm. apply spec_sp_perm; assumption.
Qed.

(* hence: two adjacencies with one entry per neighbour and the same arcs have the same betweenness *)
Theorem bc_def_arcs_only (a a' : qadj) normalized directed :
  length a = length a' ->
  (forall v, NoDup (map fst (get [] a v))) -> (forall v, NoDup (map fst (get [] a' v))) ->
  (forall v e, In e (get [] a v) <-> In e (get [] a' v)) ->
  bc_def a normalized directed = bc_def a' normalized directed.
Proof.
  intros Hlen Hnd Hnd' Hmem. apply bc_def_rows_perm; [exact Hlen|]. intros v.
  apply NoDup_Permutation; [eapply NoDup_map_inv; apply Hnd | eapply NoDup_map_inv; apply Hnd' | apply Hmem].
Qed.

(* ================================================================== 2. the shape of conv_adj *)
Lemma conv_adj_row weighted : forall sv a, conv_adj weighted sv = Some a ->
  forall i, conv_row weighted (nth i sv []) = Some (get [] a i).
Proof.
  induction sv as [|r t IH]; intros a H i; cbn [conv_adj] in H.
  - inversion H. subst a. unfold get. destruct i; reflexivity.
  - destruct (conv_row weighted r) as [r'|] eqn:Er; [|discriminate].
    destruct (conv_adj weighted t) as [t'|] eqn:Et; [|discriminate]. inversion H. subst a.
    unfold get. destruct i as [|i]; cbn [nth]; [exact Er|]. apply (IH t' eq_refl i).
Qed.

Lemma conv_row_in weighted : forall r r', conv_row weighted r = Some r' ->
  forall e, In e r' <-> exists x, In x r /\ conv_entry weighted x = Some e.
Proof.
  induction r as [|x t IH]; intros r' H e; cbn [conv_row] in H.
  - inversion H. subst r'. split; [intros [] | intros [y [[] _]]].
  - destruct (conv_entry weighted x) as [x'|] eqn:Ex; [|discriminate].
    destruct (conv_row weighted t) as [t'|] eqn:Et; [|discriminate]. inversion H. subst r'. split.
    + intros [<- | Hin]; [exists x; split; [left; reflexivity | exact Ex]|].
      apply (IH t' eq_refl e) in Hin. destruct Hin as [y [Hy Hc]]. exists y. split; [right; exact Hy | exact Hc].
    + intros [y [[<- | Hy] Hc]]; [left; congruence|]. right. apply (IH t' eq_refl e). exists y. auto.
Qed.

Lemma conv_entry_fst weighted x e : conv_entry weighted x = Some e -> fst e = fst x.
Proof.
  unfold conv_entry. destruct weighted; [destruct (snd x)|]; intros H; inversion H; reflexivity.
Qed.

Lemma conv_row_fst weighted : forall r r', conv_row weighted r = Some r' -> map fst r' = map fst r.
Proof.
  induction r as [|x t IH]; intros r' H; cbn [conv_row] in H.
  - inversion H. reflexivity.
  - destruct (conv_entry weighted x) as [x'|] eqn:Ex; [|discriminate].
    destruct (conv_row weighted t) as [t'|] eqn:Et; [|discriminate]. inversion H. subst r'.
    cbn [map]. f_equal; [eapply conv_entry_fst; exact Ex | apply IH; reflexivity].
Qed.

(* the rational cost of an entry is the integer cost the shortest-path package uses *)
Lemma conv_entry_cost weighted j (w : weight) e :
  conv_entry weighted (j, w) = Some e <-> exists c, cost_of weighted w = Some c /\ e = (j, inject_Z c).
Proof.
  unfold conv_entry, cost_of. cbn [fst snd]. destruct weighted.
  - destruct w as [z|]; split.
    + intros H. inversion H. exists z. auto.
    + intros [c [Hc ->]]. inversion Hc. reflexivity.
    + discriminate.
    + intros [c [Hc _]]. discriminate.
  - split.
    + intros H. inversion H. exists 1%Z. auto.
    + intros [c [Hc ->]]. inversion Hc. reflexivity.
Qed.

(* completeness of the two row checkers of Spec/BetweennessDef.v *)
Lemma nodupb_complete : forall l, NoDup l -> nodupb l = true.
Proof.
  induction l as [|x t IH]; intros H; cbn [nodupb]; [reflexivity|]. inversion H as [|? ? Hni Hnd]; subst.
  apply andb_true_iff. split; [|apply IH; exact Hnd]. apply negb_true_iff. apply nmem_false. exact Hni.
Qed.

Lemma rows_nodup_complete (a : qadj) : (forall v, NoDup (map fst (get [] a v))) -> rows_nodup a = true.
Proof.
  intros H. unfold rows_nodup. apply forallb_forall. intros r Hr. apply nodupb_complete.
  apply (In_nth _ _ []) in Hr. destruct Hr as [v [_ Hv]]. specialize (H v). unfold get in H. rewrite Hv in H. exact H.
Qed.

Lemma rows_pos_complete (a : qadj) :
  (forall v e, In e (get [] a v) -> exists c, snd e = inject_Z c /\ (0 < c)%Z) -> rows_pos a = true.
Proof.
  intros H. unfold rows_pos. apply forallb_forall. intros r Hr. apply forallb_forall. intros e He.
  apply (In_nth _ _ []) in Hr. destruct Hr as [v [_ Hv]].
  destruct (H v e) as [c [Hc Hpos]]; [unfold get; rewrite Hv; exact He|].
  apply qlt_iff. rewrite Hc. change 0 with (inject_Z 0). rewrite <- Zlt_Qlt. exact Hpos.
Qed.

(* the hop-count core never runs out of fuel (the weighted one: Proofs/BrandesWeighted.v) *)
Theorem hop_core_total (g : qadj) :
  adj_ok (length g) g = true -> (forall v, NoDup (map fst (get [] g v))) ->
  forall lw, exists bet, bc_core lw false g = Some bet.
Proof.
  intros Hok Hrows lw.
  assert (G : forall l bet0, (forall x, In x l -> (x < length g)%nat) ->
            exists bet, fold_left (fun ob src =>
               match ob with
               | None => None
               | Some b => match Brandes.single_source lw false g src with
                           | Some r => Some (accumulate_r b r)
                           | None => None
                           end
               end) l (Some bet0) = Some bet).
  { induction l as [|src t IH]; intros bet0 Hr; cbn [fold_left]; [eexists; reflexivity|].
    destruct (bbfs_total g src Hok (Hr src (or_introl eq_refl)) Hrows) as [s Es].
    unfold Brandes.single_source at 2. rewrite Es. apply IH. intros x Hx. apply Hr. right. exact Hx. }
  assert (Hser : exists bet, bc_serial lw false g = Some bet).
  { unfold bc_serial. apply G. intros x Hx. apply in_seq in Hx. lia. }
  unfold bc_core. destruct (Nat.ltb PAR_THRESHOLD (length g)); [rewrite parallel_eq_serial|]; exact Hser.
Qed.

(* ================================================================== 3. from WF *)
Section BrandesWF.
  Context {T A : Type}.
  Variable teqb : T -> T -> bool.
  Variable tltb : T -> T -> bool.
  Hypothesis teqb_spec : forall x y, teqb x y = true <-> x = y.
  Hypothesis tltb_asym : forall x y, tltb x y = true -> tltb y x = false.
  Hypothesis tltb_total : forall x y, tltb x y = false -> tltb y x = false -> x = y.

  Notation node := (node T A).
  Notation edge := (edge T A).
  Notation gstate := (gstate T A).
  Notation WF := (@WF T A teqb tltb).
  Notation names := (@names T A).
  Notation name_at := (@name_at T A).
  Notation nn := (@nn T A).
  Notation grp_of := (@grp_of T A teqb tltb).
  Notation stored_between := (stored_between teqb tltb).
  Notation between := (@between T A teqb).
  Notation edge_arc := (@edge_arc T A teqb).
  Notation store_arc := (@store_arc T A teqb tltb).
  Notation edge_store_adj := (@edge_store_adj T A teqb).
  Notation n_of := number_of_nodes.

  Lemma sv_row_nth (g : gstate) i :
    (i < length (successors_vec g))%nat -> nth_error (successors_vec g) i = Some (nth i (successors_vec g) []).
  Proof. intros H. apply nth_error_nth'. exact H. Qed.

  (* ---- the converted adjacency IS the edge-store graph ---- *)
  Theorem conv_adj_edge_store (g : gstate) weighted a :
    WF g -> conv_adj weighted (successors_vec g) = Some a -> edge_store_adj g weighted a.
  Proof.
    intros W Hc. destruct (wf_sv _ _ _ W) as [Hlen Hrows]. rewrite nn_number_of_nodes in Hlen.
    split; [|split].
    - rewrite (conv_adj_length _ _ _ Hc). exact Hlen.
    - intros i. rewrite (conv_row_fst _ _ _ (conv_adj_row weighted _ _ Hc i)).
      destruct (Nat.lt_ge_cases i (length (successors_vec g))) as [L|G].
      + destruct (Hrows i _ (sv_row_nth g i L)) as [Hnd _]. exact Hnd.
      + rewrite nth_overflow by exact G. constructor.
    - intros i j q. rewrite (conv_row_in _ _ _ (conv_adj_row weighted _ _ Hc i) (j, q)). split.
      + intros [[j' w] [Hin He]]. pose proof (conv_entry_fst _ _ _ He) as Hj. cbn [fst] in Hj. subst j'.
        apply conv_entry_cost in He. destruct He as [c [Hcost Heq]]. inversion Heq. subst q. exists c. split; [reflexivity|].
        apply (store_arc_edge_arc teqb tltb teqb_spec tltb_total g weighted i j c W).
        destruct (Nat.lt_ge_cases i (length (successors_vec g))) as [L|G].
        * destruct (Hrows i _ (sv_row_nth g i L)) as [_ Hmem]. apply Hmem in Hin. destruct Hin as [l [Hl ->]].
          exists l. split; assumption.
        * rewrite nth_overflow in Hin by exact G. destruct Hin.
      + intros [c [-> Harc]].
        apply (store_arc_edge_arc teqb tltb teqb_spec tltb_total g weighted i j c W) in Harc.
        destruct Harc as [l [Hl Hcost]]. destruct (grp_of_lt teqb tltb g i j l Hl) as [Hi _].
        rewrite <- Hlen in Hi. destruct (Hrows i _ (sv_row_nth g i Hi)) as [_ Hmem].
        exists (j, adjw (sp g) l). split; [apply Hmem; exists l; auto|].
        apply conv_entry_cost. exists c. auto.
  Qed.

  (* weighted mode: every cost is a positive integer when the stored weights are real and positive *)
  Lemma edge_store_costs (g : gstate) weighted a :
    WF g -> (weighted = true -> weights_real_positive g) -> edge_store_adj g weighted a ->
    forall v e, In e (get [] a v) -> exists c, snd e = inject_Z c /\ (if weighted then (0 < c)%Z else c = 1%Z).
  Proof.
    intros W Hpos [_ [_ Hmem]] v [j q] He. apply Hmem in He. destruct He as [c [-> Harc]]. exists c.
    split; [reflexivity|]. destruct weighted.
    - assert (Hp : a_positive (edge_arc g true)).
      { apply (edge_arc_positive teqb). intros _ e z He Hz. destruct (Hpos eq_refl e He) as [z' [Hz' Hlt]]. congruence. }
      exact (Hp _ _ _ Harc).
    - exact (edge_arc_hop teqb g v j c Harc).
  Qed.

  Lemma edge_store_adj_ok (g : gstate) weighted a : edge_store_adj g weighted a -> adj_ok (n_of g) a = true.
  Proof.
    intros [Hlen [_ Hmem]]. unfold adj_ok. apply andb_true_iff. split; [apply Nat.eqb_eq; exact Hlen|].
    apply forallb_forall. intros row Hrow. apply forallb_forall. intros [j q] He. apply Nat.ltb_lt. cbn [fst].
    apply (In_nth _ _ []) in Hrow. destruct Hrow as [v [_ Hv]].
    assert (He' : In (j, q) (get [] a v)) by (unfold get; rewrite Hv; exact He).
    apply Hmem in He'. destruct He' as [c [_ [x [y [_ [Hy _]]]]]]. eapply name_at_lt_n. exact Hy.
  Qed.

  (* ---- the conversion succeeds: hop-count mode always, weighted mode when no stored weight is NaN ---- *)
  Theorem conv_adj_total_WF (g : gstate) weighted :
    WF g -> (weighted = true -> weights_real g) -> exists a, conv_adj weighted (successors_vec g) = Some a.
  Proof.
    intros W Hreal. destruct weighted; [|apply conv_adj_false_total]. apply conv_adj_true_total.
    intros row [j w] Hrow He. apply In_nth_error in Hrow. destruct Hrow as [v Hrow].
    destruct (entry_of_tg teqb tltb teqb_spec g v j w row W Hrow He) as [x [y [_ [_ [Hne Hw]]]]].
    assert (Hr : forall e, In e (stored_between g x y) -> exists z, ew e = Some z).
    { intros e Hin. apply (Hreal eq_refl). rewrite <- (between_stored teqb tltb teqb_spec tltb_total g x y W) in Hin.
      eapply in_between. exact Hin. }
    destruct (adjw_is_minimum teqb tltb teqb_spec g x y W Hne Hr) as [z [Ez _]]. cbn [snd]. congruence.
  Qed.

  Lemma real_of_positive (g : gstate) : weights_real_positive g -> weights_real g.
  Proof. intros H e He. destruct (H e He) as [z [Hz _]]. exists z. exact Hz. Qed.

  (* ---- all hypotheses of the C05 model theorems, from WF ---- *)
  Theorem brandes_hypotheses_WF (g : gstate) weighted :
    WF g -> (weighted = true -> weights_real_positive g) ->
    exists a, conv_adj weighted (successors_vec g) = Some a /\
              edge_store_adj g weighted a /\
              adj_ok (n_of g) a = true /\
              rows_nodup a = true /\
              (weighted = true -> rows_pos a = true).
  Proof.
    intros W Hpos.
    destruct (conv_adj_total_WF g weighted W (fun Hw => real_of_positive g (Hpos Hw))) as [a Ha].
    pose proof (conv_adj_edge_store g weighted a W Ha) as Hes.
    exists a. split; [exact Ha|]. split; [exact Hes|]. split; [eapply edge_store_adj_ok; exact Hes|].
    split; [apply rows_nodup_complete; apply Hes|].
    intros Hw. subst weighted. apply rows_pos_complete. exact (edge_store_costs g true a W Hpos Hes).
  Qed.

  (* ---- naming the result: one entry per node, in node order ---- *)
  Lemma node_by_index_WF (g : gstate) i :
    WF g -> (i < n_of g)%nat -> exists nd, get_node_by_index g i = Some nd /\ name_at g i = Some (nname nd).
  Proof.
    intros W Hi. unfold get_node_by_index. rewrite (wf_nrev _ _ _ W i).
    destruct (nth_error (nodes_vec g) i) as [nd|] eqn:E; [|apply nth_error_None in E; unfold number_of_nodes in Hi; lia].
    exists nd. split; [reflexivity|]. unfold WFDefs.name_at, WFDefs.names. rewrite nth_error_map, E. reflexivity.
  Qed.

  Lemma name_values_WF site (g : gstate) vals :
    WF g -> length vals = n_of g ->
    exists m, name_values site g vals = Ok m /\ map fst m = names g /\ map snd m = vals.
  Proof.
    intros W Hlen.
    assert (G : forall vs k, (k + length vs <= n_of g)%nat ->
              exists m, omapM (fun iv : nat * Q => match get_node_by_index g (fst iv) with
                                       | Some nd => Ok (nname nd, snd iv)
                                       | None => Panic site
                                       end) (combine (seq k (length vs)) vs) = Ok m /\
                        length m = length vs /\ map snd m = vs /\
                        forall i, (i < length vs)%nat -> nth_error (map fst m) i = name_at g (k + i)).
    { induction vs as [|x t IH]; intros k Hk.
      - exists []. cbn. repeat split. intros i Hi. lia.
      - cbn [length seq combine omapM fst snd]. cbn [length] in Hk.
        destruct (node_by_index_WF g k W ltac:(lia)) as [nd [Hnd Hname]]. rewrite Hnd. cbn [bind].
        destruct (IH (S k) ltac:(lia)) as [m [Hm [Hl [Hs Hf]]]]. rewrite Hm. cbn [bind].
        exists ((nname nd, x) :: m). split; [reflexivity|]. split; [cbn; lia|]. split; [cbn; f_equal; exact Hs|].
        intros [|i] Hi; cbn [map nth_error fst].
        + rewrite Nat.add_0_r. symmetry. exact Hname.
        + replace (k + S i)%nat with (S k + i)%nat by lia. apply Hf. cbn [length] in Hi. lia. }
    destruct (G vals 0%nat ltac:(lia)) as [m [Hm [Hl [Hs Hf]]]]. exists m. split; [exact Hm|]. split; [|exact Hs].
    apply list_eq_nth.
    - rewrite map_length, Hl, Hlen. unfold number_of_nodes, WFDefs.names. rewrite map_length. reflexivity.
    - intros i x Hi. assert (Hlt : (i < length vals)%nat).
      { rewrite <- Hl, <- (map_length fst m). apply nth_error_Some. congruence. }
      rewrite (Hf i Hlt) in Hi. exact Hi.
  Qed.

  (* ================================================================ end to end *)
  Theorem betweenness_WF (g : gstate) lw weighted normalized :
    WF g -> (weighted = true -> weights_real_positive g) ->
    exists m a,
      betweenness_centrality lw g weighted normalized = Ok m /\
      map fst m = names g /\
      conv_adj weighted (successors_vec g) = Some a /\
      edge_store_adj g weighted a /\
      Forall2 Qeq (map snd m) (bc_def a normalized (directed (sp g))).
  Proof.
    intros W Hpos. destruct (brandes_hypotheses_WF g weighted W Hpos) as [a [Ha [Hes [Hok [Hnd _]]]]].
    pose proof (rows_nodup_sound a Hnd) as Hrows.
    pose proof (edge_store_costs g weighted a W Hpos Hes) as Hcost.
    destruct Hes as [Hlen Hes']. pose proof (conj Hlen Hes') as Hes.
    assert (Hok' : adj_ok (length a) a = true) by (rewrite Hlen; exact Hok).
    assert (Hcore : exists bet, bc_core lw weighted a = Some bet).
    { destruct weighted; [apply weighted_core_total; [exact Hok' | exact Hcost] | apply hop_core_total; assumption]. }
    destruct Hcore as [bet Hbet].
    assert (Hbl : length (rescale bet (length (get_all_nodes g)) normalized (directed (sp g))) = n_of g).
    { rewrite rescale_length, (bc_core_length _ _ _ _ Hbet). exact Hlen. }
    destruct (name_values_WF "betweenness.rs:80" g _ W Hbl) as [m [Hm [Hf Hs]]].
    exists m, a. split.
    - unfold betweenness_centrality. rewrite Ha, Hok. cbn [negb]. rewrite Hbet. exact Hm.
    - split; [exact Hf|]. split; [exact Ha|]. split; [exact Hes|]. rewrite Hs.
      unfold get_all_nodes. change (length (nodes_vec g)) with (n_of g). rewrite <- Hlen.
      destruct weighted.
      + apply brandes_weighted with (lw := lw); assumption.
      + apply brandes_hop_count with (lw := lw); try assumption.
        intros v e He. destruct (Hcost v e He) as [c [Hc ->]]. exact Hc.
  Qed.

  (* the statement without the private index: whatever adjacency describes the edge store *)
  Theorem betweenness_WF_any_adj (g : gstate) lw weighted normalized :
    WF g -> (weighted = true -> weights_real_positive g) ->
    exists m,
      betweenness_centrality lw g weighted normalized = Ok m /\
      map fst m = names g /\
      forall a, edge_store_adj g weighted a ->
                Forall2 Qeq (map snd m) (bc_def a normalized (directed (sp g))).
  Proof.
    intros W Hpos. destruct (betweenness_WF g lw weighted normalized W Hpos) as [m [a0 [Hm [Hf [_ [Hes0 Hv]]]]]].
    exists m. split; [exact Hm|]. split; [exact Hf|]. intros a Hes.
    destruct Hes0 as [Hl0 [Hnd0 Hmem0]]. destruct Hes as [Hl [Hnd Hmem]].
    rewrite (bc_def_arcs_only a a0 normalized (directed (sp g))); [exact Hv | congruence | exact Hnd | exact Hnd0 |].
    intros v [j q]. rewrite (Hmem v j q), (Hmem0 v j q). reflexivity.
  Qed.

  (* ================================================================ the result depends on the arcs only *)
  Theorem betweenness_arcs_only (g1 g2 : gstate) lw1 lw2 weighted normalized m1 m2 :
    WF g1 -> WF g2 ->
    (weighted = true -> weights_real_positive g1) -> (weighted = true -> weights_real_positive g2) ->
    names g1 = names g2 -> directed (sp g1) = directed (sp g2) ->
    (forall i j c, edge_arc g1 weighted i j c <-> edge_arc g2 weighted i j c) ->
    betweenness_centrality lw1 g1 weighted normalized = Ok m1 ->
    betweenness_centrality lw2 g2 weighted normalized = Ok m2 ->
    map fst m1 = map fst m2 /\ Forall2 Qeq (map snd m1) (map snd m2).
  Proof.
    intros W1 W2 P1 P2 Hn Hd Harc H1 H2.
    destruct (betweenness_WF g1 lw1 weighted normalized W1 P1) as [m1' [a1 [E1 [F1 [_ [Hes1 V1]]]]]].
    destruct (betweenness_WF g2 lw2 weighted normalized W2 P2) as [m2' [a2 [E2 [F2 [_ [Hes2 V2]]]]]].
    assert (m1' = m1) by congruence. assert (m2' = m2) by congruence. subst m1' m2'.
    split; [congruence|].
    destruct Hes1 as [L1 [N1 M1]]. destruct Hes2 as [L2 [N2 M2]].
    assert (Hnn : n_of g1 = n_of g2).
    { rewrite <- !nn_number_of_nodes. unfold WFDefs.nn. rewrite Hn. reflexivity. }
    rewrite Hd in V1. rewrite (bc_def_arcs_only a1 a2 normalized (directed (sp g2))) in V1;
      [| congruence | exact N1 | exact N2 |].
    - eapply Forall2_Qeq_trans; [exact V1|]. clear -V2.
      induction V2; constructor; [symmetry; assumption | assumption].
    - intros v [j q]. rewrite (M1 v j q), (M2 v j q). split; intros [c [Hq Ha]]; exists c; (split; [exact Hq|]); apply Harc; exact Ha.
  Qed.

  (* ================================================================ the arcs are a function of the edge multiset *)
  Lemma name_at_names (g1 g2 : gstate) i : names g1 = names g2 -> name_at g1 i = name_at g2 i.
  Proof. intros H. unfold WFDefs.name_at. rewrite H. reflexivity. Qed.

  Lemma between_perm (g1 g2 : gstate) x y :
    directed (sp g1) = directed (sp g2) -> Permutation (get_all_edges g1) (get_all_edges g2) ->
    Permutation (between g1 x y) (between g2 x y).
  Proof. intros Hd HP. unfold EdgeStoreGraph.between. rewrite Hd. apply filter_perm. exact HP. Qed.

  Lemma weights_real_perm (g1 g2 : gstate) :
    Permutation (get_all_edges g1) (get_all_edges g2) -> weights_real g1 -> weights_real g2.
  Proof. intros HP H e He. apply H. apply (Permutation_in _ (Permutation_sym HP)). exact He. Qed.

  Lemma weights_real_positive_perm (g1 g2 : gstate) :
    Permutation (get_all_edges g1) (get_all_edges g2) -> weights_real_positive g1 -> weights_real_positive g2.
  Proof. intros HP H e He. apply H. apply (Permutation_in _ (Permutation_sym HP)). exact He. Qed.

  Lemma edge_arc_multiset_imp (g1 g2 : gstate) weighted :
    WF g1 -> WF g2 -> names g1 = names g2 -> directed (sp g1) = directed (sp g2) ->
    Permutation (get_all_edges g1) (get_all_edges g2) ->
    (weighted = true -> weights_real g1) ->
    forall i j c, edge_arc g1 weighted i j c -> edge_arc g2 weighted i j c.
  Proof.
    intros W1 W2 Hn Hd HP Hreal i j c [x [y [Hx [Hy [Hne Hc]]]]].
    pose proof (between_perm g1 g2 x y Hd HP) as HB.
    assert (Hne2 : between g2 x y <> []).
    { intros E. rewrite E in HB. apply Permutation_sym, Permutation_nil in HB. contradiction. }
    exists x, y. rewrite <- (name_at_names g1 g2 i Hn), <- (name_at_names g1 g2 j Hn).
    split; [exact Hx|]. split; [exact Hy|]. split; [exact Hne2|].
    destruct weighted; [|exact Hc]. cbn [cost_of] in *.
    assert (R1 : forall e, In e (stored_between g1 x y) -> exists z, ew e = Some z).
    { intros e He. apply (Hreal eq_refl). rewrite <- (between_stored teqb tltb teqb_spec tltb_total g1 x y W1) in He.
      eapply in_between. exact He. }
    assert (R2 : forall e, In e (stored_between g2 x y) -> exists z, ew e = Some z).
    { intros e He. apply (weights_real_perm g1 g2 HP (Hreal eq_refl)).
      rewrite <- (between_stored teqb tltb teqb_spec tltb_total g2 x y W2) in He. eapply in_between. exact He. }
    rewrite (between_stored teqb tltb teqb_spec tltb_total g1 x y W1) in Hne, Hc, HB.
    rewrite (between_stored teqb tltb teqb_spec tltb_total g2 x y W2) in Hne2, HB |- *.
    destruct (adjw_is_minimum teqb tltb teqb_spec g1 x y W1 Hne R1) as [z1 [E1 [[e1 [I1 V1]] M1]]].
    destruct (adjw_is_minimum teqb tltb teqb_spec g2 x y W2 Hne2 R2) as [z2 [E2 [[e2 [I2 V2]] M2]]].
    rewrite E1 in Hc. inversion Hc. subst z1. rewrite E2. f_equal.
    pose proof (M1 e2 z2 (Permutation_in _ (Permutation_sym HB) I2) V2).
    pose proof (M2 e1 c (Permutation_in _ HB I1) V1). lia.
  Qed.

  (* same node list, same kind, same multiset of stored edges (no NaN in weighted mode; the
     two graphs may have been built by different histories under different duplicate
     policies): the same edge-store arcs *)
  Theorem edge_arc_edge_multiset (g1 g2 : gstate) weighted :
    WF g1 -> WF g2 -> names g1 = names g2 -> directed (sp g1) = directed (sp g2) ->
    Permutation (get_all_edges g1) (get_all_edges g2) ->
    (weighted = true -> weights_real g1) ->
    forall i j c, edge_arc g1 weighted i j c <-> edge_arc g2 weighted i j c.
  Proof.
    intros W1 W2 Hn Hd HP Hreal i j c. split.
    - apply edge_arc_multiset_imp; assumption.
    - apply edge_arc_multiset_imp; auto using Permutation_sym.
      intros Hw. apply (weights_real_perm g1 g2 HP). apply Hreal. exact Hw.
  Qed.

  Theorem betweenness_edge_multiset (g1 g2 : gstate) lw1 lw2 weighted normalized m1 m2 :
    WF g1 -> WF g2 ->
    (weighted = true -> weights_real_positive g1) ->
    names g1 = names g2 -> directed (sp g1) = directed (sp g2) ->
    Permutation (get_all_edges g1) (get_all_edges g2) ->
    betweenness_centrality lw1 g1 weighted normalized = Ok m1 ->
    betweenness_centrality lw2 g2 weighted normalized = Ok m2 ->
    map fst m1 = map fst m2 /\ Forall2 Qeq (map snd m1) (map snd m2).
  Proof.
    intros W1 W2 P1 Hn Hd HP H1 H2.
    apply (betweenness_arcs_only g1 g2 lw1 lw2 weighted normalized m1 m2 W1 W2 P1); try assumption.
    - intros Hw. apply (weights_real_positive_perm g1 g2 HP). apply P1. exact Hw.
    - apply edge_arc_edge_multiset; try assumption. intros Hw. apply real_of_positive. apply P1. exact Hw.
  Qed.
End BrandesWF.
