(* Non-vacuity of the end-to-end betweenness theorems (Proofs/BrandesWF.v) and of the
   "edge store only" corollaries of C03, on graphs built by histories:

   [bw_g]: directed, duplicate policy KeepLast; the history adds 1->2 (weight 5), 2->3 (1),
   1->3 (3) and then 1->2 again with weight 1, which REPLACES the stored weight.  Before
   the replacement the only shortest 1-3 path is the direct edge (3 < 5+1): betweenness
   of node 2 is 0; after it the shortest path is 1-2-3 (1+1 < 3): betweenness 1.
   [bw_g']: the same node list and edge multiset reached by a different history under a
   different GraphSpecs (multigraph, nodes must exist, edges in another order — the rows
   of successors_vec come out in another order): the same betweenness. *)
From Coq Require Import String List Bool ZArith QArith Arith Lia Permutation.
From GV Require Import Base.Outcome Base.AMap Model.GState Model.Creation Model.Query Model.Cent Model.Brandes Model.Closeness Model.Dijkstra.
From GV Require Import Spec.History Spec.BetweennessDef Spec.EdgeStoreGraph Spec.EdgeStoreAdj.
From GV Require Import Proofs.WFDefs Proofs.HistoryOk Proofs.DijkstraWFExamples Proofs.BrandesWF.
Import ListNotations.

Definition bw_specs : specs := mkspecs true DKeepLast MCreate false true SErr.
Definition bw_first : list (mutation Z Z) :=
  [MutEdges [mkedge 1%Z 2%Z (Some 5%Z) None; mkedge 2%Z 3%Z (Some 1%Z) None; mkedge 1%Z 3%Z (Some 3%Z) None]].
Definition bw_history : list (mutation Z Z) := bw_first ++ [MutEdge (mkedge 1%Z 2%Z (Some 1%Z) None)].
Definition bw_g_before : gstate Z Z := run_muts Z.eqb Z.ltb (new bw_specs) bw_first.
Definition bw_g : gstate Z Z := run_muts Z.eqb Z.ltb (new bw_specs) bw_history.

Definition bw_specs' : specs := mkspecs true DErr MErr true false SDrop.
Definition bw_history' : list (mutation Z Z) :=
  [MutNodes [mknode 1%Z None; mknode 2%Z None; mknode 3%Z None];
   MutEdge (mkedge 1%Z 3%Z (Some 3%Z) None); MutEdge (mkedge 2%Z 3%Z (Some 1%Z) None);
   MutEdge (mkedge 1%Z 2%Z (Some 1%Z) None)].
Definition bw_g' : gstate Z Z := run_muts Z.eqb Z.ltb (new bw_specs') bw_history'.

Lemma bw_g_reachable : reachable Z.eqb Z.ltb bw_specs bw_g.
Proof. exists bw_history. reflexivity. Qed.
Lemma bw_g'_reachable : reachable Z.eqb Z.ltb bw_specs' bw_g'.
Proof. exists bw_history'. reflexivity. Qed.

Lemma bw_g_positive : weights_real_positive bw_g.
Proof.
  intros e He. vm_compute in He. destruct He as [<-|[<-|[<-|[]]]]; eexists; split; try reflexivity; reflexivity.
Qed.

Example betweenness_reachable_nonvacuous :
  reachable Z.eqb Z.ltb bw_specs bw_g /\ weights_real_positive bw_g /\
  get_all_edges bw_g_before =
    [mkedge 1%Z 2%Z (Some 5%Z) None; mkedge 2%Z 3%Z (Some 1%Z) None; mkedge 1%Z 3%Z (Some 3%Z) None] /\
  get_all_edges bw_g =
    [mkedge 1%Z 2%Z (Some 1%Z) None; mkedge 2%Z 3%Z (Some 1%Z) None; mkedge 1%Z 3%Z (Some 3%Z) None] /\
  betweenness_centrality false bw_g_before true false = Ok [(1%Z, 0); (2%Z, 0); (3%Z, 0)] /\
  betweenness_centrality false bw_g true false = Ok [(1%Z, 0); (2%Z, 1); (3%Z, 0)] /\
  betweenness_centrality true bw_g true true = Ok [(1%Z, 0); (2%Z, 1 # 2); (3%Z, 0)] /\
  edge_store_adj Z.eqb bw_g true [[(1%nat, 1); (2%nat, 3)]; [(2%nat, 1)]; []] /\
  bc_def [[(1%nat, 1); (2%nat, 3)]; [(2%nat, 1)]; []] false true = [0; 1; 0].
Proof.
  split; [exact bw_g_reachable|]. split; [exact bw_g_positive|].
  split; [vm_compute; reflexivity|]. split; [vm_compute; reflexivity|].
  split; [vm_compute; reflexivity|]. split; [vm_compute; reflexivity|]. split; [vm_compute; reflexivity|].
  split; [|vm_compute; reflexivity].
  apply (conv_adj_edge_store Z.eqb Z.ltb Zeqb_spec Zltb_total bw_g true).
  - exact (WF_reachable Z.eqb Z.ltb Zeqb_spec Zltb_asym Zltb_total _ _ bw_g_reachable).
  - vm_compute. reflexivity.
Qed.

Example edge_store_only_nonvacuous :
  reachable Z.eqb Z.ltb bw_specs bw_g /\ reachable Z.eqb Z.ltb bw_specs' bw_g' /\
  bw_specs <> bw_specs' /\ directed bw_specs = directed bw_specs' /\
  names bw_g = names bw_g' /\ weights_real_positive bw_g /\
  Permutation (get_all_edges bw_g) (get_all_edges bw_g') /\
  get_all_edges bw_g <> get_all_edges bw_g' /\ successors_vec bw_g <> successors_vec bw_g' /\
  small_adj bw_g /\ small_adj bw_g' /\ weights_nonneg bw_g /\ weights_real bw_g /\
  betweenness_centrality false bw_g true false = Ok [(1%Z, 0); (2%Z, 1); (3%Z, 0)] /\
  betweenness_centrality true bw_g' true false = Ok [(1%Z, 0); (2%Z, 1); (3%Z, 0)] /\
  closeness_centrality Z.eqb Z.ltb false bw_g true false = Ok [(1%Z, 0); (2%Z, 1); (3%Z, 2 # 3)] /\
  closeness_centrality Z.eqb Z.ltb true bw_g' true false = Ok [(1%Z, 0); (2%Z, 1); (3%Z, 2 # 3)] /\
  (exists m, Dijkstra.single_source Z.eqb bw_g true 1%Z None None false true = Ok m /\
             option_map sp_distance (lookup Z.eqb 3%Z m) = Some 2%Z) /\
  (exists m, Dijkstra.single_source Z.eqb bw_g' true 1%Z None None false true = Ok m /\
             option_map sp_distance (lookup Z.eqb 3%Z m) = Some 2%Z).
Proof.
  split; [exact bw_g_reachable|]. split; [exact bw_g'_reachable|].
  split; [discriminate|]. split; [reflexivity|]. split; [vm_compute; reflexivity|]. split; [exact bw_g_positive|].
  split; [|split; [vm_compute; discriminate|split; [vm_compute; discriminate|]]].
  2:{ split; [vm_compute; reflexivity|]. split; [vm_compute; reflexivity|].
      split; [intros e z He Hz; destruct (bw_g_positive e He) as [z' [Hz' Hp]]; assert (z = z') by congruence; subst; lia|].
      split; [intros e He; destruct (bw_g_positive e He) as [z' [Hz' _]]; exists z'; exact Hz'|].
      split; [vm_compute; reflexivity|]. split; [vm_compute; reflexivity|].
      split; [vm_compute; reflexivity|]. split; [vm_compute; reflexivity|].
      split; eexists; (split; [vm_compute; reflexivity|]); vm_compute; reflexivity. }
  vm_compute.
  eapply perm_trans; [apply perm_skip; apply perm_swap|].
  eapply perm_trans; [apply perm_swap|]. apply perm_skip. apply perm_swap.
Qed.
