(* C05, weighted mode, for every graph with positive integer costs whose rows
   list a neighbour at most once, and every tie choice of the heap: the vector
   computed by the model's betweenness (heap stage with the sigma-doubling
   quirk + accumulation over all sources + rescaling) equals the definition
   [bc_def] (ordered-pair sums over the brute-force enumeration of the simple
   paths of minimal weight, scaled by the rules of the property). *)
From Coq Require Import List Bool ZArith Arith QArith Lia Lqa Permutation.
From GV Require Import Base.Outcome Model.GState Model.Query Model.Cent Model.Brandes Spec.BetweennessDef Spec.ClosenessDef.
From GV Require Import Proofs.CentBase Proofs.BrandesOk Proofs.BrandesAccOk Proofs.ClosenessOk Proofs.ClosenessBfsOk.
From GV Require Import Proofs.BrandesBfsOk Proofs.PathsOk Proofs.BrandesLemma Proofs.BrandesLemma2 Proofs.BrandesFull.
From GV Require Import Proofs.DijkstraOk Proofs.BrandesHeapOk Proofs.BrandesDag Proofs.PathsWOk.
Import ListNotations.
Open Scope list_scope.

Lemma le_list_sum : forall l x, In x l -> (x <= list_sum l)%nat.
Proof.
  induction l as [|a t IH]; intros x H; [destruct H|].
  change (list_sum (a :: t)) with (a + list_sum t)%nat. destruct H as [H|H]; [subst; lia|].
  pose proof (IH x H). lia.
Qed.

Section WStage.
  Variable g : qadj.
  Variable src : nat.
  Notation n := (length g).
  Hypothesis Hok : adj_ok n g = true.
  Hypothesis Hsrc : (src < n)%nat.
  Hypothesis Hcost : forall v e, In e (get [] g v) -> exists c, snd e = inject_Z c /\ (0 < c)%Z.
  Hypothesis Hrows : forall v, NoDup (map fst (get [] g v)).
  Variable lw : bool.
  Variable s : bs.
  Hypothesis Hs : bdijkstra lw g src = Some s.

  Notation V := (seq 0 n).
  Notation P := (fun w => get [] (bP s) w).

  (* the rank along the shortest-path DAG: the (integer) distance *)
  Definition rkw (w : nat) : option nat := option_map (fun q => Z.to_nat (Qnum q)) (DD s w).
  Definition Bw : nat := S (list_sum (map (fun w => Z.to_nat (dzv s w)) V)).

  Let st_src := wstage_src g src Hok Hsrc Hcost Hrows lw s Hs.
  Let st_int := wstage_int g src Hok Hsrc Hcost Hrows lw s Hs.
  Let st_S := wstage_S g src Hok Hsrc Hcost Hrows lw s Hs.
  Let st_P := wstage_P g src Hok Hsrc Hcost Hrows lw s Hs.
  Let st_sigma := wstage_sigma g src Hok Hsrc Hcost Hrows lw s Hs.
  Let st_pf := wstage_preds_first g src Hok Hsrc Hcost Hrows lw s Hs.
  Let st_tight := wstage_tight g src Hok Hsrc Hcost Hrows lw s Hs.

  Lemma P_spec_w : forall w u, In u (P w) <->
    exists c du, In (w, inject_Z c) (get [] g u) /\ (0 < c)%Z /\ (0 <= du)%Z /\
                 DD s u = Some (inject_Z du) /\ DD s w = Some (inject_Z (du + c)).
  Proof.
    intros w u. destruct (st_P w) as [_ Hiff]. change (In u (P w)) with (In u (PP s w)). rewrite Hiff. split.
    - intros [c [du [A [B C]]]]. exists c, du. split; [exact A|].
      destruct (Hcost u _ A) as [c' [Ec Hc]]. cbn [snd] in Ec. apply inject_Z_inj in Ec. subst c'. split; [exact Hc|].
      destruct (st_int u _ B) as [z [Ez [Hz _]]]. apply inject_Z_inj in Ez. subst z. auto.
    - intros [c [du [A [_ [_ [B C]]]]]]. exists c, du. auto.
  Qed.

  Lemma rkw_some : forall w k, rkw w = Some k -> exists z, DD s w = Some (inject_Z z) /\ (0 <= z)%Z /\ k = Z.to_nat z /\ (w < n)%nat.
  Proof.
    intros w k H. unfold rkw in H. destruct (DD s w) as [q|] eqn:HD; [|discriminate]. cbn in H. inversion H.
    destruct (st_int w q HD) as [z [Ez [Hz Hw]]]. subst q. exists z. cbn. auto.
  Qed.

  Lemma rkw_of : forall w z, DD s w = Some (inject_Z z) -> rkw w = Some (Z.to_nat z).
  Proof. intros w z H. unfold rkw. rewrite H. reflexivity. Qed.

  (* ---------------------------------------------------------------- the hypotheses of the generic development *)
  Lemma w_rk_src : rkw src <> None.
  Proof. unfold rkw. rewrite st_src. discriminate. Qed.

  Lemma w_P_rk : forall w u, In u (P w) -> exists i j, rkw u = Some i /\ rkw w = Some j /\ (i < j)%nat.
  Proof.
    intros w u Hu. apply P_spec_w in Hu. destruct Hu as [c [du [_ [Hc [Hdu [A C]]]]]].
    exists (Z.to_nat du), (Z.to_nat (du + c)). split; [apply rkw_of; exact A|]. split; [apply rkw_of; exact C | lia].
  Qed.

  Lemma w_P_src : P src = [].
  Proof.
    destruct (P src) as [|u r] eqn:E0; [reflexivity|]. exfalso.
    assert (Hu : In u (P src)) by (rewrite E0; left; reflexivity).
    apply P_spec_w in Hu. destruct Hu as [c [du [_ [Hc [Hdu [_ C]]]]]]. rewrite st_src in C.
    change 0 with (inject_Z 0) in C. inversion C. lia.
  Qed.

  Lemma w_P_nodup : forall w, NoDup (P w).
  Proof. intros w. destruct (st_P w) as [H _]. exact H. Qed.

  Lemma w_rk_range : forall w k, rkw w = Some k -> (w < n)%nat /\ (k < Bw)%nat.
  Proof.
    intros w k H. destruct (rkw_some w k H) as [z [HD [Hz [Ek Hw]]]]. split; [exact Hw|].
    unfold Bw. assert (X : In k (map (fun w => Z.to_nat (dzv s w)) V)).
    { apply in_map_iff. exists w. split; [|apply in_seq; lia]. unfold dzv. rewrite HD. cbn. symmetry. exact Ek. }
    pose proof (le_list_sum _ _ X). lia.
  Qed.

  Lemma w_rk_tight : forall w k, rkw w = Some k -> w <> src -> P w <> [].
  Proof.
    intros w k H Hne. destruct (rkw_some w k H) as [z [HD _]]. exact (st_tight w z HD Hne).
  Qed.

  Lemma w_St_dom : forall w, In w (bS s) <-> rkw w <> None.
  Proof.
    intros w. destruct st_S as [_ [Hdom _]]. rewrite (Hdom w). unfold rkw. destruct (DD s w); cbn; split; congruence.
  Qed.

  Lemma two_nz : ~ 2 == 0.
  Proof. intro X. discriminate X. Qed.

  Notation SPw := (SPt src (bP s) rkw).

  (* ---------------------------------------------------------------- distances *)
  Lemma D_is_dist_w : forall t z, DD s t = Some (inject_Z z) -> is_dist (zof g) src t z.
  Proof.
    intros t z H. destruct (dijkstra_distances g src Hok Hsrc Hcost lw s Hs) as [X _]. specialize (X t).
    rewrite oget_dz, H in X. exact X.
  Qed.

  Lemma D_none_unreach_w : forall t, DD s t = None -> ~ reach (zof g) src t.
  Proof.
    intros t H. destruct (dijkstra_distances g src Hok Hsrc Hcost lw s Hs) as [X _]. specialize (X t).
    rewrite oget_dz, H in X. exact X.
  Qed.

  Lemma path_reach_w : forall p t, path_from_to g p src t -> exists z, DD s t = Some (inject_Z z) /\ (z <= pwz g p)%Z.
  Proof.
    intros p t Hp. pose proof (path_walk_w g Hrows Hcost p src t Hp) as W.
    destruct (DD s t) as [q|] eqn:HD.
    - destruct (st_int t q HD) as [z [Ez _]]. subst q. exists z. split; [reflexivity|].
      destruct (D_is_dist_w t z HD) as [_ Hmin]. apply Hmin. exact W.
    - exfalso. apply (D_none_unreach_w t HD). eexists. exact W.
  Qed.

  (* ---------------------------------------------------------------- the generated paths are the shortest paths *)
  Lemma SPw_sound : forall k t j p, rkw t = Some j -> (j < k)%nat -> In p (SPw t) ->
    path_from_to g p src t /\ DD s t = Some (inject_Z (pwz g p)).
  Proof.
    induction k as [|k IH]; intros t j p Hr Hj Hp; [lia|].
    destruct (SPt_cases n src (bP s) rkw Hsrc w_rk_src w_P_rk t p Hp) as [[E0 Ep]|[Hne [u [p' [Hu [Hp' Ep]]]]]]; subst p.
    - subst t. split; [repeat split | exact st_src].
    - destruct (w_P_rk t u Hu) as [i0 [j' [Ru [X Y]]]]. rewrite Hr in X. inversion X. subst j'.
      destruct (IH u i0 p' Ru ltac:(lia) Hp') as [[Hpath [Hhd Hlast]] HDu].
      apply P_spec_w in Hu. destruct Hu as [c [du [Hin [Hc [Hdu [A C]]]]]].
      rewrite A in HDu. inversion HDu as [Edu].
      destruct p' as [|a rest]; [destruct Hpath|].
      assert (He : E g u t) by (unfold E; apply in_map_iff; exists (t, inject_Z c); auto).
      assert (Hl : last (a :: rest) t = u) by (rewrite (last_cons_indep rest a t src); exact Hlast).
      split; [split; [|split]|].
      + apply (is_path_snoc g (a :: rest) u t); auto. rewrite (last_cons_indep rest a u src). exact Hlast.
      + exact Hhd.
      + rewrite last_last. reflexivity.
      + rewrite pwz_snoc by discriminate. rewrite Hl. rewrite (ecz_in g Hrows u t c Hin). rewrite <- Edu. exact C.
  Qed.

  Lemma SPw_simple : forall k t j p, rkw t = Some j -> (j < k)%nat -> In p (SPw t) -> NoDup p.
  Proof.
    induction k as [|k IH]; intros t j p Hr Hj Hp; [lia|].
    destruct (SPt_cases n src (bP s) rkw Hsrc w_rk_src w_P_rk t p Hp) as [[E0 Ep]|[Hne [u [p' [Hu [Hp' Ep]]]]]]; subst p.
    - constructor; [intros []|constructor].
    - destruct (w_P_rk t u Hu) as [i0 [j' [Ru [X Y]]]]. rewrite Hr in X. inversion X. subst j'.
      apply NoDup_app_one; [apply (IH u i0 p' Ru); [lia | exact Hp']|].
      intro Ht. destruct (SPt_levels n src (bP s) rkw Hsrc w_rk_src w_P_rk (S i0) u i0 p' Ru ltac:(lia) Hp' t Ht) as [i [A [B _]]].
      rewrite Hr in A. inversion A. lia.
  Qed.

  Lemma SPw_complete : forall p t, path_from_to g p src t -> DD s t = Some (inject_Z (pwz g p)) -> In p (SPw t).
  Proof.
    induction p as [|t' p' IH] using rev_ind; intros t [Hpath [Hhd Hlast]] HD; [destruct Hpath|].
    rewrite last_last in Hlast. subst t'.
    destruct p' as [|a rest].
    - cbn in Hhd. inversion Hhd. subst t. rewrite (SPt_src src (bP s) rkw w_rk_src). left. reflexivity.
    - assert (Hne : a :: rest <> []) by discriminate.
      destruct (is_path_snoc_inv g (a :: rest) t Hne Hpath) as [Hp' He].
      set (u := last (a :: rest) t) in *.
      assert (Hpu : path_from_to g (a :: rest) src u).
      { split; [exact Hp'|]. split; [exact Hhd | unfold u; apply last_cons_indep]. }
      destruct (path_reach_w (a :: rest) u Hpu) as [du [HDu Hle]].
      destruct (ecz_E g Hrows Hcost u t He) as [Hin Hc].
      rewrite pwz_snoc in HD by exact Hne. fold u in HD.
      (* triangle: dist t <= dist u + cost *)
      destruct (D_is_dist_w u du HDu) as [Wu _]. destruct (D_is_dist_w t _ HD) as [_ Mt].
      assert (Wt : walk (zof g) src t (du + ecz g u t)).
      { apply walk_snoc with (v := u); [exact Wu | apply (in_zrow_zof g Hcost); exact Hin]. }
      pose proof (Mt _ Wt) as L2.
      assert (Edu : du = pwz g (a :: rest)) by lia. subst du.
      assert (Hu : In u (P t)).
      { apply P_spec_w. exists (ecz g u t), (pwz g (a :: rest)). split; [exact Hin|]. split; [exact Hc|].
        split; [apply pwz_nonneg; exact Hcost|]. split; [exact HDu | exact HD]. }
      assert (Htsrc : t <> src).
      { intro X. subst t. rewrite w_P_src in Hu. destruct Hu. }
      rewrite (SPt_rec n src (bP s) rkw Hsrc w_P_rk t Htsrc). apply in_flat_map. exists u. split; [exact Hu|].
      apply in_map_iff. exists (a :: rest). split; [reflexivity|]. apply IH; assumption.
  Qed.

  Lemma SPw_nodup : forall k t j, rkw t = Some j -> (j < k)%nat -> NoDup (SPw t).
  Proof.
    induction k as [|k IH]; intros t j Hr Hj; [lia|].
    destruct (Nat.eq_dec t src) as [E0|E0].
    - subst t. rewrite (SPt_src src (bP s) rkw w_rk_src). constructor; [intros []|constructor].
    - rewrite (SPt_rec n src (bP s) rkw Hsrc w_P_rk t E0). apply NoDup_flat_map.
      + apply w_P_nodup.
      + intros u Hu. destruct (w_P_rk t u Hu) as [i0 [j' [Ru [X Y]]]]. rewrite Hr in X. inversion X. subst j'.
        apply NoDup_map_inj; [|apply (IH u i0 Ru); lia]. intros a b _ _ Eq. apply app_inj_tail in Eq. destruct Eq. assumption.
      + intros u1 u2 y Hu1 Hu2 H1 H2. apply in_map_iff in H1. destruct H1 as [p1 [E1 H1]]. apply in_map_iff in H2. destruct H2 as [p2 [E2 H2]].
        subst y. apply app_inj_tail in E2. destruct E2 as [E2 _]. subst p2.
        destruct (w_P_rk t u1 Hu1) as [i1 [j1 [Ru1 _]]]. destruct (w_P_rk t u2 Hu2) as [i2 [j2 [Ru2 _]]].
        destruct (SPw_sound (S i1) u1 i1 p1 Ru1 ltac:(lia) H1) as [[_ [_ L1]] _].
        destruct (SPw_sound (S i2) u2 i2 p1 Ru2 ltac:(lia) H2) as [[_ [_ L2]] _].
        congruence.
  Qed.

  (* SP s t of the definition = the generated set, up to order *)
  Theorem spec_sp_perm_w : forall t, Permutation (spec_sp g src t) (SPw t).
  Proof.
    intros t. destruct (rkw t) as [j|] eqn:Hr.
    - destruct (rkw_some t j Hr) as [z [HD [Hz [Ej Ht]]]].
      pose proof (SPt_nonempty n src (bP s) rkw Hsrc w_rk_src w_P_rk w_rk_tight (S j) t j Hr ltac:(lia)) as Hne.
      destruct (SPw t) as [|p0 rest] eqn:Es; [congruence|].
      assert (Hp0 : In p0 (SPw t)) by (rewrite Es; left; reflexivity).
      destruct (SPw_sound (S j) t j p0 Hr ltac:(lia) Hp0) as [Hpath0 HD0].
      rewrite HD in HD0. inversion HD0 as [Ez].
      destruct (spec_sp_char_w g Hok Hrows Hcost src t z Hsrc) as [Hnd Hiff].
      + exists p0. split; [exact Hpath0|]. split; [apply (SPw_simple (S j) t j p0 Hr); [lia | exact Hp0] | symmetry; exact Ez].
      + intros p Hp _. destruct (path_reach_w p t Hp) as [z' [HD' Hle]]. rewrite HD in HD'. inversion HD' as [Ez']. lia.
      + rewrite <- Es. apply NoDup_Permutation; [exact Hnd | apply (SPw_nodup (S j) t j Hr); lia|].
        intros p. rewrite Hiff. split.
        * intros [Hp [_ Hl]]. apply SPw_complete; [exact Hp|]. rewrite Hl. exact HD.
        * intros Hp. destruct (SPw_sound (S j) t j p Hr ltac:(lia) Hp) as [Hpath HDp]. split; [exact Hpath|].
          split; [apply (SPw_simple (S j) t j p Hr); [lia | exact Hp]|]. rewrite HD in HDp. inversion HDp. reflexivity.
    - rewrite (SPt_none src (bP s) rkw t Hr).
      destruct (spec_sp g src t) as [|p rest] eqn:Es; [constructor|].
      exfalso. assert (Hp : In p (spec_sp g src t)) by (rewrite Es; left; reflexivity).
      apply spec_sp_sound in Hp. destruct (path_reach_w p t Hp) as [z [HD _]]. unfold rkw in Hr. rewrite HD in Hr. discriminate.
  Qed.

  Theorem pair_dep_SPw : forall t v, pair_dep (spec_sp g src t) v = pair_dep (SPw t) v.
  Proof.
    intros t v. pose proof (spec_sp_perm_w t) as Hp. unfold pair_dep.
    assert (Hl : length (spec_sp g src t) = length (SPw t)) by (apply Permutation_length; exact Hp).
    assert (Hc : cnt_through v (spec_sp g src t) = cnt_through v (SPw t)) by (apply filter_length_perm; exact Hp).
    destruct (spec_sp g src t) as [|a r]; destruct (SPw t) as [|b r']; try (cbn in Hl; discriminate); [reflexivity|].
    rewrite Hc, Hl. reflexivity.
  Qed.

  (* ---------------------------------------------------------------- what one source adds: exactly its row of the definition's double sum *)
  Theorem source_contribution_w : forall bet, length bet = n -> forall v,
    get 0 (accumulate src (bS s) (bP s) (bsig s) bet) v ==
    get 0 bet v + Qsum (map (fun t => pair_term g v src t) V).
  Proof.
    intros bet Hlen v.
    destruct st_S as [HndS _]. destruct st_sigma as [Hs1 Hs2].
    rewrite (dag_source_contribution n src (bP s) rkw Bw Hsrc w_rk_src w_P_src w_P_rk w_P_nodup w_rk_range w_rk_tight
               (bsig s) 2 two_nz Hs1 Hs2 (bS s) HndS w_St_dom st_pf bet Hlen v).
    apply Qplus_comp; [reflexivity|]. apply Qsum_map_ext. intros t _.
    unfold dag_term, pair_term. rewrite pair_dep_SPw. reflexivity.
  Qed.
  (* sigma[t] = 2 * (number of shortest src-t paths of the definition): the doubling quirk is uniform *)
  Theorem sigma_counts_w : forall t, get 0 (bsig s) t == 2 * qn (length (spec_sp g src t)).
  Proof.
    intros t. rewrite (Permutation_length (spec_sp_perm_w t)). destruct st_sigma as [Hs1 Hs2].
    exact (sigma_N n src (bP s) rkw Hsrc w_rk_src w_P_rk (bsig s) 2 Hs1 Hs2 t).
  Qed.
End WStage.

(* ------------------------------------------------------------------ all sources, rescaling *)
Section WTotal.
  Variable g : qadj.
  Notation n := (length g).
  Hypothesis Hok : adj_ok n g = true.
  Hypothesis Hrows : forall v, NoDup (map fst (get [] g v)).
  Hypothesis Hcost : forall v e, In e (get [] g v) -> exists c, snd e = inject_Z c /\ (0 < c)%Z.
  Variable lw : bool.
  Notation V := (seq 0 n).

  Lemma fold_sources_w : forall l bet0 bet,
    (forall x, In x l -> (x < n)%nat) -> length bet0 = n ->
    fold_left (fun ob src =>
                 match ob with
                 | None => None
                 | Some b => match single_source lw true g src with
                             | Some r => Some (accumulate_r b r)
                             | None => None
                             end
                 end) l (Some bet0) = Some bet ->
    length bet = n /\
    forall v, get 0 bet v == get 0 bet0 v + Qsum (map (fun s => Qsum (map (fun t => pair_term g v s t) V)) l).
  Proof.
    induction l as [|src t IH]; intros bet0 bet Hr Hlen H; cbn [fold_left] in H.
    - inversion H. subst. split; [exact Hlen|]. intro v. cbn [map]. rewrite Qsum_nil. ring.
    - cbv beta in H. destruct (single_source lw true g src) as [r|] eqn:Er.
      + unfold single_source in Er. destruct (bdijkstra lw g src) as [s|] eqn:Es; [|discriminate].
        inversion Er. subst r. clear Er. unfold accumulate_r in H at 1. cbn [rsrc rS rP rsig] in H.
        assert (Hs : (src < n)%nat) by (apply Hr; left; reflexivity).
        destruct (IH _ _ (fun x Hx => Hr x (or_intror Hx)) ltac:(rewrite accumulate_length; exact Hlen) H) as [HL HV].
        split; [exact HL|]. intro v. rewrite (HV v).
        rewrite (source_contribution_w g src Hok Hs Hcost Hrows lw s Es bet0 Hlen v).
        cbn [map]. rewrite Qsum_cons. ring.
      + rewrite serial_none in H. discriminate.
  Qed.

  Theorem bc_serial_raw_w : forall bet, bc_serial lw true g = Some bet ->
    length bet = n /\ forall v, get 0 bet v == bc_raw g v.
  Proof.
    intros bet H. unfold bc_serial in H.
    destruct (fold_sources_w V (repeat 0 n) bet) as [HL HV]; [intros x Hx; apply in_seq in Hx; lia | apply repeat_length | exact H|].
    split; [exact HL|]. intro v. rewrite (HV v).
    assert (Hz : get 0 (repeat 0 n) v = 0).
    { unfold get. destruct (nth_in_or_default v (repeat 0 n) 0) as [Hi|Hi]; [apply repeat_spec in Hi; exact Hi | exact Hi]. }
    rewrite Hz. unfold bc_raw. ring.
  Qed.

  Theorem brandes_weighted : forall bet normalized directed,
    bc_core lw true g = Some bet ->
    Forall2 Qeq (rescale bet n normalized directed) (bc_def g normalized directed).
  Proof.
    intros bet normalized directed H.
    assert (Hser : bc_serial lw true g = Some bet).
    { unfold bc_core in H. destruct (Nat.ltb PAR_THRESHOLD n); [rewrite parallel_eq_serial in H|]; exact H. }
    destruct (bc_serial_raw_w bet Hser) as [HL HV].
    eapply Forall2_Qeq_trans; [apply rescale_is_bc_scale|].
    unfold bc_def. rewrite <- HL at 2.
    apply (Forall2_map_seq (bc_scale n normalized directed) (fun x => x) (bc_raw g) bet 0).
    - intros x y Hxy. apply bc_scale_comp. exact Hxy.
    - intros i _. cbn [plus]. apply (HV i).
  Qed.
  (* the model never runs out of fuel in weighted mode *)
  Theorem weighted_core_total : exists bet, bc_core lw true g = Some bet.
  Proof.
    assert (G : forall l bet0, (forall x, In x l -> (x < n)%nat) ->
              exists bet, fold_left (fun ob src =>
                 match ob with
                 | None => None
                 | Some b => match single_source lw true g src with
                             | Some r => Some (accumulate_r b r)
                             | None => None
                             end
                 end) l (Some bet0) = Some bet).
    { induction l as [|src t IH]; intros bet0 Hr; cbn [fold_left]; [eexists; reflexivity|].
      destruct (bdijkstra_total g src Hok (Hr src (or_introl eq_refl)) Hcost lw) as [s Es].
      unfold single_source at 2. rewrite Es. apply IH. intros x Hx. apply Hr. right. exact Hx. }
    assert (Hser : exists bet, bc_serial lw true g = Some bet).
    { unfold bc_serial. apply G. intros x Hx. apply in_seq in Hx. lia. }
    unfold bc_core. destruct (Nat.ltb PAR_THRESHOLD n); [rewrite parallel_eq_serial|]; exact Hser.
  Qed.
End WTotal.

(* ------------------------------------------------------------------ at the level of the graph state *)
Lemma conv_row_true_int : forall r r', conv_row true r = Some r' -> forall e, In e r' -> exists c, snd e = inject_Z c.
Proof.
  induction r as [|a t IH]; intros r' H e He; cbn in H.
  - inversion H. subst. destruct He.
  - unfold conv_entry in H. destruct (snd a) as [z|]; [|discriminate].
    destruct (conv_row true t) as [t'|]; [|discriminate]. inversion H. subst. destruct He as [He|He].
    + subst e. exists z. reflexivity.
    + eapply IH; eauto.
Qed.

Lemma conv_adj_true_int : forall sv a, conv_adj true sv = Some a -> forall v e, In e (get [] a v) -> exists c, snd e = inject_Z c.
Proof.
  induction sv as [|r t IH]; intros a H v e He; cbn in H.
  - inversion H. subst. unfold get in He. destruct v; destruct He.
  - destruct (conv_row true r) as [r'|] eqn:Er; [|discriminate].
    destruct (conv_adj true t) as [t'|] eqn:Et; [|discriminate]. inversion H. subst.
    unfold get in He. destruct v as [|v]; cbn [nth] in He.
    + eapply conv_row_true_int; eauto.
    + eapply (IH t' eq_refl v). exact He.
Qed.

Theorem rows_pos_sound : forall g, rows_pos g = true -> forall v e, In e (get [] g v) -> 0 < snd e.
Proof.
  intros g H v e He. unfold rows_pos in H. rewrite forallb_forall in H. unfold get in He.
  destruct (Nat.lt_ge_cases v (length g)) as [L|G].
  - specialize (H _ (nth_In g [] L)). rewrite forallb_forall in H. apply qlt_true. apply H. exact He.
  - rewrite nth_overflow in He by exact G. destruct He.
Qed.

Lemma int_pos_cost : forall (g : qadj),
  (forall v e, In e (get [] g v) -> exists c, snd e = inject_Z c) ->
  (forall v e, In e (get [] g v) -> 0 < snd e) ->
  forall v e, In e (get [] g v) -> exists c, snd e = inject_Z c /\ (0 < c)%Z.
Proof.
  intros g Hint Hpos v e He. destruct (Hint v e He) as [c Ec]. exists c. split; [exact Ec|].
  pose proof (Hpos v e He) as X. rewrite Ec in X. change 0 with (inject_Z 0) in X. rewrite <- Zlt_Qlt in X. exact X.
Qed.

Section ModelW.
  Context {T A : Type}.

  (* weighted betweenness of the model = the definition on the adjacency it reads, for every tie
     choice of the heap *)
  Theorem model_weighted : forall lw (gs : gstate T A) normalized m,
    betweenness_centrality lw gs true normalized = Ok m ->
    exists a, conv_adj true (successors_vec gs) = Some a /\
      (rows_nodup a = true -> rows_pos a = true ->
       Forall2 Qeq (map snd m) (bc_def a normalized (directed (sp gs)))).
  Proof.
    intros lw gs normalized m H. unfold betweenness_centrality in H.
    destruct (conv_adj true (successors_vec gs)) as [a|] eqn:Ea; [|discriminate].
    exists a. split; [reflexivity|]. intros Hrn Hrp.
    destruct (adj_ok (number_of_nodes gs) a) eqn:Hok; cbn [negb] in H; [|discriminate].
    destruct (bc_core lw true a) as [bet|] eqn:Hb; [|discriminate].
    apply name_values_snd in H. rewrite H.
    assert (Hn : number_of_nodes gs = length a).
    { unfold adj_ok in Hok. apply andb_true_iff in Hok. destruct Hok as [Hl _]. apply Nat.eqb_eq in Hl. lia. }
    unfold get_all_nodes. change (length (nodes_vec gs)) with (number_of_nodes gs). rewrite Hn.
    apply brandes_weighted with (lw := lw); auto.
    - rewrite <- Hn. exact Hok.
    - apply rows_nodup_sound. exact Hrn.
    - apply int_pos_cost; [eapply conv_adj_true_int; exact Ea | apply rows_pos_sound; exact Hrp].
  Qed.
End ModelW.

(* ------------------------------------------------------------------ non-vacuity of the hypotheses *)
(* 0 reaches 3 first along the tied routes 0-1-3 and 0-2-3 (weight 3 each) and then along the
   strictly shorter 0-4-3 (weight 2): the tentative count of node 3 must be reset; 3 -> 5 extends
   it, node 6 is isolated.  Both tie choices of the heap. *)
Example ex_wg : qadj :=
  [[(1%nat, inject_Z 1); (2%nat, inject_Z 1); (4%nat, inject_Z 1)]; [(3%nat, inject_Z 2)]; [(3%nat, inject_Z 2)];
   [(5%nat, inject_Z 1)]; [(3%nat, inject_Z 1)]; []; []].
Example ex_weighted_hyps :
  adj_ok (length ex_wg) ex_wg = true /\ rows_nodup ex_wg = true /\ rows_pos ex_wg = true /\
  (forall v e, In e (get [] ex_wg v) -> exists c, snd e = inject_Z c /\ (0 < c)%Z) /\
  (exists s, bdijkstra false ex_wg 0 = Some s /\ bS s = [0; 1; 2; 4; 3; 5]%nat /\ get 0 (bsig s) 3 == 2 /\ get [] (bP s) 3 = [4%nat]) /\
  (exists bet, bc_core false true ex_wg = Some bet /\ get 0 bet 4%nat == 2 /\ get 0 bet 1%nat == 0) /\
  (exists bet, bc_core true true ex_wg = Some bet /\ get 0 bet 4%nat == 2 /\ get 0 bet 1%nat == 0).
Proof.
  split; [reflexivity|]. split; [reflexivity|]. split; [reflexivity|]. split.
  - intros v e H. unfold ex_wg, get in H.
    do 7 (destruct v as [|v]; [cbn in H; repeat (destruct H as [H|H]; [subst e; eexists; split; [reflexivity | lia]|]); destruct H|]).
    cbn in H. destruct v; destruct H.
  - split; [|split].
    + eexists. split; [vm_compute; reflexivity|]. repeat split.
    + eexists. split; [vm_compute; reflexivity|]. split; reflexivity.
    + eexists. split; [vm_compute; reflexivity|]. split; reflexivity.
Qed.
