(* Non-vacuity of the C10 theorems: concrete graph states (built by the transcribed
   new_from_nodes_and_edges, integer names) meeting their hypotheses. *)
From Coq Require Import List Bool ZArith.
From GV Require Import Base.Outcome Base.AMap Model.GState Model.Creation Model.Query
     Model.Components Model.Scc Spec.ReachDef Spec.CompSpec Proofs.PartitionsTotalOk.
Import ListNotations.
Open Scope Z_scope.

Definition ex_e (u v : Z) : edge Z Z := mkedge u v None None.
Definition ex_build (d : bool) (es : list (edge Z Z)) : outcome (gstate Z Z) :=
  new_from_nodes_and_edges Z.eqb Z.ltb [mknode 9 None] es (mkspecs d DKeepFirst MCreate false true SErr).

(* directed: 3-cycle 0->1->2->0, tail 2->3, 2-cycle 3<->4, isolated 9 *)
Definition ex_dg := ex_build true [ex_e 0 1; ex_e 1 2; ex_e 2 0; ex_e 2 3; ex_e 3 4; ex_e 4 3].
(* undirected: path 0-1-2, edge 3-4, isolated 9 *)
Definition ex_ug := ex_build false [ex_e 0 1; ex_e 1 2; ex_e 3 4].

Definition on_graph {X} (r : outcome (gstate Z Z)) (f : gstate Z Z -> X) (d : X) : X :=
  match r with Ok g => f g | _ => d end.

(* C10_checker_sound: the checker accepts the model's output on these graphs *)
Example checker_accepts_strong :
  on_graph ex_dg (fun g => match strongly_connected_components Z.eqb (fun l => l) g with
                           | Ok cs => check_components_g Z.eqb g RStrong cs && Nat.eqb (length cs) 3
                           | _ => false end) false = true.
Proof. vm_compute. reflexivity. Qed.

Example checker_accepts_weak :
  on_graph ex_dg (fun g => match weakly_connected_components Z.eqb g with
                           | Ok cs => check_components_g Z.eqb g RConn cs && Nat.eqb (length cs) 2
                           | _ => false end) false = true.
Proof. vm_compute. reflexivity. Qed.

Example checker_accepts_connected :
  on_graph ex_ug (fun g => match connected_components Z.eqb g with
                           | Ok cs => check_components_g Z.eqb g RConn cs && Nat.eqb (length cs) 3
                           | _ => false end) false = true.
Proof. vm_compute. reflexivity. Qed.

(* ... and rejects a wrong partition (the checker is not constantly true) *)
Example checker_rejects :
  on_graph ex_ug (fun g => check_components_g Z.eqb g RConn [[9; 0; 1]; [2]; [3; 4]]) true = false.
Proof. vm_compute. reflexivity. Qed.

(* C10_bfs / C10_node_component / C10_count: runs that return *)
Example bfs_returns :
  on_graph ex_dg (fun g => breadth_first_search Z.eqb g 2) (Err WrongMethod) = Ok [2; 0; 3; 1; 4].
Proof. vm_compute. reflexivity. Qed.

Example node_component_returns :
  on_graph ex_ug (fun g => node_connected_component Z.eqb g 1) (Err WrongMethod) = Ok [1; 0; 2].
Proof. vm_compute. reflexivity. Qed.

Example node_component_absent_hyp :
  on_graph ex_ug (fun g => (directed (sp g), has_node Z.eqb g 77)) (true, Err WrongMethod) = (false, Ok false).
Proof. vm_compute. reflexivity. Qed.

Example count_returns :
  on_graph ex_ug (fun g => number_of_connected_components Z.eqb g) (Err WrongMethod) = Ok 3%nat.
Proof. vm_compute. reflexivity. Qed.

Example equal_size_returns :
  on_graph ex_dg (fun g => bfs_equal_size_partitions g 2) (Err WrongMethod) = Ok [[9; 0; 1; 2]; [3; 4]].
Proof. vm_compute. reflexivity. Qed.

(* C10_connected(_checked) / C10_weak(_checked): graphs meeting the coherence hypotheses *)
Example connected_hypotheses :
  on_graph ex_ug (fun g => step_ok_b Z.eqb g && is_ok (connected_components Z.eqb g)) false = true.
Proof. vm_compute. reflexivity. Qed.

Example weak_hypotheses :
  on_graph ex_dg (fun g => wstep_ok_b Z.eqb g && is_ok (weakly_connected_components Z.eqb g)) false = true.
Proof. vm_compute. reflexivity. Qed.

Example bfs_total_hypotheses :
  on_graph ex_dg (fun g => step_total_b Z.eqb g && memb Z.eqb 2 (g_nodes g)) false = true.
Proof. vm_compute. reflexivity. Qed.

(* C10_scc: the hypotheses hold for ord = identity / reversal on the example digraph *)
Example scc_hypotheses :
  on_graph ex_dg (fun g => wstep_ok_b Z.eqb g && is_ok (strongly_connected_components Z.eqb (@rev Z) g)) false = true.
Proof. vm_compute. reflexivity. Qed.
Example rev_permutes : forall (l : list Z) x, In x (rev l) <-> In x l.
Proof. intros l x. symmetry. apply in_rev. Qed.

Example equal_size_total_hypotheses : on_graph ex_dg (fun g => vec_ok_b g) false = true.
Proof. vm_compute. reflexivity. Qed.
