(* Non-vacuity of the C10 theorems: concrete graph states (built by the transcribed
   new_from_nodes_and_edges, integer names) meeting their hypotheses. *)
From Coq Require Import List Bool ZArith.
From GV Require Import Base.Outcome Base.AMap Model.GState Model.Creation Model.Query
     Model.Components Model.Scc Spec.ReachDef Spec.CompSpec Proofs.PartitionsTotalOk.
From GV Require Import Spec.EdgeAdj Proofs.WFDefs Proofs.HistoryOk Proofs.CompWF.
From Coq Require Import Lia.
Import ListNotations.
Open Scope Z_scope.

Definition ex_e (u v : Z) : edge Z Z := mkedge u v None None.
Definition ex_build (d : bool) (es : list (edge Z Z)) : outcome (gstate Z Z) :=
  new_from_nodes_and_edges Z.eqb Z.ltb [mknode 9 None] es (mkspecs d DKeepFirst MCreate false true SErr).

(* directed: 3-cycle 0->1->2->0, tail 2->3, 2-cycle 3<->4, isolated 9 *)
Definition ex_dg := ex_build true [ex_e 0 1; ex_e 1 2; ex_e 2 0; ex_e 2 3; ex_e 3 4; ex_e 4 3].
(* undirected: path 0-1-2, edge 3-4, isolated 9 *)
Definition ex_ug := ex_build false [ex_e 0 1; ex_e 1 2; ex_e 3 4].

Definition on_graph {X} (r : outcome (gstate Z Z)) (f : gstate Z Z -> X) (d : X) : X :=
  match r with Ok g => f g | _ => d end.

(* C10_checker_sound: the checker accepts the model's output on these graphs *)
Example checker_accepts_strong :
  on_graph ex_dg (fun g => match strongly_connected_components Z.eqb (fun l => l) g with
                           | Ok cs => check_components_g Z.eqb g RStrong cs && Nat.eqb (length cs) 3
                           | _ => false end) false = true.
Proof. vm_compute. reflexivity. Qed.

Example checker_accepts_weak :
  on_graph ex_dg (fun g => match weakly_connected_components Z.eqb g with
                           | Ok cs => check_components_g Z.eqb g RConn cs && Nat.eqb (length cs) 2
                           | _ => false end) false = true.
Proof. vm_compute. reflexivity. Qed.

Example checker_accepts_connected :
  on_graph ex_ug (fun g => match connected_components Z.eqb g with
                           | Ok cs => check_components_g Z.eqb g RConn cs && Nat.eqb (length cs) 3
                           | _ => false end) false = true.
Proof. vm_compute. reflexivity. Qed.

(* ... and rejects a wrong partition (the checker is not constantly true) *)
Example checker_rejects :
  on_graph ex_ug (fun g => check_components_g Z.eqb g RConn [[9; 0; 1]; [2]; [3; 4]]) true = false.
Proof. vm_compute. reflexivity. Qed.

(* C10_bfs / C10_node_component / C10_count: runs that return *)
Example bfs_returns :
  on_graph ex_dg (fun g => breadth_first_search Z.eqb g 2) (Err WrongMethod) = Ok [2; 0; 3; 1; 4].
Proof. vm_compute. reflexivity. Qed.

Example node_component_returns :
  on_graph ex_ug (fun g => node_connected_component Z.eqb g 1) (Err WrongMethod) = Ok [1; 0; 2].
Proof. vm_compute. reflexivity. Qed.

Example node_component_absent_hyp :
  on_graph ex_ug (fun g => (directed (sp g), has_node Z.eqb g 77)) (true, Err WrongMethod) = (false, Ok false).
Proof. vm_compute. reflexivity. Qed.

Example count_returns :
  on_graph ex_ug (fun g => number_of_connected_components Z.eqb g) (Err WrongMethod) = Ok 3%nat.
Proof. vm_compute. reflexivity. Qed.

Example equal_size_returns :
  on_graph ex_dg (fun g => bfs_equal_size_partitions g 2) (Err WrongMethod) = Ok [[9; 0; 1; 2]; [3; 4]].
Proof. vm_compute. reflexivity. Qed.

(* C10_connected(_checked) / C10_weak(_checked): graphs meeting the coherence hypotheses *)
Example connected_hypotheses :
  on_graph ex_ug (fun g => step_ok_b Z.eqb g && is_ok (connected_components Z.eqb g)) false = true.
Proof. vm_compute. reflexivity. Qed.

Example weak_hypotheses :
  on_graph ex_dg (fun g => wstep_ok_b Z.eqb g && is_ok (weakly_connected_components Z.eqb g)) false = true.
Proof. vm_compute. reflexivity. Qed.

Example bfs_total_hypotheses :
  on_graph ex_dg (fun g => step_total_b Z.eqb g && memb Z.eqb 2 (g_nodes g)) false = true.
Proof. vm_compute. reflexivity. Qed.

(* C10_scc: the hypotheses hold for ord = identity / reversal on the example digraph *)
Example scc_hypotheses :
  on_graph ex_dg (fun g => wstep_ok_b Z.eqb g && is_ok (strongly_connected_components Z.eqb (@rev Z) g)) false = true.
Proof. vm_compute. reflexivity. Qed.
Example rev_permutes : forall (l : list Z) x, In x (rev l) <-> In x l.
Proof. intros l x. symmetry. apply in_rev. Qed.

Example equal_size_total_hypotheses : on_graph ex_dg (fun g => vec_ok_b g) false = true.
Proof. vm_compute. reflexivity. Qed.

(* ---- the end-to-end theorems (C10_*_wf / C10_*_reachable) are not vacuous: the hypotheses on
   the name order hold for integers, the example graphs are built (hence reachable, hence WF),
   and the theorems then apply without any computation on the state ---- *)
Lemma z_eqb_spec : forall x y : Z, Z.eqb x y = true <-> x = y.
Proof. apply Z.eqb_eq. Qed.
Lemma z_ltb_asym : forall x y : Z, Z.ltb x y = true -> Z.ltb y x = false.
Proof. intros x y H. apply Z.ltb_lt in H. apply Z.ltb_ge. lia. Qed.
Lemma z_ltb_total : forall x y : Z, Z.ltb x y = false -> Z.ltb y x = false -> x = y.
Proof. intros x y H1 H2. apply Z.ltb_ge in H1. apply Z.ltb_ge in H2. lia. Qed.

Lemma built_WF : forall ns es s (g : gstate Z Z),
  new_from_nodes_and_edges Z.eqb Z.ltb ns es s = Ok g -> WF Z.eqb Z.ltb g.
Proof.
  intros ns es s g H. apply (WF_reachable Z.eqb Z.ltb z_eqb_spec z_ltb_asym z_ltb_total s).
  exact (new_from_reachable Z.eqb Z.ltb z_eqb_spec ns es s g H).
Qed.

Example examples_are_built : is_ok ex_ug && is_ok ex_dg = true.
Proof. vm_compute. reflexivity. Qed.

(* for every graph that new_from_nodes_and_edges builds (any node list, edge list, specs) *)
Lemma end_to_end_connected_built : forall ns es s (g : gstate Z Z),
  new_from_nodes_and_edges Z.eqb Z.ltb ns es s = Ok g -> directed s = false ->
  exists cs, connected_components Z.eqb g = Ok cs /\
             is_component_partition (g_nodes g) (g_connected g) cs.
Proof.
  intros ns es s g H Hd.
  apply (connected_components_wf Z.eqb Z.ltb z_eqb_spec z_ltb_total g (built_WF _ _ _ g H)).
  rewrite (reachable_sp Z.eqb Z.ltb z_eqb_spec z_ltb_asym z_ltb_total s g
             (new_from_reachable Z.eqb Z.ltb z_eqb_spec ns es s g H)). exact Hd.
Qed.

Lemma end_to_end_strong_built : forall ns es s (g : gstate Z Z),
  new_from_nodes_and_edges Z.eqb Z.ltb ns es s = Ok g -> directed s = true ->
  exists cs, strongly_connected_components Z.eqb (@rev Z) g = Ok cs /\
             is_component_partition (g_nodes g) (g_strongly g) cs.
Proof.
  intros ns es s g H Hd.
  apply (strongly_connected_components_wf Z.eqb Z.ltb z_eqb_spec z_ltb_total (@rev Z) g rev_permutes
           (built_WF _ _ _ g H)).
  rewrite (reachable_sp Z.eqb Z.ltb z_eqb_spec z_ltb_asym z_ltb_total s g
             (new_from_reachable Z.eqb Z.ltb z_eqb_spec ns es s g H)). exact Hd.
Qed.
