(* Non-vacuity of the C11 theorems: concrete graphs / adjacencies meeting their hypotheses. *)
From Coq Require Import List Bool ZArith QArith.
From GV Require Import Base.Outcome Base.AMap Model.GState Model.Creation Model.Query
     Model.Components Model.Cluster Model.Square Spec.ClusterDef Spec.ClusterSpec Proofs.ClusterDefOk.
From GV Require Import Spec.EdgeAdj Proofs.WFDefs Proofs.HistoryOk Proofs.ClusterOk Proofs.ClusterWF Proofs.ClusterDirOk
     Proofs.SquareOk Proofs.ClusterRangeWF.
From Coq Require Import Lia.
Import ListNotations.
Close Scope Q_scope.
Open Scope Z_scope.

Definition ex_e (u v : Z) : edge Z Z := mkedge u v None None.
Definition ex_build (d m : bool) (es : list (edge Z Z)) : outcome (gstate Z Z) :=
  new_from_nodes_and_edges Z.eqb Z.ltb [mknode 9 None] es (mkspecs d DKeepFirst MCreate m true SErr).
Definition on_graph {X} (r : outcome (gstate Z Z)) (f : gstate Z Z -> X) (d : X) : X :=
  match r with Ok g => f g | _ => d end.

(* undirected: triangle 0-1-2, pendant 2-3, self-loop on 3, 4-cycle 4-5-6-7, isolated 9 *)
Definition ex_ug := ex_build false false
  [ex_e 0 1; ex_e 1 2; ex_e 0 2; ex_e 2 3; ex_e 3 3; ex_e 4 5; ex_e 5 6; ex_e 6 7; ex_e 7 4].
Definition ex_dg := ex_build true false [ex_e 0 1; ex_e 1 2; ex_e 2 0; ex_e 1 0; ex_e 2 3].
Definition ex_mg := ex_build false true [ex_e 0 1; ex_e 0 1].

(* symmetric adjacency with a self-loop, and the same without it *)
Definition ex_nodes : list Z := [0; 1; 2; 3].
Definition ex_adj (u v : Z) : bool :=
  existsb (fun p => (Z.eqb (fst p) u && Z.eqb (snd p) v) || (Z.eqb (fst p) v && Z.eqb (snd p) u))
          [(0, 1); (1, 2); (0, 2); (2, 3); (3, 3)].
Definition ex_adj' (u v : Z) : bool := ex_adj u v && negb (Z.eqb u v).

Example triangle_sum_instance :
  (sumf (tri Z.eqb ex_nodes ex_adj) ex_nodes, n_triangles Z.eqb ex_nodes ex_adj) = (3%nat, 1%nat).
Proof. vm_compute. reflexivity. Qed.

Example selfloop_instance_differs_on_diagonal : ex_adj 3 3 = true /\ ex_adj' 3 3 = false.
Proof. vm_compute. auto. Qed.

Example cc_instance : Qeq_bool (cc Z.eqb ex_nodes ex_adj 2) (1 # 3) = true.
Proof. vm_compute. reflexivity. Qed.

(* subset theorems: both calls return *)
Example subset_hypotheses_triangles :
  on_graph ex_ug (fun g => (triangles Z.eqb g (Some [2; 3]), triangles Z.eqb g None)) (Err WrongMethod, Err WrongMethod)
  = (Ok [(2, 1%nat); (3, 0%nat)],
     Ok [(9, 0%nat); (0, 1%nat); (1, 1%nat); (2, 1%nat); (3, 0%nat); (4, 0%nat); (5, 0%nat);
         (6, 0%nat); (7, 0%nat)]).
Proof. vm_compute. reflexivity. Qed.

Example subset_hypotheses_clustering :
  on_graph ex_dg (fun g => (is_ok (clustering Z.eqb g (Some [1])), is_ok (clustering Z.eqb g None))) (false, false)
  = (true, true).
Proof. vm_compute. reflexivity. Qed.

Example subset_hypotheses_gd_square :
  on_graph ex_ug (fun g => (is_ok (generalized_degree Z.eqb g (Some [0])), is_ok (generalized_degree Z.eqb g None),
                            square_clustering Z.eqb g (Some [4]))) (false, false, Err WrongMethod)
  = (true, true, Ok [(4, 1%Q)]).
Proof. vm_compute. reflexivity. Qed.

(* refusals: graphs with the hypotheses *)
Example refuses_hypotheses :
  (on_graph ex_mg (fun g => multi (sp g)) false, on_graph ex_dg (fun g => directed (sp g)) false) = (true, true).
Proof. vm_compute. reflexivity. Qed.

(* C11_triangles_eq_def / C11_clustering_eq_def: a graph passing the coherence test *)
Example eq_def_hypotheses :
  on_graph ex_ug (fun g => nbr_ok_b Z.eqb g && negb (directed (sp g)) &&
                           is_ok (triangles Z.eqb g (Some [2])) && is_ok (clustering Z.eqb g None)) false = true.
Proof. vm_compute. reflexivity. Qed.

(* ---- the end-to-end theorems (C11_*_wf / C11_*_reachable) are not vacuous: the hypotheses on
   the name order hold for integers, every graph built by new_from_nodes_and_edges is WF, the
   example graphs are built and the calls on them return ---- *)
Lemma z_eqb_spec : forall x y : Z, Z.eqb x y = true <-> x = y.
Proof. apply Z.eqb_eq. Qed.
Lemma z_ltb_asym : forall x y : Z, Z.ltb x y = true -> Z.ltb y x = false.
Proof. intros x y H. apply Z.ltb_lt in H. apply Z.ltb_ge. lia. Qed.
Lemma z_ltb_total : forall x y : Z, Z.ltb x y = false -> Z.ltb y x = false -> x = y.
Proof. intros x y H1 H2. apply Z.ltb_ge in H1. apply Z.ltb_ge in H2. lia. Qed.

Lemma built_WF : forall ns es s (g : gstate Z Z),
  new_from_nodes_and_edges Z.eqb Z.ltb ns es s = Ok g -> WF Z.eqb Z.ltb g.
Proof.
  intros ns es s g H. apply (WF_reachable Z.eqb Z.ltb z_eqb_spec z_ltb_asym z_ltb_total s).
  exact (new_from_reachable Z.eqb Z.ltb z_eqb_spec ns es s g H).
Qed.

(* for every built graph: triangles = definition over the edge list; every clustering value in [0,1] *)
Lemma end_to_end_triangles_built : forall ns es s (g : gstate Z Z),
  new_from_nodes_and_edges Z.eqb Z.ltb ns es s = Ok g -> forall nn m v,
  triangles Z.eqb g nn = Ok m -> In v (requested_names g nn) -> In v (get_all_node_names g) ->
  lookup Z.eqb v m = Some (tri Z.eqb (get_all_node_names g) (edge_adjb Z.eqb g) v).
Proof.
  intros ns es s g H. exact (triangles_wf Z.eqb Z.ltb z_eqb_spec z_ltb_total g (built_WF _ _ _ g H)).
Qed.

Lemma end_to_end_range_built : forall ns es s (g : gstate Z Z),
  new_from_nodes_and_edges Z.eqb Z.ltb ns es s = Ok g -> forall nn m v c,
  clustering Z.eqb g nn = Ok m -> lookup Z.eqb v m = Some c -> (0 <= c /\ c <= 1)%Q.
Proof.
  intros ns es s g H. exact (clustering_unit_wf Z.eqb Z.ltb z_eqb_spec z_ltb_total g (built_WF _ _ _ g H)).
Qed.

Example end_to_end_hypotheses :
  (is_ok ex_ug && is_ok ex_dg &&
   on_graph ex_ug (fun g => negb (directed (sp g)) && is_ok (triangles Z.eqb g None) && is_ok (clustering Z.eqb g None) &&
                            is_ok (generalized_degree Z.eqb g (Some [0; 2])) && is_ok (transitivity Z.eqb g) &&
                            is_ok (square_clustering Z.eqb g None)) false &&
   on_graph ex_dg (fun g => directed (sp g) && is_ok (clustering Z.eqb g None)) false)%bool = true.
Proof. vm_compute. reflexivity. Qed.

(* the values on the examples: node 2 of ex_ug has 1 triangle, clustering 1/3; node 4 sits in one square *)
Example end_to_end_values :
  on_graph ex_ug (fun g => (tri Z.eqb (get_all_node_names g) (edge_adjb Z.eqb g) 2,
                            Qeq_bool (cc Z.eqb (get_all_node_names g) (edge_adjb Z.eqb g) 2) (1 # 3),
                            Qeq_bool (square_def Z.eqb (get_all_node_names g) (edge_adjb Z.eqb g) 4) 1,
                            gen_degree Z.eqb (get_all_node_names g) (edge_adjb Z.eqb g) 2 1))
           (0%nat, false, false, 0%nat) = (1%nat, true, true, 2%nat).
Proof. vm_compute. reflexivity. Qed.

Example end_to_end_directed_value :
  on_graph ex_dg (fun g => Qeq_bool (cc_directed Z.eqb (get_all_node_names g) (has_edge_b Z.eqb g) 0) (1 # 2)) false = true.
Proof. vm_compute. reflexivity. Qed.
