(* Small list facts shared by the centrality proofs (C05, C06, C18). *)
From Coq Require Import List Bool ZArith Arith QArith Lia.
From GV Require Import Base.Outcome Base.AMap Model.Cent.
Import ListNotations.
Open Scope list_scope.

(* ------------------------------------------------------------------ upd / get *)
Lemma upd_length : forall X (l : list X) i x, length (upd i x l) = length l.
Proof. induction l as [|h t IH]; intros [|i] x; cbn; auto. Qed.

Lemma nth_upd_eq : forall X (l : list X) i x d, (i < length l)%nat -> nth i (upd i x l) d = x.
Proof.
  induction l as [|h t IH]; intros [|i] x d H; cbn in *; try lia; auto. apply IH. lia.
Qed.

Lemma nth_upd_neq : forall X (l : list X) i j x d, i <> j -> nth j (upd i x l) d = nth j l d.
Proof.
  induction l as [|h t IH]; intros [|i] [|j] x d H; cbn; auto; try congruence.
Qed.


Lemma omapM_length : forall X Y (f : X -> outcome Y) l r, omapM f l = Ok r -> length r = length l.
Proof.
  induction l as [|x t IH]; intros r H; cbn in H.
  - inversion H. reflexivity.
  - destruct (f x); try discriminate. cbn in H. destruct (omapM f t) eqn:E; try discriminate.
    cbn in H. inversion H. cbn. f_equal. apply IH. reflexivity.
Qed.

