(* C06, hop-count mode: correctness of the model's own level-synchronous BFS
   (closeness.rs:94-131) by loop invariant — for every graph, every source: the
   list it returns holds exactly the reachable nodes with their hop distances —
   and, with the formula stage, the closeness value computed from it. *)
From Coq Require Import List Bool ZArith Arith QArith Lia Lqa.
From GV Require Import Base.Outcome Base.AMap Model.GState Model.Cent Model.Brandes Model.Closeness.
From GV Require Import Spec.ClosenessDef Proofs.CentBase Proofs.ClosenessOk.
Import ListNotations.
Open Scope list_scope.

(* ------------------------------------------------------------------ levels *)
Definition lv (k : nat) : Q := inject_Z (Z.of_nat k).

Lemma inject_Z_inj : forall a b, inject_Z a = inject_Z b -> a = b.
Proof. intros a b H. unfold inject_Z in H. inversion H. reflexivity. Qed.

Lemma lv_inj : forall a b, lv a = lv b -> a = b.
Proof. intros a b H. apply inject_Z_inj in H. lia. Qed.

Lemma Qred_inject_Z : forall z, Qred (inject_Z z) = inject_Z z.
Proof.
  intros. unfold Qred, inject_Z. cbn.
  pose proof (Z.ggcd_gcd z 1) as H. pose proof (Z.ggcd_correct_divisors z 1) as H0.
  destruct (Z.ggcd z 1) as [g [aa bb]]. cbn in *. rewrite Z.gcd_1_r in H. subst g. destruct H0 as [H0 H1].
  rewrite Z.mul_1_l in *. subst. reflexivity.
Qed.

Lemma lv_succ : forall k, Qred (lv k + 1) = lv (S k).
Proof.
  intros k. unfold lv. rewrite <- (Qred_inject_Z (Z.of_nat (S k))). apply Qred_complete.
  rewrite Nat2Z.inj_succ. unfold Z.succ. rewrite inject_Z_plus. reflexivity.
Qed.

(* ------------------------------------------------------------------ list facts *)
Lemma nat_mem_In : forall v l, nat_mem v l = true <-> In v l.
Proof.
  intros v l. unfold nat_mem. rewrite existsb_exists. split.
  - intros [x [Hin H]]. apply Nat.eqb_eq in H. subst. exact Hin.
  - intros H. exists v. split; [exact H | apply Nat.eqb_refl].
Qed.

Lemma NoDup_app_intro : forall (X : Type) (a b : list X),
  NoDup a -> NoDup b -> (forall x, In x a -> ~ In x b) -> NoDup (a ++ b).
Proof.
  induction a as [|h t IH]; intros b Ha Hb Hd; cbn; [exact Hb|].
  inversion Ha; subst. constructor.
  - intro X0. apply in_app_or in X0. destruct X0 as [X0|X0]; [contradiction|]. apply (Hd h); [left; reflexivity | exact X0].
  - apply IH; auto. intros x Hx. apply Hd. right. exact Hx.
Qed.

Lemma fst_unique : forall (X : Type) (l : list (nat * X)) v q1 q2,
  NoDup (map fst l) -> In (v, q1) l -> In (v, q2) l -> q1 = q2.
Proof.
  induction l as [|[v' q'] t IH]; intros v q1 q2 Hnd H1 H2; [destruct H1|].
  cbn in Hnd. inversion Hnd; subst.
  destruct H1 as [H1|H1]; destruct H2 as [H2|H2].
  - inversion H1; inversion H2; subst. reflexivity.
  - inversion H1; subst. exfalso. apply H3. apply in_map_iff. exists (v, q2). auto.
  - inversion H2; subst. exfalso. apply H3. apply in_map_iff. exists (v, q1). auto.
  - eapply IH; eauto.
Qed.

Lemma in_map_fst_ex : forall (X : Type) (l : list (nat * X)) v, In v (map fst l) -> exists q, In (v, q) l.
Proof.
  intros X l v H. apply in_map_iff in H. destruct H as [[v' q] [E H]]. cbn in E. subst. exists q. exact H.
Qed.

(* ------------------------------------------------------------------ visit_level and expand *)
Lemma visit_level_spec : forall lvl next seen found results,
  exists new,
    visit_level lvl next seen found results =
      (seen ++ new, found ++ new, results ++ map (fun v => (v, lvl)) new) /\
    NoDup new /\ (forall v, In v new <-> In v next /\ ~ In v seen).
Proof.
  intros lvl. induction next as [|v t IH]; intros seen found results; cbn [visit_level].
  - exists []. repeat rewrite app_nil_r. split; [reflexivity|]. split; [constructor|].
    intros v. split; [intros []| intros [[] _]].
  - destruct (nat_mem v seen) eqn:Em.
    + apply nat_mem_In in Em. destruct (IH seen found results) as [new [H1 [H2 H3]]].
      exists new. split; [exact H1|]. split; [exact H2|]. intros x. rewrite H3. split.
      * intros [A B]. split; [right; exact A | exact B].
      * intros [[A|A] B]; [subst; contradiction | split; assumption].
    + assert (Hn : ~ In v seen). { intro X. apply nat_mem_In in X. congruence. }
      destruct (IH (seen ++ [v]) (found ++ [v]) (results ++ [(v, lvl)])) as [new [H1 [H2 H3]]].
      exists (v :: new). split.
      * rewrite H1. repeat rewrite <- app_assoc. reflexivity.
      * split.
        -- constructor; [|exact H2]. intro X. apply H3 in X. destruct X as [_ X]. apply X.
           apply in_or_app. right. left. reflexivity.
        -- intros x. split.
           ++ intros [A|A]; [subst; split; [left; reflexivity | exact Hn]|].
              apply H3 in A. destruct A as [A B]. split; [right; exact A|].
              intro X. apply B. apply in_or_app. left. exact X.
           ++ intros [[A|A] B]; [left; exact A|].
              destruct (Nat.eq_dec v x) as [E|E]; [left; exact E|]. right. apply H3. split; [exact A|].
              intro X. apply in_app_or in X. destruct X as [X|[X|[]]]; [contradiction | congruence].
Qed.

Lemma set_add_In : forall x l w, In w (set_add Nat.eqb x l) <-> In w l \/ w = x.
Proof.
  intros x l w. unfold set_add, mem.
  destruct (existsb (Nat.eqb x) l) eqn:E.
  - split; [intro H; left; exact H|]. intros [H|H]; [exact H|]. subst.
    apply existsb_exists in E. destruct E as [y [Hy Ey]]. apply Nat.eqb_eq in Ey. subst. exact Hy.
  - rewrite in_app_iff. cbn. split.
    + intros [H|[H|[]]]; [left; exact H | right; symmetry; exact H].
    + intros [H|H]; [left; exact H | right; left; symmetry; exact H].
Qed.

Definition E (g : qadj) (v w : nat) : Prop := In w (map fst (get [] g v)).

Lemma expand_row_In : forall (row : list (nat * Q)) nl w,
  In w (fold_left (fun nl2 a => set_add Nat.eqb (fst a) nl2) row nl) <-> In w nl \/ In w (map fst row).
Proof.
  induction row as [|a t IH]; intros nl w; cbn [fold_left map].
  - split; [intro H; left; exact H | intros [H|[]]; exact H].
  - rewrite IH. rewrite set_add_In. cbn. split.
    + intros [[H|H]|H]; [left; exact H | right; left; symmetry; exact H | right; right; exact H].
    + intros [H|[H|H]]; [left; left; exact H | left; right; symmetry; exact H | right; exact H].
Qed.

Lemma expand_from_In : forall g found nl w,
  In w (fold_left (fun nl v => fold_left (fun nl2 a => set_add Nat.eqb (fst a) nl2) (get [] g v) nl) found nl)
  <-> In w nl \/ exists v, In v found /\ E g v w.
Proof.
  intros g. induction found as [|v t IH]; intros nl w; cbn [fold_left].
  - split; [intro H; left; exact H | intros [H|[v [[] _]]]; exact H].
  - rewrite IH. rewrite expand_row_In. split.
    + intros [[H|H]|[v' [Hv He]]].
      * left; exact H.
      * right. exists v. split; [left; reflexivity | exact H].
      * right. exists v'. split; [right; exact Hv | exact He].
    + intros [H|[v' [[Hv|Hv] He]]].
      * left; left; exact H.
      * subst v'. left. right. exact He.
      * right. exists v'. split; assumption.
Qed.

Lemma expand_In : forall g found w, In w (expand g found) <-> exists v, In v found /\ E g v w.
Proof.
  intros g found w. unfold expand. rewrite expand_from_In. split; [intros [[]|H]; exact H | intro H; right; exact H].
Qed.

(* ------------------------------------------------------------------ the loop invariant *)
Section Bfs.
  Variable g : qadj.
  Variable src : nat.
  Notation n := (length g).
  Hypothesis Hok : adj_ok n g = true.
  Hypothesis Hsrc : (src < n)%nat.

  Lemma E_range : forall v w, E g v w -> (w < n)%nat.
  Proof.
    intros v w H. unfold E in H. unfold adj_ok in Hok. apply andb_true_iff in Hok. destruct Hok as [_ H2].
    rewrite forallb_forall in H2. unfold get in H.
    destruct (Nat.lt_ge_cases v n) as [L|G].
    - assert (Hr : In (nth v g []) g) by (apply nth_In; exact L).
      specialize (H2 _ Hr). rewrite forallb_forall in H2.
      apply in_map_iff in H. destruct H as [a [Ea Ha]]. specialize (H2 _ Ha). apply Nat.ltb_lt in H2. subst. exact H2.
    - rewrite nth_overflow in H by exact G. destruct H.
  Qed.

  Definition Inv (L : nat) (next seen : list nat) (results : list (nat * Q)) : Prop :=
    seen = map fst results /\
    NoDup seen /\
    (forall v q, In (v, q) results -> exists k, q = lv k /\ (k < L)%nat) /\
    (L = O -> results = [] /\ next = [src]) /\
    ((0 < L)%nat -> In (src, lv 0) results) /\
    (forall w k, In (w, lv k) results -> w <> src ->
       (1 <= k)%nat /\ exists v, In (v, lv (k - 1)) results /\ E g v w) /\
    (forall v k w, In (v, lv k) results -> (S k < L)%nat -> E g v w ->
       exists k', In (w, lv k') results /\ (k' <= S k)%nat) /\
    (forall v k w, In (v, lv k) results -> S k = L -> E g v w -> In w next) /\
    ((0 < L)%nat -> forall w, In w next -> exists v, In (v, lv (L - 1)) results /\ E g v w) /\
    (forall v, In v seen -> (v < n)%nat) /\
    (forall w, In w next -> (w < n)%nat).

  Definition results_ok (results : list (nat * Q)) : Prop :=
    In (src, lv 0) results /\
    NoDup (map fst results) /\
    (forall v q, In (v, q) results -> (v < n)%nat /\ exists k, q = lv k) /\
    (forall w k, In (w, lv k) results -> w <> src ->
       (1 <= k)%nat /\ exists v, In (v, lv (k - 1)) results /\ E g v w) /\
    (forall v k w, In (v, lv k) results -> E g v w ->
       exists k', In (w, lv k') results /\ (k' <= S k)%nat).

  Lemma Inv_init : Inv 0 [src] [] [].
  Proof.
    unfold Inv. split; [reflexivity|]. split; [constructor|]. split; [intros v q []|].
    split; [intros _; split; reflexivity|]. split; [intro; lia|]. split; [intros w k []|].
    split; [intros v k w []|]. split; [intros v k w []|]. split; [intro; lia|]. split; [intros v []|].
    intros w [H|[]]. subst. exact Hsrc.
  Qed.

  (* leaving the loop because next_level is empty *)
  Lemma Inv_exit_empty : forall L seen results, Inv L [] seen results -> results_ok results.
  Proof.
    intros L seen results (Ia & Ib & Ic & Id & Ie & If_ & Ig & Ih & Ii & Ij & Ik).
    destruct L as [|L]; [destruct (Id eq_refl) as [_ X]; discriminate|].
    unfold results_ok. split; [apply Ie; lia|]. split; [rewrite <- Ia; exact Ib|]. split; [|split].
    - intros v q H. split.
      + apply Ij. rewrite Ia. apply in_map_iff. exists (v, q). auto.
      + destruct (Ic _ _ H) as [k [Hk _]]. exists k. exact Hk.
    - exact If_.
    - intros v k w H He. destruct (Ic _ _ H) as [k0 [Hk0 Hlt]]. apply lv_inj in Hk0. subst k0.
      destruct (Nat.eq_dec (S k) (S L)) as [Eq|Ne].
      + exfalso. apply (Ih v k w H Eq He).
      + apply (Ig v k w H); [lia | exact He].
  Qed.

  (* one round: the facts about the extended result list *)
  Section Round.
    Variables (L : nat) (next seen : list nat) (results : list (nat * Q)) (new : list nat).
    Hypothesis HI : Inv L next seen results.
    Hypothesis Hnd : NoDup new.
    Hypothesis Hnew : forall v, In v new <-> In v next /\ ~ In v seen.
    Let results' := results ++ map (fun v => (v, lv L)) new.
    Let seen' := seen ++ new.

    Lemma r_in : forall v q, In (v, q) results' <-> In (v, q) results \/ (In v new /\ q = lv L).
    Proof.
      intros v q. unfold results'. rewrite in_app_iff, in_map_iff. split.
      - intros [H|[x [Ex Hx]]]; [left; exact H|]. inversion Ex; subst. right. auto.
      - intros [H|[H1 H2]]; [left; exact H|]. right. exists v. subst. auto.
    Qed.

    Lemma r_fst : map fst results' = seen'.
    Proof.
      destruct HI as (Ia & _). unfold results', seen'. rewrite map_app, map_map. cbn. rewrite map_id.
      rewrite <- Ia. reflexivity.
    Qed.

    Lemma r_nodup : NoDup seen'.
    Proof.
      destruct HI as (_ & Ib & _). unfold seen'. apply NoDup_app_intro; auto.
      intros x Hx Hn. apply Hnew in Hn. destruct Hn as [_ Hn]. contradiction.
    Qed.

    Lemma r_old_level : forall v k, In (v, lv k) results -> (k < L)%nat.
    Proof.
      intros v k H. destruct HI as (_ & _ & Ic & _). destruct (Ic _ _ H) as [k0 [E0 Hlt]].
      apply lv_inj in E0. subst. exact Hlt.
    Qed.

    Lemma r_levels : forall v q, In (v, q) results' -> exists k, q = lv k /\ (k < S L)%nat.
    Proof.
      intros v q H. apply r_in in H. destruct H as [H|[_ H]].
      - destruct HI as (_ & _ & Ic & _). destruct (Ic _ _ H) as [k [E0 Hlt]]. exists k. split; [exact E0 | lia].
      - exists L. split; [exact H | lia].
    Qed.

    Lemma r_src : In (src, lv 0) results'.
    Proof.
      destruct HI as (Ia & _ & _ & Id & Ie & _). apply r_in.
      destruct (Nat.eq_dec L 0) as [E0|E0].
      - right. destruct (Id E0) as [Hr Hn]. split; [|rewrite E0; reflexivity]. apply Hnew. split.
        + rewrite Hn. left. reflexivity.
        + rewrite Ia, Hr. intros [].
      - left. apply Ie. lia.
    Qed.

    Lemma r_tight : forall w k, In (w, lv k) results' -> w <> src ->
      (1 <= k)%nat /\ exists v, In (v, lv (k - 1)) results' /\ E g v w.
    Proof.
      intros w k H Hne. destruct HI as (_ & _ & _ & Id & _ & If_ & _ & _ & Ii & _).
      apply r_in in H. destruct H as [H|[H1 H2]].
      - destruct (If_ w k H Hne) as [Hk [v [Hv He]]]. split; [exact Hk|]. exists v. split; [|exact He].
        apply r_in. left. exact Hv.
      - apply lv_inj in H2. subst k. apply Hnew in H1. destruct H1 as [H1 _].
        destruct (Nat.eq_dec L 0) as [E0|E0].
        + destruct (Id E0) as [_ Hn]. rewrite Hn in H1. destruct H1 as [H1|[]]. congruence.
        + split; [lia|]. destruct (Ii ltac:(lia) w H1) as [v [Hv He]]. exists v. split; [|exact He].
          apply r_in. left. exact Hv.
    Qed.

    (* successors of an old node are at most one level further *)
    Lemma r_relaxed_old : forall v k w, In (v, lv k) results -> E g v w ->
      exists k', In (w, lv k') results' /\ (k' <= S k)%nat.
    Proof.
      intros v k w H He. pose proof (r_old_level v k H) as Hlt.
      destruct HI as (Ia & _ & Ic & _ & _ & _ & Ig & Ih & _).
      destruct (Nat.eq_dec (S k) L) as [Eq|Ne].
      - pose proof (Ih v k w H Eq He) as Hn.
        destruct (in_dec Nat.eq_dec w seen) as [Hs|Hs].
        + rewrite Ia in Hs. apply in_map_fst_ex in Hs. destruct Hs as [q Hq].
          destruct (Ic _ _ Hq) as [k' [E0 Hk']]. subst q. exists k'. split; [apply r_in; left; exact Hq | lia].
        + exists L. split; [|lia]. apply r_in. right. split; [|reflexivity]. apply Hnew. split; assumption.
      - destruct (Ig v k w H ltac:(lia) He) as [k' [Hk' Hle]]. exists k'. split; [apply r_in; left; exact Hk' | exact Hle].
    Qed.

    Lemma r_range : forall v, In v seen' -> (v < n)%nat.
    Proof.
      intros v H. destruct HI as (_ & _ & _ & _ & _ & _ & _ & _ & _ & Ij & Ik).
      unfold seen' in H. apply in_app_or in H. destruct H as [H|H]; [apply Ij; exact H|].
      apply Hnew in H. destruct H as [H _]. apply Ik. exact H.
    Qed.

    (* leaving the loop because every node has been seen *)
    Lemma r_exit_full : length seen' = n -> results_ok results'.
    Proof.
      intros Hfull. unfold results_ok. split; [exact r_src|]. split; [rewrite r_fst; exact r_nodup|].
      split; [|split].
      - intros v q H. split.
        + apply r_range. rewrite <- r_fst. apply in_map_iff. exists (v, q). auto.
        + destruct (r_levels _ _ H) as [k [Hk _]]. exists k. exact Hk.
      - exact r_tight.
      - intros v k w H He. apply r_in in H. destruct H as [H|[H1 H2]]; [apply (r_relaxed_old v k w H He)|].
        apply lv_inj in H2. subst k.
        (* every node is in seen' *)
        assert (Hall : incl (seq 0 n) seen').
        { apply NoDup_length_incl; [exact r_nodup | rewrite seq_length; lia |].
          intros x Hx. apply in_seq. pose proof (r_range x Hx). lia. }
        assert (Hw : In w seen'). { apply Hall. apply in_seq. pose proof (E_range v w He). lia. }
        rewrite <- r_fst in Hw. apply in_map_fst_ex in Hw. destruct Hw as [q Hq].
        destruct (r_levels _ _ Hq) as [k' [E0 Hk']]. subst q. exists k'. split; [exact Hq | lia].
    Qed.

    (* going round again *)
    Lemma r_next : Inv (S L) (expand g new) seen' results'.
    Proof.
      unfold Inv. split; [symmetry; exact r_fst|]. split; [exact r_nodup|]. split; [exact r_levels|].
      split; [intro X; discriminate|]. split; [intros _; exact r_src|]. split; [exact r_tight|].
      split; [|split; [|split; [|split]]].
      - intros v k w H Hlt He. apply r_in in H. destruct H as [H|[_ H2]].
        + apply (r_relaxed_old v k w H He).
        + apply lv_inj in H2. lia.
      - intros v k w H Eq He. apply r_in in H. destruct H as [H|[H1 H2]].
        + pose proof (r_old_level v k H). lia.
        + apply expand_In. exists v. split; assumption.
      - intros _ w H. apply expand_In in H. destruct H as [v [Hv He]]. exists v. split; [|exact He].
        replace (S L - 1)%nat with L by lia. apply r_in. right. split; [exact Hv | reflexivity].
      - exact r_range.
      - intros w H. apply expand_In in H. destruct H as [v [_ He]]. apply (E_range v w He).
    Qed.
  End Round.

  Theorem ulevels_ok : forall fuel L next seen results sp,
    Inv L next seen results ->
    ulevels fuel g n (lv L) next seen results = Some sp -> results_ok sp.
  Proof.
    induction fuel as [|f IH]; intros L next seen results sp HI H.
    - destruct next as [|x t]; cbn in H; [|discriminate]. inversion H. subst. eapply Inv_exit_empty. exact HI.
    - destruct next as [|x t].
      + cbn in H. inversion H. subst. eapply Inv_exit_empty. exact HI.
      + cbn [ulevels] in H.
        destruct (visit_level_spec (lv L) (x :: t) seen [] results) as [new [Hv [Hnd Hnew]]].
        rewrite Hv in H. cbn [app] in H.
        destruct (Nat.eqb (length (seen ++ new)) n) eqn:Efull.
        * inversion H. subst sp. apply Nat.eqb_eq in Efull.
          eapply r_exit_full; eauto.
        * rewrite lv_succ in H. eapply IH; [|exact H]. eapply r_next; eauto.
  Qed.

  Theorem sssp_unweighted_ok : forall sp, sssp_unweighted g src = Some sp -> results_ok sp.
  Proof. intros sp H. unfold sssp_unweighted in H. eapply (ulevels_ok _ 0); [apply Inv_init | exact H]. Qed.
End Bfs.

(* ------------------------------------------------------------------ from the result list to distances *)
Definition unit_z (g : qadj) : zadj := map (map (fun a => (fst a, 1%Z))) g.

Lemma unit_z_length : forall g, length (unit_z g) = length g.
Proof. intros. unfold unit_z. apply map_length. Qed.

Lemma zrow_unit : forall g v, zrow (unit_z g) v = map (fun a => (fst a, 1%Z)) (get [] g v).
Proof.
  intros g v. unfold zrow, unit_z, get.
  change (@nil (nat * Z)) with (map (fun a : nat * Q => (fst a, 1%Z)) []). apply map_nth.
Qed.

Lemma in_zrow_unit : forall g v w c, In (w, c) (zrow (unit_z g) v) <-> c = 1%Z /\ E g v w.
Proof.
  intros g v w c. rewrite zrow_unit. unfold E. repeat rewrite in_map_iff. split.
  - intros [a [Ea Ha]]. inversion Ea; subst. split; [reflexivity|]. exists a. auto.
  - intros [Ec [a [Ea Ha]]]. subst. exists a. auto.
Qed.

Lemma dvec_of_ok : forall n sp,
  NoDup (map fst sp) ->
  (forall v q, In (v, q) sp -> (v < n)%nat /\ exists z, q = inject_Z z) ->
  exists d, dvec_of n sp = Some d /\
            forall v z, oget d v = Some z <-> In (v, inject_Z z) sp.
Proof.
  induction sp as [|[v x] t IH]; intros Hnd Hall.
  - exists (repeat None n). split; [reflexivity|]. intros v z. split; [|intros []].
    unfold oget. intro H. exfalso.
    destruct (nth_in_or_default v (repeat (@None Z) n) None) as [Hi|Hi].
    + apply repeat_spec in Hi. congruence.
    + congruence.
  - cbn in Hnd. inversion Hnd as [|? ? Hnotin Hnd']; subst.
    destruct (IH Hnd') as [d0 [Hd0 Hiff]]. { intros v0 q0 H0. apply Hall. right. exact H0. }
    destruct (Hall v x (or_introl eq_refl)) as [Hv [z Hz]]. subst x.
    destruct (dvec_of_props n t d0 Hd0) as [Hlen _].
    assert (Hnone : oget d0 v = None).
    { destruct (oget d0 v) as [z'|] eqn:Eo; [|reflexivity]. exfalso. apply Hiff in Eo. apply Hnotin.
      apply in_map_iff. exists (v, inject_Z z'). auto. }
    exists (upd v (Some z) d0). split.
    + cbn [dvec_of]. rewrite Hd0. rewrite Hnone.
      replace (Nat.ltb v n) with true by (symmetry; apply Nat.ltb_lt; exact Hv). reflexivity.
    + intros v' z'. unfold oget. destruct (Nat.eq_dec v v') as [Ev|Ev].
      * subst v'. rewrite nth_upd_eq by lia. split.
        -- intro H. inversion H. subst. left. reflexivity.
        -- intros [H|H].
           ++ inversion H. reflexivity.
           ++ exfalso. apply Hnotin. apply in_map_iff. exists (v, inject_Z z'). auto.
      * rewrite nth_upd_neq by exact Ev. fold (oget d0 v'). rewrite Hiff. split.
        -- intro H. right. exact H.
        -- intros [H|H]; [inversion H; congruence | exact H].
Qed.

Section BfsDist.
  Variable g : qadj.
  Variable src : nat.
  Hypothesis Hok : adj_ok (length g) g = true.
  Hypothesis Hsrc : (src < length g)%nat.
  Variable sp : list (nat * Q).
  Hypothesis Hsp : sssp_unweighted g src = Some sp.

  Lemma bfs_vector : exists d,
    dvec_of (length g) sp = Some d /\
    (forall v z, oget d v = Some z <-> In (v, inject_Z z) sp) /\
    oget d src = Some 0%Z /\
    (forall w, dist_spec (unit_z g) src w (oget d w)) /\
    (forall w x, oget d w = Some x -> w <> src -> (0 < x)%Z).
  Proof.
    destruct (sssp_unweighted_ok g src Hok Hsrc sp Hsp) as (R1 & R2 & R3 & R4 & R5).
    destruct (dvec_of_ok (length g) sp R2) as [d [Hd Hiff]].
    { intros v q H. destruct (R3 v q H) as [Hv [k Hk]]. split; [exact Hv|]. exists (Z.of_nat k). exact Hk. }
    assert (Hlv : forall v z, oget d v = Some z -> exists k, z = Z.of_nat k /\ In (v, lv k) sp).
    { intros v z H. apply Hiff in H. destruct (R3 _ _ H) as [_ [k Hk]]. exists k.
      apply inject_Z_inj in Hk. subst z. split; [reflexivity | exact H]. }
    assert (Fsrc : oget d src = Some 0%Z) by (apply Hiff; exact R1).
    assert (Frel : forall v w c dv, In (w, c) (zrow (unit_z g) v) -> oget d v = Some dv ->
              (0 < c)%Z /\ exists dw, oget d w = Some dw /\ (dw <= dv + c)%Z).
    { intros v w c dv Hin Hv. apply in_zrow_unit in Hin. destruct Hin as [Ec He]. subst c. split; [lia|].
      destruct (Hlv v dv Hv) as [k [Ek Hk]]. subst dv.
      destruct (R5 v k w Hk He) as [k' [Hk' Hle]]. exists (Z.of_nat k'). split; [apply Hiff; exact Hk' | lia]. }
    assert (Ftight : forall w dw, oget d w = Some dw ->
              (0 <= dw)%Z /\ (w = src \/ exists v dv c, oget d v = Some dv /\ In (w, c) (zrow (unit_z g) v) /\ (dv + c = dw)%Z)).
    { intros w dw Hw. destruct (Hlv w dw Hw) as [k [Ek Hk]]. subst dw. split; [lia|].
      destruct (Nat.eq_dec w src) as [Ew|Ew]; [left; exact Ew|]. right.
      destruct (R4 w k Hk Ew) as [Hk1 [v [Hv He]]].
      exists v, (Z.of_nat (k - 1)), 1%Z. split; [apply Hiff; exact Hv|]. split; [apply in_zrow_unit; auto | lia]. }
    exists d. split; [exact Hd|]. split; [exact Hiff|]. split; [exact Fsrc|]. split.
    - exact (df_sound (unit_z g) src d Fsrc Frel Ftight).
    - exact (df_positive (unit_z g) src d Frel Ftight).
  Qed.

  (* the list returned by the BFS holds exactly the nodes reachable from src, each with its hop distance *)
  Theorem bfs_distances : forall w z, In (w, inject_Z z) sp <-> is_dist (unit_z g) src w z.
  Proof.
    destruct bfs_vector as [d [_ [Hiff [_ [Hdist _]]]]]. intros w z. rewrite <- Hiff. split.
    - intro H. pose proof (Hdist w) as X. rewrite H in X. exact X.
    - intros [Hw Hmin]. pose proof (Hdist w) as X. destruct (oget d w) as [z'|].
      + destruct X as [Hw' Hmin']. f_equal. pose proof (Hmin _ Hw'). pose proof (Hmin' _ Hw). lia.
      + exfalso. apply X. exists z. exact Hw.
  Qed.

  Theorem bfs_entries_wellformed : NoDup (map fst sp) /\ forall v q, In (v, q) sp -> exists z, q = inject_Z z.
  Proof.
    destruct (sssp_unweighted_ok g src Hok Hsrc sp Hsp) as (_ & R2 & R3 & _). split; [exact R2|].
    intros v q H. destruct (R3 v q H) as [_ [k Hk]]. exists (Z.of_nat k). exact Hk.
  Qed.

  (* hop-count closeness of src, for every graph: no per-case check involved *)
  Theorem bfs_closeness : forall (a0 : zadj) wf,
    transposed a0 (unit_z g) -> length a0 = length g ->
    exists cc, get_node_centrality sp (length g) wf = Ok cc /\ is_closeness a0 src wf cc.
  Proof.
    intros a0 wf Ht Hlen. destruct bfs_vector as [d [Hd [_ [Fsrc [Hdist Hpos]]]]].
    destruct (formula_stage sp (length g) wf d src Hd Fsrc Hpos) as [cc [Hcc Hval]].
    exists cc. split; [exact Hcc|]. exists d.
    destruct (dvec_of_props _ _ _ Hd) as [Hl _].
    split; [rewrite Hlen; exact Hl|]. split.
    - intros v _. apply dist_spec_transposed with (b := unit_z g); auto.
    - rewrite Hlen. exact Hval.
  Qed.
End BfsDist.

(* ------------------------------------------------------------------ the fuel the model passes is never exhausted *)
Section BfsFuel.
  Variable g : qadj.
  Variable src : nat.
  Hypothesis Hok : adj_ok (length g) g = true.
  Hypothesis Hsrc : (src < length g)%nat.

  Lemma Inv_seen_bound : forall L next seen results, Inv g src L next seen results -> (length seen <= length g)%nat.
  Proof.
    intros L next seen results (_ & Ib & _ & _ & _ & _ & _ & _ & _ & Ij & _).
    rewrite <- (seq_length (length g) 0). apply NoDup_incl_length; [exact Ib|].
    intros x Hx. apply in_seq. pose proof (Ij x Hx). lia.
  Qed.

  Lemma ulevels_fuel : forall fuel L next seen results,
    Inv g src L next seen results ->
    (2 + length g - length seen <= fuel)%nat ->
    exists sp, ulevels fuel g (length g) (lv L) next seen results = Some sp.
  Proof.
    induction fuel as [|f IH]; intros L next seen results HI Hf.
    - pose proof (Inv_seen_bound _ _ _ _ HI). lia.
    - destruct next as [|x t]; [eexists; reflexivity|].
      cbn [ulevels].
      destruct (visit_level_spec (lv L) (x :: t) seen [] results) as [new [Hv [Hnd Hnew]]].
      rewrite Hv. cbn [app].
      destruct (Nat.eqb (length (seen ++ new)) (length g)); [eexists; reflexivity|].
      rewrite lv_succ.
      assert (HI' : Inv g src (S L) (expand g new) (seen ++ new) (results ++ map (fun v => (v, lv L)) new))
        by (eapply r_next; eauto).
      destruct new as [|y new'].
      + cbn [expand fold_left]. destruct f; eexists; reflexivity.
      + apply IH; [exact HI'|]. rewrite app_length. cbn [length]. lia.
  Qed.

  Theorem sssp_unweighted_total : exists sp, sssp_unweighted g src = Some sp.
  Proof.
    unfold sssp_unweighted. apply (ulevels_fuel _ 0); [apply Inv_init; exact Hsrc | cbn; lia].
  Qed.
End BfsFuel.

(* ------------------------------------------------------------------ the model's per-node value, hop-count mode *)
Section ModelHop.
  Context {T A : Type}.

  Theorem hop_model_value : forall lw wf (tg : gstate T A) (a : qadj) (a0 : zadj) src nm cc,
    adj_ok (length a) a = true -> (src < length a)%nat ->
    closeness_one lw false wf tg a (length a) src = Ok (nm, cc) ->
    transposed a0 (unit_z a) -> length a0 = length a ->
    is_closeness a0 src wf cc.
  Proof.
    intros lw wf tg a a0 src nm cc Hok Hsrc H Ht Hlen.
    destruct (closeness_one_inv _ _ _ _ _ _ _ _ _ H) as [sp [Hsp Hcc]]. cbn in Hsp.
    destruct (bfs_closeness a src Hok Hsrc sp Hsp a0 wf Ht Hlen) as [cc' [Hcc' Hcl]].
    rewrite Hcc in Hcc'. inversion Hcc'. subst. exact Hcl.
  Qed.

  Theorem hop_model_no_fuel_exhaustion : forall lw wf (tg : gstate T A) (a : qadj) src,
    adj_ok (length a) a = true -> (src < length a)%nat ->
    closeness_one lw false wf tg a (length a) src <> OutOfFuel.
  Proof.
    intros lw wf tg a src Hok Hsrc. unfold closeness_one. cbn [sssp].
    destruct (sssp_unweighted_total a src Hok Hsrc) as [sp Hsp]. rewrite Hsp.
    destruct (get_node_centrality sp (length a) wf) as [cc| | |] eqn:Eg; cbn.
    - destruct (Query.get_node_by_index tg src); discriminate.
    - discriminate.
    - discriminate.
    - exfalso. unfold get_node_centrality in Eg.
      destruct (qlt 0 (Qred (qsum (map snd sp))) && Nat.ltb 1 (length a)); [|discriminate].
      destruct (length sp); [discriminate|]. destruct wf; discriminate.
  Qed.
End ModelHop.
