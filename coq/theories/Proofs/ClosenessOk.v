(* C06: soundness of the distance checker (unbounded: any adjacency, any
   vector), transposition of walks, and the formula stage of
   closeness.rs's get_node_centrality. *)
From Coq Require Import List Bool ZArith Arith QArith Lia Lqa.
From GV Require Import Base.Outcome Base.AMap Model.GState Model.Cent Model.Brandes Model.Closeness.
From GV Require Import Spec.ClosenessDef Proofs.CentBase.
Import ListNotations.
Open Scope list_scope.

Lemma zrow_out : forall (a : zadj) v, (length a <= v)%nat -> zrow a v = [].
Proof. intros. unfold zrow. apply nth_overflow. exact H. Qed.

Lemma oget_out : forall d v, (length d <= v)%nat -> oget d v = None.
Proof. intros. unfold oget. apply nth_overflow. exact H. Qed.

(* ------------------------------------------------------------------ the three facts that pin down distances *)
Section DistFacts.
  Variable a : zadj.
  Variable s : nat.
  Variable d : list (option Z).
  Hypothesis Fsrc : oget d s = Some 0%Z.
  Hypothesis Frelaxed : forall v w c dv,
    In (w, c) (zrow a v) -> oget d v = Some dv ->
    (0 < c)%Z /\ exists dw, oget d w = Some dw /\ (dw <= dv + c)%Z.
  Hypothesis Ftight : forall w dw, oget d w = Some dw ->
    (0 <= dw)%Z /\ (w = s \/ exists v dv c, oget d v = Some dv /\ In (w, c) (zrow a v) /\ (dv + c = dw)%Z).

  (* every walk from s ends in a reached node whose value is at most the walk's weight *)
  Lemma df_lower : forall w y, walk a s w y -> exists dw, oget d w = Some dw /\ (dw <= y)%Z.
  Proof.
    intros w y H. induction H as [|v w c x Hwalk IH Hin].
    - exists 0%Z. split; [apply Fsrc | lia].
    - destruct IH as [dv [Hv Hle]].
      destruct (Frelaxed v w c dv Hin Hv) as [_ [dw [Hw Hle2]]].
      exists dw. split; auto. lia.
  Qed.

  (* every reached node has a walk of exactly its value *)
  Lemma df_achieved : forall k w dw, oget d w = Some dw -> (Z.to_nat dw < k)%nat -> walk a s w dw.
  Proof.
    induction k as [|k IH]; intros w dw Hw Hk; [lia|].
    destruct (Ftight w dw Hw) as [Hp [Heq | [v [dv [c [Hv [Hin Hsum]]]]]]].
    - subst w. rewrite Fsrc in Hw. inversion Hw. subst. apply walk_nil.
    - destruct (Frelaxed v w c dv Hin Hv) as [Hc _].
      destruct (Ftight v dv Hv) as [Hpv _].
      subst dw. apply walk_snoc with (v := v); auto. apply IH; auto. lia.
  Qed.

  Theorem df_sound : forall w, dist_spec a s w (oget d w).
  Proof.
    intros w. destruct (oget d w) as [dw|] eqn:Hw; cbn.
    - split.
      + apply (df_achieved (S (Z.to_nat dw))); auto.
      + intros y Hy. destruct (df_lower w y Hy) as [dw' [Hw' Hle]]. rewrite Hw in Hw'. inversion Hw'. subst. exact Hle.
    - intros [x Hx]. destruct (df_lower w x Hx) as [dw' [Hw' _]]. rewrite Hw in Hw'. discriminate.
  Qed.

  Lemma df_positive : forall w x, oget d w = Some x -> w <> s -> (0 < x)%Z.
  Proof.
    intros w x Hw Hne. destruct (Ftight w x Hw) as [_ [E | [v [dv [c [Hv [Hin Hsum]]]]]]]; [contradiction|].
    destruct (Frelaxed v w c dv Hin Hv) as [Hc _]. destruct (Ftight v dv Hv) as [Hpv _]. lia.
  Qed.
End DistFacts.

(* ------------------------------------------------------------------ check_dist is sound *)
Section CheckDist.
  Variable a : zadj.
  Variable s : nat.
  Variable d : list (option Z).
  Hypothesis Hck : check_dist a s d = true.

  Lemma ck_len : length d = length a.
  Proof.
    unfold check_dist in Hck. repeat rewrite andb_true_iff in Hck.
    destruct Hck as [[[[H _] _] _] _]. apply Nat.eqb_eq. exact H.
  Qed.

  Lemma ck_src : oget d s = Some 0%Z.
  Proof.
    unfold check_dist in Hck. repeat rewrite andb_true_iff in Hck.
    destruct Hck as [[[[_ _] H] _] _].
    destruct (oget d s) as [z|]; try discriminate. apply Z.eqb_eq in H. subst. reflexivity.
  Qed.

  Lemma ck_relaxed : forall v w c dv,
    In (w, c) (zrow a v) -> oget d v = Some dv ->
    (0 < c)%Z /\ exists dw, oget d w = Some dw /\ (dw <= dv + c)%Z.
  Proof.
    intros v w c dv Hin Hv.
    unfold check_dist in Hck. repeat rewrite andb_true_iff in Hck.
    destruct Hck as [[[[_ _] _] H] _].
    rewrite forallb_forall in H.
    assert (Hvn : (v < length a)%nat).
    { destruct (Nat.lt_ge_cases v (length a)) as [L|G]; auto. rewrite zrow_out in Hin by exact G. destruct Hin. }
    specialize (H v). rewrite in_seq in H. specialize (H ltac:(lia)).
    rewrite forallb_forall in H. specialize (H _ Hin). cbn [fst snd] in H.
    apply andb_true_iff in H. destruct H as [_ H]. unfold edge_relaxed in H. cbn [fst snd] in H.
    apply andb_true_iff in H. destruct H as [Hc H]. apply Z.ltb_lt in Hc. split; [exact Hc|].
    rewrite Hv in H. destruct (oget d w) as [dw|]; try discriminate.
    exists dw. split; auto. apply Z.leb_le. exact H.
  Qed.

  Lemma ck_tight : forall w dw, oget d w = Some dw ->
    (0 <= dw)%Z /\ (w = s \/ exists v dv c, oget d v = Some dv /\ In (w, c) (zrow a v) /\ (dv + c = dw)%Z).
  Proof.
    intros w dw Hw.
    assert (Hwn : (w < length a)%nat).
    { destruct (Nat.lt_ge_cases w (length a)) as [L|G]; auto.
      rewrite oget_out in Hw; [discriminate|]. rewrite ck_len. exact G. }
    unfold check_dist in Hck. repeat rewrite andb_true_iff in Hck.
    destruct Hck as [_ H]. rewrite forallb_forall in H.
    specialize (H w). rewrite in_seq in H. specialize (H ltac:(lia)).
    rewrite Hw in H. apply andb_true_iff in H. destruct H as [Hp H]. apply Z.leb_le in Hp.
    split; [exact Hp|]. apply orb_true_iff in H. destruct H as [H|H].
    - left. apply Nat.eqb_eq. exact H.
    - right. unfold has_tight in H. apply existsb_exists in H. destruct H as [v [_ H]].
      destruct (oget d v) as [dv|] eqn:Hv; try discriminate.
      apply existsb_exists in H. destruct H as [[w' c] [Hin H]]. cbn [fst snd] in H.
      apply andb_true_iff in H. destruct H as [H1 H2]. apply Nat.eqb_eq in H1. apply Z.eqb_eq in H2. subst w'.
      exists v, dv, c. auto.
  Qed.

  Lemma ck_lower : forall w y, walk a s w y -> exists dw, oget d w = Some dw /\ (dw <= y)%Z.
  Proof. exact (df_lower a s d ck_src ck_relaxed). Qed.

  Theorem check_dist_sound_at : forall w, dist_spec a s w (oget d w).
  Proof. exact (df_sound a s d ck_src ck_relaxed ck_tight). Qed.

  Lemma ck_positive : forall w x, oget d w = Some x -> w <> s -> (0 < x)%Z.
  Proof. exact (df_positive a s d ck_relaxed ck_tight). Qed.
End CheckDist.

Theorem check_dist_sound : forall a s d,
  check_dist a s d = true -> forall w, dist_spec a s w (oget d w).
Proof. intros. apply check_dist_sound_at. assumption. Qed.

(* ------------------------------------------------------------------ transposition *)
Lemma walk_cons : forall a s w t c x, In (w, c) (zrow a s) -> walk a w t x -> walk a s t (c + x)%Z.
Proof.
  intros a s w t c x Hin H. induction H as [|v u c' y Hwalk IH Hin'].
  - replace (c + 0)%Z with (0 + c)%Z by lia. apply walk_snoc with (v := s); [apply walk_nil | exact Hin].
  - replace (c + (y + c'))%Z with ((c + y) + c')%Z by lia. apply walk_snoc with (v := v); auto.
Qed.

Definition transposed (a0 b : zadj) : Prop :=
  forall v w c, In (w, c) (zrow a0 v) <-> In (v, c) (zrow b w).

Lemma transposed_sym : forall a0 b, transposed a0 b -> transposed b a0.
Proof. intros a0 b H v w c. split; intro X; apply H; exact X. Qed.

Lemma walk_transposed : forall a0 b, transposed a0 b -> forall u v x, walk b u v x -> walk a0 v u x.
Proof.
  intros a0 b Ht u v x H. induction H as [|v w c y Hwalk IH Hin].
  - apply walk_nil.
  - replace (y + c)%Z with (c + y)%Z by lia. apply walk_cons with (w := v); auto. apply Ht. exact Hin.
Qed.

Lemma dist_spec_transposed : forall a0 b, transposed a0 b ->
  forall u v o, dist_spec b u v o -> dist_spec a0 v u o.
Proof.
  intros a0 b Ht u v o H. pose proof (transposed_sym _ _ Ht) as Ht'.
  destruct o as [x|]; cbn in *.
  - destruct H as [Hw Hmin]. split.
    + eapply walk_transposed; eauto.
    + intros y Hy. apply Hmin. eapply walk_transposed; [exact Ht'|exact Hy].
  - intros [x Hx]. apply H. exists x. eapply walk_transposed; [exact Ht'|exact Hx].
Qed.

Lemma zmem_In : forall e l, zmem e l = true -> In e l.
Proof.
  intros [v c] l H. unfold zmem in H. apply existsb_exists in H. destruct H as [[v' c'] [Hin H]].
  cbn [fst snd] in H. apply andb_true_iff in H. destruct H as [H1 H2].
  apply Nat.eqb_eq in H1. apply Z.eqb_eq in H2. subst. exact Hin.
Qed.

Theorem check_transpose_sound : forall a0 b, check_transpose a0 b = true -> transposed a0 b.
Proof.
  intros a0 b H. unfold check_transpose in H. repeat rewrite andb_true_iff in H.
  destruct H as [[Hlen H1] H2]. apply Nat.eqb_eq in Hlen.
  rewrite forallb_forall in H1, H2.
  intros v w c. split; intro Hin.
  - assert (Hv : (v < length a0)%nat).
    { destruct (Nat.lt_ge_cases v (length a0)) as [L|G]; auto. rewrite zrow_out in Hin by exact G. destruct Hin. }
    specialize (H1 v). rewrite in_seq in H1. specialize (H1 ltac:(lia)).
    rewrite forallb_forall in H1. specialize (H1 _ Hin). cbn [fst snd] in H1.
    apply andb_true_iff in H1. destruct H1 as [_ H1]. apply zmem_In. exact H1.
  - assert (Hw : (w < length a0)%nat).
    { destruct (Nat.lt_ge_cases w (length a0)) as [L|G]; auto.
      rewrite zrow_out in Hin by lia. destruct Hin. }
    specialize (H2 w). rewrite in_seq in H2. specialize (H2 ltac:(lia)).
    rewrite forallb_forall in H2. specialize (H2 _ Hin). cbn [fst snd] in H2.
    apply andb_true_iff in H2. destruct H2 as [_ H2]. apply zmem_In. exact H2.
Qed.

(* ------------------------------------------------------------------ vectors: count and sum *)
Lemma count_some_upd : forall d v z, (v < length d)%nat -> oget d v = None ->
  count_some (upd v (Some z) d) = S (count_some d).
Proof.
  unfold count_some, oget. induction d as [|o t IH]; intros [|v] z Hlt Hn; cbn in *; try lia.
  - subst o. reflexivity.
  - destruct o; cbn; rewrite IH; auto; lia.
Qed.

Lemma sum_some_upd : forall d v z, (v < length d)%nat -> oget d v = None ->
  sum_some (upd v (Some z) d) = (z + sum_some d)%Z.
Proof.
  unfold oget. induction d as [|o t IH]; intros [|v] z Hlt Hn; cbn in *; try lia.
  - subst o. reflexivity.
  - fold (sum_some (upd v (Some z) t)). fold (sum_some t).
    rewrite IH by (auto; lia). destruct o; lia.
Qed.

Lemma count_some_repeat : forall n, count_some (repeat None n) = O.
Proof. induction n; cbn; auto. Qed.
Lemma sum_some_repeat : forall n, sum_some (repeat None n) = 0%Z.
Proof. induction n; cbn; auto. Qed.

Lemma qsum_from : forall l a, fold_left Qplus l a == a + fold_left Qplus l 0.
Proof.
  induction l as [|x t IH]; intros a; cbn.
  - ring.
  - rewrite IH. rewrite (IH (0 + x)). ring.
Qed.

Lemma dvec_of_props : forall n sp d, dvec_of n sp = Some d ->
  length d = n /\ count_some d = length sp /\ qsum (map snd sp) == inject_Z (sum_some d).
Proof.
  induction sp as [|[v x] t IH]; intros d H; cbn [dvec_of] in H.
  - inversion H. subst. rewrite repeat_length, count_some_repeat, sum_some_repeat. cbn. repeat split; reflexivity.
  - destruct (dvec_of n t) as [d0|] eqn:E; try discriminate.
    destruct (IH d0 eq_refl) as [Hl [Hc Hs]].
    destruct (Nat.ltb v n && Pos.eqb (Qden x) 1 && match oget d0 v with None => true | Some _ => false end) eqn:G;
      try discriminate.
    injection H as <-.
    repeat rewrite andb_true_iff in G. destruct G as [[G1 G2] G3].
    apply Nat.ltb_lt in G1. apply Pos.eqb_eq in G2.
    destruct (oget d0 v) eqn:Ho; try discriminate.
    rewrite upd_length. split; [exact Hl|]. split.
    + rewrite count_some_upd; auto; try lia. cbn. rewrite Hc. reflexivity.
    + rewrite sum_some_upd; auto; try lia. unfold qsum in *. cbn [map snd fold_left].
      rewrite qsum_from. rewrite Hs. rewrite inject_Z_plus.
      assert (Hx : x == inject_Z (Qnum x)).
      { destruct x as [xn xd]. cbn in G2. subst xd. unfold inject_Z. reflexivity. }
      rewrite <- Hx. ring.
Qed.

(* exactly index s holds 0, every other reached value is positive *)
Lemma count_some_cons : forall o t,
  count_some (o :: t) = (match o with Some _ => 1 | None => 0 end + count_some t)%nat.
Proof. intros [x|] t; reflexivity. Qed.
Lemma sum_some_cons : forall o t,
  sum_some (o :: t) = match o with Some x => (x + sum_some t)%Z | None => sum_some t end.
Proof. intros [x|] t; reflexivity. Qed.

Lemma sum_allpos : forall d, (forall w x, oget d w = Some x -> (0 < x)%Z) ->
  (0 <= sum_some d)%Z /\ ((0 < sum_some d)%Z <-> (1 <= count_some d)%nat).
Proof.
  induction d as [|o t IH]; intros H.
  - cbn. split; [lia|]. split; lia.
  - assert (Ht : forall w x, oget t w = Some x -> (0 < x)%Z).
    { intros w x Hw. apply (H (S w) x). exact Hw. }
    destruct (IH Ht) as [I1 I2]. rewrite count_some_cons, sum_some_cons. destruct o as [x|].
    + pose proof (H O x eq_refl). split; [lia|]. split; lia.
    + split; [exact I1|]. exact I2.
Qed.

Lemma sum_one_zero : forall d s, oget d s = Some 0%Z ->
  (forall w x, oget d w = Some x -> w <> s -> (0 < x)%Z) ->
  (0 <= sum_some d)%Z /\ ((0 < sum_some d)%Z <-> (2 <= count_some d)%nat) /\ (1 <= count_some d)%nat.
Proof.
  induction d as [|o t IH]; intros s Hs H.
  - destruct s; discriminate.
  - rewrite count_some_cons, sum_some_cons. destruct s as [|s].
    + cbn in Hs. subst o.
      assert (Ht : forall w x, oget t w = Some x -> (0 < x)%Z).
      { intros w x Hw. apply (H (S w) x); [exact Hw | lia]. }
      destruct (sum_allpos t Ht) as [I1 I2]. split; [lia|]. split; [|lia].
      split; intro X.
      * assert (X0 : (0 < sum_some t)%Z) by lia. apply I2 in X0. lia.
      * assert (X0 : (1 <= count_some t)%nat) by lia. apply I2 in X0. lia.
    + assert (Ht : forall w x, oget t w = Some x -> w <> s -> (0 < x)%Z).
      { intros w x Hw Hne. apply (H (S w) x); [exact Hw | lia]. }
      destruct (IH s Hs Ht) as [I1 [I2 I3]]. destruct o as [x|].
      * pose proof (H O x eq_refl ltac:(lia)). split; [lia|]. split; [|lia]. split; lia.
      * split; [exact I1|]. split; [exact I2 | exact I3].
Qed.

(* ------------------------------------------------------------------ the formula stage *)
Lemma qlt_true : forall x y, qlt x y = true <-> x < y.
Proof. intros. unfold qlt. rewrite Qlt_alt. destruct (x ?= y); split; intro; try discriminate; auto. Qed.

Lemma qn_S : forall k, qn (S k) - 1 == qn k.
Proof.
  intros. unfold qn. rewrite Nat2Z.inj_succ. unfold Z.succ. rewrite inject_Z_plus. ring.
Qed.

Theorem formula_stage_gen : forall (sp : list (nat * Q)) n wf d s,
  count_some d = length sp -> qsum (map snd sp) == inject_Z (sum_some d) ->
  oget d s = Some 0%Z ->
  (forall w x, oget d w = Some x -> w <> s -> (0 < x)%Z) ->
  exists cc, get_node_centrality sp n wf = Ok cc /\
             cc == closeness_val n (count_some d) (inject_Z (sum_some d)) wf.
Proof.
  intros sp n wf d s Hc Hsum Hs Hpos.
  destruct (sum_one_zero d s Hs Hpos) as [Hnn [Hiff Hone]].
  unfold get_node_centrality, closeness_val.
  set (tot := Qred (qsum (map snd sp))).
  assert (Htot : tot == inject_Z (sum_some d)). { unfold tot. rewrite Qred_correct. exact Hsum. }
  destruct (qlt 0 tot) eqn:Hq.
  - apply qlt_true in Hq. rewrite Htot in Hq.
    assert (Hz : (0 < sum_some d)%Z). { rewrite (Zlt_Qlt 0 (sum_some d)). exact Hq. }
    apply Hiff in Hz.
    destruct (Nat.ltb 1 n) eqn:Hn; cbn [andb].
    + apply Nat.ltb_lt in Hn.
      destruct (length sp) as [|k] eqn:Hk; [lia|]. rewrite Hc in Hz |- *.
      replace (Nat.leb (S k) 1) with false by (symmetry; apply Nat.leb_gt; lia).
      replace (Nat.leb n 1) with false by (symmetry; apply Nat.leb_gt; lia).
      cbn [orb].
      destruct wf.
      * eexists. split; [reflexivity|]. repeat rewrite Qred_correct. rewrite Htot. rewrite qn_S. reflexivity.
      * eexists. split; [reflexivity|]. repeat rewrite Qred_correct. rewrite Htot. rewrite qn_S. field.
        intro X. rewrite X in Hq. apply Qlt_irrefl in Hq. exact Hq.
    + apply Nat.ltb_ge in Hn. exists 0. split; [reflexivity|].
      replace (Nat.leb n 1) with true by (symmetry; apply Nat.leb_le; lia).
      rewrite orb_true_r. reflexivity.
  - cbn [andb]. exists 0. split; [reflexivity|].
    assert (Hz : ~ (0 < sum_some d)%Z).
    { intro X. rewrite (Zlt_Qlt 0 (sum_some d)) in X. rewrite <- Htot in X. change (inject_Z 0) with 0 in X. apply qlt_true in X. congruence. }
    assert (Hr : (count_some d <= 1)%nat). { destruct (Nat.le_gt_cases (count_some d) 1); auto. exfalso. apply Hz. apply Hiff. lia. }
    replace (Nat.leb (count_some d) 1) with true by (symmetry; apply Nat.leb_le; lia).
    reflexivity.
Qed.

Theorem formula_stage : forall sp n wf d s,
  dvec_of n sp = Some d ->
  oget d s = Some 0%Z ->
  (forall w x, oget d w = Some x -> w <> s -> (0 < x)%Z) ->
  exists cc, get_node_centrality sp n wf = Ok cc /\
             cc == closeness_val n (count_some d) (inject_Z (sum_some d)) wf.
Proof.
  intros sp n wf d s Hd Hs Hpos.
  destruct (dvec_of_props n sp d Hd) as [Hl [Hc Hsum]].
  apply (formula_stage_gen sp n wf d s Hc Hsum Hs Hpos).
Qed.

(* ------------------------------------------------------------------ the checked closeness value *)
Theorem closeness_checked : forall (a0 za : zadj) (sp : list (nat * Q)) (d : list (option Z)) (src : nat) (wf : bool),
  dvec_of (length za) sp = Some d ->
  check_dist za src d = true ->
  check_transpose a0 za = true ->
  exists cc, get_node_centrality sp (length za) wf = Ok cc /\ is_closeness a0 src wf cc.
Proof.
  intros a0 za sp d src wf Hd Hck Htr.
  pose proof (check_transpose_sound _ _ Htr) as Ht.
  assert (Hlen : length a0 = length za).
  { unfold check_transpose in Htr. repeat rewrite andb_true_iff in Htr. destruct Htr as [[H _] _].
    apply Nat.eqb_eq. exact H. }
  destruct (formula_stage sp (length za) wf d src Hd (ck_src za src d Hck) (ck_positive za src d Hck))
    as [cc [Hcc Hval]].
  exists cc. split; [exact Hcc|].
  exists d. split; [rewrite Hlen; apply ck_len with (s := src); exact Hck|]. split.
  - intros v _. apply dist_spec_transposed with (b := za); auto. apply check_dist_sound. exact Hck.
  - rewrite Hlen. exact Hval.
Qed.

(* ------------------------------------------------------------------ the model's per-node value *)
Section ModelValue.
  Context {T A : Type}.
  Variable teqb : T -> T -> bool.
  Variable tltb : T -> T -> bool.

  Lemma closeness_one_inv : forall lw weighted wf (tg : gstate T A) a n src nm cc,
    closeness_one lw weighted wf tg a n src = Ok (nm, cc) ->
    exists sp, sssp lw weighted a src = Some sp /\ get_node_centrality sp n wf = Ok cc.
  Proof.
    intros lw weighted wf tg a n src nm cc H. unfold closeness_one in H.
    destruct (sssp lw weighted a src) as [sp|]; try discriminate.
    exists sp. split; [reflexivity|].
    destruct (get_node_centrality sp n wf) as [c| | |]; cbn in H; try discriminate.
    destruct (Query.get_node_by_index tg src); try discriminate. inversion H. reflexivity.
  Qed.

  (* the value the model reports for node [src] is the closeness of [src] in the
     graph with adjacency a0, whenever the per-case checks (kinds 62, 63) pass *)
  Theorem model_value_checked : forall lw weighted wf (tg : gstate T A) a (a0 za : zadj) src nm cc sp d,
    closeness_one lw weighted wf tg a (length za) src = Ok (nm, cc) ->
    sssp lw weighted a src = Some sp ->
    dvec_of (length za) sp = Some d ->
    check_dist za src d = true ->
    check_transpose a0 za = true ->
    is_closeness a0 src wf cc.
  Proof.
    intros lw weighted wf tg a a0 za src nm cc sp d H1 Hsp Hd Hck Htr.
    destruct (closeness_one_inv _ _ _ _ _ _ _ _ _ H1) as [sp' [Hsp' Hcc]].
    rewrite Hsp in Hsp'. inversion Hsp'. subst sp'.
    destruct (closeness_checked a0 za sp d src wf Hd Hck Htr) as [cc' [Hcc' Hcl]].
    rewrite Hcc in Hcc'. inversion Hcc'. subst. exact Hcl.
  Qed.

  Theorem closeness_entries : forall lw (g : gstate T A) weighted wf m,
    closeness_centrality teqb tltb lw g weighted wf = Ok m ->
    exists tg, (if directed (sp g) then Derived.reverse teqb tltb g = Ok tg else tg = g) /\
               length m = Query.number_of_nodes tg.
  Proof.
    intros lw g weighted wf m H. unfold closeness_centrality in H.
    destruct (directed (sp g)).
    - destruct (Derived.reverse teqb tltb g) as [tg| | |]; cbn in H; try discriminate.
      exists tg. split; [reflexivity|].
      destruct (conv_adj weighted (successors_vec tg)); try discriminate.
      destruct (negb _); try discriminate.
      apply omapM_length in H. rewrite seq_length in H. exact H.
    - cbn in H. exists g. split; [reflexivity|].
      destruct (conv_adj weighted (successors_vec g)); try discriminate.
      destruct (negb _); try discriminate.
      apply omapM_length in H. rewrite seq_length in H. exact H.
  Qed.
End ModelValue.

(* ------------------------------------------------------------------ non-vacuity *)
(* directed path 0 -> 1 -> 2 (costs 2, 3): searched adjacency = its transpose *)
Example ex_a0 : zadj := [[(1%nat, 2%Z)]; [(2%nat, 3%Z)]; []].
Example ex_za : zadj := [[]; [(0%nat, 2%Z)]; [(1%nat, 3%Z)]].
Example ex_hyps :
  dvec_of 3 [(2%nat, 0); (1%nat, 3); (0%nat, 5)] = Some [Some 5%Z; Some 3%Z; Some 0%Z] /\
  check_dist ex_za 2 [Some 5%Z; Some 3%Z; Some 0%Z] = true /\
  check_transpose ex_a0 ex_za = true.
Proof. vm_compute. repeat split. Qed.
