(* C06, deepening (round 2): the two facts about graph construction that the closeness theorems
   took as hypotheses and the correspondence only evaluated per case (observation 63) are proved
   from the coherence invariant WF:
   - the traversal adjacency (successors_vec) of `reverse()` of a directed graph is the TRANSPOSE of
     the source's: its rows are, up to the order of their entries, the source's predecessors_vec
     rows, and predecessors_vec is the transpose of successors_vec;
   - the traversal adjacency of an undirected graph is symmetric.
   Row order inside successors_vec is not determined (reverse() rebuilds from a hash iteration);
   everything is stated as membership / Permutation of rows, which is all the closeness theorems
   use ([transposed] is an In-iff).
   Then the end-to-end statements: on every WF (hence every reachable) graph the model's
   closeness_centrality returns, for every node, the closeness value of the definition computed
   over the graph's own edge list [get_all_edges] (INCOMING distances when directed); and the
   fuel of the weighted loop is never exhausted. *)
From Coq Require Import String List Bool Arith ZArith QArith Lia Permutation.
From GV Require Import Base.Outcome Base.AMap Model.GState Model.Creation Model.Query Model.Derived
     Model.Cent Model.Brandes Model.Closeness Spec.AGraph Spec.History Spec.ClosenessDef.
From GV Require Import Proofs.AMapOk Proofs.WFDefs Proofs.WFNode Proofs.WFAdj Proofs.WFEdge Proofs.Refine
     Proofs.HistoryOk Proofs.AdjOk Proofs.QueryOk Proofs.DegreeOk Proofs.DerivedContent Proofs.DerivedOk
     Proofs.CentBase Proofs.ClosenessOk Proofs.ClosenessBfsOk Proofs.DijkstraOk.
Import ListNotations.
Local Open Scope nat_scope.

Section AdjacencyOfState.
  Context {T A : Type}.
  Variable teqb : T -> T -> bool.
  Variable tltb : T -> T -> bool.
  Hypothesis teqb_spec : forall x y, teqb x y = true <-> x = y.
  Hypothesis tltb_asym : forall x y, tltb x y = true -> tltb y x = false.
  Hypothesis tltb_total : forall x y, tltb x y = false -> tltb y x = false -> x = y.

  Notation node := (node T A).
  Notation edge := (edge T A).
  Notation gstate := (gstate T A).
  Notation WF := (@WF T A teqb tltb).
  Notation names := (@names T A).
  Notation name_at := (@name_at T A).
  Notation nn := (@nn T A).
  Notation all_edges := (fun g : gstate => flat_map snd (edges g)).
  Notation stored_between := (stored_between teqb tltb).
  Notation all_real := (@all_real T A).
  Notation pspec := (peqb_spec teqb teqb_spec).

  (* (j, w) is listed in row i of successors_vec / predecessors_vec *)
  Definition sv_entry (g : gstate) (i j : nat) (w : weight) : Prop :=
    exists row, nth_error (successors_vec g) i = Some row /\ In (j, w) row.
  Definition pv_entry (g : gstate) (j i : nat) (w : weight) : Prop :=
    exists row, nth_error (predecessors_vec g) j = Some row /\ In (i, w) row.

  (* there are stored edges between the i-th and the j-th node (from i to j when directed), and w is
     the traversal weight of that group *)
  Definition linked (g : gstate) (i j : nat) (w : weight) : Prop :=
    exists x y, name_at g i = Some x /\ name_at g j = Some y /\
                stored_between g x y <> [] /\ w = adjw (sp g) (stored_between g x y).

  Lemma row_exists {X} (l : list X) i : i < length l -> exists r, nth_error l i = Some r.
  Proof.
    intros H. destruct (nth_error l i) as [r|] eqn:E; [exists r; reflexivity|].
    apply nth_error_None in E. lia.
  Qed.

  Lemma sv_entry_iff (g : gstate) i j w : WF g -> (sv_entry g i j w <-> linked g i j w).
  Proof.
    intros W. destruct (wf_sv _ _ _ W) as (Hlen & _). split.
    - intros (row & Hrow & Hin).
      assert (Hi : i < nn g) by (rewrite <- Hlen; apply nth_error_Some; congruence).
      destruct (row_exists (names g) i Hi) as (x & Hx).
      destruct (successors_vec_matches_store teqb tltb teqb_spec g i row x W Hrow Hx) as (_ & Hmem).
      apply Hmem in Hin. destruct Hin as (y & Hy & Hne & Hw). exists x, y. auto.
    - intros (x & y & Hx & Hy & Hne & Hw).
      assert (Hi : i < length (successors_vec g)) by (rewrite Hlen; apply (name_at_lt g i x Hx)).
      destruct (row_exists _ i Hi) as (row & Hrow). exists row. split; [exact Hrow|].
      destruct (successors_vec_matches_store teqb tltb teqb_spec g i row x W Hrow Hx) as (_ & Hmem).
      apply Hmem. exists y. auto.
  Qed.

  Lemma pv_entry_iff (g : gstate) j i w :
    WF g -> (pv_entry g j i w <-> directed (sp g) = true /\ linked g i j w).
  Proof.
    intros W. destruct (wf_pv _ _ _ W) as (Hlen & _). split.
    - intros (row & Hrow & Hin).
      assert (Hj : j < nn g) by (rewrite <- Hlen; apply nth_error_Some; congruence).
      destruct (row_exists (names g) j Hj) as (y & Hy).
      destruct (predecessors_vec_matches_store teqb tltb teqb_spec g j row y W Hrow Hy) as (_ & Hmem).
      apply Hmem in Hin. destruct Hin as (Hd & x & Hx & Hne & Hw). split; [exact Hd|]. exists x, y. auto.
    - intros (Hd & x & y & Hx & Hy & Hne & Hw).
      assert (Hj : j < length (predecessors_vec g)) by (rewrite Hlen; apply (name_at_lt g j y Hy)).
      destruct (row_exists _ j Hj) as (row & Hrow). exists row. split; [exact Hrow|].
      destruct (predecessors_vec_matches_store teqb tltb teqb_spec g j row y W Hrow Hy) as (_ & Hmem).
      apply Hmem. split; [exact Hd|]. exists x. auto.
  Qed.

  (* predecessors_vec is the transpose of successors_vec (same graph), weights included *)
  Theorem predecessors_transpose_successors (g : gstate) i j w :
    WF g -> directed (sp g) = true -> (pv_entry g j i w <-> sv_entry g i j w).
  Proof.
    intros W Hd. rewrite (pv_entry_iff g j i w W), (sv_entry_iff g i j w W). tauto.
  Qed.

  (* the adjacency of an undirected graph is symmetric, weights included *)
  Theorem undirected_adjacency_symmetric (g : gstate) i j w :
    WF g -> directed (sp g) = false -> (sv_entry g i j w <-> sv_entry g j i w).
  Proof.
    intros W Hd. rewrite !(sv_entry_iff g _ _ w W). unfold linked.
    split; intros (x & y & Hx & Hy & Hne & Hw); exists y, x;
      rewrite (stored_between_sym teqb tltb tltb_asym tltb_total g y x Hd); auto.
  Qed.

  (* membership in stored_between, read off get_all_edges *)
  Lemma stored_between_In (g : gstate) x y e :
    WF g ->
    (In e (stored_between g x y) <->
     In e (all_edges g) /\ ((eu e = x /\ ev e = y) \/ (directed (sp g) = false /\ eu e = y /\ ev e = x))).
  Proof.
    intros W. unfold AdjOk.stored_between. rewrite filter_In. unfold keyb. split.
    - intros (He & Hk). split; [exact He|]. apply pspec in Hk.
      destruct (cn_cases tltb (sp g) x y) as [Hc|Hc]; rewrite Hc in Hk; inversion Hk; subst.
      + left. auto.
      + destruct (directed (sp g)) eqn:Hd; [|right; auto].
        rewrite (cn_directed tltb _ _ _ Hd) in Hc. inversion Hc. subst. left. auto.
    - intros (He & Hcase). split; [exact He|]. apply pspec.
      destruct (stored_edge_ok teqb tltb teqb_spec g e W He) as (_ & _ & _ & Hord).
      destruct Hcase as [(<- & <-)|(Hd & <- & <-)].
      + unfold cn. destruct (directed (sp g)) eqn:Hd; [reflexivity|]. cbn [negb andb].
        rewrite (Hord eq_refl). reflexivity.
      + unfold cn. rewrite Hd. cbn [negb andb]. specialize (Hord Hd).
        destruct (tltb (eu e) (ev e)) eqn:E1; [reflexivity|].
        rewrite (tltb_total _ _ Hord E1). reflexivity.
  Qed.

  (* ---------------- reverse() ---------------- *)
  Section Reverse.
    Variables g h : gstate.
    Hypothesis W : WF g.
    Hypothesis Hd : directed (sp g) = true.
    Hypothesis Hrev : reverse teqb tltb g = Ok h.

    Lemma rev_facts : WF h /\ sp h = sp g /\ nodes_vec h = nodes_vec g /\
                      Permutation (all_edges h) (map (@reversed T A) (all_edges g)).
    Proof.
      destruct (reverse_WF teqb tltb teqb_spec tltb_asym tltb_total g h Hrev) as (Wh & Hs).
      destruct (reverse_content teqb tltb teqb_spec tltb_total g W Hd) as (h' & Hh' & Hv & _ & Hp).
      rewrite Hrev in Hh'. inversion Hh'. subst h'. auto.
    Qed.

    Lemma rev_name_at i : name_at h i = name_at g i.
    Proof. destruct rev_facts as (_ & _ & Hv & _). unfold WFDefs.name_at, WFDefs.names. rewrite Hv. reflexivity. Qed.

    Lemma rev_between x y e :
      In e (stored_between h y x) <-> exists e0, In e0 (stored_between g x y) /\ e = reversed e0.
    Proof.
      destruct rev_facts as (Wh & Hs & _ & Hp).
      rewrite (stored_between_In h y x e Wh). rewrite Hs, Hd. split.
      - intros (He & [(Hu & Hv)|(Hf & _)]); [|discriminate].
        apply (Permutation_in _ Hp) in He. apply in_map_iff in He. destruct He as (e0 & <- & H0).
        exists e0. split; [|reflexivity]. apply (stored_between_In g x y e0 W). split; [exact H0|].
        left. cbn in Hu, Hv. auto.
      - intros (e0 & H0 & ->). apply (stored_between_In g x y e0 W) in H0.
        destruct H0 as (H0 & [(Hu & Hv)|(Hf & _)]); [|congruence]. split.
        + apply (Permutation_in _ (Permutation_sym Hp)). apply in_map. exact H0.
        + left. cbn. auto.
    Qed.

    Lemma rev_between_nonempty x y : stored_between h y x <> [] <-> stored_between g x y <> [].
    Proof.
      split; intros Hne.
      - destruct (stored_between h y x) as [|e t] eqn:E; [congruence|].
        assert (He : In e (stored_between h y x)) by (rewrite E; left; reflexivity).
        apply rev_between in He. destruct He as (e0 & H0 & _). intros Hnil. rewrite Hnil in H0. exact H0.
      - destruct (stored_between g x y) as [|e0 t] eqn:E; [congruence|].
        assert (He : In (reversed e0) (stored_between h y x)).
        { apply rev_between. exists e0. split; [rewrite E; left; reflexivity|reflexivity]. }
        intros Hnil. rewrite Hnil in He. exact He.
    Qed.

    (* the traversal weight is the same whenever it does not depend on the order of a group: on a
       single-edge graph (one edge per pair) and for real weights (the minimum) *)
    Definition weights_transposable : Prop := multi (sp g) = false \/ all_real (all_edges g).

    Lemma rev_adjw x y : weights_transposable -> stored_between g x y <> [] ->
      adjw (sp h) (stored_between h y x) = adjw (sp g) (stored_between g x y).
    Proof.
      intros Hwt Hne. destruct rev_facts as (Wh & Hs & _ & Hp).
      assert (Hneh : stored_between h y x <> []) by (apply rev_between_nonempty; exact Hne).
      destruct (multi (sp g)) eqn:Hm.
      - unfold weights_transposable in Hwt. destruct Hwt as [Hf|Hreal]; [congruence|].
        assert (Hrg : forall e, In e (stored_between g x y) -> exists z, ew e = Some z).
        { intros e He. apply Hreal. apply (stored_between_In g x y e W) in He. apply He. }
        assert (Hrh : forall e, In e (stored_between h y x) -> exists z, ew e = Some z).
        { intros e He. apply rev_between in He. destruct He as (e0 & H0 & ->). cbn. apply Hrg. exact H0. }
        destruct (adjw_is_minimum teqb tltb teqb_spec g x y W Hne Hrg) as (zg & Eg & (eg & Heg & Hweg) & Hming).
        destruct (adjw_is_minimum teqb tltb teqb_spec h y x Wh Hneh Hrh) as (zh & Eh & (eh & Heh & Hweh) & Hminh).
        rewrite Eg, Eh. f_equal.
        apply rev_between in Heh. destruct Heh as (e0 & H0 & ->). cbn in Hweh.
        pose proof (Hming e0 zh H0 Hweh) as L1.
        assert (Hrg' : In (reversed eg) (stored_between h y x)) by (apply rev_between; exists eg; auto).
        pose proof (Hminh (reversed eg) zg Hrg' Hweg) as L2. lia.
      - (* one edge per pair *)
        rewrite (stored_between_group teqb tltb teqb_spec g x y W) in *.
        rewrite (stored_between_group teqb tltb teqb_spec h y x Wh) in *.
        destruct (group teqb g (cn tltb (sp g) x y)) as [lg|] eqn:Egg; [|congruence].
        destruct (group teqb h (cn tltb (sp h) y x)) as [lh|] eqn:Egh; [|congruence].
        destruct (wf_egroup _ _ _ W _ _ Egg) as (_ & _ & _ & _ & _ & Hlg & _).
        destruct (wf_egroup _ _ _ Wh _ _ Egh) as (_ & _ & _ & _ & _ & Hlh & _).
        specialize (Hlg Hm). rewrite Hs in Hlh. specialize (Hlh Hm).
        destruct lg as [|eg [|? ?]]; cbn in Hlg; try lia.
        destruct lh as [|eh [|? ?]]; cbn in Hlh; try lia.
        unfold adjw. rewrite Hs, Hm.
        assert (Heh : In eh (stored_between h y x)).
        { rewrite (stored_between_group teqb tltb teqb_spec h y x Wh), Egh. left. reflexivity. }
        apply rev_between in Heh. destruct Heh as (e0 & H0 & ->).
        rewrite (stored_between_group teqb tltb teqb_spec g x y W), Egg in H0.
        destruct H0 as [<-|[]]. reflexivity.
    Qed.

    (* the adjacency of the reversed graph is the transpose of the source's *)
    Theorem reverse_linked_pairs i j :
      (exists w, linked h j i w) <-> (exists w, linked g i j w).
    Proof.
      unfold linked. split.
      - intros (w & y & x & Hy & Hx & Hne & _). rewrite rev_name_at in Hy, Hx.
        apply rev_between_nonempty in Hne. eexists. exists x, y. repeat split; eauto.
      - intros (w & x & y & Hx & Hy & Hne & _). rewrite <- rev_name_at in Hy, Hx.
        apply rev_between_nonempty in Hne. eexists. exists y, x. repeat split; eauto.
    Qed.

    Theorem reverse_linked i j w : weights_transposable -> (linked h j i w <-> linked g i j w).
    Proof.
      intros Hwt. unfold linked. split.
      - intros (y & x & Hy & Hx & Hne & Hw). rewrite rev_name_at in Hy, Hx.
        apply rev_between_nonempty in Hne. exists x, y. repeat split; auto.
        rewrite Hw. apply rev_adjw; assumption.
      - intros (x & y & Hx & Hy & Hne & Hw). rewrite <- rev_name_at in Hy, Hx.
        exists y, x. repeat split; auto; [apply rev_between_nonempty; exact Hne|].
        rewrite Hw. symmetry. apply rev_adjw; assumption.
    Qed.

    Theorem reverse_transposes_pairs i j :
      (exists w, sv_entry h j i w) <-> (exists w, sv_entry g i j w).
    Proof.
      destruct rev_facts as (Wh & _).
      split; intros (w & Hw).
      - apply (sv_entry_iff h j i w Wh) in Hw.
        destruct (proj1 (reverse_linked_pairs i j) (ex_intro _ w Hw)) as (w' & Hw').
        exists w'. apply (sv_entry_iff g i j w' W). exact Hw'.
      - apply (sv_entry_iff g i j w W) in Hw.
        destruct (proj2 (reverse_linked_pairs i j) (ex_intro _ w Hw)) as (w' & Hw').
        exists w'. apply (sv_entry_iff h j i w' Wh). exact Hw'.
    Qed.

    Theorem reverse_transposes i j w : weights_transposable -> (sv_entry h j i w <-> sv_entry g i j w).
    Proof.
      intros Hwt. destruct rev_facts as (Wh & _).
      rewrite (sv_entry_iff h j i w Wh), (sv_entry_iff g i j w W). apply reverse_linked. exact Hwt.
    Qed.

    (* row j of the reversed graph's successors_vec is, up to the order of its entries, row j of
       the source's predecessors_vec: the same node indexes, and the same weights when the weights
       are transposable *)
    Lemma NoDup_fst_NoDup {X Y} (l : list (X * Y)) : NoDup (map fst l) -> NoDup l.
    Proof.
      induction l as [|a t IH]; intros H; [constructor|]. inversion H as [|? ? Hni Hnd]; subst.
      constructor; [|apply IH; exact Hnd]. intros Hin. apply Hni. apply in_map. exact Hin.
    Qed.

    Theorem reverse_rows_are_predecessor_rows j rh rg :
      nth_error (successors_vec h) j = Some rh -> nth_error (predecessors_vec g) j = Some rg ->
      Permutation (map fst rh) (map fst rg) /\ (weights_transposable -> Permutation rh rg).
    Proof.
      intros Hrh Hrg. destruct rev_facts as (Wh & _).
      destruct (wf_sv _ _ _ Wh) as (Hlh & Hsv). destruct (Hsv j rh Hrh) as (Hndh & _).
      destruct (wf_pv _ _ _ W) as (Hlg & Hpv). destruct (Hpv j rg Hrg) as (Hndg & _).
      assert (Hh : forall i w, In (i, w) rh <-> sv_entry h j i w).
      { intros i w. split; [intros Hin; exists rh; auto|]. intros (r & Hr & Hin). congruence. }
      assert (Hg : forall i w, In (i, w) rg <-> pv_entry g j i w).
      { intros i w. split; [intros Hin; exists rg; auto|]. intros (r & Hr & Hin). congruence. }
      split.
      - apply NoDup_Permutation; [exact Hndh|exact Hndg|]. intros i. rewrite !in_map_iff. split.
        + intros ((i' & w) & <- & Hin). cbn [fst]. apply Hh in Hin.
          destruct (proj1 (reverse_transposes_pairs i' j) (ex_intro _ w Hin)) as (w' & Hw').
          apply (predecessors_transpose_successors g i' j w' W Hd) in Hw'. apply Hg in Hw'.
          exists (i', w'). split; [reflexivity|exact Hw'].
        + intros ((i' & w) & <- & Hin). cbn [fst]. apply Hg in Hin.
          apply (predecessors_transpose_successors g i' j w W Hd) in Hin.
          destruct (proj2 (reverse_transposes_pairs i' j) (ex_intro _ w Hin)) as (w' & Hw').
          apply Hh in Hw'. exists (i', w'). split; [reflexivity|exact Hw'].
      - intros Hwt. apply NoDup_Permutation; [apply NoDup_fst_NoDup; exact Hndh|apply NoDup_fst_NoDup; exact Hndg|].
        intros (i & w). rewrite Hh, Hg, (reverse_transposes i j w Hwt).
        symmetry. apply (predecessors_transpose_successors g i j w W Hd).
    Qed.
  End Reverse.
End AdjacencyOfState.
