(* C06, deepening (round 2): the two facts about graph construction that the closeness theorems
   took as hypotheses and the correspondence only evaluated per case (observation 63) are proved
   from the coherence invariant WF:
   - the traversal adjacency (successors_vec) of `reverse()` of a directed graph is the TRANSPOSE of
     the source's: its rows are, up to the order of their entries, the source's predecessors_vec
     rows, and predecessors_vec is the transpose of successors_vec;
   - the traversal adjacency of an undirected graph is symmetric.
   Row order inside successors_vec is not determined (reverse() rebuilds from a hash iteration);
   everything is stated as membership / Permutation of rows, which is all the closeness theorems
   use ([transposed] is an In-iff).
   Then the end-to-end statements: on every WF (hence every reachable) graph the model's
   closeness_centrality returns, for every node, the closeness value of the definition computed
   over the graph's own edge list [get_all_edges] (INCOMING distances when directed); and the
   fuel of the weighted loop is never exhausted. *)
From Coq Require Import String List Bool Arith ZArith QArith Lia Permutation.
From GV Require Import Base.Outcome Base.AMap Model.GState Model.Creation Model.Query Model.Derived
     Model.Cent Model.Brandes Model.Closeness Spec.AGraph Spec.History Spec.ClosenessDef.
From GV Require Import Proofs.AMapOk Proofs.WFDefs Proofs.WFNode Proofs.WFAdj Proofs.WFEdge Proofs.Refine
     Proofs.HistoryOk Proofs.AdjOk Proofs.QueryOk Proofs.DegreeOk Proofs.DerivedContent Proofs.DerivedOk
     Proofs.CentBase Proofs.ClosenessOk Proofs.ClosenessBfsOk Proofs.DijkstraOk Proofs.DijkstraFuelOk.
Import ListNotations.
Local Open Scope nat_scope.

Section AdjacencyOfState.
  Context {T A : Type}.
  Variable teqb : T -> T -> bool.
  Variable tltb : T -> T -> bool.
  Hypothesis teqb_spec : forall x y, teqb x y = true <-> x = y.
  Hypothesis tltb_asym : forall x y, tltb x y = true -> tltb y x = false.
  Hypothesis tltb_total : forall x y, tltb x y = false -> tltb y x = false -> x = y.

  Notation node := (node T A).
  Notation edge := (edge T A).
  Notation gstate := (gstate T A).
  Notation WF := (@WF T A teqb tltb).
  Notation names := (@names T A).
  Notation name_at := (@name_at T A).
  Notation nn := (@nn T A).
  Notation all_edges := (fun g : gstate => flat_map snd (edges g)).
  Notation stored_between := (stored_between teqb tltb).
  Notation all_real := (@all_real T A).
  Notation pspec := (peqb_spec teqb teqb_spec).

  (* (j, w) is listed in row i of successors_vec / predecessors_vec *)
  Definition sv_entry (g : gstate) (i j : nat) (w : weight) : Prop :=
    exists row, nth_error (successors_vec g) i = Some row /\ In (j, w) row.
  Definition pv_entry (g : gstate) (j i : nat) (w : weight) : Prop :=
    exists row, nth_error (predecessors_vec g) j = Some row /\ In (i, w) row.

  (* there are stored edges between the i-th and the j-th node (from i to j when directed), and w is
     the traversal weight of that group *)
  Definition linked (g : gstate) (i j : nat) (w : weight) : Prop :=
    exists x y, name_at g i = Some x /\ name_at g j = Some y /\
                stored_between g x y <> [] /\ w = adjw (sp g) (stored_between g x y).

  Lemma row_exists {X} (l : list X) i : i < length l -> exists r, nth_error l i = Some r.
  Proof.
    intros H. destruct (nth_error l i) as [r|] eqn:E; [exists r; reflexivity|].
    apply nth_error_None in E. lia.
  Qed.

  Lemma sv_entry_iff (g : gstate) i j w : WF g -> (sv_entry g i j w <-> linked g i j w).
  Proof.
    intros W. destruct (wf_sv _ _ _ W) as (Hlen & _). split.
    - intros (row & Hrow & Hin).
      assert (Hi : i < nn g) by (rewrite <- Hlen; apply nth_error_Some; congruence).
      destruct (row_exists (names g) i Hi) as (x & Hx).
      destruct (successors_vec_matches_store teqb tltb teqb_spec g i row x W Hrow Hx) as (_ & Hmem).
      apply Hmem in Hin. destruct Hin as (y & Hy & Hne & Hw). exists x, y. auto.
    - intros (x & y & Hx & Hy & Hne & Hw).
      assert (Hi : i < length (successors_vec g)) by (rewrite Hlen; apply (name_at_lt g i x Hx)).
      destruct (row_exists _ i Hi) as (row & Hrow). exists row. split; [exact Hrow|].
      destruct (successors_vec_matches_store teqb tltb teqb_spec g i row x W Hrow Hx) as (_ & Hmem).
      apply Hmem. exists y. auto.
  Qed.

  Lemma pv_entry_iff (g : gstate) j i w :
    WF g -> (pv_entry g j i w <-> directed (sp g) = true /\ linked g i j w).
  Proof.
    intros W. destruct (wf_pv _ _ _ W) as (Hlen & _). split.
    - intros (row & Hrow & Hin).
      assert (Hj : j < nn g) by (rewrite <- Hlen; apply nth_error_Some; congruence).
      destruct (row_exists (names g) j Hj) as (y & Hy).
      destruct (predecessors_vec_matches_store teqb tltb teqb_spec g j row y W Hrow Hy) as (_ & Hmem).
      apply Hmem in Hin. destruct Hin as (Hd & x & Hx & Hne & Hw). split; [exact Hd|]. exists x, y. auto.
    - intros (Hd & x & y & Hx & Hy & Hne & Hw).
      assert (Hj : j < length (predecessors_vec g)) by (rewrite Hlen; apply (name_at_lt g j y Hy)).
      destruct (row_exists _ j Hj) as (row & Hrow). exists row. split; [exact Hrow|].
      destruct (predecessors_vec_matches_store teqb tltb teqb_spec g j row y W Hrow Hy) as (_ & Hmem).
      apply Hmem. split; [exact Hd|]. exists x. auto.
  Qed.

  (* predecessors_vec is the transpose of successors_vec (same graph), weights included *)
  Theorem predecessors_transpose_successors (g : gstate) i j w :
    WF g -> directed (sp g) = true -> (pv_entry g j i w <-> sv_entry g i j w).
  Proof.
    intros W Hd. rewrite (pv_entry_iff g j i w W), (sv_entry_iff g i j w W). tauto.
  Qed.

  (* the adjacency of an undirected graph is symmetric, weights included *)
  Theorem undirected_adjacency_symmetric (g : gstate) i j w :
    WF g -> directed (sp g) = false -> (sv_entry g i j w <-> sv_entry g j i w).
  Proof.
    intros W Hd. rewrite !(sv_entry_iff g _ _ w W). unfold linked.
    split; intros (x & y & Hx & Hy & Hne & Hw); exists y, x;
      rewrite (stored_between_sym teqb tltb tltb_asym tltb_total g y x Hd); auto.
  Qed.

  (* membership in stored_between, read off get_all_edges *)
  Lemma stored_between_In (g : gstate) x y e :
    WF g ->
    (In e (stored_between g x y) <->
     In e (all_edges g) /\ ((eu e = x /\ ev e = y) \/ (directed (sp g) = false /\ eu e = y /\ ev e = x))).
  Proof.
    intros W. unfold AdjOk.stored_between. rewrite filter_In. unfold keyb. split.
    - intros (He & Hk). split; [exact He|]. apply pspec in Hk.
      destruct (cn_cases tltb (sp g) x y) as [Hc|Hc]; rewrite Hc in Hk; inversion Hk; subst.
      + left. auto.
      + destruct (directed (sp g)) eqn:Hd; [|right; auto].
        rewrite (cn_directed tltb _ _ _ Hd) in Hc. inversion Hc. subst. left. auto.
    - intros (He & Hcase). split; [exact He|]. apply pspec.
      destruct (stored_edge_ok teqb tltb teqb_spec g e W He) as (_ & _ & _ & Hord).
      destruct Hcase as [(<- & <-)|(Hd & <- & <-)].
      + unfold cn. destruct (directed (sp g)) eqn:Hd; [reflexivity|]. cbn [negb andb].
        rewrite (Hord eq_refl). reflexivity.
      + unfold cn. rewrite Hd. cbn [negb andb]. specialize (Hord Hd).
        destruct (tltb (eu e) (ev e)) eqn:E1; [reflexivity|].
        rewrite (tltb_total _ _ Hord E1). reflexivity.
  Qed.

  (* ---------------- reverse() ---------------- *)
  Section Reverse.
    Variables g h : gstate.
    Hypothesis W : WF g.
    Hypothesis Hd : directed (sp g) = true.
    Hypothesis Hrev : reverse teqb tltb g = Ok h.

    Lemma rev_facts : WF h /\ sp h = sp g /\ nodes_vec h = nodes_vec g /\
                      Permutation (all_edges h) (map (@reversed T A) (all_edges g)).
    Proof.
      destruct (reverse_WF teqb tltb teqb_spec tltb_asym tltb_total g h Hrev) as (Wh & Hs).
      destruct (reverse_content teqb tltb teqb_spec tltb_total g W Hd) as (h' & Hh' & Hv & _ & Hp).
      rewrite Hrev in Hh'. inversion Hh'. subst h'. auto.
    Qed.

    Lemma rev_name_at i : name_at h i = name_at g i.
    Proof. destruct rev_facts as (_ & _ & Hv & _). unfold WFDefs.name_at, WFDefs.names. rewrite Hv. reflexivity. Qed.

    Lemma rev_between x y e :
      In e (stored_between h y x) <-> exists e0, In e0 (stored_between g x y) /\ e = reversed e0.
    Proof.
      destruct rev_facts as (Wh & Hs & _ & Hp).
      rewrite (stored_between_In h y x e Wh). rewrite Hs, Hd. split.
      - intros (He & [(Hu & Hv)|(Hf & _)]); [|discriminate].
        apply (Permutation_in _ Hp) in He. apply in_map_iff in He. destruct He as (e0 & <- & H0).
        exists e0. split; [|reflexivity]. apply (stored_between_In g x y e0 W). split; [exact H0|].
        left. cbn in Hu, Hv. auto.
      - intros (e0 & H0 & ->). apply (stored_between_In g x y e0 W) in H0.
        destruct H0 as (H0 & [(Hu & Hv)|(Hf & _)]); [|congruence]. split.
        + apply (Permutation_in _ (Permutation_sym Hp)). apply in_map. exact H0.
        + left. cbn. auto.
    Qed.

    Lemma rev_between_nonempty x y : stored_between h y x <> [] <-> stored_between g x y <> [].
    Proof.
      split; intros Hne.
      - destruct (stored_between h y x) as [|e t] eqn:E; [congruence|].
        assert (He : In e (stored_between h y x)) by (rewrite E; left; reflexivity).
        apply rev_between in He. destruct He as (e0 & H0 & _). intros Hnil. rewrite Hnil in H0. exact H0.
      - destruct (stored_between g x y) as [|e0 t] eqn:E; [congruence|].
        assert (He : In (reversed e0) (stored_between h y x)).
        { apply rev_between. exists e0. split; [rewrite E; left; reflexivity|reflexivity]. }
        intros Hnil. rewrite Hnil in He. exact He.
    Qed.

    (* the traversal weight is the same whenever it does not depend on the order of a group: on a
       single-edge graph (one edge per pair) and for real weights (the minimum) *)
    Definition weights_transposable : Prop := multi (sp g) = false \/ all_real (all_edges g).

    Lemma rev_adjw x y : weights_transposable -> stored_between g x y <> [] ->
      adjw (sp h) (stored_between h y x) = adjw (sp g) (stored_between g x y).
    Proof.
      intros Hwt Hne. destruct rev_facts as (Wh & Hs & _ & Hp).
      assert (Hneh : stored_between h y x <> []) by (apply rev_between_nonempty; exact Hne).
      destruct (multi (sp g)) eqn:Hm.
      - unfold weights_transposable in Hwt. destruct Hwt as [Hf|Hreal]; [congruence|].
        assert (Hrg : forall e, In e (stored_between g x y) -> exists z, ew e = Some z).
        { intros e He. apply Hreal. apply (stored_between_In g x y e W) in He. apply He. }
        assert (Hrh : forall e, In e (stored_between h y x) -> exists z, ew e = Some z).
        { intros e He. apply rev_between in He. destruct He as (e0 & H0 & ->). cbn. apply Hrg. exact H0. }
        destruct (adjw_is_minimum teqb tltb teqb_spec g x y W Hne Hrg) as (zg & Eg & (eg & Heg & Hweg) & Hming).
        destruct (adjw_is_minimum teqb tltb teqb_spec h y x Wh Hneh Hrh) as (zh & Eh & (eh & Heh & Hweh) & Hminh).
        rewrite Eg, Eh. f_equal.
        apply rev_between in Heh. destruct Heh as (e0 & H0 & ->). cbn in Hweh.
        pose proof (Hming e0 zh H0 Hweh) as L1.
        assert (Hrg' : In (reversed eg) (stored_between h y x)) by (apply rev_between; exists eg; auto).
        pose proof (Hminh (reversed eg) zg Hrg' Hweg) as L2. lia.
      - (* one edge per pair *)
        rewrite (stored_between_group teqb tltb teqb_spec g x y W) in *.
        rewrite (stored_between_group teqb tltb teqb_spec h y x Wh) in *.
        destruct (group teqb g (cn tltb (sp g) x y)) as [lg|] eqn:Egg; [|congruence].
        destruct (group teqb h (cn tltb (sp h) y x)) as [lh|] eqn:Egh; [|congruence].
        destruct (wf_egroup _ _ _ W _ _ Egg) as (_ & _ & _ & _ & _ & Hlg & _).
        destruct (wf_egroup _ _ _ Wh _ _ Egh) as (_ & _ & _ & _ & _ & Hlh & _).
        specialize (Hlg Hm). rewrite Hs in Hlh. specialize (Hlh Hm).
        destruct lg as [|eg [|? ?]]; cbn in Hlg; try lia.
        destruct lh as [|eh [|? ?]]; cbn in Hlh; try lia.
        unfold adjw. rewrite Hs, Hm.
        assert (Heh : In eh (stored_between h y x)).
        { rewrite (stored_between_group teqb tltb teqb_spec h y x Wh), Egh. left. reflexivity. }
        apply rev_between in Heh. destruct Heh as (e0 & H0 & ->).
        rewrite (stored_between_group teqb tltb teqb_spec g x y W), Egg in H0.
        destruct H0 as [<-|[]]. reflexivity.
    Qed.

    (* the adjacency of the reversed graph is the transpose of the source's *)
    Theorem reverse_linked_pairs i j :
      (exists w, linked h j i w) <-> (exists w, linked g i j w).
    Proof.
      unfold linked. split.
      - intros (w & y & x & Hy & Hx & Hne & _). rewrite rev_name_at in Hy, Hx.
        apply rev_between_nonempty in Hne. eexists. exists x, y. repeat split; eauto.
      - intros (w & x & y & Hx & Hy & Hne & _). rewrite <- rev_name_at in Hy, Hx.
        apply rev_between_nonempty in Hne. eexists. exists y, x. repeat split; eauto.
    Qed.

    Theorem reverse_linked i j w : weights_transposable -> (linked h j i w <-> linked g i j w).
    Proof.
      intros Hwt. unfold linked. split.
      - intros (y & x & Hy & Hx & Hne & Hw). rewrite rev_name_at in Hy, Hx.
        apply rev_between_nonempty in Hne. exists x, y. repeat split; auto.
        rewrite Hw. apply rev_adjw; assumption.
      - intros (x & y & Hx & Hy & Hne & Hw). rewrite <- rev_name_at in Hy, Hx.
        exists y, x. repeat split; auto; [apply rev_between_nonempty; exact Hne|].
        rewrite Hw. symmetry. apply rev_adjw; assumption.
    Qed.

    Theorem reverse_transposes_pairs i j :
      (exists w, sv_entry h j i w) <-> (exists w, sv_entry g i j w).
    Proof.
      destruct rev_facts as (Wh & _).
      split; intros (w & Hw).
      - apply (sv_entry_iff h j i w Wh) in Hw.
        destruct (proj1 (reverse_linked_pairs i j) (ex_intro _ w Hw)) as (w' & Hw').
        exists w'. apply (sv_entry_iff g i j w' W). exact Hw'.
      - apply (sv_entry_iff g i j w W) in Hw.
        destruct (proj2 (reverse_linked_pairs i j) (ex_intro _ w Hw)) as (w' & Hw').
        exists w'. apply (sv_entry_iff h j i w' Wh). exact Hw'.
    Qed.

    Theorem reverse_transposes i j w : weights_transposable -> (sv_entry h j i w <-> sv_entry g i j w).
    Proof.
      intros Hwt. destruct rev_facts as (Wh & _).
      rewrite (sv_entry_iff h j i w Wh), (sv_entry_iff g i j w W). apply reverse_linked. exact Hwt.
    Qed.

    (* row j of the reversed graph's successors_vec is, up to the order of its entries, row j of
       the source's predecessors_vec: the same node indexes, and the same weights when the weights
       are transposable *)
    Lemma NoDup_fst_NoDup {X Y} (l : list (X * Y)) : NoDup (map fst l) -> NoDup l.
    Proof.
      induction l as [|a t IH]; intros H; [constructor|]. inversion H as [|? ? Hni Hnd]; subst.
      constructor; [|apply IH; exact Hnd]. intros Hin. apply Hni. apply in_map. exact Hin.
    Qed.

    Theorem reverse_rows_are_predecessor_rows j rh rg :
      nth_error (successors_vec h) j = Some rh -> nth_error (predecessors_vec g) j = Some rg ->
      Permutation (map fst rh) (map fst rg) /\ (weights_transposable -> Permutation rh rg).
    Proof.
      intros Hrh Hrg. destruct rev_facts as (Wh & _).
      destruct (wf_sv _ _ _ Wh) as (Hlh & Hsv). destruct (Hsv j rh Hrh) as (Hndh & _).
      destruct (wf_pv _ _ _ W) as (Hlg & Hpv). destruct (Hpv j rg Hrg) as (Hndg & _).
      assert (Hh : forall i w, In (i, w) rh <-> sv_entry h j i w).
      { intros i w. split; [intros Hin; exists rh; auto|]. intros (r & Hr & Hin). congruence. }
      assert (Hg : forall i w, In (i, w) rg <-> pv_entry g j i w).
      { intros i w. split; [intros Hin; exists rg; auto|]. intros (r & Hr & Hin). congruence. }
      split.
      - apply NoDup_Permutation; [exact Hndh|exact Hndg|]. intros i. rewrite !in_map_iff. split.
        + intros ((i' & w) & <- & Hin). cbn [fst]. apply Hh in Hin.
          destruct (proj1 (reverse_transposes_pairs i' j) (ex_intro _ w Hin)) as (w' & Hw').
          apply (predecessors_transpose_successors g i' j w' W Hd) in Hw'. apply Hg in Hw'.
          exists (i', w'). split; [reflexivity|exact Hw'].
        + intros ((i' & w) & <- & Hin). cbn [fst]. apply Hg in Hin.
          apply (predecessors_transpose_successors g i' j w W Hd) in Hin.
          destruct (proj2 (reverse_transposes_pairs i' j) (ex_intro _ w Hin)) as (w' & Hw').
          apply Hh in Hw'. exists (i', w'). split; [reflexivity|exact Hw'].
      - intros Hwt. apply NoDup_Permutation; [apply NoDup_fst_NoDup; exact Hndh|apply NoDup_fst_NoDup; exact Hndg|].
        intros (i & w). rewrite Hh, Hg, (reverse_transposes i j w Hwt).
        symmetry. apply (predecessors_transpose_successors g i j w W Hd).
    Qed.
  End Reverse.
End AdjacencyOfState.

(* ---------------- an adjacency and its reduction to cheapest parallel entries ---------------- *)
Section Refines.
  (* a1 lists, for every pair listed in a0, the cheapest of a0's parallel entries (and possibly
     others of a0's entries): the searched adjacency vs the full edge multiset *)
  Definition refines (a1 a0 : zadj) : Prop :=
    length a1 = length a0 /\
    (forall v w c, In (w, c) (zrow a1 v) -> In (w, c) (zrow a0 v)) /\
    (forall v w c, In (w, c) (zrow a0 v) -> exists c', In (w, c') (zrow a1 v) /\ (c' <= c)%Z).

  Lemma walk_refines_up a1 a0 s t x : refines a1 a0 -> walk a1 s t x -> walk a0 s t x.
  Proof.
    intros (_ & Hup & _) H. induction H as [|v w c y Hwalk IH Hin]; [apply walk_nil|].
    apply walk_snoc with (v := v); [exact IH|apply Hup; exact Hin].
  Qed.

  Lemma walk_refines_down a1 a0 s t x : refines a1 a0 -> walk a0 s t x ->
    exists y, (y <= x)%Z /\ walk a1 s t y.
  Proof.
    intros (_ & _ & Hdown) H. induction H as [|v w c y Hwalk (y' & Hle & IH) Hin].
    - exists 0%Z. split; [lia|apply walk_nil].
    - destruct (Hdown v w c Hin) as (c' & Hin' & Hc). exists (y' + c')%Z. split; [lia|].
      apply walk_snoc with (v := v); assumption.
  Qed.

  Lemma dist_spec_refines a1 a0 s t o : refines a1 a0 -> dist_spec a1 s t o -> dist_spec a0 s t o.
  Proof.
    intros R H. destruct o as [x|]; cbn in *.
    - destruct H as (Hw & Hmin). split; [apply (walk_refines_up a1 a0 s t x R Hw)|].
      intros y Hy. destruct (walk_refines_down a1 a0 s t y R Hy) as (y' & Hle & Hy'). specialize (Hmin y' Hy'). lia.
    - intros (x & Hx). apply H. destruct (walk_refines_down a1 a0 s t x R Hx) as (y & _ & Hy). exists y. exact Hy.
  Qed.

  Lemma is_closeness_refines a1 a0 u wf cc : refines a1 a0 -> is_closeness a1 u wf cc -> is_closeness a0 u wf cc.
  Proof.
    intros R (dv & Hlen & Hd & Hval). pose proof R as (Hl & _). exists dv. rewrite <- Hl.
    split; [exact Hlen|]. split; [|exact Hval].
    intros v Hv. apply (dist_spec_refines a1 a0 v u _ R). apply Hd. exact Hv.
  Qed.
End Refines.

Lemma nth_map_default {X Y} (f : X -> list Y) (l : list X) i :
  nth i (map f l) [] = match nth_error l i with Some x => f x | None => [] end.
Proof.
  revert i. induction l as [|a l IH]; intros [|i]; cbn; try reflexivity. apply IH.
Qed.

(* the integer-cost view of a traversal list, total: an entry without a real weight is dropped in
   weighted mode (there is none when conv_adj succeeds) *)
Definition sv_zadj (weighted : bool) (sv : list (list adj)) : zadj :=
  map (flat_map (fun e => match zconv_entry weighted e with Some x => [x] | None => [] end)) sv.

Lemma sv_zadj_length weighted sv : length (sv_zadj weighted sv) = length sv.
Proof. unfold sv_zadj. apply map_length. Qed.

Lemma in_sv_zadj weighted sv i j c :
  In (j, c) (zrow (sv_zadj weighted sv) i) <->
  exists row w, nth_error sv i = Some row /\ In (j, w) row /\ zconv_entry weighted (j, w) = Some (j, c).
Proof.
  unfold zrow, sv_zadj. rewrite nth_map_default. destruct (nth_error sv i) as [row|].
  - rewrite in_flat_map. split.
    + intros ((j' & w) & Hin & Hc). destruct (zconv_entry weighted (j', w)) as [x|] eqn:Ez; [|destruct Hc].
      destruct Hc as [Hc|[]]. subst x.
      assert (j' = j). { unfold zconv_entry in Ez. destruct weighted; [destruct w; inversion Ez|inversion Ez]; reflexivity. }
      subst j'. exists row, w. auto.
    + intros (row' & w & Hr & Hin & Hc). inversion Hr. subst row'. exists (j, w). split; [exact Hin|].
      rewrite Hc. left. reflexivity.
  - split; [intros []|]. intros (row & w & Hr & _). discriminate.
Qed.

Lemma conv_zof : forall sv a, conv_adj true sv = Some a -> zof a = sv_zadj true sv.
Proof.
  assert (Hrow : forall r r', conv_row true r = Some r' ->
            map (fun e : nat * Q => (fst e, Qnum (snd e))) r' =
            flat_map (fun e => match zconv_entry true e with Some x => [x] | None => [] end) r).
  { induction r as [|e t IH]; intros r' H; cbn in H; [inversion H; reflexivity|].
    unfold conv_entry in H. destruct (snd e) as [z|] eqn:Ez; [|discriminate].
    destruct (conv_row true t) as [t'|] eqn:Et; [|discriminate]. inversion H. subst r'.
    cbn [map flat_map]. unfold zconv_entry at 1. rewrite Ez. cbn [app fst snd Qnum qz inject_Z].
    f_equal. apply IH. reflexivity. }
  induction sv as [|r t IH]; intros a H; cbn in H; [inversion H; reflexivity|].
  destruct (conv_row true r) as [r'|] eqn:Er; [|discriminate].
  destruct (conv_adj true t) as [t'|] eqn:Et; [|discriminate]. inversion H. subst a.
  unfold zof, sv_zadj. cbn [map]. f_equal; [apply Hrow; exact Er|]. apply IH. reflexivity.
Qed.

Lemma conv_unit : forall sv a, conv_adj false sv = Some a -> unit_z a = sv_zadj false sv.
Proof.
  assert (Hrow : forall r r', conv_row false r = Some r' ->
            map (fun e : nat * Q => (fst e, 1%Z)) r' =
            flat_map (fun e => match zconv_entry false e with Some x => [x] | None => [] end) r).
  { induction r as [|e t IH]; intros r' H; cbn in H; [inversion H; reflexivity|].
    destruct (conv_row false t) as [t'|] eqn:Et; [|discriminate]. inversion H. subst r'.
    cbn [map flat_map zconv_entry app fst]. f_equal. apply IH. reflexivity. }
  induction sv as [|r t IH]; intros a H; cbn in H; [inversion H; reflexivity|].
  destruct (conv_row false r) as [r'|] eqn:Er; [|discriminate].
  destruct (conv_adj false t) as [t'|] eqn:Et; [|discriminate]. inversion H. subst a.
  unfold unit_z, sv_zadj. cbn [map]. f_equal; [apply Hrow; exact Er|]. apply IH. reflexivity.
Qed.

Lemma conv_adj_false_total : forall sv, exists a, conv_adj false sv = Some a.
Proof.
  assert (Hrow : forall r, exists r', conv_row false r = Some r').
  { induction r as [|e t (t' & IH)]; [eexists; reflexivity|]. cbn. rewrite IH. eexists. reflexivity. }
  induction sv as [|r t (t' & IH)]; [eexists; reflexivity|]. cbn. destruct (Hrow r) as (r' & ->). rewrite IH.
  eexists. reflexivity.
Qed.

Lemma conv_adj_true_total : forall sv,
  (forall row e, In row sv -> In e row -> snd e <> None) -> exists a, conv_adj true sv = Some a.
Proof.
  assert (Hrow : forall r, (forall e, In e r -> snd e <> None) -> exists r', conv_row true r = Some r').
  { induction r as [|e t IH]; intros H; [eexists; reflexivity|]. cbn [conv_row]. unfold conv_entry.
    destruct e as [j [z|]]; [|exfalso; apply (H (j, None) (or_introl eq_refl)); reflexivity].
    cbn [snd fst]. destruct (IH (fun e' He' => H e' (or_intror He'))) as (t' & ->). eexists. reflexivity. }
  induction sv as [|r t IH]; intros H; [eexists; reflexivity|]. cbn.
  destruct (Hrow r (fun e He => H r e (or_introl eq_refl) He)) as (r' & ->).
  destruct (IH (fun row e Hr He => H row e (or_intror Hr) He)) as (t' & ->). eexists. reflexivity.
Qed.

Lemma conv_adj_length : forall weighted sv a, conv_adj weighted sv = Some a -> length a = length sv.
Proof.
  intros weighted. induction sv as [|r t IH]; intros a H; cbn in H; [inversion H; reflexivity|].
  destruct (conv_row weighted r); [|discriminate]. destruct (conv_adj weighted t) as [t'|]; [|discriminate].
  inversion H. cbn. f_equal. apply IH. reflexivity.
Qed.

Lemma conv_adj_entries : forall weighted sv a, conv_adj weighted sv = Some a ->
  forall v e, In e (get [] a v) ->
  exists row w, nth_error sv v = Some row /\ In (fst e, w) row /\ conv_entry weighted (fst e, w) = Some e.
Proof.
  intros weighted.
  assert (Hrow : forall r r', conv_row weighted r = Some r' -> forall e, In e r' ->
            exists w, In (fst e, w) r /\ conv_entry weighted (fst e, w) = Some e).
  { induction r as [|x t IH]; intros r' H e He; cbn in H; [inversion H; subst; destruct He|].
    destruct (conv_entry weighted x) as [x'|] eqn:Ex; [|discriminate].
    destruct (conv_row weighted t) as [t'|] eqn:Et; [|discriminate]. inversion H. subst r'.
    destruct He as [<-|He].
    - destruct x as [j w]. exists w.
      assert (fst x' = j). { unfold conv_entry in Ex. cbn in Ex. destruct weighted; [destruct w; inversion Ex|inversion Ex]; reflexivity. }
      subst j. split; [left; reflexivity|exact Ex].
    - destruct (IH t' eq_refl e He) as (w & Hin & Hc). exists w. split; [right; exact Hin|exact Hc]. }
  induction sv as [|r t IH]; intros a H v e He; cbn in H.
  - inversion H. subst a. unfold get in He. destruct v; destruct He.
  - destruct (conv_row weighted r) as [r'|] eqn:Er; [|discriminate].
    destruct (conv_adj weighted t) as [t'|] eqn:Et; [|discriminate]. inversion H. subst a.
    destruct v as [|v]; unfold get in He; cbn [nth] in He.
    + destruct (Hrow r r' Er e He) as (w & Hin & Hc). exists r, w. auto.
    + destruct (IH t' eq_refl v e He) as (row & w & Hr & Hin & Hc). exists row, w. auto.
Qed.

Lemma list_eq_nth {X} : forall (l l' : list X), length l = length l' ->
  (forall i x, nth_error l i = Some x -> nth_error l' i = Some x) -> l = l'.
Proof.
  induction l as [|a l IH]; intros [|b l'] Hlen H; cbn in Hlen; try lia; [reflexivity|].
  pose proof (H 0 a eq_refl) as H0. cbn in H0. inversion H0. subst b. f_equal.
  apply IH; [lia|]. intros i x Hi. apply (H (S i) x). exact Hi.
Qed.

Lemma omapM_seq_spec {Y} (f : nat -> outcome Y) (P : nat -> Y -> Prop) : forall n k,
  (forall i, k <= i < k + n -> exists y, f i = Ok y /\ P i y) ->
  exists m, omapM f (seq k n) = Ok m /\ length m = n /\
            forall i y, nth_error m i = Some y -> P (k + i) y.
Proof.
  induction n as [|n IH]; intros k H; cbn [seq omapM].
  - exists []. split; [reflexivity|]. split; [reflexivity|]. intros [|i] y Hy; discriminate.
  - destruct (H k ltac:(lia)) as (y & Hy & Py). rewrite Hy. cbn [bind].
    destruct (IH (S k)) as (m & Hm & Hl & Hp); [intros i Hi; apply H; lia|]. rewrite Hm. cbn [bind].
    exists (y :: m). split; [reflexivity|]. split; [cbn; lia|].
    intros [|i] y' Hy'; cbn in Hy'.
    + inversion Hy'. subst. rewrite Nat.add_0_r. exact Py.
    + replace (k + S i) with (S k + i) by lia. apply Hp. exact Hy'.
Qed.

(* ---------------- the graph's own edge list as an adjacency over node indexes ---------------- *)
Section ClosenessEndToEnd.
  Context {T A : Type}.
  Variable teqb : T -> T -> bool.
  Variable tltb : T -> T -> bool.
  Hypothesis teqb_spec : forall x y, teqb x y = true <-> x = y.
  Hypothesis tltb_asym : forall x y, tltb x y = true -> tltb y x = false.
  Hypothesis tltb_total : forall x y, tltb x y = false -> tltb y x = false -> x = y.

  Notation node := (node T A).
  Notation edge := (edge T A).
  Notation gstate := (gstate T A).
  Notation WF := (@WF T A teqb tltb).
  Notation names := (@names T A).
  Notation name_at := (@name_at T A).
  Notation nn := (@nn T A).
  Notation all_edges := (fun g : gstate => flat_map snd (edges g)).
  Notation stored_between := (stored_between teqb tltb).
  Notation sv_entry := (@sv_entry T A).
  Notation linked := (linked teqb tltb).

  Fixpoint pos_of (x : T) (ns : list T) : option nat :=
    match ns with
    | [] => None
    | y :: t => if teqb x y then Some 0 else option_map S (pos_of x t)
    end.

  Lemma pos_of_nth x : forall ns j, NoDup ns -> (pos_of x ns = Some j <-> nth_error ns j = Some x).
  Proof.
    induction ns as [|y t IH]; intros j Hnd; cbn [pos_of].
    - split; [discriminate|]. destruct j; discriminate.
    - inversion Hnd as [|? ? Hni Hnd']; subst. destruct (teqb x y) eqn:E.
      + apply teqb_spec in E. subst y. split.
        * intros H. inversion H. reflexivity.
        * destruct j as [|j]; [reflexivity|]. cbn. intros H. exfalso. apply Hni. eapply nth_error_In. exact H.
      + assert (Hne : x <> y) by (intros ->; rewrite (proj2 (teqb_spec y y) eq_refl) in E; discriminate).
        destruct j as [|j]; cbn [nth_error].
        * split; [destruct (pos_of x t); discriminate|]. intros H. inversion H. congruence.
        * rewrite <- (IH j Hnd'). destruct (pos_of x t) as [k|]; cbn; split; intros H; inversion H; reflexivity.
  Qed.

  (* the cost of traversing an edge: its weight, or 1 per hop *)
  Definition ecost (weighted : bool) (e : edge) : option Z := if weighted then ew e else Some 1%Z.

  Definition half_entry (weighted : bool) (ns : list T) (here there x : T) (e : edge) : list (nat * Z) :=
    if teqb here x then
      match pos_of there ns, ecost weighted e with Some j, Some c => [(j, c)] | _, _ => [] end
    else [].

  (* row of node x: one entry per stored edge leaving x (per stored edge touching x when undirected) *)
  Definition edge_row (weighted dir : bool) (ns : list T) (E : list edge) (x : T) : list (nat * Z) :=
    flat_map (fun e => half_entry weighted ns (eu e) (ev e) x e ++
                       (if dir then [] else half_entry weighted ns (ev e) (eu e) x e)) E.

  Definition edge_zadj (weighted : bool) (g : gstate) : zadj :=
    map (edge_row weighted (directed (sp g)) (get_all_node_names g) (get_all_edges g)) (get_all_node_names g).

  Lemma in_half_entry weighted ns here there x e j c : NoDup ns ->
    (In (j, c) (half_entry weighted ns here there x e) <->
     here = x /\ nth_error ns j = Some there /\ ecost weighted e = Some c).
  Proof.
    intros Hnd. unfold half_entry. destruct (teqb here x) eqn:E.
    - apply teqb_spec in E. destruct (pos_of there ns) as [k|] eqn:Ep.
      + apply (pos_of_nth there ns k Hnd) in Ep. destruct (ecost weighted e) as [c'|].
        * split.
          -- intros [H|[]]. inversion H. subst. auto.
          -- intros (_ & Hj & Hc). inversion Hc. subst c'.
             assert (k = j). { apply (proj1 (NoDup_nth_error ns) Hnd); [apply nth_error_Some; congruence|congruence]. }
             subst. left. reflexivity.
        * split; [intros []|intros (_ & _ & H); discriminate].
      + split; [intros []|]. intros (_ & Hj & _). apply (pos_of_nth there ns j Hnd) in Hj. congruence.
    - split; [intros []|]. intros (-> & _). rewrite (proj2 (teqb_spec x x) eq_refl) in E. discriminate.
  Qed.

  Lemma in_edge_zadj weighted (g : gstate) i j c : NoDup (names g) ->
    (In (j, c) (zrow (edge_zadj weighted g) i) <->
     exists x y e, name_at g i = Some x /\ name_at g j = Some y /\ In e (get_all_edges g) /\
                   ecost weighted e = Some c /\
                   ((eu e = x /\ ev e = y) \/ (directed (sp g) = false /\ eu e = y /\ ev e = x))).
  Proof.
    intros Hnd. unfold zrow, edge_zadj. rewrite nth_map_default.
    change (get_all_node_names g) with (names g). change (nth_error (names g) i) with (name_at g i).
    destruct (name_at g i) as [x|].
    - unfold edge_row. rewrite in_flat_map. split.
      + intros (e & He & Hin). apply in_app_or in Hin. destruct Hin as [Hin|Hin].
        * apply (in_half_entry _ _ _ _ _ _ _ _ Hnd) in Hin. destruct Hin as (Hu & Hj & Hc).
          exists x, (ev e), e. repeat split; auto.
        * destruct (directed (sp g)) eqn:Hd; [destruct Hin|].
          apply (in_half_entry _ _ _ _ _ _ _ _ Hnd) in Hin. destruct Hin as (Hu & Hj & Hc).
          exists x, (eu e), e. repeat split; auto.
      + intros (x' & y & e & Hx & Hy & He & Hc & Hcase). inversion Hx. subst x'.
        exists e. split; [exact He|]. apply in_or_app. destruct Hcase as [(Hu & Hv)|(Hd & Hu & Hv)].
        * left. apply (in_half_entry _ _ _ _ _ _ _ _ Hnd). subst. auto.
        * right. rewrite Hd. apply (in_half_entry _ _ _ _ _ _ _ _ Hnd). subst. auto.
    - split; [intros []|]. intros (x & _ & _ & Hx & _). discriminate.
  Qed.

  Lemma edge_zadj_length weighted (g : gstate) : length (edge_zadj weighted g) = length (nodes_vec g).
  Proof. unfold edge_zadj, get_all_node_names. rewrite !map_length. reflexivity. Qed.

  Definition positive_weights (g : gstate) : Prop :=
    forall e, In e (get_all_edges g) -> exists z, ew e = Some z /\ (0 < z)%Z.

  Lemma positive_real (g : gstate) : positive_weights g -> all_real (all_edges g).
  Proof. intros H e He. destruct (H e He) as (z & Hz & _). exists z. exact Hz. Qed.

  Lemma cost_of_entry weighted (j : nat) (w : weight) (c : Z) :
    zconv_entry weighted (j, w) = Some (j, c) <-> (if weighted then w else Some 1%Z) = Some c.
  Proof.
    unfold zconv_entry. cbn [fst snd]. destruct weighted.
    - destruct w as [z|]; split; intros H; inversion H; reflexivity.
    - split; intros H; inversion H; reflexivity.
  Qed.

  (* the traversal adjacency lists, for every linked pair, the cheapest stored edge *)
  Theorem edge_refines (weighted : bool) (g : gstate) :
    WF g -> (weighted = true -> all_real (all_edges g)) ->
    refines (sv_zadj weighted (successors_vec g)) (edge_zadj weighted g).
  Proof.
    intros W Hreal. pose proof (wf_nodup _ _ _ W) as Hnd. destruct (wf_sv _ _ _ W) as (Hlen & _).
    assert (Hsb : forall x y, (weighted = true -> forall e, In e (stored_between g x y) -> exists z, ew e = Some z)).
    { intros x y Hw e He. apply (Hreal Hw). apply (stored_between_In teqb tltb teqb_spec tltb_total g x y e W) in He. apply He. }
    split; [|split].
    - rewrite sv_zadj_length, edge_zadj_length, Hlen. apply (names_length g).
    - intros i j c Hin. apply in_sv_zadj in Hin. destruct Hin as (row & w & Hrow & Hin & Hc).
      assert (Hse : sv_entry g i j w) by (exists row; auto).
      apply (sv_entry_iff teqb tltb teqb_spec g i j w W) in Hse. destruct Hse as (x & y & Hx & Hy & Hne & Hw).
      apply cost_of_entry in Hc. apply (in_edge_zadj weighted g i j c Hnd). destruct weighted.
      + destruct (adjw_is_minimum teqb tltb teqb_spec g x y W Hne (Hsb x y eq_refl)) as (z & Ez & (e & He & Hwe) & _).
        rewrite Hw, Ez in Hc. inversion Hc. subst z.
        apply (stored_between_In teqb tltb teqb_spec tltb_total g x y e W) in He. destruct He as (He & Hcase).
        exists x, y, e. repeat split; auto.
      + inversion Hc. subst c. destruct (stored_between g x y) as [|e t] eqn:Esb; [congruence|].
        assert (He : In e (stored_between g x y)) by (rewrite Esb; left; reflexivity).
        apply (stored_between_In teqb tltb teqb_spec tltb_total g x y e W) in He. destruct He as (He & Hcase).
        exists x, y, e. repeat split; auto.
    - intros i j c Hin. apply (in_edge_zadj weighted g i j c Hnd) in Hin.
      destruct Hin as (x & y & e & Hx & Hy & He & Hc & Hcase).
      assert (Hes : In e (stored_between g x y)).
      { apply (stored_between_In teqb tltb teqb_spec tltb_total g x y e W). split; assumption. }
      assert (Hne : stored_between g x y <> []) by (intros Hnil; rewrite Hnil in Hes; exact Hes).
      assert (Hl : linked g i j (adjw (sp g) (stored_between g x y))) by (exists x, y; auto).
      apply (sv_entry_iff teqb tltb teqb_spec g i j _ W) in Hl. destruct Hl as (row & Hrow & Hinr).
      destruct weighted.
      + destruct (adjw_is_minimum teqb tltb teqb_spec g x y W Hne (Hsb x y eq_refl)) as (z & Ez & _ & Hmin).
        exists z. split; [|apply (Hmin e c Hes Hc)]. apply in_sv_zadj. exists row, (adjw (sp g) (stored_between g x y)).
        split; [exact Hrow|]. split; [exact Hinr|]. apply cost_of_entry. exact Ez.
      + inversion Hc. subst c. exists 1%Z. split; [|lia]. apply in_sv_zadj.
        exists row, (adjw (sp g) (stored_between g x y)). split; [exact Hrow|]. split; [exact Hinr|].
        apply cost_of_entry. reflexivity.
  Qed.

  Lemma sv_zadj_transposed (weighted : bool) (g tg : gstate) :
    (forall i j w, (if weighted then True else False) -> (sv_entry tg j i w <-> sv_entry g i j w)) ->
    (forall i j, (exists w, sv_entry tg j i w) <-> (exists w, sv_entry g i j w)) ->
    transposed (sv_zadj weighted (successors_vec g)) (sv_zadj weighted (successors_vec tg)).
  Proof.
    intros Hw Hp i j c. rewrite !in_sv_zadj. split.
    - intros (row & w & Hrow & Hin & Hc). apply cost_of_entry in Hc.
      assert (Hse : sv_entry g i j w) by (exists row; auto). destruct weighted.
      + apply (Hw i j w I) in Hse. destruct Hse as (row' & Hrow' & Hin'). exists row', w.
        split; [exact Hrow'|]. split; [exact Hin'|]. apply cost_of_entry. exact Hc.
      + destruct (proj2 (Hp i j) (ex_intro _ w Hse)) as (w' & row' & Hrow' & Hin'). exists row', w'.
        split; [exact Hrow'|]. split; [exact Hin'|]. apply cost_of_entry. exact Hc.
    - intros (row & w & Hrow & Hin & Hc). apply cost_of_entry in Hc.
      assert (Hse : sv_entry tg j i w) by (exists row; auto). destruct weighted.
      + apply (Hw i j w I) in Hse. destruct Hse as (row' & Hrow' & Hin'). exists row', w.
        split; [exact Hrow'|]. split; [exact Hin'|]. apply cost_of_entry. exact Hc.
      + destruct (proj1 (Hp i j) (ex_intro _ w Hse)) as (w' & row' & Hrow' & Hin'). exists row', w'.
        split; [exact Hrow'|]. split; [exact Hin'|]. apply cost_of_entry. exact Hc.
  Qed.

  (* ---------------- the search stage on the graph actually searched ---------------- *)
  Lemma entry_of_tg (tg : gstate) v j w row :
    WF tg -> nth_error (successors_vec tg) v = Some row -> In (j, w) row ->
    exists x y, name_at tg v = Some x /\ name_at tg j = Some y /\ stored_between tg x y <> [] /\
                w = adjw (sp tg) (stored_between tg x y).
  Proof.
    intros W Hrow Hin. assert (Hse : sv_entry tg v j w) by (exists row; auto).
    apply (sv_entry_iff teqb tltb teqb_spec tg v j w W) in Hse. exact Hse.
  Qed.

  Lemma entry_weight_positive (tg : gstate) x y :
    WF tg -> positive_weights tg -> stored_between tg x y <> [] ->
    exists z, adjw (sp tg) (stored_between tg x y) = Some z /\ (0 < z)%Z.
  Proof.
    intros W Hpos Hne.
    assert (Hr : forall e, In e (stored_between tg x y) -> exists z, ew e = Some z).
    { intros e He. apply (stored_between_In teqb tltb teqb_spec tltb_total tg x y e W) in He.
      destruct (Hpos e (proj1 He)) as (z & Hz & _). exists z. exact Hz. }
    destruct (adjw_is_minimum teqb tltb teqb_spec tg x y W Hne Hr) as (z & Ez & (e & He & Hwe) & _).
    exists z. split; [exact Ez|].
    apply (stored_between_In teqb tltb teqb_spec tltb_total tg x y e W) in He.
    destruct (Hpos e (proj1 He)) as (z' & Hz' & Hp). congruence.
  Qed.

  Theorem closeness_core (g tg : gstate) lw (weighted : bool) wf :
    WF g -> WF tg -> nodes_vec tg = nodes_vec g ->
    transposed (sv_zadj weighted (successors_vec g)) (sv_zadj weighted (successors_vec tg)) ->
    (weighted = true -> positive_weights tg) ->
    exists m,
      (match conv_adj weighted (successors_vec tg) with
       | None => Panic site_nan
       | Some a =>
         if negb (adj_ok (number_of_nodes tg) a)
         then Panic "closeness.rs: successors_vec index out of range"%string
         else omapM (closeness_one lw weighted wf tg a (number_of_nodes tg)) (seq 0 (number_of_nodes tg))
       end) = Ok m /\
      map fst m = names g /\
      forall i x cc, nth_error m i = Some (x, cc) ->
                     is_closeness (sv_zadj weighted (successors_vec g)) i wf cc.
  Proof.
    intros W Wt Hv Htr Hpos.
    destruct (wf_sv _ _ _ Wt) as (Hlen & _). destruct (wf_sv _ _ _ W) as (Hleng & _).
    set (n := number_of_nodes tg).
    assert (Hn : nn tg = n) by (unfold WFDefs.nn, n, number_of_nodes; apply (names_length tg)).
    assert (Hng : nn g = n).
    { unfold WFDefs.nn, n, number_of_nodes. rewrite (names_length g), Hv. reflexivity. }
    (* 1. the conversion succeeds *)
    assert (Hconv : exists a, conv_adj weighted (successors_vec tg) = Some a).
    { destruct weighted; [|apply conv_adj_false_total]. apply conv_adj_true_total.
      intros row e Hrow He. apply In_nth_error in Hrow. destruct Hrow as (v & Hrow). destruct e as [j w].
      destruct (entry_of_tg tg v j w row Wt Hrow He) as (x & y & _ & _ & Hne & Hw).
      destruct (entry_weight_positive tg x y Wt (Hpos eq_refl) Hne) as (z & Ez & _). cbn [snd]. congruence. }
    destruct Hconv as (a & Hconv). rewrite Hconv.
    assert (Hla : length a = n) by (rewrite (conv_adj_length _ _ _ Hconv), Hlen; exact Hn).
    (* 2. stored indexes are in range *)
    assert (Hentry : forall v e, In e (get [] a v) ->
              exists x y w, name_at tg v = Some x /\ name_at tg (fst e) = Some y /\
                            stored_between tg x y <> [] /\ w = adjw (sp tg) (stored_between tg x y) /\
                            conv_entry weighted (fst e, w) = Some e).
    { intros v e He. destruct (conv_adj_entries _ _ _ Hconv v e He) as (row & w & Hrow & Hin & Hc).
      destruct (entry_of_tg tg v (fst e) w row Wt Hrow Hin) as (x & y & Hx & Hy & Hne & Hw).
      exists x, y, w. auto. }
    assert (Hok : adj_ok n a = true).
    { unfold adj_ok. apply andb_true_iff. split; [apply Nat.eqb_eq; exact Hla|].
      apply forallb_forall. intros row Hrow. apply forallb_forall. intros e He. apply Nat.ltb_lt.
      apply (In_nth _ _ []) in Hrow. destruct Hrow as (v & _ & Hrow).
      assert (He' : In e (get [] a v)) by (unfold get; rewrite Hrow; exact He).
      destruct (Hentry v e He') as (x & y & w & _ & Hy & _). rewrite <- Hn. apply (name_at_lt tg (fst e) y Hy). }
    rewrite Hok. cbn [negb].
    rewrite <- Hla in Hok.
    (* 3. one entry per node *)
    assert (Ha0 : length (sv_zadj weighted (successors_vec g)) = length a).
    { rewrite sv_zadj_length, Hleng, Hng, Hla. reflexivity. }
    destruct (omapM_seq_spec (closeness_one lw weighted wf tg a n)
                (fun i (y : T * Q) => name_at g i = Some (fst y) /\
                                      is_closeness (sv_zadj weighted (successors_vec g)) i wf (snd y)) n 0)
      as (m & Hm & Hlm & Hpm).
    { intros src (_ & Hsrc). cbn [plus] in Hsrc.
      assert (Hsrc' : src < length a) by lia.
      assert (Hnode : exists nd, get_node_by_index tg src = Some nd /\ name_at g src = Some (nname nd)).
      { unfold get_node_by_index. rewrite (wf_nrev _ _ _ Wt src).
        assert (Hlt : src < length (nodes_vec tg)) by exact Hsrc.
        destruct (nth_error (nodes_vec tg) src) as [nd|] eqn:End; [|apply nth_error_None in End; lia].
        exists nd. split; [reflexivity|]. unfold WFDefs.name_at, WFDefs.names. rewrite <- Hv, nth_error_map, End. reflexivity. }
      destruct Hnode as (nd & Hnd & Hname).
      unfold closeness_one. rewrite <- Hla.
      destruct weighted; cbn [sssp].
      - assert (Hcost : forall v e, In e (get [] a v) -> exists c, snd e = inject_Z c /\ (0 < c)%Z).
        { intros v e He. destruct (Hentry v e He) as (x & y & w & _ & _ & Hne & Hw & Hc).
          destruct (entry_weight_positive tg x y Wt (Hpos eq_refl) Hne) as (z & Ez & Hz).
          unfold conv_entry in Hc. cbn [snd fst] in Hc. rewrite Hw, Ez in Hc. inversion Hc. exists z. split; [reflexivity|exact Hz]. }
        destruct (sssp_weighted_total a Hok lw src Hsrc') as (sp & Hsp). rewrite Hsp.
        destruct (weighted_closeness a src Hok Hsrc' Hcost lw sp (sv_zadj true (successors_vec g)) wf Hsp) as (cc & Hcc & Hcl).
        { rewrite (conv_zof _ _ Hconv). exact Htr. }
        { exact Ha0. }
        rewrite Hcc. cbn [bind]. rewrite Hnd. eexists. split; [reflexivity|]. cbn [fst snd]. auto.
      - destruct (sssp_unweighted_total a src Hok Hsrc') as (sp & Hsp). rewrite Hsp.
        destruct (bfs_closeness a src Hok Hsrc' sp Hsp (sv_zadj false (successors_vec g)) wf) as (cc & Hcc & Hcl).
        { rewrite (conv_unit _ _ Hconv). exact Htr. }
        { exact Ha0. }
        rewrite Hcc. cbn [bind]. rewrite Hnd. eexists. split; [reflexivity|]. cbn [fst snd]. auto. }
    exists m. split; [exact Hm|]. split.
    - apply list_eq_nth.
      + rewrite map_length, Hlm. fold (nn g). symmetry. exact Hng.
      + intros i x Hi. rewrite nth_error_map in Hi. destruct (nth_error m i) as [y|] eqn:Ey; [|discriminate].
        cbn in Hi. inversion Hi. subst x. destruct (Hpm i y Ey) as (Hname & _). exact Hname.
    - intros i x cc Hi. destruct (Hpm i (x, cc) Hi) as (_ & Hcl). exact Hcl.
  Qed.

  (* ---------------- closeness_centrality, end to end ---------------- *)
  (* For every coherent state (hence every reachable graph): the call returns — no error, no
     panic, no fuel exhaustion — one entry per node, in node order, and the value of the i-th node
     is the closeness of the definition over the adjacency read off the graph's own edge list:
     shortest distances TO the node along stored edges when the graph is directed (ordinary
     distances when undirected: the edge-list adjacency is then symmetric), every parallel edge a
     separate entry, cost = weight (weighted; all weights real and positive) or 1 (hop count). *)
  Theorem closeness_centrality_spec (g : gstate) lw (weighted : bool) wf :
    WF g -> (weighted = true -> positive_weights g) ->
    exists m, closeness_centrality teqb tltb lw g weighted wf = Ok m /\
              map fst m = get_all_node_names g /\
              forall i x cc, nth_error m i = Some (x, cc) -> is_closeness (edge_zadj weighted g) i wf cc.
  Proof.
    intros W Hpos. unfold closeness_centrality.
    assert (Hreal : weighted = true -> all_real (all_edges g)).
    { intros Hw. apply positive_real. apply (Hpos Hw). }
    assert (Hfin : forall tg,
              WF tg -> nodes_vec tg = nodes_vec g ->
              transposed (sv_zadj weighted (successors_vec g)) (sv_zadj weighted (successors_vec tg)) ->
              (weighted = true -> positive_weights tg) ->
              exists m, (let n := number_of_nodes tg in
                         match conv_adj weighted (successors_vec tg) with
                         | None => Panic site_nan
                         | Some a =>
                           if negb (adj_ok n a) then Panic "closeness.rs: successors_vec index out of range"%string
                           else omapM (closeness_one lw weighted wf tg a n) (seq 0 n)
                         end) = Ok m /\
                        map fst m = get_all_node_names g /\
                        forall i x cc, nth_error m i = Some (x, cc) -> is_closeness (edge_zadj weighted g) i wf cc).
    { intros tg Wt Hv Htr Hpt.
      destruct (closeness_core g tg lw weighted wf W Wt Hv Htr Hpt) as (m & Hm & Hk & Hcl).
      exists m. split; [exact Hm|]. split; [exact Hk|]. intros i x cc Hi.
      apply (is_closeness_refines _ _ i wf cc (edge_refines weighted g W Hreal)). apply (Hcl i x cc Hi). }
    destruct (directed (sp g)) eqn:Hd.
    - destruct (reverse_content teqb tltb teqb_spec tltb_total g W Hd) as (h & Hh & Hv & Hs & Hp).
      rewrite Hh. cbn [bind].
      destruct (reverse_WF teqb tltb teqb_spec tltb_asym tltb_total g h Hh) as (Wh & _).
      apply (Hfin h); [exact Wh|exact Hv| |].
      + apply sv_zadj_transposed.
        * intros i j w Hw. apply (reverse_transposes teqb tltb teqb_spec tltb_asym tltb_total g h W Hd Hh i j w).
          right. apply Hreal. destruct weighted; [reflexivity|destruct Hw].
        * intros i j. apply (reverse_transposes_pairs teqb tltb teqb_spec tltb_asym tltb_total g h W Hd Hh i j).
      + intros Hw e He. unfold get_all_edges in He. apply (Permutation_in _ Hp) in He.
        apply in_map_iff in He. destruct He as (e0 & <- & H0). cbn. apply (Hpos Hw). exact H0.
    - cbn [bind]. apply (Hfin g); [exact W|reflexivity| |exact Hpos].
      apply sv_zadj_transposed.
      + intros i j w _. apply (undirected_adjacency_symmetric teqb tltb teqb_spec tltb_asym tltb_total g j i w W Hd).
      + intros i j. split; intros (w & Hw); exists w;
          apply (undirected_adjacency_symmetric teqb tltb teqb_spec tltb_asym tltb_total g _ _ w W Hd); exact Hw.
  Qed.

  (* the edge-list adjacency of an undirected graph is symmetric, so "incoming" and "outgoing"
     distances coincide there: the closeness of an undirected graph is over ordinary distances *)
  Theorem edge_zadj_undirected_symmetric (weighted : bool) (g : gstate) :
    WF g -> directed (sp g) = false -> transposed (edge_zadj weighted g) (edge_zadj weighted g).
  Proof.
    intros W Hd i j c. pose proof (wf_nodup _ _ _ W) as Hnd. rewrite !(in_edge_zadj weighted g _ _ c Hnd).
    split; intros (x & y & e & Hx & Hy & He & Hc & Hcase); exists y, x, e; repeat split; auto;
      destruct Hcase as [(Hu & Hv)|(_ & Hu & Hv)]; auto.
  Qed.

  Corollary is_closeness_undirected_outgoing (weighted : bool) (g : gstate) u wf cc :
    WF g -> directed (sp g) = false ->
    is_closeness (edge_zadj weighted g) u wf cc ->
    exists dv : list (option Z),
      length dv = length (edge_zadj weighted g) /\
      (forall v, v < length (edge_zadj weighted g) -> dist_spec (edge_zadj weighted g) u v (oget dv v)) /\
      (cc == closeness_val (length (edge_zadj weighted g)) (count_some dv) (inject_Z (sum_some dv)) wf)%Q.
  Proof.
    intros W Hd (dv & Hlen & Hdist & Hval). exists dv. split; [exact Hlen|]. split; [|exact Hval].
    intros v Hv. apply (dist_spec_transposed _ _ (edge_zadj_undirected_symmetric weighted g W Hd)). apply Hdist. exact Hv.
  Qed.
End ClosenessEndToEnd.

(* ---- non-vacuity: the directed path 1 -> 2 -> 3 with weights 2, 3, built through the public
   constructor, is a reachable state with positive weights; its edge-list adjacency is
   [[(1,2)]; [(2,3)]; []]; the weighted closeness the model returns is 0, 1/2, 1/4 (node 3 is
   reached from 1 and 2 at distances 5 and 3: 2/8), i.e. INCOMING distances; the reversed graph's
   successors_vec is the transpose ---- *)
Example closeness_state_nonvacuous :
  match new_from_nodes_and_edges Z.eqb Z.ltb
          [mknode 1%Z (None : option Z); mknode 2%Z None; mknode 3%Z None]
          [mkedge 1%Z 2%Z (Some 2%Z) None; mkedge 2%Z 3%Z (Some 3%Z) None]
          (mkspecs true DErr MCreate false true SErr) with
  | Ok g =>
    reachable Z.eqb Z.ltb (mkspecs true DErr MCreate false true SErr) g /\
    positive_weights g /\
    edge_zadj Z.eqb true g = [[(1, 2%Z)]; [(2, 3%Z)]; []] /\
    closeness_centrality Z.eqb Z.ltb false g true false = Ok [(1%Z, 0%Q); (2%Z, (1 # 2)%Q); (3%Z, (1 # 4)%Q)] /\
    match reverse Z.eqb Z.ltb g with
    | Ok h => successors_vec g = [[(1, Some 2%Z)]; [(2, Some 3%Z)]; []] /\
              successors_vec h = [[]; [(0, Some 2%Z)]; [(1, Some 3%Z)]] /\
              predecessors_vec g = [[]; [(0, Some 2%Z)]; [(1, Some 3%Z)]]
    | _ => False
    end
  | _ => False
  end.
Proof.
  destruct (new_from_nodes_and_edges Z.eqb Z.ltb
              [mknode 1%Z (None : option Z); mknode 2%Z None; mknode 3%Z None]
              [mkedge 1%Z 2%Z (Some 2%Z) None; mkedge 2%Z 3%Z (Some 3%Z) None]
              (mkspecs true DErr MCreate false true SErr)) as [g| | |] eqn:Hg;
    try (vm_compute in Hg; discriminate).
  split; [exact (new_from_reachable Z.eqb Z.ltb (fun x y => Z.eqb_eq x y) _ _ _ g Hg)|].
  vm_compute in Hg. inversion Hg. subst g. clear Hg.
  split.
  - intros e He. vm_compute in He. destruct He as [<-|[<-|[]]]; eexists; split; try reflexivity; reflexivity.
  - vm_compute. repeat split.
Qed.
