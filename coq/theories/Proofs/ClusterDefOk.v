(* C11, facts about the DEFINITIONS of Spec/ClusterDef.v (unbounded, for every node
   list and adjacency): counting pairs, 0 <= cc <= 1, self-loops never count,
   sum of per-node triangle counts = 3 x number of triangles. *)
From Coq Require Import List Bool Arith ZArith QArith Lia Lqa.
From GV Require Import Spec.ClusterDef.
Import ListNotations.
Close Scope Q_scope.

Section ClusterDefOk.
  Context {T : Type}.
  Variable teqb : T -> T -> bool.
  Hypothesis teqb_spec : forall x y, teqb x y = true <-> x = y.

  Lemma teqb_refl : forall x, teqb x x = true.
  Proof. intros x. apply teqb_spec. reflexivity. Qed.

  Lemma teqb_false : forall x y, teqb x y = false <-> x <> y.
  Proof.
    intros x y. rewrite <- teqb_spec. destruct (teqb x y); split; congruence.
  Qed.

  Lemma teqb_sym : forall x y, teqb x y = teqb y x.
  Proof.
    intros x y. destruct (teqb x y) eqn:H1, (teqb y x) eqn:H2; try reflexivity.
    - apply teqb_spec in H1. subst. rewrite teqb_refl in H2. discriminate.
    - apply teqb_spec in H2. subst. rewrite teqb_refl in H1. discriminate.
  Qed.

  (* ---- counting pairs ---- *)
  Lemma pairs_length2 : forall {X} (l : list X), 2 * length (pairs l) = length l * (length l - 1).
  Proof.
    induction l as [ | x t IH ]; cbn [pairs length].
    - reflexivity.
    - rewrite app_length, map_length. destruct (length t) as [ | n ] eqn:E.
      + cbn in *. lia.
      + cbn [Nat.sub] in *. rewrite Nat.sub_0_r in *. nia.
  Qed.

  Lemma fold_right_ext2 : forall {X Y} (f1 f2 : X -> Y -> Y) z l,
    (forall x a, f1 x a = f2 x a) -> fold_right f1 z l = fold_right f2 z l.
  Proof.
    intros X Y f1 f2 z l H. induction l as [ | x t IH ]; cbn [fold_right]; [reflexivity | ].
    rewrite IH. apply H.
  Qed.

  Lemma filter_length_le : forall {X} (f : X -> bool) l, length (filter f l) <= length l.
  Proof.
    induction l as [ | x t IH ]; cbn; [lia | ]. destruct (f x); cbn; lia.
  Qed.

  Section Graph.
    Variable nodes : list T.
    Variable adjb : T -> T -> bool.

    (* triangles through v never exceed the number of neighbour pairs *)
    Theorem tri_le_pairs : forall v,
      2 * tri teqb nodes adjb v <= deg teqb nodes adjb v * (deg teqb nodes adjb v - 1).
    Proof.
      intros v. unfold tri, deg. rewrite <- pairs_length2.
      pose proof (filter_length_le (fun p => linked teqb adjb (fst p) (snd p))
                                   (pairs (nbrs teqb nodes adjb v))). lia.
    Qed.

    Theorem cc_unit_interval : forall v,
      (0 <= cc teqb nodes adjb v /\ cc teqb nodes adjb v <= 1)%Q.
    Proof.
      intros v. unfold cc. destruct (Nat.ltb (deg teqb nodes adjb v) 2) eqn:Hd.
      - split; [apply Qle_refl | discriminate].
      - apply Nat.ltb_ge in Hd. pose proof (tri_le_pairs v) as Ht.
        set (d := deg teqb nodes adjb v) in *. set (t := tri teqb nodes adjb v) in *.
        assert (Hpos : (0 < qn (d * (d - 1)))%Q).
        { unfold qn, Qlt. cbn. rewrite Z.mul_1_r. apply (Nat2Z.inj_lt 0). nia. }
        split.
        + apply Qle_shift_div_l; [exact Hpos | ]. rewrite Qmult_0_l.
          unfold qn, Qle. cbn. rewrite Z.mul_1_r. apply (Nat2Z.inj_le 0). lia.
        + apply Qle_shift_div_r; [exact Hpos | ]. rewrite Qmult_1_l.
          unfold qn, Qle. cbn. rewrite !Z.mul_1_r. apply Nat2Z.inj_le. exact Ht.
    Qed.
  End Graph.

  (* ---- self-loops never count: the definitions only see the adjacency off the diagonal ---- *)
  Section SelfLoops.
    Variable nodes : list T.
    Variables adjb1 adjb2 : T -> T -> bool.
    Hypothesis off_diagonal : forall u v, u <> v -> adjb1 u v = adjb2 u v.

    Lemma linked_ext : forall u v, linked teqb adjb1 u v = linked teqb adjb2 u v.
    Proof.
      intros u v. unfold linked. destruct (teqb u v) eqn:E.
      - cbn. rewrite !andb_false_r. reflexivity.
      - apply teqb_false in E. rewrite (off_diagonal u v E). reflexivity.
    Qed.

    Lemma nbrs_ext : forall v, nbrs teqb nodes adjb1 v = nbrs teqb nodes adjb2 v.
    Proof. intros v. unfold nbrs. apply filter_ext. intros u. apply linked_ext. Qed.

    Lemma deg_ext : forall v, deg teqb nodes adjb1 v = deg teqb nodes adjb2 v.
    Proof. intros v. unfold deg. rewrite nbrs_ext. reflexivity. Qed.

    Lemma tri_ext : forall v, tri teqb nodes adjb1 v = tri teqb nodes adjb2 v.
    Proof.
      intros v. unfold tri. rewrite nbrs_ext. f_equal. apply filter_ext. intros p. apply linked_ext.
    Qed.

    Lemma cc_ext : forall v, cc teqb nodes adjb1 v = cc teqb nodes adjb2 v.
    Proof. intros v. unfold cc. rewrite deg_ext, tri_ext. reflexivity. Qed.

    Lemma n_triangles_ext : n_triangles teqb nodes adjb1 = n_triangles teqb nodes adjb2.
    Proof.
      unfold n_triangles. f_equal. apply filter_ext. intros [[a b] c]. unfold is_triangle.
      rewrite !linked_ext. reflexivity.
    Qed.

    Lemma n_triples_ext : n_triples teqb nodes adjb1 = n_triples teqb nodes adjb2.
    Proof.
      unfold n_triples.
      assert (H : forall l : list T,
                 fold_right (fun v a => deg teqb nodes adjb1 v * (deg teqb nodes adjb1 v - 1) / 2 + a) 0 l =
                 fold_right (fun v a => deg teqb nodes adjb2 v * (deg teqb nodes adjb2 v - 1) / 2 + a) 0 l).
      { induction l as [ | x t IH ]; cbn [fold_right]; [reflexivity | ].
        rewrite IH, deg_ext. reflexivity. }
      apply H.
    Qed.

    Lemma transitivity_ext : transitivity_def teqb nodes adjb1 = transitivity_def teqb nodes adjb2.
    Proof. unfold transitivity_def. rewrite n_triples_ext, n_triangles_ext. reflexivity. Qed.

    Lemma gen_degree_ext : forall v k, gen_degree teqb nodes adjb1 v k = gen_degree teqb nodes adjb2 v k.
    Proof.
      intros v k. unfold gen_degree, edge_triangles. rewrite !nbrs_ext. f_equal.
      apply filter_ext. intros w. f_equal. f_equal. apply filter_ext. intros u. apply linked_ext.
    Qed.

    Lemma common_not_ext : forall v u w,
      common_not teqb nodes adjb1 v u w = common_not teqb nodes adjb2 v u w.
    Proof.
      intros v u w. unfold common_not. f_equal. apply filter_ext. intros x.
      rewrite !linked_ext. reflexivity.
    Qed.

    Lemma square_ext : forall v, square_def teqb nodes adjb1 v = square_def teqb nodes adjb2 v.
    Proof.
      intros v. unfold square_def, sq_num, sq_den. rewrite !nbrs_ext.
      rewrite (fold_right_ext2 (fun p a => common_not teqb nodes adjb1 v (fst p) (snd p) + a)
                               (fun p a => common_not teqb nodes adjb2 v (fst p) (snd p) + a)).
      2:{ intros p a. rewrite common_not_ext. reflexivity. }
      rewrite (fold_right_ext2
                 (fun p a => let '(u, w) := p in
                    let q := Z.of_nat (common_not teqb nodes adjb1 v u w) in
                    let th := if linked teqb adjb1 u w then 1%Z else 0%Z in
                    ((Z.of_nat (deg teqb nodes adjb1 u) - (1 + q + th)) +
                     (Z.of_nat (deg teqb nodes adjb1 w) - (1 + q + th)) + q + a)%Z)
                 (fun p a => let '(u, w) := p in
                    let q := Z.of_nat (common_not teqb nodes adjb2 v u w) in
                    let th := if linked teqb adjb2 u w then 1%Z else 0%Z in
                    ((Z.of_nat (deg teqb nodes adjb2 u) - (1 + q + th)) +
                     (Z.of_nat (deg teqb nodes adjb2 w) - (1 + q + th)) + q + a)%Z)).
      2:{ intros [u w] a. rewrite common_not_ext, linked_ext, !deg_ext. reflexivity. }
      reflexivity.
    Qed.

    Lemma cc_directed_ext : forall i, cc_directed teqb nodes adjb1 i = cc_directed teqb nodes adjb2 i.
    Proof.
      intros i.
      assert (Ha : forall u v, a_ teqb adjb1 u v = a_ teqb adjb2 u v).
      { intros u v. unfold a_. rewrite linked_ext. reflexivity. }
      assert (Hs : forall f1 f2 : T -> nat, (forall x, f1 x = f2 x) ->
                   sum_over nodes f1 = sum_over nodes f2).
      { intros f1 f2 Hf. unfold sum_over. induction nodes as [ | x t IH ]; cbn [fold_right];
          [reflexivity | ]. rewrite IH, Hf. reflexivity. }
      unfold cc_directed, fagiolo_2t, d_tot, d_bi.
      rewrite (Hs (fun j => sum_over nodes (fun k =>
                 (a_ teqb adjb1 i j + a_ teqb adjb1 j i) * (a_ teqb adjb1 j k + a_ teqb adjb1 k j) *
                 (a_ teqb adjb1 k i + a_ teqb adjb1 i k)))
              (fun j => sum_over nodes (fun k =>
                 (a_ teqb adjb2 i j + a_ teqb adjb2 j i) * (a_ teqb adjb2 j k + a_ teqb adjb2 k j) *
                 (a_ teqb adjb2 k i + a_ teqb adjb2 i k)))).
      2:{ intros j. apply Hs. intros k. rewrite !Ha. reflexivity. }
      rewrite (Hs (fun j => a_ teqb adjb1 i j + a_ teqb adjb1 j i)
                  (fun j => a_ teqb adjb2 i j + a_ teqb adjb2 j i)).
      2:{ intros j. rewrite !Ha. reflexivity. }
      rewrite (Hs (fun j => a_ teqb adjb1 i j * a_ teqb adjb1 j i)
                  (fun j => a_ teqb adjb2 i j * a_ teqb adjb2 j i)).
      2:{ intros j. rewrite !Ha. reflexivity. }
      reflexivity.
    Qed.
  End SelfLoops.

  (* ---- double counting: sum over the nodes of the triangles through a node
          = 3 x the number of triangles of the graph ---- *)
  Definition sumf {X} (g : X -> nat) (l : list X) : nat := fold_right (fun x a => g x + a) 0 l.

  Lemma sumf_app : forall {X} (g : X -> nat) l1 l2, sumf g (l1 ++ l2) = sumf g l1 + sumf g l2.
  Proof. intros X g l1 l2. induction l1 as [ | x t IH ]; cbn; [reflexivity | ]. unfold sumf in *. lia. Qed.

  Lemma sumf_map : forall {X Y} (g : Y -> nat) (h : X -> Y) l, sumf g (map h l) = sumf (fun x => g (h x)) l.
  Proof. intros X Y g h l. induction l as [ | x t IH ]; cbn; [reflexivity | ]. unfold sumf in *. lia. Qed.

  Lemma sumf_ext : forall {X} (g1 g2 : X -> nat) l, (forall x, g1 x = g2 x) -> sumf g1 l = sumf g2 l.
  Proof. intros X g1 g2 l H. induction l as [ | x t IH ]; cbn; [reflexivity | ]. unfold sumf in *. rewrite H. lia. Qed.

  Lemma sumf_plus : forall {X} (g1 g2 : X -> nat) l, sumf (fun x => g1 x + g2 x) l = sumf g1 l + sumf g2 l.
  Proof. intros X g1 g2 l. induction l as [ | x t IH ]; cbn; [reflexivity | ]. unfold sumf in *. lia. Qed.

  Lemma count_sumf : forall {X} (p : X -> bool) l,
    length (filter p l) = sumf (fun x => if p x then 1 else 0) l.
  Proof.
    intros X p l. induction l as [ | x t IH ]; cbn; [reflexivity | ].
    destruct (p x); cbn; unfold sumf in *; lia.
  Qed.

  Lemma filter_map_comm : forall {X Y} (p : Y -> bool) (h : X -> Y) l,
    filter p (map h l) = map h (filter (fun x => p (h x)) l).
  Proof.
    intros X Y p h l. induction l as [ | x t IH ]; cbn; [reflexivity | ].
    destruct (p (h x)); cbn; rewrite IH; reflexivity.
  Qed.

  Lemma filter_filter : forall {X} (p q : X -> bool) l,
    filter p (filter q l) = filter (fun x => q x && p x) l.
  Proof.
    intros X p q l. induction l as [ | x t IH ]; cbn; [reflexivity | ].
    destruct (q x); cbn; [destruct (p x); rewrite IH; reflexivity | exact IH].
  Qed.

  Lemma pairs_filter : forall {X} (p : X -> bool) l,
    pairs (filter p l) = filter (fun q => p (fst q) && p (snd q)) (pairs l).
  Proof.
    intros X p l. induction l as [ | x t IH ]; cbn [pairs filter]; [reflexivity | ].
    rewrite filter_app, filter_map_comm. cbn [fst snd]. destruct (p x) eqn:Hx.
    - cbn [pairs andb]. rewrite IH. reflexivity.
    - cbn [andb]. rewrite <- IH.
      replace (filter (fun _ : X => false) t) with (@nil X); [reflexivity | ].
      clear. induction t; cbn; auto.
  Qed.

  Section DoubleCount.
    Variable f : T -> T -> T -> nat.
    Hypothesis f_swap12 : forall a b c, f a b c = f b a c.
    Hypothesis f_swap23 : forall a b c, f a b c = f a c b.
    Hypothesis f_diag12 : forall a c, f a a c = 0.

    Lemma f_swap13 : forall a b c, f a b c = f c b a.
    Proof. intros a b c. rewrite (f_swap12 a b c), (f_swap23 b a c), (f_swap12 b c a). reflexivity. Qed.

    Lemma pair_double : forall (h : T -> T -> nat) l,
      (forall a b, h a b = h b a) -> (forall a, h a a = 0) ->
      sumf (fun v => sumf (fun w => h v w) l) l = 2 * sumf (fun q => h (fst q) (snd q)) (pairs l).
    Proof.
      intros h l Hs Hd. induction l as [ | y s IH ]; [reflexivity | ].
      cbn [pairs]. rewrite sumf_app, sumf_map. cbn [fst snd].
      change (sumf (fun v => sumf (fun w => h v w) (y :: s)) (y :: s))
        with (sumf (fun w => h y w) (y :: s) + sumf (fun v => sumf (fun w => h v w) (y :: s)) s).
      change (sumf (fun w => h y w) (y :: s)) with (h y y + sumf (fun w => h y w) s).
      rewrite (sumf_ext (fun v => sumf (fun w => h v w) (y :: s))
                        (fun v => h v y + sumf (fun w => h v w) s) s) by (intros; reflexivity).
      rewrite sumf_plus, IH, Hd.
      rewrite (sumf_ext (fun v => h v y) (fun w => h y w) s) by (intros; apply Hs). lia.
    Qed.

    Lemma triple_count : forall l,
      sumf (fun v => sumf (fun q => f v (fst q) (snd q)) (pairs l)) l =
      3 * sumf (fun t => f (fst (fst t)) (snd (fst t)) (snd t)) (triples l).
    Proof.
      induction l as [ | x t IH ]; [reflexivity | ].
      cbn [triples]. rewrite sumf_app, sumf_map. cbn [fst snd].
      change (sumf (fun v => sumf (fun q => f v (fst q) (snd q)) (pairs (x :: t))) (x :: t))
        with (sumf (fun q => f x (fst q) (snd q)) (pairs (x :: t)) +
              sumf (fun v => sumf (fun q => f v (fst q) (snd q)) (pairs (x :: t))) t).
      cbn [pairs].
      rewrite (sumf_ext (fun v => sumf (fun q => f v (fst q) (snd q)) (map (fun y => (x, y)) t ++ pairs t))
                        (fun v => sumf (fun w => f v x w) t + sumf (fun q => f v (fst q) (snd q)) (pairs t)) t).
      2:{ intros v. rewrite sumf_app, sumf_map. reflexivity. }
      rewrite sumf_plus, IH, sumf_app, sumf_map. cbn [fst snd].
      rewrite (sumf_ext (fun w => f x x w) (fun _ => 0) t) by (intros; apply f_diag12).
      assert (Hz : sumf (fun _ : T => 0) t = 0) by (clear; induction t; cbn; auto).
      rewrite Hz.
      rewrite (pair_double (fun v w => f v x w) t).
      2:{ intros a b. apply f_swap13. }
      2:{ intros a. cbn beta. rewrite (f_swap23 a x a). apply f_diag12. }
      rewrite (sumf_ext (fun q => f (fst q) x (snd q)) (fun q => f x (fst q) (snd q)) (pairs t))
        by (intros; apply f_swap12).
      lia.
    Qed.
  End DoubleCount.

  Section TriangleSum.
    Variable nodes : list T.
    Variable adjb : T -> T -> bool.
    Hypothesis adjb_sym : forall u v, adjb u v = adjb v u.

    Lemma linked_sym : forall u v, linked teqb adjb u v = linked teqb adjb v u.
    Proof. intros u v. unfold linked. rewrite adjb_sym, teqb_sym. reflexivity. Qed.

    Lemma linked_irrefl : forall u, linked teqb adjb u u = false.
    Proof. intros u. unfold linked. rewrite teqb_refl. apply andb_false_r. Qed.

    Definition tri_ind (a b c : T) : nat :=
      if linked teqb adjb a b && linked teqb adjb a c && linked teqb adjb b c then 1 else 0.

    Lemma tri_as_sum : forall v,
      tri teqb nodes adjb v = sumf (fun q => tri_ind v (fst q) (snd q)) (pairs nodes).
    Proof.
      intros v. unfold tri, nbrs. rewrite pairs_filter, filter_filter, count_sumf.
      apply sumf_ext. intros q. unfold tri_ind. reflexivity.
    Qed.

    Theorem triangle_sum :
      sumf (tri teqb nodes adjb) nodes = 3 * n_triangles teqb nodes adjb.
    Proof.
      rewrite (sumf_ext _ _ nodes tri_as_sum).
      rewrite (triple_count tri_ind).
      - f_equal. unfold n_triangles. rewrite count_sumf. apply sumf_ext.
        intros [[a b] c]. reflexivity.
      - intros a b c. unfold tri_ind. rewrite (linked_sym a b).
        destruct (linked teqb adjb b a), (linked teqb adjb a c), (linked teqb adjb b c); reflexivity.
      - intros a b c. unfold tri_ind. rewrite (linked_sym b c).
        destruct (linked teqb adjb a b), (linked teqb adjb a c), (linked teqb adjb c b); reflexivity.
      - intros a c. unfold tri_ind. rewrite linked_irrefl. reflexivity.
    Qed.
  End TriangleSum.
End ClusterDefOk.
