(* C11: the MODEL of `clustering` on a DIRECTED graph equals Fagiolo's coefficient
   ([cc_directed] of Spec/ClusterDef.v) over the arc relation of the EDGE LIST
   ([has_edge_b]: there is a stored edge u -> v), for every coherent (WF) graph state. *)
From Coq Require Import String List Bool Arith ZArith QArith Lia Permutation.
From GV Require Import Base.Outcome Base.AMap Model.GState Model.Creation Model.Query
     Model.Components Model.Cluster Spec.ReachDef Spec.CompSpec Spec.EdgeAdj Spec.ClusterDef Spec.ClusterSpec.
From GV Require Import Proofs.AMapOk Proofs.WFDefs Proofs.WFNode Proofs.WFAdj Proofs.WFEdge Proofs.Refine
     Proofs.AdjOk Proofs.QueryOk Proofs.ReachOk Proofs.ComponentsOk Proofs.CompWF
     Proofs.ClusterDefOk Proofs.ClusterOk Proofs.ClusterEqOk.
Import ListNotations.
Close Scope Q_scope.

Definition b2n (b : bool) : nat := if b then 1 else 0.

(* ---------------- duplicate-free lists that enumerate a decidable subset of [names] ------ *)
Section Lists.
  Context {T : Type}.
  Variable teqb : T -> T -> bool.
  Hypothesis teqb_spec : forall x y, teqb x y = true <-> x = y.
  Variable names : list T.
  Hypothesis names_nodup : NoDup names.
  Let mIn := memb_In teqb teqb_spec.

  Definition lists (p : T -> bool) (l : list T) : Prop :=
    NoDup l /\ forall y, In y l <-> In y names /\ p y = true.

  Lemma lists_perm : forall p l, lists p l -> Permutation l (filter p names).
  Proof.
    intros p l [Hnd Hm]. apply NoDup_Permutation; [exact Hnd | apply NoDup_filter; exact names_nodup | ].
    intros y. rewrite Hm, filter_In. tauto.
  Qed.

  Lemma sumf_filter : forall (p : T -> bool) (F : T -> nat) l,
    sumf F (filter p l) = sumf (fun j => b2n (p j) * F j) l.
  Proof.
    intros p F. induction l as [ | x t IH ]; [reflexivity | ]. cbn [filter].
    destruct (p x) eqn:E; unfold sumf in *; cbn [fold_right]; rewrite E; cbn [b2n]; rewrite IH; lia.
  Qed.

  Lemma lists_sum : forall p l (F : T -> nat), lists p l ->
    sumf F l = sumf (fun j => b2n (p j) * F j) names.
  Proof. intros p l F H. rewrite (sumf_perm F _ _ (lists_perm p l H)). apply sumf_filter. Qed.

  Lemma lists_length : forall p l, lists p l -> length l = sumf (fun j => b2n (p j)) names.
  Proof.
    intros p l H. rewrite (Permutation_length (lists_perm p l H)), count_sumf. reflexivity.
  Qed.

  Lemma lists_inter : forall pa pb a b, lists pa a -> lists pb b ->
    length (inter teqb a b) = sumf (fun k => b2n (pa k) * b2n (pb k)) names.
  Proof.
    intros pa pb a b Ha Hb. unfold inter. rewrite count_sumf.
    rewrite (lists_sum pa a _ Ha). apply sumf_ext_in. intros k Hk. f_equal.
    destruct Hb as [_ Hb]. change (mem_name teqb k b) with (memb teqb k b).
    destruct (memb teqb k b) eqn:E.
    - apply mIn in E. apply Hb in E. destruct E as [_ E]. rewrite E. reflexivity.
    - destruct (pb k) eqn:E2; [ | reflexivity]. exfalso.
      assert (In k b) by (apply Hb; auto). apply mIn in H. congruence.
  Qed.
End Lists.

Section ClusterDir.
  Context {T A : Type}.
  Variable teqb : T -> T -> bool.
  Variable tltb : T -> T -> bool.
  Hypothesis teqb_spec : forall x y, teqb x y = true <-> x = y.
  Hypothesis tltb_asym : forall x y, tltb x y = true -> tltb y x = false.
  Hypothesis tltb_total : forall x y, tltb x y = false -> tltb y x = false -> x = y.

  Notation gstate := (gstate T A).
  Notation WF := (@WF T A teqb tltb).
  Let mIn := memb_In teqb teqb_spec.

  Variable g : gstate.
  Hypothesis W : WF g.
  Hypothesis Hdir : directed (sp g) = true.
  Let names := get_all_node_names g.
  Let arc := has_edge_b teqb g.
  Let L := linked teqb arc.

  Lemma names_nodup_wf : NoDup names.
  Proof. apply (wf_nodup _ _ _ W). Qed.

  Lemma arc_iff : forall u v, arc u v = true <-> edge_rel g u v.
  Proof.
    intros u v. unfold arc, has_edge_b, edge_rel. rewrite existsb_exists. split.
    - intros (e & He & Hk). apply andb_true_iff in Hk. destruct Hk as (Hu & Hv).
      apply teqb_spec in Hu. apply teqb_spec in Hv.
      destruct (edge_endpoints teqb tltb teqb_spec g e W He) as (H1 & H2 & _).
      rewrite Hu in H1. rewrite Hv in H2. split; [exact H1|]. split; [exact H2|]. exists e. auto.
    - intros (_ & _ & e & He & Hu & Hv). exists e. split; [exact He|].
      apply andb_true_iff. split; apply teqb_spec; assumption.
  Qed.

  Lemma L_iff : forall u v, L u v = true <-> edge_rel g u v /\ u <> v.
  Proof.
    intros u v. unfold L, linked. rewrite andb_true_iff, arc_iff, negb_true_iff.
    rewrite (teqb_false teqb teqb_spec). tauto.
  Qed.

  (* utility.rs get_adjacent_nodes_without: predecessors / successors of x other than x *)
  Lemma adjacent_without_wf : forall x (preds : bool), In x names ->
    exists l, adjacent_without teqb g x preds = Ok l /\
              lists names (if preds then (fun y => L y x) else (fun y => L x y)) l.
  Proof.
    intros x preds Hx. unfold adjacent_without, get_predecessor_node_names, get_successor_node_names.
    destruct preds.
    - destruct (get_predecessor_nodes_spec teqb tltb g x W Hdir Hx) as (l & Hl & _ & Hm).
      rewrite Hl. cbn [bind]. eexists. split; [reflexivity | ].
      destruct (to_hashset_spec teqb teqb_spec (map nname l)) as (Hnd & Hin).
      split; [apply without_NoDup; exact Hnd | ].
      intros y. rewrite (without_In teqb teqb_spec), Hin, Hm, L_iff.
      rewrite <- (edge_rel_iff teqb tltb teqb_spec g y x W). unfold edge_rel. tauto.
    - destruct (get_successor_nodes_spec teqb tltb g x W Hdir Hx) as (l & Hl & _ & Hm).
      rewrite Hl. cbn [bind]. eexists. split; [reflexivity | ].
      destruct (to_hashset_spec teqb teqb_spec (map nname l)) as (Hnd & Hin).
      split; [apply without_NoDup; exact Hnd | ].
      intros y. rewrite (without_In teqb teqb_spec), Hin, Hm, L_iff.
      rewrite <- (edge_rel_iff teqb tltb teqb_spec g x y W). unfold edge_rel.
      split; [intros (H & Hne); split; [tauto | split; [exact H | congruence]] | intros (_ & H & Hne); split; [exact H | congruence]].
  Qed.

  Notation a_ := (a_ teqb arc).

  (* the record computed for one node *)
  Lemma dtad_wf : forall i d, In i names -> dtad_for_node teqb g i = Ok d ->
    d_total d = d_tot teqb names arc i /\
    d_recip d = d_bi teqb names arc i /\
    d_tri d = fagiolo_2t teqb names arc i.
  Proof.
    intros i d Hi H. unfold dtad_for_node in H.
    destruct (adjacent_without_wf i true Hi) as (ip & Hip & Lip).
    destruct (adjacent_without_wf i false Hi) as (is_ & His & Lis).
    rewrite Hip, His in H. cbn [bind] in H.
    destruct (omapM _ (ip ++ is_)) as [cs | | | ] eqn:Ec; cbn [bind] in H; try discriminate.
    inversion H; subst d. cbn [d_total d_recip d_tri]. clear H.
    pose proof names_nodup_wf as Hnd.
    split; [ | split ].
    - rewrite (lists_length names Hnd _ _ Lip), (lists_length names Hnd _ _ Lis).
      unfold d_tot, sum_over. change (fold_right (fun x a => a_ i x + a_ x i + a) 0 names)
        with (sumf (fun x => a_ i x + a_ x i) names).
      rewrite sumf_plus. rewrite Nat.add_comm. reflexivity.
    - rewrite (lists_inter teqb teqb_spec names Hnd _ _ _ _ Lip Lis).
      unfold d_bi, sum_over. change (fold_right (fun x a => a_ i x * a_ x i + a) 0 names)
        with (sumf (fun x => a_ i x * a_ x i) names).
      apply sumf_ext. intros j. apply Nat.mul_comm.
    - set (F := fun j => sumf (fun k => (a_ k i + a_ i k) * (a_ k j + a_ j k)) names).
      assert (Hcs : cs = map F (ip ++ is_)).
      { apply Forall2_map_eq. apply omapM_Forall2 in Ec.
        eapply Forall2_impl_in; [ | exact Ec]. intros j c Hj _ Hjc. cbn beta in Hjc.
        assert (Hjn : In j names).
        { apply in_app_iff in Hj. destruct Hj as [Hj | Hj].
          - destruct Lip as [_ Hm]. apply Hm in Hj. tauto.
          - destruct Lis as [_ Hm]. apply Hm in Hj. tauto. }
        destruct (adjacent_without_wf j true Hjn) as (jp & Hjp & Ljp).
        destruct (adjacent_without_wf j false Hjn) as (js & Hjs & Ljs).
        rewrite Hjp, Hjs in Hjc. cbn [bind] in Hjc. inversion Hjc; subst c. clear Hjc.
        rewrite (lists_inter teqb teqb_spec names Hnd _ _ _ _ Lip Ljp),
                (lists_inter teqb teqb_spec names Hnd _ _ _ _ Lip Ljs),
                (lists_inter teqb teqb_spec names Hnd _ _ _ _ Lis Ljp),
                (lists_inter teqb teqb_spec names Hnd _ _ _ _ Lis Ljs).
        unfold F. rewrite <- !sumf_plus. apply sumf_ext. intros k.
        change (b2n (L k i)) with (a_ k i). change (b2n (L i k)) with (a_ i k).
        change (b2n (L k j)) with (a_ k j). change (b2n (L j k)) with (a_ j k). ring. }
      change (fold_left Nat.add cs 0) with (fold_left (fun a x => a + (fun y => y) x) cs 0).
      rewrite fold_left_add. cbn [Nat.add]. fold (sumn cs).
      rewrite Hcs, sumf_map_id, sumf_app.
      rewrite (lists_sum names Hnd _ _ F Lip), (lists_sum names Hnd _ _ F Lis), <- sumf_plus.
      unfold fagiolo_2t, sum_over.
      change (fold_right (fun x a => fold_right (fun x0 a0 => (a_ i x + a_ x i) * (a_ x x0 + a_ x0 x) * (a_ x0 i + a_ i x0) + a0) 0 names + a) 0 names)
        with (sumf (fun j => sumf (fun k => (a_ i j + a_ j i) * (a_ j k + a_ k j) * (a_ k i + a_ i k)) names) names).
      apply sumf_ext. intros j. unfold F.
      change (b2n (L j i)) with (a_ j i). change (b2n (L i j)) with (a_ i j).
      rewrite <- Nat.mul_add_distr_r, <- sumf_scale. apply sumf_ext. intros k. ring.
  Qed.

  (* clustering(v) on a directed graph = Fagiolo's coefficient over the arcs of the edge list *)
  Theorem clustering_directed_wf : forall nn m v,
    clustering teqb g nn = Ok m ->
    In v (names_of g nn) -> In v names ->
    exists c, lookup teqb v m = Some c /\ (c == cc_directed teqb names arc v)%Q.
  Proof.
    intros nn m v H Hreq Hv. unfold clustering in H.
    destruct (ensure_not_multi_edges g); cbn [bind] in H; try discriminate.
    destruct (ensure_nodes_exist teqb g nn); cbn [bind] in H; try discriminate.
    rewrite Hdir in H.
    pose proof (clustering_directed_lookup teqb teqb_spec g nn m v H) as Hl.
    assert (Hm : mem_name teqb v (names_of g nn) = true) by (apply mIn; exact Hreq).
    rewrite Hm in Hl.
    (* the record of v exists: v is among the requested names of a run that returned *)
    assert (Hd : exists d, dtad_for_node teqb g v = Ok d).
    { unfold clustering_directed, get_directed_triangles_and_degrees in H. fold (names_of g nn) in H.
      destruct (omapM (dtad_for_node teqb g) (names_of g nn)) as [ds | | | ] eqn:Ed; cbn [bind] in H; try discriminate.
      apply omapM_Forall2 in Ed. destruct (Forall2_In_l _ _ _ _ Ed Hreq) as (d & _ & Hd). eauto. }
    destruct Hd as (d & Hd). rewrite Hd in Hl. cbn [bind] in Hl.
    destruct (dtad_wf v d Hv Hd) as (H1 & H2 & H3).
    unfold dcc_val in Hl. rewrite H1, H2, H3 in Hl. unfold cc_directed.
    destruct (Nat.eqb (fagiolo_2t teqb names arc v) 0) eqn:E0.
    - cbn in Hl. exists 0%Q. split; [exact Hl | reflexivity].
    - unfold fdiv in Hl.
      destruct (Qeq_bool _ 0) eqn:Ez in Hl.
      + (* a run that returned did not divide by zero *)
        exfalso. unfold clustering_directed, get_directed_triangles_and_degrees in H. fold (names_of g nn) in H.
        destruct (omapM (dtad_for_node teqb g) (names_of g nn)) as [ds | | | ] eqn:Ed; cbn [bind] in H; try discriminate.
        destruct (omapM _ ds) as [kvs | | | ] eqn:Ek; cbn [bind] in H; try discriminate.
        pose proof Ed as Ed'. apply omapM_Forall2 in Ed'.
        destruct (Forall2_In_l _ _ _ _ Ed' Hreq) as (d' & Hd'in & Hd'). rewrite Hd in Hd'. inversion Hd'; subst d'.
        apply omapM_Forall2 in Ek. destruct (Forall2_In_l _ _ _ _ Ek Hd'in) as (p & _ & Hp).
        cbn beta in Hp. rewrite H1, H2, H3, E0 in Hp. unfold fdiv in Hp. rewrite Ez in Hp. cbn [bind] in Hp. discriminate.
      + cbn [bind oval option_map snd] in Hl. eexists. split; [exact Hl | ].
        rewrite Qred_correct. unfold Cluster.qn, ClusterDef.qn.
        apply Qdiv_comp; [reflexivity | ring].
  Qed.
End ClusterDir.
