(* C11: the MODEL of undirected `triangles` and `clustering` equals the DEFINITION
   (Spec/ClusterDef.v over the adjacency [nadj] the functions read), for every graph
   state that passes the executable coherence test [nbr_ok_b] (node list duplicate-free,
   neighbour query total, closed and symmetric).  Unbounded; the double-counting
   argument is over lists. *)
From Coq Require Import String List Bool Arith ZArith QArith Lia Permutation Sorted.
From GV Require Import Base.Outcome Base.AMap Model.GState Model.Creation Model.Query
     Model.Components Model.Cluster Spec.ReachDef Spec.ClusterDef Spec.ClusterSpec
     Proofs.ReachOk Proofs.ComponentsOk Proofs.ClusterDefOk Proofs.ClusterOk.
Import ListNotations.
Close Scope Q_scope.

(* ---------------- lists of naturals: sort, run-length encoding, collect ---------------- *)
Definition sumn (l : list nat) : nat := sumf (fun x => x) l.

Lemma fold_left_add : forall {X} (f : X -> nat) l a,
  fold_left (fun a x => a + f x) l a = a + sumf f l.
Proof.
  intros X f. induction l as [ | x t IH ]; intros a; cbn [fold_left]; [cbn; lia | ].
  rewrite IH. cbn. unfold sumf. lia.
Qed.

Lemma ins_nat_sum : forall x l, sumn (ins_nat x l) = x + sumn l.
Proof.
  intros x. induction l as [ | y t IH ]; cbn [ins_nat]; [reflexivity | ].
  destruct (Nat.leb x y); [reflexivity | ]. unfold sumn, sumf in *. cbn [fold_right]. rewrite IH. lia.
Qed.

Lemma sort_nat_sum : forall l, sumn (sort_nat l) = sumn l.
Proof.
  induction l as [ | x t IH ]; [reflexivity | ]. cbn [sort_nat fold_right].
  fold (sort_nat t). rewrite ins_nat_sum, IH. reflexivity.
Qed.

Lemma ins_nat_In : forall x l z, In z (ins_nat x l) <-> z = x \/ In z l.
Proof.
  intros x. induction l as [ | y t IH ]; intros z; cbn [ins_nat].
  - cbn. intuition.
  - destruct (Nat.leb x y); cbn [In]; [intuition | ]. rewrite IH. intuition.
Qed.

Lemma ins_nat_sorted : forall x l, StronglySorted le l -> StronglySorted le (ins_nat x l).
Proof.
  intros x. induction l as [ | y t IH ]; intros Hs; cbn [ins_nat].
  - constructor; constructor.
  - inversion Hs as [ | a b Ht Hy ]; subst. destruct (Nat.leb x y) eqn:E.
    + apply Nat.leb_le in E. constructor; [exact Hs | ]. constructor; [exact E | ].
      rewrite Forall_forall in Hy |- *. intros z Hz. specialize (Hy z Hz). lia.
    + apply Nat.leb_gt in E. constructor; [apply IH; exact Ht | ].
      rewrite Forall_forall in Hy |- *. intros z Hz. apply ins_nat_In in Hz.
      destruct Hz as [Hz | Hz]; [subst; lia | apply Hy; exact Hz].
Qed.

Lemma sort_nat_sorted : forall l, StronglySorted le (sort_nat l).
Proof.
  induction l as [ | x t IH ]; [constructor | ]. cbn [sort_nat fold_right]. fold (sort_nat t).
  apply ins_nat_sorted. exact IH.
Qed.

Lemma chunk_sum : forall l, sumf (fun kv => fst kv * snd kv) (chunk_by_count l) = sumn l.
Proof.
  induction l as [ | x t IH ]; [reflexivity | ]. cbn [chunk_by_count].
  destruct (chunk_by_count t) as [ | [y c] r ] eqn:E.
  - unfold sumn, sumf in *. cbn in *. lia.
  - destruct (Nat.eqb x y) eqn:Exy.
    + apply Nat.eqb_eq in Exy. subst y. unfold sumn, sumf in *. cbn in *. nia.
    + unfold sumn, sumf in *. cbn in *. lia.
Qed.

Lemma chunk_keys : forall l, StronglySorted le l ->
  StronglySorted lt (map fst (chunk_by_count l)) /\ (forall k, In k (map fst (chunk_by_count l)) -> In k l).
Proof.
  induction l as [ | x t IH ]; intros Hs.
  - cbn. split; [constructor | intros k []].
  - inversion Hs as [ | a b Ht Hx ]; subst. destruct (IH Ht) as [IH1 IH2]. cbn [chunk_by_count].
    destruct (chunk_by_count t) as [ | [y c] r ] eqn:E.
    + cbn. split; [constructor; constructor | intros k [Hk | []]; tauto].
    + destruct (Nat.eqb x y) eqn:Exy.
      * apply Nat.eqb_eq in Exy. subst y. cbn [map fst] in *. split; [exact IH1 | ].
        intros k Hk. right. apply IH2. exact Hk.
      * apply Nat.eqb_neq in Exy. cbn [map fst] in *. split.
        -- constructor; [exact IH1 | ].
           assert (Hy : x < y).
           { assert (In y t) by (apply IH2; cbn; tauto).
             rewrite Forall_forall in Hx. specialize (Hx y H). lia. }
           constructor; [exact Hy | ].
           inversion IH1 as [ | a b _ Hr ]; subst. rewrite Forall_forall in Hr |- *.
           intros k Hk. specialize (Hr k Hk). lia.
        -- intros k [Hk | Hk]; [left; exact Hk | right; apply IH2; exact Hk].
Qed.

Lemma sorted_lt_NoDup : forall l, StronglySorted lt l -> NoDup l.
Proof.
  induction l as [ | x t IH ]; intros Hs; [constructor | ].
  inversion Hs as [ | a b Ht Hx ]; subst. constructor; [ | apply IH; exact Ht].
  intros Hin. rewrite Forall_forall in Hx. specialize (Hx x Hin). lia.
Qed.

Lemma insert_absent : forall {V} (m : list (nat * V)) k v,
  ~ In k (map fst m) -> insert Nat.eqb k v m = m ++ [(k, v)].
Proof.
  intros V. induction m as [ | [k0 v0] t IH ]; intros k v Hk; cbn [insert app]; [reflexivity | ].
  destruct (Nat.eqb k k0) eqn:E.
  - apply Nat.eqb_eq in E. subst. exfalso. apply Hk. cbn. tauto.
  - rewrite IH; [reflexivity | ]. intros H. apply Hk. cbn. tauto.
Qed.

Lemma collect_map_nodup : forall {V} (l : list (nat * V)),
  NoDup (map fst l) -> collect_map Nat.eqb l = l.
Proof.
  intros V l. unfold collect_map.
  assert (G : forall (l m0 : list (nat * V)), NoDup (map fst (m0 ++ l)) ->
              fold_left (fun m kv => insert Nat.eqb (fst kv) (snd kv) m) l m0 = m0 ++ l).
  { clear l. induction l as [ | [k v] t IH ]; intros m0 Hnd; cbn [fold_left].
    - rewrite app_nil_r. reflexivity.
    - cbn [fst snd]. rewrite insert_absent.
      + rewrite IH; rewrite <- app_assoc; [reflexivity | exact Hnd].
      + rewrite map_app in Hnd. cbn [map fst] in Hnd. apply NoDup_remove_2 in Hnd.
        intros H. apply Hnd. rewrite in_app_iff. tauto. }
  intros H. apply (G l []). exact H.
Qed.

Lemma sumf_perm : forall {X} (g : X -> nat) l l', Permutation l l' -> sumf g l = sumf g l'.
Proof.
  intros X g l l' H. induction H; unfold sumf in *; cbn [fold_right]; lia.
Qed.

Lemma sumf_ext_in : forall {X} (g1 g2 : X -> nat) l,
  (forall x, In x l -> g1 x = g2 x) -> sumf g1 l = sumf g2 l.
Proof.
  intros X g1 g2 l H. induction l as [ | x t IH ]; [reflexivity | ].
  unfold sumf in *. cbn [fold_right]. rewrite H by (cbn; tauto). rewrite IH; [reflexivity | ].
  intros y Hy. apply H. cbn. tauto.
Qed.

Lemma sumf_scale : forall {X} (c : nat) (f : X -> nat) l, sumf (fun x => c * f x) l = c * sumf f l.
Proof. intros X c f l. induction l as [ | x t IH ]; [cbn; lia | ]. unfold sumf in *. cbn [fold_right]. rewrite IH. lia. Qed.

Lemma sumf_le : forall {X} (f h : X -> nat) l, (forall x, f x <= h x) -> sumf f l <= sumf h l.
Proof.
  intros X f h l H. induction l as [ | x t IH ]; [cbn; lia | ]. unfold sumf in *. cbn [fold_right].
  specialize (H x). lia.
Qed.

Lemma sumf_map_id : forall {X} (h : X -> nat) l, sumn (map h l) = sumf h l.
Proof. intros X h l. unfold sumn. rewrite sumf_map. reflexivity. Qed.

Lemma Forall2_map_eq : forall {X Y} (h : X -> Y) l r,
  Forall2 (fun x y => y = h x) l r -> r = map h l.
Proof.
  intros X Y h l r H. induction H as [ | x y l r Hxy _ IH ]; [reflexivity | ]. subst. reflexivity.
Qed.

Lemma Forall2_impl_in : forall {X Y} (R R' : X -> Y -> Prop) l r,
  (forall x y, In x l -> In y r -> R x y -> R' x y) -> Forall2 R l r -> Forall2 R' l r.
Proof.
  intros X Y R R' l r H F. induction F as [ | x y l r Hxy _ IH ]; constructor.
  - apply H; cbn; tauto.
  - apply IH. intros a b Ha Hb. apply H; cbn; tauto.
Qed.

Section ClusterEq.
  Context {T A : Type}.
  Variable teqb : T -> T -> bool.
  Hypothesis teqb_spec : forall x y, teqb x y = true <-> x = y.
  Notation gstate := (gstate T A).

  Let mIn := memb_In teqb teqb_spec.

  Lemma without_In : forall x l z, In z (without teqb x l) <-> In z l /\ z <> x.
  Proof.
    intros x l z. unfold without. rewrite filter_In, negb_true_iff.
    rewrite (teqb_false teqb teqb_spec). tauto.
  Qed.

  Lemma without_NoDup : forall x l, NoDup l -> NoDup (without teqb x l).
  Proof. intros x l H. unfold without. apply NoDup_filter. exact H. Qed.

  Lemma mem_name_memb : forall x l, mem_name teqb x l = memb teqb x l.
  Proof. reflexivity. Qed.

  (* |A n B| = |B n A| for duplicate-free lists *)
  Lemma inter_length_comm : forall a b, NoDup a -> NoDup b ->
    length (inter teqb a b) = length (inter teqb b a).
  Proof.
    intros a b Ha Hb. unfold inter. apply Nat.le_antisymm.
    - apply NoDup_incl_length; [apply NoDup_filter; exact Ha | ].
      intros z Hz. apply filter_In in Hz. destruct Hz as [H1 H2]. apply mIn in H2.
      apply filter_In. split; [exact H2 | apply mIn; exact H1].
    - apply NoDup_incl_length; [apply NoDup_filter; exact Hb | ].
      intros z Hz. apply filter_In in Hz. destruct Hz as [H1 H2]. apply mIn in H2.
      apply filter_In. split; [exact H2 | apply mIn; exact H1].
  Qed.

  Variable g : gstate.
  Hypothesis g_ok : nbr_ok_b teqb g = true.
  Let names := get_all_node_names g.

  Lemma neighbor_name_set_NoDup : forall v l, neighbor_name_set teqb g v = Ok l -> NoDup l.
  Proof.
    intros v l H. unfold neighbor_name_set in H.
    destruct (get_neighbor_nodes teqb g v); try discriminate. inversion H.
    apply (to_hashset_spec teqb teqb_spec).
  Qed.

  Lemma names_NoDup : NoDup names.
  Proof.
    unfold nbr_ok_b in g_ok. apply andb_true_iff in g_ok. destruct g_ok as [H _].
    apply (nodupb_NoDup teqb teqb_spec). exact H.
  Qed.

  Lemma nbr_total : forall v, In v names ->
    exists l, neighbor_name_set teqb g v = Ok l /\ NoDup l /\
      forall u, In u l -> In u names /\ exists l', neighbor_name_set teqb g u = Ok l' /\ In v l'.
  Proof.
    intros v Hv. unfold nbr_ok_b in g_ok. apply andb_true_iff in g_ok. destruct g_ok as [_ H].
    rewrite forallb_forall in H. specialize (H v Hv).
    destruct (neighbor_name_set teqb g v) as [l | | | ] eqn:E; try discriminate.
    exists l. split; [reflexivity | split; [apply (neighbor_name_set_NoDup v l E) | ] ].
    rewrite forallb_forall in H. intros u Hu. specialize (H u Hu).
    apply andb_true_iff in H. destruct H as [H1 H2]. apply mIn in H1. split; [exact H1 | ].
    destruct (neighbor_name_set teqb g u) as [l' | | | ]; try discriminate.
    exists l'. split; [reflexivity | apply mIn; exact H2].
  Qed.

  Lemma nadj_true : forall v u, nadj teqb g v u = true <->
    In v names /\ In u names /\ exists l, neighbor_name_set teqb g v = Ok l /\ In u l.
  Proof.
    intros v u. unfold nadj. fold names. rewrite !andb_true_iff, !mIn. split.
    - intros [[H1 H2] H3]. split; [exact H1 | split; [exact H2 | ] ].
      destruct (neighbor_name_set teqb g v) as [l | | | ]; try discriminate.
      exists l. split; [reflexivity | apply mIn; exact H3].
    - intros [H1 [H2 [l [Hl Hu]]]]. rewrite Hl. split; [tauto | apply mIn; exact Hu].
  Qed.

  Lemma nadj_sym : forall v u, nadj teqb g v u = nadj teqb g u v.
  Proof.
    assert (Hd : forall v u, nadj teqb g v u = true -> nadj teqb g u v = true).
    { intros v u H. apply nadj_true in H. destruct H as [Hv [Hu [l [Hl Hul]]]].
      destruct (nbr_total v Hv) as [l0 [Hl0 [_ Hcl]]]. rewrite Hl in Hl0. inversion Hl0; subst l0.
      destruct (Hcl u Hul) as [_ [l' [Hl' Hv']]].
      apply nadj_true. split; [exact Hu | split; [exact Hv | exists l'; tauto] ]. }
    intros v u. destruct (nadj teqb g v u) eqn:E1, (nadj teqb g u v) eqn:E2; try reflexivity.
    - apply Hd in E1. congruence.
    - apply Hd in E2. congruence.
  Qed.

  (* neighbour list of the definition is a permutation of the model's neighbour set *)
  Lemma nbrs_perm : forall v l, In v names -> neighbor_name_set teqb g v = Ok l ->
    Permutation (without teqb v l) (nbrs teqb names (nadj teqb g) v).
  Proof.
    intros v l Hv Hl. destruct (nbr_total v Hv) as [l0 [Hl0 [Hnd Hcl]]].
    rewrite Hl in Hl0. inversion Hl0; subst l0.
    apply NoDup_Permutation.
    - apply without_NoDup. exact Hnd.
    - unfold nbrs. apply NoDup_filter. apply names_NoDup.
    - intros z. rewrite without_In. unfold nbrs. rewrite filter_In. unfold linked.
      rewrite andb_true_iff, nadj_true, negb_true_iff, (teqb_false teqb teqb_spec). split.
      + intros [Hz Hne]. destruct (Hcl z Hz) as [Hzn _]. split; [exact Hzn | ].
        split; [ | congruence]. split; [exact Hv | split; [exact Hzn | exists l; tauto] ].
      + intros [_ [[_ [_ [l1 [Hl1 Hz]]]] Hne]]. rewrite Hl in Hl1. inversion Hl1; subst l1.
        split; [exact Hz | congruence].
  Qed.

  (* indicator of "adjacent and different" *)
  Definition lk (w u : T) : nat := if linked teqb (nadj teqb g) w u then 1 else 0.

  Lemma lk_sym : forall a b, lk a b = lk b a.
  Proof.
    intros a b. unfold lk, linked. rewrite nadj_sym, (teqb_sym teqb teqb_spec). reflexivity.
  Qed.

  Lemma lk_diag : forall a, lk a a = 0.
  Proof.
    intros a. unfold lk, linked. rewrite (teqb_refl teqb teqb_spec), andb_false_r. reflexivity.
  Qed.

  (* main lemma: the record computed for one node *)
  Lemma tad_for_node_spec : forall full v hs t,
    get_neighbors_of_nodes teqb None g = Ok full ->
    In v names -> neighbor_name_set teqb g v = Ok hs ->
    tad_for_node teqb v hs full = Ok t ->
    t_ntri t = 2 * tri teqb names (nadj teqb g) v /\ t_degree t = deg teqb names (nadj teqb g) v.
  Proof.
    intros full v hs t Hfull Hv Hhs Ht. unfold tad_for_node in Ht.
    set (M := without teqb v hs) in *.
    destruct (omapM _ M) as [counts | | | ] eqn:Ec; cbn [bind] in Ht; try discriminate.
    inversion Ht; subst t. cbn [t_ntri t_degree]. clear Ht.
    pose proof (nbrs_perm v hs Hv Hhs) as Hperm. fold M in Hperm.
    destruct (nbr_total v Hv) as [l0 [Hl0 [Hnd Hcl]]]. rewrite Hhs in Hl0. inversion Hl0; subst l0.
    assert (HMnd : NoDup M) by (apply without_NoDup; exact Hnd).
    assert (HMn : forall w, In w M -> In w names).
    { intros w Hw. apply without_In in Hw. apply (Hcl w). tauto. }
    split.
    2:{ unfold deg. apply Permutation_length. exact Hperm. }
    (* the counts, one per neighbour *)
    set (cnt := fun w => sumf (fun u => lk w u) M).
    assert (Hcounts : counts = map cnt M).
    { apply Forall2_map_eq. apply omapM_Forall2 in Ec.
      eapply Forall2_impl_in; [ | exact Ec]. intros w c Hw _ Hwc. cbn beta in Hwc.
      pose proof (neighbors_of_nodes_lookup teqb teqb_spec g None full w Hfull) as Hlk.
      cbn [requested_names] in Hlk. pose proof (HMn w Hw) as Hwn.
      assert (Hmem : mem_name teqb w (get_all_node_names g) = true) by (apply mIn; exact Hwn).
      rewrite Hmem in Hlk. unfold nset in Hlk.
      destruct (nbr_total w Hwn) as [lw [Hlw [Hwnd Hwcl]]]. rewrite Hlw in Hlk. rewrite Hlk in Hwc.
      inversion Hwc; subst c. clear Hwc.
      rewrite inter_length_comm; [ | apply without_NoDup; exact Hwnd | exact HMnd].
      unfold inter, cnt. rewrite count_sumf. apply sumf_ext_in. intros u Hu.
      unfold lk, linked. rewrite mem_name_memb.
      assert (Hun : In u names) by (apply HMn; exact Hu).
      destruct (memb teqb u (without teqb w lw)) eqn:E1.
      - apply mIn in E1. apply without_In in E1. destruct E1 as [E1 E2].
        assert (Hn : nadj teqb g w u = true).
        { apply nadj_true. split; [exact Hwn | split; [exact Hun | exists lw; tauto] ]. }
        rewrite Hn. assert (Hne : teqb w u = false) by (apply (teqb_false teqb teqb_spec); congruence).
        rewrite Hne. reflexivity.
      - destruct (nadj teqb g w u) eqn:Hn; [ | reflexivity].
        destruct (teqb w u) eqn:Hne; [reflexivity | ]. exfalso.
        apply nadj_true in Hn. destruct Hn as [_ [_ [l1 [Hl1 Hul]]]]. rewrite Hlw in Hl1.
        inversion Hl1; subst l1.
        assert (In u (without teqb w lw)).
        { apply without_In. split; [exact Hul | ]. apply (teqb_false teqb teqb_spec) in Hne. congruence. }
        apply mIn in H. congruence. }
    rewrite fold_left_add. cbn [Nat.add].
    rewrite collect_map_nodup.
    2:{ apply sorted_lt_NoDup. apply (chunk_keys _ (sort_nat_sorted counts)). }
    rewrite chunk_sum, sort_nat_sum, Hcounts, sumf_map_id. unfold cnt.
    (* double sum over M = double sum over the definition's neighbour list *)
    set (D := nbrs teqb names (nadj teqb g) v) in *.
    rewrite (sumf_perm _ M D Hperm).
    rewrite (sumf_ext (fun w => sumf (fun u => lk w u) M) (fun w => sumf (fun u => lk w u) D) D)
      by (intros w; apply sumf_perm; exact Hperm).
    rewrite (pair_double lk D lk_sym lk_diag).
    f_equal. unfold tri. fold D. rewrite count_sumf. apply sumf_ext. intros p. reflexivity.
  Qed.

  Lemma tad_of_inv : forall full v t,
    tad_of teqb g full v = Some t ->
    exists hs, neighbor_name_set teqb g v = Ok hs /\ tad_for_node teqb v hs full = Ok t.
  Proof.
    intros full v t H. unfold tad_of, nset in H.
    destruct (neighbor_name_set teqb g v) as [hs | | | ]; try discriminate.
    exists hs. split; [reflexivity | ].
    destruct (tad_for_node teqb v hs full) as [t' | | | ]; try discriminate.
    inversion H. reflexivity.
  Qed.

  (* every requested node has a record *)
  Lemma requested_has_tad : forall nn tads full v,
    get_triangles_and_degrees teqb g nn = Ok tads ->
    get_neighbors_of_nodes teqb None g = Ok full ->
    In v (requested_names g nn) -> exists t, tad_of teqb g full v = Some t.
  Proof.
    intros nn tads full v H Hfull Hv.
    destruct (tads_spec teqb teqb_spec g nn tads H) as [full' [Hf [H1 H2]]].
    rewrite Hfull in Hf. inversion Hf; subst full'.
    destruct (H2 v Hv) as [t [Ht Hn]]. destruct (H1 t Ht) as [_ Hs]. rewrite Hn in Hs.
    exists t. exact Hs.
  Qed.

  (* triangles(v) = number of triangles through v *)
  Theorem triangles_eq_def : forall nn m v,
    triangles teqb g nn = Ok m ->
    In v (requested_names g nn) -> In v names ->
    lookup teqb v m = Some (tri teqb names (nadj teqb g) v).
  Proof.
    intros nn m v H Hreq Hv. unfold triangles in H.
    destruct (ensure_undirected g); cbn [bind] in H; try discriminate.
    destruct (ensure_not_multi_edges g); cbn [bind] in H; try discriminate.
    destruct (ensure_nodes_exist teqb g nn); cbn [bind] in H; try discriminate.
    destruct (get_triangles_and_degrees teqb g nn) as [tads | | | ] eqn:Et; cbn [bind] in H; try discriminate.
    inversion H; subst m. destruct (tads_full teqb teqb_spec g nn tads Et) as [full Hfull].
    rewrite (tads_map_lookup teqb teqb_spec g nn tads full _ v Et Hfull).
    assert (Hm : mem_name teqb v (requested_names g nn) = true) by (apply mIn; exact Hreq).
    rewrite Hm. destruct (requested_has_tad nn tads full v Et Hfull Hreq) as [t Ht]. rewrite Ht.
    destruct (tad_of_inv full v t Ht) as [hs [Hhs Htad]].
    destruct (tad_for_node_spec full v hs t Hfull Hv Hhs Htad) as [H1 _].
    cbn [option_map]. rewrite H1. f_equal. rewrite Nat.mul_comm.
    change (tri teqb names (nadj teqb g) v * 2 / 2 = tri teqb names (nadj teqb g) v).
    apply Nat.div_mul. discriminate.
  Qed.

  Lemma qn_mul_pred : forall d, 1 <= d ->
    (Cluster.qn d * (Cluster.qn d - 1) == ClusterDef.qn (d * (d - 1)))%Q.
  Proof.
    intros d Hd. unfold Cluster.qn, ClusterDef.qn.
    rewrite Nat2Z.inj_mul, Nat2Z.inj_sub by lia. rewrite inject_Z_mult.
    unfold Z.sub, Qminus. rewrite inject_Z_plus, inject_Z_opp. reflexivity.
  Qed.

  (* clustering(v) = triangles through v over pairs of neighbours (undirected, unweighted) *)
  Theorem clustering_eq_def : forall nn m v,
    directed (sp g) = false ->
    clustering teqb g nn = Ok m ->
    In v (requested_names g nn) -> In v names ->
    exists c, lookup teqb v m = Some c /\ (c == cc teqb names (nadj teqb g) v)%Q.
  Proof.
    intros nn m v Hd H Hreq Hv. unfold clustering in H.
    destruct (ensure_not_multi_edges g); cbn [bind] in H; try discriminate.
    destruct (ensure_nodes_exist teqb g nn); cbn [bind] in H; try discriminate.
    rewrite Hd in H.
    assert (Hfull : exists full, get_neighbors_of_nodes teqb None g = Ok full).
    { unfold clustering_undirected in H.
      destruct (get_triangles_and_degrees teqb g nn) as [tads | | | ] eqn:Et; cbn [bind] in H; try discriminate.
      apply (tads_full teqb teqb_spec g nn tads Et). }
    destruct Hfull as [full Hfull].
    rewrite (clustering_undirected_lookup teqb teqb_spec g nn m full v H Hfull).
    assert (Hm : mem_name teqb v (requested_names g nn) = true) by (apply mIn; exact Hreq).
    rewrite Hm.
    assert (Ht : exists t, tad_of teqb g full v = Some t).
    { unfold clustering_undirected in H.
      destruct (get_triangles_and_degrees teqb g nn) as [tads | | | ] eqn:Et; cbn [bind] in H; try discriminate.
      apply (requested_has_tad nn tads full v Et Hfull Hreq). }
    destruct Ht as [t Ht]. rewrite Ht.
    destruct (tad_of_inv full v t Ht) as [hs [Hhs Htad]].
    destruct (tad_for_node_spec full v hs t Hfull Hv Hhs Htad) as [H1 H2].
    pose proof (tri_le_pairs teqb names (nadj teqb g) v) as Hle.
    unfold cc_val, cc. rewrite H1, H2.
    set (d := deg teqb names (nadj teqb g) v) in *. set (t3 := tri teqb names (nadj teqb g) v) in *.
    destruct (Nat.eqb (2 * t3) 0) eqn:E0.
    - apply Nat.eqb_eq in E0. exists 0%Q. split; [reflexivity | ].
      destruct (Nat.ltb d 2); [reflexivity | ]. rewrite E0. unfold Qdiv. rewrite Qmult_0_l. reflexivity.
    - apply Nat.eqb_neq in E0.
      assert (Hd2 : 2 <= d) by (destruct d as [ | [ | d' ] ]; cbn in Hle; lia).
      assert (Hlt : Nat.ltb d 2 = false) by (apply Nat.ltb_ge; exact Hd2).
      rewrite Hlt. unfold fdiv.
      assert (Hb : (Cluster.qn d * (Cluster.qn d - 1) == ClusterDef.qn (d * (d - 1)))%Q)
        by (apply qn_mul_pred; lia).
      assert (Hnz : Qeq_bool (Cluster.qn d * (Cluster.qn d - 1)) 0 = false).
      { destruct (Qeq_bool (Cluster.qn d * (Cluster.qn d - 1)) 0) eqn:E; [ | reflexivity].
        apply Qeq_bool_eq in E. rewrite Hb in E. unfold ClusterDef.qn, Qeq in E. cbn in E.
        rewrite Z.mul_1_r in E. assert (d * (d - 1) = 0) by lia. nia. }
      rewrite Hnz. cbn [oval]. eexists. split; [reflexivity | ].
      rewrite Qred_correct, Hb. reflexivity.
  Qed.

  (* ---------------- transitivity ---------------- *)
  Lemma insert_absent_T : forall {V} (m : list (T * V)) k v,
    ~ In k (map fst m) -> insert teqb k v m = m ++ [(k, v)].
  Proof.
    intros V. induction m as [ | [k0 v0] t IH ]; intros k v Hk; cbn [insert app]; [reflexivity | ].
    destruct (teqb k k0) eqn:E.
    - apply teqb_spec in E. subst. exfalso. apply Hk. cbn. tauto.
    - rewrite IH; [reflexivity | ]. intros H. apply Hk. cbn. tauto.
  Qed.

  Lemma collect_map_nodup_T : forall {V} (l : list (T * V)),
    NoDup (map fst l) -> collect_map teqb l = l.
  Proof.
    intros V l. unfold collect_map.
    assert (G : forall (l m0 : list (T * V)), NoDup (map fst (m0 ++ l)) ->
              fold_left (fun m kv => insert teqb (fst kv) (snd kv) m) l m0 = m0 ++ l).
    { clear l. induction l as [ | [k v] t IH ]; intros m0 Hnd; cbn [fold_left].
      - rewrite app_nil_r. reflexivity.
      - cbn [fst snd]. rewrite insert_absent_T.
        + rewrite IH; rewrite <- app_assoc; [reflexivity | exact Hnd].
        + rewrite map_app in Hnd. cbn [map fst] in Hnd. apply NoDup_remove_2 in Hnd.
          intros H. apply Hnd. rewrite in_app_iff. tauto. }
    intros H. apply (G l []). exact H.
  Qed.

  (* with node_names = None the records come in node order, one per node *)
  Lemma tads_compose : forall (fullmap : list (T * list T)) l r tads,
    Forall2 (fun n p => (do hs <- neighbor_name_set teqb g n; Ok (n, hs)) = Ok p) l r ->
    Forall2 (fun kv t => tad_for_node teqb (fst kv) (snd kv) fullmap = Ok t) r tads ->
    Forall2 (fun v t => tad_of teqb g fullmap v = Some t) l tads.
  Proof.
    intros fullmap l r tads Ek. revert tads. induction Ek as [ | v p l r Hvp _ IH ]; intros tads H.
    - inversion H. constructor.
    - inversion H as [ | p' t r' ts Hpt Hts ]; subst. constructor; [ | apply IH; exact Hts].
      unfold tad_of, nset.
      destruct (neighbor_name_set teqb g v) as [hs | | | ]; cbn [bind] in Hvp; try discriminate.
      inversion Hvp; subst p. cbn [fst snd] in Hpt. rewrite Hpt. reflexivity.
  Qed.

  Lemma tads_in_order : forall tads full,
    get_triangles_and_degrees teqb g None = Ok tads ->
    get_neighbors_of_nodes teqb None g = Ok full ->
    Forall2 (fun v t => tad_of teqb g full v = Some t) names tads.
  Proof.
    intros tads full H Hfull. unfold get_triangles_and_degrees in H. rewrite Hfull in H. cbn [bind] in H.
    unfold get_neighbors_of_nodes in Hfull. cbn [requested_names] in Hfull. fold names in Hfull.
    destruct (omapM _ names) as [kvs | | | ] eqn:Ek; cbn [bind] in Hfull; try discriminate.
    apply omapM_Forall2 in Ek.
    assert (Hkeys : map fst kvs = names).
    { clear - Ek. induction Ek as [ | v p l r Hvp _ IH ]; cbn [map]; [reflexivity | ]. rewrite IH.
      cbn beta in Hvp. destruct (neighbor_name_set teqb g v); cbn [bind] in Hvp; try discriminate.
      inversion Hvp. reflexivity. }
    rewrite collect_map_nodup_T in Hfull by (rewrite Hkeys; apply names_NoDup).
    inversion Hfull; subst full. clear Hfull. apply omapM_Forall2 in H.
    apply (tads_compose kvs names kvs tads Ek H).
  Qed.

  Lemma sum_over_tads : forall (f : tad -> nat) (h : T -> nat) full tads,
    Forall2 (fun v t => tad_of teqb g full v = Some t) names tads ->
    (forall v t, In v names -> tad_of teqb g full v = Some t -> f t = h v) ->
    sumf f tads = sumf h names.
  Proof.
    intros f h full tads HF Hfh. induction HF as [ | v t l r Hvt _ IH ]; [reflexivity | ].
    unfold sumf in *. cbn [fold_right]. rewrite IH.
    - rewrite (Hfh v t (or_introl eq_refl) Hvt). reflexivity.
    - intros v' t' Hv'. apply Hfh. cbn. tauto.
  Qed.

  Lemma pred_mul_even : forall d, d * (d - 1) = 2 * (d * (d - 1) / 2).
  Proof.
    intros d. assert (H : exists m, d * (d - 1) = 2 * m).
    { induction d as [ | d IH ]; [exists 0; reflexivity | ]. destruct IH as [m Hm].
      destruct d as [ | d' ]; [exists 0; reflexivity | ]. exists (m + S d').
      cbn [Nat.sub] in *. rewrite Nat.sub_0_r in *. nia. }
    destruct H as [m Hm]. rewrite Hm. rewrite (Nat.mul_comm 2 m), Nat.div_mul by discriminate. lia.
  Qed.

  Lemma n_triples_sumf :
    n_triples teqb names (nadj teqb g) =
    sumf (fun v => deg teqb names (nadj teqb g) v * (deg teqb names (nadj teqb g) v - 1) / 2) names.
  Proof. reflexivity. Qed.

  Lemma qn_ratio : forall c a b, c <> 0 -> b <> 0 ->
    (inject_Z (Z.of_nat (c * a)) / inject_Z (Z.of_nat (c * b)) == inject_Z (Z.of_nat a) / inject_Z (Z.of_nat b))%Q.
  Proof.
    intros c a b Hc Hb. rewrite !Nat2Z.inj_mul, !inject_Z_mult.
    assert (Hc' : ~ (inject_Z (Z.of_nat c) == 0)%Q).
    { unfold Qeq. cbn. rewrite Z.mul_1_r. lia. }
    assert (Hb' : ~ (inject_Z (Z.of_nat b) == 0)%Q).
    { unfold Qeq. cbn. rewrite Z.mul_1_r. lia. }
    field. split; assumption.
  Qed.

  (* transitivity = 3 x triangles / connected triples *)
  Theorem transitivity_eq_def : forall q,
    transitivity teqb g = Ok q -> (q == transitivity_def teqb names (nadj teqb g))%Q.
  Proof.
    intros q H. unfold transitivity in H.
    destruct (ensure_undirected g); cbn [bind] in H; try discriminate.
    destruct (ensure_not_multi_edges g); cbn [bind] in H; try discriminate.
    destruct (Nat.eqb (length (get_all_nodes g)) 0) eqn:En.
    - inversion H; subst q. apply Nat.eqb_eq in En.
      assert (Hnil : names = []).
      { unfold names, get_all_node_names. unfold get_all_nodes in En. destruct (nodes_vec g); [reflexivity | discriminate]. }
      unfold transitivity_def, n_triples. rewrite Hnil. cbn. reflexivity.
    - destruct (get_triangles_and_degrees teqb g None) as [tads | | | ] eqn:Et; cbn [bind] in H; try discriminate.
      destruct (tads_full teqb teqb_spec g None tads Et) as [full Hfull].
      pose proof (tads_in_order tads full Et Hfull) as HF.
      assert (Hrec : forall v t, In v names -> tad_of teqb g full v = Some t ->
                t_ntri t = 2 * tri teqb names (nadj teqb g) v /\ t_degree t = deg teqb names (nadj teqb g) v).
      { intros v t Hv Ht. destruct (tad_of_inv full v t Ht) as [hs [Hhs Htad]].
        apply (tad_for_node_spec full v hs t Hfull Hv Hhs Htad). }
      rewrite !fold_left_add in H. cbn [Nat.add] in H.
      rewrite (sum_over_tads (@t_ntri T) (fun v => 2 * tri teqb names (nadj teqb g) v) full tads HF) in H
        by (intros v t Hv Ht; apply (Hrec v t Hv Ht)).
      rewrite (sum_over_tads (fun t => t_degree t * sat_sub (t_degree t) 1)
                 (fun v => deg teqb names (nadj teqb g) v * (deg teqb names (nadj teqb g) v - 1)) full tads HF) in H.
      2:{ intros v t Hv Ht. destruct (Hrec v t Hv Ht) as [_ Hd]. unfold sat_sub. rewrite Hd. reflexivity. }
      set (TT := n_triangles teqb names (nadj teqb g)) in *.
      set (NN := n_triples teqb names (nadj teqb g)) in *.
      assert (Hs1 : sumf (fun v => 2 * tri teqb names (nadj teqb g) v) names = 2 * (3 * TT)).
      { unfold TT. rewrite <- (triangle_sum teqb teqb_spec names (nadj teqb g) nadj_sym). apply sumf_scale. }
      assert (Hs2 : sumf (fun v => deg teqb names (nadj teqb g) v * (deg teqb names (nadj teqb g) v - 1)) names = 2 * NN).
      { unfold NN. rewrite n_triples_sumf, <- sumf_scale. apply sumf_ext. intros v. apply pred_mul_even. }
      assert (Hle : 2 * (3 * TT) <= 2 * NN).
      { rewrite <- Hs1, <- Hs2. apply sumf_le. intros v. apply (tri_le_pairs teqb names (nadj teqb g) v). }
      rewrite Hs1, Hs2 in H. unfold transitivity_def. fold NN TT.
      destruct (Nat.eqb (2 * (3 * TT)) 0) eqn:E0.
      + inversion H; subst q. apply Nat.eqb_eq in E0. assert (TT = 0) by lia.
        destruct (Nat.eqb NN 0); [reflexivity | ]. rewrite H0. unfold Qdiv. rewrite Qmult_0_l. reflexivity.
      + apply Nat.eqb_neq in E0. assert (HN : NN <> 0) by lia.
        assert (Hn0 : Nat.eqb NN 0 = false) by (apply Nat.eqb_neq; exact HN). rewrite Hn0.
        unfold fdiv in H.
        assert (Hnz : Qeq_bool (Cluster.qn (2 * NN)) 0 = false).
        { destruct (Qeq_bool (Cluster.qn (2 * NN)) 0) eqn:Eq; [ | reflexivity].
          apply Qeq_bool_eq in Eq. unfold Cluster.qn, Qeq in Eq. cbn in Eq. lia. }
        rewrite Hnz in H.
        assert (Hq : q = Qred (Cluster.qn (2 * (3 * TT)) / Cluster.qn (2 * NN))%Q) by congruence.
        rewrite Hq. eapply Qeq_trans; [apply Qred_correct | ].
        unfold Cluster.qn, ClusterDef.qn. apply qn_ratio; [discriminate | exact HN].
  Qed.
End ClusterEq.
