(* C11: the MODEL of `generalized_degree` equals the DEFINITION ([gen_degree] of
   Spec/ClusterDef.v: the number of edges at v that lie in exactly k triangles), for every
   graph state passing [nbr_ok_b] (a consequence of WF, Proofs/ClusterWF.v).  The returned
   histogram has duplicate-free keys, an entry (k, c) exactly when c = gen_degree v k <> 0. *)
From Coq Require Import String List Bool Arith ZArith QArith Lia Permutation Sorted.
From GV Require Import Base.Outcome Base.AMap Model.GState Model.Creation Model.Query
     Model.Components Model.Cluster Spec.ReachDef Spec.ClusterDef Spec.ClusterSpec
     Proofs.ReachOk Proofs.ComponentsOk Proofs.ClusterDefOk Proofs.ClusterOk Proofs.ClusterEqOk.
Import ListNotations.
Close Scope Q_scope.

(* ---------------- occurrences in a list of naturals; run-length encoding ---------------- *)
Definition occ (k : nat) (l : list nat) : nat := length (filter (Nat.eqb k) l).

Lemma occ_cons : forall k x l, occ k (x :: l) = (if Nat.eqb k x then 1 else 0) + occ k l.
Proof. intros k x l. unfold occ. cbn [filter]. destruct (Nat.eqb k x); reflexivity. Qed.

Lemma occ_ins : forall k x l, occ k (ins_nat x l) = (if Nat.eqb k x then 1 else 0) + occ k l.
Proof.
  intros k x. induction l as [ | y t IH ]; cbn [ins_nat]; [apply occ_cons | ].
  destruct (Nat.leb x y); [apply occ_cons | ]. rewrite !occ_cons, IH. lia.
Qed.

Lemma occ_sort : forall k l, occ k (sort_nat l) = occ k l.
Proof.
  intros k. induction l as [ | x t IH ]; [reflexivity | ]. cbn [sort_nat fold_right]. fold (sort_nat t).
  rewrite occ_ins, occ_cons, IH. reflexivity.
Qed.

Lemma occ_none : forall k l, (forall z, In z l -> k < z) -> occ k l = 0.
Proof.
  intros k. induction l as [ | x t IH ]; intros H; [reflexivity | ]. rewrite occ_cons, IH.
  - assert (k < x) by (apply H; cbn; tauto). destruct (Nat.eqb k x) eqn:E; [apply Nat.eqb_eq in E; lia | reflexivity].
  - intros z Hz. apply H. cbn. tauto.
Qed.

Lemma chunk_head : forall z t y c r, chunk_by_count (z :: t) = (y, c) :: r -> y = z.
Proof.
  intros z t y c r H. cbn [chunk_by_count] in H.
  destruct (chunk_by_count t) as [ | [y0 c0] r0 ].
  - inversion H. reflexivity.
  - destruct (Nat.eqb z y0) eqn:E; inversion H; subst; [apply Nat.eqb_eq in E; auto | reflexivity].
Qed.

Lemma chunk_nil : forall l, chunk_by_count l = [] -> l = [].
Proof.
  intros [ | x t ] H; [reflexivity | ]. cbn [chunk_by_count] in H.
  destruct (chunk_by_count t) as [ | [y c] r ]; [discriminate | ]. destruct (Nat.eqb x y); discriminate.
Qed.

(* the run-length encoding of a sorted list maps k to its number of occurrences (no entry for 0) *)
Lemma chunk_lookup : forall l k, StronglySorted le l ->
  lookup Nat.eqb k (chunk_by_count l) = if Nat.eqb (occ k l) 0 then None else Some (occ k l).
Proof.
  induction l as [ | x t IH ]; intros k Hs; [reflexivity | ].
  inversion Hs as [ | a b Ht Hx ]; subst. specialize (IH k Ht). rewrite occ_cons.
  cbn [chunk_by_count]. destruct (chunk_by_count t) as [ | [y c] r ] eqn:E.
  - apply chunk_nil in E. subst t. cbn [lookup]. unfold occ. cbn. destruct (Nat.eqb k x); reflexivity.
  - destruct t as [ | z t' ]; [discriminate | ]. pose proof (chunk_head z t' y c r E) as Hy. subst y.
    destruct (Nat.eqb x z) eqn:Exz.
    + apply Nat.eqb_eq in Exz. subst z. cbn [lookup] in IH |- *. destruct (Nat.eqb k x) eqn:Ek.
      * destruct (Nat.eqb (occ k (x :: t')) 0) eqn:E0; [discriminate | ]. inversion IH. reflexivity.
      * cbn [Nat.add]. exact IH.
    + apply Nat.eqb_neq in Exz. cbn [lookup]. destruct (Nat.eqb k x) eqn:Ek.
      * apply Nat.eqb_eq in Ek. subst k. rewrite occ_none; [reflexivity | ].
        rewrite Forall_forall in Hx. intros w Hw.
        assert (x <= z) by (apply Hx; cbn; tauto).
        inversion Ht as [ | a b _ Hz ]; subst. rewrite Forall_forall in Hz.
        destruct Hw as [Hw | Hw]; [subst; lia | specialize (Hz w Hw); lia].
      * cbn [Nat.add]. exact IH.
Qed.

Lemma occ_map : forall {X} (h : X -> nat) k l, occ k (map h l) = length (filter (fun x => Nat.eqb (h x) k) l).
Proof.
  intros X h k l. unfold occ. rewrite filter_map_comm, map_length. f_equal.
  apply filter_ext. intros x. apply Nat.eqb_sym.
Qed.

Lemma filter_length_perm : forall {X} (p : X -> bool) l l',
  Permutation l l' -> length (filter p l) = length (filter p l').
Proof. intros X p l l' H. rewrite !count_sumf. apply sumf_perm. exact H. Qed.

Section ClusterGen.
  Context {T A : Type}.
  Variable teqb : T -> T -> bool.
  Hypothesis teqb_spec : forall x y, teqb x y = true <-> x = y.
  Notation gstate := (gstate T A).
  Let mIn := memb_In teqb teqb_spec.

  Variable g : gstate.
  Hypothesis g_ok : nbr_ok_b teqb g = true.
  Let names := get_all_node_names g.
  Notation lk := (lk teqb g).

  (* the histogram computed for one node *)
  Lemma tad_gdeg_spec : forall full v hs t,
    get_neighbors_of_nodes teqb None g = Ok full ->
    In v names -> neighbor_name_set teqb g v = Ok hs ->
    tad_for_node teqb v hs full = Ok t ->
    NoDup (map fst (t_gdeg t)) /\
    forall k, lookup Nat.eqb k (t_gdeg t) =
              if Nat.eqb (gen_degree teqb names (nadj teqb g) v k) 0 then None
              else Some (gen_degree teqb names (nadj teqb g) v k).
  Proof.
    intros full v hs t Hfull Hv Hhs Ht. unfold tad_for_node in Ht.
    set (M := without teqb v hs) in *.
    destruct (omapM _ M) as [counts | | | ] eqn:Ec; cbn [bind] in Ht; try discriminate.
    inversion Ht; subst t. cbn [t_gdeg]. clear Ht.
    pose proof (nbrs_perm teqb teqb_spec g g_ok v hs Hv Hhs) as Hperm. fold M in Hperm. fold names in Hperm.
    destruct (nbr_total teqb teqb_spec g g_ok v Hv) as [l0 [Hl0 [Hnd Hcl]]]. rewrite Hhs in Hl0. inversion Hl0; subst l0.
    assert (HMnd : NoDup M) by (apply without_NoDup; exact Hnd).
    assert (HMn : forall w, In w M -> In w names).
    { intros w Hw. apply (without_In teqb teqb_spec) in Hw. apply (Hcl w). tauto. }
    set (cnt := fun w => sumf (fun u => lk w u) M).
    assert (Hcounts : counts = map cnt M).
    { apply Forall2_map_eq. apply omapM_Forall2 in Ec.
      eapply Forall2_impl_in; [ | exact Ec]. intros w c Hw _ Hwc. cbn beta in Hwc.
      pose proof (neighbors_of_nodes_lookup teqb teqb_spec g None full w Hfull) as Hlk.
      cbn [requested_names] in Hlk. pose proof (HMn w Hw) as Hwn.
      assert (Hmem : mem_name teqb w (get_all_node_names g) = true) by (apply mIn; exact Hwn).
      rewrite Hmem in Hlk. unfold nset in Hlk.
      destruct (nbr_total teqb teqb_spec g g_ok w Hwn) as [lw [Hlw [Hwnd Hwcl]]]. rewrite Hlw in Hlk. rewrite Hlk in Hwc.
      inversion Hwc; subst c. clear Hwc.
      rewrite (inter_length_comm teqb teqb_spec); [ | apply without_NoDup; exact Hwnd | exact HMnd].
      unfold inter, cnt. rewrite count_sumf. apply sumf_ext_in. intros u Hu.
      unfold ClusterEqOk.lk, linked. rewrite mem_name_memb.
      assert (Hun : In u names) by (apply HMn; exact Hu).
      destruct (memb teqb u (without teqb w lw)) eqn:E1.
      - apply mIn in E1. apply (without_In teqb teqb_spec) in E1. destruct E1 as [E1 E2].
        assert (Hn : nadj teqb g w u = true).
        { apply (nadj_true teqb teqb_spec). split; [exact Hwn | split; [exact Hun | exists lw; tauto] ]. }
        rewrite Hn. assert (Hne : teqb w u = false) by (apply (teqb_false teqb teqb_spec); congruence).
        rewrite Hne. reflexivity.
      - destruct (nadj teqb g w u) eqn:Hn; [ | reflexivity].
        destruct (teqb w u) eqn:Hne; [reflexivity | ]. exfalso.
        apply (nadj_true teqb teqb_spec) in Hn. destruct Hn as [_ [_ [l1 [Hl1 Hul]]]]. rewrite Hlw in Hl1.
        inversion Hl1; subst l1.
        assert (In u (without teqb w lw)).
        { apply (without_In teqb teqb_spec). split; [exact Hul | ]. apply (teqb_false teqb teqb_spec) in Hne. congruence. }
        apply mIn in H. congruence. }
    pose proof (chunk_keys _ (sort_nat_sorted counts)) as [Hk1 _].
    rewrite collect_map_nodup by (apply sorted_lt_NoDup; exact Hk1).
    split; [apply sorted_lt_NoDup; exact Hk1 | ].
    intros k. rewrite (chunk_lookup _ k (sort_nat_sorted counts)), occ_sort, Hcounts, occ_map.
    set (D := nbrs teqb names (nadj teqb g) v) in *.
    assert (Hcnt : forall w, cnt w = edge_triangles teqb names (nadj teqb g) v w).
    { intros w. unfold cnt, edge_triangles. fold D. rewrite count_sumf.
      rewrite (sumf_perm _ M D Hperm). apply sumf_ext. intros u. reflexivity. }
    assert (Hgd : length (filter (fun x => Nat.eqb (cnt x) k) M) = gen_degree teqb names (nadj teqb g) v k).
    { unfold gen_degree. fold D. rewrite (filter_length_perm _ M D Hperm). f_equal.
      apply filter_ext. intros w. rewrite Hcnt. reflexivity. }
    rewrite Hgd. reflexivity.
  Qed.

  (* generalized_degree(v): the histogram k |-> number of edges at v lying in exactly k triangles *)
  Theorem generalized_degree_eq_def : forall nn m v,
    generalized_degree teqb g nn = Ok m ->
    In v (requested_names g nn) -> In v names ->
    exists h, lookup teqb v m = Some h /\ NoDup (map fst h) /\
      forall k, lookup Nat.eqb k h =
                if Nat.eqb (gen_degree teqb names (nadj teqb g) v k) 0 then None
                else Some (gen_degree teqb names (nadj teqb g) v k).
  Proof.
    intros nn m v H Hreq Hv. unfold generalized_degree in H.
    destruct (ensure_undirected g); cbn [bind] in H; try discriminate.
    destruct (ensure_not_multi_edges g); cbn [bind] in H; try discriminate.
    destruct (ensure_nodes_exist teqb g nn); cbn [bind] in H; try discriminate.
    destruct (get_triangles_and_degrees teqb g nn) as [tads | | | ] eqn:Et; cbn [bind] in H; try discriminate.
    inversion H; subst m. destruct (tads_full teqb teqb_spec g nn tads Et) as [full Hfull].
    rewrite (tads_map_lookup teqb teqb_spec g nn tads full _ v Et Hfull).
    assert (Hm : mem_name teqb v (requested_names g nn) = true) by (apply mIn; exact Hreq).
    rewrite Hm. destruct (requested_has_tad teqb teqb_spec g nn tads full v Et Hfull Hreq) as [t Ht]. rewrite Ht.
    destruct (tad_of_inv teqb g full v t Ht) as [hs [Hhs Htad]].
    destruct (tad_gdeg_spec full v hs t Hfull Hv Hhs Htad) as [H1 H2].
    cbn [option_map]. exists (t_gdeg t). auto.
  Qed.
End ClusterGen.
