(* C11, facts about the MODEL of Model/Cluster.v and Model/Square.v (unbounded):
   refusals, and subset consistency - each per-node value is a function of the
   node alone, so restricting node_names restricts the result map. *)
From Coq Require Import String List Bool Arith ZArith QArith Lia.
From GV Require Import Base.Outcome Base.AMap Model.GState Model.Creation Model.Query
     Model.Components Model.Cluster Model.Square.
Import ListNotations.
Close Scope Q_scope.

Section ClusterOk.
  Context {T A : Type}.
  Variable teqb : T -> T -> bool.
  Hypothesis teqb_spec : forall x y, teqb x y = true <-> x = y.
  Notation gstate := (gstate T A).

  Lemma teqb_refl' : forall x, teqb x x = true.
  Proof. intros x. apply teqb_spec. reflexivity. Qed.

  Lemma mem_name_In' : forall x l, mem_name teqb x l = true <-> In x l.
  Proof.
    intros x l. unfold mem_name. rewrite existsb_exists. split.
    - intros [y [Hy He]]. apply teqb_spec in He. subst. exact Hy.
    - intros H. exists x. split; [exact H | apply teqb_refl'].
  Qed.

  (* ---------------- association lists ---------------- *)
  Section Maps.
    Context {V : Type}.

    Lemma lookup_insert : forall (m : list (T * V)) k k' v,
      lookup teqb k (insert teqb k' v m) = if teqb k k' then Some v else lookup teqb k m.
    Proof.
      induction m as [ | [k0 v0] t IH ]; intros k k' v; cbn [insert lookup].
      - reflexivity.
      - destruct (teqb k' k0) eqn:E0.
        + apply teqb_spec in E0. subst k0. cbn [lookup]. destruct (teqb k k'); reflexivity.
        + cbn [lookup]. destruct (teqb k k0) eqn:E1.
          * apply teqb_spec in E1. subst k0. destruct (teqb k k') eqn:E2; [ | reflexivity].
            apply teqb_spec in E2. subst k'. rewrite teqb_refl' in E0. discriminate.
          * apply IH.
    Qed.

    (* a map collected from pairs whose value is a function of the key *)
    Lemma lookup_fold_insert : forall (F : T -> option V) (l m0 : list (T * V)) k,
      (forall p, In p l -> F (fst p) = Some (snd p)) ->
      (forall k0, lookup teqb k0 m0 = None \/ lookup teqb k0 m0 = F k0) ->
      lookup teqb k (fold_left (fun m kv => insert teqb (fst kv) (snd kv) m) l m0) =
      if mem_name teqb k (map fst l) then F k else lookup teqb k m0.
    Proof.
      intros F. induction l as [ | [k1 v1] t IH ]; intros m0 k Hl Hm; cbn [fold_left map mem_name existsb].
      - reflexivity.
      - cbn [fst snd]. rewrite IH.
        + fold (mem_name teqb k (map fst t)). destruct (mem_name teqb k (map fst t)) eqn:E1.
          * rewrite orb_true_r. reflexivity.
          * rewrite orb_false_r. rewrite lookup_insert. destruct (teqb k k1) eqn:E2; [ | reflexivity].
            apply teqb_spec in E2. subst k1. symmetry. apply (Hl (k, v1)). cbn. tauto.
        + intros p Hp. apply Hl. cbn. tauto.
        + intros k0. rewrite lookup_insert. destruct (teqb k0 k1) eqn:E.
          * apply teqb_spec in E. subst k1. right. symmetry. apply (Hl (k0, v1)). cbn. tauto.
          * apply Hm.
    Qed.

    Lemma lookup_collect_map : forall (F : T -> option V) (l : list (T * V)) k,
      (forall p, In p l -> F (fst p) = Some (snd p)) ->
      lookup teqb k (collect_map teqb l) = if mem_name teqb k (map fst l) then F k else None.
    Proof.
      intros F l k Hl. unfold collect_map. rewrite (lookup_fold_insert F l [] k Hl).
      - reflexivity.
      - intros k0. left. reflexivity.
    Qed.

    Lemma In_insert : forall (m : list (T * V)) k v p, In p (insert teqb k v m) -> p = (k, v) \/ In p m.
    Proof.
      induction m as [ | [k0 v0] t IH ]; intros k v p H; cbn [insert] in H.
      - destruct H as [H | []]. left. symmetry. exact H.
      - destruct (teqb k k0) eqn:E.
        + apply teqb_spec in E. subst k0. destruct H as [H | H]; [left; symmetry; exact H | right; right; exact H].
        + destruct H as [H | H]; [right; left; exact H | ].
          destruct (IH _ _ _ H) as [H1 | H1]; [left; exact H1 | right; right; exact H1].
    Qed.

    Lemma In_collect_map : forall (l : list (T * V)) p, In p (collect_map teqb l) -> In p l.
    Proof.
      intros l p. unfold collect_map.
      assert (G : forall l m0, In p (fold_left (fun m kv => insert teqb (fst kv) (snd kv) m) l m0) ->
                               In p m0 \/ In p l).
      { clear l. induction l as [ | [k1 v1] t IH ]; intros m0 H; cbn [fold_left] in H.
        - left. exact H.
        - destruct (IH _ H) as [H1 | H1].
          + cbn [fst snd] in H1. destruct (In_insert _ _ _ _ H1) as [H2 | H2].
            * right. left. symmetry. exact H2.
            * left. exact H2.
          + right. right. exact H1. }
      intros H. destruct (G l [] H) as [[] | H1]. exact H1.
    Qed.

    Lemma lookup_In : forall (m : list (T * V)) k v, lookup teqb k m = Some v -> In (k, v) m.
    Proof.
      induction m as [ | [k0 v0] t IH ]; intros k v H; cbn [lookup] in H; [discriminate | ].
      destruct (teqb k k0) eqn:E.
      - apply teqb_spec in E. subst. inversion H. left. reflexivity.
      - right. apply IH. exact H.
    Qed.
  End Maps.

  (* ---------------- omapM ---------------- *)
  Lemma omapM_Forall2 : forall {X Y} (f : X -> outcome Y) l r,
    omapM f l = Ok r -> Forall2 (fun x y => f x = Ok y) l r.
  Proof.
    intros X Y f. induction l as [ | x t IH ]; intros r H; cbn [omapM] in H.
    - inversion H. constructor.
    - destruct (f x) as [y | | | ] eqn:Hf; cbn [bind] in H; try discriminate.
      destruct (omapM f t) as [ys | | | ] eqn:Ht; cbn [bind] in H; try discriminate.
      inversion H. constructor; [exact Hf | apply IH; reflexivity].
  Qed.

  Lemma Forall2_In_l : forall {X Y} (R : X -> Y -> Prop) l r x,
    Forall2 R l r -> In x l -> exists y, In y r /\ R x y.
  Proof.
    intros X Y R l r x H. induction H as [ | a b l r Hab _ IH ]; intros Hx; [destruct Hx | ].
    destruct Hx as [Hx | Hx].
    - subst. exists b. cbn. tauto.
    - destruct (IH Hx) as [y [Hy Hr]]. exists y. cbn. tauto.
  Qed.

  Lemma Forall2_In_r : forall {X Y} (R : X -> Y -> Prop) l r y,
    Forall2 R l r -> In y r -> exists x, In x l /\ R x y.
  Proof.
    intros X Y R l r y H. induction H as [ | a b l r Hab _ IH ]; intros Hy; [destruct Hy | ].
    destruct Hy as [Hy | Hy].
    - subst. exists a. cbn. tauto.
    - destruct (IH Hy) as [x [Hx Hr]]. exists x. cbn. tauto.
  Qed.

  (* a keyed map built by omapM over a list of keys, then collected *)
  Lemma keyed_map_lookup : forall {V} (f : T -> outcome (T * V)) (F : T -> option V) keys kvs k,
    omapM f keys = Ok kvs ->
    (forall n p, f n = Ok p -> fst p = n /\ F n = Some (snd p)) ->
    lookup teqb k (collect_map teqb kvs) = if mem_name teqb k keys then F k else None.
  Proof.
    intros V f F keys kvs k H Hf. apply omapM_Forall2 in H.
    rewrite (lookup_collect_map F kvs k).
    - assert (Hk : map fst kvs = keys).
      { induction H as [ | n p l r Hnp _ IH ]; cbn [map]; [reflexivity | ].
        rewrite IH. destruct (Hf n p Hnp) as [H1 _]. rewrite H1. reflexivity. }
      rewrite Hk. reflexivity.
    - intros p Hp. destruct (Forall2_In_r _ _ _ _ H Hp) as [n [_ Hnp]].
      destruct (Hf n p Hnp) as [H1 H2]. rewrite H1. exact H2.
  Qed.

  (* ---------------- refusals ---------------- *)
  Theorem refuses_multi : forall (g : gstate) nn cz,
    multi (sp g) = true ->
    triangles teqb g nn = Err WrongMethod /\
    generalized_degree teqb g nn = Err WrongMethod /\
    transitivity teqb g = Err WrongMethod /\
    clustering teqb g nn = Err WrongMethod /\
    average_clustering teqb g nn cz = Err WrongMethod.
  Proof.
    intros g nn cz Hm.
    unfold triangles, generalized_degree, transitivity, average_clustering, clustering,
      ensure_undirected, ensure_not_multi_edges.
    rewrite Hm. destruct (directed (sp g)); cbn; auto.
  Qed.

  Theorem refuses_directed : forall (g : gstate) nn,
    directed (sp g) = true ->
    triangles teqb g nn = Err WrongMethod /\
    generalized_degree teqb g nn = Err WrongMethod /\
    transitivity teqb g = Err WrongMethod.
  Proof.
    intros g nn Hd. unfold triangles, generalized_degree, transitivity, ensure_undirected.
    rewrite Hd. cbn. auto.
  Qed.

  (* ---------------- subset consistency ---------------- *)
  (* neighbour set of one node, as an option *)
  Definition nset (g : gstate) (n : T) : option (list T) :=
    match neighbor_name_set teqb g n with Ok hs => Some hs | _ => None end.

  Lemma neighbors_of_nodes_lookup : forall (g : gstate) nn m k,
    get_neighbors_of_nodes teqb nn g = Ok m ->
    lookup teqb k m = if mem_name teqb k (requested_names g nn) then nset g k else None.
  Proof.
    intros g nn m k H. unfold get_neighbors_of_nodes in H.
    destruct (omapM _ (requested_names g nn)) as [kvs | | | ] eqn:Hk; cbn [bind] in H; try discriminate.
    inversion H; subst m. eapply keyed_map_lookup; [exact Hk | ].
    intros n p Hp. unfold nset. cbn beta in Hp.
    destruct (neighbor_name_set teqb g n) as [hs | | | ] eqn:E; cbn [bind] in Hp; try discriminate.
    inversion Hp. cbn. auto.
  Qed.

  Lemma neighbors_of_nodes_entries : forall (g : gstate) nn m k hs,
    get_neighbors_of_nodes teqb nn g = Ok m -> In (k, hs) m ->
    In k (requested_names g nn) /\ nset g k = Some hs.
  Proof.
    intros g nn m k hs H Hin. unfold get_neighbors_of_nodes in H.
    destruct (omapM _ (requested_names g nn)) as [kvs | | | ] eqn:Hk; cbn [bind] in H; try discriminate.
    inversion H; subst m. apply In_collect_map in Hin. apply omapM_Forall2 in Hk.
    destruct (Forall2_In_r _ _ _ _ Hk Hin) as [n [Hn Hp]].
    unfold nset. destruct (neighbor_name_set teqb g n) eqn:E; cbn [bind] in Hp; try discriminate.
    inversion Hp; subst. rewrite E. auto.
  Qed.

  (* the per-node record as a function of the node (given the lookup map of all nodes) *)
  Definition tad_of (g : gstate) (full : list (T * list T)) (v : T) : option tad :=
    match nset g v with
    | Some hs => match tad_for_node teqb v hs full with Ok t => Some t | _ => None end
    | None => None
    end.

  Lemma tad_for_node_name : forall n hs full t, tad_for_node teqb n hs full = Ok t -> t_name t = n.
  Proof.
    intros n hs full t H. unfold tad_for_node in H.
    destruct (omapM _ (without teqb n hs)); cbn [bind] in H; try discriminate.
    inversion H. reflexivity.
  Qed.

  Lemma tads_spec : forall (g : gstate) nn tads,
    get_triangles_and_degrees teqb g nn = Ok tads ->
    exists full, get_neighbors_of_nodes teqb None g = Ok full /\
      (forall t, In t tads -> In (t_name t) (requested_names g nn) /\ tad_of g full (t_name t) = Some t) /\
      (forall v, In v (requested_names g nn) -> exists t, In t tads /\ t_name t = v).
  Proof.
    intros g nn tads H. unfold get_triangles_and_degrees in H.
    destruct (get_neighbors_of_nodes teqb None g) as [full | | | ] eqn:Hf; cbn [bind] in H; try discriminate.
    destruct (get_neighbors_of_nodes teqb nn g) as [req | | | ] eqn:Hr; cbn [bind] in H; try discriminate.
    exists full. split; [reflexivity | ]. apply omapM_Forall2 in H. split.
    - intros t Ht. destruct (Forall2_In_r _ _ _ _ H Ht) as [[k hs] [Hin Hp]]. cbn [fst snd] in Hp.
      destruct (neighbors_of_nodes_entries g nn req k hs Hr Hin) as [Hk Hs].
      rewrite (tad_for_node_name _ _ _ _ Hp). split; [exact Hk | ].
      unfold tad_of. rewrite Hs, Hp. reflexivity.
    - intros v Hv. pose proof (neighbors_of_nodes_lookup g nn req v Hr) as Hl.
      apply mem_name_In' in Hv. rewrite Hv in Hl.
      (* v is requested: some entry of req has key v *)
      assert (He : exists hs, In (v, hs) req).
      { unfold get_neighbors_of_nodes in Hr.
        destruct (omapM _ (requested_names g nn)) as [kvs | | | ] eqn:Hk; cbn [bind] in Hr; try discriminate.
        inversion Hr; subst req. apply omapM_Forall2 in Hk. apply mem_name_In' in Hv.
        destruct (Forall2_In_l _ _ _ _ Hk Hv) as [p [_ Hp]].
        destruct (neighbor_name_set teqb g v) as [hs | | | ] eqn:E; cbn [bind] in Hp; try discriminate.
        unfold nset in Hl. rewrite E in Hl. exists hs. apply lookup_In. exact Hl. }
      destruct He as [hs Hin]. destruct (Forall2_In_l _ _ _ _ H Hin) as [t [Ht Hp]]. cbn [fst snd] in Hp.
      exists t. split; [exact Ht | ]. apply (tad_for_node_name _ _ _ _ Hp).
  Qed.

  (* a result map built from the per-node records by a total projection *)
  Lemma tads_map_lookup : forall {V} (g : gstate) nn tads full (val : tad -> V) k,
    get_triangles_and_degrees teqb g nn = Ok tads ->
    get_neighbors_of_nodes teqb None g = Ok full ->
    lookup teqb k (collect_map teqb (map (fun t => (t_name t, val t)) tads)) =
    if mem_name teqb k (requested_names g nn) then option_map val (tad_of g full k) else None.
  Proof.
    intros V g nn tads full val k H Hfull. destruct (tads_spec g nn tads H) as [full' [Hf [H1 H2]]].
    rewrite Hfull in Hf. inversion Hf; subst full'. clear Hf.
    rewrite (lookup_collect_map (fun v => option_map val (tad_of g full v))).
    - rewrite map_map. cbn [fst].
      destruct (mem_name teqb k (requested_names g nn)) eqn:E.
      + apply mem_name_In' in E. destruct (H2 k E) as [t [Ht Hn]].
        assert (Hm : mem_name teqb k (map (fun t => t_name t) tads) = true).
        { apply mem_name_In'. apply in_map_iff. exists t. auto. }
        rewrite Hm. reflexivity.
      + destruct (mem_name teqb k (map (fun t => t_name t) tads)) eqn:Hm; [ | reflexivity].
        apply mem_name_In' in Hm. apply in_map_iff in Hm. destruct Hm as [t [Hn Ht]].
        destruct (H1 t Ht) as [Hr _]. rewrite Hn in Hr. apply mem_name_In' in Hr. congruence.
    - intros p Hp. apply in_map_iff in Hp. destruct Hp as [t [Hp Ht]]. subst p. cbn [fst snd].
      destruct (H1 t Ht) as [_ Hs]. rewrite Hs. reflexivity.
  Qed.

  Lemma tads_full : forall (g : gstate) nn tads,
    get_triangles_and_degrees teqb g nn = Ok tads ->
    exists full, get_neighbors_of_nodes teqb None g = Ok full.
  Proof.
    intros g nn tads H. destruct (tads_spec g nn tads H) as [full [Hf _]]. exists full. exact Hf.
  Qed.

  Lemma requested_some : forall (g : gstate) S, S <> [] -> requested_names g (Some S) = S.
  Proof. intros g S H. destruct S; [congruence | reflexivity]. Qed.

  (* generic consequence: two lookups given by the same per-node function agree
     on requested nodes of the graph, and nothing else is returned *)
  Definition restricts {V} (g : gstate) (S : list T) (mS mA : list (T * V)) : Prop :=
    forall v, (In v S -> In v (get_all_node_names g) -> lookup teqb v mS = lookup teqb v mA) /\
              (~ In v S -> lookup teqb v mS = None).

  Lemma subset_from_lookup : forall {V} (g : gstate) (S : list T) (mS mA : list (T * V)) (F : T -> option V),
    (forall k, lookup teqb k mS = if mem_name teqb k S then F k else None) ->
    (forall k, lookup teqb k mA = if mem_name teqb k (get_all_node_names g) then F k else None) ->
    restricts g S mS mA.
  Proof.
    intros V g S mS mA F H1 H2 v. split.
    - intros Hv Hn. rewrite H1, H2. apply mem_name_In' in Hv. apply mem_name_In' in Hn.
      rewrite Hv, Hn. reflexivity.
    - intros Hv. rewrite H1. destruct (mem_name teqb v S) eqn:E; [ | reflexivity].
      apply mem_name_In' in E. contradiction.
  Qed.

  Theorem triangles_subset : forall (g : gstate) S mS mA,
    S <> [] -> triangles teqb g (Some S) = Ok mS -> triangles teqb g None = Ok mA ->
    restricts g S mS mA.
  Proof.
    intros g S mS mA HS H1 H2. unfold triangles in H1, H2.
    destruct (ensure_undirected g); cbn [bind] in H1, H2; try discriminate.
    destruct (ensure_not_multi_edges g); cbn [bind] in H1, H2; try discriminate.
    destruct (ensure_nodes_exist teqb g (Some S)); cbn [bind] in H1; try discriminate.
    cbn [ensure_nodes_exist bind] in H2.
    destruct (get_triangles_and_degrees teqb g (Some S)) as [tS | | | ] eqn:ES; cbn [bind] in H1; try discriminate.
    destruct (get_triangles_and_degrees teqb g None) as [tA | | | ] eqn:EA; cbn [bind] in H2; try discriminate.
    inversion H1; subst mS. inversion H2; subst mA.
    destruct (tads_full g None tA EA) as [full Hfull].
    apply (subset_from_lookup g S _ _ (fun v => option_map (fun t => t_ntri t / 2) (tad_of g full v))).
    - intros k. rewrite (tads_map_lookup g (Some S) tS full _ k ES Hfull), (requested_some g S HS). reflexivity.
    - intros k. rewrite (tads_map_lookup g None tA full _ k EA Hfull). reflexivity.
  Qed.

  Theorem generalized_degree_subset : forall (g : gstate) S mS mA,
    S <> [] -> generalized_degree teqb g (Some S) = Ok mS -> generalized_degree teqb g None = Ok mA ->
    restricts g S mS mA.
  Proof.
    intros g S mS mA HS H1 H2. unfold generalized_degree in H1, H2.
    destruct (ensure_undirected g); cbn [bind] in H1, H2; try discriminate.
    destruct (ensure_not_multi_edges g); cbn [bind] in H1, H2; try discriminate.
    destruct (ensure_nodes_exist teqb g (Some S)); cbn [bind] in H1; try discriminate.
    cbn [ensure_nodes_exist bind] in H2.
    destruct (get_triangles_and_degrees teqb g (Some S)) as [tS | | | ] eqn:ES; cbn [bind] in H1; try discriminate.
    destruct (get_triangles_and_degrees teqb g None) as [tA | | | ] eqn:EA; cbn [bind] in H2; try discriminate.
    inversion H1; subst mS. inversion H2; subst mA.
    destruct (tads_full g None tA EA) as [full Hfull].
    apply (subset_from_lookup g S _ _ (fun v => option_map (fun t => t_gdeg t) (tad_of g full v))).
    - intros k. rewrite (tads_map_lookup g (Some S) tS full _ k ES Hfull), (requested_some g S HS). reflexivity.
    - intros k. rewrite (tads_map_lookup g None tA full _ k EA Hfull). reflexivity.
  Qed.

  (* ---- clustering (undirected form) ---- *)
  Lemma omapM_ext : forall {X Y} (f1 f2 : X -> outcome Y) l,
    (forall x, f1 x = f2 x) -> omapM f1 l = omapM f2 l.
  Proof.
    intros X Y f1 f2 l H. induction l as [ | x t IH ]; cbn [omapM]; [reflexivity | ].
    rewrite H, IH. reflexivity.
  Qed.

  Lemma omapM_compose : forall {X Y Z} (f : X -> outcome Y) (h : Y -> outcome Z) l r s,
    omapM f l = Ok r -> omapM h r = Ok s -> omapM (fun x => do y <- f x; h y) l = Ok s.
  Proof.
    intros X Y Z f h. induction l as [ | x t IH ]; intros r s H1 H2; cbn [omapM] in *.
    - inversion H1; subst r. cbn [omapM] in H2. exact H2.
    - destruct (f x) as [y | | | ] eqn:Hf; cbn [bind] in H1; try discriminate.
      destruct (omapM f t) as [ys | | | ] eqn:Ht; cbn [bind] in H1; try discriminate.
      inversion H1; subst r. cbn [omapM] in H2.
      destruct (h y) as [z | | | ] eqn:Hh; cbn [bind] in H2; try discriminate.
      destruct (omapM h ys) as [zs | | | ] eqn:Hz; cbn [bind] in H2; try discriminate.
      inversion H2; subst s. cbn [bind]. rewrite Hh. cbn [bind]. rewrite (IH ys zs eq_refl Hz).
      reflexivity.
  Qed.

  Definition oval {V} (o : outcome V) : option V := match o with Ok v => Some v | _ => None end.

  Lemma keys_of_omap : forall {V} (val : tad -> outcome V) (tads : list tad) (kvs : list (T * V)),
    Forall2 (fun t p => (do c <- val t; Ok (t_name t, c)) = Ok p) tads kvs ->
    map fst kvs = map (fun t => t_name t) tads.
  Proof.
    intros V val tads kvs Hk. induction Hk as [ | t p l r Htp _ IH ]; cbn [map]; [reflexivity | ].
    rewrite IH. destruct (val t); cbn [bind] in Htp; try discriminate.
    inversion Htp. reflexivity.
  Qed.

  Lemma tads_omap_lookup : forall {V} (val : tad -> outcome V) (g : gstate) nn tads full kvs k,
    get_triangles_and_degrees teqb g nn = Ok tads ->
    get_neighbors_of_nodes teqb None g = Ok full ->
    omapM (fun t => do c <- val t; Ok (t_name t, c)) tads = Ok kvs ->
    lookup teqb k (collect_map teqb kvs) =
    if mem_name teqb k (requested_names g nn)
    then match tad_of g full k with Some t => oval (val t) | None => None end else None.
  Proof.
    intros V val g nn tads full kvs k H Hfull Hk.
    destruct (tads_spec g nn tads H) as [full' [Hf [H1 H2]]].
    rewrite Hfull in Hf. inversion Hf; subst full'. clear Hf.
    apply omapM_Forall2 in Hk.
    pose proof (keys_of_omap val tads kvs Hk) as Hkeys.
    rewrite (lookup_collect_map
               (fun v => match tad_of g full v with Some t => oval (val t) | None => None end)).
    - rewrite Hkeys. destruct (mem_name teqb k (requested_names g nn)) eqn:E.
      + apply mem_name_In' in E. destruct (H2 k E) as [t [Ht Hn]].
        assert (Hm : mem_name teqb k (map (fun t => t_name t) tads) = true).
        { apply mem_name_In'. apply in_map_iff. exists t. auto. }
        rewrite Hm. reflexivity.
      + destruct (mem_name teqb k (map (fun t => t_name t) tads)) eqn:Hm; [ | reflexivity].
        apply mem_name_In' in Hm. apply in_map_iff in Hm. destruct Hm as [t [Hn Ht]].
        destruct (H1 t Ht) as [Hr _]. rewrite Hn in Hr. apply mem_name_In' in Hr. congruence.
    - intros p Hp. destruct (Forall2_In_r _ _ _ _ Hk Hp) as [t [Ht Htp]]. cbn beta in Htp.
      destruct (val t) as [c | | | ] eqn:Hv; cbn [bind] in Htp; try discriminate.
      inversion Htp; subst p. cbn [fst snd]. destruct (H1 t Ht) as [_ Hs]. rewrite Hs, Hv. reflexivity.
  Qed.

  Definition cc_val (t : @tad T) : outcome Q :=
    if Nat.eqb (t_ntri t) 0 then Ok 0%Q
    else fdiv "mod.rs:clustering inf" (qn (t_ntri t)) (qn (t_degree t) * (qn (t_degree t) - 1))%Q.

  Lemma clustering_undirected_lookup : forall (g : gstate) nn m full k,
    clustering_undirected teqb g nn = Ok m ->
    get_neighbors_of_nodes teqb None g = Ok full ->
    lookup teqb k m =
    if mem_name teqb k (requested_names g nn)
    then match tad_of g full k with Some t => oval (cc_val t) | None => None end else None.
  Proof.
    intros g nn m full k H Hfull. unfold clustering_undirected in H.
    destruct (get_triangles_and_degrees teqb g nn) as [tads | | | ] eqn:Et; cbn [bind] in H; try discriminate.
    rewrite (omapM_ext _ (fun t => do c <- cc_val t; Ok (t_name t, c))) in H.
    2:{ intros t. unfold cc_val. destruct (Nat.eqb (t_ntri t) 0); reflexivity. }
    destruct (omapM _ tads) as [kvs | | | ] eqn:Ek; cbn [bind] in H; try discriminate.
    inversion H; subst m. eapply tads_omap_lookup; eassumption.
  Qed.

  (* ---- per-node maps over the requested list: directed clustering and square clustering ---- *)
  Definition names_of (g : gstate) (nn : option (list T)) : list T :=
    match nn with None => get_all_node_names g | Some l => l end.

  Definition dcc_val (d : @dtad T) : outcome (T * Q) :=
    if Nat.eqb (d_tri d) 0 then Ok (d_name d, 0%Q) else
    do c <- fdiv "mod.rs:directed clustering inf" (qn (d_tri d))
                 ((qn (d_total d) * (qn (d_total d) - 1) - 2 * qn (d_recip d)) * 2)%Q;
    Ok (d_name d, c).

  Lemma dtad_name : forall (g : gstate) i d, dtad_for_node teqb g i = Ok d -> d_name d = i.
  Proof.
    intros g i d H. unfold dtad_for_node in H.
    destruct (adjacent_without teqb g i true); cbn [bind] in H; try discriminate.
    destruct (adjacent_without teqb g i false); cbn [bind] in H; try discriminate.
    destruct (omapM _ _); cbn [bind] in H; try discriminate.
    inversion H. reflexivity.
  Qed.

  Lemma clustering_directed_lookup : forall (g : gstate) nn m k,
    clustering_directed teqb g nn = Ok m ->
    lookup teqb k m =
    if mem_name teqb k (names_of g nn)
    then option_map snd (oval (do d <- dtad_for_node teqb g k; dcc_val d)) else None.
  Proof.
    intros g nn m k H. unfold clustering_directed, get_directed_triangles_and_degrees in H.
    fold (names_of g nn) in H.
    destruct (omapM (dtad_for_node teqb g) (names_of g nn)) as [ds | | | ] eqn:Ed; cbn [bind] in H;
      try discriminate.
    destruct (omapM _ ds) as [kvs | | | ] eqn:Ek; cbn [bind] in H; try discriminate.
    inversion H; subst m.
    pose proof (omapM_compose _ _ _ _ _ Ed Ek) as Hc.
    eapply (keyed_map_lookup _ (fun k => option_map snd (oval (do d <- dtad_for_node teqb g k; dcc_val d))));
      [exact Hc | ].
    intros n p Hp. cbn beta in Hp. unfold dcc_val.
    destruct (dtad_for_node teqb g n) as [d | | | ] eqn:En; cbn [bind] in Hp |- *; try discriminate.
    rewrite <- (dtad_name g n d En).
    destruct (Nat.eqb (d_tri d) 0).
    - inversion Hp. cbn. auto.
    - destruct (fdiv _ _ _); cbn [bind] in Hp |- *; try discriminate. inversion Hp. cbn. auto.
  Qed.

  Lemma coefficient_name : forall (g : gstate) v p, coefficient_for_node teqb g v = Ok p -> fst p = v.
  Proof.
    intros g v p H. unfold coefficient_for_node in H.
    destruct (get_successors_or_neighbors teqb g v); cbn [bind] in H; try discriminate.
    destruct (omapM _ _); cbn [bind] in H; try discriminate.
    destruct (Z.ltb 0 _); inversion H; reflexivity.
  Qed.

  Lemma square_lookup : forall (g : gstate) nn m k,
    square_clustering teqb g nn = Ok m ->
    lookup teqb k m =
    if mem_name teqb k (names_of g nn) then option_map snd (oval (coefficient_for_node teqb g k)) else None.
  Proof.
    intros g nn m k H. unfold square_clustering in H. fold (names_of g nn) in H.
    destruct (omapM (coefficient_for_node teqb g) (names_of g nn)) as [kvs | | | ] eqn:Ek; cbn [bind] in H;
      try discriminate.
    inversion H; subst m.
    eapply (keyed_map_lookup _ (fun k => option_map snd (oval (coefficient_for_node teqb g k)))); [exact Ek | ].
    intros n p Hp. rewrite Hp. cbn. split; [apply (coefficient_name g n p Hp) | reflexivity].
  Qed.

  Theorem square_subset : forall (g : gstate) S mS mA,
    square_clustering teqb g (Some S) = Ok mS -> square_clustering teqb g None = Ok mA ->
    restricts g S mS mA.
  Proof.
    intros g S mS mA H1 H2.
    apply (subset_from_lookup g S _ _ (fun k => option_map snd (oval (coefficient_for_node teqb g k)))).
    - intros k. apply (square_lookup g (Some S) mS k H1).
    - intros k. apply (square_lookup g None mA k H2).
  Qed.

  Theorem clustering_subset : forall (g : gstate) S mS mA,
    S <> [] -> clustering teqb g (Some S) = Ok mS -> clustering teqb g None = Ok mA ->
    restricts g S mS mA.
  Proof.
    intros g S mS mA HS H1 H2. unfold clustering in H1, H2.
    destruct (ensure_not_multi_edges g); cbn [bind] in H1, H2; try discriminate.
    destruct (ensure_nodes_exist teqb g (Some S)); cbn [bind] in H1; try discriminate.
    cbn [ensure_nodes_exist bind] in H2.
    destruct (directed (sp g)).
    - apply (subset_from_lookup g S _ _
               (fun k => option_map snd (oval (do d <- dtad_for_node teqb g k; dcc_val d)))).
      + intros k. apply (clustering_directed_lookup g (Some S) mS k H1).
      + intros k. apply (clustering_directed_lookup g None mA k H2).
    - assert (Hfull : exists full, get_neighbors_of_nodes teqb None g = Ok full).
      { unfold clustering_undirected in H2.
        destruct (get_triangles_and_degrees teqb g None) as [tads | | | ] eqn:Et; cbn [bind] in H2;
          try discriminate.
        apply (tads_full g None tads Et). }
      destruct Hfull as [full Hfull].
      apply (subset_from_lookup g S _ _
               (fun k => match tad_of g full k with Some t => oval (cc_val t) | None => None end)).
      + intros k. rewrite (clustering_undirected_lookup g (Some S) mS full k H1 Hfull).
        rewrite (requested_some g S HS). reflexivity.
      + intros k. rewrite (clustering_undirected_lookup g None mA full k H2 Hfull). reflexivity.
  Qed.

  (* every requested node of the graph does get a value *)
  Theorem triangles_defined : forall (g : gstate) S mS v,
    S <> [] -> triangles teqb g (Some S) = Ok mS -> In v S -> exists a, lookup teqb v mS = Some a.
  Proof.
    intros g S mS v HS H Hv. unfold triangles in H.
    destruct (ensure_undirected g); cbn [bind] in H; try discriminate.
    destruct (ensure_not_multi_edges g); cbn [bind] in H; try discriminate.
    destruct (ensure_nodes_exist teqb g (Some S)); cbn [bind] in H; try discriminate.
    destruct (get_triangles_and_degrees teqb g (Some S)) as [tS | | | ] eqn:ES; cbn [bind] in H; try discriminate.
    inversion H; subst mS. destruct (tads_spec g (Some S) tS ES) as [full [Hfull [H1 H2]]].
    rewrite (tads_map_lookup g (Some S) tS full _ v ES Hfull), (requested_some g S HS).
    apply mem_name_In' in Hv. rewrite Hv. apply mem_name_In' in Hv.
    rewrite <- (requested_some g S HS) in Hv. destruct (H2 v Hv) as [t [Ht Hn]].
    destruct (H1 t Ht) as [_ Hs]. rewrite Hn in Hs. rewrite Hs. cbn. eauto.
  Qed.
End ClusterOk.
