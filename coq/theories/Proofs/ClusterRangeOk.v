(* C11, about the DEFINITIONS (Spec/ClusterDef.v): Fagiolo's directed coefficient lies in
   [0,1] for every node list and every arc relation; Lind's square coefficient lies in [0,1]
   for every duplicate-free node list, symmetric adjacency and node of the list. *)
From Coq Require Import List Bool Arith ZArith QArith Lia Permutation.
From GV Require Import Spec.ClusterDef Proofs.ClusterDefOk.
Import ListNotations.
Close Scope Q_scope.

Lemma sumf_le_in : forall {X} (f h : X -> nat) l, (forall x, In x l -> f x <= h x) -> sumf f l <= sumf h l.
Proof.
  intros X f h l H. induction l as [ | x t IH ]; [cbn; lia | ]. unfold sumf in *. cbn [fold_right].
  assert (f x <= h x) by (apply H; cbn; tauto).
  assert (fold_right (fun x a => f x + a) 0 t <= fold_right (fun x a => h x + a) 0 t)
    by (apply IH; intros y Hy; apply H; cbn; tauto). lia.
Qed.

Lemma sumf_scale_l : forall {X} (c : nat) (f : X -> nat) l, sumf (fun x => c * f x) l = c * sumf f l.
Proof. intros X c f l. induction l as [ | x t IH ]; [cbn; lia | ]. unfold sumf in *. cbn [fold_right]. rewrite IH. lia. Qed.

Lemma qn_inj : forall n, qn n = inject_Z (Z.of_nat n).
Proof. reflexivity. Qed.

Section Range.
  Context {T : Type}.
  Variable teqb : T -> T -> bool.
  Hypothesis teqb_spec : forall x y, teqb x y = true <-> x = y.
  Variable nodes : list T.
  Variable adjb : T -> T -> bool.

  Notation a_ := (a_ teqb adjb).
  Notation L := (linked teqb adjb).
  Let eqn (j k : T) : nat := if teqb j k then 1 else 0.
  Let s (j k : T) : nat := a_ j k + a_ k j.

  Lemma a_le1 : forall u v, a_ u v <= 1.
  Proof. intros u v. unfold ClusterDef.a_. destruct (L u v); lia. Qed.
  Lemma a_idem : forall u v, a_ u v * a_ u v = a_ u v.
  Proof. intros u v. unfold ClusterDef.a_. destruct (L u v); reflexivity. Qed.
  Lemma a_diag : forall u v, teqb u v = true -> a_ u v = 0.
  Proof. intros u v H. unfold ClusterDef.a_, linked. rewrite H, andb_false_r. reflexivity. Qed.

  Lemma s_bound : forall j k, s j k + 2 * eqn j k <= 2.
  Proof.
    intros j k. unfold s, eqn. destruct (teqb j k) eqn:E.
    - rewrite (a_diag j k E). assert (teqb k j = true) by (apply teqb_spec; apply teqb_spec in E; congruence).
      rewrite (a_diag k j H). lia.
    - pose proof (a_le1 j k). pose proof (a_le1 k j). lia.
  Qed.

  Lemma sumf_pick : forall (h : T -> nat) j l, In j l -> h j <= sumf (fun k => eqn j k * h k) l.
  Proof.
    intros h j. induction l as [ | x t IH ]; intros Hj; [destruct Hj | ].
    unfold sumf in *. cbn [fold_right]. destruct Hj as [Hj | Hj].
    - subst x. unfold eqn at 1. rewrite (proj2 (teqb_spec j j) eq_refl). lia.
    - specialize (IH Hj). lia.
  Qed.

  (* the counting inequality behind Fagiolo's normalisation *)
  Lemma fagiolo_bound : forall i,
    fagiolo_2t teqb nodes adjb i + 2 * d_tot teqb nodes adjb i + 4 * d_bi teqb nodes adjb i
    <= 2 * (d_tot teqb nodes adjb i * d_tot teqb nodes adjb i).
  Proof.
    intros i.
    change (fagiolo_2t teqb nodes adjb i)
      with (sumf (fun j => sumf (fun k => s i j * s j k * s k i) nodes) nodes).
    change (d_tot teqb nodes adjb i) with (sumf (fun j => s i j) nodes).
    change (d_bi teqb nodes adjb i) with (sumf (fun j => a_ i j * a_ j i) nodes).
    set (dt := sumf (fun j => s i j) nodes).
    assert (Hdt : sumf (fun k => s k i) nodes = dt).
    { unfold dt. apply sumf_ext. intros k. unfold s. lia. }
    (* per j: the j-th row plus the diagonal correction is at most 2 s_ij dt *)
    assert (Hrow : forall j, In j nodes ->
              sumf (fun k => s i j * s j k * s k i) nodes + 2 * (s i j + 2 * (a_ i j * a_ j i))
              <= 2 * s i j * dt).
    { intros j Hj.
      assert (H1 : sumf (fun k => s i j * s j k * s k i) nodes + sumf (fun k => s i j * (2 * eqn j k) * s k i) nodes
                   <= 2 * s i j * dt).
      { rewrite <- sumf_plus, <- Hdt, <- sumf_scale_l. apply sumf_le_in. intros k _.
        pose proof (s_bound j k). nia. }
      assert (H2 : 2 * (s i j * s j i) <= sumf (fun k => s i j * (2 * eqn j k) * s k i) nodes).
      { rewrite (sumf_ext (fun k => s i j * (2 * eqn j k) * s k i) (fun k => (2 * s i j) * (eqn j k * s k i)))
          by (intros k; ring).
        rewrite sumf_scale_l. pose proof (sumf_pick (fun k => s k i) j nodes Hj). nia. }
      assert (H3 : s i j * s j i = s i j + 2 * (a_ i j * a_ j i)).
      { unfold s. pose proof (a_idem i j). pose proof (a_idem j i). nia. }
      lia. }
    assert (Hsum : sumf (fun j => sumf (fun k => s i j * s j k * s k i) nodes + 2 * (s i j + 2 * (a_ i j * a_ j i))) nodes
                   <= sumf (fun j => 2 * s i j * dt) nodes) by (apply sumf_le_in; exact Hrow).
    rewrite sumf_plus in Hsum.
    rewrite (sumf_ext (fun j => 2 * (s i j + 2 * (a_ i j * a_ j i))) (fun j => 2 * s i j + 4 * (a_ i j * a_ j i))) in Hsum
      by (intros j; ring).
    rewrite sumf_plus, !sumf_scale_l in Hsum.
    rewrite (sumf_ext (fun j => 2 * s i j * dt) (fun j => (2 * dt) * s i j)) in Hsum by (intros j; ring).
    assert (Hr : sumf (fun j => 2 * dt * s i j) nodes = 2 * dt * dt) by (rewrite sumf_scale_l; reflexivity).
    rewrite Hr in Hsum. change (sumf (s i) nodes) with dt in Hsum. lia.
  Qed.

  (* Fagiolo's directed clustering coefficient lies in [0,1] *)
  Theorem cc_directed_unit_interval : forall i,
    (0 <= cc_directed teqb nodes adjb i /\ cc_directed teqb nodes adjb i <= 1)%Q.
  Proof.
    intros i. unfold cc_directed. pose proof (fagiolo_bound i) as Hb.
    set (t2 := fagiolo_2t teqb nodes adjb i) in *. set (dt := d_tot teqb nodes adjb i) in *.
    set (db := d_bi teqb nodes adjb i) in *.
    destruct (Nat.eqb t2 0) eqn:E0; [split; [apply Qle_refl | discriminate] | ].
    apply Nat.eqb_neq in E0.
    set (D := (2 * (Z.of_nat dt * (Z.of_nat dt - 1) - 2 * Z.of_nat db))%Z).
    assert (HD : (2 * (qn dt * (qn dt - 1) - 2 * qn db) == inject_Z D)%Q).
    { unfold D. rewrite !qn_inj. change 2%Q with (inject_Z 2). change 1%Q with (inject_Z 1). unfold Qminus.
      repeat (rewrite <- inject_Z_mult || rewrite <- inject_Z_plus || rewrite <- inject_Z_opp).
      apply inject_Z_injective. ring. }
    assert (HDge : (Z.of_nat t2 <= D)%Z) by (unfold D; nia).
    assert (HDpos : (0 < inject_Z D)%Q) by (change 0%Q with (inject_Z 0); rewrite <- Zlt_Qlt; lia).
    rewrite HD. rewrite qn_inj. split.
    - apply Qle_shift_div_l; [exact HDpos | ]. rewrite Qmult_0_l. change 0%Q with (inject_Z 0). rewrite <- Zle_Qle. lia.
    - apply Qle_shift_div_r; [exact HDpos | ]. rewrite Qmult_1_l. rewrite <- Zle_Qle. exact HDge.
  Qed.
End Range.

(* ---------------- Lind's square coefficient ---------------- *)
Lemma pairs_In : forall {X} (l : list X) p, In p (pairs l) -> In (fst p) l /\ In (snd p) l.
Proof.
  intros X. induction l as [ | x t IH ]; intros p Hp; [destruct Hp | ].
  cbn [pairs] in Hp. apply in_app_iff in Hp. destruct Hp as [Hp | Hp].
  - apply in_map_iff in Hp. destruct Hp as (y & <- & Hy). cbn. tauto.
  - destruct (IH p Hp). cbn. tauto.
Qed.

Section SquareRange.
  Context {T : Type}.
  Variable teqb : T -> T -> bool.
  Hypothesis teqb_spec : forall x y, teqb x y = true <-> x = y.
  Variable nodes : list T.
  Variable adjb : T -> T -> bool.
  Hypothesis nodes_nodup : NoDup nodes.
  Hypothesis adjb_sym : forall u v, adjb u v = adjb v u.

  Notation L := (linked teqb adjb).
  Notation deg := (deg teqb nodes adjb).
  Notation nbrs := (nbrs teqb nodes adjb).
  Notation common_not := (common_not teqb nodes adjb).
  Let eqn (j k : T) : nat := if teqb j k then 1 else 0.
  Let bn (b : bool) : nat := if b then 1 else 0.

  Lemma L_sym : forall u v, L u v = L v u.
  Proof. intros u v. apply (linked_sym teqb teqb_spec adjb adjb_sym). Qed.
  Lemma L_irrefl : forall u, L u u = false.
  Proof. intros u. apply (linked_irrefl teqb teqb_spec adjb). Qed.

  Lemma count_zero : forall v l, ~ In v l -> sumf (fun x => eqn x v) l = 0.
  Proof.
    intros v. induction l as [ | y t IH ]; intros Hni; [reflexivity | ].
    unfold sumf in *. cbn [fold_right].
    assert (Hy : eqn y v = 0).
    { unfold eqn. destruct (teqb y v) eqn:E; [ | reflexivity]. apply teqb_spec in E. subst. exfalso. apply Hni. cbn. tauto. }
    rewrite Hy, IH; [reflexivity | ]. intros H. apply Hni. cbn. tauto.
  Qed.

  Lemma count_one : forall v l, NoDup l -> In v l -> sumf (fun x => eqn x v) l = 1.
  Proof.
    intros v. induction l as [ | x t IH ]; intros Hnd Hv; [destruct Hv | ].
    inversion Hnd as [ | ? ? Hni Hnd' ]; subst. destruct Hv as [Hv | Hv].
    - subst x. pose proof (count_zero v t Hni) as H0. unfold sumf in *. cbn [fold_right].
      unfold eqn at 1. rewrite (proj2 (teqb_spec v v) eq_refl), H0. reflexivity.
    - assert (Hx : eqn x v = 0).
      { unfold eqn. destruct (teqb x v) eqn:E; [ | reflexivity]. apply teqb_spec in E. subst. contradiction. }
      pose proof (IH Hnd' Hv) as H1. unfold sumf in *. cbn [fold_right]. rewrite Hx, H1. reflexivity.
  Qed.

  Lemma common_not_sym : forall v u w, common_not v u w = common_not v w u.
  Proof.
    intros v u w. unfold ClusterDef.common_not. f_equal. apply filter_ext. intros x.
    rewrite (andb_comm (L u x) (L w x)). reflexivity.
  Qed.

  (* a neighbour u of v has, besides v, the common neighbours with w and w itself when adjacent *)
  Lemma deg_lower : forall v u w, In v nodes -> In w nodes -> L u v = true -> L v w = true ->
    1 + common_not v u w + bn (L u w) <= deg u.
  Proof.
    intros v u w Hv Hw Huv Hvw.
    assert (Hne : teqb w v = false).
    { destruct (teqb w v) eqn:E; [ | reflexivity]. apply teqb_spec in E. subst w. rewrite L_irrefl in Hvw. discriminate. }
    unfold ClusterDef.deg, ClusterDef.nbrs, ClusterDef.common_not. rewrite !count_sumf.
    pose proof (count_one v nodes nodes_nodup Hv) as Hone.
    assert (Hth : bn (L u w) = sumf (fun x => eqn x w * bn (L u w)) nodes).
    { rewrite (sumf_ext (fun x => eqn x w * bn (L u w)) (fun x => bn (L u w) * eqn x w)) by (intros; ring).
      rewrite sumf_scale_l, (count_one w nodes nodes_nodup Hw). lia. }
    assert (Hmain : sumf (fun x => eqn x v + (if L u x && L w x && negb (teqb x v) then 1 else 0)
                                   + eqn x w * bn (L u w)) nodes
                    <= sumf (fun x => if L u x then 1 else 0) nodes).
    { apply sumf_le_in. intros x _.
      unfold eqn. destruct (teqb x v) eqn:Exv.
      - apply teqb_spec in Exv. subst x. rewrite Huv.
        assert (Hvw' : teqb v w = false).
        { destruct (teqb v w) eqn:E; [ | reflexivity]. apply teqb_spec in E. subst w.
          rewrite (proj2 (teqb_spec v v) eq_refl) in Hne. discriminate. }
        rewrite Hvw'. cbn [negb andb]. rewrite andb_false_r. lia.
      - destruct (teqb x w) eqn:Exw.
        + apply teqb_spec in Exw. subst x. rewrite L_irrefl. cbn [andb]. rewrite andb_false_r. cbn [andb negb].
          unfold bn. destruct (L u w); lia.
        + cbn [negb]. rewrite andb_true_r. destruct (L u x); cbn [andb]; [destruct (L w x); lia | lia]. }
    rewrite !sumf_plus in Hmain. rewrite Hone, <- Hth in Hmain. lia.
  Qed.

  Lemma nbrs_In : forall v u, In u (nbrs v) <-> In u nodes /\ L v u = true.
  Proof. intros v u. unfold ClusterDef.nbrs. apply filter_In. Qed.

  (* numerator <= denominator (as integers) *)
  Lemma sq_num_le_den : forall v, In v nodes -> (Z.of_nat (sq_num teqb nodes adjb v) <= sq_den teqb nodes adjb v)%Z.
  Proof.
    intros v Hv. unfold sq_num, sq_den.
    assert (G : forall ps, (forall p, In p ps -> In (fst p) (nbrs v) /\ In (snd p) (nbrs v)) ->
      (Z.of_nat (fold_right (fun p a => (common_not v (fst p) (snd p) + a)%nat) 0%nat ps) <=
       fold_right (fun p a =>
                  let '(u, w) := p in
                  let q := Z.of_nat (common_not v u w) in
                  let th := if L u w then 1%Z else 0%Z in
                  ((Z.of_nat (deg u) - (1 + q + th)) + (Z.of_nat (deg w) - (1 + q + th)) + q + a)%Z)
               0%Z ps)%Z).
    { induction ps as [ | [u w] ps IH ]; intros Hps; [cbn; lia | ]. cbn [fold_right fst snd].
      assert (IH' := IH (fun p Hp => Hps p (or_intror Hp))). clear IH.
      destruct (Hps (u, w) (or_introl eq_refl)) as [Hu Hw]. cbn [fst snd] in Hu, Hw.
      apply nbrs_In in Hu. apply nbrs_In in Hw. destruct Hu as [Hun Hvu]. destruct Hw as [Hwn Hvw].
      pose proof (deg_lower v u w Hv Hwn (eq_trans (L_sym u v) Hvu) Hvw) as H1.
      pose proof (deg_lower v w u Hv Hun (eq_trans (L_sym w v) Hvw) Hvu) as H2.
      rewrite (common_not_sym v w u), (L_sym w u) in H2.
      cbv zeta in IH' |- *. rewrite Nat2Z.inj_add. unfold bn in H1, H2. destruct (L u w); lia. }
    apply G. intros p Hp. apply pairs_In. exact Hp.
  Qed.

  (* Lind's square clustering coefficient lies in [0,1] *)
  Theorem square_unit_interval : forall v, In v nodes ->
    (0 <= square_def teqb nodes adjb v /\ square_def teqb nodes adjb v <= 1)%Q.
  Proof.
    intros v Hv. unfold square_def. pose proof (sq_num_le_den v Hv) as Hle.
    set (n := sq_num teqb nodes adjb v) in *. set (d := sq_den teqb nodes adjb v) in *.
    destruct (Z.ltb 0 d) eqn:Ed.
    - apply Z.ltb_lt in Ed.
      assert (Hpos : (0 < inject_Z d)%Q) by (change 0%Q with (inject_Z 0); rewrite <- Zlt_Qlt; exact Ed).
      rewrite qn_inj. split.
      + apply Qle_shift_div_l; [exact Hpos | ]. rewrite Qmult_0_l. change 0%Q with (inject_Z 0). rewrite <- Zle_Qle. lia.
      + apply Qle_shift_div_r; [exact Hpos | ]. rewrite Qmult_1_l. rewrite <- Zle_Qle. exact Hle.
    - apply Z.ltb_ge in Ed. assert (n = 0) by lia. rewrite H. split; [apply Qle_refl | discriminate].
  Qed.
End SquareRange.
