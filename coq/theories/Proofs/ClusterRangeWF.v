(* C11 end to end, ranges: on every coherent (WF) graph state every value returned by
   `clustering` (undirected and directed form) and by `square_clustering` (undirected) lies in
   [0,1] - no hypothesis on the requested names: a returned entry is a node of the graph. *)
From Coq Require Import String List Bool Arith ZArith QArith Lia Permutation.
From GV Require Import Base.Outcome Base.AMap Model.GState Model.Creation Model.Query
     Model.Components Model.Cluster Model.Square
     Spec.ReachDef Spec.CompSpec Spec.EdgeAdj Spec.ClusterDef Spec.ClusterSpec.
From GV Require Import Proofs.AMapOk Proofs.WFDefs Proofs.WFNode Proofs.QueryOk Proofs.ReachOk Proofs.ComponentsOk
     Proofs.CompWF Proofs.ClusterDefOk Proofs.ClusterOk Proofs.ClusterEqOk Proofs.ClusterWF
     Proofs.ClusterDirOk Proofs.ClusterRangeOk Proofs.SquareOk.
Import ListNotations.
Close Scope Q_scope.

Section ClusterRangeWF.
  Context {T A : Type}.
  Variable teqb : T -> T -> bool.
  Variable tltb : T -> T -> bool.
  Hypothesis teqb_spec : forall x y, teqb x y = true <-> x = y.
  Hypothesis tltb_asym : forall x y, tltb x y = true -> tltb y x = false.
  Hypothesis tltb_total : forall x y, tltb x y = false -> tltb y x = false -> x = y.

  Notation gstate := (gstate T A).
  Notation WF := (@WF T A teqb tltb).
  Let mIn := memb_In teqb teqb_spec.

  Variable g : gstate.
  Hypothesis W : WF g.
  Let names := get_all_node_names g.

  Lemma key_is_node : forall v, contains_key teqb v (nodes_map g) = true -> In v names.
  Proof. intros v H. apply (contains_key_names teqb tltb g v W). exact H. Qed.

  Lemma neighbor_nodes_ok_node : forall v l, get_neighbor_nodes teqb g v = Ok l -> In v names.
  Proof.
    intros v l H. apply key_is_node. unfold get_neighbor_nodes in H.
    destruct (contains_key teqb v (nodes_map g)); [reflexivity | discriminate].
  Qed.

  Lemma idx_set_ok_node : forall m v l, idx_set_nodes teqb g m v = Ok l -> In v names.
  Proof.
    intros m v l H. apply key_is_node. unfold idx_set_nodes in H.
    destruct (contains_key teqb v (nodes_map g)); [reflexivity | discriminate].
  Qed.

  Lemma query_ok_node : forall v l, get_successors_or_neighbors teqb g v = Ok l -> In v names.
  Proof.
    intros v l H. unfold get_successors_or_neighbors, get_successor_nodes in H. destruct (directed (sp g)); cbn [negb] in H.
    - destruct (idx_set_nodes teqb g (successors_map g) v) eqn:E; try discriminate. apply (idx_set_ok_node _ _ _ E).
    - destruct (get_neighbor_nodes teqb g v) eqn:E; try discriminate. apply (neighbor_nodes_ok_node _ _ E).
  Qed.

  Lemma Qle_unit_compat : forall a b : Q, (a == b)%Q -> (0 <= b /\ b <= 1)%Q -> (0 <= a /\ a <= 1)%Q.
  Proof. intros a b E [H1 H2]. rewrite E. auto. Qed.

  (* every value of `clustering` lies in [0,1] (both graph kinds) *)
  Theorem clustering_unit_wf : forall nn m v c,
    clustering teqb g nn = Ok m -> lookup teqb v m = Some c -> (0 <= c /\ c <= 1)%Q.
  Proof.
    intros nn m v c H Hl. pose proof H as H0. unfold clustering in H0.
    destruct (ensure_not_multi_edges g); cbn [bind] in H0; try discriminate.
    destruct (ensure_nodes_exist teqb g nn); cbn [bind] in H0; try discriminate.
    destruct (directed (sp g)) eqn:Hd.
    - (* directed *)
      pose proof (clustering_directed_lookup teqb teqb_spec g nn m v H0) as Hk. rewrite Hl in Hk.
      destruct (mem_name teqb v (names_of g nn)) eqn:Hm; [ | discriminate]. apply mIn in Hm.
      assert (Hv : In v names).
      { destruct (dtad_for_node teqb g v) as [d | | | ] eqn:Ed; cbn [bind oval option_map] in Hk; try discriminate.
        unfold dtad_for_node in Ed. unfold adjacent_without, get_predecessor_node_names, get_predecessor_nodes in Ed.
        rewrite Hd in Ed. cbn [negb] in Ed.
        destruct (idx_set_nodes teqb g (predecessors_map g) v) eqn:E; cbn [bind] in Ed; try discriminate.
        apply (idx_set_ok_node _ _ _ E). }
      destruct (clustering_directed_wf teqb tltb teqb_spec g W Hd nn m v H Hm Hv) as (c' & Hc' & Hq).
      rewrite Hl in Hc'. inversion Hc'; subst c'.
      apply (Qle_unit_compat _ _ Hq). apply (cc_directed_unit_interval teqb teqb_spec).
    - (* undirected *)
      assert (Hfull : exists full, get_neighbors_of_nodes teqb None g = Ok full).
      { unfold clustering_undirected in H0.
        destruct (get_triangles_and_degrees teqb g nn) as [tads | | | ] eqn:Et; cbn [bind] in H0; try discriminate.
        apply (tads_full teqb teqb_spec g nn tads Et). }
      destruct Hfull as [full Hfull].
      pose proof (clustering_undirected_lookup teqb teqb_spec g nn m full v H0 Hfull) as Hk. rewrite Hl in Hk.
      destruct (mem_name teqb v (requested_names g nn)) eqn:Hm; [ | discriminate]. apply mIn in Hm.
      assert (Hv : In v names).
      { unfold tad_of, nset, neighbor_name_set in Hk.
        destruct (get_neighbor_nodes teqb g v) eqn:E; try discriminate. apply (neighbor_nodes_ok_node _ _ E). }
      destruct (clustering_wf teqb tltb teqb_spec tltb_total g W nn m v Hd H Hm Hv) as (c' & Hc' & Hq).
      rewrite Hl in Hc'. inversion Hc'; subst c'.
      apply (Qle_unit_compat _ _ Hq). apply (cc_unit_interval teqb).
  Qed.

  (* every value of `square_clustering` on an undirected graph lies in [0,1] *)
  Theorem square_unit_wf : forall nn m v c,
    directed (sp g) = false ->
    square_clustering teqb g nn = Ok m -> lookup teqb v m = Some c -> (0 <= c /\ c <= 1)%Q.
  Proof.
    intros nn m v c Hd H Hl.
    pose proof (square_lookup teqb teqb_spec g nn m v H) as Hk. rewrite Hl in Hk.
    destruct (mem_name teqb v (names_of g nn)) eqn:Hm; [ | discriminate]. apply mIn in Hm.
    assert (Hv : In v names).
    { unfold coefficient_for_node in Hk.
      destruct (get_successors_or_neighbors teqb g v) eqn:E; cbn [bind oval option_map] in Hk; try discriminate.
      apply (query_ok_node _ _ E). }
    destruct (square_clustering_wf teqb tltb teqb_spec tltb_total g W Hd nn m v H Hm Hv) as (c' & Hc' & Hq).
    rewrite Hl in Hc'. inversion Hc'; subst c'.
    apply (Qle_unit_compat _ _ Hq).
    apply (square_unit_interval teqb teqb_spec); [apply (wf_nodup _ _ _ W) | | exact Hv].
    intros a b. unfold edge_adjb. apply orb_comm.
  Qed.
End ClusterRangeWF.
