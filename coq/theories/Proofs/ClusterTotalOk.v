(* C11 end to end, TOTALITY: on every coherent (WF) graph state of the right kind, with
   node_names = None or any list of nodes of the graph, triangles / generalized_degree /
   clustering (both kinds) / transitivity RETURN: no unwrap fails, no float division by zero
   (inf / NaN, reported as a Panic site by the model) happens. *)
From Coq Require Import String List Bool Arith ZArith QArith Lia Permutation.
From GV Require Import Base.Outcome Base.AMap Model.GState Model.Creation Model.Query
     Model.Components Model.Cluster
     Spec.ReachDef Spec.CompSpec Spec.EdgeAdj Spec.ClusterDef Spec.ClusterSpec.
From GV Require Import Proofs.AMapOk Proofs.WFDefs Proofs.WFNode Proofs.QueryOk Proofs.ReachOk Proofs.ComponentsOk
     Proofs.CompWF Proofs.ClusterDefOk Proofs.ClusterOk Proofs.ClusterEqOk Proofs.ClusterWF
     Proofs.ClusterDirOk Proofs.ClusterRangeOk.
Import ListNotations.
Close Scope Q_scope.

Lemma omapM_total : forall {X Y} (f : X -> outcome Y) l,
  (forall x, In x l -> exists y, f x = Ok y) -> exists r, omapM f l = Ok r.
Proof.
  intros X Y f. induction l as [ | x t IH ]; intros H; [eexists; reflexivity | ]. cbn [omapM].
  destruct (H x (or_introl eq_refl)) as (y & Hy). rewrite Hy. cbn [bind].
  destruct (IH (fun z Hz => H z (or_intror Hz))) as (r & Hr). rewrite Hr. cbn [bind]. eauto.
Qed.

(* average_clustering is the mean (Spec/ClusterDef.v [mean]) of the values of the clustering map
   that are counted; None (NaN) when nothing is counted.  For every graph state. *)
Definition opt_Qeq (a b : option Q) : Prop :=
  match a, b with Some x, Some y => (x == y)%Q | None, None => True | _, _ => False end.

Lemma fold_left_Qplus : forall l a, (fold_left Qplus l a == a + fold_right Qplus 0 l)%Q.
Proof.
  induction l as [ | x t IH ]; intros a; cbn [fold_left fold_right]; [ring | ].
  rewrite IH. ring.
Qed.

Theorem average_clustering_is_mean : forall {T A} (teqb : T -> T -> bool) (g : gstate T A) nn cz a,
  average_clustering teqb g nn cz = Ok a ->
  exists m, clustering teqb g nn = Ok m /\ opt_Qeq a (mean cz (map snd m)).
Proof.
  intros T A teqb g nn cz a H. unfold average_clustering in H.
  destruct (clustering teqb g nn) as [m | | | ]; cbn [bind] in H; try discriminate.
  exists m. split; [reflexivity | ]. unfold mean.
  set (vs := filter (fun v => cz || negb (Qeq_bool v 0)) (map snd m)) in *.
  destruct vs as [ | x t ] eqn:Ev.
  - assert (Ha : a = None) by congruence. rewrite Ha. exact I.
  - set (l := x :: t) in *.
    assert (Ha : a = Some (Qred (fold_left Qplus l 0%Q / Cluster.qn (length l))%Q)) by congruence.
    rewrite Ha. unfold opt_Qeq.
    rewrite Qred_correct, fold_left_Qplus. unfold Cluster.qn, ClusterDef.qn. rewrite Qplus_0_l. reflexivity.
Qed.

Section ClusterTotal.
  Context {T A : Type}.
  Variable teqb : T -> T -> bool.
  Variable tltb : T -> T -> bool.
  Hypothesis teqb_spec : forall x y, teqb x y = true <-> x = y.
  Hypothesis tltb_asym : forall x y, tltb x y = true -> tltb y x = false.
  Hypothesis tltb_total : forall x y, tltb x y = false -> tltb y x = false -> x = y.

  Notation gstate := (gstate T A).
  Notation WF := (@WF T A teqb tltb).
  Let mIn := memb_In teqb teqb_spec.

  Variable g : gstate.
  Hypothesis W : WF g.
  Let names := get_all_node_names g.
  Let g_ok : nbr_ok_b teqb g = true := nbr_ok_wf teqb tltb teqb_spec tltb_total g W.

  (* the requested names are nodes of the graph *)
  Definition request_ok (nn : option (list T)) : Prop :=
    match nn with None => True | Some l => forall v, In v l -> In v names end.

  Lemma requested_in_names : forall nn, request_ok nn -> forall v, In v (requested_names g nn) -> In v names.
  Proof.
    intros [ [ | a l ] | ] H v Hv; cbn [requested_names] in Hv; try exact Hv. apply H. exact Hv.
  Qed.

  Lemma has_nodes_true : forall l, (forall v, In v l -> In v names) -> has_nodes teqb g l = Ok true.
  Proof.
    induction l as [ | x t IH ]; intros H; [reflexivity | ]. cbn [has_nodes].
    rewrite (has_node_spec teqb tltb teqb_spec g x W). cbn [bind].
    assert (Hx : existsb (fun n : node T A => teqb (nname n) x) (nodes_vec g) = true).
    { apply (In_names_existsb teqb teqb_spec g x). apply H. cbn. tauto. }
    rewrite Hx. apply IH. intros v Hv. apply H. cbn. tauto.
  Qed.

  Lemma ensure_nodes_exist_ok : forall nn, request_ok nn -> ensure_nodes_exist teqb g nn = Ok tt.
  Proof.
    intros [ l | ] H; [ | reflexivity]. cbn [ensure_nodes_exist]. rewrite (has_nodes_true l H). reflexivity.
  Qed.

  Lemma neighbors_of_nodes_total : forall nn, request_ok nn ->
    exists m, get_neighbors_of_nodes teqb nn g = Ok m.
  Proof.
    intros nn H. unfold get_neighbors_of_nodes.
    destruct (omapM_total (fun n => do hs <- neighbor_name_set teqb g n; Ok (n, hs)) (requested_names g nn)) as (kvs & Hk).
    { intros v Hv. apply (requested_in_names nn H) in Hv.
      destruct (neighbor_name_set_wf teqb tltb teqb_spec tltb_total g v W Hv) as (l & Hl & _). rewrite Hl. cbn [bind]. eauto. }
    rewrite Hk. cbn [bind]. eauto.
  Qed.

  Lemma tad_for_node_total : forall full v hs,
    get_neighbors_of_nodes teqb None g = Ok full ->
    In v names -> neighbor_name_set teqb g v = Ok hs ->
    exists t, tad_for_node teqb v hs full = Ok t.
  Proof.
    intros full v hs Hfull Hv Hhs. unfold tad_for_node.
    destruct (omapM_total (fun w => match lookup teqb w full with
                                    | None => Panic "undirected.rs:56 neighbors_map.get(w).unwrap"
                                    | Some wn => Ok (length (inter teqb (without teqb w wn) (without teqb v hs)))
                                    end) (without teqb v hs)) as (counts & Hc).
    { intros w Hw. apply (without_In teqb teqb_spec) in Hw. destruct Hw as (Hw & _).
      destruct (neighbor_name_set_wf teqb tltb teqb_spec tltb_total g v W Hv) as (l & Hl & _ & Hm).
      rewrite Hhs in Hl. inversion Hl; subst l. apply Hm in Hw.
      assert (Hwn : In w names).
      { unfold edge_rel in Hw. destruct Hw as [(_ & H & _)|(H & _)]; exact H. }
      rewrite (neighbors_of_nodes_lookup teqb teqb_spec g None full w Hfull). cbn [requested_names].
      assert (Hmem : mem_name teqb w (get_all_node_names g) = true) by (apply mIn; exact Hwn). rewrite Hmem.
      unfold nset. destruct (neighbor_name_set_wf teqb tltb teqb_spec tltb_total g w W Hwn) as (lw & Hlw & _).
      rewrite Hlw. eauto. }
    rewrite Hc. cbn [bind]. eauto.
  Qed.

  Lemma tads_total : forall nn, request_ok nn -> exists tads, get_triangles_and_degrees teqb g nn = Ok tads.
  Proof.
    intros nn H. unfold get_triangles_and_degrees.
    destruct (neighbors_of_nodes_total None I) as (full & Hfull). rewrite Hfull. cbn [bind].
    destruct (neighbors_of_nodes_total nn H) as (req & Hreq). rewrite Hreq. cbn [bind].
    apply omapM_total. intros (k, hs) Hin. cbn [fst snd].
    destruct (neighbors_of_nodes_entries teqb teqb_spec g nn req k hs Hreq Hin) as (Hk & Hs).
    apply (requested_in_names nn H) in Hk. unfold nset in Hs.
    destruct (neighbor_name_set teqb g k) as [hs' | | | ] eqn:E; try discriminate. inversion Hs; subst hs'.
    apply (tad_for_node_total full k hs Hfull Hk E).
  Qed.

  Theorem triangles_total : forall nn,
    directed (sp g) = false -> multi (sp g) = false -> request_ok nn ->
    exists m, triangles teqb g nn = Ok m.
  Proof.
    intros nn Hd Hm H. unfold triangles, ensure_undirected, ensure_not_multi_edges. rewrite Hd, Hm. cbn [bind].
    rewrite (ensure_nodes_exist_ok nn H). cbn [bind].
    destruct (tads_total nn H) as (tads & Ht). rewrite Ht. cbn [bind]. eauto.
  Qed.

  Theorem generalized_degree_total : forall nn,
    directed (sp g) = false -> multi (sp g) = false -> request_ok nn ->
    exists m, generalized_degree teqb g nn = Ok m.
  Proof.
    intros nn Hd Hm H. unfold generalized_degree, ensure_undirected, ensure_not_multi_edges. rewrite Hd, Hm. cbn [bind].
    rewrite (ensure_nodes_exist_ok nn H). cbn [bind].
    destruct (tads_total nn H) as (tads & Ht). rewrite Ht. cbn [bind]. eauto.
  Qed.

  (* the record of a node never leads to a division by zero *)
  Lemma cc_val_total : forall full v t,
    get_neighbors_of_nodes teqb None g = Ok full -> In v names ->
    tad_of teqb g full v = Some t -> exists c, cc_val t = Ok c.
  Proof.
    intros full v t Hfull Hv Ht. destruct (tad_of_inv teqb g full v t Ht) as [hs [Hhs Htad]].
    destruct (tad_for_node_spec teqb teqb_spec g g_ok full v hs t Hfull Hv Hhs Htad) as [H1 H2].
    pose proof (tri_le_pairs teqb names (nadj teqb g) v) as Hle.
    unfold cc_val. rewrite H1, H2. fold names.
    set (d := deg teqb names (nadj teqb g) v) in *. set (t3 := tri teqb names (nadj teqb g) v) in *.
    destruct (Nat.eqb (2 * t3) 0) eqn:E0; [eauto | ]. apply Nat.eqb_neq in E0.
    assert (Hd2 : 2 <= d) by (destruct d as [ | [ | d' ] ]; cbn in Hle; lia).
    unfold fdiv.
    assert (Hb : (Cluster.qn d * (Cluster.qn d - 1) == ClusterDef.qn (d * (d - 1)))%Q)
      by (apply qn_mul_pred; lia).
    assert (Hnz : Qeq_bool (Cluster.qn d * (Cluster.qn d - 1)) 0 = false).
    { destruct (Qeq_bool (Cluster.qn d * (Cluster.qn d - 1)) 0) eqn:E; [ | reflexivity].
      apply Qeq_bool_eq in E. rewrite Hb in E. unfold ClusterDef.qn, Qeq in E. cbn in E.
      rewrite Z.mul_1_r in E. assert (d * (d - 1) = 0) by lia. nia. }
    rewrite Hnz. eauto.
  Qed.

  Lemma clustering_undirected_total : forall nn, request_ok nn ->
    exists m, clustering_undirected teqb g nn = Ok m.
  Proof.
    intros nn H. unfold clustering_undirected.
    destruct (tads_total nn H) as (tads & Ht). rewrite Ht. cbn [bind].
    destruct (tads_spec teqb teqb_spec g nn tads Ht) as [full [Hfull [H1 _]]].
    destruct (omapM_total (fun t : @tad T =>
                       if Nat.eqb (t_ntri t) 0 then Ok (t_name t, 0%Q) else
                       do c <- fdiv "mod.rs:clustering inf" (Cluster.qn (t_ntri t))
                                    (Cluster.qn (t_degree t) * (Cluster.qn (t_degree t) - 1))%Q;
                       Ok (t_name t, c)) tads) as (kvs & Hk).
    { intros t Hin. destruct (H1 t Hin) as (Hreq & Hof).
      apply (requested_in_names nn H) in Hreq.
      destruct (cc_val_total full (t_name t) t Hfull Hreq Hof) as (c & Hc). unfold cc_val in Hc.
      destruct (Nat.eqb (t_ntri t) 0); [eauto | ]. rewrite Hc. cbn [bind]. eauto. }
    rewrite Hk. cbn [bind]. eauto.
  Qed.

  (* directed form: Fagiolo's denominator is positive whenever the numerator is *)
  Lemma dcc_val_total : forall v, directed (sp g) = true -> In v names ->
    exists d p, dtad_for_node teqb g v = Ok d /\ dcc_val d = Ok p.
  Proof.
    intros v Hd Hv.
    assert (Hdt : exists d, dtad_for_node teqb g v = Ok d).
    { unfold dtad_for_node.
      destruct (adjacent_without_wf teqb tltb teqb_spec g W Hd v true Hv) as (ip & Hip & Lip).
      destruct (adjacent_without_wf teqb tltb teqb_spec g W Hd v false Hv) as (is_ & His & Lis).
      rewrite Hip, His. cbn [bind].
      match goal with |- context [omapM ?f ?l] => destruct (omapM_total f l) as (cs & Hc) end.
      { intros j Hj.
        assert (Hjn : In j names).
        { apply in_app_iff in Hj. destruct Hj as [Hj | Hj].
          - destruct Lip as [_ Hm]. apply Hm in Hj. tauto.
          - destruct Lis as [_ Hm]. apply Hm in Hj. tauto. }
        destruct (adjacent_without_wf teqb tltb teqb_spec g W Hd j true Hjn) as (jp & Hjp & _).
        destruct (adjacent_without_wf teqb tltb teqb_spec g W Hd j false Hjn) as (js & Hjs & _).
        rewrite Hjp, Hjs. cbn [bind]. eauto. }
      rewrite Hc. cbn [bind]. eauto. }
    destruct Hdt as (d & Hdd). exists d.
    destruct (dtad_wf teqb tltb teqb_spec g W Hd v d Hv Hdd) as (H1 & H2 & H3).
    unfold dcc_val. rewrite H1, H2, H3.
    pose proof (fagiolo_bound teqb teqb_spec (get_all_node_names g) (has_edge_b teqb g) v) as Hb.
    set (t2 := fagiolo_2t teqb (get_all_node_names g) (has_edge_b teqb g) v) in *.
    set (dt := d_tot teqb (get_all_node_names g) (has_edge_b teqb g) v) in *.
    set (db := d_bi teqb (get_all_node_names g) (has_edge_b teqb g) v) in *.
    destruct (Nat.eqb t2 0) eqn:E0; [eauto | ]. apply Nat.eqb_neq in E0.
    unfold fdiv.
    set (D := ((Z.of_nat dt * (Z.of_nat dt - 1) - 2 * Z.of_nat db) * 2)%Z).
    assert (HD : ((Cluster.qn dt * (Cluster.qn dt - 1) - 2 * Cluster.qn db) * 2 == inject_Z D)%Q).
    { unfold D, Cluster.qn. change 2%Q with (inject_Z 2). change 1%Q with (inject_Z 1). unfold Qminus.
      repeat (rewrite <- inject_Z_mult || rewrite <- inject_Z_plus || rewrite <- inject_Z_opp).
      apply inject_Z_injective. ring. }
    assert (HDpos : (0 < D)%Z) by (unfold D; nia).
    assert (Hnz : Qeq_bool ((Cluster.qn dt * (Cluster.qn dt - 1) - 2 * Cluster.qn db) * 2) 0 = false).
    { destruct (Qeq_bool _ 0) eqn:E; [ | reflexivity]. apply Qeq_bool_eq in E. rewrite HD in E.
      unfold Qeq in E. cbn in E. lia. }
    rewrite Hnz. cbn [bind]. eauto.
  Qed.

  Lemma clustering_directed_total : forall nn, directed (sp g) = true ->
    (forall v, In v (names_of g nn) -> In v names) ->
    exists m, clustering_directed teqb g nn = Ok m.
  Proof.
    intros nn Hd H. unfold clustering_directed, get_directed_triangles_and_degrees. fold (names_of g nn).
    destruct (omapM_total (dtad_for_node teqb g) (names_of g nn)) as (ds & Hds).
    { intros v Hv. destruct (dcc_val_total v Hd (H v Hv)) as (d & _ & Hdd & _). eauto. }
    rewrite Hds. cbn [bind].
    match goal with |- context [omapM ?f ds] => destruct (omapM_total f ds) as (kvs & Hk) end.
    { intros d Hin. apply omapM_Forall2 in Hds. destruct (Forall2_In_r _ _ _ _ Hds Hin) as (v & Hv & Hvd).
      destruct (dcc_val_total v Hd (H v Hv)) as (d' & p & Hdd & Hp). rewrite Hvd in Hdd. inversion Hdd; subst d'.
      unfold dcc_val in Hp. destruct (Nat.eqb (d_tri d) 0); [eauto | ].
      destruct (fdiv _ _ _) as [c | | | ]; cbn [bind] in Hp |- *; try discriminate. eauto. }
    rewrite Hk. cbn [bind]. eauto.
  Qed.

  Theorem clustering_total : forall nn,
    multi (sp g) = false -> request_ok nn -> exists m, clustering teqb g nn = Ok m.
  Proof.
    intros nn Hm H. unfold clustering, ensure_not_multi_edges. rewrite Hm. cbn [bind].
    rewrite (ensure_nodes_exist_ok nn H). cbn [bind].
    destruct (directed (sp g)) eqn:Hd.
    - apply (clustering_directed_total nn Hd). intros v Hv. destruct nn as [ l | ]; [apply H; exact Hv | exact Hv].
    - apply (clustering_undirected_total nn H).
  Qed.

  Theorem average_clustering_total : forall nn cz,
    multi (sp g) = false -> request_ok nn -> exists a, average_clustering teqb g nn cz = Ok a.
  Proof.
    intros nn cz Hm H. unfold average_clustering. destruct (clustering_total nn Hm H) as (m & Hc). rewrite Hc. cbn [bind].
    destruct (filter _ (map snd m)); eauto.
  Qed.

  Theorem transitivity_total :
    directed (sp g) = false -> multi (sp g) = false -> exists q, transitivity teqb g = Ok q.
  Proof.
    intros Hd Hm. unfold transitivity, ensure_undirected, ensure_not_multi_edges. rewrite Hd, Hm. cbn [bind].
    destruct (Nat.eqb (length (get_all_nodes g)) 0); [eauto | ].
    destruct (tads_total None I) as (tads & Et). rewrite Et. cbn [bind].
    destruct (tads_full teqb teqb_spec g None tads Et) as [full Hfull].
    pose proof (tads_in_order teqb teqb_spec g g_ok tads full Et Hfull) as HF.
    assert (Hrec : forall v t, In v names -> tad_of teqb g full v = Some t ->
              t_ntri t = 2 * tri teqb names (nadj teqb g) v /\ t_degree t = deg teqb names (nadj teqb g) v).
    { intros v t Hv Ht. destruct (tad_of_inv teqb g full v t Ht) as [hs [Hhs Htad]].
      apply (tad_for_node_spec teqb teqb_spec g g_ok full v hs t Hfull Hv Hhs Htad). }
    rewrite !fold_left_add. cbn [Nat.add].
    rewrite (sum_over_tads teqb g (@t_ntri T) (fun v => 2 * tri teqb names (nadj teqb g) v) full tads HF)
      by (intros v t Hv Ht; apply (Hrec v t Hv Ht)).
    rewrite (sum_over_tads teqb g (fun t => t_degree t * sat_sub (t_degree t) 1)
               (fun v => deg teqb names (nadj teqb g) v * (deg teqb names (nadj teqb g) v - 1)) full tads HF).
    2:{ intros v t Hv Ht. destruct (Hrec v t Hv Ht) as [_ Hdg]. unfold sat_sub. rewrite Hdg. reflexivity. }
    assert (Hle : sumf (fun v => 2 * tri teqb names (nadj teqb g) v) names
                  <= sumf (fun v => deg teqb names (nadj teqb g) v * (deg teqb names (nadj teqb g) v - 1)) names).
    { apply sumf_le. intros v. apply (tri_le_pairs teqb names (nadj teqb g) v). }
    fold names. set (S1 := sumf (fun v => 2 * tri teqb names (nadj teqb g) v) names) in *.
    set (S2 := sumf (fun v => deg teqb names (nadj teqb g) v * (deg teqb names (nadj teqb g) v - 1)) names) in *.
    destruct (Nat.eqb S1 0) eqn:E0; [eauto | ]. apply Nat.eqb_neq in E0. unfold fdiv.
    assert (Hnz : Qeq_bool (Cluster.qn S2) 0 = false).
    { destruct (Qeq_bool (Cluster.qn S2) 0) eqn:Eq; [ | reflexivity].
      apply Qeq_bool_eq in Eq. unfold Cluster.qn, Qeq in Eq. cbn in Eq. lia. }
    rewrite Hnz. eauto.
  Qed.

  (* all of it at once, with the request condition spelled out *)
  Theorem cluster_total_wf : forall nn,
    multi (sp g) = false ->
    (forall l, nn = Some l -> forall v, In v l -> In v (get_all_node_names g)) ->
    (exists m, clustering teqb g nn = Ok m) /\
    (forall cz, exists a, average_clustering teqb g nn cz = Ok a) /\
    (directed (sp g) = false ->
       (exists m, triangles teqb g nn = Ok m) /\
       (exists m, generalized_degree teqb g nn = Ok m) /\
       (exists q, transitivity teqb g = Ok q)).
  Proof.
    intros nn Hm H.
    assert (Hr : request_ok nn) by (destruct nn as [ l | ]; [exact (H l eq_refl) | exact I]).
    split; [apply clustering_total; assumption | ].
    split; [intros cz; apply average_clustering_total; assumption | ].
    intros Hd. split; [apply triangles_total; assumption | ].
    split; [apply generalized_degree_total; assumption | apply transitivity_total; assumption].
  Qed.
End ClusterTotal.
