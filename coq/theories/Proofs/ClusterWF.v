(* C11 end to end: the executable coherence test [nbr_ok_b] (node list duplicate-free,
   neighbour query total / inside the node list / symmetric) is a CONSEQUENCE of the coherence
   invariant WF, and the adjacency [nadj] the clustering functions read IS the adjacency of
   the EDGE LIST ([edge_adjb]: a stored edge in either direction).  Hence triangles /
   clustering / transitivity equal their definitions over [get_all_edges] for every WF state. *)
From Coq Require Import String List Bool Arith ZArith QArith Lia Permutation.
From GV Require Import Base.Outcome Base.AMap Model.GState Model.Creation Model.Query
     Model.Components Model.Cluster Spec.ReachDef Spec.CompSpec Spec.EdgeAdj Spec.ClusterDef Spec.ClusterSpec.
From GV Require Import Proofs.AMapOk Proofs.WFDefs Proofs.WFNode Proofs.WFAdj Proofs.WFEdge Proofs.Refine
     Proofs.AdjOk Proofs.QueryOk Proofs.ReachOk Proofs.ComponentsOk Proofs.CompWF
     Proofs.ClusterDefOk Proofs.ClusterOk Proofs.ClusterEqOk Proofs.ClusterGenOk.
Import ListNotations.
Close Scope Q_scope.

Section ClusterWF.
  Context {T A : Type}.
  Variable teqb : T -> T -> bool.
  Variable tltb : T -> T -> bool.
  Hypothesis teqb_spec : forall x y, teqb x y = true <-> x = y.
  Hypothesis tltb_asym : forall x y, tltb x y = true -> tltb y x = false.
  Hypothesis tltb_total : forall x y, tltb x y = false -> tltb y x = false -> x = y.

  Notation gstate := (gstate T A).
  Notation WF := (@WF T A teqb tltb).
  Notation names := (@names T A).
  Notation group := (@group T A teqb).
  Let mIn := memb_In teqb teqb_spec.

  Lemma NoDup_nodupb : forall l : list T, NoDup l -> nodupb teqb l = true.
  Proof.
    induction l as [|a l IH]; intros H; cbn [nodupb]; [reflexivity|].
    inversion H as [|? ? Hni Hnd]; subst. rewrite (IH Hnd), andb_true_r.
    apply negb_true_iff. apply (memb_false teqb teqb_spec). exact Hni.
  Qed.

  (* has_edge_b decides "there is a stored edge u -> v"; its endpoints are nodes *)
  Lemma has_edge_iff (g : gstate) u v : WF g -> (has_edge_b teqb g u v = true <-> edge_rel g u v).
  Proof.
    intros W. unfold has_edge_b, edge_rel. rewrite existsb_exists. split.
    - intros (e & He & Hk). apply andb_true_iff in Hk. destruct Hk as (Hu & Hv).
      apply teqb_spec in Hu. apply teqb_spec in Hv.
      destruct (edge_endpoints teqb tltb teqb_spec g e W He) as (H1 & H2 & _).
      rewrite Hu in H1. rewrite Hv in H2. split; [exact H1|]. split; [exact H2|]. exists e. auto.
    - intros (_ & _ & e & He & Hu & Hv). exists e. split; [exact He|].
      apply andb_true_iff. split; apply teqb_spec; assumption.
  Qed.

  Lemma edge_adjb_iff (g : gstate) u v :
    WF g -> (edge_adjb teqb g u v = true <-> (edge_rel g u v \/ edge_rel g v u)).
  Proof. intros W. unfold edge_adjb. rewrite orb_true_iff, !(has_edge_iff g) by exact W. tauto. Qed.

  (* the neighbour set of a node: total, duplicate-free, exactly the nodes joined to it by a
     stored edge in either direction *)
  Lemma neighbor_name_set_wf (g : gstate) v :
    WF g -> In v (names g) ->
    exists l, neighbor_name_set teqb g v = Ok l /\ NoDup l /\
              forall u, In u l <-> (edge_rel g v u \/ edge_rel g u v).
  Proof.
    intros W Hv. destruct (get_neighbor_nodes_spec teqb tltb g v W Hv) as (l & Hl & _ & Hm).
    unfold neighbor_name_set. rewrite Hl. exists (to_hashset teqb (map nname l)).
    destruct (to_hashset_spec teqb teqb_spec (map nname l)) as (Hnd & Hin).
    split; [reflexivity|]. split; [exact Hnd|]. intros u. rewrite (Hin u), (Hm u).
    rewrite (cn_group_iff teqb tltb teqb_spec tltb_total g v u W).
    rewrite <- (edge_rel_iff teqb tltb teqb_spec g u v W). unfold g_follow. split.
    - intros (_ & [[H|(_ & H)]|(_ & H)]); tauto.
    - intros H. split.
      + unfold edge_rel in H. destruct H as [(_ & H & _)|(H & _)]; exact H.
      + destruct (directed (sp g)); tauto.
  Qed.

  (* ---- the per-case test is a theorem ---- *)
  Theorem nbr_ok_wf (g : gstate) : WF g -> nbr_ok_b teqb g = true.
  Proof.
    intros W. unfold nbr_ok_b. apply andb_true_iff. split.
    - apply NoDup_nodupb. apply (wf_nodup _ _ _ W).
    - apply forallb_forall. intros v Hv.
      destruct (neighbor_name_set_wf g v W Hv) as (l & Hl & _ & Hm). rewrite Hl.
      apply forallb_forall. intros u Hu. apply Hm in Hu.
      assert (Hun : In u (names g)).
      { unfold edge_rel in Hu. destruct Hu as [(_ & H & _)|(H & _)]; exact H. }
      apply andb_true_iff. split; [apply mIn; exact Hun|].
      destruct (neighbor_name_set_wf g u W Hun) as (l' & Hl' & _ & Hm'). rewrite Hl'.
      apply mIn. apply Hm'. tauto.
  Qed.

  (* ---- the adjacency the functions read is the adjacency of the edge list ---- *)
  Theorem nadj_edge_adjb (g : gstate) v u : WF g -> nadj teqb g v u = edge_adjb teqb g v u.
  Proof.
    intros W.
    assert (H : nadj teqb g v u = true <-> edge_adjb teqb g v u = true).
    { rewrite (edge_adjb_iff g v u W). unfold nadj. rewrite !andb_true_iff, !mIn. split.
      - intros ((Hv & _) & H). destruct (neighbor_name_set_wf g v W Hv) as (l & Hl & _ & Hm).
        rewrite Hl in H. apply mIn in H. apply Hm. exact H.
      - intros H.
        assert (Hv : In v (names g) /\ In u (names g)).
        { unfold edge_rel in H. destruct H as [(H1 & H2 & _)|(H1 & H2 & _)]; auto. }
        split; [exact Hv|]. destruct Hv as (Hv & _).
        destruct (neighbor_name_set_wf g v W Hv) as (l & Hl & _ & Hm). rewrite Hl.
        apply mIn. apply Hm. exact H. }
    destruct (nadj teqb g v u), (edge_adjb teqb g v u); try reflexivity.
    - symmetry. apply H. reflexivity.
    - apply H. reflexivity.
  Qed.

  Lemma edge_adjb_sym (g : gstate) u v : edge_adjb teqb g u v = edge_adjb teqb g v u.
  Proof. unfold edge_adjb. apply orb_comm. Qed.

  (* ================================================================== *)
  (* END TO END: model = definition over the edge list                    *)
  Section OnState.
    Variable g : gstate.
    Hypothesis W : WF g.
    Let nodes := get_all_node_names g.
    Let Hext : forall u v, u <> v -> nadj teqb g u v = edge_adjb teqb g u v.
    Proof. intros u v _. apply nadj_edge_adjb. exact W. Qed.

    Theorem triangles_wf : forall nn m v,
      triangles teqb g nn = Ok m ->
      In v (requested_names g nn) -> In v nodes ->
      lookup teqb v m = Some (tri teqb nodes (edge_adjb teqb g) v).
    Proof.
      intros nn m v H Hr Hv.
      rewrite (triangles_eq_def teqb teqb_spec g (nbr_ok_wf g W) nn m v H Hr Hv).
      f_equal. apply (tri_ext teqb teqb_spec nodes _ _ Hext).
    Qed.

    Theorem clustering_wf : forall nn m v,
      directed (sp g) = false ->
      clustering teqb g nn = Ok m ->
      In v (requested_names g nn) -> In v nodes ->
      exists c, lookup teqb v m = Some c /\ (c == cc teqb nodes (edge_adjb teqb g) v)%Q.
    Proof.
      intros nn m v Hd H Hr Hv.
      destruct (clustering_eq_def teqb teqb_spec g (nbr_ok_wf g W) nn m v Hd H Hr Hv) as (c & Hc & Hq).
      exists c. split; [exact Hc|].
      rewrite <- (cc_ext teqb teqb_spec nodes _ _ Hext v). exact Hq.
    Qed.

    Theorem transitivity_wf : forall q,
      transitivity teqb g = Ok q -> (q == transitivity_def teqb nodes (edge_adjb teqb g))%Q.
    Proof.
      intros q H.
      rewrite <- (transitivity_ext teqb teqb_spec nodes _ _ Hext).
      apply (transitivity_eq_def teqb teqb_spec g (nbr_ok_wf g W) q H).
    Qed.

    (* generalized_degree(v): duplicate-free histogram; an entry (k, c) exactly when
       c = (number of edges at v lying in exactly k triangles) <> 0 *)
    Theorem generalized_degree_wf : forall nn m v,
      generalized_degree teqb g nn = Ok m ->
      In v (requested_names g nn) -> In v nodes ->
      exists h, lookup teqb v m = Some h /\ NoDup (map fst h) /\
        forall k, lookup Nat.eqb k h =
                  if Nat.eqb (gen_degree teqb nodes (edge_adjb teqb g) v k) 0 then None
                  else Some (gen_degree teqb nodes (edge_adjb teqb g) v k).
    Proof.
      intros nn m v H Hr Hv.
      destruct (generalized_degree_eq_def teqb teqb_spec g (nbr_ok_wf g W) nn m v H Hr Hv) as (h & Hh & Hnd & Hk).
      exists h. split; [exact Hh|]. split; [exact Hnd|]. intros k.
      rewrite <- (gen_degree_ext teqb teqb_spec nodes _ _ Hext v k). apply Hk.
    Qed.
  End OnState.
End ClusterWF.
