(* C10 end to end: the hypotheses of the component / BFS theorems (adjacency symmetric and
   closed over the node list, predecessors = inverse successors, successors are nodes, index
   adjacency well formed) are CONSEQUENCES of the coherence invariant WF, and the relations
   the loops follow are the ones of the EDGE LIST.  Hence, for every WF state (every state
   reachable by any history), with no per-case test in the hypotheses: the component
   functions return, and return the partition of the node list by reachability over
   [get_all_edges]; BFS lists exactly the nodes reachable along stored edges. *)
From Coq Require Import String List Bool Arith Lia.
From GV Require Import Base.Outcome Base.AMap Model.GState Model.Creation Model.Query
     Model.Components Model.Scc Spec.ReachDef Spec.CompSpec Spec.EdgeAdj Spec.AGraph Spec.History.
From GV Require Import Proofs.AMapOk Proofs.WFDefs Proofs.WFNode Proofs.WFAdj Proofs.WFEdge Proofs.Refine
     Proofs.HistoryOk Proofs.AdjOk Proofs.QueryOk
     Proofs.ReachOk Proofs.ComponentsOk Proofs.PartitionsOk Proofs.PartitionsTotalOk
     Proofs.SccOk Proofs.SccFullOk.
Import ListNotations.

Section CompWF.
  Context {T A : Type}.
  Variable teqb : T -> T -> bool.
  Variable tltb : T -> T -> bool.
  Hypothesis teqb_spec : forall x y, teqb x y = true <-> x = y.
  Hypothesis tltb_asym : forall x y, tltb x y = true -> tltb y x = false.
  Hypothesis tltb_total : forall x y, tltb x y = false -> tltb y x = false -> x = y.

  Notation edge := (edge T A).
  Notation gstate := (gstate T A).
  Notation WF := (@WF T A teqb tltb).
  Notation names := (@names T A).
  Notation group := (@group T A teqb).
  Notation cn := (cn tltb).

  (* ------------------------------------------------------------------ *)
  (* the edge store and the edge list                                     *)

  (* a pair of names has a stored group iff the edge list has an edge with that key *)
  Lemma group_iff_edge (g : gstate) k :
    WF g -> (group g k <> None <-> exists e, In e (get_all_edges g) /\ (eu e, ev e) = k).
  Proof.
    intros W. split.
    - intros H. destruct (group g k) as [l|] eqn:Eg; [|congruence].
      destruct (wf_egroup _ _ _ W _ _ Eg) as (Hne & Hall & _).
      destruct l as [|e t]; [congruence|]. exists e.
      assert (Hk : (eu e, ev e) = k) by (apply Hall; left; reflexivity).
      split; [|exact Hk].
      apply (in_all_edges teqb tltb teqb_spec g e W). rewrite Hk. exists (e :: t). split; [exact Eg|left; reflexivity].
    - intros (e & Hin & Hk). apply (in_all_edges teqb tltb teqb_spec g e W) in Hin.
      destruct Hin as (l & Hl & _). rewrite Hk in Hl. congruence.
  Qed.

  (* both endpoints of every listed edge are nodes; on an undirected graph the edge is
     stored smaller-name-first *)
  Lemma edge_endpoints (g : gstate) e :
    WF g -> In e (get_all_edges g) ->
    In (eu e) (names g) /\ In (ev e) (names g) /\
    (directed (sp g) = false -> tltb (ev e) (eu e) = false).
  Proof.
    intros W Hin. apply (in_all_edges teqb tltb teqb_spec g e W) in Hin. destruct Hin as (l & Hl & _).
    destruct (wf_egroup _ _ _ W _ _ Hl) as (_ & _ & Hu & Hv & Ho & _). auto.
  Qed.

  Lemma edge_rel_iff (g : gstate) u v :
    WF g -> (edge_rel g u v <-> group g (u, v) <> None).
  Proof.
    intros W. rewrite (group_iff_edge g (u, v) W). unfold edge_rel. split.
    - intros (_ & _ & e & He & Hu & Hv). exists e. split; [exact He|]. rewrite Hu, Hv. reflexivity.
    - intros (e & He & Hk). inversion Hk; subst.
      destruct (edge_endpoints g e W He) as (Hu & Hv & _).
      split; [exact Hu|]. split; [exact Hv|]. exists e. auto.
  Qed.

  (* the stored group of a pair in storage orientation, read off the edge list *)
  Lemma cn_group_iff (g : gstate) u v :
    WF g -> (group g (cn (sp g) u v) <> None <-> g_follow g u v).
  Proof.
    intros W. unfold g_follow. rewrite !(edge_rel_iff g) by exact W.
    unfold WFDefs.cn. destruct (directed (sp g)) eqn:Hd; cbn [negb andb].
    - split; [intros H; left; exact H|]. intros [H|[H _]]; [exact H|discriminate].
    - destruct (tltb v u) eqn:Evu.
      + split; [intros H; right; split; [reflexivity|exact H]|].
        intros [H|[_ H]]; [|exact H]. exfalso.
        destruct (group g (u, v)) as [l|] eqn:Eg; [|congruence].
        destruct (wf_egroup _ _ _ W _ _ Eg) as (_ & _ & _ & _ & Ho & _).
        cbn [fst snd] in Ho. rewrite (Ho Hd) in Evu. discriminate.
      + split; [intros H; left; exact H|]. intros [H|[_ H]]; [exact H|].
        destruct (group g (v, u)) as [l|] eqn:Eg; [|congruence].
        destruct (wf_egroup _ _ _ W _ _ Eg) as (_ & _ & _ & _ & Ho & _).
        cbn [fst snd] in Ho. pose proof (tltb_total _ _ Evu (Ho Hd)) as Euv. subst v. rewrite Eg. discriminate.
  Qed.

  Lemma g_follow_nodes (g : gstate) u v : g_follow g u v -> In u (g_nodes g) /\ In v (g_nodes g).
  Proof. unfold g_follow, edge_rel. intros [(Hu & Hv & _)|(_ & Hv & Hu & _)]; auto. Qed.

  (* ------------------------------------------------------------------ *)
  (* the adjacency query of BFS / connected components                    *)
  Lemma step_iff (g : gstate) u v : WF g -> (step teqb g u v <-> g_follow g u v).
  Proof.
    intros W. unfold step, get_successors_or_neighbors. split.
    - intros (ns & Hq & Hv).
      assert (Hu : In u (names g)).
      { apply (contains_key_names teqb tltb g u W).
        destruct (contains_key teqb u (nodes_map g)) eqn:E; [reflexivity|exfalso].
        unfold get_successor_nodes, idx_set_nodes, get_neighbor_nodes in Hq. rewrite E in Hq.
        cbn [negb] in Hq. destruct (directed (sp g)); cbn in Hq; discriminate. }
      destruct (directed (sp g)) eqn:Hd.
      + destruct (get_successor_nodes_spec teqb tltb g u W Hd Hu) as (l & Hl & _ & Hm).
        rewrite Hl in Hq. inversion Hq; subst ns. apply Hm in Hv.
        left. apply (edge_rel_iff g u v W). exact Hv.
      + destruct (get_neighbor_nodes_spec teqb tltb g u W Hu) as (l & Hl & _ & Hm).
        rewrite Hl in Hq. inversion Hq; subst ns. apply Hm in Hv. destruct Hv as (_ & [Hv|(Hd' & _)]).
        * apply (cn_group_iff g u v W). exact Hv.
        * congruence.
    - intros Hf. destruct (g_follow_nodes g u v Hf) as (Hu & Hv).
      apply (cn_group_iff g u v W) in Hf.
      destruct (directed (sp g)) eqn:Hd.
      + destruct (get_successor_nodes_spec teqb tltb g u W Hd Hu) as (l & Hl & _ & Hm).
        rewrite Hl. exists l. split; [reflexivity|]. apply Hm.
        rewrite (cn_directed tltb _ _ _ Hd) in Hf. exact Hf.
      + destruct (get_neighbor_nodes_spec teqb tltb g u W Hu) as (l & Hl & _ & Hm).
        rewrite Hl. exists l. split; [reflexivity|]. apply Hm. split; [exact Hv|left; exact Hf].
  Qed.

  (* the query succeeds on every node and stays inside the node list *)
  Lemma adj_total_wf (g : gstate) : WF g -> adj_total teqb g.
  Proof.
    intros W u Hu. unfold get_successors_or_neighbors.
    assert (Hq : exists ns, get_successors_or_neighbors teqb g u = Ok ns).
    { unfold get_successors_or_neighbors. destruct (directed (sp g)) eqn:Hd.
      - destruct (get_successor_nodes_spec teqb tltb g u W Hd Hu) as (l & Hl & _). rewrite Hl. eauto.
      - destruct (get_neighbor_nodes_spec teqb tltb g u W Hu) as (l & Hl & _). rewrite Hl. eauto. }
    destruct Hq as (ns & Hq). exists ns. split; [exact Hq|]. intros v Hv.
    assert (Hs : step teqb g u v) by (exists ns; split; assumption).
    apply (step_iff g u v W) in Hs. apply (g_follow_nodes g u v Hs).
  Qed.

  (* ------------------------------------------------------------------ *)
  (* reachability: relations that agree step by step agree                *)
  Lemma reach_iff (R1 R2 : T -> T -> Prop) :
    (forall u v, R1 u v <-> R2 u v) -> forall x y, reach R1 x y <-> reach R2 x y.
  Proof. intros H x y. split; apply reach_ext; intros u v; apply H. Qed.

  Lemma partition_ext (nodes : list T) (r1 r2 : T -> T -> Prop) cs :
    (forall x y, r1 x y <-> r2 x y) ->
    is_component_partition nodes r1 cs -> is_component_partition nodes r2 cs.
  Proof.
    intros H (H1 & H2 & H3 & H4). split; [exact H1|]. split; [exact H2|]. split; [exact H3|].
    intros c x y Hc Hx Hy. rewrite (H4 c x y Hc Hx Hy). apply H.
  Qed.

  Lemma follow_undirected (g : gstate) u v :
    directed (sp g) = false -> (g_follow g u v <-> (edge_rel g u v \/ edge_rel g v u)).
  Proof. intros Hd. unfold g_follow. rewrite Hd. tauto. Qed.

  Lemma follow_directed (g : gstate) u v :
    directed (sp g) = true -> (g_follow g u v <-> edge_rel g u v).
  Proof. intros Hd. unfold g_follow. rewrite Hd. split; [intros [H|[H _]]; [exact H|discriminate]|tauto]. Qed.

  (* on an undirected graph, reachability along the adjacency query = connectedness over the edge list *)
  Lemma reach_step_connected (g : gstate) x y :
    WF g -> directed (sp g) = false -> (reach (step teqb g) x y <-> g_connected g x y).
  Proof.
    intros W Hd. unfold g_connected. apply reach_iff. intros u v.
    rewrite (step_iff g u v W). apply follow_undirected. exact Hd.
  Qed.

  Lemma reach_step_follow (g : gstate) x y :
    WF g -> (reach (step teqb g) x y <-> reach (g_follow g) x y).
  Proof. intros W. apply reach_iff. intros u v. apply step_iff. exact W. Qed.

  (* ------------------------------------------------------------------ *)
  (* the successors / predecessors name maps                              *)
  Lemma succ_rel_iff (g : gstate) u w : WF g -> (succ_rel teqb g u w <-> g_follow g u w).
  Proof.
    intros W. unfold succ_rel. destruct (wf_su _ _ _ W u) as (_ & Hm).
    change (name_row teqb (successors g) u) with (or_default teqb u (successors g)).
    rewrite (Hm w). rewrite (cn_group_iff g u w W). split; [tauto|].
    intros H. destruct (g_follow_nodes g u w H). auto.
  Qed.

  Lemma pred_row_iff (g : gstate) u v :
    WF g -> (In v (name_row teqb (predecessors g) u) <-> (directed (sp g) = true /\ edge_rel g v u)).
  Proof.
    intros W. destruct (wf_pr _ _ _ W u) as (_ & Hm).
    change (name_row teqb (predecessors g) u) with (or_default teqb u (predecessors g)).
    rewrite (Hm v). rewrite (edge_rel_iff g v u W). tauto.
  Qed.

  Lemma wstep_iff (g : gstate) u v :
    WF g -> directed (sp g) = true -> (wstep teqb g u v <-> (edge_rel g u v \/ edge_rel g v u)).
  Proof.
    intros W Hd. unfold wstep. fold (succ_rel teqb g u v).
    rewrite (succ_rel_iff g u v W), (follow_directed g u v Hd), (pred_row_iff g u v W). tauto.
  Qed.

  Lemma wstep_sym_wf (g : gstate) : WF g -> directed (sp g) = true ->
    forall u v, wstep teqb g u v -> wstep teqb g v u.
  Proof. intros W Hd u v. rewrite !(wstep_iff g) by assumption. tauto. Qed.

  Lemma wstep_closed_wf (g : gstate) : WF g -> directed (sp g) = true -> wstep_closed teqb g.
  Proof.
    intros W Hd u v H. apply (wstep_iff g u v W Hd) in H. unfold edge_rel in H.
    destruct H as [(_ & H & _)|(H & _)]; exact H.
  Qed.

  Lemma succ_closed_wf (g : gstate) : WF g ->
    forall u w, succ_rel teqb g u w -> In w (get_all_node_names g).
  Proof. intros W u w H. apply (succ_rel_iff g u w W) in H. apply (g_follow_nodes g u w H). Qed.

  Lemma smutual_iff (g : gstate) x y :
    WF g -> directed (sp g) = true -> (smutual teqb g x y <-> g_strongly g x y).
  Proof.
    intros W Hd. unfold smutual, g_strongly.
    assert (H : forall a b, reach (succ_rel teqb g) a b <-> reach (edge_rel g) a b).
    { apply reach_iff. intros u v. rewrite (succ_rel_iff g u v W). apply follow_directed. exact Hd. }
    rewrite !H. tauto.
  Qed.

  (* ------------------------------------------------------------------ *)
  (* the index adjacency of bfs_equal_size_partitions                     *)
  Lemma vec_ok_wf (g : gstate) : WF g -> vec_ok_b g = true.
  Proof.
    intros W. unfold vec_ok_b, number_of_nodes.
    destruct (wf_sv _ _ _ W) as (Hlen & Hrows).
    assert (Hn : nn g = length (nodes_vec g)) by (unfold WFDefs.nn; apply names_length).
    rewrite !andb_true_iff. split; [split|].
    - apply Nat.eqb_eq. lia.
    - apply forallb_forall. intros row Hrow. apply In_nth_error in Hrow. destruct Hrow as (i & Hi).
      destruct (Hrows i row Hi) as (_ & Hm). apply forallb_forall. intros (j, w) Hj. cbn [fst].
      apply Nat.ltb_lt. apply Hm in Hj. destruct Hj as (l & Hl & _).
      unfold WFDefs.grp_of in Hl. destruct (name_at g i); [|discriminate].
      destruct (name_at g j) eqn:Ej; [|discriminate].
      rewrite <- Hn. unfold WFDefs.nn. apply nth_error_Some. unfold WFDefs.name_at in Ej. congruence.
    - apply forallb_forall. intros i Hi. apply in_seq in Hi. unfold get_node_by_index.
      rewrite (wf_nrev _ _ _ W). destruct (nth_error (nodes_vec g) i) eqn:E; [reflexivity|].
      apply nth_error_None in E. lia.
  Qed.

  (* ================================================================== *)
  (* END TO END, for every coherent state                                 *)

  (* breadth_first_search from a node of the graph RETURNS; x first, no node twice, exactly
     the nodes reachable from x along stored edges (against them too on an undirected graph) *)
  Theorem bfs_wf (g : gstate) x :
    WF g -> In x (g_nodes g) ->
    exists l, breadth_first_search teqb g x = Ok l /\
              (exists t, l = x :: t) /\ NoDup l /\ (forall y, In y l <-> reach (g_follow g) x y).
  Proof.
    intros W Hx. destruct (bfs_total teqb teqb_spec g x (adj_total_wf g W) Hx) as (l & Hl).
    exists l. split; [exact Hl|]. destruct (bfs_correct teqb teqb_spec g x l Hl) as (H1 & H2 & H3).
    split; [exact H1|]. split; [exact H2|]. intros y. rewrite (H3 y). apply reach_step_follow. exact W.
  Qed.

  (* ... and from a name that is not a node the `unwrap` of the adjacency query fails *)
  Theorem bfs_absent (g : gstate) x :
    WF g -> ~ In x (g_nodes g) ->
    breadth_first_search teqb g x = Panic "query.rs:get_successors_or_neighbors unwrap".
  Proof.
    intros W Hx. unfold breadth_first_search. cbn [bfs_loop bfs_level mem_name existsb].
    assert (Hc : contains_key teqb x (nodes_map g) = false).
    { destruct (contains_key teqb x (nodes_map g)) eqn:E; [|reflexivity].
      exfalso. apply Hx. apply (contains_key_names teqb tltb g x W). exact E. }
    unfold get_successors_or_neighbors, get_successor_nodes, idx_set_nodes, get_neighbor_nodes.
    rewrite Hc. destruct (directed (sp g)); reflexivity.
  Qed.

  Theorem connected_components_wf (g : gstate) :
    WF g -> directed (sp g) = false ->
    exists cs, connected_components teqb g = Ok cs /\
               is_component_partition (g_nodes g) (g_connected g) cs.
  Proof.
    intros W Hd.
    assert (Htot : exists cs, connected_components teqb g = Ok cs).
    { pose proof (adj_total_wf g W) as Htot.
      unfold connected_components, ensure_undirected. rewrite Hd. cbn [bind].
      assert (G : forall names seen acc, incl names (g_nodes g) ->
                  exists cs, cc_loop teqb g names seen acc = Ok cs).
      { induction names as [ | v t IH ]; intros seen acc Hin; cbn [cc_loop]; [eexists; reflexivity | ].
        assert (Ht : incl t (g_nodes g)) by (intros z Hz; apply Hin; cbn; tauto).
        destruct (mem_name teqb v seen); [apply IH; exact Ht | ].
        destruct (bfs_total teqb teqb_spec g v Htot (Hin v (or_introl eq_refl))) as [l Hl].
        rewrite Hl. cbn [bind]. apply IH. exact Ht. }
      apply G. apply incl_refl. }
    destruct Htot as (cs & Hcs). exists cs. split; [exact Hcs|].
    apply (partition_ext _ (reach (step teqb g))); [intros x y; apply reach_step_connected; assumption|].
    apply (connected_components_partition teqb teqb_spec g cs); [| |exact Hcs].
    - intros u v. rewrite !(step_iff g) by exact W. rewrite !(follow_undirected g) by exact Hd. tauto.
    - intros u v _ Hs. apply (step_iff g u v W) in Hs. apply (g_follow_nodes g u v Hs).
  Qed.

  Theorem number_of_connected_components_wf (g : gstate) :
    WF g -> directed (sp g) = false ->
    exists cs, number_of_connected_components teqb g = Ok (length cs) /\
               is_component_partition (g_nodes g) (g_connected g) cs.
  Proof.
    intros W Hd. destruct (connected_components_wf g W Hd) as (cs & Hcs & Hp).
    exists cs. split; [|exact Hp]. unfold number_of_connected_components. rewrite Hcs. reflexivity.
  Qed.

  Lemma In_names_existsb (g : gstate) x :
    existsb (fun n : node T A => teqb (nname n) x) (nodes_vec g) = true <-> In x (g_nodes g).
  Proof.
    unfold g_nodes, get_all_node_names. rewrite existsb_exists, in_map_iff. split.
    - intros (n & Hn & E). apply teqb_spec in E. eauto.
    - intros (n & E & Hn). exists n. split; [exact Hn|apply teqb_spec; exact E].
  Qed.

  (* node_connected_component(x): the connectedness class of x when x is a node,
     NodeNotFound otherwise *)
  Theorem node_component_wf (g : gstate) x :
    WF g -> directed (sp g) = false ->
    (In x (g_nodes g) ->
       exists s, node_connected_component teqb g x = Ok s /\ NoDup s /\
                 (forall y, In y s <-> g_connected g x y)) /\
    (~ In x (g_nodes g) -> node_connected_component teqb g x = Err NodeNotFound).
  Proof.
    intros W Hd. split; intros Hx.
    - destruct (bfs_wf g x W Hx) as (l & Hl & _).
      assert (Hn : exists s, node_connected_component teqb g x = Ok s).
      { unfold node_connected_component, ensure_undirected. rewrite Hd. cbn [bind].
        rewrite (has_node_spec teqb tltb teqb_spec g x W). cbn [bind].
        rewrite (proj2 (In_names_existsb g x) Hx). cbn [negb]. rewrite Hl. cbn [bind]. eauto. }
      destruct Hn as (s & Hs). exists s. split; [exact Hs|].
      destruct (node_component_correct teqb teqb_spec g x s Hs) as (_ & Hnd & Hm).
      split; [exact Hnd|]. intros y. rewrite (Hm y). apply reach_step_connected; assumption.
    - apply (node_component_absent teqb g x Hd). rewrite (has_node_spec teqb tltb teqb_spec g x W).
      destruct (existsb _ (nodes_vec g)) eqn:E; [|reflexivity].
      exfalso. apply Hx. apply In_names_existsb. exact E.
  Qed.

  Theorem weakly_connected_components_wf (g : gstate) :
    WF g -> directed (sp g) = true ->
    exists cs, weakly_connected_components teqb g = Ok cs /\
               is_component_partition (g_nodes g) (g_connected g) cs.
  Proof.
    intros W Hd. pose proof (wstep_closed_wf g W Hd) as Hcl.
    assert (Htot : exists cs, weakly_connected_components teqb g = Ok cs).
    { unfold weakly_connected_components, ensure_directed. rewrite Hd. cbn [bind].
      assert (G : forall names seen acc, incl names (g_nodes g) ->
                  exists cs, wcc_loop teqb g names seen acc = Ok cs).
      { induction names as [ | v t IH ]; intros seen acc Hin; cbn [wcc_loop]; [eexists; reflexivity | ].
        assert (Ht : incl t (g_nodes g)) by (intros z Hz; apply Hin; cbn; tauto).
        destruct (mem_name teqb v seen); [apply IH; exact Ht | ].
        destruct (plain_bfs_total teqb teqb_spec g v Hcl (Hin v (or_introl eq_refl))) as [l Hl].
        rewrite Hl. cbn [bind]. apply IH. exact Ht. }
      apply G. apply incl_refl. }
    destruct Htot as (cs & Hcs). exists cs. split; [exact Hcs|].
    apply (partition_ext _ (reach (wstep teqb g))).
    { intros x y. unfold g_connected. apply reach_iff. intros u v. apply wstep_iff; assumption. }
    apply (weakly_connected_components_partition teqb teqb_spec g cs); [| |exact Hcs].
    - apply wstep_sym_wf; assumption.
    - intros u v _ Hs. apply (Hcl u v Hs).
  Qed.

  (* strongly_connected_components, for EVERY neighbour iteration order that permutes each
     successor set (as any HashSet iteration does) *)
  Theorem strongly_connected_components_wf (ord : list T -> list T) (g : gstate) :
    (forall l x, In x (ord l) <-> In x l) ->
    WF g -> directed (sp g) = true ->
    exists cs, strongly_connected_components teqb ord g = Ok cs /\
               is_component_partition (g_nodes g) (g_strongly g) cs.
  Proof.
    intros Hord W Hd.
    destruct (scc_total teqb teqb_spec ord g Hord (succ_closed_wf g W) Hd) as (cs & Hcs).
    exists cs. split; [exact Hcs|].
    apply (partition_ext _ (smutual teqb g)); [intros x y; apply smutual_iff; assumption|].
    apply (scc_correct teqb teqb_spec ord g Hord (succ_closed_wf g W) cs Hcs).
  Qed.

  Theorem equal_size_total_wf (g : gstate) k :
    WF g -> 1 <= k -> exists ps, bfs_equal_size_partitions g k = Ok ps.
  Proof. intros W Hk. apply equal_size_total; [apply vec_ok_wf; exact W|exact Hk]. Qed.

  (* the executable per-case tests / hypotheses of the C10 theorems, as consequences of WF *)
  Theorem tests_hold_wf (g : gstate) : WF g ->
    (forall u v, step teqb g u v <-> g_follow g u v) /\
    adj_total teqb g /\
    vec_ok_b g = true /\
    (forall u w, succ_rel teqb g u w <-> g_follow g u w) /\
    (directed (sp g) = true ->
       (forall u v, wstep teqb g u v <-> (edge_rel g u v \/ edge_rel g v u)) /\
       wstep_closed teqb g).
  Proof.
    intros W.
    split; [intros u v; exact (step_iff g u v W)|].
    split; [exact (adj_total_wf g W)|].
    split; [exact (vec_ok_wf g W)|].
    split; [intros u w; exact (succ_rel_iff g u w W)|].
    intros Hd.
    split; [intros u v; exact (wstep_iff g u v W Hd)|].
    exact (wstep_closed_wf g W Hd).
  Qed.

  (* the adjacency query of the searches, against the edge list *)
  Theorem successors_or_neighbors_wf (g : gstate) u :
    WF g -> In u (g_nodes g) ->
    exists ns, get_successors_or_neighbors teqb g u = Ok ns /\
               forall v, In v (map nname ns) <-> g_follow g u v.
  Proof.
    intros W Hu. destruct (adj_total_wf g W u Hu) as (ns & Hq & _). exists ns. split; [exact Hq|].
    intros v. rewrite <- (step_iff g u v W). unfold step. split.
    - intros Hv. exists ns. auto.
    - intros (ns' & Hq' & Hv). rewrite Hq in Hq'. inversion Hq'; subst. exact Hv.
  Qed.
  (* two partitions of the same node list by the same relation have the same classes *)
  Theorem partition_unique (nodes : list T) (rel : T -> T -> Prop) cs1 cs2 :
    is_component_partition nodes rel cs1 -> is_component_partition nodes rel cs2 ->
    forall c1, In c1 cs1 -> exists c2, In c2 cs2 /\ forall y, In y c1 <-> In y c2.
  Proof.
    intros (N1 & _ & C1 & R1) (_ & _ & C2 & R2) c1 Hc1.
    destruct c1 as [ | x t ] eqn:Ec; [exfalso; apply (N1 [] Hc1); reflexivity | ]. rewrite <- Ec in *.
    assert (Hx : In x c1) by (rewrite Ec; left; reflexivity).
    assert (Hin1 : forall y, In y c1 -> In y nodes).
    { intros y Hy. apply C1. apply in_concat. exists c1. auto. }
    pose proof (Hin1 x Hx) as Hxn. apply C2 in Hxn. apply in_concat in Hxn. destruct Hxn as (c2 & Hc2 & Hx2).
    assert (Hin2 : forall y, In y c2 -> In y nodes).
    { intros y Hy. apply C2. apply in_concat. exists c2. auto. }
    exists c2. split; [exact Hc2 | ]. intros y. split; intros Hy.
    - apply (R2 c2 x y Hc2 Hx2 (Hin1 y Hy)). apply (R1 c1 x y Hc1 Hx (Hin1 y Hy)). exact Hy.
    - apply (R1 c1 x y Hc1 Hx (Hin2 y Hy)). apply (R2 c2 x y Hc2 Hx2 (Hin2 y Hy)). exact Hy.
  Qed.

  (* the strong components do not depend on the neighbour iteration order *)
  Theorem scc_order_independent (ord1 ord2 : list T -> list T) (g : gstate) cs1 cs2 :
    (forall l x, In x (ord1 l) <-> In x l) -> (forall l x, In x (ord2 l) <-> In x l) ->
    WF g ->
    strongly_connected_components teqb ord1 g = Ok cs1 ->
    strongly_connected_components teqb ord2 g = Ok cs2 ->
    forall c1, In c1 cs1 -> exists c2, In c2 cs2 /\ forall y, In y c1 <-> In y c2.
  Proof.
    intros H1 H2 W E1 E2.
    assert (Hd : directed (sp g) = true).
    { destruct (directed (sp g)) eqn:Hd; [reflexivity | ].
      destruct (wrong_kind teqb g) as (_ & Hw). destruct (Hw Hd) as (_ & Hs). rewrite (Hs ord1) in E1. discriminate. }
    destruct (strongly_connected_components_wf ord1 g H1 W Hd) as (cs1' & E1' & P1).
    destruct (strongly_connected_components_wf ord2 g H2 W Hd) as (cs2' & E2' & P2).
    rewrite E1 in E1'. inversion E1'; subst cs1'. rewrite E2 in E2'. inversion E2'; subst cs2'.
    apply (partition_unique _ _ cs1 cs2 P1 P2).
  Qed.

  (* the two orders the Run module evaluates: insertion order and its reverse *)
  Theorem scc_run_orders (g : gstate) :
    WF g -> directed (sp g) = true ->
    (exists cs, strongly_connected_components teqb (fun l => l) g = Ok cs /\
                is_component_partition (g_nodes g) (g_strongly g) cs) /\
    (exists cs, strongly_connected_components teqb (@rev T) g = Ok cs /\
                is_component_partition (g_nodes g) (g_strongly g) cs).
  Proof.
    intros W Hd. split.
    - apply strongly_connected_components_wf; [intros l x; tauto | exact W | exact Hd].
    - apply strongly_connected_components_wf; [intros l x; symmetry; apply in_rev | exact W | exact Hd].
  Qed.
End CompWF.
