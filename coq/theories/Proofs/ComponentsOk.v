(* C10 proofs about the model of Model/Query.v (breadth_first_search) and
   Model/Components.v: the verified checker on graph states, the BFS loop
   invariant (head, NoDup, sound, complete), kind guards, count and
   node-component identities. *)
From Coq Require Import String List Bool Arith Lia.
From GV Require Import Base.Outcome Base.AMap Model.GState Model.Creation Model.Query
     Model.Components Model.Scc Spec.ReachDef Spec.CompSpec Proofs.ReachOk.
Import ListNotations.

Section ComponentsOk.
  Context {T A : Type}.
  Variable teqb : T -> T -> bool.
  Hypothesis teqb_spec : forall x y, teqb x y = true <-> x = y.
  Notation gstate := (gstate T A).

  (* ------------------------------------------------------------------ *)
  (* the checker on graph states                                          *)
  Lemma g_adj_spec : forall (g : gstate) u v,
    In v (g_adj teqb g u) <-> exists e, In e (get_all_edges g) /\ eu e = u /\ ev e = v.
  Proof.
    intros g u v. unfold g_adj. rewrite in_map_iff. split.
    - intros [e [Hv He]]. apply filter_In in He. destruct He as [He Hu].
      apply teqb_spec in Hu. exists e. tauto.
    - intros [e [He [Hu Hv]]]. exists e. split; [exact Hv | ].
      apply filter_In. split; [exact He | apply teqb_spec; exact Hu].
  Qed.

  Lemma E_edge_rel : forall (g : gstate) u v,
    E (g_nodes g) (g_adj teqb g) u v <-> edge_rel g u v.
  Proof. intros g u v. unfold E, edge_rel. rewrite g_adj_spec. tauto. Qed.

  Lemma rel_of_g_rel : forall (g : gstate) k x y,
    rel_of (g_nodes g) (g_adj teqb g) k x y <-> g_rel k g x y.
  Proof.
    intros g k x y. destruct k; cbn [rel_of g_rel].
    - unfold connected, g_connected. split; apply reach_ext; intros u v; unfold Esym;
        rewrite !E_edge_rel; tauto.
    - unfold strongly, g_strongly.
      split; intros [H1 H2]; split;
        (eapply reach_ext; [ | eassumption ]; intros u v; apply E_edge_rel).
  Qed.

  Theorem check_components_g_sound : forall (g : gstate) k comps,
    check_components_g teqb g k comps = true ->
    is_component_partition (g_nodes g) (g_rel k g) comps.
  Proof.
    intros g k comps H. apply (check_components_sound teqb teqb_spec) in H.
    destruct H as [H1 [H2 [H3 H4]]]. split; [exact H1 | split; [exact H2 | split; [exact H3 | ] ] ].
    intros c x y Hc Hx Hy. rewrite (H4 c x y Hc Hx Hy). apply rel_of_g_rel.
  Qed.

  (* ------------------------------------------------------------------ *)
  (* list-set helpers of the model                                        *)
  Lemma mem_name_In : forall x l, mem_name teqb x l = true <-> In x l.
  Proof. intros x l. unfold mem_name. apply (memb_In teqb teqb_spec). Qed.

  Lemma mem_name_false : forall x l, mem_name teqb x l = false <-> ~ In x l.
  Proof. intros x l. unfold mem_name. apply (memb_false teqb teqb_spec). Qed.

  Lemma union_names_In : forall b a z, In z (union_names teqb a b) <-> In z a \/ In z b.
  Proof.
    induction b as [ | x b IH ]; intros a z; cbn [union_names].
    - cbn. tauto.
    - rewrite IH. destruct (mem_name teqb x a) eqn:Hm.
      + apply mem_name_In in Hm. cbn. split; [tauto | ]. intros [H | [H | H]]; subst; tauto.
      + rewrite in_app_iff. cbn. tauto.
  Qed.

  Lemma NoDup_app_snoc : forall (l : list T) x, NoDup l -> ~ In x l -> NoDup (l ++ [x]).
  Proof.
    induction l as [ | a l IH ]; intros x Hl Hx; cbn.
    - constructor; [intros [] | constructor].
    - inversion Hl; subst. constructor.
      + rewrite in_app_iff. cbn. intros [H | [H | []]]; [tauto | ]. subst. apply Hx. cbn. tauto.
      + apply IH; [assumption | ]. intros H. apply Hx. cbn. tauto.
  Qed.

  Lemma union_names_NoDup : forall b a, NoDup a -> NoDup (union_names teqb a b).
  Proof.
    induction b as [ | x b IH ]; intros a Ha; cbn [union_names].
    - exact Ha.
    - apply IH. destruct (mem_name teqb x a) eqn:Hm.
      + exact Ha.
      + apply mem_name_false in Hm. apply NoDup_app_snoc; assumption.
  Qed.

  (* ------------------------------------------------------------------ *)
  (* breadth_first_search                                                 *)

  (* the adjacency the search follows: successors on a directed graph,
     neighbours on an undirected one, exactly as the model's query returns them *)
  Definition step (g : gstate) (u v : T) : Prop :=
    exists ns, get_successors_or_neighbors teqb g u = Ok ns /\ In v (map nname ns).

  Record bfs_inv (g : gstate) (x : T) (front seen : list T) : Prop := {
    inv_nodup : NoDup seen;
    inv_reach : forall u, In u seen \/ In u front -> reach (step g) x u;
    inv_closed : forall u v, In u seen -> step g u v -> In v seen \/ In v front;
    inv_head : match seen with [] => forall u, In u front -> u = x | h :: _ => h = x end;
    inv_start : In x seen \/ In x front
  }.

  Lemma bfs_level_inv : forall (g : gstate) x lvl seen ret next seen' ret' next',
    bfs_level teqb g lvl seen ret next = Ok (seen', ret', next') ->
    ret = seen ->
    bfs_inv g x (lvl ++ next) seen ->
    ret' = seen' /\ bfs_inv g x next' seen'.
  Proof.
    intros g x. induction lvl as [ | v t IH ]; intros seen ret next seen' ret' next' H Hret Hinv.
    - cbn in H. inversion H; subst. split; [reflexivity | exact Hinv].
    - cbn [bfs_level] in H. destruct (mem_name teqb v seen) eqn:Hm.
      + apply mem_name_In in Hm. apply (IH _ _ _ _ _ _ H Hret).
        destruct Hinv as [I1 I2 I3 I4 I5]. constructor.
        * exact I1.
        * intros u Hu. apply I2. cbn. tauto.
        * intros u w Hu Hs. destruct (I3 u w Hu Hs) as [Hw | Hw]; [tauto | ].
          cbn in Hw. destruct Hw as [Hw | Hw]; [subst; tauto | tauto].
        * destruct seen as [ | h s ]; [destruct Hm | exact I4].
        * destruct I5 as [I5 | I5]; [tauto | ]. cbn in I5. destruct I5 as [I5 | I5]; [subst; tauto | tauto].
      + apply mem_name_false in Hm.
        destruct (get_successors_or_neighbors teqb g v) as [ns | k | s | ] eqn:Hg;
          cbn [bind] in H; try discriminate.
        apply (IH _ _ _ _ _ _ H).
        * rewrite Hret. reflexivity.
        * destruct Hinv as [I1 I2 I3 I4 I5]. constructor.
          -- apply NoDup_app_snoc; assumption.
          -- intros u Hu. rewrite !in_app_iff, union_names_In in Hu. cbn in Hu.
             destruct Hu as [[Hu | [Hu | []]] | [Hu | [Hu | Hu]]].
             ++ apply I2. tauto.
             ++ subst. apply I2. right. cbn. tauto.
             ++ apply I2. right. cbn. rewrite in_app_iff. tauto.
             ++ apply I2. right. cbn. rewrite in_app_iff. tauto.
             ++ eapply reach_step; [apply I2; right; cbn; left; reflexivity | ].
                exists ns. tauto.
          -- intros u w Hu Hs. rewrite in_app_iff in Hu. cbn in Hu.
             rewrite !in_app_iff, union_names_In. cbn.
             destruct Hu as [Hu | [Hu | []]].
             ++ destruct (I3 u w Hu Hs) as [Hw | Hw]; [tauto | ].
                cbn in Hw. rewrite in_app_iff in Hw. destruct Hw as [Hw | [Hw | Hw]]; subst; tauto.
             ++ subst u. destruct Hs as [ns' [Hg' Hw]]. rewrite Hg in Hg'. inversion Hg'; subst. tauto.
          -- destruct seen as [ | h s ]; cbn.
             ++ apply I4. cbn. tauto.
             ++ exact I4.
          -- rewrite in_app_iff. cbn. destruct I5 as [I5 | I5]; [tauto | ].
             cbn in I5. rewrite in_app_iff in I5. rewrite in_app_iff, union_names_In.
             destruct I5 as [I5 | [I5 | I5]]; subst; tauto.
  Qed.

  Lemma bfs_loop_inv : forall (g : gstate) x fuel seen ret next l,
    bfs_loop teqb fuel g seen ret next = Ok l ->
    ret = seen ->
    bfs_inv g x next seen ->
    bfs_inv g x [] l.
  Proof.
    intros g x. induction fuel as [ | f IH ]; intros seen ret next l H Hret Hinv.
    - destruct next; cbn in H; [ | discriminate]. inversion H; subst. exact Hinv.
    - destruct next as [ | n0 nt ].
      + cbn in H. inversion H; subst. exact Hinv.
      + cbn [bfs_loop] in H.
        destruct (bfs_level teqb g (n0 :: nt) seen ret []) as [[[s1 r1] n1] | k | s | ] eqn:Hl;
          cbn [bind] in H; try discriminate.
        destruct (bfs_level_inv g x _ _ _ _ _ _ _ Hl Hret) as [Hr1 Hi1].
        { rewrite app_nil_r. exact Hinv. }
        eapply IH; eassumption.
  Qed.

  Theorem bfs_correct : forall (g : gstate) x l,
    breadth_first_search teqb g x = Ok l ->
    (exists t, l = x :: t) /\ NoDup l /\ (forall y, In y l <-> reach (step g) x y).
  Proof.
    intros g x l H. unfold breadth_first_search in H.
    assert (Hinv : bfs_inv g x [] l).
    { eapply bfs_loop_inv; [exact H | reflexivity | ]. constructor.
      - constructor.
      - intros u [[] | [Hu | []]]. subst. apply reach_refl.
      - intros u v [].
      - intros u [Hu | []]. subst. reflexivity.
      - right. cbn. tauto. }
    destruct Hinv as [I1 I2 I3 I4 I5].
    assert (Hx : In x l) by (destruct I5 as [I5 | []]; exact I5).
    split; [ | split ].
    - destruct l as [ | h t ]; [destruct Hx | ]. subst h. exists t. reflexivity.
    - exact I1.
    - intros y. split.
      + intros Hy. apply I2. tauto.
      + intros Hr. clear H I2 I4 I5. induction Hr as [ | a b c _ IH Hbc ].
        * exact Hx.
        * destruct (I3 b c (IH Hx) Hbc) as [Hc | []]. exact Hc.
  Qed.

  (* ------------------------------------------------------------------ *)
  (* to_hashset keeps exactly the elements, without duplicates            *)
  Lemma set_add_In : forall x l z, In z (set_add teqb x l) <-> z = x \/ In z l.
  Proof.
    intros x l z. unfold set_add. destruct (mem teqb x l) eqn:Hm.
    - unfold mem in Hm. apply (memb_In teqb teqb_spec) in Hm. split; [tauto | ].
      intros [H | H]; subst; assumption.
    - rewrite in_app_iff. cbn. split; intros H; intuition.
  Qed.

  Lemma set_add_NoDup : forall x l, NoDup l -> NoDup (set_add teqb x l).
  Proof.
    intros x l Hl. unfold set_add. destruct (mem teqb x l) eqn:Hm.
    - exact Hl.
    - unfold mem in Hm. apply (memb_false teqb teqb_spec) in Hm. apply NoDup_app_snoc; assumption.
  Qed.

  Lemma fold_set_add_spec : forall l acc,
    NoDup acc ->
    NoDup (fold_left (fun a x => set_add teqb x a) l acc) /\
    (forall z, In z (fold_left (fun a x => set_add teqb x a) l acc) <-> In z acc \/ In z l).
  Proof.
    induction l as [ | x l IH ]; intros acc Hacc; cbn [fold_left].
    - split; [exact Hacc | intros z; cbn; tauto].
    - destruct (IH (set_add teqb x acc) (set_add_NoDup x acc Hacc)) as [H1 H2].
      split; [exact H1 | ]. intros z. rewrite H2, set_add_In. cbn. split; intros H; intuition.
  Qed.

  Lemma to_hashset_spec : forall l,
    NoDup (to_hashset teqb l) /\ (forall z, In z (to_hashset teqb l) <-> In z l).
  Proof.
    intros l. unfold to_hashset. destruct (fold_set_add_spec l [] (NoDup_nil T)) as [H1 H2].
    split; [exact H1 | ]. intros z. rewrite H2. cbn. tauto.
  Qed.

  (* ------------------------------------------------------------------ *)
  (* kind guards, count, node component                                   *)
  Theorem wrong_kind : forall (g : gstate),
    (directed (sp g) = true ->
       connected_components teqb g = Err WrongMethod /\
       number_of_connected_components teqb g = Err WrongMethod /\
       forall x, node_connected_component teqb g x = Err WrongMethod) /\
    (directed (sp g) = false ->
       weakly_connected_components teqb g = Err WrongMethod /\
       forall ord, strongly_connected_components teqb ord g = Err WrongMethod).
  Proof.
    intros g. split; intros Hd.
    - unfold number_of_connected_components, connected_components, node_connected_component,
        ensure_undirected. rewrite Hd. cbn. auto.
    - unfold weakly_connected_components, strongly_connected_components, ensure_directed.
      rewrite Hd. cbn. auto.
  Qed.

  Theorem count_is_length : forall (g : gstate) n,
    number_of_connected_components teqb g = Ok n ->
    exists cs, connected_components teqb g = Ok cs /\ n = length cs.
  Proof.
    intros g n H. unfold number_of_connected_components in H.
    destruct (connected_components teqb g) as [cs | | | ]; cbn [bind] in H; try discriminate.
    inversion H. exists cs. auto.
  Qed.

  Theorem node_component_correct : forall (g : gstate) x s,
    node_connected_component teqb g x = Ok s ->
    directed (sp g) = false /\ NoDup s /\ (forall y, In y s <-> reach (step g) x y).
  Proof.
    intros g x s H. unfold node_connected_component, ensure_undirected in H.
    destruct (directed (sp g)) eqn:Hd; cbn [bind] in H; [discriminate | ].
    destruct (has_node teqb g x) as [b | | | ]; cbn [bind] in H; try discriminate.
    destruct b; cbn [negb] in H; [ | discriminate].
    destruct (breadth_first_search teqb g x) as [l | | | ] eqn:Hb; cbn [bind] in H; try discriminate.
    inversion H; subst s. destruct (bfs_correct g x l Hb) as [_ [_ H3]].
    destruct (to_hashset_spec l) as [H4 H5].
    split; [reflexivity | split; [exact H4 | ] ].
    intros y. rewrite H5. apply H3.
  Qed.

  Theorem node_component_absent : forall (g : gstate) x,
    directed (sp g) = false -> has_node teqb g x = Ok false ->
    node_connected_component teqb g x = Err NodeNotFound.
  Proof.
    intros g x Hd Hn. unfold node_connected_component, ensure_undirected. rewrite Hd. cbn [bind].
    rewrite Hn. reflexivity.
  Qed.

  (* ------------------------------------------------------------------ *)
  (* the "search from every unseen node" loop shared by connected_components
     and weakly_connected_components, for an abstract search function      *)
  Fixpoint gen_loop (search : T -> outcome (list T)) (names seen : list T) (acc : list (list T))
    : outcome (list (list T)) :=
    match names with
    | [] => Ok acc
    | v :: t =>
      if mem_name teqb v seen then gen_loop search t seen acc else
      do b <- search v;
      let hs := to_hashset teqb b in
      gen_loop search t (union_names teqb seen hs) (acc ++ [hs])
    end.

  Lemma cc_loop_gen : forall (g : gstate) names seen acc,
    cc_loop teqb g names seen acc = gen_loop (breadth_first_search teqb g) names seen acc.
  Proof.
    intros g. induction names as [ | v t IH ]; intros seen acc; cbn [cc_loop gen_loop]; [reflexivity | ].
    destruct (mem_name teqb v seen); [apply IH | ].
    destruct (breadth_first_search teqb g v); cbn [bind]; try reflexivity. apply IH.
  Qed.

  Lemma wcc_loop_gen : forall (g : gstate) names seen acc,
    wcc_loop teqb g names seen acc = gen_loop (plain_bfs teqb g) names seen acc.
  Proof.
    intros g. induction names as [ | v t IH ]; intros seen acc; cbn [wcc_loop gen_loop]; [reflexivity | ].
    destruct (mem_name teqb v seen); [apply IH | ].
    destruct (plain_bfs teqb g v); cbn [bind]; try reflexivity. apply IH.
  Qed.

  Lemma NoDup_app_disjoint : forall (a b : list T),
    NoDup a -> NoDup b -> (forall x, In x a -> ~ In x b) -> NoDup (a ++ b).
  Proof.
    induction a as [ | h a IH ]; intros b Ha Hb Hd; cbn [app]; [exact Hb | ].
    inversion Ha; subst. constructor.
    - rewrite in_app_iff. intros [H | H]; [contradiction | ]. apply (Hd h); [cbn; tauto | exact H].
    - apply IH; [assumption | assumption | ]. intros x Hx. apply Hd. cbn. tauto.
  Qed.

  Section GenLoop.
    Variable R : T -> T -> Prop.
    Hypothesis R_sym : forall u v, R u v -> R v u.
    Variable nodes : list T.
    Hypothesis R_closed : forall u v, In u nodes -> R u v -> In v nodes.
    Variable search : T -> outcome (list T).
    Hypothesis search_ok : forall v b, search v = Ok b -> forall y, In y b <-> reach R v y.

    Lemma reach_closed : forall u v, In u nodes -> reach R u v -> In v nodes.
    Proof.
      intros u v Hu Hr. induction Hr as [ | a b c _ IH Hbc ]; [exact Hu | ].
      eapply R_closed; [apply IH; exact Hu | exact Hbc].
    Qed.

    Record cinv (seen : list T) (acc : list (list T)) : Prop := {
      c_class : forall c, In c acc -> exists s, In s nodes /\ NoDup c /\ forall y, In y c <-> reach R s y;
      c_seen : forall y, In y seen <-> In y (concat acc);
      c_nodup : NoDup (concat acc)
    }.

    Lemma gen_loop_mono : forall names seen acc cs y,
      gen_loop search names seen acc = Ok cs -> In y (concat acc) -> In y (concat cs).
    Proof.
      induction names as [ | w t IHt ]; intros seen acc cs y H Hc; cbn [gen_loop] in H.
      - inversion H; subst. exact Hc.
      - destruct (mem_name teqb w seen); [apply (IHt _ _ _ _ H Hc) | ].
        destruct (search w); cbn [bind] in H; try discriminate.
        apply (IHt _ _ _ _ H). rewrite concat_app, in_app_iff. tauto.
    Qed.

    Lemma gen_loop_inv : forall names seen acc cs,
      gen_loop search names seen acc = Ok cs ->
      incl names nodes -> cinv seen acc ->
      exists seen', cinv seen' cs /\ (forall v, In v names -> In v seen').
    Proof.
      induction names as [ | v t IH ]; intros seen acc cs H Hin Hinv; cbn [gen_loop] in H.
      - inversion H; subst. exists seen. split; [exact Hinv | intros v []].
      - assert (Hv : In v nodes) by (apply Hin; cbn; tauto).
        assert (Ht : incl t nodes) by (intros z Hz; apply Hin; cbn; tauto).
        destruct (mem_name teqb v seen) eqn:Hm.
        + apply mem_name_In in Hm. destruct (IH _ _ _ H Ht Hinv) as [s' [Hi Hall]].
          exists s'. split; [exact Hi | ]. intros z [Hz | Hz]; [ | apply Hall; exact Hz].
          subst z. destruct Hinv as [C1 C2 C3]. destruct Hi as [D1 D2 D3].
          apply D2. apply (gen_loop_mono _ _ _ _ v H). apply C2. exact Hm.
        + apply mem_name_false in Hm.
          destruct (search v) as [b | | | ] eqn:Hs; cbn [bind] in H; try discriminate.
          destruct (to_hashset_spec b) as [Hnd Hel].
          assert (Hinv' : cinv (union_names teqb seen (to_hashset teqb b)) (acc ++ [to_hashset teqb b])).
          { destruct Hinv as [C1 C2 C3]. constructor.
            - intros c Hc. apply in_app_iff in Hc. destruct Hc as [Hc | [Hc | []]].
              + apply C1. exact Hc.
              + subst c. exists v. split; [exact Hv | split; [exact Hnd | ] ].
                intros y. rewrite Hel. apply (search_ok v b Hs).
            - intros y. rewrite union_names_In, concat_app, in_app_iff, C2. cbn [concat].
              rewrite app_nil_r. tauto.
            - rewrite concat_app. cbn [concat]. rewrite app_nil_r.
              apply NoDup_app_disjoint; [exact C3 | exact Hnd | ].
              intros x Hx Hxb. apply in_concat in Hx. destruct Hx as [c [Hc Hxc]].
              destruct (C1 c Hc) as [s [Hs' [_ Hcl]]].
              apply Hm. apply C2. apply in_concat. exists c. split; [exact Hc | ].
              apply Hcl. apply Hel in Hxb. apply (search_ok v b Hs) in Hxb. apply Hcl in Hxc.
              eapply reach_trans; [exact Hxc | ]. apply reach_sym; [exact R_sym | exact Hxb]. }
          destruct (IH _ _ _ H Ht Hinv') as [s' [Hi Hall]].
          exists s'. split; [exact Hi | ]. intros z [Hz | Hz]; [ | apply Hall; exact Hz].
          subst z. destruct Hi as [D1 D2 D3]. apply D2. apply (gen_loop_mono _ _ _ _ v H).
          rewrite concat_app, in_app_iff. right. cbn [concat]. rewrite app_nil_r.
          apply Hel. apply (search_ok v b Hs). apply reach_refl.
    Qed.

    Theorem gen_loop_partition : forall cs,
      gen_loop search nodes [] [] = Ok cs ->
      is_component_partition nodes (reach R) cs.
    Proof.
      intros cs H.
      destruct (gen_loop_inv nodes [] [] cs H (incl_refl nodes)) as [seen' [[C1 C2 C3] Hall]].
      { constructor.
        - intros c [].
        - intros y. cbn. tauto.
        - constructor. }
      split; [ | split; [ | split ] ].
      - intros c Hc Hnil. destruct (C1 c Hc) as [s [_ [_ Hcl]]]. subst c.
        apply (Hcl s). apply reach_refl.
      - exact C3.
      - intros x. split.
        + intros Hx. apply C2. apply Hall. exact Hx.
        + intros Hx. apply in_concat in Hx. destruct Hx as [c [Hc Hxc]].
          destruct (C1 c Hc) as [s [Hs [_ Hcl]]]. apply (reach_closed s x Hs). apply Hcl. exact Hxc.
      - intros c x y Hc Hx Hy. destruct (C1 c Hc) as [s [Hs [_ Hcl]]]. rewrite Hcl.
        apply Hcl in Hx. split; intros Hr.
        + eapply reach_trans; [apply reach_sym; [exact R_sym | exact Hx] | exact Hr].
        + eapply reach_trans; [exact Hx | exact Hr].
    Qed.
  End GenLoop.

  (* connected_components: for every undirected graph state whose adjacency query is
     symmetric and stays inside the node list, the result IS the partition of the node
     list into the classes of reachability along that adjacency *)
  Theorem connected_components_partition : forall (g : gstate) cs,
    (forall u v, step g u v -> step g v u) ->
    (forall u v, In u (g_nodes g) -> step g u v -> In v (g_nodes g)) ->
    connected_components teqb g = Ok cs ->
    is_component_partition (g_nodes g) (reach (step g)) cs.
  Proof.
    intros g cs Hsym Hcl H. unfold connected_components in H.
    destruct (ensure_undirected g); cbn [bind] in H; try discriminate.
    rewrite cc_loop_gen in H.
    apply (gen_loop_partition (step g) Hsym (g_nodes g) Hcl (breadth_first_search teqb g)); [ | exact H].
    intros v b Hb y. destruct (bfs_correct g v b Hb) as [_ [_ H3]]. apply H3.
  Qed.

  (* ------------------------------------------------------------------ *)
  (* plain_bfs (successors and predecessors name maps) and weak components *)
  Definition wstep (g : gstate) (u v : T) : Prop :=
    In v (name_row teqb (successors g) u) \/ In v (name_row teqb (predecessors g) u).

  Record pinv (g : gstate) (x : T) (front seen ret : list T) : Prop := {
    p_same : forall y, In y ret <-> In y seen;
    p_reach : forall u, In u seen \/ In u front -> reach (wstep g) x u;
    p_closed : forall u v, In u seen -> wstep g u v -> In v seen \/ In v front;
    p_start : In x seen \/ In x front
  }.

  Lemma plain_level_inv : forall (g : gstate) x lvl seen ret next seen' ret' next',
    plain_level teqb g lvl seen ret next = (seen', ret', next') ->
    pinv g x (lvl ++ next) seen ret ->
    pinv g x next' seen' ret'.
  Proof.
    intros g x. induction lvl as [ | v t IH ]; intros seen ret next seen' ret' next' H Hinv.
    - cbn in H. inversion H; subst. exact Hinv.
    - cbn [plain_level] in H. destruct (mem_name teqb v seen) eqn:Hm.
      + apply mem_name_In in Hm. apply (IH _ _ _ _ _ _ H).
        destruct Hinv as [I0 I2 I3 I5]. constructor.
        * exact I0.
        * intros u Hu. apply I2. cbn. tauto.
        * intros u w Hu Hs. destruct (I3 u w Hu Hs) as [Hw | Hw]; [tauto | ].
          cbn in Hw. destruct Hw as [Hw | Hw]; [subst; tauto | tauto].
        * destruct I5 as [I5 | I5]; [tauto | ]. cbn in I5. destruct I5 as [I5 | I5]; [subst; tauto | tauto].
      + apply mem_name_false in Hm. apply (IH _ _ _ _ _ _ H).
        destruct Hinv as [I0 I2 I3 I5]. constructor.
        * intros y. rewrite !in_app_iff, I0. cbn. tauto.
        * intros u Hu. rewrite !in_app_iff, !union_names_In in Hu. cbn in Hu.
          destruct Hu as [[Hu | [Hu | []]] | [Hu | [[Hu | Hu] | Hu]]].
          -- apply I2. tauto.
          -- subst. apply I2. right. cbn. tauto.
          -- apply I2. right. cbn. rewrite in_app_iff. tauto.
          -- apply I2. right. cbn. rewrite in_app_iff. tauto.
          -- eapply reach_step; [apply I2; right; cbn; left; reflexivity | ]. left. exact Hu.
          -- eapply reach_step; [apply I2; right; cbn; left; reflexivity | ]. right. exact Hu.
        * intros u w Hu Hs. rewrite in_app_iff in Hu. cbn in Hu.
          rewrite !in_app_iff, !union_names_In. cbn.
          destruct Hu as [Hu | [Hu | []]].
          -- destruct (I3 u w Hu Hs) as [Hw | Hw]; [tauto | ].
             cbn in Hw. rewrite in_app_iff in Hw. destruct Hw as [Hw | [Hw | Hw]]; subst; tauto.
          -- subst u. destruct Hs as [Hs | Hs]; tauto.
        * rewrite in_app_iff. cbn. destruct I5 as [I5 | I5]; [tauto | ].
          cbn in I5. rewrite in_app_iff in I5. rewrite in_app_iff, !union_names_In.
          destruct I5 as [I5 | [I5 | I5]]; subst; tauto.
  Qed.

  Lemma plain_loop_inv : forall (g : gstate) x fuel seen ret next l,
    plain_loop teqb fuel g seen ret next = Ok l ->
    pinv g x next seen ret ->
    exists seen', pinv g x [] seen' l.
  Proof.
    intros g x. induction fuel as [ | f IH ]; intros seen ret next l H Hinv.
    - destruct next; cbn in H; [ | discriminate]. inversion H; subst. exists seen. exact Hinv.
    - destruct next as [ | n0 nt ].
      + cbn in H. inversion H; subst. exists seen. exact Hinv.
      + cbn [plain_loop] in H.
        destruct (plain_level teqb g (n0 :: nt) seen ret []) as [[s1 r1] n1] eqn:Hl.
        apply (IH _ _ _ _ H). eapply plain_level_inv; [exact Hl | ].
        rewrite app_nil_r. exact Hinv.
  Qed.

  Theorem plain_bfs_correct : forall (g : gstate) x l,
    plain_bfs teqb g x = Ok l -> forall y, In y l <-> reach (wstep g) x y.
  Proof.
    intros g x l H. unfold plain_bfs in H.
    destruct (plain_loop_inv g x _ _ _ _ _ H) as [seen' [I0 I2 I3 I5]].
    { constructor.
      - intros y. tauto.
      - intros u [[] | [Hu | []]]. subst. apply reach_refl.
      - intros u v [].
      - right. cbn. tauto. }
    assert (Hx : In x seen') by (destruct I5 as [I5 | []]; exact I5).
    intros y. rewrite I0. split.
    - intros Hy. apply I2. tauto.
    - intros Hr. clear H I2 I5 I0. induction Hr as [ | a b c _ IH Hbc ].
      + exact Hx.
      + destruct (I3 b c (IH Hx) Hbc) as [Hc | []]. exact Hc.
  Qed.

  (* weakly_connected_components: partition of the node list into the classes of
     reachability along successors-or-predecessors (the name maps the function reads),
     whenever that relation is symmetric (predecessors = inverse successors) and stays
     inside the node list *)
  Theorem weakly_connected_components_partition : forall (g : gstate) cs,
    (forall u v, wstep g u v -> wstep g v u) ->
    (forall u v, In u (g_nodes g) -> wstep g u v -> In v (g_nodes g)) ->
    weakly_connected_components teqb g = Ok cs ->
    is_component_partition (g_nodes g) (reach (wstep g)) cs.
  Proof.
    intros g cs Hsym Hcl H. unfold weakly_connected_components in H.
    destruct (ensure_directed g); cbn [bind] in H; try discriminate.
    rewrite wcc_loop_gen in H.
    apply (gen_loop_partition (wstep g) Hsym (g_nodes g) Hcl (plain_bfs teqb g)); [ | exact H].
    intros v b Hb y. apply (plain_bfs_correct g v b Hb).
  Qed.

  (* ------------------------------------------------------------------ *)
  (* the coherence hypotheses are decidable: executable tests that imply them *)
  Lemma contains_key_In : forall {V} (m : list (T * V)) k,
    contains_key teqb k m = true -> In k (map fst m).
  Proof.
    intros V m k. unfold contains_key. induction m as [ | [k0 v0] t IH ]; cbn [lookup map fst]; [discriminate | ].
    destruct (teqb k k0) eqn:E.
    - apply teqb_spec in E. subst. cbn. tauto.
    - intros H. right. apply IH. exact H.
  Qed.

  Lemma step_dom : forall (g : gstate) u v, step g u v -> In u (map fst (nodes_map g)).
  Proof.
    intros g u v [ns [H _]]. unfold get_successors_or_neighbors in H.
    destruct (contains_key teqb u (nodes_map g)) eqn:E; [apply contains_key_In; exact E | exfalso].
    unfold get_successor_nodes, idx_set_nodes, get_neighbor_nodes in H. rewrite E in H. cbn [negb] in H.
    destruct (directed (sp g)); cbn in H; discriminate.
  Qed.

  Lemma step_ok_sound : forall (g : gstate),
    step_ok_b teqb g = true ->
    (forall u v, step g u v -> step g v u) /\
    (forall u v, In u (g_nodes g) -> step g u v -> In v (g_nodes g)).
  Proof.
    intros g H. unfold step_ok_b in H. apply andb_true_iff in H. destruct H as [Hk Hs].
    rewrite forallb_forall in Hk, Hs.
    assert (Hcore : forall u v, step g u v -> In v (g_nodes g) /\ step g v u).
    { intros u v Hst. pose proof (step_dom g u v Hst) as Hd. apply Hk in Hd.
      apply (memb_In teqb teqb_spec) in Hd. specialize (Hs u Hd).
      destruct Hst as [ns [Hg Hv]]. rewrite Hg in Hs. rewrite forallb_forall in Hs.
      specialize (Hs v Hv). apply andb_true_iff in Hs. destruct Hs as [H1 H2].
      apply (memb_In teqb teqb_spec) in H1. split; [exact H1 | ].
      destruct (get_successors_or_neighbors teqb g v) as [ns' | | | ] eqn:Hg'; try discriminate.
      exists ns'. split; [exact Hg' | ]. apply (memb_In teqb teqb_spec). exact H2. }
    split.
    - intros u v Hst. apply (Hcore u v Hst).
    - intros u v _ Hst. apply (Hcore u v Hst).
  Qed.

  Lemma lookup_In_row : forall (m : list (T * list T)) u v,
    In v (name_row teqb m u) -> exists row, In (u, row) m /\ In v row.
  Proof.
    intros m u v. unfold name_row. induction m as [ | [k0 r0] t IH ]; cbn [lookup]; [intros [] | ].
    destruct (teqb u k0) eqn:E.
    - apply teqb_spec in E. subst. intros H. exists r0. cbn. tauto.
    - intros H. destruct (IH H) as [row [H1 H2]]. exists row. cbn. tauto.
  Qed.

  Lemma wstep_ok_sound : forall (g : gstate),
    wstep_ok_b teqb g = true ->
    (forall u v, wstep g u v -> wstep g v u) /\
    (forall u v, In u (g_nodes g) -> wstep g u v -> In v (g_nodes g)).
  Proof.
    intros g H. unfold wstep_ok_b in H. apply andb_true_iff in H. destruct H as [Hs Hp].
    rewrite forallb_forall in Hs, Hp.
    assert (Hcore : forall u v, wstep g u v -> In v (g_nodes g) /\ wstep g v u).
    { intros u v [Hst | Hst].
      - destruct (lookup_In_row _ _ _ Hst) as [row [Hin Hv]]. specialize (Hs _ Hin).
        rewrite forallb_forall in Hs. specialize (Hs v Hv). cbn [fst snd] in Hs.
        apply andb_true_iff in Hs. destruct Hs as [H1 H2].
        apply (memb_In teqb teqb_spec) in H1. apply (memb_In teqb teqb_spec) in H2.
        split; [exact H1 | right; exact H2].
      - destruct (lookup_In_row _ _ _ Hst) as [row [Hin Hv]]. specialize (Hp _ Hin).
        rewrite forallb_forall in Hp. specialize (Hp v Hv). cbn [fst snd] in Hp.
        apply andb_true_iff in Hp. destruct Hp as [H1 H2].
        apply (memb_In teqb teqb_spec) in H1. apply (memb_In teqb teqb_spec) in H2.
        split; [exact H1 | left; exact H2]. }
    split.
    - intros u v Hst. apply (Hcore u v Hst).
    - intros u v _ Hst. apply (Hcore u v Hst).
  Qed.

  Lemma succ_rows_closed : forall (g : gstate),
    wstep_ok_b teqb g = true ->
    forall u w, In w (name_row teqb (successors g) u) -> In w (g_nodes g).
  Proof.
    intros g H u w Hw. unfold wstep_ok_b in H. apply andb_true_iff in H. destruct H as [Hs _].
    rewrite forallb_forall in Hs. destruct (lookup_In_row _ _ _ Hw) as [row [Hin Hv]].
    specialize (Hs _ Hin). rewrite forallb_forall in Hs. specialize (Hs w Hv).
    apply andb_true_iff in Hs. destruct Hs as [H1 _]. apply (memb_In teqb teqb_spec). exact H1.
  Qed.

  Corollary connected_components_checked : forall (g : gstate) cs,
    step_ok_b teqb g = true ->
    connected_components teqb g = Ok cs ->
    is_component_partition (g_nodes g) (reach (step g)) cs.
  Proof.
    intros g cs Hb H. destruct (step_ok_sound g Hb) as [H1 H2].
    apply (connected_components_partition g cs H1 H2 H).
  Qed.

  Corollary weakly_connected_components_checked : forall (g : gstate) cs,
    wstep_ok_b teqb g = true ->
    weakly_connected_components teqb g = Ok cs ->
    is_component_partition (g_nodes g) (reach (wstep g)) cs.
  Proof.
    intros g cs Hb H. destruct (wstep_ok_sound g Hb) as [H1 H2].
    apply (weakly_connected_components_partition g cs H1 H2 H).
  Qed.

  (* ------------------------------------------------------------------ *)
  (* breadth_first_search terminates (the model's fuel |V|+2 is never exhausted) and does
     not panic, on every graph state whose adjacency query is total and closed over the
     node list, from every node                                                            *)
  Definition adj_total (g : gstate) : Prop :=
    forall u, In u (g_nodes g) ->
    exists ns, get_successors_or_neighbors teqb g u = Ok ns /\ incl (map nname ns) (g_nodes g).

  Lemma step_total_sound : forall (g : gstate), step_total_b teqb g = true -> adj_total g.
  Proof.
    intros g H u Hu. unfold step_total_b in H. rewrite forallb_forall in H. specialize (H u Hu).
    destruct (get_successors_or_neighbors teqb g u) as [ns | | | ]; try discriminate.
    exists ns. split; [reflexivity | ]. rewrite forallb_forall in H. intros v Hv.
    apply (memb_In teqb teqb_spec). apply H. exact Hv.
  Qed.

  Lemma bfs_level_total : forall (g : gstate) lvl seen ret next,
    adj_total g -> incl lvl (g_nodes g) -> NoDup seen -> incl seen (g_nodes g) -> incl next (g_nodes g) ->
    exists s' r' n', bfs_level teqb g lvl seen ret next = Ok (s', r', n') /\
      NoDup s' /\ incl s' (g_nodes g) /\ incl n' (g_nodes g) /\
      length seen <= length s' /\ (length s' = length seen -> n' = next).
  Proof.
    intros g. induction lvl as [ | v t IH ]; intros seen ret next Htot Hl Hnd Hs Hn.
    - exists seen, ret, next. cbn. repeat split; auto.
    - assert (Hv : In v (g_nodes g)) by (apply Hl; cbn; tauto).
      assert (Ht : incl t (g_nodes g)) by (intros z Hz; apply Hl; cbn; tauto).
      cbn [bfs_level]. destruct (mem_name teqb v seen) eqn:Hm.
      + apply (IH seen ret next Htot Ht Hnd Hs Hn).
      + apply mem_name_false in Hm. destruct (Htot v Hv) as [ns [Hg Hin]]. rewrite Hg. cbn [bind].
        destruct (IH (seen ++ [v]) (ret ++ [v]) (union_names teqb next (map nname ns)) Htot Ht)
          as [s' [r' [n' [H1 [H2 [H3 [H4 [H5 H6]]]]]]]].
        * apply NoDup_app_snoc; assumption.
        * intros z Hz. apply in_app_iff in Hz. destruct Hz as [Hz | [Hz | []]]; [apply Hs; exact Hz | subst; exact Hv].
        * intros z Hz. apply union_names_In in Hz. destruct Hz as [Hz | Hz]; [apply Hn | apply Hin]; exact Hz.
        * exists s', r', n'. rewrite app_length in H5, H6. cbn [length] in H5, H6.
          repeat split; auto; try lia.
  Qed.

  Lemma bfs_loop_total : forall (g : gstate) fuel seen ret next,
    adj_total g -> NoDup seen -> incl seen (g_nodes g) -> incl next (g_nodes g) ->
    length (g_nodes g) - length seen + 2 <= fuel ->
    exists l, bfs_loop teqb fuel g seen ret next = Ok l.
  Proof.
    intros g. induction fuel as [ | f IH ]; intros seen ret next Htot Hnd Hs Hn Hf; [lia | ].
    destruct next as [ | n0 nt ]; [exists ret; reflexivity | ].
    cbn [bfs_loop].
    destruct (bfs_level_total g (n0 :: nt) seen ret [] Htot Hn Hnd Hs (incl_nil_l _))
      as [s' [r' [n' [H1 [H2 [H3 [H4 [H5 H6]]]]]]]].
    rewrite H1. cbn [bind].
    destruct (Nat.eq_dec (length s') (length seen)) as [Heq | Hne].
    - rewrite (H6 Heq). exists r'. destruct f; reflexivity.
    - apply IH; try assumption.
      pose proof (NoDup_incl_length H2 H3). lia.
  Qed.

  Theorem bfs_total : forall (g : gstate) x,
    adj_total g -> In x (g_nodes g) -> exists l, breadth_first_search teqb g x = Ok l.
  Proof.
    intros g x Htot Hx. unfold breadth_first_search. apply bfs_loop_total.
    - exact Htot.
    - constructor.
    - intros z [].
    - intros z [Hz | []]. subst. exact Hx.
    - unfold g_nodes, get_all_node_names. rewrite map_length. cbn [length]. lia.
  Qed.

  (* ------------------------------------------------------------------ *)
  (* plain_bfs terminates within the model's fuel when successors / predecessors stay
     inside the node list (no outcome monad inside: nothing can panic)                    *)
  Definition wstep_closed (g : gstate) : Prop :=
    forall u v, wstep g u v -> In v (g_nodes g).

  Lemma plain_level_total : forall (g : gstate) lvl seen ret next s' r' n',
    wstep_closed g ->
    plain_level teqb g lvl seen ret next = (s', r', n') ->
    incl lvl (g_nodes g) -> NoDup seen -> incl seen (g_nodes g) -> incl next (g_nodes g) ->
    NoDup s' /\ incl s' (g_nodes g) /\ incl n' (g_nodes g) /\
    length seen <= length s' /\ (length s' = length seen -> n' = next).
  Proof.
    intros g. induction lvl as [ | v t IH ]; intros seen ret next s' r' n' Hcl H Hl Hnd Hs Hn.
    - cbn in H. inversion H; subst. repeat split; auto.
    - assert (Hv : In v (g_nodes g)) by (apply Hl; cbn; tauto).
      assert (Ht : incl t (g_nodes g)) by (intros z Hz; apply Hl; cbn; tauto).
      cbn [plain_level] in H. destruct (mem_name teqb v seen) eqn:Hm.
      + apply (IH _ _ _ _ _ _ Hcl H Ht Hnd Hs Hn).
      + apply mem_name_false in Hm.
        destruct (IH _ _ _ _ _ _ Hcl H Ht) as [H2 [H3 [H4 [H5 H6]]]].
        * apply NoDup_app_snoc; assumption.
        * intros z Hz. apply in_app_iff in Hz. destruct Hz as [Hz | [Hz | []]]; [apply Hs; exact Hz | subst; exact Hv].
        * intros z Hz. rewrite !union_names_In in Hz. destruct Hz as [[Hz | Hz] | Hz].
          -- apply Hn. exact Hz.
          -- apply (Hcl v z). left. exact Hz.
          -- apply (Hcl v z). right. exact Hz.
        * rewrite app_length in H5, H6. cbn [length] in H5, H6. repeat split; auto; try lia.
  Qed.

  Lemma plain_loop_total : forall (g : gstate) fuel seen ret next,
    wstep_closed g -> NoDup seen -> incl seen (g_nodes g) -> incl next (g_nodes g) ->
    length (g_nodes g) - length seen + 2 <= fuel ->
    exists l, plain_loop teqb fuel g seen ret next = Ok l.
  Proof.
    intros g. induction fuel as [ | f IH ]; intros seen ret next Hcl Hnd Hs Hn Hf; [lia | ].
    destruct next as [ | n0 nt ]; [exists ret; reflexivity | ].
    cbn [plain_loop].
    destruct (plain_level teqb g (n0 :: nt) seen ret []) as [[s' r'] n'] eqn:Hl.
    destruct (plain_level_total g _ _ _ _ _ _ _ Hcl Hl Hn Hnd Hs (incl_nil_l _)) as [H2 [H3 [H4 [H5 H6]]]].
    destruct (Nat.eq_dec (length s') (length seen)) as [Heq | Hne].
    - rewrite (H6 Heq). exists r'. destruct f; reflexivity.
    - apply IH; try assumption. pose proof (NoDup_incl_length H2 H3). lia.
  Qed.

  Theorem plain_bfs_total : forall (g : gstate) x,
    wstep_closed g -> In x (g_nodes g) -> exists l, plain_bfs teqb g x = Ok l.
  Proof.
    intros g x Hcl Hx. unfold plain_bfs. apply plain_loop_total.
    - exact Hcl.
    - constructor.
    - intros z [].
    - intros z [Hz | []]. subst. exact Hx.
    - unfold g_nodes, get_all_node_names. rewrite map_length. cbn [length]. lia.
  Qed.

  (* weakly_connected_components returns on every directed graph state passing the test *)
  Theorem weakly_connected_components_total : forall (g : gstate),
    directed (sp g) = true -> wstep_ok_b teqb g = true ->
    exists cs, weakly_connected_components teqb g = Ok cs.
  Proof.
    intros g Hd Hok. destruct (wstep_ok_sound g Hok) as [_ Hcl0].
    assert (Hcl : wstep_closed g).
    { intros u v Huv. unfold wstep_ok_b in Hok. apply andb_true_iff in Hok. destruct Hok as [Hs Hp].
      rewrite forallb_forall in Hs, Hp. destruct Huv as [Huv | Huv].
      - destruct (lookup_In_row _ _ _ Huv) as [row [Hin Hv]]. specialize (Hs _ Hin).
        rewrite forallb_forall in Hs. specialize (Hs v Hv). apply andb_true_iff in Hs.
        apply (memb_In teqb teqb_spec). tauto.
      - destruct (lookup_In_row _ _ _ Huv) as [row [Hin Hv]]. specialize (Hp _ Hin).
        rewrite forallb_forall in Hp. specialize (Hp v Hv). apply andb_true_iff in Hp.
        apply (memb_In teqb teqb_spec). tauto. }
    unfold weakly_connected_components, ensure_directed. rewrite Hd. cbn [bind].
    assert (G : forall names seen acc, incl names (g_nodes g) -> exists cs, wcc_loop teqb g names seen acc = Ok cs).
    { induction names as [ | v t IH ]; intros seen acc Hin; cbn [wcc_loop]; [eexists; reflexivity | ].
      assert (Ht : incl t (g_nodes g)) by (intros z Hz; apply Hin; cbn; tauto).
      destruct (mem_name teqb v seen); [apply IH; exact Ht | ].
      destruct (plain_bfs_total g v Hcl (Hin v (or_introl eq_refl))) as [l Hl]. rewrite Hl. cbn [bind].
      apply IH. exact Ht. }
    apply G. apply incl_refl.
  Qed.

  (* connected_components returns on every undirected graph state passing the test *)
  Theorem connected_components_total : forall (g : gstate),
    directed (sp g) = false -> step_total_b teqb g = true ->
    exists cs, connected_components teqb g = Ok cs.
  Proof.
    intros g Hd Hok. pose proof (step_total_sound g Hok) as Htot.
    unfold connected_components, ensure_undirected. rewrite Hd. cbn [bind].
    assert (G : forall names seen acc, incl names (g_nodes g) -> exists cs, cc_loop teqb g names seen acc = Ok cs).
    { induction names as [ | v t IH ]; intros seen acc Hin; cbn [cc_loop]; [eexists; reflexivity | ].
      assert (Ht : incl t (g_nodes g)) by (intros z Hz; apply Hin; cbn; tauto).
      destruct (mem_name teqb v seen); [apply IH; exact Ht | ].
      destruct (bfs_total g v Htot (Hin v (or_introl eq_refl))) as [l Hl]. rewrite Hl. cbn [bind].
      apply IH. exact Ht. }
    apply G. apply incl_refl.
  Qed.
End ComponentsOk.
