(* C10 proofs about the model of Model/Query.v (breadth_first_search) and
   Model/Components.v: the verified checker on graph states, the BFS loop
   invariant (head, NoDup, sound, complete), kind guards, count and
   node-component identities. *)
From Coq Require Import String List Bool Arith Lia.
From GV Require Import Base.Outcome Base.AMap Model.GState Model.Creation Model.Query
     Model.Components Model.Scc Spec.ReachDef Spec.CompSpec Proofs.ReachOk.
Import ListNotations.

Section ComponentsOk.
  Context {T A : Type}.
  Variable teqb : T -> T -> bool.
  Hypothesis teqb_spec : forall x y, teqb x y = true <-> x = y.
  Notation gstate := (gstate T A).

  (* ------------------------------------------------------------------ *)
  (* the checker on graph states                                          *)
  Lemma g_adj_spec : forall (g : gstate) u v,
    In v (g_adj teqb g u) <-> exists e, In e (get_all_edges g) /\ eu e = u /\ ev e = v.
  Proof.
    intros g u v. unfold g_adj. rewrite in_map_iff. split.
    - intros [e [Hv He]]. apply filter_In in He. destruct He as [He Hu].
      apply teqb_spec in Hu. exists e. tauto.
    - intros [e [He [Hu Hv]]]. exists e. split; [exact Hv | ].
      apply filter_In. split; [exact He | apply teqb_spec; exact Hu].
  Qed.

  Lemma E_edge_rel : forall (g : gstate) u v,
    E (g_nodes g) (g_adj teqb g) u v <-> edge_rel g u v.
  Proof. intros g u v. unfold E, edge_rel. rewrite g_adj_spec. tauto. Qed.

  Lemma rel_of_g_rel : forall (g : gstate) k x y,
    rel_of (g_nodes g) (g_adj teqb g) k x y <-> g_rel k g x y.
  Proof.
    intros g k x y. destruct k; cbn [rel_of g_rel].
    - unfold connected, g_connected. split; apply reach_ext; intros u v; unfold Esym;
        rewrite !E_edge_rel; tauto.
    - unfold strongly, g_strongly.
      split; intros [H1 H2]; split;
        (eapply reach_ext; [ | eassumption ]; intros u v; apply E_edge_rel).
  Qed.

  Theorem check_components_g_sound : forall (g : gstate) k comps,
    check_components_g teqb g k comps = true ->
    is_component_partition (g_nodes g) (g_rel k g) comps.
  Proof.
    intros g k comps H. apply (check_components_sound teqb teqb_spec) in H.
    destruct H as [H1 [H2 [H3 H4]]]. split; [exact H1 | split; [exact H2 | split; [exact H3 | ] ] ].
    intros c x y Hc Hx Hy. rewrite (H4 c x y Hc Hx Hy). apply rel_of_g_rel.
  Qed.

  (* ------------------------------------------------------------------ *)
  (* list-set helpers of the model                                        *)
  Lemma mem_name_In : forall x l, mem_name teqb x l = true <-> In x l.
  Proof. intros x l. unfold mem_name. apply (memb_In teqb teqb_spec). Qed.

  Lemma mem_name_false : forall x l, mem_name teqb x l = false <-> ~ In x l.
  Proof. intros x l. unfold mem_name. apply (memb_false teqb teqb_spec). Qed.

  Lemma union_names_In : forall b a z, In z (union_names teqb a b) <-> In z a \/ In z b.
  Proof.
    induction b as [ | x b IH ]; intros a z; cbn [union_names].
    - cbn. tauto.
    - rewrite IH. destruct (mem_name teqb x a) eqn:Hm.
      + apply mem_name_In in Hm. cbn. split; [tauto | ]. intros [H | [H | H]]; subst; tauto.
      + rewrite in_app_iff. cbn. tauto.
  Qed.

  Lemma NoDup_app_snoc : forall (l : list T) x, NoDup l -> ~ In x l -> NoDup (l ++ [x]).
  Proof.
    induction l as [ | a l IH ]; intros x Hl Hx; cbn.
    - constructor; [intros [] | constructor].
    - inversion Hl; subst. constructor.
      + rewrite in_app_iff. cbn. intros [H | [H | []]]; [tauto | ]. subst. apply Hx. cbn. tauto.
      + apply IH; [assumption | ]. intros H. apply Hx. cbn. tauto.
  Qed.

  Lemma union_names_NoDup : forall b a, NoDup a -> NoDup (union_names teqb a b).
  Proof.
    induction b as [ | x b IH ]; intros a Ha; cbn [union_names].
    - exact Ha.
    - apply IH. destruct (mem_name teqb x a) eqn:Hm.
      + exact Ha.
      + apply mem_name_false in Hm. apply NoDup_app_snoc; assumption.
  Qed.

  (* ------------------------------------------------------------------ *)
  (* breadth_first_search                                                 *)

  (* the adjacency the search follows: successors on a directed graph,
     neighbours on an undirected one, exactly as the model's query returns them *)
  Definition step (g : gstate) (u v : T) : Prop :=
    exists ns, get_successors_or_neighbors teqb g u = Ok ns /\ In v (map nname ns).

  Record bfs_inv (g : gstate) (x : T) (front seen : list T) : Prop := {
    inv_nodup : NoDup seen;
    inv_reach : forall u, In u seen \/ In u front -> reach (step g) x u;
    inv_closed : forall u v, In u seen -> step g u v -> In v seen \/ In v front;
    inv_head : match seen with [] => forall u, In u front -> u = x | h :: _ => h = x end;
    inv_start : In x seen \/ In x front
  }.

  Lemma bfs_level_inv : forall (g : gstate) x lvl seen ret next seen' ret' next',
    bfs_level teqb g lvl seen ret next = Ok (seen', ret', next') ->
    ret = seen ->
    bfs_inv g x (lvl ++ next) seen ->
    ret' = seen' /\ bfs_inv g x next' seen'.
  Proof.
    intros g x. induction lvl as [ | v t IH ]; intros seen ret next seen' ret' next' H Hret Hinv.
    - cbn in H. inversion H; subst. split; [reflexivity | exact Hinv].
    - cbn [bfs_level] in H. destruct (mem_name teqb v seen) eqn:Hm.
      + apply mem_name_In in Hm. apply (IH _ _ _ _ _ _ H Hret).
        destruct Hinv as [I1 I2 I3 I4 I5]. constructor.
        * exact I1.
        * intros u Hu. apply I2. cbn. tauto.
        * intros u w Hu Hs. destruct (I3 u w Hu Hs) as [Hw | Hw]; [tauto | ].
          cbn in Hw. destruct Hw as [Hw | Hw]; [subst; tauto | tauto].
        * destruct seen as [ | h s ]; [destruct Hm | exact I4].
        * destruct I5 as [I5 | I5]; [tauto | ]. cbn in I5. destruct I5 as [I5 | I5]; [subst; tauto | tauto].
      + apply mem_name_false in Hm.
        destruct (get_successors_or_neighbors teqb g v) as [ns | k | s | ] eqn:Hg;
          cbn [bind] in H; try discriminate.
        apply (IH _ _ _ _ _ _ H).
        * rewrite Hret. reflexivity.
        * destruct Hinv as [I1 I2 I3 I4 I5]. constructor.
          -- apply NoDup_app_snoc; assumption.
          -- intros u Hu. rewrite !in_app_iff, union_names_In in Hu. cbn in Hu.
             destruct Hu as [[Hu | [Hu | []]] | [Hu | [Hu | Hu]]].
             ++ apply I2. tauto.
             ++ subst. apply I2. right. cbn. tauto.
             ++ apply I2. right. cbn. rewrite in_app_iff. tauto.
             ++ apply I2. right. cbn. rewrite in_app_iff. tauto.
             ++ eapply reach_step; [apply I2; right; cbn; left; reflexivity | ].
                exists ns. tauto.
          -- intros u w Hu Hs. rewrite in_app_iff in Hu. cbn in Hu.
             rewrite !in_app_iff, union_names_In. cbn.
             destruct Hu as [Hu | [Hu | []]].
             ++ destruct (I3 u w Hu Hs) as [Hw | Hw]; [tauto | ].
                cbn in Hw. rewrite in_app_iff in Hw. destruct Hw as [Hw | [Hw | Hw]]; subst; tauto.
             ++ subst u. destruct Hs as [ns' [Hg' Hw]]. rewrite Hg in Hg'. inversion Hg'; subst. tauto.
          -- destruct seen as [ | h s ]; cbn.
             ++ apply I4. cbn. tauto.
             ++ exact I4.
          -- rewrite in_app_iff. cbn. destruct I5 as [I5 | I5]; [tauto | ].
             cbn in I5. rewrite in_app_iff in I5. rewrite in_app_iff, union_names_In.
             destruct I5 as [I5 | [I5 | I5]]; subst; tauto.
  Qed.

  Lemma bfs_loop_inv : forall (g : gstate) x fuel seen ret next l,
    bfs_loop teqb fuel g seen ret next = Ok l ->
    ret = seen ->
    bfs_inv g x next seen ->
    bfs_inv g x [] l.
  Proof.
    intros g x. induction fuel as [ | f IH ]; intros seen ret next l H Hret Hinv.
    - destruct next; cbn in H; [ | discriminate]. inversion H; subst. exact Hinv.
    - destruct next as [ | n0 nt ].
      + cbn in H. inversion H; subst. exact Hinv.
      + cbn [bfs_loop] in H.
        destruct (bfs_level teqb g (n0 :: nt) seen ret []) as [[[s1 r1] n1] | k | s | ] eqn:Hl;
          cbn [bind] in H; try discriminate.
        destruct (bfs_level_inv g x _ _ _ _ _ _ _ Hl Hret) as [Hr1 Hi1].
        { rewrite app_nil_r. exact Hinv. }
        eapply IH; eassumption.
  Qed.

  Theorem bfs_correct : forall (g : gstate) x l,
    breadth_first_search teqb g x = Ok l ->
    (exists t, l = x :: t) /\ NoDup l /\ (forall y, In y l <-> reach (step g) x y).
  Proof.
    intros g x l H. unfold breadth_first_search in H.
    assert (Hinv : bfs_inv g x [] l).
    { eapply bfs_loop_inv; [exact H | reflexivity | ]. constructor.
      - constructor.
      - intros u [[] | [Hu | []]]. subst. apply reach_refl.
      - intros u v [].
      - intros u [Hu | []]. subst. reflexivity.
      - right. cbn. tauto. }
    destruct Hinv as [I1 I2 I3 I4 I5].
    assert (Hx : In x l) by (destruct I5 as [I5 | []]; exact I5).
    split; [ | split ].
    - destruct l as [ | h t ]; [destruct Hx | ]. subst h. exists t. reflexivity.
    - exact I1.
    - intros y. split.
      + intros Hy. apply I2. tauto.
      + intros Hr. clear H I2 I4 I5. induction Hr as [ | a b c _ IH Hbc ].
        * exact Hx.
        * destruct (I3 b c (IH Hx) Hbc) as [Hc | []]. exact Hc.
  Qed.

  (* ------------------------------------------------------------------ *)
  (* to_hashset keeps exactly the elements, without duplicates            *)
  Lemma set_add_In : forall x l z, In z (set_add teqb x l) <-> z = x \/ In z l.
  Proof.
    intros x l z. unfold set_add. destruct (mem teqb x l) eqn:Hm.
    - unfold mem in Hm. apply (memb_In teqb teqb_spec) in Hm. split; [tauto | ].
      intros [H | H]; subst; assumption.
    - rewrite in_app_iff. cbn. split; intros H; intuition.
  Qed.

  Lemma set_add_NoDup : forall x l, NoDup l -> NoDup (set_add teqb x l).
  Proof.
    intros x l Hl. unfold set_add. destruct (mem teqb x l) eqn:Hm.
    - exact Hl.
    - unfold mem in Hm. apply (memb_false teqb teqb_spec) in Hm. apply NoDup_app_snoc; assumption.
  Qed.

  Lemma fold_set_add_spec : forall l acc,
    NoDup acc ->
    NoDup (fold_left (fun a x => set_add teqb x a) l acc) /\
    (forall z, In z (fold_left (fun a x => set_add teqb x a) l acc) <-> In z acc \/ In z l).
  Proof.
    induction l as [ | x l IH ]; intros acc Hacc; cbn [fold_left].
    - split; [exact Hacc | intros z; cbn; tauto].
    - destruct (IH (set_add teqb x acc) (set_add_NoDup x acc Hacc)) as [H1 H2].
      split; [exact H1 | ]. intros z. rewrite H2, set_add_In. cbn. split; intros H; intuition.
  Qed.

  Lemma to_hashset_spec : forall l,
    NoDup (to_hashset teqb l) /\ (forall z, In z (to_hashset teqb l) <-> In z l).
  Proof.
    intros l. unfold to_hashset. destruct (fold_set_add_spec l [] (NoDup_nil T)) as [H1 H2].
    split; [exact H1 | ]. intros z. rewrite H2. cbn. tauto.
  Qed.

  (* ------------------------------------------------------------------ *)
  (* kind guards, count, node component                                   *)
  Theorem wrong_kind : forall (g : gstate),
    (directed (sp g) = true ->
       connected_components teqb g = Err WrongMethod /\
       number_of_connected_components teqb g = Err WrongMethod /\
       forall x, node_connected_component teqb g x = Err WrongMethod) /\
    (directed (sp g) = false ->
       weakly_connected_components teqb g = Err WrongMethod /\
       forall ord, strongly_connected_components teqb ord g = Err WrongMethod).
  Proof.
    intros g. split; intros Hd.
    - unfold number_of_connected_components, connected_components, node_connected_component,
        ensure_undirected. rewrite Hd. cbn. auto.
    - unfold weakly_connected_components, strongly_connected_components, ensure_directed.
      rewrite Hd. cbn. auto.
  Qed.

  Theorem count_is_length : forall (g : gstate) n,
    number_of_connected_components teqb g = Ok n ->
    exists cs, connected_components teqb g = Ok cs /\ n = length cs.
  Proof.
    intros g n H. unfold number_of_connected_components in H.
    destruct (connected_components teqb g) as [cs | | | ]; cbn [bind] in H; try discriminate.
    inversion H. exists cs. auto.
  Qed.

  Theorem node_component_correct : forall (g : gstate) x s,
    node_connected_component teqb g x = Ok s ->
    directed (sp g) = false /\ NoDup s /\ (forall y, In y s <-> reach (step g) x y).
  Proof.
    intros g x s H. unfold node_connected_component, ensure_undirected in H.
    destruct (directed (sp g)) eqn:Hd; cbn [bind] in H; [discriminate | ].
    destruct (has_node teqb g x) as [b | | | ]; cbn [bind] in H; try discriminate.
    destruct b; cbn [negb] in H; [ | discriminate].
    destruct (breadth_first_search teqb g x) as [l | | | ] eqn:Hb; cbn [bind] in H; try discriminate.
    inversion H; subst s. destruct (bfs_correct g x l Hb) as [_ [_ H3]].
    destruct (to_hashset_spec l) as [H4 H5].
    split; [reflexivity | split; [exact H4 | ] ].
    intros y. rewrite H5. apply H3.
  Qed.

  Theorem node_component_absent : forall (g : gstate) x,
    directed (sp g) = false -> has_node teqb g x = Ok false ->
    node_connected_component teqb g x = Err NodeNotFound.
  Proof.
    intros g x Hd Hn. unfold node_connected_component, ensure_undirected. rewrite Hd. cbn [bind].
    rewrite Hn. reflexivity.
  Qed.
End ComponentsOk.
