(* The monolithic transcription of add_edge (the form the GraphML package's constructor
   lemmas were proved against) and its equality with the structured form of Model/Creation.v. *)
From Coq Require Import String List Bool ZArith NArith Arith.
From GV Require Import Base.Outcome Base.AMap Model.GState Model.Creation.
Import ListNotations.
Open Scope string_scope.
Open Scope list_scope.

Section Mono.
  Context {T A : Type}.
  Variable teqb : T -> T -> bool.
  Variable tltb : T -> T -> bool.
  Notation node := (node T A).
  Notation edge := (edge T A).
  Notation gstate := (gstate T A).
  Notation add_node := (add_node teqb).
  Notation has_name := (has_name teqb).
  Notation ordered := (ordered tltb).
  Notation peqb := (peqb teqb).

  (* creation.rs:31 add_edge.  Returns the state the Rust object is left in
     together with the call's outcome (on an early return the object is left
     as it is at that point, not as it was on entry). *)
  Definition add_edge_mono (g : gstate) (e : edge) : gstate * outcome unit :=
    let s := sp g in
    if negb (selfloops s) && teqb (eu e) (ev e) then
      match slf s with
      | SErr => (g, Err SelfLoopsFound)
      | SDrop => (g, Ok tt)
      end
    else if (match ms s with MErr => true | MCreate => false end)
            && (negb (has_name g (eu e)) || negb (has_name g (ev e))) then
      (g, Err NodeNotFound)
    else
      let r1 := if has_name g (eu e) then Ok g else add_node g (mknode (eu e) None) in
      match r1 with
      | Ok g1 =>
        let r2 := if has_name g1 (ev e) then Ok g1 else add_node g1 (mknode (ev e) None) in
        match r2 with
        | Ok g2 =>
          match lookup teqb (eu e) (nodes_map g2), lookup teqb (ev e) (nodes_map g2) with
          | Some ui, Some vi =>
            let ex := is_ok (get_edge_by_indexes g2 ui vi) in
            if (match dd s with DErr => true | _ => false end) && negb (multi s) && ex then
              (g2, Err DuplicateEdge)
            else
              let od := if directed s then e else ordered e in
              let '(ou, ov) := if negb (directed s) && Nat.ltb vi ui then (vi, ui) else (ui, vi) in
              let su1 := upd_set teqb teqb (eu e) (ev e) (successors g2) in
              let sm1 := upd_set Nat.eqb Nat.eqb ui vi (successors_map g2) in
              match add_to_adjacency_vec s (successors_vec g2) ou ov (ew e) ex with
              | Ok sv1 =>
                let r :=
                  if directed s then
                    match add_to_adjacency_vec s (predecessors_vec g2) ov ou (ew e) ex with
                    | Ok pv =>
                      Ok (su1, sm1, sv1,
                          upd_set teqb teqb (ev e) (eu e) (predecessors g2),
                          upd_set Nat.eqb Nat.eqb vi ui (predecessors_map g2), pv)
                    | Err k => Err k | Panic x => Panic x | OutOfFuel => OutOfFuel
                    end
                  else
                    match (if Nat.eqb ui vi then Ok sv1
                           else add_to_adjacency_vec s sv1 ov ou (ew e) ex) with
                    | Ok sv2 =>
                      Ok (upd_set teqb teqb (ev e) (eu e) su1,
                          upd_set Nat.eqb Nat.eqb vi ui sm1, sv2,
                          predecessors g2, predecessors_map g2, predecessors_vec g2)
                    | Err k => Err k | Panic x => Panic x | OutOfFuel => OutOfFuel
                    end in
                match r with
                | Ok (su, sm, sv, pr, pm, pv) =>
                  let k := (eu od, ev od) in
                  let inner := or_default Nat.eqb ou (edges_map g2) in
                  let '(es, em) :=
                    if multi s then
                      (insert peqb k (or_default peqb k (edges g2) ++ [od]) (edges g2),
                       insert Nat.eqb ou (insert Nat.eqb ov (or_default Nat.eqb ov inner ++ [od]) inner)
                              (edges_map g2))
                    else if is_ok (get_edge_by_indexes g2 ou ov) then
                      match dd s with
                      | DKeepLast =>
                        (insert peqb k [od] (edges g2),
                         insert Nat.eqb ou (insert Nat.eqb ov [od] inner) (edges_map g2))
                      | _ => (edges g2, edges_map g2)
                      end
                    else
                      (insert peqb k [od] (edges g2),
                       insert Nat.eqb ou (insert Nat.eqb ov [od] inner) (edges_map g2)) in
                  (mkg (nodes_map g2) (nodes_map_rev g2) (nodes_vec g2) es em s su sm sv pr pm pv, Ok tt)
                | Err k => (g2, Err k) | Panic x => (g2, Panic x) | OutOfFuel => (g2, OutOfFuel)
                end
              | Err k => (g2, Err k) | Panic x => (g2, Panic x) | OutOfFuel => (g2, OutOfFuel)
              end
          | _, _ => (g2, Panic "creation.rs:77")
          end
        | Err k => (g1, Err k) | Panic x => (g1, Panic x) | OutOfFuel => (g1, OutOfFuel)
        end
      | Err k => (g, Err k) | Panic x => (g, Panic x) | OutOfFuel => (g, OutOfFuel)
      end.


  Lemma add_node_sp (g g' : gstate) (n : node) : add_node g n = Ok g' -> sp g' = sp g.
  Proof.
    unfold Creation.add_node. destruct (Creation.has_name teqb g (nname n)).
    - destruct (get_node_index teqb g (nname n)); try discriminate.
      destruct (set_nth a n (nodes_vec g)); intros H; inversion H; reflexivity.
    - intros H; inversion H; reflexivity.
  Qed.

  Lemma ens_sp (g g' : gstate) x :
    (if has_name g x then Ok g else add_node g (mknode x None)) = Ok g' -> sp g' = sp g.
  Proof.
    destruct (has_name g x); intros H; [inversion H; reflexivity|]. apply (add_node_sp _ _ _ H).
  Qed.

  Lemma add_edge_mono_eq (g : gstate) (e : edge) : add_edge_mono g e = add_edge teqb tltb g e.
  Proof.
    unfold add_edge_mono, add_edge.
    destruct (negb (selfloops (sp g)) && teqb (eu e) (ev e)); [reflexivity|].
    destruct ((match ms (sp g) with MErr => true | MCreate => false end)
              && (negb (has_name g (eu e)) || negb (has_name g (ev e)))); [reflexivity|].
    destruct (if has_name g (eu e) then Ok g else add_node g (mknode (eu e) None)) as [g1| | |] eqn:E1;
      try reflexivity.
    destruct (if has_name g1 (ev e) then Ok g1 else add_node g1 (mknode (ev e) None)) as [g2| | |] eqn:E2;
      try reflexivity.
    assert (Hsp : sp g2 = sp g) by (rewrite (ens_sp _ _ _ E2); apply (ens_sp _ _ _ E1)).
    destruct (lookup teqb (eu e) (nodes_map g2)) as [ui|]; [|reflexivity].
    destruct (lookup teqb (ev e) (nodes_map g2)) as [vi|]; [|reflexivity].
    unfold add_edge_known, link_adjacency, store_edge. rewrite Hsp.
    destruct ((match dd (sp g) with DErr => true | _ => false end) && negb (multi (sp g))
              && is_ok (get_edge_by_indexes g2 ui vi)); [reflexivity|].
    destruct (negb (directed (sp g)) && Nat.ltb vi ui);
      destruct (directed (sp g)); destruct (Nat.eqb ui vi);
      repeat (match goal with
              | |- context [add_to_adjacency_vec (sp g) ?x ?a ?b ?c ?d] =>
                destruct (add_to_adjacency_vec (sp g) x a b c d); cbn [bind]; try reflexivity
              end);
      destruct (multi (sp g)); try reflexivity;
      match goal with
      | |- context [is_ok (get_edge_by_indexes g2 ?a ?b)] => destruct (is_ok (get_edge_by_indexes g2 a b))
      end; try reflexivity; destruct (dd (sp g)); reflexivity.
  Qed.
End Mono.
