(* Graph::new_from_nodes_and_edges (Model/Creation.v) never reaches one of its
   Panic sites and never runs out of fuel, for EVERY node list, edge list and
   specs and every name type with a decidable equality: the index invariant
   below is established by [new] and preserved by add_node / add_edge. *)
From Coq Require Import String List Bool ZArith NArith Arith Lia.
From GV Require Import Base.Outcome Base.AMap Model.GState Model.Creation Proofs.CreationMono.
Import ListNotations.

(* ---- association lists ---------------------------------------------------- *)
Section AMapLemmas.
  Context {K V : Type}.
  Variable keqb : K -> K -> bool.
  Hypothesis keqb_spec : forall x y, keqb x y = true <-> x = y.

  Lemma keqb_refl : forall x, keqb x x = true.
  Proof. intro x. apply keqb_spec. reflexivity. Qed.

  Lemma keqb_neq : forall x y, x <> y -> keqb x y = false.
  Proof. intros x y H. destruct (keqb x y) eqn:E; [apply keqb_spec in E; contradiction|reflexivity]. Qed.

  Lemma lookup_insert_eq : forall k (v : V) m, lookup keqb k (insert keqb k v m) = Some v.
  Proof.
    intros k v m. induction m as [|[k0 v0] t IH]; cbn [insert lookup].
    - rewrite keqb_refl. reflexivity.
    - destruct (keqb k k0) eqn:E; cbn [lookup]; rewrite E; [reflexivity|exact IH].
  Qed.

  Lemma lookup_insert_neq : forall k k' (v : V) m, k' <> k ->
    lookup keqb k' (insert keqb k v m) = lookup keqb k' m.
  Proof.
    intros k k' v m Hne. induction m as [|[k0 v0] t IH]; cbn [insert lookup].
    - rewrite (keqb_neq _ _ Hne). reflexivity.
    - destruct (keqb k k0) eqn:E; cbn [lookup].
      + apply keqb_spec in E. subst k0. rewrite (keqb_neq _ _ Hne). reflexivity.
      + destruct (keqb k' k0); [reflexivity|exact IH].
  Qed.
End AMapLemmas.

(* ---- Vec writes -------------------------------------------------------------- *)
Lemma set_nth_some : forall {X} (l : list X) i x, i < length l -> exists l', set_nth i x l = Some l'.
Proof.
  intros X l. induction l as [|h t IH]; intros i x Hi; [cbn in Hi; lia|].
  destruct i as [|j]; cbn [set_nth]; [eexists; reflexivity|].
  destruct (IH j x) as [t' Ht]; [cbn in Hi; lia|]. rewrite Ht. eexists; reflexivity.
Qed.

Lemma set_nth_length : forall {X} (l l' : list X) i x, set_nth i x l = Some l' -> length l' = length l.
Proof.
  intros X l. induction l as [|h t IH]; intros l' i x H; [destruct i; discriminate|].
  destruct i as [|j]; cbn [set_nth] in H.
  - inversion H; reflexivity.
  - destruct (set_nth j x t) as [t'|] eqn:E; [|discriminate]. inversion H; subst. cbn. f_equal. eapply IH; exact E.
Qed.

Lemma set_nth_nth_eq : forall {X} (l l' : list X) i x, set_nth i x l = Some l' -> nth_error l' i = Some x.
Proof.
  intros X l. induction l as [|h t IH]; intros l' i x H; [destruct i; discriminate|].
  destruct i as [|j]; cbn [set_nth] in H.
  - inversion H; reflexivity.
  - destruct (set_nth j x t) as [t'|] eqn:E; [|discriminate]. inversion H; subst. cbn. eapply IH; exact E.
Qed.

Lemma set_nth_nth_neq : forall {X} (l l' : list X) i j x, set_nth i x l = Some l' -> j <> i ->
  nth_error l' j = nth_error l j.
Proof.
  intros X l. induction l as [|h t IH]; intros l' i j x H Hne; [destruct i; discriminate|].
  destruct i as [|i']; cbn [set_nth] in H.
  - inversion H; subst. destruct j; [contradiction|reflexivity].
  - destruct (set_nth i' x t) as [t'|] eqn:E; [|discriminate]. inversion H; subst.
    destruct j as [|j']; [reflexivity|]. cbn. eapply IH; [exact E|lia].
Qed.

(* ---- adjacency rows ---------------------------------------------------------- *)
Lemma position_spec : forall v row i idx, position v row i = Some idx ->
  i <= idx /\ exists w, nth_error row (idx - i) = Some (v, w).
Proof.
  intros v row. induction row as [|[j w0] t IH]; intros i idx H; cbn [position] in H; [discriminate|].
  destruct (Nat.eqb j v) eqn:E.
  - inversion H; subst. apply Nat.eqb_eq in E. subst j. split; [lia|]. rewrite Nat.sub_diag. exists w0. reflexivity.
  - destruct (IH _ _ H) as [Hle [w Hw]]. split; [lia|]. exists w.
    replace (idx - i) with (S (idx - S i)) by lia. exact Hw.
Qed.

(* overwriting the entry of key v at its position changes no lookup *)
Lemma position_set_same : forall v w row i idx row',
  position v row i = Some idx -> set_nth (idx - i) (v, w) row = Some row' ->
  forall v', position v' row' i = position v' row i.
Proof.
  intros v w row. induction row as [|[j w0] t IH]; intros i idx row' Hp Hs v'; cbn [position] in Hp; [discriminate|].
  destruct (Nat.eqb j v) eqn:E.
  - inversion Hp; subst idx. rewrite Nat.sub_diag in Hs. cbn [set_nth] in Hs. inversion Hs; subst row'.
    apply Nat.eqb_eq in E. subst j. reflexivity.
  - destruct (position_spec _ _ _ _ Hp) as [Hle _].
    replace (idx - i) with (S (idx - S i)) in Hs by lia. cbn [set_nth] in Hs.
    destruct (set_nth (idx - S i) (v, w) t) as [t'|] eqn:Et; [|discriminate]. inversion Hs; subst row'.
    cbn [position]. destruct (Nat.eqb j v'); [reflexivity|]. eapply IH; [exact Hp|exact Et].
Qed.

Lemma position_app_keep : forall v' row i x, position v' row i <> None -> position v' (row ++ [x]) i <> None.
Proof.
  intros v' row. induction row as [|[j w0] t IH]; intros i x H; cbn [position app] in *; [contradiction|].
  destruct (Nat.eqb j v'); [discriminate|]. apply IH. exact H.
Qed.

Lemma position_app_new : forall v w row i, position v (row ++ [(v, w)]) i <> None.
Proof.
  intros v w row. induction row as [|[j w0] t IH]; intro i; cbn [position app].
  - rewrite Nat.eqb_refl. discriminate.
  - destruct (Nat.eqb j v); [discriminate|]. apply IH.
Qed.

Definition has_adj (av : list (list adj)) (u v : nat) : Prop :=
  exists row, nth_error av u = Some row /\ position v row 0 <> None.

Lemma atav_ok : forall s av u v w ex,
  u < length av -> (ex = true -> has_adj av u v) ->
  exists av', add_to_adjacency_vec s av u v w ex = Ok av' /\ length av' = length av /\
    has_adj av' u v /\ (forall a b, has_adj av a b -> has_adj av' a b).
Proof.
  intros s av u v w ex Hu Hex. unfold add_to_adjacency_vec.
  destruct (nth_error av u) as [row|] eqn:Hrow; [|apply nth_error_None in Hrow; lia].
  destruct ex.
  - destruct (Hex eq_refl) as [row0 [Hr0 Hpos]]. rewrite Hrow in Hr0. inversion Hr0; subst row0.
    destruct (position v row 0) as [idx|] eqn:Hp; [|contradiction].
    destruct (position_spec _ _ _ _ Hp) as [_ [w0 Hnth]]. rewrite Nat.sub_0_r in Hnth. rewrite Hnth.
    destruct (if multi s then wlt w w0 else match dd s with DKeepLast => true | _ => false end).
    + assert (Hidx : idx < length row) by (apply nth_error_Some; rewrite Hnth; discriminate).
      destruct (set_nth_some (X:=(nat * weight)%type) row idx (v, w) Hidx) as [row' Hrow']. rewrite Hrow'.
      destruct (set_nth_some (X:=list (nat * weight)) av u row' Hu) as [av' Hav']. rewrite Hav'.
      exists av'. split; [reflexivity|]. split; [eapply set_nth_length; exact Hav'|].
      assert (Hsame : forall v', position v' row' 0 = position v' row 0).
      { intro v'. eapply position_set_same; [exact Hp|]. rewrite Nat.sub_0_r. exact Hrow'. }
      split.
      * exists row'. split; [eapply set_nth_nth_eq; exact Hav'|]. rewrite Hsame, Hp. discriminate.
      * intros a b [ra [Hra Hpa]]. destruct (Nat.eq_dec a u) as [->|Hne].
        -- rewrite Hrow in Hra. inversion Hra; subst ra. exists row'. split; [eapply set_nth_nth_eq; exact Hav'|].
           rewrite Hsame. exact Hpa.
        -- exists ra. split; [|exact Hpa]. rewrite <- Hra. eapply set_nth_nth_neq; [exact Hav'|exact Hne].
    + exists av. split; [reflexivity|]. split; [reflexivity|]. split; [|auto].
      exists row. split; [exact Hrow|]. rewrite Hp. discriminate.
  - destruct (set_nth_some av u (row ++ [(v, w)]) Hu) as [av' Hav']. rewrite Hav'.
    exists av'. split; [reflexivity|]. split; [eapply set_nth_length; exact Hav'|]. split.
    + exists (row ++ [(v, w)]). split; [eapply set_nth_nth_eq; exact Hav'|apply position_app_new].
    + intros a b [ra [Hra Hpa]]. destruct (Nat.eq_dec a u) as [->|Hne].
      * rewrite Hrow in Hra. inversion Hra; subst ra. exists (row ++ [(v, w)]).
        split; [eapply set_nth_nth_eq; exact Hav'|apply position_app_keep; exact Hpa].
      * exists ra. split; [|exact Hpa]. rewrite <- Hra. eapply set_nth_nth_neq; [exact Hav'|exact Hne].
Qed.

Lemma has_adj_app : forall av u v, has_adj av u v -> has_adj (av ++ [[]]) u v.
Proof.
  intros av u v [row [Hr Hp]]. exists row. split; [|exact Hp].
  rewrite nth_error_app1; [exact Hr|]. apply nth_error_Some. rewrite Hr. discriminate.
Qed.

(* ---- the invariant ------------------------------------------------------------ *)
Section NoPanic.
  Context {T A : Type}.
  Variable teqb : T -> T -> bool.
  Variable tltb : T -> T -> bool.
  Hypothesis teqb_spec : forall x y, teqb x y = true <-> x = y.

  Notation node := (node T A).
  Notation edge := (edge T A).
  Notation gstate := (gstate T A).

  Definition nat_spec := Nat.eqb_eq.

  Record NP (g : gstate) : Prop := mkNP {
    np_idx : forall x i, lookup teqb x (nodes_map g) = Some i -> i < length (nodes_vec g);
    np_succ : length (successors_vec g) = length (nodes_vec g);
    np_pred : length (predecessors_vec g) = length (nodes_vec g);
    np_emap : forall u m v l,
      lookup Nat.eqb u (edges_map g) = Some m -> lookup Nat.eqb v m = Some l ->
      l <> [] /\ has_adj (successors_vec g) u v /\
      (if directed (sp g) then has_adj (predecessors_vec g) v u else has_adj (successors_vec g) v u)
  }.

  Lemma NP_new : forall s, NP (new s).
  Proof.
    intro s. constructor; cbn; try reflexivity; intros; discriminate.
  Qed.

  Lemma has_name_lookup : forall (g : gstate) x, has_name teqb g x = true ->
    exists i, lookup teqb x (nodes_map g) = Some i.
  Proof.
    intros g x H. unfold has_name, contains_key in H.
    destruct (lookup teqb x (nodes_map g)) as [i|]; [exists i; reflexivity|discriminate].
  Qed.

  Lemma add_node_np : forall g n, NP g ->
    exists g', add_node teqb g n = Ok g' /\ NP g' /\ sp g' = sp g /\
               has_name teqb g' (nname n) = true /\
               (forall y, has_name teqb g y = true -> has_name teqb g' y = true).
  Proof.
    intros g n Hg. unfold add_node.
    destruct (has_name teqb g (nname n)) eqn:Hn.
    - destruct (has_name_lookup _ _ Hn) as [i Hi]. unfold get_node_index. rewrite Hi.
      pose proof (np_idx g Hg _ _ Hi) as Hlt.
      destruct (set_nth_some (nodes_vec g) i n Hlt) as [nv Hnv]. rewrite Hnv.
      eexists. split; [reflexivity|]. split; [|split; [reflexivity|split; [exact Hn|auto]]].
      pose proof (set_nth_length _ _ _ _ Hnv) as Hlen.
      constructor; cbn [nodes_map nodes_vec successors_vec predecessors_vec edges_map sp]; rewrite ?Hlen.
      + exact (np_idx g Hg).
      + exact (np_succ g Hg).
      + exact (np_pred g Hg).
      + exact (np_emap g Hg).
    - unfold has_name in Hn. rewrite Hn.
      eexists. split; [reflexivity|]. split; [|split; [reflexivity|split]].
      + constructor; cbn [nodes_map nodes_vec successors_vec predecessors_vec edges_map sp]; rewrite ?app_length; cbn [length].
        * intros x i Hx. destruct (teqb x (nname n)) eqn:E.
          -- apply teqb_spec in E. subst x. rewrite (lookup_insert_eq teqb teqb_spec) in Hx. inversion Hx. lia.
          -- assert (Hne : x <> nname n) by (intro H; subst x; rewrite (keqb_refl teqb teqb_spec) in E; discriminate).
             rewrite (lookup_insert_neq teqb teqb_spec _ _ _ _ Hne) in Hx.
             pose proof (np_idx g Hg _ _ Hx). lia.
        * rewrite (np_succ g Hg). reflexivity.
        * rewrite (np_pred g Hg). reflexivity.
        * intros u m v l Hu Hv. destruct (np_emap g Hg _ _ _ _ Hu Hv) as [H1 [H2 H3]].
          split; [exact H1|]. split; [apply has_adj_app; exact H2|].
          destruct (directed (sp g)); apply has_adj_app; exact H3.
      + unfold has_name, contains_key. cbn [nodes_map]. rewrite (lookup_insert_eq teqb teqb_spec). reflexivity.
      + intros y Hy. unfold has_name, contains_key in *. cbn [nodes_map].
        destruct (teqb y (nname n)) eqn:E.
        * apply teqb_spec in E. subst y. rewrite Hn in Hy. discriminate.
        * assert (Hne : y <> nname n) by (intro H; subst y; rewrite (keqb_refl teqb teqb_spec) in E; discriminate).
          rewrite (lookup_insert_neq teqb teqb_spec _ _ _ _ Hne). exact Hy.
  Qed.

  Lemma gebi_ok : forall (g : gstate) u v,
    is_ok (get_edge_by_indexes g u v) = true ->
    let p := if negb (directed (sp g)) && Nat.ltb v u then (v, u) else (u, v) in
    exists m l, lookup Nat.eqb (fst p) (edges_map g) = Some m /\ lookup Nat.eqb (snd p) m = Some l.
  Proof.
    intros g u v H. unfold get_edge_by_indexes in H.
    destruct (negb (directed (sp g)) && Nat.ltb v u); cbn [fst snd];
      match type of H with context [lookup Nat.eqb ?a (edges_map g)] =>
        destruct (lookup Nat.eqb a (edges_map g)) as [m|]; [|discriminate];
        match type of H with context [lookup Nat.eqb ?b m] =>
          destruct (lookup Nat.eqb b m) as [l|] eqn:El; [|discriminate] end;
        exists m, l; split; [reflexivity|exact El] end.
  Qed.

  (* the only errors of the mutation ladder *)
  Definition err_ok {X} (r : outcome X) : Prop :=
    match r with
    | Err k => k = SelfLoopsFound \/ k = NodeNotFound \/ k = DuplicateEdge
    | _ => True
    end.

  Definition good (x : gstate * outcome unit) (s : specs) : Prop :=
    NP (fst x) /\ sp (fst x) = s /\ is_panic (snd x) = false /\ is_fuel (snd x) = false /\ err_ok (snd x).

  Lemma good_ret : forall g (r : outcome unit), NP g -> is_panic r = false -> is_fuel r = false -> err_ok r ->
    good (g, r) (sp g).
  Proof. intros g r H1 H2 H3 H4. unfold good. cbn [fst snd]. auto. Qed.

  Lemma or_default_lookup : forall {X} k (m : list (nat * list X)),
    or_default Nat.eqb k m = match lookup Nat.eqb k m with Some l => l | None => [] end.
  Proof. reflexivity. Qed.

  (* the new edges_map entry / the old entries after the insertions of add_edge *)
  Lemma emap_insert_cases : forall (em : list (nat * list (nat * list edge))) ou ov (l0 : list edge) u m v l,
    lookup Nat.eqb u (insert Nat.eqb ou (insert Nat.eqb ov l0 (or_default Nat.eqb ou em)) em) = Some m ->
    lookup Nat.eqb v m = Some l ->
    (u = ou /\ v = ov /\ l = l0) \/
    (exists m', lookup Nat.eqb u em = Some m' /\ lookup Nat.eqb v m' = Some l).
  Proof.
    intros em ou ov l0 u m v l Hu Hv.
    destruct (Nat.eq_dec u ou) as [->|Hne].
    - rewrite (lookup_insert_eq Nat.eqb nat_spec) in Hu. inversion Hu; subst m. clear Hu.
      destruct (Nat.eq_dec v ov) as [->|Hnv].
      + rewrite (lookup_insert_eq Nat.eqb nat_spec) in Hv. inversion Hv. left. auto.
      + rewrite (lookup_insert_neq Nat.eqb nat_spec _ _ _ _ Hnv) in Hv. right.
        unfold or_default in Hv. destruct (lookup Nat.eqb ou em) as [m'|]; [|discriminate].
        exists m'. split; [reflexivity|exact Hv].
    - rewrite (lookup_insert_neq Nat.eqb nat_spec _ _ _ _ Hne) in Hu. right. exists m. split; assumption.
  Qed.

  Lemma add_edge_np : forall g e, NP g -> good (add_edge teqb tltb g e) (sp g).
  Proof.
    intros g e Hg. rewrite <- (add_edge_mono_eq teqb tltb g e). unfold add_edge_mono.
    destruct (negb (selfloops (sp g)) && teqb (eu e) (ev e)).
    { destruct (slf (sp g)); apply good_ret; cbn; auto. }
    destruct ((match ms (sp g) with MErr => true | MCreate => false end)
              && (negb (has_name teqb g (eu e)) || negb (has_name teqb g (ev e)))).
    { apply good_ret; cbn; auto. }
    (* source node *)
    assert (H1 : exists g1, (if has_name teqb g (eu e) then Ok g else add_node teqb g (mknode (eu e) None)) = Ok g1
                 /\ NP g1 /\ sp g1 = sp g /\ has_name teqb g1 (eu e) = true).
    { destruct (has_name teqb g (eu e)) eqn:Hn.
      - exists g. auto.
      - destruct (add_node_np g (mknode (eu e) None) Hg) as [g1 [Ha [Hb [Hc [Hd _]]]]]. exists g1. auto. }
    destruct H1 as [g1 [E1 [Hg1 [Hs1 Hn1]]]]. rewrite E1.
    assert (H2 : exists g2, (if has_name teqb g1 (ev e) then Ok g1 else add_node teqb g1 (mknode (ev e) None)) = Ok g2
                 /\ NP g2 /\ sp g2 = sp g /\ has_name teqb g2 (eu e) = true /\ has_name teqb g2 (ev e) = true).
    { destruct (has_name teqb g1 (ev e)) eqn:Hn.
      - exists g1. auto.
      - destruct (add_node_np g1 (mknode (ev e) None) Hg1) as [g2 [Ha [Hb [Hc [Hd He]]]]]. exists g2.
        split; [exact Ha|]. split; [exact Hb|]. split; [congruence|]. split; [apply He; exact Hn1|exact Hd]. }
    destruct H2 as [g2 [E2 [Hg2 [Hs2 [Hnu Hnv]]]]]. rewrite E2.
    destruct (has_name_lookup _ _ Hnu) as [ui Hui]. destruct (has_name_lookup _ _ Hnv) as [vi Hvi].
    rewrite Hui, Hvi.
    pose proof (np_idx g2 Hg2 _ _ Hui) as Hult. pose proof (np_idx g2 Hg2 _ _ Hvi) as Hvlt.
    set (ex := is_ok (get_edge_by_indexes g2 ui vi)).
    destruct ((match dd (sp g) with DErr => true | _ => false end) && negb (multi (sp g)) && ex).
    { unfold good. cbn [fst snd]. split; [exact Hg2|]. split; [exact Hs2|]. cbn. auto. }
    (* normalised index pair *)
    assert (Hex : ex = true ->
              let p := if negb (directed (sp g)) && Nat.ltb vi ui then (vi, ui) else (ui, vi) in
              has_adj (successors_vec g2) (fst p) (snd p) /\
              (if directed (sp g) then has_adj (predecessors_vec g2) (snd p) (fst p)
               else has_adj (successors_vec g2) (snd p) (fst p))).
    { intro Hx. pose proof (gebi_ok g2 ui vi Hx) as Hk. rewrite Hs2 in Hk. cbv zeta in Hk.
      destruct Hk as [m [l [Hm Hl]]].
      destruct (np_emap g2 Hg2 _ _ _ _ Hm Hl) as [_ [Ha Hb]]. rewrite Hs2 in Hb. cbv zeta. split; assumption. }
    set (p := if negb (directed (sp g)) && Nat.ltb vi ui then (vi, ui) else (ui, vi)) in *.
    assert (Hp : p = (fst p, snd p)) by (destruct p; reflexivity).
    assert (Hou : fst p < length (nodes_vec g2) /\ snd p < length (nodes_vec g2)).
    { subst p. destruct (negb (directed (sp g)) && Nat.ltb vi ui); cbn [fst snd]; split; assumption. }
    destruct Hou as [Hou Hov].
    rewrite Hp. set (ou := fst p) in *. set (ov := snd p) in *.
    (* first adjacency update *)
    destruct (atav_ok (sp g) (successors_vec g2) ou ov (ew e) ex) as [sv1 [Esv1 [Lsv1 [Asv1 Msv1]]]].
    { rewrite (np_succ g2 Hg2). exact Hou. }
    { intro Hx. apply (Hex Hx). }
    rewrite Esv1.
    (* second adjacency update: predecessors (directed) or the mirrored successor entry *)
    assert (Hsecond : exists su sm sv pr pm pv,
      (if directed (sp g)
       then match add_to_adjacency_vec (sp g) (predecessors_vec g2) ov ou (ew e) ex with
            | Ok pv =>
                Ok (upd_set teqb teqb (eu e) (ev e) (successors g2),
                    upd_set Nat.eqb Nat.eqb ui vi (successors_map g2), sv1,
                    upd_set teqb teqb (ev e) (eu e) (predecessors g2),
                    upd_set Nat.eqb Nat.eqb vi ui (predecessors_map g2), pv)
            | Err k => Err k
            | Panic x => Panic x
            | OutOfFuel => OutOfFuel
            end
       else match (if Nat.eqb ui vi then Ok sv1 else add_to_adjacency_vec (sp g) sv1 ov ou (ew e) ex) with
            | Ok sv2 =>
                Ok (upd_set teqb teqb (ev e) (eu e) (upd_set teqb teqb (eu e) (ev e) (successors g2)),
                    upd_set Nat.eqb Nat.eqb vi ui (upd_set Nat.eqb Nat.eqb ui vi (successors_map g2)), sv2,
                    predecessors g2, predecessors_map g2, predecessors_vec g2)
            | Err k => Err k
            | Panic x => Panic x
            | OutOfFuel => OutOfFuel
            end) = Ok (su, sm, sv, pr, pm, pv)
      /\ length sv = length (nodes_vec g2) /\ length pv = length (nodes_vec g2)
      /\ has_adj sv ou ov
      /\ (if directed (sp g) then has_adj pv ov ou else has_adj sv ov ou)
      /\ (forall a b, has_adj (successors_vec g2) a b -> has_adj sv a b)
      /\ (forall a b, has_adj (predecessors_vec g2) a b -> has_adj pv a b)).
    { destruct (directed (sp g)) eqn:Hd.
      - destruct (atav_ok (sp g) (predecessors_vec g2) ov ou (ew e) ex) as [pv [Epv [Lpv [Apv Mpv]]]].
        { rewrite (np_pred g2 Hg2). exact Hov. }
        { intro Hx. apply (Hex Hx). }
        rewrite Epv. do 6 eexists. split; [reflexivity|].
        split; [rewrite Lsv1; apply (np_succ g2 Hg2)|].
        split; [rewrite Lpv; apply (np_pred g2 Hg2)|].
        split; [exact Asv1|]. split; [exact Apv|]. split; [exact Msv1|exact Mpv].
      - destruct (Nat.eqb ui vi) eqn:Euv.
        + apply Nat.eqb_eq in Euv.
          assert (ou = ov) by (subst ou ov p; subst vi; destruct (negb false && Nat.ltb ui ui); reflexivity).
          do 6 eexists. split; [reflexivity|].
          split; [rewrite Lsv1; apply (np_succ g2 Hg2)|].
          split; [apply (np_pred g2 Hg2)|].
          split; [exact Asv1|]. split; [revert Asv1; rewrite H; auto|]. split; [exact Msv1|auto].
        + destruct (atav_ok (sp g) sv1 ov ou (ew e) ex) as [sv2 [Esv2 [Lsv2 [Asv2 Msv2]]]].
          { rewrite Lsv1, (np_succ g2 Hg2). exact Hov. }
          { intro Hx. apply Msv1. apply (Hex Hx). }
          rewrite Esv2. do 6 eexists. split; [reflexivity|].
          split; [rewrite Lsv2, Lsv1; apply (np_succ g2 Hg2)|].
          split; [apply (np_pred g2 Hg2)|].
          split; [apply Msv2; exact Asv1|]. split; [exact Asv2|]. split; [intros a b Hab; apply Msv2, Msv1; exact Hab|auto]. }
    destruct Hsecond as [su [sm [sv [pr [pm [pv [Er [Lsv [Lpv [Hfw [Hbw [Msv Mpv]]]]]]]]]]]].
    rewrite Er.
    (* the new edge store *)
    set (od := if directed (sp g) then e else ordered tltb e).
    assert (Hold : forall u m v l,
              lookup Nat.eqb u (edges_map g2) = Some m -> lookup Nat.eqb v m = Some l ->
              l <> [] /\ has_adj sv u v /\ (if directed (sp g) then has_adj pv v u else has_adj sv v u)).
    { intros u m v l Hu Hv. destruct (np_emap g2 Hg2 _ _ _ _ Hu Hv) as [Ha [Hb Hc]]. rewrite Hs2 in Hc.
      split; [exact Ha|]. split; [apply Msv; exact Hb|]. destruct (directed (sp g)); [apply Mpv|apply Msv]; exact Hc. }
    assert (Hnew : forall l0, l0 <> [] ->
              forall u m v l,
              lookup Nat.eqb u (insert Nat.eqb ou (insert Nat.eqb ov l0 (or_default Nat.eqb ou (edges_map g2))) (edges_map g2)) = Some m ->
              lookup Nat.eqb v m = Some l ->
              l <> [] /\ has_adj sv u v /\ (if directed (sp g) then has_adj pv v u else has_adj sv v u)).
    { intros l0 Hl0 u m v l Hu Hv.
      destruct (emap_insert_cases _ _ _ _ _ _ _ _ Hu Hv) as [[-> [-> ->]]|[m' [Hm' Hl']]].
      - split; [exact Hl0|]. split; [exact Hfw|exact Hbw].
      - eapply Hold; eassumption. }
    assert (Hfin : forall es em,
              (forall u m v l, lookup Nat.eqb u em = Some m -> lookup Nat.eqb v m = Some l ->
                 l <> [] /\ has_adj sv u v /\ (if directed (sp g) then has_adj pv v u else has_adj sv v u)) ->
              good (mkg (nodes_map g2) (nodes_map_rev g2) (nodes_vec g2) es em (sp g) su sm sv pr pm pv, Ok tt) (sp g)).
    { intros es em Hem. unfold good. cbn [fst snd sp]. split; [|cbn; auto].
      constructor; cbn [nodes_map nodes_vec successors_vec predecessors_vec edges_map sp]; auto.
      exact (np_idx g2 Hg2). }
    destruct (multi (sp g)).
    { apply Hfin. apply Hnew. intro H. apply app_eq_nil in H. destruct H as [_ H]. discriminate. }
    destruct (is_ok (get_edge_by_indexes g2 ou ov)).
    { destruct (dd (sp g)).
      - apply Hfin. exact Hold.
      - apply Hfin. exact Hold.
      - apply Hfin. apply Hnew. discriminate. }
    apply Hfin. apply Hnew. discriminate.
  Qed.

  Lemma add_edges_np : forall es g, NP g -> good (add_edges teqb tltb g es) (sp g).
  Proof.
    induction es as [|e es IH]; intros g Hg; cbn [add_edges].
    - apply good_ret; cbn; auto.
    - pose proof (add_edge_np g e Hg) as [H1 [H2 [H3 [H4 H5]]]].
      destruct (add_edge teqb tltb g e) as [g' r]. cbn [fst snd] in *.
      destruct r as [u|k|x|].
      + rewrite <- H2. apply IH. exact H1.
      + unfold good. cbn [fst snd]. auto.
      + discriminate.
      + discriminate.
  Qed.

  Lemma add_nodes_np : forall ns g, NP g ->
    exists g', add_nodes teqb g ns = Ok g' /\ NP g' /\ sp g' = sp g.
  Proof.
    unfold add_nodes. induction ns as [|n ns IH]; intros g Hg; cbn [ofold].
    - exists g. auto.
    - destruct (add_node_np g n Hg) as [g1 [E1 [Hg1 [Hs1 _]]]]. rewrite E1. cbn [bind].
      destruct (IH g1 Hg1) as [g' [E' [Hg' Hs']]]. exists g'.
      split; [exact E'|]. split; [exact Hg'|congruence].
  Qed.

  (* the constructor: never a panic, never out of fuel; the specs are the ones supplied *)
  Theorem new_from_no_panic : forall (ns : list node) (es : list edge) s,
    is_panic (new_from_nodes_and_edges teqb tltb ns es s) = false /\
    is_fuel (new_from_nodes_and_edges teqb tltb ns es s) = false.
  Proof.
    intros ns es s. unfold new_from_nodes_and_edges.
    destruct (add_nodes_np ns (new s) (NP_new s)) as [g1 [E1 [Hg1 Hs1]]]. rewrite E1. cbn [bind].
    pose proof (add_edges_np es g1 Hg1) as [_ [_ [H3 [H4 _]]]].
    destruct (add_edges teqb tltb g1 es) as [g2 r]. cbn [snd] in *.
    destruct r; cbn in *; auto.
  Qed.

  Theorem new_from_error_kinds : forall (ns : list node) (es : list edge) s k,
    new_from_nodes_and_edges teqb tltb ns es s = Err k ->
    k = SelfLoopsFound \/ k = NodeNotFound \/ k = DuplicateEdge.
  Proof.
    intros ns es s k. unfold new_from_nodes_and_edges.
    destruct (add_nodes_np ns (new s) (NP_new s)) as [g1 [E1 [Hg1 Hs1]]]. rewrite E1. cbn [bind].
    pose proof (add_edges_np es g1 Hg1) as [_ [_ [_ [_ H5]]]].
    destruct (add_edges teqb tltb g1 es) as [g2 r]. cbn [snd] in *.
    destruct r; intro H; inversion H; subst. exact H5.
  Qed.

  (* an Ok result satisfies the index invariant: every name index is in range, the adjacency
     vectors have one row per node, every stored pair has its adjacency entries *)
  Theorem new_from_NP : forall (ns : list node) (es : list edge) s g,
    new_from_nodes_and_edges teqb tltb ns es s = Ok g -> NP g.
  Proof.
    intros ns es s g. unfold new_from_nodes_and_edges.
    destruct (add_nodes_np ns (new s) (NP_new s)) as [g1 [E1 [Hg1 Hs1]]]. rewrite E1. cbn [bind].
    pose proof (add_edges_np es g1 Hg1) as [H1 _].
    destruct (add_edges teqb tltb g1 es) as [g2 r]. cbn [fst] in *.
    destruct r; intro H; inversion H; subst. exact H1.
  Qed.

  Theorem new_from_specs : forall (ns : list node) (es : list edge) s g,
    new_from_nodes_and_edges teqb tltb ns es s = Ok g -> sp g = s.
  Proof.
    intros ns es s g. unfold new_from_nodes_and_edges.
    destruct (add_nodes_np ns (new s) (NP_new s)) as [g1 [E1 [Hg1 Hs1]]]. rewrite E1. cbn [bind].
    pose proof (add_edges_np es g1 Hg1) as [_ [H2 _]].
    destruct (add_edges teqb tltb g1 es) as [g2 r]. cbn [fst] in *.
    destruct r; intro H; inversion H; subst. rewrite H2, Hs1. reflexivity.
  Qed.
End NoPanic.
