(* The node list produced by new_from_nodes_and_edges when the declared names
   are distinct and every edge endpoint is declared: exactly the declared
   nodes, in order (used by C14: write-then-read keeps names and order). *)
From Coq Require Import String List Bool ZArith NArith Arith Lia.
From GV Require Import Base.Outcome Base.AMap Model.GState Model.Creation Proofs.CreationNoPanic Proofs.CreationMono.
Import ListNotations.

Section Nodes.
  Context {T A : Type}.
  Variable teqb : T -> T -> bool.
  Variable tltb : T -> T -> bool.
  Hypothesis teqb_spec : forall x y, teqb x y = true <-> x = y.

  Notation node := (node T A).
  Notation edge := (edge T A).
  Notation gstate := (gstate T A).

  (* the node vector is [ns] and exactly the names of [ns] are known *)
  Definition J (g : gstate) (ns : list node) : Prop :=
    nodes_vec g = ns /\ forall y, has_name teqb g y = true <-> In y (map nname ns).

  Lemma J_new : forall s, J (new s) [].
  Proof. intro s. split; [reflexivity|]. intro y. cbn. split; [discriminate|contradiction]. Qed.

  Lemma add_node_fresh : forall g ns n, J g ns -> ~ In (nname n) (map nname ns) ->
    exists g', add_node teqb g n = Ok g' /\ J g' (ns ++ [n]).
  Proof.
    intros g ns n [Hv Hn] Hfresh. unfold add_node.
    destruct (has_name teqb g (nname n)) eqn:E; [exfalso; apply Hfresh, Hn; exact E|].
    unfold has_name in E. rewrite E. eexists. split; [reflexivity|]. split.
    - cbn [nodes_vec]. rewrite Hv. reflexivity.
    - intro y. unfold has_name, contains_key. cbn [nodes_map]. rewrite map_app, in_app_iff. cbn [map In].
      destruct (teqb y (nname n)) eqn:Ey.
      + apply teqb_spec in Ey. subst y. rewrite (lookup_insert_eq teqb teqb_spec). split; auto.
      + assert (Hne : y <> nname n) by (intro H; subst y; rewrite (keqb_refl teqb teqb_spec) in Ey; discriminate).
        rewrite (lookup_insert_neq teqb teqb_spec _ _ _ _ Hne). specialize (Hn y).
        unfold has_name, contains_key in Hn. split.
        * intro H. left. apply Hn. exact H.
        * intros [H|[H|[]]]; [apply Hn; exact H|congruence].
  Qed.

  Lemma add_nodes_distinct : forall ns g pre, J g pre -> NoDup (map nname (pre ++ ns)) ->
    exists g', add_nodes teqb g ns = Ok g' /\ J g' (pre ++ ns).
  Proof.
    unfold add_nodes. induction ns as [|n ns IH]; intros g pre HJ Hnd; cbn [ofold].
    - exists g. rewrite app_nil_r. auto.
    - assert (Hfresh : ~ In (nname n) (map nname pre)).
      { rewrite map_app in Hnd. cbn [map] in Hnd. apply NoDup_remove_2 in Hnd.
        intro H. apply Hnd. apply in_or_app. left. exact H. }
      destruct (add_node_fresh g pre n HJ Hfresh) as [g1 [E1 HJ1]]. rewrite E1. cbn [bind].
      replace (pre ++ n :: ns) with ((pre ++ [n]) ++ ns) by (rewrite <- app_assoc; reflexivity).
      apply IH; [exact HJ1|]. rewrite <- app_assoc. exact Hnd.
  Qed.

  (* an edge between known names leaves the node vector and the name index alone *)
  Lemma add_edge_closed : forall (g : gstate) (e : edge),
    has_name teqb g (eu e) = true -> has_name teqb g (ev e) = true ->
    nodes_vec (fst (add_edge teqb tltb g e)) = nodes_vec g /\
    nodes_map (fst (add_edge teqb tltb g e)) = nodes_map g.
  Proof.
    intros g e Hu Hv. rewrite <- (add_edge_mono_eq teqb tltb g e). unfold add_edge_mono. rewrite Hu, Hv.
    repeat match goal with
           | |- context [match ?x with _ => _ end] => destruct x
           end; cbn [fst nodes_vec nodes_map]; split; reflexivity.
  Qed.

  Lemma add_edges_closed : forall (es : list edge) (g : gstate) ns, J g ns ->
    (forall e, In e es -> In (eu e) (map nname ns) /\ In (ev e) (map nname ns)) ->
    J (fst (add_edges teqb tltb g es)) ns.
  Proof.
    induction es as [|e es IH]; intros g ns HJ Hcl; cbn [add_edges]; [exact HJ|].
    destruct HJ as [Hvec Hn].
    destruct (Hcl e (or_introl eq_refl)) as [Hu Hv].
    apply Hn in Hu. apply Hn in Hv.
    destruct (add_edge_closed g e Hu Hv) as [H1 H2].
    assert (HJ' : J (fst (add_edge teqb tltb g e)) ns).
    { split; [congruence|]. intro y. unfold has_name. rewrite H2. apply Hn. }
    destruct (add_edge teqb tltb g e) as [g' r]. cbn [fst] in *.
    destruct r; try exact HJ'.
    apply IH; [exact HJ'|]. intros e' He'. apply Hcl. right. exact He'.
  Qed.

  Theorem new_from_nodes_closed : forall (ns : list node) (es : list edge) s g,
    NoDup (map nname ns) ->
    (forall e, In e es -> In (eu e) (map nname ns) /\ In (ev e) (map nname ns)) ->
    new_from_nodes_and_edges teqb tltb ns es s = Ok g ->
    nodes_vec g = ns.
  Proof.
    intros ns es s g Hnd Hcl. unfold new_from_nodes_and_edges.
    destruct (add_nodes_distinct ns (new s) [] (J_new s) Hnd) as [g1 [E1 HJ1]]. rewrite E1. cbn [bind].
    cbn [app] in HJ1. pose proof (add_edges_closed es g1 ns HJ1 Hcl) as HJ2.
    destruct (add_edges teqb tltb g1 es) as [g2 r]. cbn [fst] in HJ2. destruct HJ2 as [Hvec _].
    destruct r; intro H; inversion H as [Hg]. rewrite <- Hg. exact Hvec.
  Qed.
End Nodes.
