(* `rebuild': Graph::new_from_nodes_and_edges applied to a node list with
   distinct names and an edge list that is admissible for the specs (endpoints
   declared, no forbidden self-loop, no repeated pair unless multi-edges are
   allowed, canonical orientation when undirected) succeeds and stores exactly
   those nodes in order and exactly that edge multiset.  Used by C14: a graph
   written and read back has the same edge multiset. *)
From Coq Require Import String List Bool ZArith NArith Arith Lia Permutation.
From GV Require Import Base.Outcome Base.AMap Model.GState Model.Creation Model.Query.
From GV Require Import Proofs.CreationNoPanic Proofs.CreationMono Proofs.CreationNodes.
Import ListNotations.

(* ---- list-level facts about the name-keyed edge store ------------------------ *)
Section Store.
  Context {K X : Type}.
  Variable keqb : K -> K -> bool.

  Lemma flat_insert_append : forall k (x : X) (m : list (K * list X)),
    Permutation (flat_map snd (insert keqb k (or_default keqb k m ++ [x]) m)) (flat_map snd m ++ [x]).
  Proof.
    intros k x m. induction m as [|[k0 l0] t IH].
    - cbn. apply Permutation_refl.
    - unfold or_default. cbn [lookup insert]. destruct (keqb k k0) eqn:E.
      + cbn [flat_map snd]. rewrite <- !app_assoc. apply Permutation_app_head. apply Permutation_app_comm.
      + cbn [flat_map snd]. rewrite <- app_assoc. apply Permutation_app_head. exact IH.
  Qed.

  Lemma flat_insert_new : forall k (l : list X) (m : list (K * list X)),
    lookup keqb k m = None -> flat_map snd (insert keqb k l m) = flat_map snd m ++ l.
  Proof.
    intros k l m. induction m as [|[k0 l0] t IH]; intro H.
    - cbn. rewrite app_nil_r. reflexivity.
    - cbn [lookup] in H. cbn [insert]. destruct (keqb k k0); [discriminate|].
      cbn [flat_map snd]. rewrite IH by exact H. rewrite app_assoc. reflexivity.
  Qed.
End Store.

Lemma norm_eq : forall (d : bool) a b c e,
  (if negb d && Nat.ltb b a then (b, a) else (a, b)) = (if negb d && Nat.ltb e c then (e, c) else (c, e)) ->
  (a = c /\ b = e) \/ (d = false /\ a = e /\ b = c).
Proof.
  intros d a b c e. destruct d; cbn [negb andb].
  - intro H. inversion H. auto.
  - destruct (Nat.ltb b a) eqn:E1; destruct (Nat.ltb e c) eqn:E2; intro H; inversion H; subst; auto.
Qed.

Lemma atav_not_err : forall s av u v w ex k, add_to_adjacency_vec s av u v w ex <> Err k.
Proof.
  intros s av u v w ex k. unfold add_to_adjacency_vec.
  repeat match goal with |- context [match ?x with _ => _ end] => destruct x end; discriminate.
Qed.

Section Rebuild.
  Context {T A : Type}.
  Variable teqb : T -> T -> bool.
  Variable tltb : T -> T -> bool.
  Hypothesis teqb_spec : forall x y, teqb x y = true <-> x = y.

  Notation node := (node T A).
  Notation edge := (edge T A).
  Notation gstate := (gstate T A).

  Lemma peqb_spec : forall p q : T * T, peqb teqb p q = true <-> p = q.
  Proof.
    intros [a b] [c d]. unfold peqb. cbn [fst snd]. rewrite andb_true_iff, !teqb_spec.
    split; [intros [-> ->]; reflexivity|intro H; inversion H; auto].
  Qed.

  Definition idx_of (g : gstate) (x : T) : option nat := lookup teqb x (nodes_map g).

  (* every index points back to its own name *)
  Definition Ptr (g : gstate) : Prop :=
    forall x i, idx_of g x = Some i -> nth_error (map nname (nodes_vec g)) i = Some x.

  Lemma Ptr_inj : forall g x y i, Ptr g -> idx_of g x = Some i -> idx_of g y = Some i -> x = y.
  Proof. intros g x y i HP Hx Hy. apply HP in Hx. apply HP in Hy. congruence. Qed.

  Definition same_pair (s : specs) (e1 e2 : edge) : Prop :=
    (eu e1 = eu e2 /\ ev e1 = ev e2) \/ (directed s = false /\ eu e1 = ev e2 /\ ev e1 = eu e2).

  (* an edge that the specs admit after the edges [done] *)
  Definition admissible (s : specs) (names : list T) (done : list edge) (e : edge) : Prop :=
    In (eu e) names /\ In (ev e) names /\
    (selfloops s = false -> eu e <> ev e) /\
    (directed s = false -> tltb (ev e) (eu e) = false) /\
    (multi s = false -> forall e', In e' done -> ~ same_pair s e e').

  Fixpoint all_admissible (s : specs) (names : list T) (done es : list edge) : Prop :=
    match es with
    | [] => True
    | e :: t => admissible s names done e /\ all_admissible s names (done ++ [e]) t
    end.

  (* the invariant carried through add_edges *)
  Record K (s : specs) (ns : list node) (g : gstate) (done : list edge) : Prop := mkK {
    k_np : NP teqb g;
    k_j : J teqb g ns;
    k_ptr : Ptr g;
    k_sp : sp g = s;
    k_perm : Permutation (flat_map snd (edges g)) done;
    k_keys : forall k l, lookup (peqb teqb) k (edges g) = Some l -> exists e', In e' done /\ (eu e', ev e') = k;
    k_emap : forall ou ov m l,
      lookup Nat.eqb ou (edges_map g) = Some m -> lookup Nat.eqb ov m = Some l ->
      exists e' ui vi, In e' done /\ idx_of g (eu e') = Some ui /\ idx_of g (ev e') = Some vi /\
                       (if negb (directed s) && Nat.ltb vi ui then (vi, ui) else (ui, vi)) = (ou, ov)
  }.

  (* ---- nodes: distinct names give the pointer invariant ---------------------- *)
  Lemma add_node_fresh_ptr : forall g ns n, J teqb g ns -> Ptr g -> NP teqb g ->
    ~ In (nname n) (map nname ns) ->
    exists g', add_node teqb g n = Ok g' /\ J teqb g' (ns ++ [n]) /\ Ptr g' /\ NP teqb g' /\
               sp g' = sp g /\ edges g' = edges g /\ edges_map g' = edges_map g.
  Proof.
    intros g ns n HJ HP HN Hfresh.
    destruct (add_node_fresh teqb teqb_spec g ns n HJ Hfresh) as [g' [E HJ']].
    destruct (add_node_np teqb teqb_spec g n HN) as [g'' [E' [HN' [Hs' _]]]].
    rewrite E in E'. inversion E'; subst g''. exists g'. split; [exact E|]. split; [exact HJ'|].
    destruct HJ as [Hv Hn].
    assert (Hno : has_name teqb g (nname n) = false).
    { destruct (has_name teqb g (nname n)) eqn:Ex; [exfalso; apply Hfresh, Hn; exact Ex|reflexivity]. }
    unfold add_node in E. rewrite Hno in E. unfold has_name in Hno. rewrite Hno in E. inversion E; subst g'. clear E.
    split; [|split; [exact HN'|split; [reflexivity|split; reflexivity]]].
    intros x i Hx. unfold idx_of in Hx. cbn [nodes_map nodes_vec] in *. rewrite map_app. cbn [map].
    destruct (teqb x (nname n)) eqn:Ex.
    - apply teqb_spec in Ex. subst x. rewrite (lookup_insert_eq teqb teqb_spec) in Hx. inversion Hx; subst i.
      rewrite nth_error_app2; rewrite map_length; [|lia]. rewrite Nat.sub_diag. reflexivity.
    - assert (Hne : x <> nname n) by (intro H; subst x; rewrite (keqb_refl teqb teqb_spec) in Ex; discriminate).
      rewrite (lookup_insert_neq teqb teqb_spec _ _ _ _ Hne) in Hx.
      pose proof (HP x i Hx) as Hp. rewrite nth_error_app1; [exact Hp|].
      apply nth_error_Some. rewrite Hp. discriminate.
  Qed.

  Lemma add_nodes_K : forall ns g pre s, J teqb g pre -> Ptr g -> NP teqb g -> sp g = s ->
    edges g = [] -> edges_map g = [] ->
    NoDup (map nname (pre ++ ns)) ->
    exists g', add_nodes teqb g ns = Ok g' /\ K s (pre ++ ns) g' [].
  Proof.
    unfold add_nodes. induction ns as [|n ns IH]; intros g pre s HJ HP HN Hs He Hem Hnd; cbn [ofold].
    - exists g. split; [reflexivity|]. rewrite app_nil_r. constructor; auto.
      + rewrite He. apply Permutation_refl.
      + intros k l H. rewrite He in H. discriminate.
      + intros ou ov m l H. rewrite Hem in H. discriminate.
    - assert (Hfresh : ~ In (nname n) (map nname pre)).
      { rewrite map_app in Hnd. cbn [map] in Hnd. apply NoDup_remove_2 in Hnd.
        intro H. apply Hnd. apply in_or_app. left. exact H. }
      destruct (add_node_fresh_ptr g pre n HJ HP HN Hfresh) as [g1 [E1 [HJ1 [HP1 [HN1 [Hs1 [He1 Hem1]]]]]]].
      rewrite E1. cbn [bind].
      replace (pre ++ n :: ns) with ((pre ++ [n]) ++ ns) by (rewrite <- app_assoc; reflexivity).
      apply IH; try assumption; try congruence. rewrite <- app_assoc. exact Hnd.
  Qed.

  (* ---- one admissible edge ------------------------------------------------------ *)
  Lemma has_name_idx : forall (g : gstate) x i, idx_of g x = Some i -> has_name teqb g x = true.
  Proof. intros g x i H. unfold has_name, contains_key. unfold idx_of in H. rewrite H. reflexivity. Qed.

  Lemma lookup_insert_cases : forall {V} (kq : T * T) (v : V) m k' l,
    lookup (peqb teqb) k' (insert (peqb teqb) kq v m) = Some l ->
    (k' = kq /\ l = v) \/ lookup (peqb teqb) k' m = Some l.
  Proof.
    intros V kq v m k' l H. destruct (peqb teqb k' kq) eqn:E.
    - apply peqb_spec in E. subst k'. rewrite (lookup_insert_eq (peqb teqb) peqb_spec) in H. inversion H. auto.
    - assert (Hne : k' <> kq) by (intro Hx; subst k'; rewrite (keqb_refl (peqb teqb) peqb_spec) in E; discriminate).
      rewrite (lookup_insert_neq (peqb teqb) peqb_spec _ _ _ _ Hne) in H. auto.
  Qed.

  Lemma add_edge_K : forall s ns g done e,
    K s ns g done -> admissible s (map nname ns) done e ->
    exists g', add_edge teqb tltb g e = (g', Ok tt) /\ K s ns g' (done ++ [e]).
  Proof.
    intros s ns g done e HK [Hinu [Hinv [Hself [Hcanon Hdist]]]].
    destruct HK as [Hg HJ HP Hs Hperm Hkeys Hemap].
    destruct HJ as [Hvec Hnames].
    pose proof (proj2 (Hnames _) Hinu) as Hnu. pose proof (proj2 (Hnames _) Hinv) as Hnv.
    destruct (has_name_lookup teqb g _ Hnu) as [ui Hui]. destruct (has_name_lookup teqb g _ Hnv) as [vi Hvi].
    pose proof (add_edge_np teqb tltb teqb_spec g e Hg) as Hgood.
    rewrite <- (add_edge_mono_eq teqb tltb g e) in *. unfold add_edge_mono in *. rewrite Hs in *.
    assert (Hsl : negb (selfloops s) && teqb (eu e) (ev e) = false).
    { destruct (selfloops s) eqn:Esl; [reflexivity|]. cbn [negb andb].
      destruct (teqb (eu e) (ev e)) eqn:Et; [|reflexivity]. apply teqb_spec in Et. exfalso. exact (Hself eq_refl Et). }
    rewrite Hsl in *. rewrite Hnu, Hnv in *. cbn [negb orb] in *. rewrite andb_false_r in *.
    rewrite Hui, Hvi in *.
    set (ex := is_ok (get_edge_by_indexes g ui vi)) in *.
    (* without multi-edges the pair is new, so the index-keyed store has no entry for it *)
    assert (Hex : multi s = false -> ex = false).
    { intro Hm. destruct ex eqn:Eex; [|reflexivity]. exfalso. subst ex.
      pose proof (gebi_ok g ui vi Eex) as Hk. rewrite Hs in Hk. cbv zeta in Hk.
      destruct Hk as [m [l [Hm1 Hl1]]].
      destruct (Hemap _ _ _ _ Hm1 Hl1) as [e' [ui' [vi' [Hin [Hu' [Hv' Hnorm]]]]]].
      assert (Hn2 : (if negb (directed s) && Nat.ltb vi' ui' then (vi', ui') else (ui', vi')) =
                    (if negb (directed s) && Nat.ltb vi ui then (vi, ui) else (ui, vi))).
      { rewrite Hnorm. destruct (negb (directed s) && Nat.ltb vi ui); reflexivity. }
      apply norm_eq in Hn2. apply (Hdist Hm e' Hin). unfold same_pair.
      destruct Hn2 as [[-> ->]|[Hd [-> ->]]].
      - left. split; [eapply Ptr_inj; [exact HP|exact Hui|exact Hu']|eapply Ptr_inj; [exact HP|exact Hvi|exact Hv']].
      - right. split; [exact Hd|]. split; [eapply Ptr_inj; [exact HP|exact Hui|exact Hv']|eapply Ptr_inj; [exact HP|exact Hvi|exact Hu']]. }
    assert (Hdup : (match dd s with DErr => true | _ => false end) && negb (multi s) && ex = false).
    { destruct (multi s) eqn:Em; [rewrite andb_false_r; reflexivity|]. rewrite (Hex eq_refl). apply andb_false_r. }
    rewrite Hdup in *.
    set (p := if negb (directed s) && Nat.ltb vi ui then (vi, ui) else (ui, vi)) in *.
    assert (Hp : p = (fst p, snd p)) by (destruct p; reflexivity).
    rewrite Hp in Hgood |- *.
    (* the adjacency updates succeed (NP); name them *)
    destruct (add_to_adjacency_vec s (successors_vec g) (fst p) (snd p) (ew e) ex) as [sv1| | |] eqn:Esv1;
      try (exfalso; destruct Hgood as [_ [_ [H3 [H4 H5]]]]; cbn in H3, H4, H5;
           first [discriminate | (destruct H5 as [H5|[H5|H5]]; discriminate)]).
    2:{ exfalso. eapply atav_not_err. exact Esv1. }
    match type of Hgood with
    | good _ (match ?r with _ => _ end) _ => destruct r as [[[[[[su sm] sv] pr] pm] pv]| | |] eqn:Er
    end;
      try (exfalso; destruct Hgood as [_ [_ [H3 [H4 H5]]]]; cbn in H3, H4, H5; discriminate).
    2:{ exfalso. clear - Er. destruct (directed s).
        - destruct (add_to_adjacency_vec s (predecessors_vec g) (snd p) (fst p) (ew e) ex) eqn:E; try discriminate.
          eapply atav_not_err. exact E.
        - destruct (Nat.eqb ui vi); [discriminate|].
          destruct (add_to_adjacency_vec s sv1 (snd p) (fst p) (ew e) ex) eqn:E; try discriminate.
          eapply atav_not_err. exact E. }
    cbv zeta in Hgood |- *.
    set (od := if directed s then e else ordered tltb e) in *.
    assert (Hod : od = e).
    { subst od. destruct (directed s) eqn:Ed; [reflexivity|]. unfold ordered. rewrite (Hcanon eq_refl). reflexivity. }
    set (kk := (eu od, ev od)) in *.
    set (inner := or_default Nat.eqb (fst p) (edges_map g)) in *.
    (* the state fields that do not depend on the store branch *)
    assert (Hfin : forall es em,
      good teqb (mkg (nodes_map g) (nodes_map_rev g) (nodes_vec g) es em s su sm sv pr pm pv, Ok tt) s ->
      Permutation (flat_map snd es) (done ++ [e]) ->
      (forall k l, lookup (peqb teqb) k es = Some l -> exists e', In e' (done ++ [e]) /\ (eu e', ev e') = k) ->
      (forall ou ov m l, lookup Nat.eqb ou em = Some m -> lookup Nat.eqb ov m = Some l ->
         exists e' ui0 vi0, In e' (done ++ [e]) /\ idx_of g (eu e') = Some ui0 /\ idx_of g (ev e') = Some vi0 /\
           (if negb (directed s) && Nat.ltb vi0 ui0 then (vi0, ui0) else (ui0, vi0)) = (ou, ov)) ->
      exists g', (mkg (nodes_map g) (nodes_map_rev g) (nodes_vec g) es em s su sm sv pr pm pv, Ok tt) = (g', Ok tt)
                 /\ K s ns g' (done ++ [e])).
    { intros es em [HNP _] H1 H2 H3. eexists. split; [reflexivity|]. constructor; cbn [fst] in *; auto.
      split; [exact Hvec|]. intro y. unfold has_name. cbn [nodes_map]. apply Hnames. }
    (* old entries of the stores still describe edges of done *)
    assert (Hkeys' : forall k l, lookup (peqb teqb) k (edges g) = Some l ->
                       exists e', In e' (done ++ [e]) /\ (eu e', ev e') = k).
    { intros k l H. destruct (Hkeys k l H) as [e' [Hin He']]. exists e'. split; [apply in_or_app; left; exact Hin|exact He']. }
    assert (Hemap' : forall ou ov m l, lookup Nat.eqb ou (edges_map g) = Some m -> lookup Nat.eqb ov m = Some l ->
         exists e' ui0 vi0, In e' (done ++ [e]) /\ idx_of g (eu e') = Some ui0 /\ idx_of g (ev e') = Some vi0 /\
           (if negb (directed s) && Nat.ltb vi0 ui0 then (vi0, ui0) else (ui0, vi0)) = (ou, ov)).
    { intros ou ov m l H1 H2. destruct (Hemap _ _ _ _ H1 H2) as [e' [a [b [Hin Hr]]]].
      exists e', a, b. split; [apply in_or_app; left; exact Hin|exact Hr]. }
    assert (Hemap_new : forall l0 ou ov m l,
         lookup Nat.eqb ou (insert Nat.eqb (fst p) (insert Nat.eqb (snd p) l0 inner) (edges_map g)) = Some m ->
         lookup Nat.eqb ov m = Some l ->
         exists e' ui0 vi0, In e' (done ++ [e]) /\ idx_of g (eu e') = Some ui0 /\ idx_of g (ev e') = Some vi0 /\
           (if negb (directed s) && Nat.ltb vi0 ui0 then (vi0, ui0) else (ui0, vi0)) = (ou, ov)).
    { intros l0 ou ov m l H1 H2. subst inner.
      destruct (emap_insert_cases _ _ _ _ _ _ _ _ H1 H2) as [[-> [-> _]]|[m' [Hm' Hl']]].
      - exists e, ui, vi. split; [apply in_or_app; right; left; reflexivity|].
        split; [exact Hui|]. split; [exact Hvi|]. fold p. exact Hp.
      - eapply Hemap'; eassumption. }
    destruct (multi s) eqn:Em.
    - (* multi-edges: the edge is appended to its pair's group *)
      apply Hfin.
      + exact Hgood.
      + eapply Permutation_trans; [apply flat_insert_append|]. rewrite Hod. apply Permutation_app_tail. exact Hperm.
      + intros k l H. destruct (lookup_insert_cases _ _ _ _ _ H) as [[-> _]|H'].
        * exists e. split; [apply in_or_app; right; left; reflexivity|]. subst kk. rewrite Hod. reflexivity.
        * apply (Hkeys' _ _ H').
      + apply Hemap_new.
    - (* no multi-edges: the pair is new in both stores *)
      assert (Hex' : is_ok (get_edge_by_indexes g (fst p) (snd p)) = false).
      { destruct (is_ok (get_edge_by_indexes g (fst p) (snd p))) eqn:E2; [|reflexivity]. exfalso.
        pose proof (gebi_ok g _ _ E2) as Hk. rewrite Hs in Hk. cbv zeta in Hk.
        destruct Hk as [m [l [Hm1 Hl1]]].
        assert (Hsame : (if negb (directed s) && Nat.ltb (snd p) (fst p) then (snd p, fst p) else (fst p, snd p)) = p).
        { subst p. destruct (directed s); cbn [negb andb fst snd]; [reflexivity|].
          destruct (Nat.ltb vi ui) eqn:E3; cbn [fst snd].
          - apply Nat.ltb_lt in E3. assert (E4 : Nat.ltb ui vi = false) by (apply Nat.ltb_ge; lia). rewrite E4. reflexivity.
          - rewrite E3. reflexivity. }
        rewrite Hsame in Hm1, Hl1.
        assert (Eex : ex = true).
        { subst ex. unfold get_edge_by_indexes. rewrite Hs. fold p. rewrite Hp. rewrite Hm1, Hl1.
          clear - Hg Hm1 Hl1. destruct (np_emap teqb g Hg _ _ _ _ Hm1 Hl1) as [Hne _].
          destruct l; [contradiction|reflexivity]. }
        rewrite (Hex eq_refl) in Eex. discriminate. }
      rewrite Hex' in Hgood |- *.
      assert (Hnokey : lookup (peqb teqb) kk (edges g) = None).
      { destruct (lookup (peqb teqb) kk (edges g)) as [l|] eqn:El; [|reflexivity]. exfalso.
        destruct (Hkeys _ _ El) as [e' [Hin He']]. apply (Hdist eq_refl e' Hin). left.
        subst kk. rewrite Hod in He'. inversion He'. auto. }
      apply Hfin.
      + exact Hgood.
      + rewrite (flat_insert_new _ _ _ _ Hnokey). rewrite Hod. apply Permutation_app_tail. exact Hperm.
      + intros k l H. destruct (lookup_insert_cases _ _ _ _ _ H) as [[-> _]|H'].
        * exists e. split; [apply in_or_app; right; left; reflexivity|]. subst kk. rewrite Hod. reflexivity.
        * apply (Hkeys' _ _ H').
      + apply Hemap_new.
  Qed.

  Lemma add_edges_K : forall s ns es g done,
    K s ns g done -> all_admissible s (map nname ns) done es ->
    exists g', add_edges teqb tltb g es = (g', Ok tt) /\ K s ns g' (done ++ es).
  Proof.
    intros s ns es. induction es as [|e es IH]; intros g done HK Hadm; cbn [add_edges].
    - exists g. rewrite app_nil_r. auto.
    - destruct Hadm as [He Hrest].
      destruct (add_edge_K s ns g done e HK He) as [g1 [E1 HK1]]. rewrite E1.
      destruct (IH g1 (done ++ [e]) HK1 Hrest) as [g' [E' HK']]. exists g'. split; [exact E'|].
      rewrite <- app_assoc in HK'. exact HK'.
  Qed.

  (* the constructor on an admissible input: succeeds, keeps the nodes in order
     and stores exactly the given edge multiset *)
  Theorem new_from_rebuild : forall (ns : list node) (es : list edge) s,
    NoDup (map nname ns) -> all_admissible s (map nname ns) [] es ->
    exists g, new_from_nodes_and_edges teqb tltb ns es s = Ok g /\
              nodes_vec g = ns /\ sp g = s /\ Permutation (get_all_edges g) es.
  Proof.
    intros ns es s Hnd Hadm. unfold new_from_nodes_and_edges.
    destruct (add_nodes_K ns (new s) [] s (J_new teqb s)) as [g1 [E1 HK1]]; auto.
    { intros x i H. discriminate H. }
    { apply NP_new. }
    rewrite E1. cbn [bind]. cbn [app] in HK1.
    destruct (add_edges_K s ns es g1 [] HK1 Hadm) as [g2 [E2 HK2]]. rewrite E2.
    exists g2. split; [reflexivity|]. destruct HK2 as [_ [Hv _] _ Hs Hp _ _].
    split; [exact Hv|]. split; [exact Hs|]. exact Hp.
  Qed.
End Rebuild.
