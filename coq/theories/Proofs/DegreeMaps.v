(* C09: the VALUES of the six *_for_all_nodes maps (C20_degree_maps_total gives their keys).
   Each map is one unwrapped per-node call per node, in node order: entry number i is
   (name of node i, d) with  per_node g (name of node i) = Ok (Some d)  — for any state, as soon as
   the map call returns Ok; on a coherent state the unweighted maps are given in closed form. *)
From Coq Require Import String List Bool Arith ZArith Lia.
From GV Require Import Base.Outcome Base.AMap Model.GState Model.Creation Model.Query.
From GV Require Import Proofs.WFDefs Proofs.QueryOk Proofs.DegreeOk.
Import ListNotations.

Section DegreeMaps.
  Context {T A : Type}.
  Variable teqb : T -> T -> bool.
  Variable tltb : T -> T -> bool.
  Hypothesis teqb_spec : forall x y, teqb x y = true <-> x = y.
  Hypothesis tltb_total : forall x y, tltb x y = false -> tltb y x = false -> x = y.
  Notation node := (node T A).
  Notation gstate := (gstate T A).
  Notation WF := (@WF T A teqb tltb).

  (* an entry of a map: the right name, and the value the per-node function returns for it *)
  Definition entry_of {X} (g : gstate) (f : gstate -> T -> outcome (option X)) (n : node) (p : T * X) : Prop :=
    fst p = nname n /\ f g (nname n) = Ok (Some (snd p)).

  Lemma for_all_nodes_entries {X} (g : gstate) (f : gstate -> T -> outcome (option X)) l :
    for_all_nodes g f = Ok l -> Forall2 (entry_of g f) (nodes_vec g) l.
  Proof.
    unfold for_all_nodes. generalize (nodes_vec g) as ns. intros ns. revert l.
    induction ns as [|n t IH]; intros l H; cbn [omapM] in H.
    - inversion H. constructor.
    - destruct (f g (nname n)) as [[d|]|k|x|] eqn:E; cbn [bind] in H; try discriminate.
      destruct (omapM _ t) as [r|k|x|] eqn:E2; cbn [bind] in H; try discriminate.
      inversion H. subst l. constructor; [split; [reflexivity|exact E]|]. apply IH. reflexivity.
  Qed.

  Lemma Forall2_entries_values {X} (g : gstate) (f : gstate -> T -> outcome (option X)) ns l :
    Forall2 (entry_of g f) ns l ->
    map fst l = map (@nname T A) ns /\
    forall x d, In (x, d) l -> In x (map (@nname T A) ns) /\ f g x = Ok (Some d).
  Proof.
    induction 1 as [|n p ns l (Hn & Hv) _ (IH1 & IH2)]; [split; [reflexivity|intros x d []]|].
    split; [cbn [map]; rewrite Hn, IH1; reflexivity|].
    intros x d [Hx|Hx].
    - subst p. cbn [fst snd] in *. subst x. split; [left; reflexivity|exact Hv].
    - destruct (IH2 x d Hx) as (Hi & Hf). split; [right; exact Hi|exact Hf].
  Qed.

  (* the reading used in the pinned statement *)
  Definition map_values {X} (g : gstate) (f : gstate -> T -> outcome (option X))
             (r : outcome (list (T * X))) : Prop :=
    forall l, r = Ok l ->
      map fst l = names g /\ forall x d, In (x, d) l -> In x (names g) /\ f g x = Ok (Some d).

  Lemma for_all_nodes_values {X} (g : gstate) (f : gstate -> T -> outcome (option X)) :
    map_values g f (for_all_nodes g f).
  Proof. intros l H. apply Forall2_entries_values. apply for_all_nodes_entries. exact H. Qed.

  Lemma guarded_values {X} (g : gstate) (f : gstate -> T -> outcome (option X)) :
    map_values g f (if negb (directed (sp g)) then Err WrongMethod else for_all_nodes g f).
  Proof. destruct (negb (directed (sp g))); [intros l H; discriminate|apply for_all_nodes_values]. Qed.

  Theorem degree_maps_values (g : gstate) :
    map_values g (get_node_degree teqb tltb) (get_degree_for_all_nodes teqb tltb g) /\
    map_values g (get_node_in_degree teqb) (get_in_degree_for_all_nodes teqb g) /\
    map_values g (get_node_out_degree teqb) (get_out_degree_for_all_nodes teqb g) /\
    map_values g (get_node_weighted_degree teqb tltb) (get_weighted_degree_for_all_nodes teqb tltb g) /\
    map_values g (get_node_weighted_in_degree teqb) (get_weighted_in_degree_for_all_nodes teqb g) /\
    map_values g (get_node_weighted_out_degree teqb) (get_weighted_out_degree_for_all_nodes teqb g).
  Proof.
    split; [apply for_all_nodes_values|]. split; [apply guarded_values|]. split; [apply guarded_values|].
    split; [apply for_all_nodes_values|]. split; apply guarded_values.
  Qed.

  (* closed form when the per-node function is known on every node name *)
  Lemma for_all_nodes_exact {X} (g : gstate) (f : gstate -> T -> outcome (option X)) (h : T -> X) :
    (forall x, In x (names g) -> f g x = Ok (Some (h x))) ->
    for_all_nodes g f = Ok (map (fun x => (x, h x)) (names g)).
  Proof.
    unfold for_all_nodes, names. generalize (nodes_vec g) as ns. intros ns.
    induction ns as [|n t IH]; intros Hf; [reflexivity|]. cbn [omapM map].
    rewrite (Hf (nname n) (or_introl eq_refl)). cbn [bind].
    rewrite IH by (intros x Hx; apply Hf; right; exact Hx). reflexivity.
  Qed.

  Theorem degree_maps_exact (g : gstate) :
    WF g ->
    get_degree_for_all_nodes teqb tltb g =
      Ok (map (fun x => (x, out_deg teqb g x + in_deg teqb g x)) (names g)) /\
    (directed (sp g) = true ->
     get_in_degree_for_all_nodes teqb g = Ok (map (fun x => (x, in_deg teqb g x)) (names g)) /\
     get_out_degree_for_all_nodes teqb g = Ok (map (fun x => (x, out_deg teqb g x)) (names g))).
  Proof.
    intros W. split.
    - apply for_all_nodes_exact. intros x Hx. apply (get_node_degree_spec teqb tltb teqb_spec tltb_total g x W Hx).
    - intros Hd. unfold get_in_degree_for_all_nodes, get_out_degree_for_all_nodes. rewrite Hd. cbn [negb].
      split; apply for_all_nodes_exact; intros x Hx.
      + apply (get_node_in_degree_spec teqb tltb teqb_spec g x W Hd Hx).
      + apply (get_node_out_degree_spec teqb tltb teqb_spec g x W Hd Hx).
  Qed.

  Theorem weighted_degree_map_exact (g : gstate) :
    WF g -> all_real (flat_map snd (edges g)) ->
    get_weighted_degree_for_all_nodes teqb tltb g =
      Ok (map (fun x => (x, Some (w_out teqb g x + w_in teqb g x)%Z)) (names g)).
  Proof.
    intros W Hr. apply for_all_nodes_exact. intros x Hx.
    apply (get_node_weighted_degree_spec teqb tltb teqb_spec tltb_total g x W Hx Hr).
  Qed.
End DegreeMaps.
