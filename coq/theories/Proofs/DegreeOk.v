(* C09: degrees are counts over the edge multiset; handshake identities. *)
From Coq Require Import String List Bool Arith ZArith Lia Permutation.
From GV Require Import Base.Outcome Base.AMap Model.GState Model.Creation Model.Query Spec.AGraph.
From GV Require Import Proofs.AMapOk Proofs.WFDefs Proofs.WFNode Proofs.WFEdge Proofs.Refine Proofs.AdjOk
     Proofs.QueryOk.
Import ListNotations.

Section Counting.
  Context {X N : Type}.
  Variable neqb : N -> N -> bool.
  Hypothesis neqb_spec : forall a b, neqb a b = true <-> a = b.

  Definition sum_over (g : N -> nat) (ns : list N) : nat := fold_right (fun x acc => g x + acc) 0 ns.

  Lemma sum_over_indicator (v : N) (ns : list N) :
    NoDup ns -> In v ns -> sum_over (fun x => if neqb v x then 1 else 0) ns = 1.
  Proof.
    induction ns as [|h t IH]; intros Hnd Hin; [destruct Hin|]. simpl.
    inversion Hnd as [|? ? Hni Hnd']; subst. destruct Hin as [->|Hin].
    - rewrite (proj2 (neqb_spec _ _) eq_refl).
      assert (sum_over (fun x => if neqb v x then 1 else 0) t = 0) as ->; [|reflexivity].
      clear IH Hnd Hnd'. induction t as [|a t IHt]; [reflexivity|]. simpl.
      destruct (neqb v a) eqn:E.
      + apply neqb_spec in E. subst. exfalso. apply Hni. left. reflexivity.
      + apply IHt. intros H. apply Hni. right. exact H.
    - destruct (neqb v h) eqn:E.
      + apply neqb_spec in E. subst. contradiction.
      + rewrite (IH Hnd' Hin). reflexivity.
  Qed.

  Lemma sum_over_add (g1 g2 : N -> nat) ns :
    sum_over (fun x => g1 x + g2 x) ns = sum_over g1 ns + sum_over g2 ns.
  Proof. induction ns as [|h t IH]; simpl; [reflexivity|]. rewrite IH. lia. Qed.

  Lemma sum_over_ext (g1 g2 : N -> nat) ns : (forall x, g1 x = g2 x) -> sum_over g1 ns = sum_over g2 ns.
  Proof. intros H. induction ns as [|h t IH]; simpl; [reflexivity|]. rewrite IH, H. reflexivity. Qed.

  (* every element is counted at exactly one name *)
  Lemma count_partition (f : X -> N) (E : list X) (ns : list N) :
    NoDup ns -> (forall e, In e E -> In (f e) ns) ->
    sum_over (fun x => length (filter (fun e => neqb (f e) x) E)) ns = length E.
  Proof.
    intros Hnd. induction E as [|e t IH]; intros Hin; simpl.
    - clear Hin Hnd. induction ns as [|h ns' IHn]; simpl; [reflexivity|]. exact IHn.
    - rewrite (sum_over_ext _ (fun x => (if neqb (f e) x then 1 else 0) + length (filter (fun e0 => neqb (f e0) x) t))).
      + rewrite sum_over_add, (sum_over_indicator (f e) ns Hnd (Hin e (or_introl eq_refl))).
        rewrite IH; [reflexivity|]. intros e0 H0. apply Hin. right. exact H0.
      + intros x. destruct (neqb (f e) x); reflexivity.
  Qed.
End Counting.

Lemma Permutation_filter_length {X} (f : X -> bool) (l l' : list X) :
  Permutation l l' -> length (filter f l) = length (filter f l').
Proof.
  induction 1; simpl; try reflexivity.
  - destruct (f x); simpl; congruence.
  - destruct (f x); destruct (f y); reflexivity.
  - congruence.
Qed.

Lemma filter_or_and_length {X} (a b : X -> bool) (l : list X) :
  length (filter (fun e => a e || b e) l) + length (filter (fun e => a e && b e) l) =
  length (filter a l) + length (filter b l).
Proof.
  induction l as [|h t IH]; simpl; [reflexivity|].
  destruct (a h); destruct (b h); simpl; lia.
Qed.

Lemma filter_filter_imp {X} (f g : X -> bool) (l : list X) :
  (forall e, f e = true -> g e = true) -> filter f (filter g l) = filter f l.
Proof.
  intros H. induction l as [|h t IH]; simpl; [reflexivity|].
  destruct (g h) eqn:Eg; simpl.
  - rewrite IH. reflexivity.
  - destruct (f h) eqn:Ef; [rewrite (H h Ef) in Eg; discriminate | exact IH].
Qed.

Section DegreeOk.
  Context {T A : Type}.
  Variable teqb : T -> T -> bool.
  Variable tltb : T -> T -> bool.
  Hypothesis teqb_spec : forall x y, teqb x y = true <-> x = y.
  Hypothesis tltb_asym : forall x y, tltb x y = true -> tltb y x = false.
  Hypothesis tltb_total : forall x y, tltb x y = false -> tltb y x = false -> x = y.

  Notation edge := (edge T A).
  Notation gstate := (gstate T A).
  Notation WF := (@WF T A teqb tltb).
  Notation names := (@names T A).
  Notation all_edges := (fun g : gstate => flat_map snd (edges g)).
  Notation out_edges_of := (out_edges_of teqb).
  Notation in_edges_of := (in_edges_of teqb).
  Notation touching := (touching teqb).

  Definition out_deg (g : gstate) (x : T) : nat := length (out_edges_of g x).
  Definition in_deg (g : gstate) (x : T) : nat := length (in_edges_of g x).

  Theorem get_node_out_degree_spec (g : gstate) x :
    WF g -> directed (sp g) = true -> In x (names g) ->
    get_node_out_degree teqb g x = Ok (Some (out_deg g x)).
  Proof.
    intros W Hd Hx. unfold get_node_out_degree.
    destruct (get_out_edges_for_node_spec teqb tltb teqb_spec g x W Hd Hx) as (l & Hl & Hp).
    rewrite Hl. simpl. unfold out_deg. rewrite (Permutation_length Hp). reflexivity.
  Qed.

  Theorem get_node_in_degree_spec (g : gstate) x :
    WF g -> directed (sp g) = true -> In x (names g) ->
    get_node_in_degree teqb g x = Ok (Some (in_deg g x)).
  Proof.
    intros W Hd Hx. unfold get_node_in_degree.
    destruct (get_in_edges_for_node_spec teqb tltb teqb_spec g x W Hd Hx) as (l & Hl & Hp).
    rewrite Hl. simpl. unfold in_deg. rewrite (Permutation_length Hp). reflexivity.
  Qed.

  (* degree = edges leaving + edges entering: a self-loop adds two *)
  Theorem get_node_degree_spec (g : gstate) x :
    WF g -> In x (names g) ->
    get_node_degree teqb tltb g x = Ok (Some (out_deg g x + in_deg g x)).
  Proof.
    intros W Hx. unfold get_node_degree.
    destruct (get_edges_for_node_spec teqb tltb teqb_spec tltb_total g x W Hx) as (l & Hl & Hp).
    rewrite Hl. do 2 f_equal.
    rewrite (Permutation_length Hp), (Permutation_filter_length (is_loop_at teqb x) _ _ Hp).
    unfold QueryOk.touching, out_deg, in_deg, QueryOk.out_edges_of, QueryOk.in_edges_of, is_loop_at.
    rewrite (filter_filter_imp (fun e : edge => teqb (eu e) x && teqb (ev e) x)
               (fun e => teqb (eu e) x || teqb (ev e) x)).
    - apply (filter_or_and_length (fun e : edge => teqb (eu e) x) (fun e => teqb (ev e) x)).
    - intros e He. apply andb_true_iff in He. destruct He as (-> & _). reflexivity.
  Qed.

  Lemma endpoints_in_names (g : gstate) e :
    WF g -> In e (all_edges g) -> In (eu e) (names g) /\ In (ev e) (names g).
  Proof.
    intros W He. apply (in_all_edges teqb tltb teqb_spec g e W) in He. destruct He as (l & Hl & _).
    destruct (wf_egroup _ _ _ W _ _ Hl) as (_ & _ & Hf & Hs & _). auto.
  Qed.

  (* handshake identities over the node list *)
  Theorem out_degrees_sum (g : gstate) :
    WF g -> sum_over (out_deg g) (names g) = length (all_edges g).
  Proof.
    intros W. unfold out_deg, QueryOk.out_edges_of.
    apply (count_partition teqb teqb_spec (fun e : edge => eu e)); [apply (wf_nodup _ _ _ W)|].
    intros e He. apply (endpoints_in_names g e W He).
  Qed.

  Theorem in_degrees_sum (g : gstate) :
    WF g -> sum_over (in_deg g) (names g) = length (all_edges g).
  Proof.
    intros W. unfold in_deg, QueryOk.in_edges_of.
    apply (count_partition teqb teqb_spec (fun e : edge => ev e)); [apply (wf_nodup _ _ _ W)|].
    intros e He. apply (endpoints_in_names g e W He).
  Qed.

  Theorem handshake (g : gstate) :
    WF g -> sum_over (fun x => out_deg g x + in_deg g x) (names g) = 2 * length (all_edges g).
  Proof.
    intros W. rewrite sum_over_add, (out_degrees_sum g W), (in_degrees_sum g W). lia.
  Qed.

  (* counts *)
  Theorem number_of_edges_is_size (g : gstate) :
    number_of_edges g = length (all_edges g) /\ size_unweighted g = length (all_edges g) /\
    number_of_nodes g = length (nodes_vec g).
  Proof. repeat split; reflexivity. Qed.
End DegreeOk.

(* ---- density and degree centrality (C09) ---- *)
From Coq Require Import QArith.
From GV Require Import Model.Derived Proofs.DerivedContent.

Section DensityOk.
  Context {T A : Type}.
  Variable teqb : T -> T -> bool.
  Variable tltb : T -> T -> bool.
  Hypothesis teqb_spec : forall x y, teqb x y = true <-> x = y.
  Hypothesis tltb_asym : forall x y, tltb x y = true -> tltb y x = false.
  Hypothesis tltb_total : forall x y, tltb x y = false -> tltb y x = false -> x = y.
  Notation gstate := (gstate T A).
  Notation WF := (@WF T A teqb tltb).

  (* on a single-edge graph the number of stored pairs is the number of edges *)
  Lemma single_edge_pairs (g : gstate) :
    WF g -> multi (sp g) = false -> length (edges g) = length (flat_map snd (edges g)).
  Proof.
    intros W Hm. pose proof (single_keys teqb tltb teqb_spec g W Hm) as H. cbv beta in H.
    rewrite <- (map_length (@ekey T A) (flat_map snd (edges g))), H. unfold keys. rewrite map_length. reflexivity.
  Qed.

  (* density of a single-edge graph with n >= 2 nodes and m edges: m/(n(n-1)), doubled when undirected *)
  Theorem density_spec (g : gstate) :
    WF g -> multi (sp g) = false -> (2 <= length (nodes_vec g))%nat ->
    let m := Z.of_nat (length (flat_map snd (edges g))) in
    let n := Z.of_nat (length (nodes_vec g)) in
    exists q, get_density g = Some q /\
              Qeq q ((if directed (sp g) then inject_Z m else inject_Z (2 * m)%Z) / inject_Z (n * (n - 1))%Z).
  Proof.
    intros W Hm Hn m n. unfold get_density. rewrite (single_edge_pairs g W Hm). fold m n.
    destruct (Z.eqb m 0) eqn:E0.
    - apply Z.eqb_eq in E0. exists 0%Q. split; [reflexivity|]. rewrite E0.
      destruct (directed (sp g)); simpl; unfold Qeq; simpl; lia.
    - assert (Hnz : Z.eqb (n * (n - 1)) 0 = false).
      { apply Z.eqb_neq. unfold n. nia. }
      rewrite Hnz. eexists. split; [reflexivity|]. apply Qred_correct.
  Qed.

  (* degree centrality: degree / (n - 1) for n >= 2, one entry per node in node order *)
  Theorem degree_centrality_spec (g : gstate) :
    WF g -> (2 <= length (nodes_vec g))%nat ->
    exists l, degree_centrality teqb tltb g = Ok l /\
              map fst l = names g /\
              forall x q, In (x, q) l ->
                Qeq q (inject_Z (Z.of_nat (out_deg teqb g x + in_deg teqb g x)) /
                       inject_Z (Z.of_nat (length (nodes_vec g)) - 1)).
  Proof.
    intros W Hn. unfold degree_centrality.
    destruct (Nat.leb (length (nodes_vec g)) 1) eqn:E; [apply Nat.leb_le in E; lia|].
    assert (Hgen : forall ns : list (node T A), (forall nd, In nd ns -> In (nname nd) (names g)) ->
              exists l, omapM (fun nd =>
                          do d <- get_node_degree teqb tltb g (nname nd);
                          match d with
                          | Some k => Ok (nname nd, Qred (inject_Z (Z.of_nat k) / inject_Z (Z.of_nat (length (nodes_vec g)) - 1)))
                          | None => Panic "degree.rs:50"%string
                          end) ns = Ok l /\
                        map fst l = map nname ns /\
                        forall x q, In (x, q) l ->
                          Qeq q (inject_Z (Z.of_nat (out_deg teqb g x + in_deg teqb g x)) /
                                 inject_Z (Z.of_nat (length (nodes_vec g)) - 1))).
    { induction ns as [|nd ns IH]; intros Hin.
      - exists []. repeat split; auto. intros x q [].
      - cbn [omapM].
        rewrite (get_node_degree_spec teqb tltb teqb_spec tltb_total g (nname nd) W (Hin nd (or_introl eq_refl))).
        cbn [bind]. destruct (IH (fun n0 H0 => Hin n0 (or_intror H0))) as (l & Hl & Hf & Hq). rewrite Hl. cbn [bind].
        eexists. split; [reflexivity|]. split; [cbn [map fst]; rewrite Hf; reflexivity|].
        intros x q [Hx|Hx]; [|apply (Hq x q Hx)].
        apply pair_equal_spec in Hx. destruct Hx as (Hx1 & Hx2). rewrite <- Hx1, <- Hx2. apply Qred_correct. }
    apply Hgen. intros nd Hnd. unfold WFDefs.names. apply in_map. exact Hnd.
  Qed.
End DensityOk.

(* ---- weighted degrees and the weighted handshake (C09), for uniformly real weights ---- *)
Section WeightedDegree.
  Context {T A : Type}.
  Variable teqb : T -> T -> bool.
  Variable tltb : T -> T -> bool.
  Hypothesis teqb_spec : forall x y, teqb x y = true <-> x = y.
  Hypothesis tltb_asym : forall x y, tltb x y = true -> tltb y x = false.
  Hypothesis tltb_total : forall x y, tltb x y = false -> tltb y x = false -> x = y.
  Notation edge := (edge T A).
  Notation gstate := (gstate T A).
  Notation WF := (@WF T A teqb tltb).
  Open Scope Z_scope.

  Definition zw (e : edge) : Z := match ew e with Some z => z | None => 0 end.
  Definition zsum (l : list edge) : Z := fold_right (fun e acc => zw e + acc) 0 l.
  Definition all_real (l : list edge) : Prop := forall e, In e l -> exists z, ew e = Some z.

  Lemma wsum_real (l : list edge) : all_real l -> wsum (map ew l) = Some (zsum l).
  Proof.
    induction l as [|e t IH]; intros H; simpl; [reflexivity|].
    destruct (H e (or_introl eq_refl)) as (z & Hz). rewrite IH by (intros e0 H0; apply H; right; exact H0).
    unfold zw. rewrite Hz. reflexivity.
  Qed.

  Lemma zsum_app (a b : list edge) : zsum (a ++ b) = zsum a + zsum b.
  Proof. induction a as [|h t IH]; simpl; [reflexivity|]. rewrite IH. lia. Qed.

  Lemma zsum_perm (l l' : list edge) : Permutation l l' -> zsum l = zsum l'.
  Proof. induction 1; simpl; lia. Qed.

  Lemma zsum_filter_perm (f : edge -> bool) (l l' : list edge) :
    Permutation l l' -> zsum (filter f l) = zsum (filter f l').
  Proof.
    induction 1; simpl; try reflexivity.
    - destruct (f x); simpl; lia.
    - destruct (f x); destruct (f y); simpl; lia.
    - congruence.
  Qed.

  Lemma zsum_or_and (a b : edge -> bool) (l : list edge) :
    zsum (filter (fun e => a e || b e) l) + zsum (filter (fun e => a e && b e) l) =
    zsum (filter a l) + zsum (filter b l).
  Proof. induction l as [|h t IH]; simpl; [reflexivity|]. destruct (a h); destruct (b h); simpl; lia. Qed.

  Definition zsum_over {N} (g : N -> Z) (ns : list N) : Z := fold_right (fun x acc => g x + acc) 0 ns.

  Lemma zsum_over_add {N} (g1 g2 : N -> Z) ns :
    zsum_over (fun x => g1 x + g2 x) ns = zsum_over g1 ns + zsum_over g2 ns.
  Proof. induction ns as [|h t IH]; simpl; [reflexivity|]. rewrite IH. lia. Qed.

  Lemma zsum_over_ext {N} (g1 g2 : N -> Z) ns : (forall x, g1 x = g2 x) -> zsum_over g1 ns = zsum_over g2 ns.
  Proof. intros H. induction ns as [|h t IH]; simpl; [reflexivity|]. rewrite IH, H. reflexivity. Qed.

  Lemma zsum_over_indicator (v : T) (c : Z) (ns : list T) :
    NoDup ns -> In v ns -> zsum_over (fun x => if teqb v x then c else 0) ns = c.
  Proof.
    induction ns as [|h t IH]; intros Hnd Hin; [destruct Hin|]. simpl.
    inversion Hnd as [|? ? Hni Hnd']; subst. destruct Hin as [->|Hin].
    - rewrite (proj2 (teqb_spec _ _) eq_refl).
      assert (zsum_over (fun x => if teqb v x then c else 0) t = 0) as ->; [|lia].
      clear IH Hnd Hnd'. induction t as [|a t IHt]; [reflexivity|]. simpl.
      destruct (teqb v a) eqn:E.
      + apply teqb_spec in E. subst. exfalso. apply Hni. left. reflexivity.
      + rewrite IHt; [reflexivity|]. intros H. apply Hni. right. exact H.
    - destruct (teqb v h) eqn:E.
      + apply teqb_spec in E. subst. contradiction.
      + rewrite (IH Hnd' Hin). reflexivity.
  Qed.

  (* every edge's weight is counted at exactly one name *)
  Lemma weight_partition (f : edge -> T) (E : list edge) (ns : list T) :
    NoDup ns -> (forall e, In e E -> In (f e) ns) ->
    zsum_over (fun x => zsum (filter (fun e => teqb (f e) x) E)) ns = zsum E.
  Proof.
    intros Hnd. induction E as [|e t IH]; intros Hin; simpl.
    - clear Hin Hnd. induction ns as [|h ns' IHn]; simpl; [reflexivity|]. rewrite IHn. reflexivity.
    - rewrite (zsum_over_ext _ (fun x => (if teqb (f e) x then zw e else 0) + zsum (filter (fun e0 => teqb (f e0) x) t))).
      + rewrite zsum_over_add, (zsum_over_indicator (f e) (zw e) ns Hnd (Hin e (or_introl eq_refl))).
        rewrite IH; [reflexivity|]. intros e0 H0. apply Hin. right. exact H0.
      + intros x. destruct (teqb (f e) x); simpl; lia.
  Qed.

  Definition w_out (g : gstate) (x : T) : Z := zsum (out_edges_of teqb g x).
  Definition w_in (g : gstate) (x : T) : Z := zsum (in_edges_of teqb g x).

  Lemma all_real_sub (l l' : list edge) : all_real l -> (forall e, In e l' -> In e l) -> all_real l'.
  Proof. intros H Hs e He. apply H. apply Hs. exact He. Qed.

  (* weighted degree = weight leaving + weight entering (a self-loop's weight twice) *)
  Theorem get_node_weighted_degree_spec (g : gstate) x :
    WF g -> In x (names g) -> all_real (flat_map snd (edges g)) ->
    get_node_weighted_degree teqb tltb g x = Ok (Some (Some (w_out g x + w_in g x))).
  Proof.
    intros W Hx Hreal. unfold get_node_weighted_degree.
    destruct (get_edges_for_node_spec teqb tltb teqb_spec tltb_total g x W Hx) as (l & Hl & Hp).
    rewrite Hl. do 2 f_equal.
    assert (Hrl : all_real l).
    { apply (all_real_sub (flat_map snd (edges g))); [exact Hreal|].
      intros e He. apply (Permutation_in _ Hp) in He. unfold QueryOk.touching in He. apply filter_In in He. apply He. }
    rewrite (wsum_real l Hrl).
    rewrite (wsum_real (filter (is_loop_at teqb x) l)) by (apply (all_real_sub l); [exact Hrl|intros e He; apply filter_In in He; apply He]).
    simpl. f_equal.
    rewrite (zsum_perm _ _ Hp), (zsum_filter_perm (is_loop_at teqb x) _ _ Hp).
    unfold QueryOk.touching, w_out, w_in, QueryOk.out_edges_of, QueryOk.in_edges_of, is_loop_at.
    rewrite (filter_filter_imp (fun e : edge => teqb (eu e) x && teqb (ev e) x)
               (fun e => teqb (eu e) x || teqb (ev e) x)).
    - apply (zsum_or_and (fun e : edge => teqb (eu e) x) (fun e => teqb (ev e) x)).
    - intros e He. apply andb_true_iff in He. destruct He as (-> & _). reflexivity.
  Qed.

  Theorem weighted_handshake (g : gstate) :
    WF g ->
    zsum_over (fun x => w_out g x + w_in g x) (names g) = 2 * zsum (flat_map snd (edges g)).
  Proof.
    intros W. rewrite zsum_over_add. unfold w_out, w_in, QueryOk.out_edges_of, QueryOk.in_edges_of.
    rewrite (weight_partition (fun e : edge => eu e)), (weight_partition (fun e : edge => ev e)).
    - lia.
    - apply (wf_nodup _ _ _ W).
    - intros e He. apply (endpoints_in_names teqb tltb teqb_spec g e W He).
    - apply (wf_nodup _ _ _ W).
    - intros e He. apply (endpoints_in_names teqb tltb teqb_spec g e W He).
  Qed.

  (* size(true) is the sum of the stored weights *)
  Theorem size_weighted_spec (g : gstate) :
    all_real (flat_map snd (edges g)) -> size_weighted g = Some (zsum (flat_map snd (edges g))).
  Proof. intros H. unfold size_weighted, get_all_edges. apply wsum_real. exact H. Qed.
End WeightedDegree.
