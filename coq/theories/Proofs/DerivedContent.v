(* C15: the exact content of the derived graphs.  Built on the constructor lemma
   [new_from_rebuild] (Proofs/CreationRebuild.v): on distinct node names and an edge list
   that the specs admit, new_from_nodes_and_edges keeps the nodes in order and stores
   exactly that edge multiset.  Under WF the edge lists handed to the constructor by
   get_subgraph / reverse / set_all_edge_weights / to_single_edges are admissible. *)
From Coq Require Import String List Bool Arith Lia Permutation.
From GV Require Import Base.Outcome Base.AMap Model.GState Model.Creation Model.Query Model.Derived Spec.AGraph.
From GV Require Import Proofs.AMapOk Proofs.WFDefs Proofs.WFNode Proofs.WFEdge Proofs.Refine Proofs.AdjOk
     Proofs.QueryOk Proofs.CreationRebuild.
Import ListNotations.

Section DerivedContent.
  Context {T A : Type}.
  Variable teqb : T -> T -> bool.
  Variable tltb : T -> T -> bool.
  Hypothesis teqb_spec : forall x y, teqb x y = true <-> x = y.
  Hypothesis tltb_asym : forall x y, tltb x y = true -> tltb y x = false.
  Hypothesis tltb_total : forall x y, tltb x y = false -> tltb y x = false -> x = y.

  Notation node := (node T A).
  Notation edge := (edge T A).
  Notation gstate := (gstate T A).
  Notation WF := (@WF T A teqb tltb).
  Notation names := (@names T A).
  Notation group := (@group T A teqb).
  Notation pspec := (peqb_spec teqb teqb_spec).
  Notation all_edges := (fun g : gstate => flat_map snd (edges g)).
  Notation same_pair := (@same_pair T A).
  Notation all_admissible := (@all_admissible T A tltb).

  Definition ekey (e : edge) : T * T := (eu e, ev e).

  Fixpoint distinct_pairs (s : specs) (l : list edge) : Prop :=
    match l with
    | [] => True
    | e :: t => (forall e', In e' t -> ~ same_pair s e' e) /\ distinct_pairs s t
    end.

  Definition edge_ok (s : specs) (ns : list T) (e : edge) : Prop :=
    In (eu e) ns /\ In (ev e) ns /\ (selfloops s = false -> eu e <> ev e) /\
    (directed s = false -> tltb (ev e) (eu e) = false).

  Lemma admissible_intro s ns : forall es done,
    (forall e, In e es -> edge_ok s ns e) ->
    (multi s = false -> (forall e e', In e es -> In e' done -> ~ same_pair s e e') /\ distinct_pairs s es) ->
    all_admissible s ns done es.
  Proof.
    induction es as [|e t IH]; intros done Hok Hd; simpl; [exact I|].
    destruct (Hok e (or_introl eq_refl)) as (H1 & H2 & H3 & H4).
    split.
    - unfold admissible. repeat split; try assumption.
      intros Hm e' He'. destruct (Hd Hm) as (Hdone & _). apply (Hdone e e'); [left; reflexivity|exact He'].
    - apply IH; [intros e0 H0; apply Hok; right; exact H0|].
      intros Hm. destruct (Hd Hm) as (Hdone & (Hhead & Htail)). split; [|exact Htail].
      intros e1 e' H1' He'. apply in_app_iff in He'. destruct He' as [He'|[<-|[]]].
      + apply (Hdone e1 e'); [right; exact H1'|exact He'].
      + apply Hhead. exact H1'.
  Qed.

  Lemma distinct_from_keys s (l : list edge) :
    NoDup (map ekey l) -> (directed s = false -> forall e, In e l -> tltb (ev e) (eu e) = false) ->
    distinct_pairs s l.
  Proof.
    induction l as [|e t IH]; intros Hnd Hord; simpl; [exact I|].
    inversion Hnd as [|? ? Hni Hnd']; subst. split.
    - intros e' He' [(H1 & H2)|(Hd & H1 & H2)].
      + apply Hni. apply in_map_iff. exists e'. split; [unfold ekey; rewrite H1, H2; reflexivity|exact He'].
      + pose proof (Hord Hd e (or_introl eq_refl)) as O1.
        pose proof (Hord Hd e' (or_intror He')) as O2. rewrite H1, H2 in O2.
        pose proof (tltb_total _ _ O1 O2) as E.
        apply Hni. apply in_map_iff. exists e'. split; [|exact He'].
        unfold ekey. rewrite H1, H2, E. reflexivity.
    - apply IH; [exact Hnd'|]. intros Hd e0 H0. apply Hord; [exact Hd|right; exact H0].
  Qed.

  Lemma NoDup_map_filter {X Y} (h : X -> Y) (f : X -> bool) (l : list X) :
    NoDup (map h l) -> NoDup (map h (filter f l)).
  Proof.
    induction l as [|a t IH]; simpl; intros H; [constructor|].
    inversion H as [|? ? Hni Hnd]; subst. destruct (f a); simpl; [|apply IH; exact Hnd].
    constructor; [|apply IH; exact Hnd].
    intros Hin. apply Hni. apply in_map_iff in Hin. destruct Hin as (b & Eb & Hb).
    apply filter_In in Hb. apply in_map_iff. exists b. split; [exact Eb|apply Hb].
  Qed.

  (* facts about the stored edges of a coherent state *)
  Lemma stored_edge_ok (g : gstate) e :
    WF g -> In e (all_edges g) -> edge_ok (sp g) (names g) e.
  Proof.
    intros W He. apply (in_all_edges teqb tltb teqb_spec g e W) in He. destruct He as (l & Hl & _).
    destruct (wf_egroup _ _ _ W _ _ Hl) as (_ & _ & Hf & Hs & Ho & _ & Hsl). simpl in *.
    repeat split; assumption.
  Qed.

  Lemma single_keys (g : gstate) :
    WF g -> multi (sp g) = false -> map ekey (all_edges g) = keys (edges g).
  Proof.
    intros W Hm.
    assert (H : forall m : list ((T * T) * list edge),
              (forall k l, In (k, l) m -> length l = 1 /\ forall e, In e l -> ekey e = k) ->
              map ekey (flat_map snd m) = keys m).
    { induction m as [|[k l] t IH]; intros Hall; simpl; [reflexivity|].
      destruct (Hall k l (or_introl eq_refl)) as (Hlen & Hk).
      destruct l as [|e [|e2 l']]; simpl in Hlen; try lia. simpl.
      rewrite (Hk e (or_introl eq_refl)). f_equal. apply IH. intros k' l' Hin. apply Hall. right. exact Hin. }
    apply H. intros k l Hin.
    pose proof (In_lookup (peqb teqb) pspec _ _ _ (wf_ekeys _ _ _ W) Hin) as Hl.
    destruct (wf_egroup _ _ _ W _ _ Hl) as (_ & Hall & _ & _ & _ & Hlen & _).
    split; [apply Hlen; exact Hm | exact Hall].
  Qed.

  Lemma stored_distinct (g : gstate) : WF g -> multi (sp g) = false -> NoDup (map ekey (all_edges g)).
  Proof. intros W Hm. pose proof (single_keys g W Hm) as H. cbv beta in *. rewrite H. apply (wf_ekeys _ _ _ W). Qed.

  Lemma names_filter_NoDup (g : gstate) (p : node -> bool) :
    WF g -> NoDup (map nname (filter p (nodes_vec g))).
  Proof. intros W. apply NoDup_map_filter. apply (wf_nodup _ _ _ W). Qed.

  Lemma mem_name_In x xs : mem_name teqb x xs = true <-> In x xs.
  Proof.
    unfold mem_name. rewrite existsb_exists. split.
    - intros (y & Hy & E). apply teqb_spec in E. subst. exact Hy.
    - intros H. exists x. split; [exact H|apply teqb_spec; reflexivity].
  Qed.

  (* ---------------- get_subgraph ---------------- *)
  Theorem get_subgraph_content (g : gstate) xs :
    WF g ->
    exists h, get_subgraph teqb tltb g xs = Ok h /\
              nodes_vec h = filter (fun n => mem_name teqb (nname n) xs) (nodes_vec g) /\
              sp h = sp g /\
              Permutation (all_edges h)
                (filter (fun e => mem_name teqb (eu e) xs && mem_name teqb (ev e) xs) (all_edges g)).
  Proof.
    intros W. unfold get_subgraph, get_all_nodes, get_all_edges.
    set (ns := filter (fun n => mem_name teqb (nname n) xs) (nodes_vec g)).
    set (es := filter (fun e => mem_name teqb (eu e) xs && mem_name teqb (ev e) xs) (flat_map snd (edges g))).
    destruct (new_from_rebuild teqb tltb teqb_spec ns es (sp g)) as (h & Hh & Hv & Hs & Hp).
    - apply names_filter_NoDup. exact W.
    - apply admissible_intro.
      + intros e He. unfold es in He. apply filter_In in He. destruct He as (He & Hb).
        apply andb_true_iff in Hb. destruct Hb as (Hu & Hv).
        destruct (stored_edge_ok g e W He) as (H1 & H2 & H3 & H4).
        assert (Hin : forall x, In x (names g) -> mem_name teqb x xs = true -> In x (map nname ns)).
        { intros x Hx Hm. unfold WFDefs.names in Hx. apply in_map_iff in Hx. destruct Hx as (n & En & Hn).
          apply in_map_iff. exists n. split; [exact En|]. unfold ns. apply filter_In. split; [exact Hn|].
          rewrite En. exact Hm. }
        repeat split; auto.
      + intros Hm. split; [intros e e' _ []|].
        apply distinct_from_keys.
        * unfold es. apply NoDup_map_filter. apply (stored_distinct g W Hm).
        * intros Hd e He. unfold es in He. apply filter_In in He. destruct He as (He & _).
          apply (stored_edge_ok g e W He). exact Hd.
    - exists h. rewrite Hh. simpl. repeat split; assumption.
  Qed.

  (* ---------------- set_all_edge_weights ---------------- *)
  Theorem set_all_edge_weights_content (g : gstate) w :
    WF g ->
    exists h, set_all_edge_weights teqb tltb g w = Ok h /\
              nodes_vec h = nodes_vec g /\ sp h = sp g /\
              Permutation (all_edges h)
                (map (fun e => mkedge (eu e) (ev e) w (eattr e)) (all_edges g)).
  Proof.
    intros W. unfold set_all_edge_weights, get_all_nodes, get_all_edges.
    set (f := fun e : edge => mkedge (eu e) (ev e) w (eattr e)).
    destruct (new_from_rebuild teqb tltb teqb_spec (nodes_vec g) (map f (flat_map snd (edges g))) (sp g))
      as (h & Hh & Hv & Hs & Hp).
    - apply (wf_nodup _ _ _ W).
    - apply admissible_intro.
      + intros e He. apply in_map_iff in He. destruct He as (e0 & <- & H0).
        apply (stored_edge_ok g e0 W H0).
      + intros Hm. split; [intros e e' _ []|].
        apply distinct_from_keys.
        * rewrite map_map. simpl. apply (stored_distinct g W Hm).
        * intros Hd e He. apply in_map_iff in He. destruct He as (e0 & <- & H0). simpl.
          apply (stored_edge_ok g e0 W H0). exact Hd.
    - exists h. rewrite Hh. simpl. repeat split; assumption.
  Qed.

  (* ---------------- reverse ---------------- *)
  Theorem reverse_content (g : gstate) :
    WF g -> directed (sp g) = true ->
    exists h, reverse teqb tltb g = Ok h /\
              nodes_vec h = nodes_vec g /\ sp h = sp g /\
              Permutation (all_edges h) (map reversed (all_edges g)).
  Proof.
    intros W Hd. unfold reverse, get_all_nodes, get_all_edges. rewrite Hd. simpl.
    destruct (new_from_rebuild teqb tltb teqb_spec (nodes_vec g) (map reversed (flat_map snd (edges g))) (sp g))
      as (h & Hh & Hv & Hs & Hp).
    - apply (wf_nodup _ _ _ W).
    - apply admissible_intro.
      + intros e He. apply in_map_iff in He. destruct He as (e0 & <- & H0).
        destruct (stored_edge_ok g e0 W H0) as (H1 & H2 & H3 & H4). unfold reversed, edge_ok. simpl.
        split; [exact H2|]. split; [exact H1|]. split; [intros Hs E; apply (H3 Hs); symmetry; exact E|].
        intros Hf. congruence.
      + intros Hm. split; [intros e e' _ []|].
        apply distinct_from_keys; [|intros Hf; congruence].
        rewrite map_map.
        assert (Hsw : map (fun x : edge => ekey (reversed x)) (flat_map snd (edges g)) =
                      map (fun k : T * T => (snd k, fst k)) (map ekey (flat_map snd (edges g)))).
        { rewrite map_map. reflexivity. }
        rewrite Hsw. apply NoDup_map_inj; [|apply (stored_distinct g W Hm)].
        intros [a b] [c d] _ _ H. simpl in H. inversion H. reflexivity.
    - exists h. rewrite Hh. repeat split; assumption.
  Qed.

  Theorem reverse_involutive (g h k : gstate) :
    WF g -> WF h -> reverse teqb tltb g = Ok h -> reverse teqb tltb h = Ok k ->
    nodes_vec k = nodes_vec g /\ Permutation (all_edges k) (all_edges g).
  Proof.
    intros Wg Wh Hh Hk.
    assert (Hd : directed (sp g) = true).
    { unfold reverse in Hh. destruct (directed (sp g)); [reflexivity|discriminate]. }
    destruct (reverse_content g Wg Hd) as (h' & Hh' & Hv & Hs & Hp). rewrite Hh in Hh'. inversion Hh'. subst h'.
    assert (Hd' : directed (sp h) = true) by (rewrite Hs; exact Hd).
    destruct (reverse_content h Wh Hd') as (k' & Hk' & Hv' & Hs' & Hp'). rewrite Hk in Hk'. inversion Hk'. subst k'.
    split; [congruence|].
    eapply Permutation_trans; [exact Hp'|].
    eapply Permutation_trans; [apply Permutation_map; exact Hp|].
    rewrite map_map.
    assert (Hid : map (fun x : edge => reversed (reversed x)) (all_edges g) = all_edges g).
    { rewrite <- (map_id (all_edges g)) at 2. apply map_ext. intros [a b c d]. reflexivity. }
    rewrite Hid. apply Permutation_refl.
  Qed.

  (* ---------------- to_single_edges ---------------- *)
  Theorem to_single_edges_content (g : gstate) :
    WF g -> multi (sp g) = true ->
    exists h, to_single_edges teqb tltb g = Ok h /\
              nodes_vec h = nodes_vec g /\
              multi (sp h) = false /\ directed (sp h) = directed (sp g) /\
              Permutation (all_edges h) (map collapse_edges (edges g)).
  Proof.
    intros W Hm. unfold to_single_edges, get_all_edges. rewrite Hm. simpl.
    set (s' := {| directed := directed (sp g); dd := dd (sp g); ms := ms (sp g); multi := false;
                  selfloops := selfloops (sp g); slf := slf (sp g) |}).
    assert (Hgk : forall k l, In (k, l) (edges g) -> group g k = Some l).
    { intros k l Hin. apply (In_lookup (peqb teqb) pspec _ _ _ (wf_ekeys _ _ _ W) Hin). }
    destruct (new_from_rebuild teqb tltb teqb_spec (nodes_vec g) (map collapse_edges (edges g)) s')
      as (h & Hh & Hv & Hs & Hp).
    - apply (wf_nodup _ _ _ W).
    - apply admissible_intro.
      + intros e He. apply in_map_iff in He. destruct He as ((k & l) & <- & Hin).
        destruct (wf_egroup _ _ _ W _ _ (Hgk k l Hin)) as (_ & _ & Hf & Hs0 & Ho & _ & Hsl).
        unfold collapse_edges, edge_ok. simpl. repeat split; assumption.
      + intros _. split; [intros e e' _ []|].
        apply distinct_from_keys.
        * rewrite map_map.
          assert (Hk : map (fun x : (T * T) * list edge => ekey (collapse_edges x)) (edges g) = keys (edges g)).
          { apply map_ext. intros [[a b] l]. reflexivity. }
          rewrite Hk. apply (wf_ekeys _ _ _ W).
        * intros Hd e He. apply in_map_iff in He. destruct He as ((k & l) & <- & Hin).
          destruct (wf_egroup _ _ _ W _ _ (Hgk k l Hin)) as (_ & _ & _ & _ & Ho & _).
          unfold collapse_edges. simpl. apply Ho. exact Hd.
    - exists h. rewrite Hh. rewrite Hs. simpl. repeat split; assumption.
  Qed.
End DerivedContent.
