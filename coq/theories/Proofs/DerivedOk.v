(* C15: derived graphs are built through new_from_nodes_and_edges, hence are reachable
   states: they satisfy the coherence invariant (C01-C03) and carry the expected specs;
   kind guards. *)
From Coq Require Import String List Bool Arith Lia.
From GV Require Import Base.Outcome Base.AMap Model.GState Model.Creation Model.Query Model.Derived
     Spec.AGraph Spec.History.
From GV Require Import Proofs.WFDefs Proofs.HistoryOk.
Import ListNotations.

Section DerivedOk.
  Context {T A : Type}.
  Variable teqb : T -> T -> bool.
  Variable tltb : T -> T -> bool.
  Hypothesis teqb_spec : forall x y, teqb x y = true <-> x = y.
  Hypothesis tltb_asym : forall x y, tltb x y = true -> tltb y x = false.
  Hypothesis tltb_total : forall x y, tltb x y = false -> tltb y x = false -> x = y.
  Notation gstate := (gstate T A).
  Notation WF := (@WF T A teqb tltb).
  Notation nfr := (new_from_reachable teqb tltb teqb_spec).
  Notation wfr := (WF_reachable teqb tltb teqb_spec tltb_asym tltb_total).
  Notation rsp := (reachable_sp teqb tltb teqb_spec tltb_asym tltb_total).

  Lemma unwrap_graph_ok site (r : outcome gstate) h : unwrap_graph site r = Ok h -> r = Ok h.
  Proof. destruct r; simpl; intros H; inversion H; reflexivity. Qed.

  Theorem subgraph_WF (g h : gstate) xs :
    get_subgraph teqb tltb g xs = Ok h -> WF h /\ sp h = sp g.
  Proof.
    unfold get_subgraph. intros H. apply unwrap_graph_ok in H. apply nfr in H.
    split; [apply (wfr _ _ H) | apply (rsp _ _ H)].
  Qed.

  Theorem reverse_WF (g h : gstate) : reverse teqb tltb g = Ok h -> WF h /\ sp h = sp g.
  Proof.
    unfold reverse. destruct (negb (directed (sp g))); [discriminate|]. intros H. apply nfr in H.
    split; [apply (wfr _ _ H) | apply (rsp _ _ H)].
  Qed.

  Theorem set_all_edge_weights_WF (g h : gstate) w :
    set_all_edge_weights teqb tltb g w = Ok h -> WF h /\ sp h = sp g.
  Proof.
    unfold set_all_edge_weights. intros H. apply unwrap_graph_ok in H. apply nfr in H.
    split; [apply (wfr _ _ H) | apply (rsp _ _ H)].
  Qed.

  Theorem to_single_edges_WF (g h : gstate) :
    to_single_edges teqb tltb g = Ok h ->
    WF h /\ multi (sp h) = false /\ directed (sp h) = directed (sp g) /\ selfloops (sp h) = selfloops (sp g).
  Proof.
    unfold to_single_edges. destruct (negb (multi (sp g))); [discriminate|]. intros H. apply nfr in H.
    split; [apply (wfr _ _ H)|]. rewrite (rsp _ _ H). simpl. auto.
  Qed.

  Theorem reverse_wrong_kind (g : gstate) : directed (sp g) = false -> reverse teqb tltb g = Err WrongMethod.
  Proof. intros H. unfold reverse. rewrite H. reflexivity. Qed.

  Theorem to_single_edges_wrong_kind (g : gstate) :
    multi (sp g) = false -> to_single_edges teqb tltb g = Err WrongMethod.
  Proof. intros H. unfold to_single_edges. rewrite H. reflexivity. Qed.

  (* the node list handed to the rebuild is the filtered original list, in order, with attributes *)
  Theorem subgraph_nodes_input (g : gstate) xs :
    forall n, In n (filter (fun n => mem_name teqb (nname n) xs) (get_all_nodes g)) <->
              In n (nodes_vec g) /\ In (nname n) xs.
  Proof.
    intros n. rewrite filter_In. unfold get_all_nodes, mem_name. rewrite existsb_exists. split.
    - intros (H & y & Hy & E). apply teqb_spec in E. subst. auto.
    - intros (H & Hx). split; [exact H|]. exists (nname n). split; [exact Hx | apply teqb_spec; reflexivity].
  Qed.
End DerivedOk.
