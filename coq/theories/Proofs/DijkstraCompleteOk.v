(* Completeness of the path lists of the transcribed [dijkstra]
   (first_only = false, with_paths = true, strictly positive traversal costs,
   one adjacency entry per neighbour): for every reported node the returned
   list is duplicate-free and contains EVERY shortest path.

   Invariant J6 (DESIGN.md Appendix B), relative to the set P of adjacency
   entries already relaxed: for every seen node u <> source,
     paths[u]  =  { q ++ [u] | (v,u,c) in P, v finalised, dist[v] + c = seen[u], q in paths[v] }
   without repetition; paths[source] = [[source]].  The final argument is an
   induction on a shortest walk, using the distance theorems of
   DijkstraLoopOk.v (every node closer than a reported node is finalised). *)
From Coq Require Import String List Bool ZArith QArith Qround Arith Lia.
From GV Require Import Base.Outcome Base.AMap Model.GState Model.Creation Model.Query Model.Dijkstra.
From GV Require Import Spec.ShortestPathDef Spec.ShortestPathCheck Proofs.ShortestPathOk.
From GV Require Import Proofs.DijkstraLoopOk Proofs.DijkstraPathsOk.
Import ListNotations.
Open Scope Z_scope.

Lemma map_snoc_inj_NoDup : forall (u : nat) (l : list (list nat)),
  NoDup l -> NoDup (map (fun p => p ++ [u]) l).
Proof.
  intros u l H. induction H as [|x l Hx Hl IH]; cbn; constructor; [|exact IH].
  intros Hin. apply in_map_iff in Hin. destruct Hin as [y [E Hy]].
  apply app_inj_tail in E. destruct E as [-> _]. contradiction.
Qed.

Lemma NoDup_app_intro : forall X (a b : list X),
  NoDup a -> NoDup b -> (forall x, In x a -> In x b -> False) -> NoDup (a ++ b).
Proof.
  intros X a b Ha Hb Hd. induction Ha as [|x a Hx Ha IH]; cbn; [exact Hb|].
  constructor.
  - intros Hin. apply in_app_iff in Hin. destruct Hin as [Hin | Hin]; [contradiction|].
    apply (Hd x); [left; reflexivity | exact Hin].
  - apply IH. intros y Hy. apply (Hd y). right. exact Hy.
Qed.

Section Complete.
  Context {T A : Type}.
  Variable g : gstate T A.
  Variable weighted : bool.
  Variable src : nat.
  Variable cutoff : option Q.

  Let sv := successors_vec g.
  Let wg := wgraph_of weighted sv.

  Hypothesis Hpos : positive wg.
  Hypothesis Hlen : length sv = number_of_nodes g.

  Let Hnn : nonneg wg := positive_nonneg _ Hpos.

  Notation core := (core g weighted src cutoff).
  Notation mid := (mid g weighted src cutoff).
  Notation pinv := (pinv g weighted src true false).

  Definition tight (P : nat -> nat -> Z -> Prop) (D : vec) (Ps : pths) (u : nat) (x : Z)
             (v : nat) (q : list nat) : Prop :=
    exists c dv pv, P v u c /\ fin D v dv /\ dv + c = x /\ nth_error Ps v = Some pv /\ In q pv.

  Definition J6 (P : nat -> nat -> Z -> Prop) (D S : vec) (Ps : pths) : Prop :=
    (forall x, fin S src x -> nth_error Ps src = Some [[src]]) /\
    forall u x ps, u <> src -> fin S u x -> nth_error Ps u = Some ps ->
      NoDup ps /\ forall p, In p ps <-> exists v q, tight P D Ps u x v q /\ p = q ++ [u].

  Lemma J6_equiv : forall (P Q : nat -> nat -> Z -> Prop) D S Ps,
    (forall v u c, P v u c <-> Q v u c) -> J6 P D S Ps -> J6 Q D S Ps.
  Proof.
    intros P Q D S Ps E [J0 J]. split; [exact J0|]. intros u x ps Hu Hx Hn.
    destruct (J _ _ _ Hu Hx Hn) as [Hnd Hiff]. split; [exact Hnd|]. intros p. rewrite Hiff.
    split; intros [v [q [[c [dv [pv [Hp R]]]] Hpq]]]; exists v, q; (split; [|exact Hpq]);
      exists c, dv, pv; (split; [apply E; exact Hp | exact R]).
  Qed.

  (* every stored path for w ends at w *)
  Lemma path_last : forall D S Ps F w ps q, pinv D S Ps F -> nth_error Ps w = Some ps -> In q ps ->
    last q src = w.
  Proof.
    intros D S Ps F w ps q I Hn Hq. destruct (p_paths _ _ _ _ _ _ _ _ _ I eq_refl _ _ _ Hn Hq) as [x [_ Hw]].
    destruct (walk_shape _ _ _ _ _ Hw) as [r [_ Hl]]. exact Hl.
  Qed.

  Lemma NoDup_paths_of : forall P D S Ps F v k,
    J6 P D S Ps -> pinv D S Ps F -> fin D v k -> forall pv, nth_error Ps v = Some pv -> NoDup pv.
  Proof.
    intros P D S Ps F v k [J0 J] I Fv pv Hpv. assert (Hs := p_d_s _ _ _ _ _ _ _ _ _ I _ _ Fv).
    destruct (Nat.eq_dec v src) as [->|Hne].
    - rewrite (J0 _ Hs) in Hpv. inversion Hpv. constructor; [intros []|constructor].
    - destruct (J _ _ _ Hne Hs Hpv) as [H _]. exact H.
  Qed.

  (* the entry (v,u,c) is relaxed and is not tight for u: J6 is unaffected *)
  Lemma J_none : forall P D S Ps v u c,
    J6 P D S Ps -> (forall x, fin S u x -> forall dv, fin D v dv -> dv + c <> x) ->
    J6 (fun v' u' c' => P v' u' c' \/ newedge v u c v' u' c') D S Ps.
  Proof.
    intros P D S Ps v u c [J0 J] Hnt. split; [exact J0|]. intros u' x ps Hu' Hx Hn.
    destruct (J _ _ _ Hu' Hx Hn) as [Hnd Hiff]. split; [exact Hnd|]. intros p. rewrite Hiff.
    split; intros [v' [q [[c' [dv [pv [Hp [Hdv [He R]]]]]] Hpq]]]; exists v', q; (split; [|exact Hpq]).
    - exists c', dv, pv. auto.
    - destruct Hp as [Hp | [-> [-> ->]]]; [exists c', dv, pv; auto|]. exfalso. eapply Hnt; eauto.
  Qed.

  (* strictly better value for the un-finalised u through the finalised v *)
  Lemma J_improve : forall P D S Ps F v u k c S' Ps' pv,
    mid P k v D S F -> pinv D S Ps F -> J6 P D S Ps ->
    unfin D u -> (forall c', ~ P v u c') ->
    (forall x, fin S u x -> k + c < x) -> cutoff_exceeded cutoff (k + c) = false -> 0 < c ->
    set_nth u (Some (k + c)) S = Some S' ->
    nth_error Ps v = Some pv -> set_nth u (map (fun p => p ++ [u]) pv) Ps = Some Ps' ->
    J6 (fun v' u' c' => P v' u' c' \/ newedge v u c v' u' c') D S' Ps'.
  Proof.
    intros P D S Ps F v u k c S' Ps' pv [C [Fe [Mx Fv]]] I [J0 J] Hun HnP Hlt Hcut Hc Hset Hpv Hps.
    assert (Hvu : v <> u) by (intros ->; exact (fin_unfin _ _ _ Fv Hun)).
    assert (Hsu : fin S' u (k + c)) by (eapply set_nth_eq; eauto).
    assert (Hso : forall j, j <> u -> nth_error S' j = nth_error S j) by (intros; eapply set_nth_neq; eauto).
    assert (Hpu : nth_error Ps' u = Some (map (fun p => p ++ [u]) pv)) by (eapply set_nth_eq; eauto).
    assert (Hpo : forall j, j <> u -> nth_error Ps' j = nth_error Ps j) by (intros; eapply set_nth_neq; eauto).
    assert (Hk0 : 0 <= k).
    { destruct (c_ach_d _ _ _ _ _ _ _ C _ _ Fv) as [p Hp]. eapply walk_nonneg; eauto. }
    assert (Hus : u <> src).
    { intros ->. destruct (c_src _ _ _ _ _ _ _ C) as [H | [_ H]]; [exact (fin_unfin _ _ _ H Hun)|].
      specialize (Hlt _ H). lia. }
    split.
    - intros x Hx. rewrite Hpo by (intros E; apply Hus; symmetry; exact E). apply (J0 x).
      unfold fin in *. rewrite <- Hso; [exact Hx | intros E; apply Hus; symmetry; exact E].
    - intros u' x ps Hu' Hx Hn. destruct (Nat.eq_dec u' u) as [->|Hne].
      + rewrite Hpu in Hn. inversion Hn; subst ps. rewrite (fin_fun _ _ _ _ Hx Hsu).
        split.
        * apply map_snoc_inj_NoDup. exact (NoDup_paths_of P D S Ps F v k (conj J0 J) I Fv pv Hpv).
        * intros p. rewrite in_map_iff. split.
          -- intros [q [<- Hq]]. exists v, q. split; [|reflexivity].
             exists c, k, pv. split; [right; unfold newedge; auto|]. split; [exact Fv|]. split; [reflexivity|].
             split; [rewrite Hpo by exact Hvu; exact Hpv | exact Hq].
          -- intros [v' [q [[c' [dv [pv' [Hp [Hdv [He [Hpv' Hq]]]]]]] ->]]].
             destruct Hp as [Hp | [-> [_ ->]]].
             ++ exfalso. destruct (Fe _ _ _ _ Hdv Hp) as [[du [Hdu _]] | [[_ [su [Hsu' Hle]]] | Hsk]].
                ** exact (fin_unfin _ _ _ Hdu Hun).
                ** specialize (Hlt _ Hsu'). lia.
                ** rewrite He in Hsk. congruence.
             ++ rewrite Hpo in Hpv' by exact Hvu. rewrite Hpv in Hpv'. inversion Hpv'; subst pv'.
                exists q. auto.
      + assert (Hx0 : fin S u' x) by (unfold fin in *; rewrite <- Hso; assumption).
        rewrite Hpo in Hn by exact Hne. destruct (J _ _ _ Hu' Hx0 Hn) as [Hnd Hiff]. split; [exact Hnd|].
        intros p. rewrite Hiff.
        split; intros [v' [q [[c' [dv [pv' [Hp [Hdv [He [Hpv' Hq]]]]]]] Hpq]]]; exists v', q; (split; [|exact Hpq]).
        * exists c', dv, pv'. split; [left; exact Hp|]. split; [exact Hdv|]. split; [exact He|].
          split; [|exact Hq]. rewrite Hpo; [exact Hpv'|]. intros ->. exact (fin_unfin _ _ _ Hdv Hun).
        * exists c', dv, pv'. split.
          { destruct Hp as [Hp | [_ [E _]]]; [exact Hp | contradiction]. }
          split; [exact Hdv|]. split; [exact He|]. split; [|exact Hq].
          rewrite <- Hpo; [exact Hpv'|]. intros ->. exact (fin_unfin _ _ _ Hdv Hun).
  Qed.

  (* equal value: the paths through v are appended *)
  Lemma J_tie : forall P D S Ps F v u k c Ps' pv pu,
    mid P k v D S F -> pinv D S Ps F -> J6 P D S Ps ->
    unfin D u -> (forall c', ~ P v u c') -> fin S u (k + c) -> 0 < c ->
    nth_error Ps v = Some pv -> nth_error Ps u = Some pu ->
    set_nth u (pu ++ map (fun p => p ++ [u]) pv) Ps = Some Ps' ->
    J6 (fun v' u' c' => P v' u' c' \/ newedge v u c v' u' c') D S Ps'.
  Proof.
    intros P D S Ps F v u k c Ps' pv pu [C [Fe [Mx Fv]]] I [J0 J] Hun HnP Hsu Hc Hpv Hpu Hps.
    assert (Hvu : v <> u) by (intros ->; exact (fin_unfin _ _ _ Fv Hun)).
    assert (Hpu' : nth_error Ps' u = Some (pu ++ map (fun p => p ++ [u]) pv)) by (eapply set_nth_eq; eauto).
    assert (Hpo : forall j, j <> u -> nth_error Ps' j = nth_error Ps j) by (intros; eapply set_nth_neq; eauto).
    assert (Hk0 : 0 <= k).
    { destruct (c_ach_d _ _ _ _ _ _ _ C _ _ Fv) as [p Hp]. eapply walk_nonneg; eauto. }
    assert (Hus : u <> src).
    { intros ->. destruct (c_src _ _ _ _ _ _ _ C) as [H | [_ H]]; [exact (fin_unfin _ _ _ H Hun)|].
      assert (E := fin_fun _ _ _ _ H Hsu). lia. }
    split.
    - intros x Hx. rewrite Hpo by (intros E; apply Hus; symmetry; exact E). apply (J0 x). exact Hx.
    - intros u' x ps Hu' Hx Hn. destruct (Nat.eq_dec u' u) as [->|Hne].
      + rewrite Hpu' in Hn. inversion Hn; subst ps. rewrite (fin_fun _ _ _ _ Hx Hsu).
        destruct (J _ _ _ Hus Hsu Hpu) as [Hnd Hiff]. split.
        * apply NoDup_app_intro; [exact Hnd | |].
          -- apply map_snoc_inj_NoDup. exact (NoDup_paths_of P D S Ps F v k (conj J0 J) I Fv pv Hpv).
          -- intros p Hp1 Hp2. apply Hiff in Hp1.
             destruct Hp1 as [v' [q' [[c' [dv [pv' [Hp [Hdv [He [Hpv' Hq']]]]]]] ->]]].
             apply in_map_iff in Hp2. destruct Hp2 as [q [E Hq]]. apply app_inj_tail in E. destruct E as [-> _].
             assert (L1 := path_last _ _ _ _ _ _ _ I Hpv' Hq'). assert (L2 := path_last _ _ _ _ _ _ _ I Hpv Hq).
             assert (E : v' = v) by congruence. rewrite E in Hp. exact (HnP _ Hp).
        * intros p. rewrite in_app_iff, in_map_iff, Hiff. split.
          -- intros [[v' [q [[c' [dv [pv' [Hp [Hdv [He [Hpv' Hq]]]]]]] ->]]] | [q [<- Hq]]].
             ++ exists v', q. split; [|reflexivity]. exists c', dv, pv'. split; [left; exact Hp|].
                split; [exact Hdv|]. split; [exact He|]. split; [|exact Hq].
                rewrite Hpo; [exact Hpv'|]. intros ->. exact (fin_unfin _ _ _ Hdv Hun).
             ++ exists v, q. split; [|reflexivity]. exists c, k, pv. split; [right; unfold newedge; auto|].
                split; [exact Fv|]. split; [reflexivity|]. split; [rewrite Hpo by exact Hvu; exact Hpv | exact Hq].
          -- intros [v' [q [[c' [dv [pv' [Hp [Hdv [He [Hpv' Hq]]]]]]] ->]]].
             assert (Hv'u : v' <> u) by (intros ->; exact (fin_unfin _ _ _ Hdv Hun)).
             rewrite Hpo in Hpv' by exact Hv'u.
             destruct Hp as [Hp | [-> [_ ->]]].
             ++ left. exists v', q. split; [|reflexivity]. exists c', dv, pv'. auto.
             ++ right. rewrite Hpv in Hpv'. inversion Hpv'; subst pv'. exists q. auto.
      + rewrite Hpo in Hn by exact Hne. destruct (J _ _ _ Hu' Hx Hn) as [Hnd Hiff]. split; [exact Hnd|].
        intros p. rewrite Hiff.
        split; intros [v' [q [[c' [dv [pv' [Hp [Hdv [He [Hpv' Hq]]]]]]] Hpq]]]; exists v', q; (split; [|exact Hpq]).
        * exists c', dv, pv'. split; [left; exact Hp|]. split; [exact Hdv|]. split; [exact He|].
          split; [|exact Hq]. rewrite Hpo; [exact Hpv'|]. intros ->. exact (fin_unfin _ _ _ Hdv Hun).
        * exists c', dv, pv'. split.
          { destruct Hp as [Hp | [_ [E _]]]; [exact Hp | contradiction]. }
          split; [exact Hdv|]. split; [exact He|]. split; [|exact Hq].
          rewrite <- Hpo; [exact Hpv'|]. intros ->. exact (fin_unfin _ _ _ Hdv Hun).
  Qed.

  Notation J6_s P s := (J6 P (d_dist s) (d_seen s) (d_paths s)).
  Notation mid_s P k v s := (mid P k v (d_dist s) (d_seen s) (d_fringe s)).
  Notation pinv_s s := (pinv (d_dist s) (d_seen s) (d_paths s) (d_fringe s)).

  (* dijkstra.rs:442-470 with first_only = false, with_paths = true *)
  Lemma relax_jstep : forall P k v s a s' row,
    nth_error sv v = Some row -> In a row ->
    mid_s P k v s -> pinv_s s -> J6_s P s ->
    (forall c', ~ P v (fst a) c') ->
    relax weighted false true cutoff v k s a = Ok s' ->
    J6_s (fun v' u' c' => P v' u' c' \/ rowedge weighted v a v' u' c') s'.
  Proof.
    intros P k v s [u wt] s' row Hrow Hin M I J HnP H. cbn [fst] in HnP. unfold relax in H.
    destruct (cost_of weighted wt) as [c|] eqn:Ec.
    2:{ inversion H; subst. eapply J6_equiv; [|exact J]. intros v' u' c'. split; [auto|].
        intros [Hp | [_ [_ Hc]]]; [exact Hp|]. cbn in Hc. congruence. }
    assert (He : wedge wg v u c) by (eapply wedge_row; eauto).
    assert (Hc0 : 0 < c) by (eapply Hpos; eauto).
    assert (W : forall D' S' Ps', J6 (fun v' u' c' => P v' u' c' \/ newedge v u c v' u' c') D' S' Ps' ->
                 J6 (fun v' u' c' => P v' u' c' \/ rowedge weighted v (u, wt) v' u' c') D' S' Ps').
    { intros D' S' Ps'. apply J6_equiv. intros v' u' c'. split.
      - intros [Hp | [-> [-> ->]]]; [left; exact Hp|]. right. split; [reflexivity|]. split; [reflexivity | exact Ec].
      - intros [Hp | [-> [Hu Hc]]]; [left; exact Hp|]. right. cbn in Hu, Hc. subst.
        split; [reflexivity|]. split; [reflexivity|]. congruence. }
    destruct M as [C [Fe [Mx Fv]]].
    assert (M : mid P k v (d_dist s) (d_seen s) (d_fringe s)) by (split; [exact C | split; [exact Fe | split; assumption]]).
    destruct (cutoff_exceeded cutoff (k + c)) eqn:Ecut.
    { inversion H; subst s'. apply W. apply J_none; [exact J|]. intros x Hx dv Hdv Heq.
      rewrite (fin_fun _ _ _ _ Hdv Fv) in Heq. rewrite Heq in Ecut.
      rewrite (c_cut_s _ _ _ _ _ _ _ C _ _ Hx) in Ecut. discriminate. }
    apply bind_ok in H. destruct H as [du [Hdu H]]. apply get_at_ok in Hdu.
    destruct du as [ud|].
    { destruct (Z.ltb (k + c) ud); [discriminate|]. inversion H; subst s'. apply W. apply J_none; [exact J|].
      intros x Hx dv Hdv Heq. rewrite (fin_fun _ _ _ _ Hdv Fv) in Heq.
      assert (Hs := p_d_s _ _ _ _ _ _ _ _ _ I _ _ Hdu). rewrite (fin_fun _ _ _ _ Hx Hs) in Heq.
      specialize (Mx _ _ Hdu). lia. }
    apply bind_ok in H. destruct H as [su [Hsu H]]. apply get_at_ok in Hsu.
    destruct (lt_sentinel (k + c) su) eqn:Elt.
    - apply bind_ok in H. destruct H as [sn [Hsn H]]. apply set_at_ok in Hsn.
      apply bind_ok in H. destruct H as [s1 [Hpush H]]. assert (Hp1 := push_paths _ _ _ _ Hpush).
      apply push_ok in Hpush.
      cbn [with_seen_of d_dist d_seen d_fringe d_paths] in Hpush, Hp1. destruct Hpush as [Hd1 [Hs1 _]].
      apply bind_ok in H. destruct H as [pv [Hpv H]]. apply get_at_ok in Hpv.
      apply bind_ok in H. destruct H as [ps [Hps H]]. apply set_at_ok in Hps.
      inversion H; subst s'. cbn [with_paths_of d_dist d_seen d_fringe d_paths].
      rewrite Hd1, Hs1. rewrite Hp1 in Hpv, Hps. apply W.
      eapply J_improve; eauto.
      intros x Hx. rewrite (fin_get _ _ _ _ Hsu Hx) in Elt. cbn in Elt. apply Z.ltb_lt. exact Elt.
    - destruct su as [x|]; [|cbn in Elt; discriminate]. cbn in Elt. apply Z.ltb_ge in Elt.
      cbn [negb andb] in H. destruct (eq_sentinel (k + c) (Some x)) eqn:Eeq.
      + cbn in Eeq. apply Z.eqb_eq in Eeq. subst x.
        apply bind_ok in H. destruct H as [s1 [Hpush H]]. assert (Hp1 := push_paths _ _ _ _ Hpush).
        apply push_ok in Hpush. destruct Hpush as [Hd1 [Hs1 _]].
        apply bind_ok in H. destruct H as [pv [Hpv H]]. apply get_at_ok in Hpv.
        apply bind_ok in H. destruct H as [pu [Hpu H]]. apply get_at_ok in Hpu.
        apply bind_ok in H. destruct H as [ps [Hps H]]. apply set_at_ok in Hps.
        inversion H; subst s'. cbn [with_paths_of d_dist d_seen d_fringe d_paths].
        rewrite Hd1, Hs1. rewrite Hp1 in Hpv, Hpu, Hps. apply W. eapply J_tie; eauto.
      + inversion H; subst s'. apply W. apply J_none; [exact J|]. intros x' Hx' dv Hdv Heq.
        rewrite (fin_fun _ _ _ _ Hdv Fv) in Heq. rewrite (fin_get _ _ _ _ Hsu Hx') in Eeq.
        cbn in Eeq. apply Z.eqb_neq in Eeq. congruence.
  Qed.

  Definition Pdone (v : nat) (done : list adj) : nat -> nat -> Z -> Prop :=
    fun v' u c => (wedge wg v' u c /\ v' <> v) \/ exists a, In a done /\ rowedge weighted v a v' u c.

  Definition ALL (P : nat -> nat -> Z -> Prop) (k : Z) (v : nat) (s : dstate) : Prop :=
    mid_s P k v s /\ pinv_s s /\ J6_s P s.

  Lemma Pdone_snoc : forall v done a v' u c,
    (Pdone v done v' u c \/ rowedge weighted v a v' u c) <-> Pdone v (done ++ [a]) v' u c.
  Proof.
    intros v done a v' u c. unfold Pdone. split.
    - intros [[H | [a' [Hin H]]] | H]; [left; exact H | right; exists a'; split; [apply in_or_app; left; exact Hin | exact H] |].
      right. exists a. split; [apply in_or_app; right; left; reflexivity | exact H].
    - intros [H | [a' [Hin H]]]; [left; left; exact H|]. apply in_app_or in Hin. destruct Hin as [Hin | [<- | []]].
      + left. right. exists a'. auto.
      + right. exact H.
  Qed.

  Lemma fold_all : forall v k todo done s s',
    nth_error sv v = Some (done ++ todo) -> NoDup (map fst (done ++ todo)) ->
    ALL (Pdone v done) k v s ->
    ofold (relax weighted false true cutoff v k) todo s = Ok s' ->
    ALL (Pdone v (done ++ todo)) k v s'.
  Proof.
    intros v k. induction todo as [|a t IH]; intros done s s' Hrow Hnd HA H; cbn [ofold] in H.
    - inversion H; subst. rewrite app_nil_r. exact HA.
    - apply bind_ok in H. destruct H as [s1 [H1 H]]. destruct HA as [M [I J]].
      assert (Hin : In a (done ++ a :: t)) by (apply in_or_app; right; left; reflexivity).
      assert (M1 := relax_step g weighted src cutoff Hnn Hlen false true _ _ _ _ _ _ _ Hrow Hin M H1).
      assert (Fv : fin (d_dist s) v k) by (destruct M as [_ [_ [_ Fv]]]; exact Fv).
      destruct (relax_pstep g weighted src true false cutoff _ _ _ _ _ _ Hrow Hin I Fv H1) as [I1 _].
      assert (HnP : forall c', ~ Pdone v done v (fst a) c').
      { intros c' [[_ Hne] | [a' [Hin' [_ [Hu _]]]]]; [apply Hne; reflexivity|].
        rewrite map_app in Hnd. cbn [map] in Hnd. apply NoDup_remove_2 in Hnd. apply Hnd.
        apply in_or_app. left. rewrite Hu. apply in_map. exact Hin'. }
      assert (J1 := relax_jstep _ _ _ _ _ _ _ Hrow Hin M I J HnP H1).
      replace (done ++ a :: t) with ((done ++ [a]) ++ t) in * by (rewrite <- app_assoc; reflexivity).
      eapply IH; [exact Hrow | exact Hnd | | exact H].
      split; [|split; [exact I1|]].
      + eapply mid_weaken; [|exact M1]. intros v' u c Hq. apply Pdone_snoc. exact Hq.
      + eapply J6_equiv; [|exact J1]. intros v' u c. apply Pdone_snoc.
  Qed.

  Lemma Pdone_row : forall v row, nth_error sv v = Some row ->
    forall v' u c, Pdone v row v' u c <-> wedge wg v' u c.
  Proof.
    intros v row Hrow v' u c. unfold Pdone. split.
    - intros [[H _] | [a [Hin [-> [-> Hc]]]]]; [exact H|]. destruct a as [u' wt]. eapply wedge_row; eauto.
    - intros He. destruct (Nat.eq_dec v' v) as [->|Hne]; [|left; auto]. right.
      apply (wedge_wgraph_of weighted sv v u c) in He. destruct He as [row' [wt [Hr [Hin Hc]]]].
      assert (E : Some row' = Some row) by exact (eq_trans (eq_sym Hr) Hrow). inversion E; subst row'.
      exists (u, wt). split; [exact Hin|].
      split; [reflexivity|]. split; [reflexivity | exact Hc].
  Qed.

  Hypothesis Hrows : forall v row, nth_error sv v = Some row -> NoDup (map fst row).

  Definition LoopInv (s : dstate) : Prop :=
    inv g weighted src cutoff s /\ pinv_s s /\ J6_s (wedge wg) s.

  Definition Pmid (t : nat) : nat -> nat -> Z -> Prop := fun v' u c => wedge wg v' u c /\ v' <> t.

  Lemma J_pop : forall D S Ps v k D',
    J6 (wedge wg) D S Ps -> unfin D v -> set_nth v (Some k) D = Some D' -> J6 (Pmid v) D' S Ps.
  Proof.
    intros D S Ps v k D' [J0 J] Hun Hset.
    assert (HDo : forall j, j <> v -> nth_error D' j = nth_error D j) by (intros; eapply set_nth_neq; eauto).
    split; [exact J0|]. intros u x ps Hu Hx Hn. destruct (J _ _ _ Hu Hx Hn) as [Hnd Hiff]. split; [exact Hnd|].
    intros p. rewrite Hiff.
    split; intros [v' [q [[c [dv [pv [Hp [Hdv R]]]]] Hpq]]]; exists v', q; (split; [|exact Hpq]); exists c, dv, pv.
    - assert (v' <> v) by (intros ->; exact (fin_unfin _ _ _ Hdv Hun)).
      split; [split; assumption|]. split; [|exact R]. unfold fin in *. rewrite HDo; assumption.
    - destruct Hp as [Hp Hne]. split; [exact Hp|]. split; [|exact R]. unfold fin in *. rewrite <- HDo; assumption.
  Qed.

  Lemma loop_all : forall target fuel s s',
    LoopInv s -> dijkstra_loop fuel g weighted target cutoff false true s = Ok s' ->
    (LoopInv s' /\ d_fringe s' = []) \/
    (exists t k, target = Some t /\ ALL (Pmid t) k t s').
  Proof.
    intros target. induction fuel as [|f IH]; intros s s' L H; cbn [dijkstra_loop] in H; [discriminate|].
    destruct L as [I [PI J]].
    destruct (heap_pop (d_fringe s)) as [[item rest]|] eqn:Hpop.
    2:{ inversion H; subst. left. split; [split; [exact I | split; assumption] | apply heap_pop_none; exact Hpop]. }
    apply bind_ok in H. destruct H as [dv [Hdv H]]. apply get_at_ok in Hdv. cbn [d_dist] in Hdv.
    destruct dv as [x|].
    - eapply IH; [|exact H]. split; [eapply pop_skip; eauto|]. split; cbn.
      + eapply ppop_skip; eauto.
      + exact J.
    - apply bind_ok in H. destruct H as [D' [HD' H]]. apply set_at_ok in HD'. cbn [d_dist] in HD'.
      assert (M := pop_finalise g weighted src cutoff Hlen _ _ _ _ I Hpop Hdv HD').
      destruct (ppop_finalise g weighted src true false _ _ _ _ PI Hpop Hdv HD') as [PI2 Fv].
      assert (J2 := J_pop _ _ _ _ _ _ J Hdv HD').
      set (v := fr_index item) in *.
      destruct (match target with Some t => Nat.eqb t v | None => false end) eqn:Et.
      + inversion H; subst s'. right. destruct target as [t|]; [|discriminate]. apply Nat.eqb_eq in Et. subst t.
        exists v, (key item). split; [reflexivity|]. split; [exact M | split; [exact PI2 | exact J2]].
      + apply bind_ok in H. destruct H as [row [Hrow H]]. apply get_at_ok in Hrow.
        apply bind_ok in H. destruct H as [s3 [Hfold H]].
        eapply IH; [|exact H].
        assert (A0 : ALL (Pdone v []) (key item) v (mkd D' (d_seen s) (d_paths s) rest (d_count s))).
        { split; [|split]; cbn.
          - eapply mid_weaken; [|exact M]. intros v' u c [Hq | [a [[] _]]]. exact Hq.
          - exact PI2.
          - eapply J6_equiv; [|exact J2]. intros v' u c. unfold Pdone, Pmid. split; [auto|].
            intros [Hq | [a [[] _]]]. exact Hq. }
        assert (A1 := fold_all v (key item) row [] _ _ Hrow (Hrows _ _ Hrow) A0 Hfold).
        cbn [app] in A1. destruct A1 as [M1 [I1 J1]]. split; [|split; [exact I1|]].
        * eapply after_row; [exact Hrow | exact M1].
        * eapply J6_equiv; [|exact J1]. apply Pdone_row. exact Hrow.
  Qed.

  Hypothesis Hc0 : cutoff_exceeded cutoff 0 = false.

  Lemma init_J6 : forall s0, dijkstra_init g src true = Ok s0 -> J6_s (wedge wg) s0.
  Proof.
    intros s0 H. unfold dijkstra_init in H. apply bind_ok in H. destruct H as [paths [Hpaths H]].
    apply bind_ok in H. destruct H as [seen [Hseen H]]. apply set_at_ok in Hseen. apply set_at_ok in Hpaths.
    inversion H; subst s0. clear H. cbn [d_dist d_seen d_paths].
    set (n := number_of_nodes g) in *.
    assert (HS0 : nth_error seen src = Some (Some 0)) by (eapply set_nth_eq; eauto).
    assert (HSo : forall j, j <> src -> nth_error seen j = nth_error (repeat None n) j) by (intros; eapply set_nth_neq; eauto).
    split.
    - intros x _. eapply set_nth_eq; eauto.
    - intros u x ps Hu Hx _. exfalso. unfold fin in Hx. rewrite HSo in Hx by exact Hu.
      apply nth_error_repeat_inv in Hx. destruct Hx; discriminate.
  Qed.

  (* every shortest walk to a finalised node is in its path list *)
  Lemma all_in : forall D S Ps F fill (P : nat -> nat -> Z -> Prop),
    core D S F -> pinv D S Ps F -> J6 P D S Ps ->
    pot_feasible wg (pot D fill) -> pot D fill src = Some 0 ->
    (forall u du f, fin D u du -> fill = Some f -> du <= f) ->
    (forall v u c dv du, wedge wg v u c -> fin D v dv -> fin D u du -> dv < du -> P v u c) ->
    (forall v x, fin D v x -> exists pv, nth_error Ps v = Some pv) ->
    forall u p x, walk wg src u p x -> fin D u x -> forall ps, nth_error Ps u = Some ps -> In p ps.
  Proof.
    intros D S Ps F fill P C I [J0 J] Hpf Hp0 Hfb HP Hex u p x Hw.
    induction Hw as [Hs | v u c q d0 Hq IH He]; intros Hfin ps Hn.
    - assert (Hs0 := p_d_s _ _ _ _ _ _ _ _ _ I _ _ Hfin). rewrite (J0 _ Hs0) in Hn. inversion Hn. left. reflexivity.
    - assert (Hc : 0 < c) by (eapply Hpos; eauto).
      assert (Hd0 : 0 <= d0) by (eapply walk_nonneg; eauto).
      assert (Hus : u <> src).
      { intros ->. destruct (c_src _ _ _ _ _ _ _ C) as [H | [H _]]; [|exact (fin_unfin _ _ _ Hfin H)].
        assert (E := fin_fun _ _ _ _ H Hfin). lia. }
      assert (Hdu : is_dist wg src u (d0 + c)).
      { eapply (pot_is_dist _ _ _ Hpf Hp0 u (q ++ [u])); [apply pot_fin; exact Hfin|]. eapply walk_snoc; eauto. }
      assert (Hdv : is_dist wg src v d0) by (eapply sp_prefix; eauto).
      destruct (pot_lower _ _ _ Hpf Hp0 _ _ _ Hq) as [b [Hb Hle]].
      assert (Fv : fin D v d0).
      { destruct (pot_cases D fill v) as [[dv [Fdv Hpv]] | [_ Hpv]]; rewrite Hpv in Hb.
        - inversion Hb; subst b. destruct (c_ach_d _ _ _ _ _ _ _ C _ _ Fdv) as [pw Hpw].
          destruct Hdv as [_ L]. specialize (L _ _ Hpw). assert (dv = d0) by lia. subst dv. exact Fdv.
        - exfalso. specialize (Hfb _ _ _ Hfin Hb). lia. }
      destruct (Hex _ _ Fv) as [pv Hpv]. assert (Hqin := IH Fv _ Hpv).
      assert (Hsu := p_d_s _ _ _ _ _ _ _ _ _ I _ _ Hfin).
      destruct (J _ _ _ Hus Hsu Hn) as [_ Hiff]. apply Hiff. exists v, q. split; [|reflexivity].
      exists c, d0, pv. split; [eapply HP; eauto; lia|]. auto.
  Qed.

  Lemma infos_from_defined : forall D k paths r, infos_from k D paths true = Ok r ->
    forall j x, nth_error D j = Some (Some x) -> exists pv, nth_error paths (k + j)%nat = Some pv.
  Proof.
    induction D as [|[v|] D IH]; intros k paths r H j x Hj; cbn [infos_from] in H.
    - destruct j; discriminate.
    - apply bind_ok in H. destruct H as [ps [Hps H]]. apply get_at_ok in Hps.
      apply bind_ok in H. destruct H as [r' [Hr' H]]. destruct j as [|j]; cbn in Hj.
      + rewrite Nat.add_0_r. eauto.
      + replace (k + S j)%nat with (S k + j)%nat by lia. eapply IH; eauto.
    - destruct j as [|j]; cbn in Hj; [discriminate|].
      replace (k + S j)%nat with (S k + j)%nat by lia. eapply IH; eauto.
  Qed.

  Theorem dijkstra_paths_complete : forall target r,
    dijkstra g weighted src target cutoff false true = Ok r ->
    forall t i, In (t, i) r ->
      NoDup (sp_paths i) /\ forall p, SP wg src t p -> In p (sp_paths i).
  Proof.
    intros target r H t i Hin. unfold dijkstra in H.
    apply bind_ok in H. destruct H as [s0 [H0 H]]. apply bind_ok in H. destruct H as [s [Hl H]].
    assert (L0 : LoopInv s0).
    { split; [eapply init_inv; eauto|]. split; [eapply init_pinv; eauto | eapply init_J6; eauto]. }
    unfold get_shortest_path_infos in H.
    destruct (infos_from_paths g Hlen _ _ _ _ _ H _ _ Hin) as [_ [Hn Hp]]. rewrite Nat.sub_0_r in Hn.
    assert (Hex : forall v x, fin (d_dist s) v x -> exists pv, nth_error (d_paths s) v = Some pv).
    { intros v x Hv. destruct (infos_from_defined _ _ _ _ H _ _ Hv) as [pv Hpv]. eauto. }
    (* the facts common to both kinds of final state *)
    assert (Fin : exists fill (P : nat -> nat -> Z -> Prop),
              core (d_dist s) (d_seen s) (d_fringe s) /\ pinv_s s /\ J6_s P s /\
              pot_feasible wg (pot (d_dist s) fill) /\ pot (d_dist s) fill src = Some 0 /\
              (forall u du f, fin (d_dist s) u du -> fill = Some f -> du <= f) /\
              (forall v u c dv du, wedge wg v u c -> fin (d_dist s) v dv -> fin (d_dist s) u du -> dv < du -> P v u c)).
    { destruct (loop_all target _ _ _ L0 Hl) as [[[I [PI J]] Hf] | [tg [k [Ht [M [PI J]]]]]].
      - destruct (empty_feasible g weighted src cutoff Hnn Hlen _ I Hf) as [Hpf Hp0].
        exists (cplus cutoff), (wedge wg). destruct I as [C Fe].
        split; [exact C|]. split; [exact PI|]. split; [exact J|]. split; [exact Hpf|]. split; [exact Hp0|]. split.
        + intros u du f Hdu Hfill. eapply (empty_fill_bound g weighted src cutoff Hlen s (conj C Fe)); eauto.
        + intros v u c dv du He _ _ _. exact He.
      - assert (B : broke g weighted src cutoff target s) by (exists tg, k; split; [exact Ht | exact M]).
        destruct (broke_feasible g weighted src cutoff Hnn Hlen Hc0 _ _ B) as [tg' [k' [Ht' [Ft [Hpf Hp0]]]]].
        assert (tg' = tg) by congruence. subst tg'.
        destruct M as [C [Fe [Mx Ftk]]]. assert (k' = k) by (eapply fin_fun; eauto). subst k'.
        exists (fill_broke cutoff k), (Pmid tg).
        split; [exact C|]. split; [exact PI|]. split; [exact J|]. split; [exact Hpf|]. split; [exact Hp0|]. split.
        + intros u du f Hdu Hfill.
          eapply (broke_fill_bound g weighted src cutoff Hlen tg k s); eauto.
          split; [exact C | split; [exact Fe | split; assumption]].
        + intros v u c dv du He Hdv Hdu Hlt. split; [exact He|]. intros ->.
          assert (E := fin_fun _ _ _ _ Hdv Ftk). specialize (Mx _ _ Hdu). lia. }
    destruct Fin as [fill [P [C [PI [J [Hpf [Hp0 [Hfb HP]]]]]]]].
    assert (Hs := p_d_s _ _ _ _ _ _ _ _ _ PI _ _ Hn).
    split.
    - destruct (Nat.eq_dec t src) as [->|Hne].
      + destruct J as [J0 _]. rewrite (J0 _ Hs) in Hp. inversion Hp. constructor; [intros []|constructor].
      + destruct J as [_ J]. destruct (J _ _ _ Hne Hs Hp) as [Hnd _]. exact Hnd.
    - intros p [x [Hd Hw]].
      assert (Hdt : is_dist wg src t (sp_distance i)).
      { destruct (c_ach_d _ _ _ _ _ _ _ C _ _ Hn) as [pw Hpw]. eapply (pot_is_dist _ _ _ Hpf Hp0); eauto.
        apply pot_fin. exact Hn. }
      assert (x = sp_distance i) by (eapply is_dist_unique; eauto). subst x.
      eapply (all_in _ _ _ _ fill P C PI J Hpf Hp0 Hfb HP Hex); eauto.
  Qed.
End Complete.
