(* The three entry points of dijkstra.rs compute, per source, the same thing:
   [run_from_index] (the `match can_use_basic { basic | full }` expression) at
   the source's index, then the index->name conversion, then collection into
   a map keyed by source name.  Stated for the transcription, for every graph
   state and every argument. *)
From Coq Require Import String List Bool ZArith QArith Arith Lia.
From GV Require Import Base.Outcome Base.AMap Model.GState Model.Creation Model.Query Model.Dijkstra.
From GV Require Import Proofs.DijkstraLoopOk.
Import ListNotations.

Lemma omapM_ok : forall X Y (f : X -> outcome Y) l ys,
  omapM f l = Ok ys -> Forall2 (fun x y => f x = Ok y) l ys.
Proof.
  intros X Y f. induction l as [|x l IH]; intros ys H; cbn [omapM] in H.
  - inversion H. constructor.
  - apply bind_ok in H. destruct H as [y [Hy H]]. apply bind_ok in H. destruct H as [ys' [Hys H]].
    inversion H; subst. constructor; [exact Hy | apply IH; exact Hys].
Qed.

Lemma unwrap_result_ok : forall X site (o : outcome X) x, unwrap_result site o = Ok x -> o = Ok x.
Proof. intros X site o x H. destruct o; cbn in H; try discriminate. exact H. Qed.

Section Entry.
  Context {T A : Type}.
  Variable teqb : T -> T -> bool.

  (* single_source: the source's index, the target's index, the per-source function, the conversion *)
  Theorem single_source_unfold : forall (g : gstate T A) weighted source target cutoff fo wp m,
    single_source teqb g weighted source target cutoff fo wp = Ok m ->
    exists si ti r,
      get_node_index teqb g source = Ok si /\
      match target with
      | Some t => exists i, get_node_index teqb g t = Ok i /\ ti = Some i
      | None => ti = None
      end /\
      run_from_index g weighted si target ti cutoff fo wp = Ok r /\
      convert_shortest_path_info_vec_to_t_map teqb g r = Ok m.
  Proof.
    intros g weighted source target cutoff fo wp m H. unfold single_source in H.
    apply bind_ok in H. destruct H as [si [Hsi H]]. apply bind_ok in H. destruct H as [ti [Hti H]].
    apply bind_ok in H. destruct H as [r [Hr H]]. exists si, ti, r. split; [exact Hsi|]. split; [|auto].
    destruct target as [t|].
    - apply bind_ok in Hti. destruct Hti as [i [Hi E]]. inversion E; subst. eauto.
    - inversion Hti. reflexivity.
  Qed.

  (* multi_source = one single_source per listed source, collected by source name *)
  Theorem multi_source_per_source : forall threads (g : gstate T A) weighted sources target cutoff fo wp mm,
    multi_source teqb threads g weighted sources target cutoff fo wp = Ok mm ->
    exists l,
      Forall2 (fun s sm => fst sm = s /\ single_source teqb g weighted s target cutoff fo wp = Ok (snd sm)) sources l /\
      mm = collect_map teqb l.
  Proof.
    intros threads g weighted sources target cutoff fo wp mm H. unfold multi_source in H.
    apply bind_ok in H. destruct H as [b [_ H]]. destruct (negb b); [discriminate|].
    apply bind_ok in H. destruct H as [tb [_ H]]. destruct (negb tb); [discriminate|].
    apply bind_ok in H. destruct H as [l [Hl H]]. inversion H; subst mm. exists l. split; [|reflexivity].
    assert (Hl' : omapM (fun source =>
                do m <- unwrap_result "dijkstra.rs:376" (single_source teqb g weighted source target cutoff fo wp);
                Ok (source, m)) sources = Ok l) by (destruct (parallel g threads); exact Hl).
    apply omapM_ok in Hl'. clear Hl H. induction Hl' as [|s sm srcs l' Hs _ IH]; [constructor|]. constructor; [|exact IH].
    apply bind_ok in Hs. destruct Hs as [m [Hm E]]. inversion E; subst sm. cbn.
    split; [reflexivity | apply unwrap_result_ok in Hm; exact Hm].
  Qed.

  (* all_pairs = the same per-source function at every index 0..n-1, converted and collected *)
  Theorem all_pairs_per_source : forall threads (g : gstate T A) weighted target cutoff fo wp mm,
    all_pairs teqb threads g weighted target cutoff fo wp = Ok mm ->
    exists ti vecs l,
      match target with
      | Some t => exists i, get_node_index teqb g t = Ok i /\ ti = Some i
      | None => ti = None
      end /\
      Forall2 (fun i iv => fst iv = i /\ run_from_index g weighted i target ti cutoff fo wp = Ok (snd iv))
              (seq 0 (number_of_nodes g)) vecs /\
      Forall2 (fun iv sm => name_of_index "dijkstra.rs:132" g (fst iv) = Ok (fst sm) /\
                            convert_shortest_path_info_vec_to_t_map teqb g (snd iv) = Ok (snd sm)) vecs l /\
      mm = collect_map teqb l.
  Proof.
    intros threads g weighted target cutoff fo wp mm H. unfold all_pairs in H.
    apply bind_ok in H. destruct H as [_u [_ H]]. apply bind_ok in H. destruct H as [_u2 [_ H]].
    apply bind_ok in H. destruct H as [vecs [Hv H]]. apply bind_ok in H. destruct H as [l [Hl H]].
    inversion H; subst mm.
    assert (Hv' : all_pairs_iter teqb g weighted target cutoff fo wp = Ok vecs) by (destruct (parallel g threads); exact Hv).
    unfold all_pairs_iter in Hv'. apply bind_ok in Hv'. destruct Hv' as [ti [Hti Hv']].
    exists ti, vecs, l. split; [|split; [|split; [|reflexivity]]].
    - destruct target as [t|].
      + apply bind_ok in Hti. destruct Hti as [i [Hi E]]. inversion E; subst. apply unwrap_result_ok in Hi. eauto.
      + inversion Hti. reflexivity.
    - apply omapM_ok in Hv'. clear - Hv'. induction Hv' as [|i iv is vs Hi _ IH]; [constructor|]. constructor; [|exact IH].
      apply bind_ok in Hi. destruct Hi as [r [Hr E]]. inversion E; subst iv. cbn.
      split; [reflexivity | apply unwrap_result_ok in Hr; exact Hr].
    - apply omapM_ok in Hl. clear - Hl. induction Hl as [|iv sm vs ls Hi _ IH]; [constructor|]. constructor; [|exact IH].
      apply bind_ok in Hi. destruct Hi as [nm [Hn Hi]]. apply bind_ok in Hi. destruct Hi as [m [Hm E]].
      inversion E; subst sm. cbn. auto.
  Qed.
End Entry.
