(* The three entry points of dijkstra.rs compute, per source, the same thing:
   [run_from_index] (the `match can_use_basic { basic | full }` expression) at
   the source's index, then the index->name conversion, then collection into
   a map keyed by source name.  Stated for the transcription, for every graph
   state and every argument.  Since the repair of F22 this includes the failure
   case: multi_source / all_pairs return the `Err` (or reach the panic site) of the
   FIRST listed source / node index whose per-source call does not return Ok
   ([multi_source_first_failure], [all_pairs_iter_first_failure]) — they no longer
   turn a per-source `Err` into a panic. *)
From Coq Require Import String List Bool ZArith QArith Arith Lia.
From GV Require Import Base.Outcome Base.AMap Model.GState Model.Creation Model.Query Model.Dijkstra.
From GV Require Import Proofs.DijkstraLoopOk.
Import ListNotations.

Lemma omapM_ok : forall X Y (f : X -> outcome Y) l ys,
  omapM f l = Ok ys -> Forall2 (fun x y => f x = Ok y) l ys.
Proof.
  intros X Y f. induction l as [|x l IH]; intros ys H; cbn [omapM] in H.
  - inversion H. constructor.
  - apply bind_ok in H. destruct H as [y [Hy H]]. apply bind_ok in H. destruct H as [ys' [Hys H]].
    inversion H; subst. constructor; [exact Hy | apply IH; exact Hys].
Qed.

(* two outcomes (of possibly different types) are the same failure: same Error kind, same panic
   site, or both out of fuel *)
Definition same_failure {X Y} (o : outcome X) (o' : outcome Y) : Prop :=
  match o, o' with
  | Err k, Err k' => k = k'
  | Panic s, Panic s' => s = s'
  | OutOfFuel, OutOfFuel => True
  | _, _ => False
  end.

Lemma same_failure_bind_l {X Y Z} (o : outcome X) (f : X -> outcome Y) (o' : outcome Z) :
  is_ok o = false -> same_failure o o' -> same_failure (bind o f) o'.
Proof. destruct o; cbn; auto; discriminate. Qed.

(* omapM is Ok iff every item is; otherwise it is the failure of the first item that is not Ok *)
Lemma omapM_all_ok : forall X Y (f : X -> outcome Y) l,
  (forall x, In x l -> is_ok (f x) = true) -> exists ys, omapM f l = Ok ys.
Proof.
  intros X Y f. induction l as [|x l IH]; intros H; cbn [omapM]; [eauto|].
  pose proof (H x (or_introl eq_refl)) as Hx. destruct (f x) as [y| | |]; try discriminate. cbn [bind].
  destruct IH as [ys ->]; [intros x' Hx'; apply H; right; exact Hx'|]. cbn [bind]. eauto.
Qed.

Lemma omapM_ok_items : forall X Y (f : X -> outcome Y) l ys,
  omapM f l = Ok ys -> forall x, In x l -> is_ok (f x) = true.
Proof.
  intros X Y f. induction l as [|x l IH]; intros ys H z Hz; [destruct Hz|]. cbn [omapM] in H.
  apply bind_ok in H. destruct H as [y [Hy H]]. apply bind_ok in H. destruct H as [ys' [Hys _]].
  destruct Hz as [<- | Hz]; [rewrite Hy; reflexivity | eapply IH; eauto].
Qed.

Lemma omapM_first_failure : forall X Y (f : X -> outcome Y) pre x post,
  (forall z, In z pre -> is_ok (f z) = true) -> is_ok (f x) = false ->
  same_failure (omapM f (pre ++ x :: post)) (f x).
Proof.
  intros X Y f. induction pre as [|z pre IH]; intros x post Hpre Hx; cbn [app omapM].
  - destruct (f x); cbn; auto; discriminate.
  - pose proof (Hpre z (or_introl eq_refl)) as Hz. destruct (f z) as [y| | |]; try discriminate. cbn [bind].
    specialize (IH x post (fun z' Hz' => Hpre z' (or_intror Hz')) Hx).
    destruct (omapM f (pre ++ x :: post)); cbn [bind]; exact IH.
Qed.

Lemma unwrap_result_ok : forall X site (o : outcome X) x, unwrap_result site o = Ok x -> o = Ok x.
Proof. intros X site o x H. destruct o; cbn in H; try discriminate. exact H. Qed.

Section Entry.
  Context {T A : Type}.
  Variable teqb : T -> T -> bool.

  (* single_source: the source's index, the target's index, the per-source function, the conversion *)
  Theorem single_source_unfold : forall (g : gstate T A) weighted source target cutoff fo wp m,
    single_source teqb g weighted source target cutoff fo wp = Ok m ->
    exists si ti r,
      get_node_index teqb g source = Ok si /\
      match target with
      | Some t => exists i, get_node_index teqb g t = Ok i /\ ti = Some i
      | None => ti = None
      end /\
      run_from_index g weighted si target ti cutoff fo wp = Ok r /\
      convert_shortest_path_info_vec_to_t_map teqb g r = Ok m.
  Proof.
    intros g weighted source target cutoff fo wp m H. unfold single_source in H.
    apply bind_ok in H. destruct H as [si [Hsi H]]. apply bind_ok in H. destruct H as [ti [Hti H]].
    apply bind_ok in H. destruct H as [r [Hr H]]. exists si, ti, r. split; [exact Hsi|]. split; [|auto].
    destruct target as [t|].
    - apply bind_ok in Hti. destruct Hti as [i [Hi E]]. inversion E; subst. eauto.
    - inversion Hti. reflexivity.
  Qed.

  (* multi_source = one single_source per listed source, collected by source name *)
  Theorem multi_source_per_source : forall threads (g : gstate T A) weighted sources target cutoff fo wp mm,
    multi_source teqb threads g weighted sources target cutoff fo wp = Ok mm ->
    exists l,
      Forall2 (fun s sm => fst sm = s /\ single_source teqb g weighted s target cutoff fo wp = Ok (snd sm)) sources l /\
      mm = collect_map teqb l.
  Proof.
    intros threads g weighted sources target cutoff fo wp mm H. unfold multi_source in H.
    apply bind_ok in H. destruct H as [b [_ H]]. destruct (negb b); [discriminate|].
    apply bind_ok in H. destruct H as [tb [_ H]]. destruct (negb tb); [discriminate|].
    apply bind_ok in H. destruct H as [l [Hl H]]. inversion H; subst mm. exists l. split; [|reflexivity].
    assert (Hl' : omapM (fun source =>
                do m <- single_source teqb g weighted source target cutoff fo wp;
                Ok (source, m)) sources = Ok l) by (destruct (parallel g threads); exact Hl).
    apply omapM_ok in Hl'. clear Hl H. induction Hl' as [|s sm srcs l' Hs _ IH]; [constructor|]. constructor; [|exact IH].
    apply bind_ok in Hs. destruct Hs as [m [Hm E]]. inversion E; subst sm. cbn.
    split; [reflexivity | exact Hm].
  Qed.

  (* ... and the failure case: once the up-front name checks have passed, multi_source returns Ok
     iff every per-source call does, and otherwise fails exactly like the FIRST listed source whose
     call does not return Ok — the same Error kind (the per-source `Err` is propagated with `?`),
     the same panic site *)
  Theorem multi_source_ok_iff : forall threads (g : gstate T A) weighted sources target cutoff fo wp,
    has_nodes teqb g sources = Ok true ->
    match target with Some t => has_node teqb g t | None => Ok true end = Ok true ->
    ((exists mm, multi_source teqb threads g weighted sources target cutoff fo wp = Ok mm) <->
     (forall s, In s sources -> is_ok (single_source teqb g weighted s target cutoff fo wp) = true)).
  Proof.
    intros threads g weighted sources target cutoff fo wp Hb Htb. unfold multi_source. rewrite Hb, Htb. cbn [bind negb].
    match goal with |- context [omapM ?f sources] => set (one := f) end.
    assert (Hone : forall s, is_ok (one s) = is_ok (single_source teqb g weighted s target cutoff fo wp)).
    { intros s. unfold one. destruct (single_source teqb g weighted s target cutoff fo wp); reflexivity. }
    assert (Hif : (if parallel g threads then omapM one sources else omapM one sources) = omapM one sources)
      by (destruct (parallel g threads); reflexivity).
    rewrite Hif. split.
    - intros [mm H] s Hs. apply bind_ok in H. destruct H as [l [Hl _]]. rewrite <- Hone. eapply omapM_ok_items; eauto.
    - intros H. destruct (omapM_all_ok _ _ one sources) as [l ->]; [intros s Hs; rewrite Hone; auto|]. cbn [bind]. eauto.
  Qed.

  Theorem multi_source_first_failure : forall threads (g : gstate T A) weighted sources target cutoff fo wp pre s post,
    has_nodes teqb g sources = Ok true ->
    match target with Some t => has_node teqb g t | None => Ok true end = Ok true ->
    sources = pre ++ s :: post ->
    (forall x, In x pre -> is_ok (single_source teqb g weighted x target cutoff fo wp) = true) ->
    is_ok (single_source teqb g weighted s target cutoff fo wp) = false ->
    same_failure (multi_source teqb threads g weighted sources target cutoff fo wp)
                 (single_source teqb g weighted s target cutoff fo wp).
  Proof.
    intros threads g weighted sources target cutoff fo wp pre s post Hb Htb E Hpre Hs.
    unfold multi_source. rewrite Hb, Htb. cbn [bind negb].
    match goal with |- context [omapM ?f sources] => set (one := f) end.
    assert (Hone : forall x, is_ok (one x) = is_ok (single_source teqb g weighted x target cutoff fo wp)).
    { intros x. unfold one. destruct (single_source teqb g weighted x target cutoff fo wp); reflexivity. }
    assert (Hif : (if parallel g threads then omapM one sources else omapM one sources) = omapM one sources)
      by (destruct (parallel g threads); reflexivity).
    rewrite Hif. subst sources.
    pose proof (omapM_first_failure _ _ one pre s post (fun z Hz => eq_trans (Hone z) (Hpre z Hz))
                                    (eq_trans (Hone s) Hs)) as F.
    assert (Hk : is_ok (omapM one (pre ++ s :: post)) = false).
    { destruct (omapM one (pre ++ s :: post)); try reflexivity.
      exfalso. clear - F. destruct (one s); exact F. }
    apply same_failure_bind_l; [exact Hk|].
    unfold one in F at 2. destruct (single_source teqb g weighted s target cutoff fo wp); try discriminate;
      cbn [bind] in F; exact F.
  Qed.

  (* all_pairs = the same per-source function at every index 0..n-1, converted and collected *)
  Theorem all_pairs_per_source : forall threads (g : gstate T A) weighted target cutoff fo wp mm,
    all_pairs teqb threads g weighted target cutoff fo wp = Ok mm ->
    exists ti vecs l,
      match target with
      | Some t => exists i, get_node_index teqb g t = Ok i /\ ti = Some i
      | None => ti = None
      end /\
      Forall2 (fun i iv => fst iv = i /\ run_from_index g weighted i target ti cutoff fo wp = Ok (snd iv))
              (seq 0 (number_of_nodes g)) vecs /\
      Forall2 (fun iv sm => name_of_index "dijkstra.rs:132" g (fst iv) = Ok (fst sm) /\
                            convert_shortest_path_info_vec_to_t_map teqb g (snd iv) = Ok (snd sm)) vecs l /\
      mm = collect_map teqb l.
  Proof.
    intros threads g weighted target cutoff fo wp mm H. unfold all_pairs in H.
    apply bind_ok in H. destruct H as [_u [_ H]]. apply bind_ok in H. destruct H as [_u2 [_ H]].
    apply bind_ok in H. destruct H as [vecs [Hv H]]. apply bind_ok in H. destruct H as [l [Hl H]].
    inversion H; subst mm.
    assert (Hv' : all_pairs_iter teqb g weighted target cutoff fo wp = Ok vecs) by (destruct (parallel g threads); exact Hv).
    unfold all_pairs_iter in Hv'. apply bind_ok in Hv'. destruct Hv' as [ti [Hti Hv']].
    exists ti, vecs, l. split; [|split; [|split; [|reflexivity]]].
    - destruct target as [t|].
      + apply bind_ok in Hti. destruct Hti as [i [Hi E]]. inversion E; subst. apply unwrap_result_ok in Hi. eauto.
      + inversion Hti. reflexivity.
    - apply omapM_ok in Hv'. clear - Hv'. induction Hv' as [|i iv is vs Hi _ IH]; [constructor|]. constructor; [|exact IH].
      apply bind_ok in Hi. destruct Hi as [r [Hr E]]. inversion E; subst iv. cbn.
      split; [reflexivity | exact Hr].
    - apply omapM_ok in Hl. clear - Hl. induction Hl as [|iv sm vs ls Hi _ IH]; [constructor|]. constructor; [|exact IH].
      apply bind_ok in Hi. destruct Hi as [nm [Hn Hi]]. apply bind_ok in Hi. destruct Hi as [m [Hm E]].
      inversion E; subst sm. cbn. auto.
  Qed.

  (* the failure case of the all_pairs region: it fails exactly like the FIRST node index whose
     per-source search does not return Ok (an `Err` is propagated, not unwrapped) *)
  Theorem all_pairs_iter_first_failure : forall (g : gstate T A) weighted (target : option T) ti cutoff fo wp i,
    match target with
    | Some t => exists j, get_node_index teqb g t = Ok j /\ ti = Some j
    | None => ti = None
    end ->
    (i < number_of_nodes g)%nat ->
    (forall j, (j < i)%nat -> is_ok (run_from_index g weighted j target ti cutoff fo wp) = true) ->
    is_ok (run_from_index g weighted i target ti cutoff fo wp) = false ->
    same_failure (all_pairs_iter teqb g weighted target cutoff fo wp)
                 (run_from_index g weighted i target ti cutoff fo wp).
  Proof.
    intros g weighted target ti cutoff fo wp i Hti Hi Hpre Hf. unfold all_pairs_iter.
    assert (H3 : match target with
                 | Some t => do i <- unwrap_result "dijkstra.rs:153" (get_node_index teqb g t); Ok (Some i)
                 | None => Ok None end = Ok ti).
    { destruct target as [t|]; [|congruence]. destruct Hti as [j [Hg ->]]. rewrite Hg. reflexivity. }
    rewrite H3. cbn [bind].
    match goal with |- context [omapM ?f _] => set (one := f) end.
    assert (Hone : forall x, is_ok (one x) = is_ok (run_from_index g weighted x target ti cutoff fo wp)).
    { intros x. unfold one. destruct (run_from_index g weighted x target ti cutoff fo wp); reflexivity. }
    assert (Hseq : seq 0 (number_of_nodes g) = seq 0 i ++ i :: seq (S i) (number_of_nodes g - S i)).
    { replace (number_of_nodes g) with (i + S (number_of_nodes g - S i))%nat at 1 by lia.
      rewrite seq_app. cbn [seq Nat.add]. reflexivity. }
    rewrite Hseq.
    pose proof (omapM_first_failure _ _ one (seq 0 i) i (seq (S i) (number_of_nodes g - S i))) as F.
    specialize (F (fun z Hz => eq_trans (Hone z) (Hpre z (proj2 (proj1 (in_seq _ _ _) Hz)))) (eq_trans (Hone i) Hf)).
    unfold one in F at 2. destruct (run_from_index g weighted i target ti cutoff fo wp); try discriminate;
      cbn [bind] in F; exact F.
  Qed.
End Entry.
